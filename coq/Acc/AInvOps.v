(* Acc/AInvOps.v — every level function of the Acc model preserves the invariant [AInv] and
   meets its specification (weakest-precondition proofs, then one induction on the level).
   Port of Core/DInvOps.v to Acc/Model.v: verification results carry the accumulated flag,
   deep verification recomputes and stores it, reads report it, frames collect pushed values. *)
From Salsa Require Import Base.
From Salsa.Kern Require Import CoreK CoreKFacts.
From Salsa.Core Require DurSem.
From Salsa.Acc Require Import Model Spec ProofsDfs ProofsSpec AInvBase ADurSem AInv AInvSem.

Section Ops.
Variable persist : bool.
Variable prog : qkey -> body.
Variable noeq : qkey -> bool.
Variable rank : qkey -> nat.
Hypothesis Hrank : calls_below prog rank.
Variable NF : nat.
Hypothesis Hbound : forall q, (rank q < NF)%nat.
Variable H : hist.
Variable D : dhist.
Notation E := (E prog NF H).
Notation tr := (tr prog NF H).
Notation psh := (psh prog NF H).
Notation envat := (envat prog NF H).
Notation durge := (ADurSem.durge prog NF H D).
Notation clos := (clos prog NF H).
Notation deadq := (deadq prog NF H).
Notation amemo_ok := (amemo_ok prog NF H D).
Notation AInv := (AInv prog NF H D).
Notation dtouch_below := (dtouch_below rank).
Notation covers := (AInvSem.covers persist prog NF H D).
Notation fresh_memo := (AInvSem.fresh_memo persist).
Notation lower := (lower).

Definition stack_ok (s : db) (q : qkey) : Prop :=
  forall p, In p (d_stack s) -> (rank q < rank p)%nat.

Ltac conj := repeat match goal with |- _ /\ _ => split end.

(* ---------------------------------------------------------------- bookkeeping *)
Lemma dext_of_core_eq s s' : dcore_eq s s' -> d_pcell s' = d_pcell s -> dext s s'.
Proof.
  intros (Hr & Hi & Hce & Hm) Hp. constructor; auto.
  - intros q m Hq _ _. rewrite Hm. exact Hq.
  - intros q m Hq Hv. exists m. rewrite Hm. split; [exact Hq|]. split; [exact Hv | lia].
  - intros q m Hq. exists m. rewrite Hm. split; [exact Hq | lia].
Qed.

Lemma dtouch_of_core_eq s s' k : dcore_eq s s' -> dtouch_below s s' k.
Proof. intros (_ & _ & _ & Hm) p _. rewrite Hm; reflexivity. Qed.

Lemma dcore_eq_log s l : dcore_eq s (set_log s l).
Proof. repeat split. Qed.
Lemma dcore_eq_stack s l : dcore_eq s (set_stack s l).
Proof. repeat split. Qed.
Lemma dcore_eq_lru s l : dcore_eq s (set_lru s l).
Proof. repeat split. Qed.

Definition XP (s0 : db) : panic -> db -> Prop :=
  fun p s' => dallowed s0 p /\ AInv s' /\ dext s0 s'.

Lemma XP_trans s0 s1 p s' : dext s0 s1 -> XP s1 p s' -> XP s0 p s'.
Proof.
  intros He (Ha & HI & He'). split; [apply (dallowed_ext s0 s1); [apply (ext_pcell _ _ He) | exact Ha]|].
  split; [exact HI|]. eapply dext_trans; eassumption.
Qed.

(* ---------------------------------------------------------------- mark_verified *)
(* [Hjust]: storing the re-verified memo is justified (by an edge walk or by the short-cut);
   [P] is what the justification establishes besides the invariant *)
Lemma mark_verified_ok q mm s s0 (P : Prop) :
  dext s0 s -> AInv s ->
  (forall s1, dcore_eq s s1 -> AInv s1 ->
     AInv (store s1 q (with_verified mm (cur s))) /\ dext s1 (store s1 q (with_verified mm (cur s))) /\ P) ->
  wp (mark_verified q mm)
     (fun m' s' => m' = with_verified mm (cur s) /\ AInv s' /\ dext s s' /\
                   dtouch_below s s' (S (rank q)) /\ d_stack s' = d_stack s /\
                   d_memo s' q = Some m' /\ P) (XP s0) s.
Proof.
  intros He0 HI Hjust.
  unfold mark_verified.
  apply wp_bind, wp_get. apply wp_bind, wp_emit.
  set (s1 := set_log s (EvValidate q :: d_log s)).
  assert (Hce : dcore_eq s s1) by apply dcore_eq_log.
  assert (HI1 : AInv s1) by (apply (AInv_core_eq prog NF H D s); assumption).
  apply wp_bind. unfold set_memo_at. apply wp_modify. apply wp_ret.
  change (set_memo s1 _) with (store s1 q (with_verified mm (cur s))).
  destruct (Hjust s1 Hce HI1) as (HI2 & Hext & HP).
  split; [reflexivity|]. split; [exact HI2|]. split.
  { eapply dext_trans; [apply dext_of_core_eq; [exact Hce | reflexivity] | exact Hext]. }
  split.
  { eapply dtouch_trans with (k1 := S (rank q)) (k2 := S (rank q));
      [lia | lia | apply dtouch_of_core_eq; exact Hce | apply dtouch_store; lia]. }
  split; [reflexivity|]. split; [|exact HP].
  unfold store; cbn. apply upd_same.
Qed.

(* ---------------------------------------------------------------- shallow verification *)
Lemma shallow_cases s m :
  match shallow_verify s m with
  | ShVerified => m_verified m = cur s
  | ShHigher => m_verified m <> cur s /\ lcs s (m_dur m) <= m_verified m
  | ShNo => m_verified m <> cur s
  end.
Proof.
  unfold shallow_verify.
  destruct (N.eqb_spec (m_verified m) (cur s)) as [Heq | Hne]; [exact Heq|].
  destruct (shallow_ok (last_changed (d_revs s) (m_dur m)) (m_verified m)) eqn:Hsh; [|exact Hne].
  split; [exact Hne|]. apply shallow_ok_spec in Hsh. exact Hsh.
Qed.

Definition verified_now (s0 : db) (q : qkey) (m : memo) (m' : memo) (s' : db) : Prop :=
  AInv s' /\ dext s0 s' /\ dtouch_below s0 s' (S (rank q)) /\ d_stack s' = d_stack s0 /\
  d_memo s' q = Some m' /\ m_verified m' = cur s0 /\ m_val m' = m_val m /\
  m_dur m' = m_dur m /\ m_changed m' = m_changed m /\ E (cur s0) q = E (m_verified m) q.

Lemma update_shallow_ok q m s u s0 :
  dext s0 s ->
  AInv s -> d_memo s q = Some m -> shallow_verify s m = u -> u <> ShNo ->
  wp (update_shallow q m u) (fun m' s' => verified_now s q m m' s') (XP s0) s.
Proof.
  intros He0 HI Hm Hu Hne.
  pose proof (shallow_cases s m) as Hc. rewrite Hu in Hc.
  destruct u; [| |contradiction]; cbn [update_shallow].
  - apply wp_ret. unfold verified_now. rewrite Hc.
    split; [exact HI|]. split; [apply dext_refl|]. split; [apply dtouch_refl|].
    conj; auto.
  - destruct Hc as [_ Hlc].
    assert (Hjust : forall s1, dcore_eq s s1 -> AInv s1 ->
              AInv (store s1 q (with_verified m (cur s))) /\ dext s1 (store s1 q (with_verified m (cur s))) /\
              E (cur s) q = E (m_verified m) q).
    { intros s1 Hce HI1. pose proof (dcore_eq_cur _ _ Hce) as Hc1.
      destruct Hce as (Hr & _ & _ & Hmm).
      rewrite <- Hc1.
      apply (shortcut_ok prog rank Hrank NF Hbound H D s1 q m HI1).
      - rewrite Hmm. exact Hm.
      - unfold lcs in *. rewrite Hr. exact Hlc. }
    pose proof (mark_verified_ok q m s s0 _ He0 HI Hjust) as Hmv.
    eapply wp_conseq; [exact Hmv | | intros; assumption].
    intros m' s' (-> & HI' & Hext & Ht & Hst & Hm' & HE).
    unfold verified_now. conj; auto.
Qed.

(* ---------------------------------------------------------------- specifications of a level *)
Definition fetch_post (s0 : db) (q : qkey) (r : qres) (s' : db) : Prop :=
  AInv s' /\ dext s0 s' /\ dtouch_below s0 s' (S (rank q)) /\ d_stack s' = d_stack s0 /\
  fst (fst (fst r)) = E (cur s0) q /\
  exists m, d_memo s' q = Some m /\ m_verified m = cur s0 /\ m_val m = Some (fst (fst (fst r))) /\
            m_dur m = snd (fst (fst r)) /\ m_changed m = snd (fst r) /\ ufm m = snd r.

Definition fetch_spec (L : lower) (n : nat) : Prop :=
  forall q s, (rank q < n)%nat -> AInv s -> stack_ok s q ->
    wp (l_fetch L q) (fetch_post s q) (XP s) s.

Definition mca_post (s0 : db) (q : qkey) (since : rev) (b : vres) (s' : db) : Prop :=
  AInv s' /\ dext s0 s' /\ dtouch_below s0 s' (S (rank q)) /\ d_stack s' = d_stack s0 /\
  (forall a, b = VUnchanged a ->
     exists m, d_memo s' q = Some m /\ m_verified m = cur s0 /\ m_changed m <= since /\ a = ufm m).

Definition mca_spec (L : lower) (n : nat) : Prop :=
  forall q since s, (rank q < n)%nat -> AInv s -> stack_ok s q ->
    wp (l_mca L q since) (mca_post s q since) (XP s) s.

(* ---------------------------------------------------------------- deep verification *)
(* what the walk found for an edge that answered "unchanged"; [fl] is the or of the flags *)
Definition edge_fact (s s' : db) (m : memo) (fl : bool) (e : edge) : Prop :=
  match e with
  | EIn i => f_changed (d_in s i) <= m_verified m
  | EQ d => E (m_verified m) d = E (cur s) d /\ durge (cur s) (m_dur m) d /\
            (exists md, d_memo s' d = Some md /\ m_verified md = cur s /\ m_dur m <= m_dur md) /\
            (fl = false -> deadq (cur s) d)
  end.

Lemma walk_edges_ok L n q m (HM : mca_spec L n) : forall es s inputs,
  AInv s -> d_memo s q = Some m ->
  (forall d, In (EQ d) es -> (rank d < n)%nat /\ (rank d < rank q)%nat /\
                             In (RQ d) (tr (m_verified m) q)) ->
  (forall p, In p (d_stack s) -> (rank q <= rank p)%nat) ->
  wp (walk_edges L es (m_verified m) inputs)
     (fun r s' => AInv s' /\ dext s s' /\ dtouch_below s s' (rank q) /\ d_stack s' = d_stack s /\
        (forall fl, r = Some fl -> (fl = false -> inputs = false) /\
                                   forall e, In e es -> edge_fact s s' m fl e)) (XP s) s.
Proof.
  induction es as [|e es IH]; intros s inputs HI Hm Hes Hst; cbn [walk_edges].
  - apply wp_ret. split; [exact HI|]. split; [apply dext_refl|]. split; [apply dtouch_refl|].
    split; [reflexivity|]. intros fl Hfl. injection Hfl as <-. split; [auto | intros e []].
  - destruct e as [i | d].
    + apply wp_bind, wp_get.
      destruct (changed_after (f_changed (d_in s i)) (m_verified m)) eqn:Hca.
      * apply wp_ret. split; [exact HI|]. split; [apply dext_refl|]. split; [apply dtouch_refl|].
        split; [reflexivity|]. intros fl Hfl. discriminate.
      * apply changed_after_false in Hca.
        eapply wp_conseq; [apply (IH s inputs HI Hm) | |intros; assumption].
        -- intros d Hd. apply Hes. right; exact Hd.
        -- exact Hst.
        -- intros r s' (HI' & He & Ht & Hs & Hb). conj; auto.
           intros fl Hfl. destruct (Hb fl Hfl) as [A B]. split; [exact A|].
           intros e [<- | He']; [exact Hca | apply B; assumption].
    + destruct (Hes d (or_introl eq_refl)) as (Hdn & Hdq & Hind).
      apply wp_bind.
      eapply wp_conseq; [apply (HM d (m_verified m) s Hdn HI) | |intros; assumption].
      { intros p Hp. specialize (Hst p Hp). lia. }
      intros c s1 (HI1 & He1 & Ht1 & Hs1 & Hc).
      pose proof (dext_cur _ _ He1) as Hcur1.
      assert (Hm1 : d_memo s1 q = Some m) by (rewrite (Ht1 q) by lia; exact Hm).
      destruct c as [|a].
      * apply wp_ret. split; [exact HI1|]. split; [exact He1|]. split.
        { eapply dtouch_trans with (k1 := S (rank d)) (k2 := rank q);
            [lia | lia | exact Ht1 | apply dtouch_refl]. }
        split; [exact Hs1|]. intros fl Hfl. discriminate.
      * destruct (Hc a eq_refl) as (md & Hmd & Hvd & Hcd & Ha).
        pose proof (inv_memo _ _ _ _ _ HI1 q m Hm1) as Hok.
        pose proof (inv_memo _ _ _ _ _ HI1 d md Hmd) as Hokd.
        destruct (mo_obs _ _ _ _ _ _ _ Hok d (clos_one _ _ _ _ _ _ Hind)) as (md0 & Hmd0 & Hobs).
        rewrite Hmd in Hmd0. injection Hmd0 as <-.
        destruct Hobs as [HEd Hdd]; [left; exact Hcd|].
        rewrite Hvd in HEd.
        assert (Hdgd : durge (cur s) (m_dur m) d).
        { eapply durge_mono; [exact Hdd|]. rewrite <- Hvd. apply (mo_durge _ _ _ _ _ _ _ Hokd). }
        assert (Hdead : a = false -> deadq (cur s) d).
        { intros Ha0. rewrite <- Hvd. apply (ufm_dead prog NF H D s1 d md HI1 Hmd). congruence. }
        eapply wp_conseq; [apply (IH s1 (inputs || a) HI1 Hm1) | |].
        -- intros d' Hd'. apply (Hes d' (or_intror Hd')).
        -- rewrite Hs1. exact Hst.
        -- intros r s' (HI' & He & Ht & Hs & Hb).
           split; [exact HI'|]. split; [eapply dext_trans; eassumption|]. split.
           { eapply dtouch_trans with (k1 := S (rank d)) (k2 := rank q);
               [lia | lia | exact Ht1 | exact Ht]. }
           split; [congruence|].
           intros fl Hfl. destruct (Hb fl Hfl) as [A B].
           assert (Hor : fl = false -> inputs = false /\ a = false).
           { intros F. apply orb_false_iff. apply A. exact F. }
           split; [intros F; apply (Hor F)|].
           intros e [<- | He'].
           ++ split; [exact HEd|]. split; [exact Hdgd|]. split.
              ** destruct (ext_vcur _ _ He d md Hmd) as (md' & Hmd' & Hvd' & Hdd'); [congruence|].
                 exists md'. split; [exact Hmd'|]. split; [congruence | lia].
              ** intros F. apply Hdead. apply (Hor F).
           ++ specialize (B e He'). destruct e as [i | d']; cbn in *.
              ** rewrite (ext_in _ _ He1) in B. exact B.
              ** rewrite Hcur1 in B. exact B.
        -- intros p s' Hx. eapply XP_trans; eassumption.
Qed.

Definition verify_post (s0 : db) (q : qkey) (m : memo) (r : bool * memo) (s' : db) : Prop :=
  AInv s' /\ dext s0 s' /\ dtouch_below s0 s' (S (rank q)) /\ d_stack s' = d_stack s0 /\
  (fst r = true -> verified_now s0 q m (snd r) s') /\
  (fst r = false -> d_memo s' q = d_memo s0 q).

Lemma deep_verify_ok L n q m s (HM : mca_spec L n) :
  (rank q <= n)%nat -> AInv s -> d_memo s q = Some m -> m_verified m <> cur s ->
  (forall p, In p (d_stack s) -> (rank q <= rank p)%nat) ->
  wp (deep_verify L q m) (verify_post s q m) (XP s) s.
Proof.
  intros Hn HI Hm Hvne Hst. unfold deep_verify.
  pose proof (inv_memo _ _ _ _ _ HI q m Hm) as Hok.
  destruct (m_untracked m) eqn:Hu.
  - apply wp_ret. unfold verify_post; cbn [fst snd].
    split; [exact HI|]. split; [apply dext_refl|]. split; [apply dtouch_refl|].
    split; [reflexivity|]. split; [discriminate | reflexivity].
  - apply wp_bind.
    eapply wp_conseq; [apply (walk_edges_ok L n q m HM (m_edges m) s false HI Hm) | |intros; assumption].
    { intros d Hd. pose proof (mo_edges_q _ _ _ _ _ _ _ Hok d Hd) as Hin.
      pose proof (tr_calls prog rank Hrank NF H _ _ _ Hin). conj; [lia | lia | exact Hin]. }
    { exact Hst. }
    intros c s1 (HI1 & He1 & Ht1 & Hs1 & Hc).
    pose proof (dext_cur _ _ He1) as Hcur1.
    assert (Hm1 : d_memo s1 q = Some m) by (rewrite (Ht1 q) by lia; exact Hm).
    destruct c as [fl|].
    + destruct (Hc fl eq_refl) as [_ Hfacts].
      apply wp_bind.
      assert (Hjust : forall s2, dcore_eq s1 s2 -> AInv s2 ->
                AInv (store s2 q (with_verified (with_accin m fl) (cur s1))) /\
                dext s2 (store s2 q (with_verified (with_accin m fl) (cur s1))) /\
                E (cur s1) q = E (m_verified m) q).
      { intros s2 Hce HI2. pose proof (dcore_eq_cur _ _ Hce) as Hc2.
        destruct Hce as (Hr2 & Hi2 & _ & Hmm2).
        rewrite <- Hc2.
        apply (deep_ok prog rank Hrank NF Hbound H D s2 q m fl HI2);
          [rewrite Hmm2; exact Hm1 | exact Hu | rewrite Hc2, Hcur1; exact Hvne|].
        intros e He. specialize (Hfacts e He). destruct e as [i | d]; cbn in *.
        - rewrite Hi2, (ext_in _ _ He1). exact Hfacts.
        - rewrite Hc2, Hcur1, Hmm2. exact Hfacts. }
      eapply wp_conseq; [apply (mark_verified_ok q (with_accin m fl) s1 s _ He1 HI1 Hjust) | |intros; assumption].
      intros m' s2 (-> & HI2 & He2 & Ht2 & Hs2 & Hm2 & HE).
      apply wp_ret. unfold verify_post; cbn [fst snd].
      split; [exact HI2|]. split; [eapply dext_trans; eassumption|]. split.
      { eapply dtouch_trans with (k1 := rank q) (k2 := S (rank q));
          [lia | lia | exact Ht1 | exact Ht2]. }
      split; [congruence|]. split; [|discriminate].
      intros _. unfold verified_now. rewrite Hcur1 in *.
      split; [exact HI2|]. split; [eapply dext_trans; eassumption|]. split.
      { eapply dtouch_trans with (k1 := rank q) (k2 := S (rank q));
          [lia | lia | exact Ht1 | exact Ht2]. }
      conj; auto. congruence.
    + apply wp_ret. unfold verify_post; cbn [fst snd].
      split; [exact HI1|]. split; [exact He1|]. split.
      { eapply dtouch_trans with (k1 := rank q) (k2 := 0%nat);
          [lia | lia | exact Ht1 | apply dtouch_refl]. }
      split; [exact Hs1|]. split; [discriminate|]. intros _. congruence.
Qed.

Lemma verify_memo_ok L n q m s (HM : mca_spec L n) :
  (rank q <= n)%nat -> AInv s -> d_memo s q = Some m ->
  (forall p, In p (d_stack s) -> (rank q <= rank p)%nat) ->
  wp (verify_memo L q m) (verify_post s q m) (XP s) s.
Proof.
  intros Hn HI Hm Hst. unfold verify_memo.
  apply wp_bind, wp_get.
  destruct (shallow_verify s m) eqn:Hsh.
  - apply wp_bind.
    eapply wp_conseq; [apply (update_shallow_ok q m s ShVerified s (dext_refl s) HI Hm Hsh); discriminate | |intros; assumption].
    intros m' s' Hv. apply wp_ret. unfold verify_post; cbn [fst snd].
    pose proof Hv as (A & B & C & D0 & _).
    conj; auto. discriminate.
  - apply wp_bind.
    eapply wp_conseq; [apply (update_shallow_ok q m s ShHigher s (dext_refl s) HI Hm Hsh); discriminate | |intros; assumption].
    intros m' s' Hv. apply wp_ret. unfold verify_post; cbn [fst snd].
    pose proof Hv as (A & B & C & D0 & _).
    conj; auto. discriminate.
  - pose proof (shallow_cases s m) as Hc. rewrite Hsh in Hc.
    apply (deep_verify_ok L n q m s HM Hn HI Hm Hc Hst).
Qed.

(* ---------------------------------------------------------------- frames while running a body *)
Lemma In_add_edge e' es e : In e' (add_edge es e) <-> In e' es \/ e' = e.
Proof.
  unfold add_edge. destruct (existsb (edge_eqb e) es) eqn:Hex.
  - split; [auto|]. intros [Hin | ->]; [exact Hin|]. apply mem_In. exact Hex.
  - rewrite in_app_iff. cbn. intuition.
Qed.

Lemma sle_ext s s' c x : dext s s' -> sle s c x -> sle s' c x.
Proof.
  intros He. destruct x as [i | d | c0 |]; cbn; try tauto.
  - rewrite (ext_in _ _ He). tauto.
  - intros (md & Hmd & Hle). destruct (ext_mono _ _ He d md Hmd) as (md' & Hmd' & Hc).
    exists md'. split; [exact Hmd'|]. lia.
Qed.

Lemma omit_ok_ext s s' e : dext s s' -> omit_ok persist s e -> omit_ok persist s' e.
Proof.
  intros He [Hp Hx]. split; [exact Hp|]. destruct e as [i | d].
  - rewrite (ext_in _ _ He). exact Hx.
  - destruct Hx as (md & Hmd & Hv & Hx & Hd & Hu).
    exists md. rewrite (dext_cur _ _ He). conj; auto. apply (ext_valid _ _ He); assumption.
Qed.

Lemma covers_ext s s' pre fr : dext s s' -> covers s pre fr -> covers s' pre fr.
Proof.
  intros He [a b c d f f1 f2 g h i j1 j2 j3]. pose proof (dext_cur _ _ He) as Hc.
  constructor; rewrite ?Hc, ?(ext_in _ _ He); auto.
  - intros d0 Hd0. destruct (b d0 Hd0) as (md & Hmd & Hv & Hx & Hrest).
    exists md. split; [apply (ext_valid _ _ He); assumption|]. split; [exact Hv|]. split; assumption.
  - destruct f2 as [A | (x & Hx & Hs)]; [left; exact A | right].
    exists x. split; [exact Hx | apply (sle_ext s s'); assumption].
  - intros k Hk Hki Hkq Hku. apply i; try assumption.
    intros d0 Hd0 md Hmd. destruct (b d0 Hd0) as (md0 & Hmd0 & Hv & Hx & _).
    rewrite Hmd in Hmd0. injection Hmd0 as <-.
    apply (Hkq d0 Hd0). apply (ext_valid _ _ He); assumption.
  - intros e He0 Hne. apply (omit_ok_ext s s' e He). apply j3; assumption.
Qed.

(* the edge part of a read: [rec] says whether the read is recorded *)
Lemma edges_step s pre es e (x : rd) (rec : bool) :
  redges [x] = [e] ->
  sub_rm (rmok prog NF H D (cur s)) es (dd [] (redges pre)) ->
  (forall e0, In e0 (redges pre) -> ~ In e0 es -> omit_ok persist s e0) ->
  (rec = true -> ~ omit_ok persist s e) ->
  (rec = false -> omit_ok persist s e /\ rmok prog NF H D (cur s) e) ->
  let es' := if rec then add_edge es e else es in
  sub_rm (rmok prog NF H D (cur s)) es' (dd [] (redges (pre ++ [x]))) /\
  (forall e0, In e0 (redges (pre ++ [x])) -> ~ In e0 es' -> omit_ok persist s e0).
Proof.
  intros Hx Hsub Homit Hrec Hnrec es'.
  rewrite redges_app, Hx, dd_snoc. change (mem e []) with false. cbn [orb].
  assert (Hsubset : forall e0, In e0 es -> In e0 (redges pre)).
  { intros e0 He0. apply (sub_rm_In _ _ _ _ Hsub) in He0. apply dd_In in He0. apply He0. }
  destruct rec; unfold es'.
  - (* recorded *)
    assert (Hno : ~ omit_ok persist s e) by (apply Hrec; reflexivity).
    split.
    + destruct (mem e (redges pre)) eqn:Hmem.
      * apply mem_In in Hmem. rewrite app_nil_r.
        assert (Hin : In e es).
        { destruct (in_dec edge_eq_dec e es) as [A | A]; [exact A|].
          exfalso. apply Hno. apply Homit; assumption. }
        unfold add_edge. apply mem_In in Hin. unfold mem in Hin. rewrite Hin. exact Hsub.
      * apply mem_nIn in Hmem.
        assert (Hnin : ~ In e es) by (intros A; apply Hmem; apply Hsubset; exact A).
        unfold add_edge. apply mem_nIn in Hnin. unfold mem in Hnin. rewrite Hnin.
        apply sub_rm_snoc_keep. exact Hsub.
    + intros e0 He0 Hn0. apply in_app_iff in He0. destruct He0 as [He0 | [<- | []]].
      * apply Homit; [exact He0|]. intros A. apply Hn0. apply In_add_edge. left; exact A.
      * exfalso. apply Hn0. apply In_add_edge. right; reflexivity.
  - (* not recorded *)
    destruct (Hnrec eq_refl) as [Hom Hrm].
    split.
    + destruct (mem e (redges pre)); [rewrite app_nil_r; exact Hsub|].
      apply sub_rm_snoc_drop; assumption.
    + intros e0 He0 Hn0. apply in_app_iff in He0. destruct He0 as [He0 | [<- | []]].
      * apply Homit; assumption.
      * exact Hom.
Qed.

Lemma covers_add_in s pre fr i :
  AInv s -> covers s pre fr ->
  covers s (pre ++ [RIn i])
         (add_read_simple persist fr (EIn i) (f_dur (d_in s i)) (f_changed (d_in s i))).
Proof.
  intros HI [a b c d e e1 e2 f g h j1 j2 j3].
  pose proof (inv_in_le _ _ _ _ _ HI i) as Hle.
  assert (HDcur : D (cur s) i = f_dur (d_in s i)).
  { apply (inv_dur _ _ _ _ _ HI); [exact Hle | lia]. }
  set (rec := persist || negb (f_dur (d_in s i) =? D_NEVER)).
  destruct (edges_step s pre (fr_edges fr) (EIn i) (RIn i) rec eq_refl j2 j3) as [Hsub' Homit'].
  { intros Hr [Hp H3]. unfold rec in Hr. rewrite Hp in Hr. cbn in H3, Hr. rewrite H3 in Hr. discriminate. }
  { intros Hr. unfold rec in Hr. apply orb_false_iff in Hr. destruct Hr as [Hp H3].
    apply negb_false_iff in H3. apply N.eqb_eq in H3. unfold D_NEVER in H3.
    split; [split; [exact Hp | exact H3] | cbn; rewrite HDcur; exact H3]. }
  assert (Hkeep : forall e0, In e0 (fr_edges fr) -> In e0 (if rec then add_edge (fr_edges fr) (EIn i) else fr_edges fr)).
  { intros e0 He0. destruct rec; [apply In_add_edge; left; exact He0 | exact He0]. }
  unfold add_read_simple, dur_min, rev_max. fold rec.
  constructor; cbn [fr_dur fr_changed fr_edges fr_untracked fr_acc fr_accin].
  - intros j Hj. apply in_app_iff in Hj. destruct Hj as [Hj | [Hj | []]].
    + destruct (a j Hj) as (A & B & C). split; [|split; lia].
      destruct A as [A | A]; [left; apply Hkeep; exact A | right; exact A].
    + injection Hj as <-. split; [|split; lia].
      unfold rec. destruct (N.eqb_spec (f_dur (d_in s i)) D_NEVER) as [H3 | Hn3]; [right; exact H3 | left].
      rewrite orb_true_r. apply In_add_edge; right; reflexivity.
  - intros d0 Hd0. apply in_app_iff in Hd0. destruct Hd0 as [Hd0 | [Hd0 | []]]; [|discriminate].
    destruct (b d0 Hd0) as (md & A & B & C & D0 & E0 & F).
    exists md. conj; auto; try lia.
    destruct F as [F | F]; [left; apply Hkeep; exact F | right; exact F].
  - intros x Hx Hk. apply in_app_iff in Hx. destruct Hx as [Hx | [Hx | []]].
    + destruct (c x Hx Hk) as (A & B & C). conj; auto; lia.
    + subst x. destruct Hk as [Hk | (c0 & Hk)]; discriminate.
  - intros d0 Hd0. apply in_app_iff. left. apply d.
    destruct rec; [|exact Hd0].
    apply In_add_edge in Hd0. destruct Hd0 as [Hd0 | Hd0]; [exact Hd0 | discriminate].
  - lia.
  - lia.
  - destruct (N.max_spec (fr_changed fr) (f_changed (d_in s i))) as [[Hlt ->] | [Hge ->]].
    + right. exists (RIn i). split; [apply in_app_iff; right; left; reflexivity | cbn; lia].
    + destruct e2 as [A | (x & Hx & Hs)]; [left; exact A | right].
      exists x. split; [apply in_app_iff; left; exact Hx | exact Hs].
  - lia.
  - intros Hu. rewrite (g Hu). lia.
  - intros k Hk Hki Hkq Hku.
    assert (k <= fr_dur fr).
    { apply h; [exact Hk | | |].
      - intros j Hj. apply Hki. apply in_app_iff; left; exact Hj.
      - intros d0 Hd0. apply Hkq. apply in_app_iff; left; exact Hd0.
      - intros x Hx. apply Hku. apply in_app_iff; left; exact Hx. }
    assert (k <= f_dur (d_in s i)) by (apply Hki; apply in_app_iff; right; left; reflexivity).
    lia.
  - intros Hai d0 Hd0. apply in_app_iff in Hd0. destruct Hd0 as [Hd0 | [Hd0 | []]]; [|discriminate].
    apply j1; assumption.
  - exact Hsub'.
  - exact Homit'.
Qed.

Lemma covers_add_q s pre fr d md :
  AInv s -> covers s pre fr ->
  d_memo s d = Some md -> m_verified md = cur s -> m_val md <> None ->
  covers s (pre ++ [RQ d]) (add_read persist fr (EQ d) (m_dur md) (m_changed md) (ufm md)).
Proof.
  intros HI [a b c dd0 e e1 e2 f g h j1 j2 j3] Hmd Hv Hx.
  pose proof (inv_memo _ _ _ _ _ HI d md Hmd) as Hok.
  pose proof (mo_order _ _ _ _ _ _ _ Hok) as (_ & Hcv & Hvc).
  assert (Hdead : ufm md = false -> deadq (cur s) d).
  { intros Hu. rewrite <- Hv. apply (ufm_dead prog NF H D s d md HI Hmd Hu). }
  set (rec := persist || negb (m_dur md =? D_NEVER) || ufm md).
  destruct (edges_step s pre (fr_edges fr) (EQ d) (RQ d) rec eq_refl j2 j3) as [Hsub' Homit'].
  { intros Hr [Hp (md0 & Hmd0 & _ & _ & H3 & Hu)]. rewrite Hmd in Hmd0. injection Hmd0 as <-.
    unfold rec in Hr. rewrite Hp, H3, Hu in Hr. discriminate. }
  { intros Hr. unfold rec in Hr. apply orb_false_iff in Hr. destruct Hr as [Hr Hu].
    apply orb_false_iff in Hr. destruct Hr as [Hp H3].
    apply negb_false_iff in H3. apply N.eqb_eq in H3. unfold D_NEVER in H3.
    split.
    - split; [exact Hp|]. exists md. conj; auto.
    - cbn. split; [|apply Hdead; exact Hu].
      rewrite <- H3, <- Hv. apply (mo_durge _ _ _ _ _ _ _ Hok). }
  assert (Hkeep : forall e0, In e0 (fr_edges fr) -> In e0 (if rec then add_edge (fr_edges fr) (EQ d) else fr_edges fr)).
  { intros e0 He0. destruct rec; [apply In_add_edge; left; exact He0 | exact He0]. }
  unfold add_read, dur_min, rev_max. fold rec.
  constructor; cbn [fr_dur fr_changed fr_edges fr_untracked fr_acc fr_accin].
  - intros j Hj. apply in_app_iff in Hj. destruct Hj as [Hj | [Hj | []]]; [|discriminate].
    destruct (a j Hj) as (A & B & C). split; [|split; lia].
    destruct A as [A | A]; [left; apply Hkeep; exact A | right; exact A].
  - intros d0 Hd0. apply in_app_iff in Hd0. destruct Hd0 as [Hd0 | [Hd0 | []]].
    + destruct (b d0 Hd0) as (md0 & A & B & C & D0 & E0 & F).
      exists md0. conj; auto; try lia.
      destruct F as [F | F]; [left; apply Hkeep; exact F | right; exact F].
    + injection Hd0 as <-. exists md. conj; auto; try lia.
      unfold rec. destruct (N.eqb_spec (m_dur md) D_NEVER) as [H3 | Hn3]; [right; exact H3 | left].
      cbn [negb]. rewrite orb_true_r. cbn [orb]. apply In_add_edge; right; reflexivity.
  - intros x Hxx Hk. apply in_app_iff in Hxx. destruct Hxx as [Hxx | [Hxx | []]].
    + destruct (c x Hxx Hk) as (A & B & C). conj; auto; lia.
    + subst x. destruct Hk as [Hk | (c0 & Hk)]; discriminate.
  - intros d0 Hd0. apply in_app_iff.
    destruct rec; [|left; apply dd0; exact Hd0].
    apply In_add_edge in Hd0. destruct Hd0 as [Hd0 | Hd0]; [left; apply dd0; exact Hd0 | right; left; congruence].
  - lia.
  - lia.
  - destruct (N.max_spec (fr_changed fr) (m_changed md)) as [[Hlt ->] | [Hge ->]].
    + right. exists (RQ d). split; [apply in_app_iff; right; left; reflexivity|].
      cbn. exists md. split; [exact Hmd | lia].
    + destruct e2 as [A | (x & Hxx & Hs)]; [left; exact A | right].
      exists x. split; [apply in_app_iff; left; exact Hxx | exact Hs].
  - lia.
  - intros Hu. rewrite (g Hu). lia.
  - intros k Hk Hki Hkq Hku.
    assert (k <= fr_dur fr).
    { apply h; [exact Hk | | |].
      - intros j Hj. apply Hki. apply in_app_iff; left; exact Hj.
      - intros d0 Hd0. apply Hkq. apply in_app_iff; left; exact Hd0.
      - intros x Hxx. apply Hku. apply in_app_iff; left; exact Hxx. }
    assert (k <= m_dur md).
    { apply (Hkq d); [apply in_app_iff; right; left; reflexivity | exact Hmd]. }
    lia.
  - intros Hai d0 Hd0. apply orb_false_iff in Hai. destruct Hai as [Hai Hu].
    apply in_app_iff in Hd0. destruct Hd0 as [Hd0 | [Hd0 | []]].
    + apply j1; assumption.
    + injection Hd0 as <-. apply Hdead. exact Hu.
  - exact Hsub'.
  - exact Homit'.
Qed.

Lemma covers_add_untracked s pre fr x :
  AInv s -> covers s pre fr -> untr x ->
  covers s (pre ++ [x]) (add_untracked fr (cur s)).
Proof.
  intros HI [a b c d e e1 e2 f g h j1 j2 j3] Hx.
  assert (Hre : redges (pre ++ [x]) = redges pre).
  { rewrite redges_app. destruct Hx as [-> | (c0 & ->)]; cbn; apply app_nil_r. }
  unfold add_untracked, D_LOW.
  constructor; cbn [fr_dur fr_changed fr_edges fr_untracked fr_acc fr_accin]; rewrite ?Hre.
  - intros j Hj. apply in_app_iff in Hj. destruct Hj as [Hj | [Hj | []]].
    + destruct (a j Hj) as (A & B & C). conj; auto; [apply (inv_in_le _ _ _ _ _ HI) | lia].
    + subst x. destruct Hx as [Hx | (c0 & Hx)]; discriminate.
  - intros d0 Hd0. apply in_app_iff in Hd0. destruct Hd0 as [Hd0 | [Hd0 | []]].
    + destruct (b d0 Hd0) as (md0 & A & B & C & D0 & E0 & F).
      pose proof (mo_order _ _ _ _ _ _ _ (inv_memo _ _ _ _ _ HI d0 md0 A)).
      exists md0. conj; auto; try lia.
    + subst x. destruct Hx as [Hx | (c0 & Hx)]; discriminate.
  - intros y Hy Hk. conj; reflexivity.
  - intros d0 Hd0. apply in_app_iff. left. apply d; exact Hd0.
  - lia.
  - apply (inv_cur _ _ _ _ _ HI).
  - right. exists x. split; [apply in_app_iff; right; left; reflexivity|].
    destruct Hx as [-> | (c0 & ->)]; exact I.
  - lia.
  - intros _; reflexivity.
  - intros k Hk Hki Hkq Hku.
    assert (k = 0); [|lia]. apply (Hku x); [apply in_app_iff; right; left; reflexivity | exact Hx].
  - intros Hai d0 Hd0. apply in_app_iff in Hd0. destruct Hd0 as [Hd0 | [Hd0 | []]].
    + apply j1; assumption.
    + subst x. destruct Hx as [Hx | (c0 & Hx)]; discriminate.
  - exact j2.
  - exact j3.
Qed.

Lemma covers_add_acc s pre fr v : covers s pre fr -> covers s pre (add_acc fr v).
Proof. intros [a b c d e e1 e2 f g h j1 j2 j3]. constructor; auto. Qed.

(* ---------------------------------------------------------------- running a body *)
Lemma run_body_ok L n q c0 (HF : fetch_spec L n) : forall b pre fr s,
  cur s = c0 ->
  tr c0 q = pre ++ trace (envat c0) b ->
  E c0 q = run (envat c0) b ->
  psh c0 q = fr_acc fr ++ pushes (envat c0) b ->
  (forall d, calls b d -> (rank d < n)%nat /\ (rank d < rank q)%nat) ->
  AInv s -> covers s pre fr ->
  (forall p, In p (d_stack s) -> (rank q <= rank p)%nat) ->
  wp (run_body persist L b fr)
     (fun r s' => AInv s' /\ dext s s' /\ dtouch_below s s' (rank q) /\ d_stack s' = d_stack s /\
                  fst r = E c0 q /\ covers s' (tr c0 q) (snd r) /\ fr_acc (snd r) = psh c0 q) (XP s) s.
Proof.
  induction b as [v | i k IH | d k IH | c k IH | k IH | pc k IH | av k IH];
    intros pre fr s Hc Htr HE Hps Hcalls HI Hcv Hst; cbn [run_body].
  - (* Ret *)
    apply wp_ret. cbn [trace run pushes] in *. rewrite app_nil_r in Htr, Hps.
    split; [exact HI|]. split; [apply dext_refl|]. split; [apply dtouch_refl|].
    split; [reflexivity|]. cbn [fst snd]. split; [congruence|]. split; [rewrite Htr; exact Hcv | congruence].
  - (* RdIn *)
    apply wp_bind, wp_get.
    assert (Hval : e_in (envat c0) i = f_val (d_in s i)).
    { cbn. apply (inv_in _ _ _ _ _ HI); [rewrite <- Hc; apply (inv_in_le _ _ _ _ _ HI) | lia]. }
    cbn [trace run pushes] in Htr, HE, Hps. rewrite Hval in Htr, HE, Hps.
    apply (IH (f_val (d_in s i)) (pre ++ [RIn i]) _ s Hc).
    + rewrite <- app_assoc. exact Htr.
    + exact HE.
    + exact Hps.
    + intros d Hd. apply Hcalls. eapply calls_in_rdin; exact Hd.
    + exact HI.
    + apply covers_add_in; assumption.
    + exact Hst.
  - (* CallQ *)
    destruct (Hcalls d (calls_here d k)) as [Hdn Hdq].
    apply wp_bind.
    eapply wp_conseq; [apply (HF d s Hdn HI) | |intros; assumption].
    { intros p Hp. specialize (Hst p Hp). lia. }
    intros [[[v dd] cd] ai] s1 (HI1 & He1 & Ht1 & Hs1 & Hv & (md & Hmd & Hvd & Hxd & Hdd & Hcd & Hai)).
    cbn [fst snd] in *.
    pose proof (dext_cur _ _ He1) as Hc1.
    assert (Hval : e_q (envat c0) d = v).
    { cbn. rewrite Hv, Hc. reflexivity. }
    cbn [trace run pushes] in Htr, HE, Hps. rewrite Hval in Htr, HE, Hps.
    eapply wp_conseq; [apply (IH v (pre ++ [RQ d]) _ s1) | |].
    + congruence.
    + rewrite <- app_assoc. exact Htr.
    + exact HE.
    + exact Hps.
    + intros d' Hd'. apply Hcalls. eapply calls_in_call; exact Hd'.
    + exact HI1.
    + subst dd cd ai. apply covers_add_q; try assumption.
      * eapply covers_ext; eassumption.
      * congruence.
      * rewrite Hxd; discriminate.
    + rewrite Hs1. exact Hst.
    + intros r s2 (HI2 & He2 & Ht2 & Hs2 & Hr & Hcv2).
      split; [exact HI2|]. split; [eapply dext_trans; eassumption|]. split.
      { eapply dtouch_trans with (k1 := S (rank d)) (k2 := rank q);
          [lia | lia | exact Ht1 | exact Ht2]. }
      split; [congruence|]. split; assumption.
    + intros p s2 Hx. eapply XP_trans; eassumption.
  - (* RdCell *)
    apply wp_bind, wp_get.
    assert (Hval : e_cell (envat c0) c = d_cell s c).
    { cbn. rewrite <- Hc. apply (inv_cell _ _ _ _ _ HI). }
    cbn [trace run pushes] in Htr, HE, Hps. rewrite Hval in Htr, HE, Hps.
    apply (IH (d_cell s c) (pre ++ [RCell c]) _ s Hc).
    + rewrite <- app_assoc. exact Htr.
    + exact HE.
    + exact Hps.
    + intros d Hd. apply Hcalls. eapply calls_in_cell; exact Hd.
    + exact HI.
    + apply covers_add_untracked; [assumption | assumption | right; eauto].
    + exact Hst.
  - (* Touch *)
    apply wp_bind, wp_get.
    cbn [trace run pushes] in Htr, HE, Hps.
    apply (IH (pre ++ [RTouch]) _ s Hc).
    + rewrite <- app_assoc. exact Htr.
    + exact HE.
    + exact Hps.
    + intros d Hd. apply Hcalls. eapply calls_in_touch; exact Hd.
    + exact HI.
    + apply covers_add_untracked; [assumption | assumption | left; reflexivity].
    + exact Hst.
  - (* PanicIf *)
    apply wp_bind, wp_get.
    cbn [trace run pushes] in Htr, HE, Hps.
    destruct (d_pcell s pc =? 0) eqn:Hpc.
    + apply (IH pre fr s Hc); try assumption.
      intros d Hd. apply Hcalls. eapply calls_in_panicif; exact Hd.
    + apply wp_fail. split; [split; [reflexivity | exists pc; apply N.eqb_neq; exact Hpc]|].
      split; [exact HI | apply dext_refl].
  - (* Accum *)
    cbn [trace run pushes] in Htr, HE, Hps.
    apply (IH pre (add_acc fr av) s Hc); try assumption.
    + cbn [add_acc fr_acc]. rewrite <- app_assoc. exact Hps.
    + intros d Hd. apply Hcalls. eapply calls_in_accum; exact Hd.
    + apply covers_add_acc. exact Hcv.
Qed.

(* ---------------------------------------------------------------- execute *)
Definition exec_post (s0 : db) (q : qkey) (m : memo) (s' : db) : Prop :=
  AInv s' /\ dext s0 s' /\ dtouch_below s0 s' (S (rank q)) /\ d_stack s' = d_stack s0 /\
  d_memo s' q = Some m /\ m_verified m = cur s0 /\ m_val m = Some (E (cur s0) q).

Lemma execute_ok L n q s old (HF : fetch_spec L n) :
  (rank q <= n)%nat -> AInv s -> d_memo s q = old ->
  (forall m0, old = Some m0 -> m_verified m0 = cur s -> m_val m0 = None) ->
  (forall p, In p (d_stack s) -> (rank q <= rank p)%nat) ->
  wp (execute persist prog noeq L q old) (exec_post s q) (XP s) s.
Proof.
  intros Hn HI Hold Hnv Hst. unfold execute.
  apply wp_bind, wp_emit.
  set (s1 := set_log s (EvExec q :: d_log s)).
  assert (Hce : dcore_eq s s1) by apply dcore_eq_log.
  assert (HI1 : AInv s1) by (apply (AInv_core_eq prog NF H D s); assumption).
  assert (He01 : dext s s1) by (apply dext_of_core_eq; [exact Hce | reflexivity]).
  assert (Hcur01 : cur s1 = cur s) by reflexivity.
  apply wp_bind.
  eapply wp_conseq; [apply (run_body_ok L n q (cur s) HF (prog q) [] frame0 s1) | |].
  - exact Hcur01.
  - reflexivity.
  - apply (E_unfold prog rank Hrank NF Hbound).
  - reflexivity.
  - intros d Hd. pose proof (Hrank q d Hd). split; lia.
  - exact HI1.
  - apply covers_frame0. apply (inv_cur _ _ _ _ _ HI1).
  - exact Hst.
  - intros [v fr] s2 (HI2 & He2 & Ht2 & Hs2 & Hv & Hcv & Hacc). cbn [fst snd] in *.
    pose proof (dext_cur _ _ He2) as Hc2. rewrite Hcur01 in Hc2.
    apply wp_bind, wp_get.
    assert (He02 : dext s s2) by (eapply dext_trans; eassumption).
    assert (Ht02 : dtouch_below s s2 (rank q)).
    { eapply dtouch_trans with (k1 := 0%nat) (k2 := rank q);
        [lia | lia | apply dtouch_of_core_eq; exact Hce | exact Ht2]. }
    assert (Hold2 : d_memo s2 q = old) by (rewrite (Ht02 q) by lia; exact Hold).
    assert (Hnv2 : forall m0, old = Some m0 -> m_verified m0 = cur s2 -> m_val m0 = None).
    { intros m0 A B. apply Hnv; [exact A | congruence]. }
    assert (Hcv' : covers s2 (tr (cur s2) q) fr) by (rewrite Hc2; exact Hcv).
    assert (Hv' : v = E (cur s2) q) by (rewrite Hc2; exact Hv).
    assert (Hacc' : fr_acc fr = psh (cur s2) q) by (rewrite Hc2; exact Hacc).
    assert (Hfin : forall ch,
      (ch = fr_changed fr \/
       exists o ov, old = Some o /\ m_val o = Some ov /\ ov = v /\ ch = m_changed o /\
                    m_dur o <= fr_dur fr /\ m_changed o <= fr_changed fr) ->
      wp (set_memo_at q (fresh_memo v (cur s2) ch fr) ;;; ret (fresh_memo v (cur s2) ch fr))
         (exec_post s q) (XP s) s2).
    { intros ch Hch. apply wp_bind. unfold set_memo_at. apply wp_modify. apply wp_ret.
      change (set_memo s2 _) with (store s2 q (fresh_memo v (cur s2) ch fr)).
      destruct (fresh_store_ok persist prog rank Hrank NF Hbound H D s2 q fr v ch old HI2 Hcv' Hv' Hacc' Hold2 Hnv2 Hch)
        as [HI3 He3].
      unfold exec_post.
      split; [exact HI3|]. split; [eapply dext_trans; eassumption|]. split.
      { eapply dtouch_trans with (k1 := rank q) (k2 := S (rank q));
          [lia | lia | exact Ht02 | apply dtouch_store; lia]. }
      split; [cbn; exact Hs2|]. split; [unfold store; cbn; apply upd_same|].
      split; [cbn; exact Hc2 | cbn; rewrite Hv; reflexivity]. }
    unfold AInvSem.fresh_memo in Hfin.
    destruct old as [o|].
    + destruct (m_val o) as [ov|] eqn:Hov.
      * destruct (can_backdate_dur (fr_dur fr) (m_dur o) && negb (noeq q) && (ov =? v)) eqn:Hbk.
        -- apply andb_true_iff in Hbk. destruct Hbk as [Hbk Hbd].
           apply andb_true_iff in Hbk. destruct Hbk as [Hbk _]. apply can_backdate_dur_spec in Hbk.
           apply N.eqb_eq in Hbd.
           destruct (changed_after (m_changed o) (fr_changed fr)) eqn:Hca.
           ++ exfalso. apply changed_after_spec in Hca.
              pose proof (frame_changed_lb persist prog NF H D s2 q fr o HI2 Hcv' Hold2). lia.
           ++ apply changed_after_false in Hca.
              apply Hfin. right. exists o, ov. conj; auto.
        -- apply Hfin. left; reflexivity.
      * apply Hfin. left; reflexivity.
    + apply Hfin. left; reflexivity.
  - intros p s' Hx. eapply XP_trans; eassumption.
Qed.

(* ---------------------------------------------------------------- claims, refresh, fetch *)
Lemma claim_ok q s (Q : unit -> db -> Prop) (X : panic -> db -> Prop) :
  stack_ok s q -> Q tt (set_stack s (q :: d_stack s)) -> wp (claim q) Q X s.
Proof.
  intros Hst HQ. unfold claim. apply wp_bind, wp_get.
  destruct (existsb (key_eqb q) (d_stack s)) eqn:Hex.
  - exfalso. apply existsb_exists in Hex. destruct Hex as (x & Hx & Heq).
    apply key_eqb_eq in Heq. subst x. specialize (Hst q Hx). lia.
  - apply wp_modify. exact HQ.
Qed.

Definition got (s0 : db) (q : qkey) (mv : memo * val) (s' : db) : Prop :=
  AInv s' /\ dext s0 s' /\ dtouch_below s0 s' (S (rank q)) /\ d_stack s' = d_stack s0 /\
  d_memo s' q = Some (fst mv) /\ m_verified (fst mv) = cur s0 /\
  m_val (fst mv) = Some (snd mv) /\ snd mv = E (cur s0) q.

Definition not_valid_with_value (s : db) (q : qkey) : Prop :=
  forall m0, d_memo s q = Some m0 -> m_verified m0 = cur s -> m_val m0 = None.

Lemma stacked s q :
  stack_ok s q ->
  forall p, In p (d_stack (set_stack s (q :: d_stack s))) -> (rank q <= rank p)%nat.
Proof. intros Hst p [<- | Hp]; [lia | specialize (Hst p Hp); lia]. Qed.

Lemma dext_set_stack s l : dext s (set_stack s l).
Proof. apply dext_of_core_eq; [apply dcore_eq_stack | reflexivity]. Qed.

Lemma fetch_cold_ok L n q s (HF : fetch_spec L n) (HM : mca_spec L n) :
  (rank q <= n)%nat -> AInv s -> stack_ok s q -> not_valid_with_value s q ->
  wp (fetch_cold persist prog noeq L q) (got s q) (XP s) s.
Proof.
  intros Hn HI Hst Hnv. unfold fetch_cold.
  apply wp_bind. apply claim_ok; [exact Hst|].
  set (s1 := set_stack s (q :: d_stack s)).
  assert (Hce : dcore_eq s s1) by apply dcore_eq_stack.
  assert (HI1 : AInv s1) by (apply (AInv_core_eq prog NF H D s); assumption).
  assert (He01 : dext s s1) by apply dext_set_stack.
  assert (Hst1 : forall p, In p (d_stack s1) -> (rank q <= rank p)%nat) by (apply stacked; exact Hst).
  apply wp_bind, wp_get. change (d_memo s1 q) with (d_memo s q).
  assert (Hexec : forall s2, AInv s2 -> dext s1 s2 -> dtouch_below s1 s2 (S (rank q)) ->
            d_stack s2 = d_stack s1 -> d_memo s2 q = d_memo s q ->
            wp (m <- execute persist prog noeq L q (d_memo s q) ;;
                release q ;;;
                match m_val m with Some v => ret (m, v) | None => nofuel end)
               (got s q) (XP s) s2).
  { intros s2 HI2 He2 Ht2 Hs2 Hm2.
    pose proof (dext_cur _ _ He2) as Hc2. change (cur s1) with (cur s) in Hc2.
    apply wp_bind.
    eapply wp_conseq; [apply (execute_ok L n q s2 (d_memo s q) HF Hn HI2 Hm2) | |].
    - intros m0 A B. apply Hnv; [exact A | congruence].
    - rewrite Hs2. exact Hst1.
    - intros m s3 (HI3 & He3 & Ht3 & Hs3 & Hm3 & Hv3 & Hx3).
      apply wp_bind. unfold release. apply wp_modify.
      rewrite Hx3. apply wp_ret.
      set (s4 := set_stack s3 (tl (d_stack s3))).
      assert (Hce4 : dcore_eq s3 s4) by apply dcore_eq_stack.
      unfold got; cbn [fst snd].
      split; [apply (AInv_core_eq prog NF H D s3); assumption|].
      split; [eapply dext_trans; [exact He01|]; eapply dext_trans; [exact He2|];
              eapply dext_trans; [exact He3 | apply dext_set_stack]|].
      split.
      { eapply dtouch_trans with (k1 := 0%nat) (k2 := S (rank q));
          [lia | lia | apply dtouch_of_core_eq; exact Hce|].
        eapply dtouch_trans with (k1 := S (rank q)) (k2 := S (rank q));
          [lia | lia | exact Ht2|].
        eapply dtouch_trans with (k1 := S (rank q)) (k2 := 0%nat);
          [lia | lia | exact Ht3 | apply dtouch_of_core_eq; exact Hce4]. }
      split; [cbn; rewrite Hs3, Hs2; reflexivity|].
      split; [exact Hm3|]. split; [congruence|]. split; [congruence | congruence].
    - intros p s3 Hx. eapply XP_trans; [eapply dext_trans; [exact He01 | exact He2] | exact Hx]. }
  destruct (d_memo s q) as [m|] eqn:Hm.
  - destruct (m_val m) as [v|] eqn:Hv.
    + apply wp_bind. apply wp_bind.
      eapply wp_conseq; [apply (verify_memo_ok L n q m s1 HM Hn HI1 Hm Hst1) | |].
      * intros [b m'] s2 (HI2 & He2 & Ht2 & Hs2 & Htrue & Hfalse). cbn [fst snd] in *.
        apply wp_ret.
        destruct b.
        -- destruct (Htrue eq_refl) as (_ & _ & _ & _ & Hm' & Hv' & Hval' & _ & _ & HE).
           apply wp_bind. unfold release. apply wp_modify. apply wp_ret.
           set (s4 := set_stack s2 (tl (d_stack s2))).
           unfold got; cbn [fst snd].
           split; [apply (AInv_core_eq prog NF H D s2); [apply dcore_eq_stack | exact HI2]|].
           split; [eapply dext_trans; [exact He01|]; eapply dext_trans; [exact He2 | apply dext_set_stack]|].
           split.
           { eapply dtouch_trans with (k1 := 0%nat) (k2 := S (rank q));
               [lia | lia | apply dtouch_of_core_eq; exact Hce|].
             eapply dtouch_trans with (k1 := S (rank q)) (k2 := 0%nat);
               [lia | lia | exact Ht2 | apply dtouch_of_core_eq; apply dcore_eq_stack]. }
           split; [cbn; rewrite Hs2; reflexivity|].
           split; [exact Hm'|]. split; [exact Hv'|]. split; [congruence|].
           change (cur s1) with (cur s) in HE. rewrite HE.
           apply (mo_val _ _ _ _ _ _ _ (inv_memo _ _ _ _ _ HI q m Hm)); exact Hv.
        -- apply Hexec; try assumption. rewrite (Hfalse eq_refl). exact Hm.
      * intros p s2 Hx. eapply XP_trans; eassumption.
    + apply wp_bind, wp_ret.
      apply Hexec; [exact HI1 | apply dext_refl | apply dtouch_refl | reflexivity | exact Hm].
  - apply wp_bind, wp_ret.
    apply Hexec; [exact HI1 | apply dext_refl | apply dtouch_refl | reflexivity | exact Hm].
Qed.

Lemma not_valid_of_ne s q m : d_memo s q = Some m -> m_verified m <> cur s -> not_valid_with_value s q.
Proof. intros Hm Hne m0 Hm0 Hv0. congruence. Qed.

Lemma fetch_hot_ok q s :
  AInv s ->
  wp (fetch_hot q)
     (fun hot s' => match hot with
                    | Some mv => got s q mv s'
                    | None => s' = s /\ not_valid_with_value s q
                    end) (XP s) s.
Proof.
  intros HI. unfold fetch_hot. apply wp_bind, wp_get.
  destruct (d_memo s q) as [m|] eqn:Hm.
  - destruct (m_val m) as [v|] eqn:Hv.
    + assert (Hgot : forall u, shallow_verify s m = u -> u <> ShNo ->
                wp (m' <- update_shallow q m u ;; ret (Some (m', v)))
                   (fun hot s' => match hot with
                                  | Some mv => got s q mv s'
                                  | None => s' = s /\ not_valid_with_value s q
                                  end) (XP s) s).
      { intros u Hu Hne. apply wp_bind.
        eapply wp_conseq; [apply (update_shallow_ok q m s u s (dext_refl s) HI Hm Hu Hne) | |intros; assumption].
        intros m' s' (A & B & C & D0 & Hm' & Hv' & Hval' & _ & _ & HE).
        apply wp_ret. unfold got; cbn [fst snd]. conj; auto; try congruence.
        rewrite HE. apply (mo_val _ _ _ _ _ _ _ (inv_memo _ _ _ _ _ HI q m Hm)); exact Hv. }
      destruct (shallow_verify s m) eqn:Hsh.
      * apply Hgot; [reflexivity | discriminate].
      * apply Hgot; [reflexivity | discriminate].
      * apply wp_ret. split; [reflexivity|].
        pose proof (shallow_cases s m) as Hc. rewrite Hsh in Hc.
        eapply not_valid_of_ne; eassumption.
    + apply wp_ret. split; [reflexivity|]. intros m0 Hm0 _. congruence.
  - apply wp_ret. split; [reflexivity|]. intros m0 Hm0. congruence.
Qed.

(* refresh_memo: what the accumulated_by loop calls on every function it pops *)
Lemma refresh_ok L n (HF : fetch_spec L n) (HM : mca_spec L n) :
  forall q s, (rank q <= n)%nat -> AInv s -> stack_ok s q ->
    wp (refresh persist prog noeq L q) (got s q) (XP s) s.
Proof.
  intros q s Hn HI Hst. unfold refresh.
  apply wp_bind.
  eapply wp_conseq; [apply (fetch_hot_ok q s HI) | |intros; assumption].
  intros hot s1 Hhot.
  destruct hot as [mv|].
  - apply wp_ret. exact Hhot.
  - destruct Hhot as [-> Hnv].
    apply (fetch_cold_ok L n q s HF HM Hn HI Hst Hnv).
Qed.

Lemma fetch_ok L n (HF : fetch_spec L n) (HM : mca_spec L n) :
  forall q s, (rank q <= n)%nat -> AInv s -> stack_ok s q ->
    wp (fetch persist prog noeq L q) (fetch_post s q) (XP s) s.
Proof.
  intros q s Hn HI Hst. unfold fetch.
  apply wp_bind.
  eapply wp_conseq; [apply (refresh_ok L n HF HM q s Hn HI Hst) | |intros; assumption].
  intros [m v] s2 (A & B & C & D0 & Hm & Hv & Hval & HE). cbn [fst snd] in *.
  apply wp_bind, wp_modify, wp_ret.
  set (s3 := set_lru s2 _).
  assert (Hce : dcore_eq s2 s3) by apply dcore_eq_lru.
  unfold fetch_post; cbn [fst snd].
  split; [apply (AInv_core_eq prog NF H D s2); assumption|].
  split; [eapply dext_trans; [exact B | apply dext_of_core_eq; [exact Hce | reflexivity]]|].
  split.
  { eapply dtouch_trans with (k1 := S (rank q)) (k2 := 0%nat);
      [lia | lia | exact C | apply dtouch_of_core_eq; exact Hce]. }
  split; [exact D0|]. split; [exact HE|].
  exists m. conj; auto.
Qed.

(* ---------------------------------------------------------------- maybe_changed_after *)
Lemma mca_cold_ok L n q since s (HF : fetch_spec L n) (HM : mca_spec L n) :
  (rank q <= n)%nat -> AInv s -> stack_ok s q -> not_valid_with_value s q ->
  wp (mca_cold persist prog noeq L q since) (mca_post s q since) (XP s) s.
Proof.
  intros Hn HI Hst Hnv. unfold mca_cold.
  apply wp_bind. apply claim_ok; [exact Hst|].
  set (s1 := set_stack s (q :: d_stack s)).
  assert (Hce : dcore_eq s s1) by apply dcore_eq_stack.
  assert (HI1 : AInv s1) by (apply (AInv_core_eq prog NF H D s); assumption).
  assert (He01 : dext s s1) by apply dext_set_stack.
  assert (Hst1 : forall p, In p (d_stack s1) -> (rank q <= rank p)%nat) by (apply stacked; exact Hst).
  apply wp_bind, wp_get. change (d_memo s1 q) with (d_memo s q).
  assert (Hleave : forall b s2, AInv s2 -> dext s1 s2 -> dtouch_below s1 s2 (S (rank q)) ->
            d_stack s2 = d_stack s1 ->
            (forall a, b = VUnchanged a ->
               exists m, d_memo s2 q = Some m /\ m_verified m = cur s /\ m_changed m <= since /\ a = ufm m) ->
            wp (release q ;;; ret b) (mca_post s q since) (XP s) s2).
  { intros b s2 HI2 He2 Ht2 Hs2 Hb.
    apply wp_bind. unfold release. apply wp_modify. apply wp_ret.
    unfold mca_post.
    split; [apply (AInv_core_eq prog NF H D s2); [apply dcore_eq_stack | exact HI2]|].
    split; [eapply dext_trans; [exact He01|]; eapply dext_trans; [exact He2 | apply dext_set_stack]|].
    split.
    { eapply dtouch_trans with (k1 := 0%nat) (k2 := S (rank q));
        [lia | lia | apply dtouch_of_core_eq; exact Hce|].
      eapply dtouch_trans with (k1 := S (rank q)) (k2 := 0%nat);
        [lia | lia | exact Ht2 | apply dtouch_of_core_eq; apply dcore_eq_stack]. }
    split; [cbn; rewrite Hs2; reflexivity|]. exact Hb. }
  assert (Hres : forall (mm : memo) s2, d_memo s2 q = Some mm -> m_verified mm = cur s ->
            forall a, (if changed_after (m_changed mm) since then VChanged else VUnchanged (ufm mm)) = VUnchanged a ->
            exists m, d_memo s2 q = Some m /\ m_verified m = cur s /\ m_changed m <= since /\ a = ufm m).
  { intros mm s2 Hmm Hvm a Ha. destruct (changed_after (m_changed mm) since) eqn:Hca; [discriminate|].
    injection Ha as <-. apply changed_after_false in Hca. exists mm. conj; auto. }
  destruct (d_memo s q) as [old|] eqn:Hm.
  - apply wp_bind.
    eapply wp_conseq; [apply (verify_memo_ok L n q old s1 HM Hn HI1 Hm Hst1) | |].
    + intros [b m'] s2 (HI2 & He2 & Ht2 & Hs2 & Htrue & Hfalse). cbn [fst snd] in *.
      destruct b.
      * destruct (Htrue eq_refl) as (_ & _ & _ & _ & Hm' & Hv' & _).
        apply Hleave; try assumption. apply (Hres m' s2 Hm' Hv').
      * specialize (Hfalse eq_refl). change (d_memo s1 q) with (d_memo s q) in Hfalse.
        destruct (m_val old) as [ov|] eqn:Hov.
        -- apply wp_bind.
           pose proof (dext_cur _ _ He2) as Hc2. change (cur s1) with (cur s) in Hc2.
           eapply wp_conseq; [apply (execute_ok L n q s2 (Some old) HF Hn HI2) | |].
           ++ congruence.
           ++ intros m0 A B. injection A as <-. apply Hnv; [exact Hm | congruence].
           ++ rewrite Hs2. exact Hst1.
           ++ intros mnew s3 (HI3 & He3 & Ht3 & Hs3 & Hm3 & Hv3 & _).
              apply Hleave.
              ** exact HI3.
              ** eapply dext_trans; eassumption.
              ** eapply dtouch_trans with (k1 := S (rank q)) (k2 := S (rank q));
                   [lia | lia | exact Ht2 | exact Ht3].
              ** congruence.
              ** apply (Hres mnew s3 Hm3). congruence.
           ++ intros p s3 Hx. eapply XP_trans; [eapply dext_trans; [exact He01 | exact He2] | exact Hx].
        -- apply Hleave; try assumption. discriminate.
    + intros p s2 Hx. eapply XP_trans; eassumption.
  - apply Hleave; [exact HI1 | apply dext_refl | apply dtouch_refl | reflexivity | discriminate].
Qed.

Lemma mca_ok L n (HF : fetch_spec L n) (HM : mca_spec L n) :
  forall q since s, (rank q <= n)%nat -> AInv s -> stack_ok s q ->
    wp (mca persist prog noeq L q since) (mca_post s q since) (XP s) s.
Proof.
  intros q since s Hn HI Hst. unfold mca.
  apply wp_bind, wp_get.
  destruct (d_memo s q) as [m|] eqn:Hm.
  - assert (Hgot : forall u, shallow_verify s m = u -> u <> ShNo ->
              wp (m' <- update_shallow q m u ;;
                  ret (if changed_after (m_changed m') since then VChanged else VUnchanged (ufm m')))
                 (mca_post s q since) (XP s) s).
    { intros u Hu Hne. apply wp_bind.
      eapply wp_conseq; [apply (update_shallow_ok q m s u s (dext_refl s) HI Hm Hu Hne) | |intros; assumption].
      intros m' s' (A & B & C & D0 & Hm' & Hv' & _).
      apply wp_ret. unfold mca_post. conj; auto.
      intros a Ha. destruct (changed_after (m_changed m') since) eqn:Hca; [discriminate|].
      injection Ha as <-. apply changed_after_false in Hca. exists m'. conj; auto. }
    destruct (shallow_verify s m) eqn:Hsh.
    + apply Hgot; [reflexivity | discriminate].
    + apply Hgot; [reflexivity | discriminate].
    + apply (mca_cold_ok L n q since s HF HM Hn HI Hst).
      pose proof (shallow_cases s m) as Hc. rewrite Hsh in Hc.
      eapply not_valid_of_ne; eassumption.
  - apply wp_ret. unfold mca_post.
    split; [exact HI|]. split; [apply dext_refl|]. split; [apply dtouch_refl|].
    split; [reflexivity | discriminate].
Qed.

(* ---------------------------------------------------------------- tying the knot *)
Theorem alevel_ok : forall n,
  fetch_spec (level persist prog noeq n) n /\ mca_spec (level persist prog noeq n) n.
Proof.
  induction n as [|n [IHF IHM]].
  - split; intros q; intros; lia.
  - split.
    + intros q s Hq HI Hst. cbn [level l_fetch].
      apply (fetch_ok (level persist prog noeq n) n IHF IHM q s); [lia | exact HI | exact Hst].
    + intros q since s Hq HI Hst. cbn [level l_mca].
      apply (mca_ok (level persist prog noeq n) n IHF IHM q since s); [lia | exact HI | exact Hst].
Qed.

End Ops.

From Salsa Require Import Base.
From Salsa.Kern Require Import CoreK.
From Salsa.Acc Require Import Model Spec ProofsDfs ProofsSpec ProofsLoop.

(* Acc/Examples.v — a concrete, non-trivial instance of every hypothesis of the C11 theorems:
   a DAG with a shared callee, a repeated call, a never-changing dependency whose edge is not
   recorded, and a sub-tree that the loop skips because its flag is Empty. *)

Definition q0 : qkey := (0,0). Definition q1 : qkey := (0,1). Definition q2 : qkey := (0,2).
Definition q3 : qkey := (0,3). Definition q4 : qkey := (0,4). Definition q5 : qkey := (0,5).
Definition q6 : qkey := (0,6).

(* q4 (root): push 7; call q2; call q3; call q2 again; call q5; push 8
   q2: call q1; push 20      q3: call q1 (shared); call q0 (constant, never-change, no pushes)
   q1: read input (0,0), push its value      q0: Ret 5
   q5: read input (0,1); call q6 (no pushes below: sub-tree skipped)     q6: read input (0,2) *)
Definition tbl : list (qkey * nat * body) :=
  [ (q0, 0%nat, Ret 5);
    (q1, 0%nat, RdIn (0,0) (fun a => Accum a (Ret a)));
    (q2, 1%nat, CallQ q1 (fun a => Accum 20 (Ret a)));
    (q3, 1%nat, CallQ q1 (fun a => CallQ q0 (fun b => Ret b)));
    (q6, 0%nat, RdIn (0,2) (fun a => Ret a));
    (q5, 1%nat, RdIn (0,1) (fun a => CallQ q6 (fun b => Ret a)));
    (q4, 2%nat, Accum 7 (CallQ q2 (fun a => CallQ q3 (fun b => CallQ q2 (fun c => CallQ q5 (fun d => Accum 8 (Ret a))))))) ].

Fixpoint look (t : list (qkey * nat * body)) (q : qkey) : nat * body :=
  match t with
  | [] => (0%nat, Ret 0)
  | (k, r, b) :: t' => if key_eqb k q then (r, b) else look t' q
  end.

Definition prog (q : qkey) : body := snd (look tbl q).
Definition rank (q : qkey) : nat := fst (look tbl q).
Definition noeq (_ : qkey) := false.
Definition iv (i : ikey) : val := match snd i with 0 => 3 | 1 => 4 | _ => 9 end.
Definition s_init := init iv (fun _ => 0) (fun _ => {| lru_cap := None; lru_set := [] |}).
Definition L := level false prog noeq 5.
Definition s0 := fst (step false prog noeq [] 5 100 s_init (OAccumulated q4)).
Definition r0 := snd (step false prog noeq [] 5 100 s_init (OAccumulated q4)).

(* the state in which the theorems are exercised: after a first `accumulated`, and after the
   `fetch` that starts the second one *)
Definition s1 := fst (fetch false prog noeq L q4 s0).

Definition U : list qkey := [q0; q1; q2; q3; q4; q5; q6].
Definition gsucc (q : qkey) : list edge := match d_memo s1 q with Some m => m_edges m | None => [] end.
Definition gflag (q : qkey) : bool := match d_memo s1 q with Some m => m_accin m | None => false end.
(* nothing is pushed at or below q0, q5, q6; input fields never push *)
Definition dead (k : edge) : bool :=
  match k with
  | EIn _ => true
  | EQ q => existsb (key_eqb q) [q0; q5; q6]
  end.
Definition sn := snap_of s0.
Definition NR := 3%nat.

Example ex_first_result : r0 = Ok (OL [7; 8; 20; 3]).
Proof. vm_compute. reflexivity. Qed.

Example ex_spec : spec_acc prog NR sn q4 = [7; 8; 20; 3].
Proof. vm_compute. reflexivity. Qed.

(* the edge q3 -> q0 (never-changing, nothing accumulated) is not recorded; q5's flag is Empty
   although it has edges; q1 is reachable twice; q2 is called twice *)
Example ex_shapes :
  gsucc q3 = [EQ q1] /\ gflag q5 = false /\ gsucc q5 = [EIn (0,1); EQ q6] /\
  gsucc q4 = [EQ q2; EQ q3; EQ q5] /\
  sem_succ prog NR sn q4 = [EQ q2; EQ q3; EQ q2; EQ q5] /\ sem_succ prog NR sn q3 = [EQ q1; EQ q0].
Proof. vm_compute. repeat split. Qed.

Ltac inv_calls :=
  repeat match goal with
         | H : calls _ _ |- _ => cbn in H; inversion H; clear H; subst
         end.

Lemma look_cases q : In q U \/ look tbl q = (0%nat, Ret 0).
Proof.
  unfold tbl, look.
  repeat match goal with
         | |- context [key_eqb ?k q] =>
             destruct (key_eqb_spec k q) as [<-|_]; [left; unfold U; cbn; tauto|]
         end.
  now right.
Qed.

Example ex_acyclic : calls_below prog rank.
Proof.
  intros q q' H. unfold prog in H. unfold rank at 2.
  destruct (look_cases q) as [Hq|Hq].
  - unfold U in Hq. cbn in Hq.
    repeat (destruct Hq as [<-|Hq]; [cbn in H; inv_calls; vm_compute; lia|]). destruct Hq.
  - rewrite Hq in H. cbn in H. inversion H.
Qed.

Example ex_rank_bound : forall q, (rank q < NR)%nat.
Proof.
  intros q. unfold rank. destruct (look_cases q) as [Hq|Hq].
  - unfold U in Hq. cbn in Hq.
    repeat (destruct Hq as [<-|Hq]; [vm_compute; lia|]). destruct Hq.
  - rewrite Hq. cbn. unfold NR. lia.
Qed.

Lemma dead_cases q : dead (EQ q) = true -> q = q0 \/ q = q5 \/ q = q6.
Proof.
  cbn. rewrite !orb_true_iff, !key_eqb_eq. intuition congruence.
Qed.

Lemma refresh_s1 q : In q U ->
  exists m v, refresh false prog noeq L q s1 = (s1, Ok (m, v)) /\
              d_memo s1 q = Some m /\ m_acc m = sem_own prog NR sn q.
Proof.
  intros Hq. unfold U in Hq. cbn in Hq.
  repeat (destruct Hq as [<-|Hq]; [eexists; eexists; vm_compute; repeat split|]). destruct Hq.
Qed.

Example ex_view : acc_view false prog noeq L NR sn dead gsucc gflag U (fun s => s = s1).
Proof.
  constructor.
  - intros q Hq. destruct (dead_cases q Hq) as [->|[->| ->]]; vm_compute; reflexivity.
  - intros q Hq. destruct (dead_cases q Hq) as [->|[->| ->]]; vm_compute; repeat constructor.
  - intros s q s' m v -> Hq R.
    destruct (refresh_s1 q Hq) as (m' & v' & R' & Hm & Ha). rewrite R' in R.
    pose proof (f_equal fst R) as E1. pose proof (f_equal snd R) as E2. cbn [fst snd] in E1, E2.
    injection E2 as <- <-. subst s'. split; [reflexivity|]. split; [exact Ha|].
    unfold gflag, gsucc. rewrite Hm. split; [reflexivity|]. intros _. exists m'. split; reflexivity.
  - intros q c Hq _ Hc. unfold U in Hq. cbn in Hq.
    repeat (destruct Hq as [<-|Hq];
            [vm_compute in Hc; repeat (destruct Hc as [Hc|Hc]; [try discriminate; injection Hc as <-; unfold U; cbn; tauto|]);
             destruct Hc|]).
    destruct Hq.
  - intros q Hq Hf. unfold U in Hq. cbn in Hq.
    repeat (destruct Hq as [<-|Hq]; [vm_compute in Hf; first [discriminate Hf | vm_compute; repeat constructor]|]). destruct Hq.
  - intros q Hq Hd. unfold U in Hq. cbn in Hq.
    repeat (destruct Hq as [<-|Hq]; [vm_compute in Hd; first [discriminate Hd | vm_compute; reflexivity]|]). destruct Hq.
  - intros q Hq Hd. unfold U in Hq. cbn in Hq.
    repeat (destruct Hq as [<-|Hq]; [vm_compute in Hd; first [discriminate Hd | vm_compute; repeat constructor]|]). destruct Hq.
Qed.

(* the loop started in s1 returns the specification, as [acc_loop_spec] says *)
Example ex_loop_runs :
  snd (acc_loop false prog noeq L 100 [EQ q4] [] [] s1) = Ok [7; 8; 20; 3].
Proof. vm_compute. reflexivity. Qed.

Example ex_theorem_applies : forall s' l,
  acc_loop false prog noeq L 100 [EQ q4] [] [] s1 = (s', Ok l) -> l = spec_acc prog NR sn q4.
Proof.
  intros s' l H.
  eapply (acc_loop_spec false prog noeq L NR sn rank ex_acyclic ex_rank_bound dead gsucc gflag U
            (fun s => s = s1) ex_view 100 q4 s1 s' l); [reflexivity | unfold U; cbn; tauto | exact H].
Qed.

(* and the whole operation, started in s0 *)
Example ex_accumulated_by_applies : forall s' l,
  accumulated_by false prog noeq L 100 q4 s0 = (s', Ok l) -> l = spec_acc prog NR sn q4.
Proof.
  intros s' l H.
  eapply (accumulated_by_spec false prog noeq L NR sn rank ex_acyclic ex_rank_bound dead gsucc gflag U
            (fun s => s = s1) ex_view 100 q4 s0 s' l); [unfold U; cbn; tauto | | exact H].
  intros s2 r F. unfold s1. now rewrite F.
Qed.

Example ex_accumulated_by_runs :
  snd (accumulated_by false prog noeq L 100 q4 s0) = Ok [7; 8; 20; 3].
Proof. vm_compute. reflexivity. Qed.

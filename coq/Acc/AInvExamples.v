(* Acc/AInvExamples.v — non-vacuity of the full C11 theorem: a concrete program and history that
   satisfy its hypotheses, in which a callee starts pushing after a write while its value stays
   equal, so its caller (which has own pushes) is only deep-verified: the verification
   recomputes and stores the caller's accumulated_inputs flag (Empty -> Any), and `accumulated`
   returns the from-scratch list.  (A `deep_verify_edges` that does not refresh the flag of a
   memo with own pushes returns [3] instead of [3; 7] here.) *)
From Salsa Require Import Base.
From Salsa.Kern Require Import CoreK.
From Salsa.Acc Require Import Model Spec Statement AInvTop AInvFull.

(* d = 1, pushing 7 when the input a = (0,0) is >= 5;  f = d + 1, pushing 3 first *)
Definition ad_body : body := RdIn (0, 0) (fun a => if a <? 5 then Ret 1 else Accum 7 (Ret 1)).
Definition af_body : body := Accum 3 (CallQ (1, 0) (fun v => Ret (v + 1))).
Definition ax_prog (q : qkey) : body :=
  if key_eqb q (1, 0) then ad_body else if key_eqb q (0, 0) then af_body else Ret 0.
Definition ax_rank (q : qkey) : nat := if key_eqb q (0, 0) then 1%nat else 0%nat.
Definition ax_iv (i : ikey) : val := if key_eqb i (0, 0) then 4 else 0.
Definition ax_idur (_ : ikey) : dur := D_LOW.
Definition ax_lru (_ : N) : lru_state := {| lru_cap := None; lru_set := [] |}.
Definition ax_noeq (_ : qkey) : bool := false.
Definition ax_init : db := init ax_iv ax_idur ax_lru.

Definition ax_ops : list op :=
  [ OAccumulated (0, 0);     (* [3]: d pushes nothing, f's flag is Empty *)
    OSet (0, 0) 9 None;      (* a: 4 -> 9: d keeps the value 1 but now pushes 7 *)
    OAccumulated (0, 0);     (* d executes again (equal value, backdated); f is only validated,
                                its flag becomes Any; the loop descends into d: [3; 7] *)
    OGet (0, 0);
    OSet (0, 0) 2 None;      (* d stops pushing *)
    OAccumulated (0, 0) ].   (* [3] *)

Lemma ax_calls_below : calls_below ax_prog ax_rank.
Proof.
  intros q q' Hc. unfold ax_prog in Hc.
  destruct (key_eqb_spec q (1, 0)) as [-> | H1].
  { unfold ad_body in Hc. inversion Hc as [| | ? ? v ? Hc' | | | |]; subst.
    destruct (v <? 5); inversion Hc' as [| | | | | | ? ? ? Hc'']; subst. inversion Hc''. }
  destruct (key_eqb_spec q (0, 0)) as [-> | H0].
  { unfold af_body in Hc. inversion Hc as [| | | | | | ? ? ? Hc']; subst.
    inversion Hc' as [| ? ? v ? Hc'' | | | | |]; subst.
    - cbn. lia.
    - inversion Hc''. }
  inversion Hc.
Qed.

Lemma ax_bound : forall q, (ax_rank q < 2)%nat.
Proof. intros q. unfold ax_rank. destruct (key_eqb q (0, 0)); lia. Qed.

Lemma ax_dur_ops : Forall dur_op ax_ops.
Proof. repeat constructor. Qed.

Lemma ax_wf : wf_ops false ax_ops.
Proof. cbn. repeat split. Qed.

(* the hypotheses of the theorem hold, hence its conclusion (both builds) *)
Example ax_accumulated persist :
  exists afuel0, forall afuel, (afuel0 <= afuel)%nat ->
    all_ok persist ax_prog ax_noeq [] 2 2 afuel ax_init ax_ops.
Proof.
  apply (all_ok_init persist ax_prog ax_noeq [] ax_rank ax_calls_below 2 ax_bound 2 ax_bound
           ax_iv ax_idur ax_lru ax_ops); [intros i; unfold ax_idur, D_LOW; lia | exact ax_dur_ops | exact ax_wf].
Qed.

(* ... and by computation *)
Definition ax_run (n : nat) : db * list out := run_ops false ax_prog ax_noeq [] 2 20 ax_init (firstn n ax_ops).

Example ax_values :
  snd (ax_run 6) = [Ok (OL [3]); Ok (OV 0); Ok (OL [3; 7]); Ok (OV 2); Ok (OV 0); Ok (OL [3])] /\
  spec_acc ax_prog 2 (snap_of (fst (ax_run 0))) (0, 0) = [3] /\
  spec_acc ax_prog 2 (snap_of (fst (ax_run 2))) (0, 0) = [3; 7] /\
  spec_acc ax_prog 2 (snap_of (fst (ax_run 5))) (0, 0) = [3].
Proof. vm_compute. repeat split. Qed.

(* the second `accumulated` executes d again and only validates f, whose flag flips to Any *)
Example ax_deep_verified :
  d_log (fst (ax_run 1)) = [EvExec (1, 0); EvExec (0, 0)] /\
  d_log (fst (ax_run 3)) = [EvValidate (0, 0); EvExec (1, 0); EvExec (1, 0); EvExec (0, 0)] /\
  option_map (fun m => (m_verified m, m_acc m, m_accin m)) (d_memo (fst (ax_run 1)) (0, 0)) = Some (1, [3], false) /\
  option_map (fun m => (m_verified m, m_acc m, m_accin m)) (d_memo (fst (ax_run 3)) (0, 0)) = Some (2, [3], true) /\
  option_map (fun m => (m_changed m, m_acc m)) (d_memo (fst (ax_run 3)) (1, 0)) = Some (1, [7]).
Proof. vm_compute. repeat split. Qed.

(* Base.v — shared vocabulary of the salsa model family.
   No proofs of properties here; only definitions and tiny structural lemmas. *)
From Coq Require Export List NArith Bool Lia.
Export ListNotations.
Open Scope N_scope.

Definition rev := N.      (* Revision: START = 1 *)
Definition dur := N.      (* Durability: LOW=0 MEDIUM=1 HIGH=2 NEVER_CHANGE=3 *)
Definition val := N.      (* plain data values (u8 in the harness) *)

Definition D_LOW : dur := 0.
Definition D_MEDIUM : dur := 1.
Definition D_HIGH : dur := 2.
Definition D_NEVER : dur := 3.
Definition REV_START : rev := 1.

(* query key = (function family, key index); input key = (input index, field) *)
Definition qkey := (N * N)%type.
Definition ikey := (N * N)%type.
Definition cell := N.     (* external (untracked) state cell *)

Definition key_eqb (a b : N * N) : bool :=
  (fst a =? fst b) && (snd a =? snd b).

Lemma key_eqb_spec a b : reflect (a = b) (key_eqb a b).
Proof.
  destruct a as [a1 a2], b as [b1 b2]; unfold key_eqb; cbn [fst snd].
  destruct (N.eqb_spec a1 b1), (N.eqb_spec a2 b2); cbn; constructor; congruence.
Qed.

Lemma key_eqb_refl a : key_eqb a a = true.
Proof. destruct (key_eqb_spec a a); congruence. Qed.

Lemma key_eqb_eq a b : key_eqb a b = true <-> a = b.
Proof. destruct (key_eqb_spec a b); split; congruence. Qed.

Lemma key_eqb_neq a b : key_eqb a b = false <-> a <> b.
Proof. destruct (key_eqb_spec a b); split; congruence. Qed.

(* total-function maps with pointwise update *)
Definition upd {A} (m : N * N -> A) (k : N * N) (v : A) : N * N -> A :=
  fun k' => if key_eqb k k' then v else m k'.

Definition updN {A} (m : N -> A) (k : N) (v : A) : N -> A :=
  fun k' => if k =? k' then v else m k'.

Lemma upd_same {A} (m : N * N -> A) k v : upd m k v k = v.
Proof. unfold upd; now rewrite key_eqb_refl. Qed.

Lemma upd_other {A} (m : N * N -> A) k k' v : k <> k' -> upd m k v k' = m k'.
Proof. unfold upd; intros H; apply key_eqb_neq in H; now rewrite H. Qed.

Lemma updN_same {A} (m : N -> A) k v : updN m k v k = v.
Proof. unfold updN; now rewrite N.eqb_refl. Qed.

Lemma updN_other {A} (m : N -> A) k k' v : k <> k' -> updN m k v k' = m k'.
Proof. unfold updN; intros H; apply N.eqb_neq in H; now rewrite H. Qed.

(* outcome of a model computation *)
Inductive panic :=
| PNeverChange        (* "never-changing inputs cannot be mutated" *)
| PCycle              (* dependency graph cycle (no recovery) *)
| PBackdate           (* backdate violation (debug builds panic) *)
| PTooMany            (* too many cycle iterations *)
| PInjected           (* user-code panic injected by the oracle *)
| PSpecify            (* specify misuse *)
| PPropagated.        (* Cancelled::PropagatedPanic *)

Inductive res (A : Type) :=
| Ok (a : A)
| Panic (p : panic)
| Fuel.
Arguments Ok {A} a.
Arguments Panic {A} p.
Arguments Fuel {A}.

Definition panic_code (p : panic) : N :=
  match p with
  | PNeverChange => 1 | PCycle => 2 | PBackdate => 3 | PTooMany => 4
  | PInjected => 5 | PSpecify => 6 | PPropagated => 7
  end.

(* Persist/LInvOps.v — port of Core/DInvOps.v: every level function of the persist-mode model
   preserves the invariant [DInv] and meets its specification (weakest-precondition proofs, then
   one induction on the level).  Panics that may escape: see [dallowed] (injected fault,
   uninitialised function ingredient); the backdate-violation assertion is unreachable. *)
From Salsa Require Import Base.
From Salsa.Kern Require Import CoreK CoreKFacts.
From Salsa.Core Require Import Model Spec SpecProofs Inv DurSem.
From Salsa.Persist Require Import Model PSem PWp LInv LInvSem.

Section Ops.
Variable uprog : qkey -> body.           (* the program of the persist-mode model *)
Let prog : qkey -> CM.body := tprog uprog.
Variable noeq : qkey -> bool.
Variable rank : qkey -> nat.
Hypothesis Hrank : calls_below prog rank.
Variable NF : nat.
Hypothesis Hbound : forall q, (rank q < NF)%nat.
Variable fm : bool.
Variable H : hist.
Variable D : dhist.
Variable F : ghost.
Notation E := (E prog NF H).
Notation tr := (tr prog NF H).
Notation envat := (envat prog NF H).
Notation durge := (durge prog NF H D).
Notation clos := (clos prog NF H).
Notation dmemo_ok := (dmemo_ok prog NF fm H D F).
Notation DInv := (DInv prog NF fm H D F).
Notation dext := (dext prog NF H D F).
Notation sle := (fun s => LInv.sle s F).
Notation obs_ok := (obs_ok prog NF H D).
Notation good := (good prog NF fm H D).
Notation dtouch_below := (dtouch_below rank).
Notation dallowed := (LInv.dallowed).
Notation stack_ok := (stack_ok rank).
Notation covers := (LInvSem.covers F).

Ltac conj := repeat match goal with |- _ /\ _ => split end.

(* ---------------------------------------------------------------- bookkeeping *)
Lemma dext_of_core_eq s s' :
  dcore_eq s s' -> d_pcell s' = d_pcell s ->
  (forall fam, d_init s fam = true -> d_init s' fam = true) -> dext s s'.
Proof.
  intros (Hr & Hi & Hce & Hm) Hp Hin. constructor; auto.
  - intros q m Hq _ _. rewrite Hm. exact Hq.
  - intros q m Hq Hv. exists m. rewrite Hm. split; [exact Hq|]. split; [exact Hv | lia].
  - intros q m' Hq _. rewrite <- Hm. exact Hq.
  - intros g w k Ho. apply (obs_ok_same prog NF H D s s'); assumption.
  - intros d c Hc. exists c. split; [|lia]. rewrite (phi_same s s' F d Hm). exact Hc.
Qed.

Lemma dtouch_of_core_eq s s' k : dcore_eq s s' -> dtouch_below s s' k.
Proof. intros (_ & _ & _ & Hm) p _. rewrite Hm; reflexivity. Qed.

Lemma dcore_eq_refl s : dcore_eq s s.
Proof. repeat split. Qed.
Lemma dcore_eq_log s l : dcore_eq s (set_log s l).
Proof. repeat split. Qed.
Lemma dcore_eq_stack s l : dcore_eq s (set_stack s l).
Proof. repeat split. Qed.
Lemma dcore_eq_lru s l : dcore_eq s (set_lru s l).
Proof. repeat split. Qed.
Lemma dcore_eq_init s l : dcore_eq s (set_init s l).
Proof. repeat split. Qed.

Definition XP (s0 : db) : ppanic -> db -> Prop :=
  fun p s' => dallowed s0 p /\ DInv s' /\ dext s0 s'.

Lemma emit_ok e s s0 (Q : unit -> db -> Prop) :
  DInv s -> dext s0 s ->
  (forall s1, dcore_eq s s1 -> DInv s1 -> dext s s1 -> d_stack s1 = d_stack s ->
              d_log s1 = e :: d_log s -> Q tt s1) ->
  wp (emit e) Q (XP s0) s.
Proof.
  intros HI He HQ. apply wp_emit.
  assert (Hce : dcore_eq s (set_log s (e :: d_log s))) by apply dcore_eq_log.
  apply HQ; try reflexivity; [exact Hce | apply (DInv_core_eq prog NF fm H D F s); assumption |].
  apply dext_of_core_eq; [exact Hce | reflexivity | auto].
Qed.

(* ---------------------------------------------------------------- mark_verified *)
(* [Hjust]: from any state that differs from s only outside the core, storing the re-verified
   memo is justified (by an edge walk or by the durability short-cut) *)
Lemma mark_verified_ok q m s s0 :
  dext s0 s ->
  DInv s -> d_memo s q = Some m ->
  (forall s1, dcore_eq s s1 -> DInv s1 -> dext s s1 ->
     DInv (store s1 q (reverify m (cur s))) /\ dext s1 (store s1 q (reverify m (cur s))) /\
     E (cur s) q = E (m_verified m) q) ->
  wp (mark_verified q m)
     (fun m' s' => m' = reverify m (cur s) /\ DInv s' /\ dext s s' /\
                   dtouch_below s s' (S (rank q)) /\ d_stack s' = d_stack s /\
                   d_memo s' q = Some m' /\ E (cur s) q = E (m_verified m) q) (XP s0) s.
Proof.
  intros He0 HI Hm Hjust.
  unfold mark_verified.
  apply wp_bind, wp_get. apply wp_bind. apply (emit_ok _ s s0); [exact HI | exact He0|].
  intros s1 Hce HI1 He01 Hst1 _.
  apply wp_bind.
  unfold set_memo_at. apply wp_modify. apply wp_ret.
  set (m' := {| m_val := m_val m; m_verified := cur s; m_changed := m_changed m; m_dur := m_dur m;
               m_untracked := m_untracked m; m_edges := m_edges m |}).
  change (set_memo s1 _) with (store s1 q m').
  destruct (Hjust s1 Hce HI1 He01) as (HI2 & Hext & HE).
  change (reverify m (cur s)) with m' in HI2, Hext.
  split; [reflexivity|]. split; [exact HI2|]. split.
  { eapply dext_trans; [exact He01 | exact Hext]. }
  split.
  { eapply dtouch_trans with (k1 := S (rank q)) (k2 := S (rank q));
      [lia | lia | apply dtouch_of_core_eq; exact Hce | apply dtouch_store; lia]. }
  split; [cbn; exact Hst1|]. split; [|exact HE].
  unfold store; cbn. apply upd_same.
Qed.

(* ---------------------------------------------------------------- shallow verification *)
Lemma shallow_cases s m :
  match shallow_verify s m with
  | ShVerified => m_verified m = cur s
  | ShHigher => m_verified m <> cur s /\ lcs s (m_dur m) <= m_verified m
  | ShNo => m_verified m <> cur s /\ ~ lcs s (m_dur m) <= m_verified m
  end.
Proof.
  unfold shallow_verify.
  destruct (N.eqb_spec (m_verified m) (cur s)) as [Heq | Hne]; [exact Heq|].
  destruct (shallow_ok (last_changed (d_revs s) (m_dur m)) (m_verified m)) eqn:Hsh.
  - split; [exact Hne|]. apply shallow_ok_spec in Hsh. exact Hsh.
  - split; [exact Hne|]. intros Hle. apply shallow_ok_spec in Hle. unfold lcs in Hle. congruence.
Qed.

Definition verified_now (s0 : db) (q : qkey) (m : memo) (m' : memo) (s' : db) : Prop :=
  DInv s' /\ dext s0 s' /\ dtouch_below s0 s' (S (rank q)) /\ d_stack s' = d_stack s0 /\
  d_memo s' q = Some m' /\ m_verified m' = cur s0 /\ m_val m' = m_val m /\
  m_dur m' = m_dur m /\ m_changed m' = m_changed m /\ E (cur s0) q = E (m_verified m) q.

Lemma update_shallow_ok q m s u s0 :
  dext s0 s ->
  DInv s -> d_memo s q = Some m -> shallow_verify s m = u -> u <> ShNo ->
  wp (update_shallow q m u) (fun m' s' => verified_now s q m m' s') (XP s0) s.
Proof.
  intros He0 HI Hm Hu Hne.
  pose proof (shallow_cases s m) as Hc. rewrite Hu in Hc.
  destruct u; [| |contradiction]; cbn [update_shallow].
  - apply wp_ret. unfold verified_now. rewrite Hc.
    split; [exact HI|]. split; [apply dext_refl|]. split; [apply dtouch_refl|].
    conj; auto.
  - destruct Hc as [_ Hlc].
    assert (Hjust : forall s1, dcore_eq s s1 -> DInv s1 -> dext s s1 ->
              DInv (store s1 q (reverify m (cur s))) /\ dext s1 (store s1 q (reverify m (cur s))) /\
              E (cur s) q = E (m_verified m) q).
    { intros s1 Hce HI1 _. pose proof (dcore_eq_cur _ _ Hce) as Hc1.
      destruct Hce as (Hr & _ & _ & Hmm).
      rewrite <- Hc1.
      apply (shortcut_ok prog rank Hrank NF Hbound fm F H D s1 q m HI1).
      - rewrite Hmm. exact Hm.
      - unfold lcs in *. rewrite Hr. exact Hlc. }
    pose proof (mark_verified_ok q m s s0 He0 HI Hm Hjust) as Hmv.
    eapply wp_conseq; [exact Hmv | | intros; assumption].
    intros m' s' (-> & HI' & Hext & Ht & Hst & Hm' & HE).
    unfold verified_now. conj; auto.
Qed.

(* ---------------------------------------------------------------- specifications of a level *)
Definition fetch_post (s0 : db) (q : qkey) (r : qres) (s' : db) : Prop :=
  DInv s' /\ dext s0 s' /\ dtouch_below s0 s' (S (rank q)) /\ d_stack s' = d_stack s0 /\
  fst (fst r) = E (cur s0) q /\
  exists m, d_memo s' q = Some m /\ m_verified m = cur s0 /\ m_val m = Some (fst (fst r)) /\
            m_dur m = snd (fst r) /\ m_changed m = snd r.

Definition fetch_spec (L : lower) (n : nat) : Prop :=
  forall q s, (rank q < n)%nat -> DInv s -> stack_ok s q ->
    wp (l_fetch L q) (fetch_post s q) (XP s) s.

Definition mca_post (s0 : db) (q : qkey) (since : rev) (b : bool) (s' : db) : Prop :=
  DInv s' /\ dext s0 s' /\ dtouch_below s0 s' (S (rank q)) /\ d_stack s' = d_stack s0 /\
  (b = false -> exists m, d_memo s' q = Some m /\ m_verified m = cur s0 /\ m_changed m <= since).

Definition mca_spec (L : lower) (n : nat) : Prop :=
  forall q since s, (rank q < n)%nat -> DInv s -> stack_ok s q ->
    wp (l_mca L q since) (mca_post s q since) (XP s) s.

Lemma XP_trans s0 s1 p s' : dext s0 s1 -> XP s1 p s' -> XP s0 p s'.
Proof.
  intros He (Ha & HI & He'). split; [apply (dallowed_ext s0 s1); [apply (ext_pcell _ _ _ _ _ _ _ He) | apply (ext_init _ _ _ _ _ _ _ He) | exact Ha]|].
  split; [exact HI|].
  eapply dext_trans; eassumption.
Qed.

(* ---------------------------------------------------------------- deep verification *)
(* the walker q's memo m stays in the table during the walk (the walk only touches lower
   ranks); s0 is the state the walk started in *)
Lemma walk_edges_ok L n q m s0 (HM : mca_spec L n) : forall es s,
  DInv s -> dext s0 s -> d_memo s q = Some m ->
  (forall d, In (EQ d) es -> (rank d < n)%nat /\ (rank d < rank q)%nat) ->
  (forall p, In p (d_stack s) -> (rank q <= rank p)%nat) ->
  wp (walk_edges L es (m_verified m))
     (fun b s' => DInv s' /\ dext s s' /\ dtouch_below s s' (rank q) /\ d_stack s' = d_stack s /\
        (b = false -> forall e, In e es -> leaf_ok prog NF H D s0 s' q m e)) (XP s) s.
Proof.
  induction es as [|e es IH]; intros s HI He0 Hm Hes Hst; cbn [walk_edges].
  - apply wp_ret. split; [exact HI|]. split; [apply dext_refl|]. split; [apply dtouch_refl|].
    split; [reflexivity|]. intros _ e [].
  - destruct e as [i | d].
    + apply wp_bind, wp_get.
      destruct (changed_after (f_changed (d_in s i)) (m_verified m)) eqn:Hca.
      * apply wp_ret. split; [exact HI|]. split; [apply dext_refl|]. split; [apply dtouch_refl|].
        split; [reflexivity|]. discriminate.
      * apply changed_after_false in Hca.
        eapply wp_conseq; [apply (IH s HI He0 Hm) | |intros; assumption].
        -- intros d Hd. apply Hes. right; exact Hd.
        -- exact Hst.
        -- intros b s' (HI' & He & Ht & Hs & Hb). conj; auto.
           intros Hbf e [<- | He']; [|apply Hb; assumption].
           cbn. rewrite (ext_in _ _ _ _ _ _ _ He). exact Hca.
    + destruct (Hes d (or_introl eq_refl)) as (Hdn & Hdq).
      apply wp_bind.
      eapply wp_conseq; [apply (HM d (m_verified m) s Hdn HI) | |intros; assumption].
      { intros p Hp. specialize (Hst p Hp). lia. }
      intros c s1 (HI1 & He1 & Ht1 & Hs1 & Hc).
      pose proof (dext_cur _ _ _ _ _ _ _ He1) as Hcur1.
      assert (Hm1 : d_memo s1 q = Some m) by (rewrite (Ht1 q) by lia; exact Hm).
      assert (He01 : dext s0 s1) by (eapply dext_trans; eassumption).
      destruct c.
      * apply wp_ret. split; [exact HI1|]. split; [exact He1|]. split.
        { eapply dtouch_trans with (k1 := S (rank d)) (k2 := rank q);
            [lia | lia | exact Ht1 | apply dtouch_refl]. }
        split; [exact Hs1|]. discriminate.
      * destruct (Hc eq_refl) as (md & Hmd & Hvd & Hcd).
        pose proof (inv_memo _ _ _ _ _ _ _ HI1 q m Hm1) as Hok.
        pose proof (inv_memo _ _ _ _ _ _ _ HI1 d md Hmd) as Hokd.
        eapply wp_conseq; [apply (IH s1 HI1 He01 Hm1) | |].
        -- intros d' Hd'. apply (Hes d' (or_intror Hd')).
        -- rewrite Hs1. exact Hst.
        -- intros b s' (HI' & He & Ht & Hs & Hb).
           pose proof (dext_cur _ _ _ _ _ _ _ He) as Hcur'.
           split; [exact HI'|]. split; [eapply dext_trans; eassumption|]. split.
           { eapply dtouch_trans with (k1 := S (rank d)) (k2 := rank q);
               [lia | lia | exact Ht1 | exact Ht]. }
           split; [congruence|].
           intros Hbf e [<- | He']; [|apply (Hb Hbf e He')].
           destruct (ext_vcur _ _ _ _ _ _ _ He d md Hmd) as (md' & Hmd' & Hvd' & Hdd'); [congruence|].
           cbn. split; [exists md'; split; [exact Hmd' | congruence]|]. split.
           ++ intros g w k Hog Hvw Hcl.
              pose proof (ext_obs _ _ _ _ _ _ _ He01 g w k Hog) as Hog1.
              destruct (ob_obs _ _ _ _ _ _ _ _ Hog1 d md Hcl Hmd) as [A _]; [left; lia|].
              rewrite A. congruence.
           ++ intros Hcl.
              destruct (mo_obs _ _ _ _ _ _ _ _ _ Hok d md Hcl Hmd) as [_ Hdd]; [left; exact Hcd|].
              split.
              ** rewrite Hcur', Hcur1, <- Hvd. eapply durge_mono; [exact Hdd|].
                 apply (mo_durge _ _ _ _ _ _ _ _ _ Hokd).
              ** exists md'. split; [exact Hmd' | lia].
        -- intros p s' Hx. eapply XP_trans; eassumption.
Qed.

Definition verify_post (s0 : db) (q : qkey) (m : memo) (r : bool * memo) (s' : db) : Prop :=
  DInv s' /\ dext s0 s' /\ dtouch_below s0 s' (S (rank q)) /\ d_stack s' = d_stack s0 /\
  (fst r = true -> verified_now s0 q m (snd r) s') /\
  (fst r = false -> d_memo s' q = d_memo s0 q).

Lemma deep_verify_ok L n q m s (HM : mca_spec L n) :
  (rank q <= n)%nat -> DInv s -> d_memo s q = Some m ->
  ~ lcs s (m_dur m) <= m_verified m ->
  (forall p, In p (d_stack s) -> (rank q <= rank p)%nat) ->
  wp (deep_verify L q m) (verify_post s q m) (XP s) s.
Proof.
  intros Hn HI Hm Hnsh Hst. unfold deep_verify.
  pose proof (inv_memo _ _ _ _ _ _ _ HI q m Hm) as Hok.
  (* the short-cut failed: in flat mode the memo's durability is LOW *)
  assert (Hflat : m_dur m = 0 \/ forall d, In (RQ d) (tr (m_verified m) q) -> In (EQ d) (m_edges m)).
  { destruct (mo_flat _ _ _ _ _ _ _ _ _ Hok) as [Hf | Hdir]; [|right; exact Hdir].
    left. destruct (N.eq_dec (m_dur m) 0) as [Hz | Hnz]; [exact Hz|].
    exfalso. apply Hnsh.
    pose proof (inv_lowrev _ _ _ _ _ _ _ HI Hf (m_dur m)) as Hl.
    pose proof (mo_order _ _ _ _ _ _ _ _ _ Hok). lia. }
  destruct (m_untracked m) eqn:Hu.
  - apply wp_ret. unfold verify_post; cbn [fst snd].
    split; [exact HI|]. split; [apply dext_refl|]. split; [apply dtouch_refl|].
    split; [reflexivity|]. split; [discriminate | reflexivity].
  - apply wp_bind.
    eapply wp_conseq; [apply (walk_edges_ok L n q m s HM (m_edges m) s HI (dext_refl _ _ _ _ _ s) Hm) | |intros; assumption].
    { intros d Hd. pose proof (reach_rank prog rank Hrank q d (mo_edges_reach _ _ _ _ _ _ _ _ _ Hok d Hd)). lia. }
    { exact Hst. }
    intros c s1 (HI1 & He1 & Ht1 & Hs1 & Hc).
    pose proof (dext_cur _ _ _ _ _ _ _ He1) as Hcur1.
    assert (Hm1 : d_memo s1 q = Some m) by (rewrite (Ht1 q) by lia; exact Hm).
    destruct c.
    + apply wp_ret. unfold verify_post; cbn [fst snd].
      split; [exact HI1|]. split; [exact He1|]. split.
      { eapply dtouch_trans with (k1 := rank q) (k2 := 0%nat);
          [lia | lia | exact Ht1 | apply dtouch_refl]. }
      split; [exact Hs1|]. split; [discriminate|]. intros _. congruence.
    + specialize (Hc eq_refl).
      apply wp_bind.
      assert (Hjust : forall s2, dcore_eq s1 s2 -> DInv s2 -> dext s1 s2 ->
                DInv (store s2 q (reverify m (cur s1))) /\ dext s2 (store s2 q (reverify m (cur s1))) /\
                E (cur s1) q = E (m_verified m) q).
      { intros s2 Hce HI2 He12. pose proof (dcore_eq_cur _ _ Hce) as Hc2.
        destruct Hce as (Hr2 & Hi2 & _ & Hmm2).
        rewrite <- Hc2.
        apply (deep_ok prog rank Hrank NF Hbound fm F H D s s2 q m HI HI2);
          [eapply dext_trans; eassumption | exact Hm | rewrite Hmm2; exact Hm1 | exact Hu | exact Hflat|].
        intros e He. specialize (Hc e He). destruct e as [i | d]; cbn in Hc |- *.
        - rewrite Hi2. exact Hc.
        - rewrite Hc2, Hmm2. exact Hc. }
      eapply wp_conseq; [apply (mark_verified_ok q m s1 s He1 HI1 Hm1 Hjust) | |intros; assumption].
      intros m' s2 (-> & HI2 & He2 & Ht2 & Hs2 & Hm2 & HE).
      apply wp_ret. unfold verify_post; cbn [fst snd].
      split; [exact HI2|]. split; [eapply dext_trans; eassumption|]. split.
      { eapply dtouch_trans with (k1 := rank q) (k2 := S (rank q));
          [lia | lia | exact Ht1 | exact Ht2]. }
      split; [congruence|]. split; [|discriminate].
      intros _. unfold verified_now. rewrite Hcur1 in *.
      split; [exact HI2|]. split; [eapply dext_trans; eassumption|]. split.
      { eapply dtouch_trans with (k1 := rank q) (k2 := S (rank q));
          [lia | lia | exact Ht1 | exact Ht2]. }
      conj; auto. congruence.
Qed.

Lemma verify_memo_ok L n q m s (HM : mca_spec L n) :
  (rank q <= n)%nat -> DInv s -> d_memo s q = Some m ->
  (forall p, In p (d_stack s) -> (rank q <= rank p)%nat) ->
  wp (verify_memo L q m) (verify_post s q m) (XP s) s.
Proof.
  intros Hn HI Hm Hst. unfold verify_memo.
  apply wp_bind, wp_get.
  destruct (shallow_verify s m) eqn:Hsh.
  - apply wp_bind.
    eapply wp_conseq; [apply (update_shallow_ok q m s ShVerified s (dext_refl _ _ _ _ _ s) HI Hm Hsh); discriminate | |intros; assumption].
    intros m' s' Hv. apply wp_ret. unfold verify_post; cbn [fst snd].
    pose proof Hv as (A & B & C & D0 & _).
    conj; auto. discriminate.
  - apply wp_bind.
    eapply wp_conseq; [apply (update_shallow_ok q m s ShHigher s (dext_refl _ _ _ _ _ s) HI Hm Hsh); discriminate | |intros; assumption].
    intros m' s' Hv. apply wp_ret. unfold verify_post; cbn [fst snd].
    pose proof Hv as (A & B & C & D0 & _).
    conj; auto. discriminate.
  - pose proof (shallow_cases s m) as Hsc. rewrite Hsh in Hsc.
    apply (deep_verify_ok L n q m s HM Hn HI Hm (proj2 Hsc) Hst).
Qed.

(* ---------------------------------------------------------------- frames while running a body *)
Lemma In_add_edge e' es e : In e' (add_edge es e) <-> In e' es \/ e' = e.
Proof.
  unfold add_edge. destruct (existsb (edge_eqb e) es) eqn:Hex.
  - split; [auto|]. intros [Hin | ->]; [exact Hin|].
    apply existsb_exists in Hex. destruct Hex as (x & Hx & Heq).
    assert (x = e); [|subst; exact Hx].
    destruct e as [i | d], x as [j | d']; cbn in Heq; try discriminate;
      apply key_eqb_eq in Heq; congruence.
  - rewrite in_app_iff. cbn. intuition.
Qed.

Lemma covers_ext s s' pre fr : dext s s' -> covers s pre fr -> covers s' pre fr.
Proof.
  intros He [a b c d f f1 f2 g h i]. pose proof (dext_cur _ _ _ _ _ _ _ He) as Hc.
  constructor; rewrite ?Hc, ?(ext_in _ _ _ _ _ _ _ He); auto.
  - intros d0 Hd0. destruct (b d0 Hd0) as (md & Hmd & Hv & Hx & Hrest).
    exists md. split; [apply (ext_valid _ _ _ _ _ _ _ He); assumption|]. split; [exact Hv|]. split; assumption.
  - destruct f2 as [A | (x & Hx & Hs)]; [left; exact A | right].
    exists x. split; [exact Hx|].
    apply (sle_mono s s' F _ x (ext_in _ _ _ _ _ _ _ He) (ext_mono _ _ _ _ _ _ _ He) Hs).
  - intros k Hk Hki Hkq Hku. apply i; try assumption.
    intros d0 Hd0 md Hmd. destruct (b d0 Hd0) as (md0 & Hmd0 & Hv & Hx & _).
    rewrite Hmd in Hmd0. injection Hmd0 as <-.
    apply (Hkq d0 Hd0). apply (ext_valid _ _ _ _ _ _ _ He); assumption.
Qed.

Lemma covers_add_in s pre fr i :
  DInv s -> covers s pre fr ->
  covers s (pre ++ [RIn i])
         (add_read fr (EIn i) (f_dur (d_in s i)) (f_changed (d_in s i))).
Proof.
  intros HI [a b c d e e1 e2 f g h].
  pose proof (inv_in_le _ _ _ _ _ _ _ HI i) as Hle.
  unfold add_read, dur_min, rev_max.
  constructor; cbn [fr_dur fr_changed fr_edges fr_untracked].
  - intros j Hj. apply in_app_iff in Hj. destruct Hj as [Hj | [Hj | []]].
    + destruct (a j Hj) as (A & B & C). split; [|split; lia].
      apply In_add_edge; left; exact A.
    + injection Hj as <-. split; [|split; lia].
      apply In_add_edge; right; reflexivity.
  - intros d0 Hd0. apply in_app_iff in Hd0. destruct Hd0 as [Hd0 | [Hd0 | []]]; [|discriminate].
    destruct (b d0 Hd0) as (md & A & B & C & D0 & E0 & F0).
    exists md. conj; auto; try lia.
    apply In_add_edge; left; exact F0.
  - intros x Hx Hk. apply in_app_iff in Hx. destruct Hx as [Hx | [Hx | []]].
    + destruct (c x Hx Hk) as (A & B & C). conj; auto; lia.
    + subst x. destruct Hk as [Hk | (c0 & Hk)]; discriminate.
  - intros d0 Hd0. apply in_app_iff. left. apply d.
    apply In_add_edge in Hd0. destruct Hd0 as [Hd0 | Hd0]; [exact Hd0 | discriminate].
  - lia.
  - lia.
  - destruct (N.max_spec (fr_changed fr) (f_changed (d_in s i))) as [[Hlt ->] | [Hge ->]].
    + right. exists (RIn i). split; [apply in_app_iff; right; left; reflexivity | cbn; lia].
    + destruct e2 as [A | (x & Hx & Hs)]; [left; exact A | right].
      exists x. split; [apply in_app_iff; left; exact Hx | exact Hs].
  - lia.
  - intros Hu. rewrite (g Hu). lia.
  - intros k Hk Hki Hkq Hku.
    assert (k <= fr_dur fr).
    { apply h; [exact Hk | | |].
      - intros j Hj. apply Hki. apply in_app_iff; left; exact Hj.
      - intros d0 Hd0. apply Hkq. apply in_app_iff; left; exact Hd0.
      - intros x Hx. apply Hku. apply in_app_iff; left; exact Hx. }
    assert (k <= f_dur (d_in s i)) by (apply Hki; apply in_app_iff; right; left; reflexivity).
    lia.
Qed.

Lemma covers_add_q s pre fr d md :
  DInv s -> covers s pre fr ->
  d_memo s d = Some md -> m_verified md = cur s -> m_val md <> None ->
  covers s (pre ++ [RQ d]) (add_read fr (EQ d) (m_dur md) (m_changed md)).
Proof.
  intros HI [a b c dd e e1 e2 f g h] Hmd Hv Hx.
  pose proof (inv_memo _ _ _ _ _ _ _ HI d md Hmd) as Hok.
  pose proof (mo_order _ _ _ _ _ _ _ _ _ Hok) as (_ & Hcv & Hvc).
  unfold add_read, dur_min, rev_max.
  constructor; cbn [fr_dur fr_changed fr_edges fr_untracked].
  - intros j Hj. apply in_app_iff in Hj. destruct Hj as [Hj | [Hj | []]]; [|discriminate].
    destruct (a j Hj) as (A & B & C). split; [|split; lia].
    apply In_add_edge; left; exact A.
  - intros d0 Hd0. apply in_app_iff in Hd0. destruct Hd0 as [Hd0 | [Hd0 | []]].
    + destruct (b d0 Hd0) as (md0 & A & B & C & D0 & E0 & F0).
      exists md0. conj; auto; try lia.
      apply In_add_edge; left; exact F0.
    + injection Hd0 as <-. exists md. conj; auto; try lia.
      apply In_add_edge; right; reflexivity.
  - intros x Hxx Hk. apply in_app_iff in Hxx. destruct Hxx as [Hxx | [Hxx | []]].
    + destruct (c x Hxx Hk) as (A & B & C). conj; auto; lia.
    + subst x. destruct Hk as [Hk | (c0 & Hk)]; discriminate.
  - intros d0 Hd0. apply in_app_iff.
    apply In_add_edge in Hd0. destruct Hd0 as [Hd0 | Hd0]; [left; apply dd; exact Hd0 | right; left; congruence].
  - lia.
  - lia.
  - destruct (N.max_spec (fr_changed fr) (m_changed md)) as [[Hlt ->] | [Hge ->]].
    + right. exists (RQ d). split; [apply in_app_iff; right; left; reflexivity|].
      cbn. exists (m_changed md). split; [unfold LInv.phi; rewrite Hmd; reflexivity | lia].
    + destruct e2 as [A | (x & Hxx & Hs)]; [left; exact A | right].
      exists x. split; [apply in_app_iff; left; exact Hxx | exact Hs].
  - lia.
  - intros Hu. rewrite (g Hu). lia.
  - intros k Hk Hki Hkq Hku.
    assert (k <= fr_dur fr).
    { apply h; [exact Hk | | |].
      - intros j Hj. apply Hki. apply in_app_iff; left; exact Hj.
      - intros d0 Hd0. apply Hkq. apply in_app_iff; left; exact Hd0.
      - intros x Hxx. apply Hku. apply in_app_iff; left; exact Hxx. }
    assert (k <= m_dur md).
    { apply (Hkq d); [apply in_app_iff; right; left; reflexivity | exact Hmd]. }
    lia.
Qed.

Lemma covers_add_untracked s pre fr x :
  DInv s -> covers s pre fr -> untr x ->
  covers s (pre ++ [x]) (add_untracked fr (cur s)).
Proof.
  intros HI [a b c d e e1 e2 f g h] Hx.
  unfold add_untracked, D_LOW.
  constructor; cbn [fr_dur fr_changed fr_edges fr_untracked].
  - intros j Hj. apply in_app_iff in Hj. destruct Hj as [Hj | [Hj | []]].
    + destruct (a j Hj) as (A & B & C). conj; auto; [apply (inv_in_le _ _ _ _ _ _ _ HI) | lia].
    + subst x. destruct Hx as [Hx | (c0 & Hx)]; discriminate.
  - intros d0 Hd0. apply in_app_iff in Hd0. destruct Hd0 as [Hd0 | [Hd0 | []]].
    + destruct (b d0 Hd0) as (md0 & A & B & C & D0 & E0 & F0).
      pose proof (mo_order _ _ _ _ _ _ _ _ _ (inv_memo _ _ _ _ _ _ _ HI d0 md0 A)).
      exists md0. conj; auto; try lia.
    + subst x. destruct Hx as [Hx | (c0 & Hx)]; discriminate.
  - intros y Hy Hk. conj; reflexivity.
  - intros d0 Hd0. apply in_app_iff. left. apply d; exact Hd0.
  - lia.
  - apply (inv_cur _ _ _ _ _ _ _ HI).
  - right. exists x. split; [apply in_app_iff; right; left; reflexivity|].
    destruct Hx as [-> | (c0 & ->)]; exact I.
  - lia.
  - intros _; reflexivity.
  - intros k Hk Hki Hkq Hku.
    assert (k = 0); [|lia]. apply (Hku x); [apply in_app_iff; right; left; reflexivity | exact Hx].
Qed.

(* ---------------------------------------------------------------- running a body *)
Lemma run_body_ok L n q c0 (HF : fetch_spec L n) : forall b pre fr s,
  cur s = c0 ->
  tr c0 q = pre ++ trace (envat c0) (tb b) ->
  E c0 q = run (envat c0) (tb b) ->
  (forall d, calls (tb b) d -> (rank d < n)%nat /\ (rank d < rank q)%nat) ->
  DInv s -> covers s pre fr ->
  (forall p, In p (d_stack s) -> (rank q <= rank p)%nat) ->
  wp (run_body L b fr)
     (fun r s' => DInv s' /\ dext s s' /\ dtouch_below s s' (rank q) /\ d_stack s' = d_stack s /\
                  fst r = E c0 q /\ covers s' (tr c0 q) (snd r)) (XP s) s.
Proof.
  induction b as [v | i k IH | d k IH | c k IH | k IH | pc k IH];
    intros pre fr s Hc Htr HE Hcalls HI Hcv Hst; cbn [run_body tb] in *.
  - (* Ret *)
    apply wp_ret. cbn [trace run] in *. rewrite app_nil_r in Htr.
    split; [exact HI|]. split; [apply dext_refl|]. split; [apply dtouch_refl|].
    split; [reflexivity|]. cbn [fst snd]. split; [congruence|]. rewrite Htr. exact Hcv.
  - (* RdIn *)
    apply wp_bind, wp_get.
    assert (Hval : e_in (envat c0) i = f_val (d_in s i)).
    { cbn. apply (inv_in _ _ _ _ _ _ _ HI); [rewrite <- Hc; apply (inv_in_le _ _ _ _ _ _ _ HI) | lia]. }
    cbn [trace run] in Htr, HE. rewrite Hval in Htr, HE.
    apply (IH (f_val (d_in s i)) (pre ++ [RIn i]) _ s Hc).
    + rewrite <- app_assoc. exact Htr.
    + exact HE.
    + intros d Hd. apply Hcalls. eapply calls_in_rdin; exact Hd.
    + exact HI.
    + apply covers_add_in; assumption.
    + exact Hst.
  - (* CallQ *)
    destruct (Hcalls d (calls_here d _)) as [Hdn Hdq].
    apply wp_bind.
    eapply wp_conseq; [apply (HF d s Hdn HI) | |intros; assumption].
    { intros p Hp. specialize (Hst p Hp). lia. }
    intros [[v dd] cd] s1 (HI1 & He1 & Ht1 & Hs1 & Hv & (md & Hmd & Hvd & Hxd & Hdd & Hcd)).
    cbn [fst snd] in *.
    pose proof (dext_cur _ _ _ _ _ _ _ He1) as Hc1.
    assert (Hval : e_q (envat c0) d = v).
    { cbn. rewrite Hv, Hc. reflexivity. }
    cbn [trace run] in Htr, HE. rewrite Hval in Htr, HE.
    eapply wp_conseq; [apply (IH v (pre ++ [RQ d]) _ s1) | |].
    + congruence.
    + rewrite <- app_assoc. exact Htr.
    + exact HE.
    + intros d' Hd'. apply Hcalls. eapply calls_in_call; exact Hd'.
    + exact HI1.
    + subst dd cd. apply covers_add_q; try assumption.
      * eapply covers_ext; eassumption.
      * congruence.
      * rewrite Hxd; discriminate.
    + rewrite Hs1. exact Hst.
    + intros r s2 (HI2 & He2 & Ht2 & Hs2 & Hr & Hcv2).
      split; [exact HI2|]. split; [eapply dext_trans; eassumption|]. split.
      { eapply dtouch_trans with (k1 := S (rank d)) (k2 := rank q);
          [lia | lia | exact Ht1 | exact Ht2]. }
      split; [congruence|]. split; assumption.
    + intros p s2 Hx. eapply XP_trans; eassumption.
  - (* RdCell *)
    apply wp_bind, wp_get.
    assert (Hval : e_cell (envat c0) c = d_cell s c).
    { cbn. rewrite <- Hc. apply (inv_cell _ _ _ _ _ _ _ HI). }
    cbn [trace run] in Htr, HE. rewrite Hval in Htr, HE.
    apply (IH (d_cell s c) (pre ++ [RCell c]) _ s Hc).
    + rewrite <- app_assoc. exact Htr.
    + exact HE.
    + intros d Hd. apply Hcalls. eapply calls_in_cell; exact Hd.
    + exact HI.
    + apply covers_add_untracked; [assumption | assumption | right; eauto].
    + exact Hst.
  - (* Touch *)
    apply wp_bind, wp_get.
    cbn [trace run] in Htr, HE.
    apply (IH (pre ++ [RTouch]) _ s Hc).
    + rewrite <- app_assoc. exact Htr.
    + exact HE.
    + intros d Hd. apply Hcalls. eapply calls_in_touch; exact Hd.
    + exact HI.
    + apply covers_add_untracked; [assumption | assumption | left; reflexivity].
    + exact Hst.
  - (* PanicIf *)
    apply wp_bind, wp_get.
    cbn [trace run] in Htr, HE.
    destruct (d_pcell s pc =? 0) eqn:Hpc.
    + apply (IH pre fr s Hc); try assumption.
      intros d Hd. apply Hcalls. eapply calls_in_panicif; exact Hd.
    + apply wp_fail. split; [left; split; [reflexivity | exists pc; apply N.eqb_neq; exact Hpc]|].
      split; [exact HI | apply dext_refl].
Qed.

(* ---------------------------------------------------------------- execute *)
Definition exec_post (s0 : db) (q : qkey) (m : memo) (s' : db) : Prop :=
  DInv s' /\ dext s0 s' /\ dtouch_below s0 s' (S (rank q)) /\ d_stack s' = d_stack s0 /\
  d_memo s' q = Some m /\ m_verified m = cur s0 /\ m_val m = Some (E (cur s0) q).

Lemma store_fresh_ok q s0 s2 v fr ch old :
  DInv s2 -> dext s0 s2 -> dtouch_below s0 s2 (rank q) ->
  covers s2 (tr (cur s2) q) fr -> v = E (cur s2) q ->
  d_memo s2 q = old ->
  (forall m0, old = Some m0 -> m_verified m0 = cur s2 -> m_val m0 = None) ->
  (ch = fr_changed fr \/
   exists o ov, old = Some o /\ m_val o = Some ov /\ ov = v /\ ch = m_changed o /\
                m_dur o <= fr_dur fr) ->
  let m := fresh_memo v (cur s2) ch fr in
  DInv (store s2 q m) /\ dext s0 (store s2 q m) /\ dtouch_below s0 (store s2 q m) (S (rank q)) /\
  d_memo (store s2 q m) q = Some m.
Proof.
  intros HI2 He Ht Hcv Hv Hold Hnv Hch m.
  destruct (fresh_store_ok prog rank Hrank NF Hbound fm F H D s2 q fr v ch old HI2 Hcv Hv Hold Hnv Hch)
    as [HI3 He3].
  split; [exact HI3|]. split; [eapply dext_trans; eassumption|]. split.
  { eapply dtouch_trans with (k1 := rank q) (k2 := S (rank q));
      [lia | lia | exact Ht | apply dtouch_store; lia]. }
  unfold store; cbn. apply upd_same.
Qed.

Lemma execute_ok L n q s old (HF : fetch_spec L n) :
  (rank q <= n)%nat -> DInv s -> d_memo s q = old ->
  (forall m0, old = Some m0 -> m_verified m0 = cur s -> m_val m0 = None) ->
  (forall p, In p (d_stack s) -> (rank q <= rank p)%nat) ->
  wp (execute uprog noeq L q old) (exec_post s q) (XP s) s.
Proof.
  intros Hn HI Hold Hnv Hst. unfold execute.
  apply wp_bind. apply (emit_ok _ s s); [exact HI | apply dext_refl|].
  intros s1 Hce HI1 He01 Hst01 _.
  assert (Hcur01 : cur s1 = cur s) by (apply dcore_eq_cur; exact Hce).
  apply wp_bind.
  eapply wp_conseq; [apply (run_body_ok L n q (cur s) HF (uprog q) [] frame0 s1) | |].
  - exact Hcur01.
  - reflexivity.
  - apply (E_unfold prog rank Hrank NF Hbound).
  - intros d Hd. pose proof (Hrank q d Hd). split; lia.
  - exact HI1.
  - apply covers_frame0. apply (inv_cur _ _ _ _ _ _ _ HI1).
  - rewrite Hst01. exact Hst.
  - intros [v fr] s2 (HI2 & He2 & Ht2 & Hs2 & Hv & Hcv). cbn [fst snd] in *.
    pose proof (dext_cur _ _ _ _ _ _ _ He2) as Hc2. rewrite Hcur01 in Hc2.
    apply wp_bind, wp_get.
    assert (He02 : dext s s2) by (eapply dext_trans; eassumption).
    assert (Ht02 : dtouch_below s s2 (rank q)).
    { eapply dtouch_trans with (k1 := 0%nat) (k2 := rank q);
        [lia | lia | apply dtouch_of_core_eq; exact Hce | exact Ht2]. }
    assert (Hold2 : d_memo s2 q = old) by (rewrite (Ht02 q) by lia; exact Hold).
    assert (Hnv2 : forall m0, old = Some m0 -> m_verified m0 = cur s2 -> m_val m0 = None).
    { intros m0 A B. apply Hnv; [exact A | congruence]. }
    assert (Hcv' : covers s2 (tr (cur s2) q) fr) by (rewrite Hc2; exact Hcv).
    assert (Hv' : v = E (cur s2) q) by (rewrite Hc2; exact Hv).
    (* the common ending: store the fresh memo with stamp ch *)
    assert (Hfin : forall ch,
      (ch = fr_changed fr \/
       exists o ov, old = Some o /\ m_val o = Some ov /\ ov = v /\ ch = m_changed o /\
                    m_dur o <= fr_dur fr) ->
      wp (set_memo_at q (fresh_memo v (cur s2) ch fr) ;;; ret (fresh_memo v (cur s2) ch fr))
         (exec_post s q) (XP s) s2).
    { intros ch Hch. apply wp_bind. unfold set_memo_at. apply wp_modify. apply wp_ret.
      change (set_memo s2 _) with (store s2 q (fresh_memo v (cur s2) ch fr)).
      destruct (store_fresh_ok q s s2 v fr ch old HI2 He02 Ht02 Hcv' Hv' Hold2 Hnv2 Hch)
        as (A & B & C & D0).
      unfold exec_post.
      split; [exact A|]. split; [exact B|]. split; [exact C|].
      split; [cbn; rewrite Hs2; exact Hst01|]. split; [exact D0|].
      split; [cbn; exact Hc2 | cbn; rewrite Hv; reflexivity]. }
    change (fresh_memo v (cur s2)) with (fun ch fr0 => fresh_memo v (cur s2) ch fr0) in Hfin.
    destruct old as [o|].
    + destruct (m_val o) as [ov|] eqn:Hov.
      * destruct (can_backdate_dur (fr_dur fr) (m_dur o) && negb (noeq q) && (ov =? v)) eqn:Hbk.
        -- apply andb_true_iff in Hbk. destruct Hbk as [Hbk Hbd].
           apply andb_true_iff in Hbk. destruct Hbk as [Hbk _]. apply can_backdate_dur_spec in Hbk.
           destruct (changed_after (m_changed o) (fr_changed fr)) eqn:Hca.
           ++ (* the backdate-violation assertion is unreachable: stamps never decrease *)
              exfalso. apply changed_after_spec in Hca.
              pose proof (phi_frame_lb prog NF fm F H D s2 q fr (m_changed o) HI2 Hcv') as Hlb.
              unfold LInv.phi in Hlb. rewrite Hold2 in Hlb. specialize (Hlb eq_refl). lia.
           ++ apply (Hfin (m_changed o)). right. exists o, ov. conj; auto. apply N.eqb_eq in Hbd. exact Hbd.
        -- apply (Hfin (fr_changed fr)). left; reflexivity.
      * apply (Hfin (fr_changed fr)). left; reflexivity.
    + apply (Hfin (fr_changed fr)). left; reflexivity.
  - intros p s' Hx. eapply XP_trans; eassumption.
Qed.

(* ---------------------------------------------------------------- claims *)
Lemma claim_ok q s (Q : unit -> db -> Prop) (X : ppanic -> db -> Prop) :
  stack_ok s q -> Q tt (set_stack s (q :: d_stack s)) -> wp (claim q) Q X s.
Proof.
  intros Hst HQ. unfold claim. apply wp_bind, wp_get.
  destruct (existsb (key_eqb q) (d_stack s)) eqn:Hex.
  - exfalso. apply existsb_exists in Hex. destruct Hex as (x & Hx & Heq).
    apply key_eqb_eq in Heq. subst x. specialize (Hst q Hx). lia.
  - apply wp_modify. exact HQ.
Qed.

Definition got (s0 : db) (q : qkey) (mv : memo * val) (s' : db) : Prop :=
  DInv s' /\ dext s0 s' /\ dtouch_below s0 s' (S (rank q)) /\ d_stack s' = d_stack s0 /\
  d_memo s' q = Some (fst mv) /\ m_verified (fst mv) = cur s0 /\
  m_val (fst mv) = Some (snd mv) /\ snd mv = E (cur s0) q.

Definition not_valid_with_value (s : db) (q : qkey) : Prop :=
  forall m0, d_memo s q = Some m0 -> m_verified m0 = cur s -> m_val m0 = None.

Lemma stacked s q :
  stack_ok s q ->
  forall p, In p (d_stack (set_stack s (q :: d_stack s))) -> (rank q <= rank p)%nat.
Proof. intros Hst p [<- | Hp]; [lia | specialize (Hst p Hp); lia]. Qed.

Lemma dext_set_stack s l : dext s (set_stack s l).
Proof. apply dext_of_core_eq; [apply dcore_eq_stack | reflexivity | auto]. Qed.

Lemma fetch_cold_ok L n q s (HF : fetch_spec L n) (HM : mca_spec L n) :
  (rank q <= n)%nat -> DInv s -> stack_ok s q -> not_valid_with_value s q ->
  wp (fetch_cold uprog noeq L q) (got s q) (XP s) s.
Proof.
  intros Hn HI Hst Hnv. unfold fetch_cold.
  apply wp_bind. apply claim_ok; [exact Hst|].
  set (s1 := set_stack s (q :: d_stack s)).
  assert (Hce : dcore_eq s s1) by apply dcore_eq_stack.
  assert (HI1 : DInv s1) by (apply (DInv_core_eq prog NF fm H D F s); assumption).
  assert (He01 : dext s s1) by apply dext_set_stack.
  assert (Hst1 : forall p, In p (d_stack s1) -> (rank q <= rank p)%nat) by (apply stacked; exact Hst).
  apply wp_bind, wp_get. change (d_memo s1 q) with (d_memo s q).
  (* the execute branch, from any state s2 reached without touching q's memo *)
  assert (Hexec : forall s2, DInv s2 -> dext s1 s2 -> dtouch_below s1 s2 (S (rank q)) ->
            d_stack s2 = d_stack s1 -> d_memo s2 q = d_memo s q ->
            wp (m <- execute uprog noeq L q (d_memo s q) ;;
                release q ;;;
                match m_val m with Some v => ret (m, v) | None => nofuel end)
               (got s q) (XP s) s2).
  { intros s2 HI2 He2 Ht2 Hs2 Hm2.
    pose proof (dext_cur _ _ _ _ _ _ _ He2) as Hc2. change (cur s1) with (cur s) in Hc2.
    apply wp_bind.
    eapply wp_conseq; [apply (execute_ok L n q s2 (d_memo s q) HF Hn HI2 Hm2) | |].
    - intros m0 A B. apply Hnv; [exact A | congruence].
    - rewrite Hs2. exact Hst1.
    - intros m s3 (HI3 & He3 & Ht3 & Hs3 & Hm3 & Hv3 & Hx3).
      apply wp_bind. unfold release. apply wp_modify.
      rewrite Hx3. apply wp_ret.
      set (s4 := set_stack s3 (tl (d_stack s3))).
      assert (Hce4 : dcore_eq s3 s4) by apply dcore_eq_stack.
      unfold got; cbn [fst snd].
      split; [apply (DInv_core_eq prog NF fm H D F s3); assumption|].
      split; [eapply dext_trans; [exact He01|]; eapply dext_trans; [exact He2|];
              eapply dext_trans; [exact He3 | apply dext_set_stack]|].
      split.
      { eapply dtouch_trans with (k1 := 0%nat) (k2 := S (rank q));
          [lia | lia | apply dtouch_of_core_eq; exact Hce|].
        eapply dtouch_trans with (k1 := S (rank q)) (k2 := S (rank q));
          [lia | lia | exact Ht2|].
        eapply dtouch_trans with (k1 := S (rank q)) (k2 := 0%nat);
          [lia | lia | exact Ht3 | apply dtouch_of_core_eq; exact Hce4]. }
      split; [cbn; rewrite Hs3, Hs2; reflexivity|].
      split; [exact Hm3|]. split; [congruence|]. split; [congruence | congruence].
    - intros p s3 Hx. eapply XP_trans; [eapply dext_trans; [exact He01 | exact He2] | exact Hx]. }
  destruct (d_memo s q) as [m|] eqn:Hm.
  - destruct (m_val m) as [v|] eqn:Hv.
    + apply wp_bind. apply wp_bind.
      eapply wp_conseq; [apply (verify_memo_ok L n q m s1 HM Hn HI1 Hm Hst1) | |].
      * intros [b m'] s2 (HI2 & He2 & Ht2 & Hs2 & Htrue & Hfalse). cbn [fst snd] in *.
        apply wp_ret.
        destruct b.
        -- destruct (Htrue eq_refl) as (_ & _ & _ & _ & Hm' & Hv' & Hval' & _ & _ & HE).
           apply wp_bind. unfold release. apply wp_modify. apply wp_ret.
           set (s4 := set_stack s2 (tl (d_stack s2))).
           unfold got; cbn [fst snd].
           split; [apply (DInv_core_eq prog NF fm H D F s2); [apply dcore_eq_stack | exact HI2]|].
           split; [eapply dext_trans; [exact He01|]; eapply dext_trans; [exact He2 | apply dext_set_stack]|].
           split.
           { eapply dtouch_trans with (k1 := 0%nat) (k2 := S (rank q));
               [lia | lia | apply dtouch_of_core_eq; exact Hce|].
             eapply dtouch_trans with (k1 := S (rank q)) (k2 := 0%nat);
               [lia | lia | exact Ht2 | apply dtouch_of_core_eq; apply dcore_eq_stack]. }
           split; [cbn; rewrite Hs2; reflexivity|].
           split; [exact Hm'|]. split; [exact Hv'|]. split; [congruence|].
           change (cur s1) with (cur s) in HE. rewrite HE.
           apply (mo_val _ _ _ _ _ _ _ _ _ (inv_memo _ _ _ _ _ _ _ HI q m Hm)); exact Hv.
        -- apply Hexec; try assumption. rewrite (Hfalse eq_refl). exact Hm.
      * intros p s2 Hx. eapply XP_trans; eassumption.
    + apply wp_bind, wp_ret.
      apply Hexec; [exact HI1 | apply dext_refl | apply dtouch_refl | reflexivity | exact Hm].
  - apply wp_bind, wp_ret.
    apply Hexec; [exact HI1 | apply dext_refl | apply dtouch_refl | reflexivity | exact Hm].
Qed.

(* ---------------------------------------------------------------- fetch *)
Lemma not_valid_of_ne s q m : d_memo s q = Some m -> m_verified m <> cur s -> not_valid_with_value s q.
Proof. intros Hm Hne m0 Hm0 Hv0. congruence. Qed.

Lemma fetch_hot_ok q s :
  DInv s ->
  wp (fetch_hot q)
     (fun hot s' => match hot with
                    | Some mv => got s q mv s'
                    | None => s' = s /\ not_valid_with_value s q
                    end) (XP s) s.
Proof.
  intros HI. unfold fetch_hot. apply wp_bind, wp_get.
  destruct (d_memo s q) as [m|] eqn:Hm.
  - destruct (m_val m) as [v|] eqn:Hv.
    + assert (Hgot : forall u, shallow_verify s m = u -> u <> ShNo ->
                wp (m' <- update_shallow q m u ;; ret (Some (m', v)))
                   (fun hot s' => match hot with
                                  | Some mv => got s q mv s'
                                  | None => s' = s /\ not_valid_with_value s q
                                  end) (XP s) s).
      { intros u Hu Hne. apply wp_bind.
        eapply wp_conseq; [apply (update_shallow_ok q m s u s (dext_refl _ _ _ _ _ s) HI Hm Hu Hne) | |intros; assumption].
        intros m' s' (A & B & C & D0 & Hm' & Hv' & Hval' & _ & _ & HE).
        apply wp_ret. unfold got; cbn [fst snd]. conj; auto; try congruence.
        rewrite HE. apply (mo_val _ _ _ _ _ _ _ _ _ (inv_memo _ _ _ _ _ _ _ HI q m Hm)); exact Hv. }
      destruct (shallow_verify s m) eqn:Hsh.
      * apply Hgot; [reflexivity | discriminate].
      * apply Hgot; [reflexivity | discriminate].
      * apply wp_ret. split; [reflexivity|].
        pose proof (shallow_cases s m) as Hc. rewrite Hsh in Hc. destruct Hc as [Hc _].
        eapply not_valid_of_ne; eassumption.
    + apply wp_ret. split; [reflexivity|]. intros m0 Hm0 _. congruence.
  - apply wp_ret. split; [reflexivity|]. intros m0 Hm0. congruence.
Qed.

Definition fetch_rest (L : lower) (q : qkey) : M qres :=
  hot <- fetch_hot q ;;
  r <- match hot with
       | Some mv => ret mv
       | None => fetch_cold uprog noeq L q
       end ;;
  modify (fun s => set_lru s (updN (d_lru s) (fst q) (lru_record_use (d_lru s (fst q)) (snd q)))) ;;;
  ret (memo_qres (fst r) (snd r)).

Lemma fetch_rest_ok L n (HF : fetch_spec L n) (HM : mca_spec L n) :
  forall q s, (rank q <= n)%nat -> DInv s -> stack_ok s q ->
    wp (fetch_rest L q) (fetch_post s q) (XP s) s.
Proof.
  intros q s Hn HI Hst. unfold fetch_rest.
  apply wp_bind.
  eapply wp_conseq; [apply (fetch_hot_ok q s HI) | |intros; assumption].
  intros hot s1 Hhot.
  assert (Hfin : forall mv s2, got s q mv s2 ->
            wp (modify (fun s => set_lru s (updN (d_lru s) (fst q) (lru_record_use (d_lru s (fst q)) (snd q)))) ;;;
                ret (memo_qres (fst mv) (snd mv))) (fetch_post s q) (XP s) s2).
  { intros [m v] s2 (A & B & C & D0 & Hm & Hv & Hval & HE). cbn [fst snd] in *.
    apply wp_bind, wp_modify, wp_ret.
    set (s3 := set_lru s2 _).
    assert (Hce : dcore_eq s2 s3) by apply dcore_eq_lru.
    unfold fetch_post, memo_qres; cbn [fst snd].
    split; [apply (DInv_core_eq prog NF fm H D F s2); assumption|].
    split; [eapply dext_trans; [exact B | apply dext_of_core_eq; [exact Hce | reflexivity | auto]]|].
    split.
    { eapply dtouch_trans with (k1 := S (rank q)) (k2 := 0%nat);
        [lia | lia | exact C | apply dtouch_of_core_eq; exact Hce]. }
    split; [exact D0|]. split; [exact HE|].
    exists m. conj; auto. }
  apply wp_bind.
  destruct hot as [mv|].
  - apply wp_ret. apply Hfin. exact Hhot.
  - destruct Hhot as [-> Hnv].
    eapply wp_conseq; [apply (fetch_cold_ok L n q s HF HM Hn HI Hst Hnv) | |intros; assumption].
    intros mv s2 Hgot. apply Hfin. exact Hgot.
Qed.

(* the typed entry point initialises the function ingredient first *)
Lemma init_step s fam :
  let s0 := set_init s (updN (d_init s) fam true) in
  dcore_eq s s0 /\ dext s s0 /\ d_stack s0 = d_stack s /\ d_init s0 fam = true.
Proof.
  cbn. split; [apply dcore_eq_init|]. split; [|split; [reflexivity | cbn; apply updN_same]].
  apply dext_of_core_eq; [apply dcore_eq_init | reflexivity|].
  intros f Hf. cbn. unfold updN. destruct (fam =? f); [reflexivity | exact Hf].
Qed.

Lemma fetch_ok L n (HF : fetch_spec L n) (HM : mca_spec L n) :
  forall q s, (rank q <= n)%nat -> DInv s -> stack_ok s q ->
    wp (fetch uprog noeq L q) (fetch_post s q) (XP s) s.
Proof.
  intros q s Hn HI Hst. unfold fetch.
  apply wp_bind. unfold init_family. apply wp_modify.
  destruct (init_step s (fst q)) as (Hce0 & He0 & Hst0 & _).
  set (s0 := set_init s (updN (d_init s) (fst q) true)) in *.
  assert (HI0 : DInv s0) by (apply (DInv_core_eq prog NF fm H D F s); assumption).
  eapply wp_conseq; [apply (fetch_rest_ok L n HF HM q s0 Hn HI0) | |].
  - intros p Hp. apply Hst. rewrite <- Hst0. exact Hp.
  - intros r s' (A & B & C & D0 & Hv & Hm). unfold fetch_post.
    split; [exact A|]. split; [eapply dext_trans; eassumption|]. split.
    { eapply dtouch_trans with (k1 := 0%nat) (k2 := S (rank q));
        [lia | lia | apply dtouch_of_core_eq; exact Hce0 | exact C]. }
    split; [congruence|]. split; [exact Hv | exact Hm].
  - intros p s' Hx. eapply XP_trans; eassumption.
Qed.

(* ---------------------------------------------------------------- maybe_changed_after *)
Lemma mca_cold_ok L n q since s (HF : fetch_spec L n) (HM : mca_spec L n) :
  (rank q <= n)%nat -> DInv s -> stack_ok s q -> not_valid_with_value s q ->
  wp (mca_cold uprog noeq L q since) (mca_post s q since) (XP s) s.
Proof.
  intros Hn HI Hst Hnv. unfold mca_cold.
  apply wp_bind. apply claim_ok; [exact Hst|].
  set (s1 := set_stack s (q :: d_stack s)).
  assert (Hce : dcore_eq s s1) by apply dcore_eq_stack.
  assert (HI1 : DInv s1) by (apply (DInv_core_eq prog NF fm H D F s); assumption).
  assert (He01 : dext s s1) by apply dext_set_stack.
  assert (Hst1 : forall p, In p (d_stack s1) -> (rank q <= rank p)%nat) by (apply stacked; exact Hst).
  apply wp_bind, wp_get. change (d_memo s1 q) with (d_memo s q).
  (* leaving: release and return b, from a state s2 *)
  assert (Hleave : forall b s2, DInv s2 -> dext s1 s2 -> dtouch_below s1 s2 (S (rank q)) ->
            d_stack s2 = d_stack s1 ->
            (b = false -> exists m, d_memo s2 q = Some m /\ m_verified m = cur s /\ m_changed m <= since) ->
            wp (release q ;;; ret b) (mca_post s q since) (XP s) s2).
  { intros b s2 HI2 He2 Ht2 Hs2 Hb.
    apply wp_bind. unfold release. apply wp_modify. apply wp_ret.
    unfold mca_post.
    split; [apply (DInv_core_eq prog NF fm H D F s2); [apply dcore_eq_stack | exact HI2]|].
    split; [eapply dext_trans; [exact He01|]; eapply dext_trans; [exact He2 | apply dext_set_stack]|].
    split.
    { eapply dtouch_trans with (k1 := 0%nat) (k2 := S (rank q));
        [lia | lia | apply dtouch_of_core_eq; exact Hce|].
      eapply dtouch_trans with (k1 := S (rank q)) (k2 := 0%nat);
        [lia | lia | exact Ht2 | apply dtouch_of_core_eq; apply dcore_eq_stack]. }
    split; [cbn; rewrite Hs2; reflexivity|]. exact Hb. }
  destruct (d_memo s q) as [old|] eqn:Hm.
  - apply wp_bind.
    eapply wp_conseq; [apply (verify_memo_ok L n q old s1 HM Hn HI1 Hm Hst1) | |].
    + intros [b m'] s2 (HI2 & He2 & Ht2 & Hs2 & Htrue & Hfalse). cbn [fst snd] in *.
      destruct b.
      * destruct (Htrue eq_refl) as (_ & _ & _ & _ & Hm' & Hv' & _ & _ & Hch' & _).
        apply Hleave; try assumption.
        intros Hca. apply changed_after_false in Hca.
        exists m'. conj; auto.
      * specialize (Hfalse eq_refl). change (d_memo s1 q) with (d_memo s q) in Hfalse.
        destruct (m_val old) as [ov|] eqn:Hov.
        -- apply wp_bind.
           pose proof (dext_cur _ _ _ _ _ _ _ He2) as Hc2. change (cur s1) with (cur s) in Hc2.
           eapply wp_conseq; [apply (execute_ok L n q s2 (Some old) HF Hn HI2) | |].
           ++ congruence.
           ++ intros m0 A B. injection A as <-. apply Hnv; [exact Hm | congruence].
           ++ rewrite Hs2. exact Hst1.
           ++ intros mnew s3 (HI3 & He3 & Ht3 & Hs3 & Hm3 & Hv3 & _).
              apply Hleave.
              ** exact HI3.
              ** eapply dext_trans; eassumption.
              ** eapply dtouch_trans with (k1 := S (rank q)) (k2 := S (rank q));
                   [lia | lia | exact Ht2 | exact Ht3].
              ** congruence.
              ** intros Hca. apply changed_after_false in Hca.
                 exists mnew. conj; auto. congruence.
           ++ intros p s3 Hx. eapply XP_trans; [eapply dext_trans; [exact He01 | exact He2] | exact Hx].
        -- apply Hleave; try assumption. discriminate.
    + intros p s2 Hx. eapply XP_trans; eassumption.
  - apply Hleave; [exact HI1 | apply dext_refl | apply dtouch_refl | reflexivity | discriminate].
Qed.

Lemma mca_ok L n (HF : fetch_spec L n) (HM : mca_spec L n) :
  forall q since s, (rank q <= n)%nat -> DInv s -> stack_ok s q ->
    wp (mca uprog noeq L q since) (mca_post s q since) (XP s) s.
Proof.
  intros q since s Hn HI Hst. unfold mca.
  apply wp_bind, wp_get.
  destruct (d_init s (fst q)) eqn:Hinit; cbn [negb].
  2:{ apply wp_fail. split; [right; split; [reflexivity | exists (fst q); exact Hinit]|].
      split; [exact HI | apply dext_refl]. }
  destruct (d_memo s q) as [m|] eqn:Hm.
  - assert (Hgot : forall u, shallow_verify s m = u -> u <> ShNo ->
              wp (m' <- update_shallow q m u ;; ret (changed_after (m_changed m') since))
                 (mca_post s q since) (XP s) s).
    { intros u Hu Hne. apply wp_bind.
      eapply wp_conseq; [apply (update_shallow_ok q m s u s (dext_refl _ _ _ _ _ s) HI Hm Hu Hne) | |intros; assumption].
      intros m' s' (A & B & C & D0 & Hm' & Hv' & _ & _ & Hch' & _).
      apply wp_ret. unfold mca_post. conj; auto.
      intros Hca. apply changed_after_false in Hca. exists m'. conj; auto. }
    destruct (shallow_verify s m) eqn:Hsh.
    + apply Hgot; [reflexivity | discriminate].
    + apply Hgot; [reflexivity | discriminate].
    + apply (mca_cold_ok L n q since s HF HM Hn HI Hst).
      pose proof (shallow_cases s m) as Hc. rewrite Hsh in Hc. destruct Hc as [Hc _].
      eapply not_valid_of_ne; eassumption.
  - apply wp_ret. unfold mca_post.
    split; [exact HI|]. split; [apply dext_refl|]. split; [apply dtouch_refl|].
    split; [reflexivity | discriminate].
Qed.

(* ---------------------------------------------------------------- tying the knot *)
Theorem dlevel_ok : forall n,
  fetch_spec (level uprog noeq n) n /\ mca_spec (level uprog noeq n) n.
Proof.
  induction n as [|n [IHF IHM]].
  - split; intros q; intros; lia.
  - split.
    + intros q s Hq HI Hst. cbn [level l_fetch].
      apply (fetch_ok (level uprog noeq n) n IHF IHM q s); [lia | exact HI | exact Hst].
    + intros q since s Hq HI Hst. cbn [level l_mca].
      apply (mca_ok (level uprog noeq n) n IHF IHM q since s); [lia | exact HI | exact Hst].
Qed.

End Ops.

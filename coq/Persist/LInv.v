(* Persist/LInv.v — [the development of stage 4, kept for C26_results_low: EVERY program and
   choice of persisted functions, all durabilities LOW (flat mode fm = true); Persist/PInv*.v is
   the development for all durabilities] — the invariant of the persist-mode model for inputs of arbitrary durability:
   the port of Core/DInv.v (definitions, basic facts, the frame rule for storing a memo).

   Differences from Core/DInv.v:
   - the semantic side (E, tr, durge, clos, ...) is Core's, for the translated program (PSem.v);
   - observers are VIRTUAL ([obs_ok]): a query at a revision with a durability, that is owed the
     observer clause by every memo in its closure.  Every memo is one; so is every dependency
     that a snapshot flattened away ([good]): the edges of a restored memo are the leaves of
     its flattened dependencies, and the memo is covered by them ([mo_in], [mo_q]);
   - [fm] (flat mode): flattened memos are allowed and all durabilities are LOW; otherwise every
     memo records its direct reads ([mo_flat]);
   - the observer clause [mo_obs] speaks about the memos that EXIST (a restored database has
     lost the memos of non-persisted functions and the value-less ones);
   - changed_at stamps never decrease ([mo_stamp], [ext_mono], as in Core/DInv.v), across
     restores as well: the stamp of a memo that a restore dropped is kept in a ghost table
     ([ghost], [phi], [inv_ghost]); hence the backdate-violation assertion is unreachable.  The
     only panics that may escape a request are an injected fault and the panic of an
     uninitialised function ingredient ([dallowed]). *)
From Salsa Require Import Base.
From Salsa.Kern Require Import CoreK CoreKFacts.
From Salsa.Core Require Import Model Spec SpecProofs Inv DurSem.
From Salsa.Persist Require Import Model PSem PWp.

Section LInv.
Variable prog : qkey -> CM.body.            (* the translated program *)
Variable rank : qkey -> nat.
Hypothesis Hrank : calls_below prog rank.
Variable NF : nat.
Hypothesis Hbound : forall q, (rank q < NF)%nat.
(* flat mode: memos whose edges are the flattening of their reads (restored memos) are allowed;
   all durabilities are LOW.  Otherwise every memo records its direct reads. *)
Variable fm : bool.
Notation E := (E prog NF).
Notation tr := (tr prog NF).
Notation envat := (envat prog NF).
Notation durge := (durge prog NF).
Notation clos := (clos prog NF).

Definition lcs (s : db) (k : dur) : rev := last_changed (d_revs s) k.

(* The stamp of a query: the changed_at of its memo, or, when the memo was dropped by a restore
   (non-persisted function, value-less memo), the changed_at it had, kept in a ghost table
   together with the revision it was verified at.  Stamps never decrease ([ext_mono]). *)
Definition ghost := qkey -> option (rev * rev).

Definition phi (s : db) (F : ghost) (d : qkey) : option rev :=
  match d_memo s d with
  | Some md => Some (m_changed md)
  | None => option_map snd (F d)
  end.

(* the stamp c is at most the current stamp of the read x (an untracked read is stamped with
   the revision of the run, which bounds every stamp) *)
Definition sle (s : db) (F : ghost) (c : rev) (x : rd) : Prop :=
  match x with
  | RIn i => c <= f_changed (d_in s i)
  | RQ d => exists c', phi s F d = Some c' /\ c <= c'
  | _ => True
  end.

(* changed_at is bounded by the current stamp of something the run at revision v reads *)
Definition prov (H : hist) (s : db) (F : ghost) (q : qkey) (v c : rev) : Prop :=
  c <= 1 \/ exists x, In x (tr H v q) /\ sle s F c x.

(* when the observer clause fires for an observer verified at v and d's memo md *)
Definition obs_pre (H : hist) (D : dhist) (s : db) (v : rev) (d : qkey) (md : memo) : Prop :=
  m_changed md <= v \/ exists k, durge H D v k d /\ lcs s k <= v.

(* the static call relation, transitively: what a recorded edge may point to (a direct callee,
   or, for a restored memo, a callee of a dependency that was flattened away) *)
Inductive reach : qkey -> qkey -> Prop :=
| reach_one q d : calls (prog q) d -> reach q d
| reach_step q d e : calls (prog q) d -> reach d e -> reach q e.

Lemma reach_rank q d : reach q d -> (rank d < rank q)%nat.
Proof.
  induction 1 as [q d Hc | q d e Hc _ IH]; [apply Hrank; exact Hc|].
  pose proof (Hrank q d Hc). lia.
Qed.

Lemma reach_trans q d e : reach q d -> reach d e -> reach q e.
Proof.
  induction 1 as [q d Hc | q d x Hc _ IH]; intros He.
  - eapply reach_step; eassumption.
  - eapply reach_step; [exact Hc | apply IH; exact He].
Qed.

(* A (virtual) observer: query g as evaluated at revision w, with durability k.  Every memo is
   one (at its verified_at, with its recorded durability); so is every dependency that was
   flattened away, at the revision its memo was verified at when it was flattened. *)
Record obs_ok (H : hist) (D : dhist) (s : db) (g : qkey) (w : rev) (k : dur) : Prop := {
  ob_order : 1 <= w /\ w <= cur s;
  ob_durge : durge H D w k g;
  ob_dur3 : k <= 3;
  ob_obs : forall d md, clos H w g d -> d_memo s d = Some md -> obs_pre H D s w d md ->
           E H w d = E H (m_verified md) d /\ k <= m_dur md
}.

(* The dependency d of a memo verified at v with edges L was flattened away: its reads at some
   revision rho >= v are covered by L — inputs are in L, function reads are in L or were flattened
   away in turn — and it is still an observer at rho.  (In flat mode a dependency with a recorded
   durability >= 1 reads no input at all: nothing is required of L.) *)
Inductive good (H : hist) (D : dhist) (s : db) (L : list edge) (v : rev) : qkey -> Prop :=
| good_never d a k : fm = true -> 1 <= k -> a <= cur s -> durge H D a k d -> good H D s L v d
| good_exp d rho k :
    obs_ok H D s d rho k -> v <= rho ->
    (forall x, In x (tr H rho d) -> ~ untr x) ->
    (forall i, In (RIn i) (tr H rho d) -> In (EIn i) L) ->
    (forall d', In (RQ d') (tr H rho d) -> ~ In (EQ d') L -> good H D s L v d') ->
    good H D s L v d.

Record dmemo_ok (H : hist) (D : dhist) (F : ghost) (s : db) (q : qkey) (m : memo) : Prop := {
  mo_order : 1 <= m_verified m /\ m_changed m <= m_verified m /\ m_verified m <= cur s;
  mo_val : forall x, m_val m = Some x -> x = E H (m_verified m) q;
  mo_in : forall i, In (RIn i) (tr H (m_verified m) q) -> In (EIn i) (m_edges m);
  mo_q : m_untracked m = false ->
         forall d, In (RQ d) (tr H (m_verified m) q) -> ~ In (EQ d) (m_edges m) ->
         good H D s (m_edges m) (m_verified m) d;
  mo_reads_cell : forall x, In x (tr H (m_verified m) q) -> untr x -> m_untracked m = true;
  mo_edges_reach : forall d, In (EQ d) (m_edges m) -> reach q d;
  mo_flat : fm = true \/ forall d, In (RQ d) (tr H (m_verified m) q) -> In (EQ d) (m_edges m);
  mo_durge : durge H D (m_verified m) (m_dur m) q;
  mo_dur3 : m_dur m <= 3;
  mo_stamp : prov H s F q (m_verified m) (m_changed m);
  mo_obs : forall d md, clos H (m_verified m) q d -> d_memo s d = Some md ->
           obs_pre H D s (m_verified m) d md ->
           E H (m_verified m) d = E H (m_verified md) d /\ m_dur m <= m_dur md;
  (* a memo of durability LOW was verified by a walk or an execution: its dependencies that
     have memos were verified then or later *)
  mo_sync : m_dur m = 0 -> forall d md, In (EQ d) (m_edges m) -> d_memo s d = Some md ->
            m_verified m <= m_verified md
}.

Lemma obs_of_memo H D F s q m : dmemo_ok H D F s q m -> obs_ok H D s q (m_verified m) (m_dur m).
Proof.
  intros [a b c d e f g h i st j k]. constructor; auto. lia.
Qed.

Record DInv (H : hist) (D : dhist) (F : ghost) (s : db) : Prop := {
  inv_cur : 1 <= cur s;
  inv_revs : revs_ok (d_revs s);
  inv_in : forall i r, f_changed (d_in s i) <= r -> r <= cur s -> sn_in (H r) i = f_val (d_in s i);
  inv_dur : forall i r, f_changed (d_in s i) <= r -> r <= cur s -> D r i = f_dur (d_in s i);
  inv_in_le : forall i, f_changed (d_in s i) <= cur s;
  inv_cell : forall c, sn_cell (H (cur s)) c = d_cell s c;
  inv_dur3 : forall r i, D r i <= 3;
  (* the write rule: an input whose level had not been written after r is the same at r+1 *)
  inv_wr : forall r i, r < cur s -> lcs s (D r i) <= r ->
           sn_in (H (r + 1)) i = sn_in (H r) i /\ D (r + 1) i = D r i;
  inv_memo : forall q m, d_memo s q = Some m -> dmemo_ok H D F s q m;
  (* a dropped memo is still an observer at the revision it was verified at, and its stamp has
     a provenance *)
  inv_ghost : forall d rho c, d_memo s d = None -> F d = Some (rho, c) ->
              c <= rho /\ obs_ok H D s d rho 0 /\ prov H s F d rho c;
  (* flat mode: no input has, or ever had, a durability above LOW *)
  inv_lowD : fm = true -> forall r i, D r i = 0;
  inv_lowrev : fm = true -> forall k, 1 <= k -> lcs s k <= 1
}.

(* ---------------------------------------------------------------- stability from the write rule *)
Lemma lcs_anti H D F s k k' : DInv H D F s -> k <= k' -> lcs s k' <= lcs s k.
Proof. intros HI. apply lc_anti. apply (inv_revs _ _ _ _ HI). Qed.

Lemma lcs_le_cur H D F s k : DInv H D F s -> lcs s k <= cur s.
Proof. intros HI. apply lc_le_cur. apply (inv_revs _ _ _ _ HI). Qed.

Lemma stable_now H D F s k a : DInv H D F s -> lcs s k <= a -> wstable H D k a (cur s).
Proof.
  intros HI Hlc i Hi.
  assert (Hn : forall n r, r = a + N.of_nat n -> r <= cur s ->
                 sn_in (H r) i = sn_in (H a) i /\ D r i = D a i).
  { induction n as [|n IH]; intros r Hr Hle.
    - replace r with a by lia. split; reflexivity.
    - assert (Hr' : a + N.of_nat n <= cur s) by lia.
      destruct (IH (a + N.of_nat n) eq_refl Hr') as [A B].
      destruct (inv_wr _ _ _ _ HI (a + N.of_nat n) i) as [A' B'].
      + lia.
      + rewrite B. pose proof (lcs_anti H D F s k (D a i) HI Hi). lia.
      + replace r with (a + N.of_nat n + 1) by lia. split; congruence. }
  intros r Ha Hb. apply (Hn (N.to_nat (r - a))); [lia | exact Hb].
Qed.

Lemma stable_never H D F s a : DInv H D F s -> 1 <= a -> wstable H D 3 a (cur s).
Proof.
  intros HI Ha. apply (stable_now H D F s 3 a HI).
  unfold lcs. rewrite lc_never by lia. exact Ha.
Qed.

(* ---------------------------------------------------------------- extension within a revision *)
Record dext (H : hist) (D : dhist) (F : ghost) (s s' : db) : Prop := {
  ext_revs : d_revs s' = d_revs s;
  ext_in : d_in s' = d_in s;
  ext_cell : d_cell s' = d_cell s;
  ext_pcell : d_pcell s' = d_pcell s;
  ext_init : forall fam, d_init s fam = true -> d_init s' fam = true;
  ext_valid : forall q m, d_memo s q = Some m -> m_verified m = cur s -> m_val m <> None ->
              d_memo s' q = Some m;
  ext_vcur : forall q m, d_memo s q = Some m -> m_verified m = cur s ->
             exists m', d_memo s' q = Some m' /\ m_verified m' = cur s /\ m_dur m <= m_dur m';
  (* memos are only stored with verified_at = the current revision *)
  ext_old : forall q m', d_memo s' q = Some m' -> m_verified m' < cur s -> d_memo s q = Some m';
  (* observers stay observers *)
  ext_obs : forall g w k, obs_ok H D s g w k -> obs_ok H D s' g w k;
  (* stamps never decrease *)
  ext_mono : forall d c, phi s F d = Some c -> exists c', phi s' F d = Some c' /\ c <= c'
}.

Lemma dext_refl H D F s : dext H D F s s.
Proof.
  constructor; auto.
  - intros q m Hm Hv. exists m. split; [exact Hm|]. split; [exact Hv | lia].
  - intros d c Hc. exists c. split; [exact Hc | lia].
Qed.

Lemma dext_cur H D F s s' : dext H D F s s' -> cur s' = cur s.
Proof. intros [Hr _ _ _ _ _ _ _ _ _]. unfold cur. rewrite Hr. reflexivity. Qed.

Lemma dext_trans H D F s1 s2 s3 : dext H D F s1 s2 -> dext H D F s2 s3 -> dext H D F s1 s3.
Proof.
  intros H12 H23. pose proof (dext_cur _ _ _ _ _ H12) as Hc.
  destruct H12 as [a1 b1 c1 d1 g1 e1 f1 o1 p1 q1], H23 as [a2 b2 c2 d2 g2 e2 f2 o2 p2 q2].
  constructor; try congruence; auto.
  - intros q m Hm Hv Hx. apply e2; [apply e1; assumption | rewrite Hc; exact Hv | exact Hx].
  - intros q m Hm Hv. destruct (f1 q m Hm Hv) as (m' & Hm' & Hv' & Hd').
    destruct (f2 q m' Hm') as (m'' & Hm'' & Hv'' & Hd''); [rewrite Hc; exact Hv'|].
    exists m''. split; [exact Hm''|]. split; [rewrite <- Hc; exact Hv'' | lia].
  - intros q m' Hm' Hv. apply o1; [|exact Hv]. apply o2; [exact Hm' | rewrite Hc; exact Hv].
  - intros d c Hd. destruct (q1 d c Hd) as (c' & Hc' & Hle). destruct (q2 d c' Hc') as (c'' & Hc'' & Hle').
    exists c''. split; [exact Hc'' | lia].
Qed.

(* a computation for a query of rank < k leaves memos of rank >= k alone *)
Definition dtouch_below (s s' : db) (k : nat) : Prop :=
  forall p, (k <= rank p)%nat -> d_memo s' p = d_memo s p.

Lemma dtouch_refl s k : dtouch_below s s k.
Proof. intros p _; reflexivity. Qed.

Lemma dtouch_trans s1 s2 s3 k1 k2 k :
  (k1 <= k)%nat -> (k2 <= k)%nat ->
  dtouch_below s1 s2 k1 -> dtouch_below s2 s3 k2 -> dtouch_below s1 s3 k.
Proof.
  intros H1 H2 T1 T2 p Hp. rewrite (T2 p) by lia. apply T1. lia.
Qed.

Definition stack_ok (s : db) (q : qkey) : Prop :=
  forall p, In p (d_stack s) -> (rank q < rank p)%nat.

(* ---------------------------------------------------------------- the part of the state that matters *)
Definition dcore_eq (s s' : db) : Prop :=
  d_revs s' = d_revs s /\ d_in s' = d_in s /\ d_cell s' = d_cell s /\ d_memo s' = d_memo s.

Lemma dcore_eq_cur s s' : dcore_eq s s' -> cur s' = cur s.
Proof. intros (Hr & _). unfold cur; rewrite Hr; reflexivity. Qed.

Lemma obs_pre_core_eq H D s s' v d md :
  d_revs s' = d_revs s -> obs_pre H D s v d md -> obs_pre H D s' v d md.
Proof. intros Hr. unfold obs_pre, lcs. rewrite Hr. auto. Qed.

Lemma obs_ok_core_eq H D s s' g w k : dcore_eq s s' -> obs_ok H D s g w k -> obs_ok H D s' g w k.
Proof.
  intros Hc Ho. pose proof (dcore_eq_cur _ _ Hc) as Hcur.
  destruct Hc as (Hr & Hi & _ & Hmm). destruct Ho as [a b c d].
  constructor; rewrite ?Hcur; auto.
  intros d0 md Hd0 Hmd Hp. apply (d d0 md Hd0); [rewrite <- Hmm; exact Hmd|].
  apply (obs_pre_core_eq H D s' s); [congruence | exact Hp].
Qed.

Lemma obs_ok_same H D s s' g w k :
  d_revs s' = d_revs s -> d_memo s' = d_memo s -> obs_ok H D s g w k -> obs_ok H D s' g w k.
Proof.
  intros Hr Hmm [a b c d]. constructor; auto.
  - unfold cur in *. rewrite Hr. exact a.
  - intros d0 md Hd0 Hmd Hp. apply (d d0 md Hd0); [rewrite <- Hmm; exact Hmd|].
    apply (obs_pre_core_eq H D s' s); [congruence | exact Hp].
Qed.

Lemma good_mono H D s s' L v d :
  cur s <= cur s' ->
  (forall g w k, obs_ok H D s g w k -> obs_ok H D s' g w k) ->
  good H D s L v d -> good H D s' L v d.
Proof.
  intros Hc Hm Hg. induction Hg as [d a k Hf Hk Ha Hd | d rho k Ho Hv Hu Hi Hq IH].
  - apply (good_never H D s' L v d a k Hf Hk); [lia | exact Hd].
  - eapply good_exp; eauto.
Qed.

Lemma phi_same s s' F d : d_memo s' = d_memo s -> phi s' F d = phi s F d.
Proof. intros Hm. unfold phi. rewrite Hm. reflexivity. Qed.

Lemma sle_same s s' F c x : d_in s' = d_in s -> d_memo s' = d_memo s -> sle s F c x -> sle s' F c x.
Proof.
  intros Hi Hm. destruct x as [i | d | cc |]; cbn; auto.
  - rewrite Hi. auto.
  - rewrite (phi_same s s' F d Hm). auto.
Qed.

Lemma prov_same H s s' F q v c :
  d_in s' = d_in s -> d_memo s' = d_memo s -> prov H s F q v c -> prov H s' F q v c.
Proof.
  intros Hi Hm [A | (x & Hx & Hs)]; [left; exact A | right].
  exists x. split; [exact Hx | apply (sle_same s s'); assumption].
Qed.

Lemma dmemo_ok_same H D F s s' q m :
  d_revs s' = d_revs s -> d_in s' = d_in s -> d_memo s' = d_memo s ->
  dmemo_ok H D F s q m -> dmemo_ok H D F s' q m.
Proof.
  intros Hr Hi Hmm Hm.
  assert (Hcur : cur s' = cur s) by (unfold cur; rewrite Hr; reflexivity).
  destruct Hm as [a b c d e f g h i st j k].
  constructor; rewrite ?Hcur; auto.
  - intros Hu0 d0 Hd0 Hn. apply (good_mono H D s s'); [lia | intros; eapply obs_ok_same; eassumption | auto].
  - apply (prov_same H s s'); assumption.
  - intros d0 md Hd0 Hmd Hp. apply (j d0 md Hd0); [rewrite <- Hmm; exact Hmd|].
    apply (obs_pre_core_eq H D s' s); [congruence | exact Hp].
  - intros Hz d0 md Hd0 Hmd. apply (k Hz d0 md Hd0). rewrite <- Hmm; exact Hmd.
Qed.

Lemma dmemo_ok_core_eq H D F s s' q m : dcore_eq s s' -> dmemo_ok H D F s q m -> dmemo_ok H D F s' q m.
Proof. intros (Hr & Hi & _ & Hmm). apply dmemo_ok_same; assumption. Qed.

Lemma DInv_core_eq H D F s s' : dcore_eq s s' -> DInv H D F s -> DInv H D F s'.
Proof.
  intros Hc HI. pose proof (dcore_eq_cur _ _ Hc) as Hcur.
  pose proof Hc as (Hr & Hi & Hce & Hm).
  destruct HI as [a a' b b' c d e f g gh l1 l2].
  constructor; unfold lcs in *; rewrite ?Hcur, ?Hi, ?Hce, ?Hm, ?Hr; auto.
  - intros q m Hq. apply (dmemo_ok_core_eq H D F s); [exact Hc | apply g; exact Hq].
  - intros d0 rho c0 Hn HF. destruct (gh d0 rho c0 Hn HF) as (A & B & C0).
    split; [exact A|]. split; [apply (obs_ok_core_eq H D s s' _ _ _ Hc B) | apply (prov_same H s s'); assumption].
Qed.

(* ---------------------------------------------------------------- storing a memo *)
Definition store (s : db) (q : qkey) (m : memo) : db := set_memo s (upd (d_memo s) q (Some m)).

Lemma cur_store s q m : cur (store s q m) = cur s.
Proof. reflexivity. Qed.

Lemma lcs_store s q m k : lcs (store s q m) k = lcs s k.
Proof. reflexivity. Qed.

Definition reverify (m : memo) (now : rev) : memo :=
  {| m_val := m_val m; m_verified := now; m_changed := m_changed m; m_dur := m_dur m;
     m_untracked := m_untracked m; m_edges := m_edges m |}.

Lemma reverify_same m : reverify m (m_verified m) = m.
Proof. destruct m; reflexivity. Qed.

(* the memo built by execute from a completed frame (persist mode: the edges are kept) *)
Definition fresh_memo (v : val) (now : rev) (ch : rev) (fr : frame) : memo :=
  {| m_val := Some v; m_verified := now; m_changed := ch; m_dur := fr_dur fr;
     m_untracked := fr_untracked fr; m_edges := fr_edges fr |}.

(* The frame rule: store a memo verified now.  Besides the new memo being ok, every other
   memo that observes q must be served by the new memo. *)
Lemma obs_store H D s q m g w k :
  m_verified m = cur s ->
  obs_ok H D s g w k ->
  (clos H w g q -> obs_pre H D s w q m -> E H w q = E H (cur s) q /\ k <= m_dur m) ->
  obs_ok H D (store s q m) g w k.
Proof.
  intros Hv [a b c d] Hq. constructor; rewrite ?cur_store; auto.
  intros d0 md Hd0 Hmd Hp0. unfold store in Hmd; cbn in Hmd. unfold upd in Hmd.
  destruct (key_eqb_spec q d0) as [<- | Hne0].
  - injection Hmd as <-. rewrite Hv. apply Hq; [exact Hd0 | exact Hp0].
  - apply (d d0 md Hd0 Hmd). exact Hp0.
Qed.

Lemma phi_store s F q m d c :
  (forall c0, phi s F q = Some c0 -> c0 <= m_changed m) ->
  phi s F d = Some c -> exists c', phi (store s q m) F d = Some c' /\ c <= c'.
Proof.
  intros Hmono Hd. unfold phi, store; cbn. unfold upd.
  destruct (key_eqb_spec q d) as [<- | Hne].
  - exists (m_changed m). split; [reflexivity | apply Hmono; exact Hd].
  - exists c. split; [exact Hd | lia].
Qed.

Lemma sle_mono s s' F c x :
  d_in s' = d_in s ->
  (forall d c0, phi s F d = Some c0 -> exists c', phi s' F d = Some c' /\ c0 <= c') ->
  sle s F c x -> sle s' F c x.
Proof.
  intros Hi Hm. destruct x as [i | d | cc |]; cbn; auto.
  - rewrite Hi. auto.
  - intros (c0 & Hc0 & Hle). destruct (Hm d c0 Hc0) as (c' & Hc' & Hle'). exists c'. split; [exact Hc' | lia].
Qed.

Lemma prov_mono H s s' F q v c :
  d_in s' = d_in s ->
  (forall d c0, phi s F d = Some c0 -> exists c', phi s' F d = Some c' /\ c0 <= c') ->
  prov H s F q v c -> prov H s' F q v c.
Proof.
  intros Hi Hm [A | (x & Hx & Hs)]; [left; exact A | right].
  exists x. split; [exact Hx | apply (sle_mono s s'); assumption].
Qed.

Lemma DInv_store H D F s q m :
  DInv H D F s ->
  m_verified m = cur s ->
  dmemo_ok H D F (store s q m) q m ->
  (forall g w k, obs_ok H D s g w k -> clos H w g q ->
     obs_pre H D s w q m ->
     E H w q = E H (cur s) q /\ k <= m_dur m) ->
  (forall m0, d_memo s q = Some m0 -> m_verified m0 = cur s ->
     (m_val m0 <> None -> m0 = m) /\ m_dur m0 <= m_dur m) ->
  (* the stamp does not decrease *)
  (forall c0, phi s F q = Some c0 -> c0 <= m_changed m) ->
  DInv H D F (store s q m) /\ dext H D F s (store s q m).
Proof.
  intros HI Hv Hok Hobs Hsame Hmono.
  assert (Hall : forall g w k, obs_ok H D s g w k -> obs_ok H D (store s q m) g w k).
  { intros g w k Ho. apply obs_store; [exact Hv | exact Ho|]. intros Hcl Hp. apply (Hobs g w k Ho Hcl Hp). }
  assert (Hphi : forall d c0, phi s F d = Some c0 -> exists c', phi (store s q m) F d = Some c' /\ c0 <= c').
  { intros d c0. apply phi_store. exact Hmono. }
  destruct HI as [a a' b b' c d e f g gh l1 l2].
  split.
  - constructor; rewrite ?cur_store; auto.
    + intros p mp Hp. unfold store in Hp; cbn in Hp. unfold upd in Hp.
      destruct (key_eqb_spec q p) as [<- | Hne].
      * injection Hp as <-. exact Hok.
      * specialize (g p mp Hp). pose proof (obs_of_memo _ _ _ _ _ _ g) as Hop.
        destruct g as [g1 g2 g3 g4 g5 g6 g7 g8 g9 gst g10 g12].
        constructor; rewrite ?cur_store; auto.
        -- intros Hu0 d0 Hd0 Hn. apply (good_mono H D s); [rewrite cur_store; lia | exact Hall | auto].
        -- apply (prov_mono H s (store s q m)); [reflexivity | exact Hphi | exact gst].
        -- apply (ob_obs _ _ _ _ _ _ (Hall _ _ _ Hop)).
        -- intros Hz d0 md Hd0 Hmd. unfold store in Hmd; cbn in Hmd. unfold upd in Hmd.
           destruct (key_eqb_spec q d0) as [<- | Hne0].
           ++ injection Hmd as <-. rewrite Hv. lia.
           ++ apply (g12 Hz d0 md Hd0 Hmd).
    + intros d0 rho c0 Hn HF. unfold store in Hn; cbn in Hn. unfold upd in Hn.
      destruct (key_eqb_spec q d0) as [<- | Hne]; [discriminate|].
      destruct (gh d0 rho c0 Hn HF) as (A & B & C0).
      split; [exact A|]. split; [apply Hall; exact B|].
      apply (prov_mono H s (store s q m)); [reflexivity | exact Hphi | exact C0].
  - constructor; try reflexivity; auto.
    + intros p mp Hp Hvp Hxp. unfold store; cbn. unfold upd.
      destruct (key_eqb_spec q p) as [<- | Hne]; [|exact Hp].
      destruct (Hsame mp Hp Hvp) as [Heq _]. rewrite (Heq Hxp). reflexivity.
    + intros p mp Hp Hvp. unfold store; cbn. unfold upd.
      destruct (key_eqb_spec q p) as [<- | Hne].
      * exists m. split; [reflexivity|]. split; [exact Hv|].
        destruct (Hsame mp Hp Hvp) as [_ Hle]. exact Hle.
      * exists mp. split; [exact Hp|]. split; [exact Hvp | lia].
    + intros p mp Hp Hvp. unfold store in Hp; cbn in Hp. unfold upd in Hp.
      destruct (key_eqb_spec q p) as [<- | Hne]; [|exact Hp].
      injection Hp as <-. lia.
Qed.

Lemma dtouch_store s q m k : (rank q < k)%nat -> dtouch_below s (store s q m) k.
Proof.
  intros Hk p Hp. assert (Hne : q <> p) by (intros ->; lia).
  unfold store; cbn. apply upd_other; exact Hne.
Qed.

(* ---------------------------------------------------------------- panics that may escape a Get *)
(* an injected fault while some fault switch is on, and the panic of an uninitialised function
   ingredient while some function ingredient is uninitialised (the backdate-violation assertion
   of debug builds is unreachable: stamps never decrease, [ext_mono]) *)
Definition dallowed (s : db) (p : ppanic) : Prop :=
  (p = PB PInjected /\ exists c, d_pcell s c <> 0) \/
  (p = PUninit /\ exists fam, d_init s fam = false).

Lemma dallowed_ext s s' p :
  d_pcell s' = d_pcell s -> (forall fam, d_init s fam = true -> d_init s' fam = true) ->
  dallowed s' p -> dallowed s p.
Proof.
  intros He Hi [[-> (c & Hc)] | [-> (fam & Hf)]].
  - left. split; [reflexivity|]. exists c. rewrite <- He. exact Hc.
  - right. split; [reflexivity|]. exists fam.
    destruct (d_init s fam) eqn:Hs; [|reflexivity]. rewrite (Hi fam Hs) in Hf. discriminate.
Qed.

End LInv.

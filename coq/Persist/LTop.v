(* Persist/LTop.v — the persist-mode model across ALL its API operations, snapshot and restore
   included, and the results theorems of C26:

   [results_no_restore]  every Get of every history WITHOUT restore (snapshots allowed: they do
                         not touch the database) returns the from-scratch value — C01 for the
                         persist-mode model, inputs and writes of any durability, any choice of
                         persisted functions;
   [restore_ok], [restore_ok_clean]
                         restore (snapshot s) re-establishes the invariant in the fresh database
                         (same ghost histories: the revision counter is rewound to the snapshot's,
                         the inputs come back with their stamps), when the persisted functions
                         only call persisted functions ([Statement.persisted_closed]);
   [restore_flat_ok], [restore_flat_ok_clean]
                         the same for EVERY program and choice of persisted functions in flat mode
                         (all durabilities LOW): the flattened dependencies, to any depth, become
                         observers at the revisions their memos were verified at ([exp_good],
                         from ProofsFlatten.flatten_closed / flatten_fn / flatten_under);
   [results_closed], [results_low]
                         hence: every Get of every history with snapshots and restores returns
                         the from-scratch value of the current inputs, or unwinds with a base
                         panic, outside the uninitialised-ingredient class;
   [results_general]     the common induction over the history ([step_ok] per operation), from
                         any state that satisfies [pstate_ok].

   The [_strict] forms say which panics may unwind a request: only an injected fault while a
   fault switch is on (LInv.dallowed); the backdate-violation assertion is unreachable (stamps
   never decrease: LInv.ext_mono, LInvSem.frame_changed_lb). *)
From Salsa Require Import Base.
From Salsa.Kern Require Import CoreK CoreKFacts.
From Salsa.Core Require Import Model Spec SpecProofs Inv DurSem.
From Salsa.Core Require InvTop.
From Salsa.Persist Require Import Model PSem PWp LInv LInvSem LInvOps LInvTop ProofsRoundtrip ProofsFlatten.
From Salsa.Persist Require Statement.

Section Top.
Variable uprog : qkey -> body.
Variable noeq : qkey -> bool.
Variable pfam : N -> bool.
Variable fams : list N.
Variable lru0 : N -> lru_state.
Variable rank : qkey -> nat.
Hypothesis Hrank : calls_below (tprog uprog) rank.
Variable NF : nat.
Hypothesis Hbound : forall q, (rank q < NF)%nat.
Variable sfuel : nat.
(* flat mode: restored memos whose dependencies were flattened away are allowed, all
   durabilities are LOW; otherwise every memo records its direct reads *)
Variable fm : bool.
Let prog : qkey -> CM.body := tprog uprog.
Notation DInv := (DInv prog NF fm).
Notation OK := (OK uprog NF fm).
Notation OK_d := (OK_d uprog NF fm).
Notation fresh := (LInvTop.fresh).
Notation pstep := (Statement.pstep uprog noeq pfam fams lru0 sfuel).

(* ---------------------------------------------------------------- new revisions, eviction *)
Lemma new_revision_revs s :
  d_revs (new_revision fams s) =
  {| r_cur := r_cur (d_revs s) + 1; r_med := r_med (d_revs s); r_high := r_high (d_revs s) |}.
Proof.
  unfold new_revision. set (s1 := set_ccount _ 0).
  destruct (evict_all_sbm fams s1) as [a _ _ _ _ _ _]. rewrite a. reflexivity.
Qed.

Lemma new_revision_facts s :
  d_in (new_revision fams s) = d_in s /\ d_cell (new_revision fams s) = d_cell s /\
  d_stack (new_revision fams s) = d_stack s /\
  evicted_from (d_memo s) (d_memo (new_revision fams s)).
Proof.
  unfold new_revision. set (s1 := set_ccount _ 0).
  destruct (evict_all_sbm fams s1) as [a b c d e f g]. rewrite b, c, f. repeat split; auto.
Qed.

Lemma new_revision_lcs s k :
  revs_ok (d_revs s) ->
  lcs s k <= lcs (new_revision fams s) k /\ (1 <= k -> lcs (new_revision fams s) k = lcs s k).
Proof.
  intros (R1 & R2 & R3). unfold lcs. rewrite new_revision_revs.
  destruct (lc_cases (d_revs s) k) as [[-> E0] | [[-> E0] | [[-> E0] | [Hk E0]]]]; rewrite E0.
  - cbn. split; [lia | intros; lia].
  - rewrite last_changed_medium. cbn. split; [lia | reflexivity].
  - rewrite last_changed_high. cbn. split; [lia | reflexivity].
  - rewrite lc_never by exact Hk. split; [lia | reflexivity].
Qed.

Lemma OK_d_new_revision s : OK_d s -> OK (new_revision fams s) /\ fresh (new_revision fams s).
Proof.
  intros Hok. destruct (new_revision_facts s) as (A & _ & _ & F).
  destruct (OK_d_inputs uprog NF fm s Hok) as (Rv & Hd3 & Hlow).
  pose proof (new_revision_revs s) as Hr.
  apply (OK_advance_gen uprog rank Hrank NF fm s); auto.
  - rewrite Hr. reflexivity.
  - destruct Rv as (R1 & R2 & R3). rewrite Hr. unfold revs_ok; cbn. lia.
  - intros k. apply (new_revision_lcs s k Rv).
  - intros i. left. rewrite A. reflexivity.
  - intros i. rewrite A. apply Hd3.
  - intros Hf. destruct (Hlow Hf) as [L1 L2]. split; [intros i; rewrite A; apply L1|].
    intros k Hk. rewrite (proj2 (new_revision_lcs s k Rv) Hk). apply (L2 k Hk).
  - apply evicted_sub_sim; exact F.
Qed.

Lemma zalsa_mut_stack s : d_stack (zalsa_mut fams s) = d_stack s.
Proof.
  unfold zalsa_mut. destruct (d_ccount s =? 255); [|reflexivity].
  apply (new_revision_facts s).
Qed.

Lemma zalsa_mut_cell s : d_cell (zalsa_mut fams s) = d_cell s.
Proof.
  unfold zalsa_mut. destruct (d_ccount s =? 255); [|reflexivity].
  apply (new_revision_facts s).
Qed.

Lemma OK_d_zalsa_mut s : OK_d s -> OK_d (zalsa_mut fams s).
Proof.
  intros Hok. unfold zalsa_mut. destruct (d_ccount s =? 255).
  - apply OK_to_d. apply OK_d_new_revision; exact Hok.
  - apply (OK_d_same uprog rank Hrank NF fm s); auto. apply evicted_sub_sim, evicted_refl.
Qed.

Lemma OK_zalsa_mut s : OK s -> OK (zalsa_mut fams s).
Proof.
  intros Hok. unfold zalsa_mut. destruct (d_ccount s =? 255).
  - apply OK_d_new_revision. apply OK_to_d; exact Hok.
  - apply (OK_same uprog rank Hrank NF fm s); auto. apply evicted_sub_sim, evicted_refl.
Qed.

Lemma evict_all_facts s :
  d_revs (evict_all fams s) = d_revs s /\ d_in (evict_all fams s) = d_in s /\
  d_cell (evict_all fams s) = d_cell s /\ d_stack (evict_all fams s) = d_stack s /\
  evicted_from (d_memo s) (d_memo (evict_all fams s)).
Proof. destruct (evict_all_sbm fams s) as [a b c d e f g]. repeat split; auto. Qed.

(* ---------------------------------------------------------------- the database across one operation *)
Definition state_ok (dirty : bool) (s : db) : Prop :=
  (if dirty then OK_d s else OK s) /\ d_stack s = [].

Lemma state_ok_d dirty s : state_ok dirty s -> OK_d s.
Proof. destruct dirty; intros [A _]; [exact A | apply OK_to_d; exact A]. Qed.

Lemma state_ok_weaken dirty s : state_ok false s -> state_ok dirty s.
Proof. destruct dirty; [|auto]. intros [A B]. split; [apply OK_to_d; exact A | exact B]. Qed.

(* a Get: the from-scratch value or an allowed panic; the database stays ok, inputs and cells
   are untouched *)
Lemma db_get_ok fuel s q :
  (forall p, (rank p < fuel)%nat) -> state_ok false s ->
  let r := fetch uprog noeq (level uprog noeq fuel) q s in
  (match snd r with
   | POk (v, _, _) => v = Spec.eval uprog NF (Spec.snap_of s) q /\ state_ok false (fst r)
   | PPanic p => dallowed s p /\ state_ok false (set_stack (fst r) [])
   | PFuel => False
   end) /\ d_in (fst r) = d_in s /\ d_cell (fst r) = d_cell s.
Proof.
  intros Hfuel [(H & D & F & HI) Hst]. cbn zeta.
  destruct (dlevel_ok uprog noeq rank Hrank NF Hbound fm H D F fuel) as [HF HM].
  assert (Hso : stack_ok rank s q) by (intros p Hp; rewrite Hst in Hp; destruct Hp).
  assert (Hq : (rank q <= fuel)%nat) by (specialize (Hfuel q); lia).
  pose proof (fetch_ok uprog noeq rank Hrank NF Hbound fm H D F (level uprog noeq fuel) fuel HF HM q s Hq HI Hso) as Hwp.
  unfold wp in Hwp.
  destruct (fetch uprog noeq (level uprog noeq fuel) q s) as [s' [[[v d] c] | p |]] eqn:Hf; cbn [fst snd].
  - destruct Hwp as (HI' & He & _ & Hs' & Hv & _). cbn [fst snd] in Hv.
    split; [|split; [apply (ext_in _ _ _ _ _ _ _ He) | apply (ext_cell _ _ _ _ _ _ _ He)]].
    split.
    + rewrite Hv. unfold Inv.E.
      rewrite <- (eval_tb uprog NF (Spec.snap_of s) q). rewrite <- csnap_snap_of.
      exact (Salsa.Core.InvTop.eval_snap_eq (tprog uprog) _ _ (DInv_snap uprog NF fm H D F s HI) NF q).
    + split; [exists H, D, F; exact HI' | congruence].
  - destruct Hwp as (Ha & HI' & He).
    split; [|split; [apply (ext_in _ _ _ _ _ _ _ He) | apply (ext_cell _ _ _ _ _ _ _ He)]].
    split; [exact Ha|]. split; [|reflexivity].
    exists H, D, F. apply (DInv_core_eq prog NF fm H D F s'); [repeat split | exact HI'].
  - destruct Hwp.
Qed.

(* the other operations of the database proper *)
Lemma OK_d_same_cells s s' :
  OK_d s -> d_revs s' = d_revs s -> d_in s' = d_in s -> d_memo s' = d_memo s -> OK_d s'.
Proof.
  intros Hok Hr Hi Hm. apply (OK_d_same uprog rank Hrank NF fm s); auto.
  rewrite Hm. apply evicted_sub_sim, evicted_refl.
Qed.

Lemma OK_same_all s s' :
  OK s -> d_revs s' = d_revs s -> d_in s' = d_in s -> d_cell s' = d_cell s -> d_memo s' = d_memo s -> OK s'.
Proof.
  intros Hok Hr Hi Hc Hm. apply (OK_same uprog rank Hrank NF fm s); auto.
  rewrite Hm. apply evicted_sub_sim, evicted_refl.
Qed.

(* in flat mode a write keeps the durability LOW *)
Definition low_dur (d : option dur) : Prop :=
  fm = true -> match d with Some d' => d' = 0 | None => True end.

Lemma db_set_ok dirty s i v d :
  Statement.dur_op (OSet i v d) -> low_dur d -> state_ok dirty s ->
  let s1 := new_revision fams (zalsa_mut fams s) in
  state_ok false s1 /\
  (f_dur (d_in s1 i) =? D_NEVER = false ->
   let r1 := if f_dur (d_in s1 i) =? D_LOW then d_revs s1 else report_write (d_revs s1) (f_dur (d_in s1 i)) in
   let f' := {| f_val := v; f_changed := cur s1;
                f_dur := match d with Some d' => d' | None => f_dur (d_in s1 i) end |} in
   state_ok false (set_in (set_revs s1 r1) (upd (d_in s1) i f'))).
Proof.
  intros Hdop Hlowd Hok. pose proof (state_ok_d dirty s Hok) as Hd.
  assert (Hst : d_stack s = []) by (destruct Hok; assumption).
  pose proof (OK_d_zalsa_mut s Hd) as Hz.
  destruct (OK_d_new_revision _ Hz) as [Hn Hfresh].
  cbn zeta. set (z := zalsa_mut fams s) in *. set (s1 := new_revision fams z) in *.
  assert (Hst1 : d_stack s1 = []).
  { unfold s1. destruct (new_revision_facts z) as (_ & _ & E0 & _).
    rewrite E0. unfold z. rewrite zalsa_mut_stack. exact Hst. }
  split; [split; assumption|].
  intros Hnever. split; [|exact Hst1].
  apply N.eqb_neq in Hnever. unfold D_NEVER in Hnever.
  destruct (new_revision_facts z) as (A & _ & _ & F). fold s1 in A, F.
  destruct (OK_d_inputs uprog NF fm z Hz) as (Rv & Hd3 & Hlow).
  pose proof (new_revision_revs z) as Hr. fold s1 in Hr.
  assert (Rv1 : revs_ok (d_revs s1)).
  { destruct Rv as (R1 & R2 & R3). rewrite Hr. unfold revs_ok; cbn. lia. }
  set (od := f_dur (d_in s1 i)) in *.
  assert (Hod : od = f_dur (d_in z i)) by (unfold od; rewrite A; reflexivity).
  assert (Hod3 : od < 3) by (specialize (Hd3 i); rewrite <- Hod in Hd3; lia).
  set (r1 := if od =? D_LOW then d_revs s1 else report_write (d_revs s1) od).
  set (f' := {| f_val := v; f_changed := cur s1;
                f_dur := match d with Some d' => d' | None => od end |}).
  set (s2 := set_in (set_revs s1 r1) (upd (d_in s1) i f')).
  assert (Hcur_r1 : r_cur r1 = r_cur (d_revs s1)).
  { unfold r1. destruct (od =? D_LOW); reflexivity. }
  assert (Hc2 : cur s2 = cur s1) by (unfold cur, s2; cbn; exact Hcur_r1).
  assert (Hlc12 : forall k, lcs s1 k <= lcs s2 k).
  { intros k. unfold lcs, s2; cbn. unfold r1. destruct (od =? D_LOW); [lia|].
    apply lc_report_write_ge; exact Rv1. }
  assert (Hlc_od : lcs s2 od = cur s1).
  { unfold lcs, s2; cbn. unfold r1.
    destruct (N.eqb_spec od D_LOW) as [H0 | H0].
    - unfold D_LOW in H0. rewrite H0. apply lc_zero.
    - rewrite lc_report_write.
      destruct (N.eqb_spec od 0) as [E0 | Hk0]; [reflexivity|].
      destruct (N.leb_spec od od) as [_ | Hx]; [|lia].
      destruct (N.ltb_spec od 3) as [_ | Hx]; [|lia]. reflexivity. }
  refine (proj1 (OK_advance_gen uprog rank Hrank NF fm z s2 Hz _ _ _ _ _ _ _)).
  - cbn. rewrite Hcur_r1, Hr. reflexivity.
  - cbn. unfold r1. destruct (od =? D_LOW); [exact Rv1 | apply revs_ok_report_write; exact Rv1].
  - intros k. pose proof (proj1 (new_revision_lcs z k Rv)) as B. fold s1 in B. specialize (Hlc12 k). lia.
  - intros j. destruct (key_eqb_spec j i) as [-> | Hji].
    + right. split.
      * unfold s2 at 1; cbn. rewrite upd_same. cbn. symmetry. exact Hc2.
      * rewrite <- Hod, Hc2. exact Hlc_od.
    + left. unfold s2; cbn. rewrite upd_other by congruence. rewrite A. reflexivity.
  - intros j. destruct (key_eqb_spec j i) as [-> | Hji].
    + unfold s2; cbn. rewrite upd_same. cbn. destruct d as [d'|]; [exact Hdop | lia].
    + unfold s2; cbn. rewrite upd_other by congruence. rewrite A. apply Hd3.
  - intros Hf. destruct (Hlow Hf) as [L1 L2].
    assert (Hod0 : od = 0) by (rewrite Hod; apply L1).
    split.
    + intros j. destruct (key_eqb_spec j i) as [-> | Hji].
      * unfold s2; cbn. rewrite upd_same. cbn. specialize (Hlowd Hf). destruct d as [d'|]; [exact Hlowd | exact Hod0].
      * unfold s2; cbn. rewrite upd_other by congruence. rewrite A. apply L1.
    + intros k Hk. unfold lcs, s2; cbn. unfold r1. rewrite Hod0. cbn.
      pose proof (proj2 (new_revision_lcs z k Rv) Hk) as B. fold s1 in B. unfold lcs in B. rewrite B.
      apply (L2 k Hk).
  - unfold s2; cbn. apply evicted_sub_sim. exact F.
Qed.

Lemma db_synth_ok dirty s d :
  (fm = true -> d = 0) ->
  state_ok dirty s ->
  let s1 := new_revision fams (zalsa_mut fams s) in
  state_ok false s1 /\ state_ok false (set_revs s1 (report_write (d_revs s1) d)).
Proof.
  intros Hlowd Hok. pose proof (state_ok_d dirty s Hok) as Hd.
  assert (Hst : d_stack s = []) by (destruct Hok; assumption).
  pose proof (OK_d_zalsa_mut s Hd) as Hz.
  destruct (OK_d_new_revision _ Hz) as [Hn Hfresh].
  cbn zeta. set (s1 := new_revision fams (zalsa_mut fams s)) in *.
  assert (Hst1 : d_stack s1 = []).
  { unfold s1. destruct (new_revision_facts (zalsa_mut fams s)) as (_ & _ & E0 & _).
    rewrite E0, zalsa_mut_stack. exact Hst. }
  split; [split; assumption|]. split; [|exact Hst1].
  destruct (OK_d_inputs uprog NF fm s1 (OK_to_d uprog NF fm s1 Hn)) as (Hrv1 & _ & Hlow).
  apply (OK_revs uprog rank Hrank NF fm s1); auto.
  - cbn. apply revs_ok_report_write; exact Hrv1.
  - intros k. unfold lcs; cbn. apply lc_report_write_ge; exact Hrv1.
  - intros Hf k Hk. rewrite (Hlowd Hf). unfold lcs; cbn. rewrite lc_report_write.
    destruct (N.eqb_spec k 0) as [-> | _]; [lia|].
    destruct (N.leb_spec k 0) as [Hx | _]; [lia|]. cbn. apply (proj2 (Hlow Hf) k Hk).
Qed.

(* ---------------------------------------------------------------- restore (snapshot s) *)
Section Closed.
Hypothesis Hclosed : Statement.persisted_closed uprog pfam.

(* with [persisted_closed] every edge of a persisted function's memo is serialised directly *)
Lemma reach_closed q d : pfam (fst q) = true -> reach prog q d -> pfam (fst d) = true.
Proof.
  intros Hp Hr. induction Hr as [q d Hc | q d e Hc _ IH].
  - apply (Hclosed q d Hp). apply calls_tb. exact Hc.
  - apply IH. apply (Hclosed q d Hp). apply calls_tb. exact Hc.
Qed.

Lemma edges_persistable H D F s q m :
  DInv H D F s -> d_memo s q = Some m -> pfam (fst q) = true -> all_persistable pfam (m_edges m).
Proof.
  intros HI Hm Hp e He. destruct e as [i|d]; [reflexivity|]. cbn.
  apply (reach_closed q d Hp).
  apply (mo_edges_reach _ _ _ _ _ _ _ _ _ (inv_memo _ _ _ _ _ _ _ HI q m Hm) d He).
Qed.

Lemma snapshot_sub_sim H D F s :
  DInv_d uprog NF fm H D F s -> sub_sim (d_memo s) (snap_memo pfam (d_memo s) sfuel).
Proof.
  intros HI q m' Hs. unfold snap_memo in Hs.
  destruct (d_memo s q) as [m|] eqn:Hm; [|discriminate].
  destruct (m_val m) as [v|] eqn:Hv; [|discriminate].
  destruct (pfam (fst q)) eqn:Hp; [|discriminate]. injection Hs as <-.
  exists m. split; [reflexivity|].
  assert (Ha : all_persistable pfam (m_edges m)).
  { apply (edges_persistable H D F (set_cell s (sn_cell (H (cur s)))) q m HI Hm Hp). }
  unfold memo_sim; cbn. repeat split; auto.
  - unfold lost_untracked. rewrite (flatten_full_persistable pfam (d_memo s) sfuel _ Ha). cbn.
    apply orb_false_r.
  - apply (flatten_In_persistable pfam (d_memo s) sfuel _ Ha).
  - apply (flatten_In_persistable pfam (d_memo s) sfuel _ Ha).
  - rewrite Hv. auto.
Qed.

(* the fresh database after deserialisation satisfies the invariant for the ghost histories of
   the serialised one: always up to the external cells, and exactly when these are the ones the
   serialised database saw *)
Theorem restore_ok s ext :
  OK_d s -> d_stack s = [] ->
  state_ok true (restore (snapshot pfam sfuel s) ext lru0).
Proof.
  intros (H & D & F & HI) Hst. split; [|reflexivity].
  apply (OK_d_same uprog rank Hrank NF fm s); try reflexivity; [exists H, D, F; exact HI|].
  apply (snapshot_sub_sim H D F s HI).
Qed.

Theorem restore_ok_clean s ext :
  OK s -> d_stack s = [] -> d_cell ext = d_cell s ->
  state_ok false (restore (snapshot pfam sfuel s) ext lru0).
Proof.
  intros (H & D & F & HI) Hst Hc. split; [|reflexivity].
  apply (OK_same uprog rank Hrank NF fm s); try reflexivity; [exists H, D, F; exact HI | exact Hc|].
  apply (snapshot_sub_sim H D F s). apply DInv_to_d. exact HI.
Qed.

End Closed.

(* ---------------------------------------------------------------- restore (snapshot s), flat mode *)
(* Any program, any choice of persisted functions; all durabilities LOW.  The dependencies
   that the snapshot flattened away become virtual observers at the revision their memos were
   verified at. *)
Section Flat.
Hypothesis Hfm : fm = true.
Hypothesis Hsfuel : forall p, (S (rank p) < sfuel)%nat.
Notation good := (good prog NF fm).
Notation obs_ok := (obs_ok prog NF).
Notation dmemo_ok := (dmemo_ok prog NF fm).

Lemma good_subst H D s s2 L L' v0 v d :
  (forall g w k, obs_ok H D s g w k -> obs_ok H D s2 g w k) -> cur s <= cur s2 -> v <= v0 ->
  (forall i, In (EIn i) L -> In (EIn i) L') ->
  (forall e, In (EQ e) L -> ~ In (EQ e) L' -> good H D s2 L' v e) ->
  good H D s L v0 d -> good H D s2 L' v d.
Proof.
  intros Hot Hc Hv Hin Hfn Hg. induction Hg as [d a k Hf Hk Ha Hd | d rho k Ho Hv0 Hu Hi Hq IH].
  - apply (good_never prog NF fm H D s2 L' v d a k Hf Hk); [lia | exact Hd].
  - apply (good_exp prog NF fm H D s2 L' v d rho k); auto; [lia|].
    intros d' Hd' Hn. destruct (edge_in_dec (EQ d') L) as [HinL | HnL].
    + apply Hfn; assumption.
    + apply IH; assumption.
Qed.

Section OneState.
Variables (H : hist) (D : dhist) (F : ghost) (s s2 : db).
Hypothesis HIm : forall g mg, d_memo s g = Some mg -> dmemo_ok H D F s g mg.
Hypothesis Hot : forall g w k, obs_ok H D s g w k -> obs_ok H D s2 g w k.
Hypothesis Hc2 : cur s2 = cur s.
Hypothesis Hm2 : d_memo s2 = snap_memo pfam (d_memo s) sfuel.
Let mm := d_memo s.

Let edge_rank : forall g m c, mm g = Some m -> In (EQ c) (m_edges m) -> (rank c < rank g)%nat.
Proof.
  intros g m c Hm Hc. apply (reach_rank prog rank Hrank).
  apply (mo_edges_reach _ _ _ _ _ _ _ _ _ (HIm g m Hm) c Hc).
Qed.

Section OneMemo.
Variables (q : qkey) (m : memo).
Hypothesis Hm : mm q = Some m.
Let L := m_edges m.
Let v := m_verified m.
Let out := fst (flatten_full pfam mm sfuel L).
Let vis := snd (flatten_full pfam mm sfuel L).

Let Hes : forall e, In e L -> (erank rank e < sfuel)%nat.
Proof. intros e _. destruct e as [i|c]; cbn; [specialize (Hsfuel q); lia | apply Hsfuel]. Qed.

Let Hclosed3 := flatten_closed pfam mm rank edge_rank sfuel L Hes.

Let Hvis_memo g : In (EQ g) vis -> exists mg, mm g = Some mg.
Proof.
  intros Hg. destruct Hclosed3 as (V & _ & _). destruct (V _ Hg) as (g' & mg & E0 & Hmg).
  injection E0 as <-. exists mg. exact Hmg.
Qed.

Let Hcov_in i : In (EIn i) L -> In (EIn i) out.
Proof.
  intros Hi. destruct Hclosed3 as (V & _ & Cov). destruct (Cov _ Hi) as [Ho | Hv]; [exact Ho|].
  destruct (V _ Hv) as (g' & mg & E0 & _). discriminate.
Qed.

(* no expanded dependency had untracked reads *)
Hypothesis Hvt : forall g mg, In (EQ g) vis -> mm g = Some mg -> m_untracked mg = false.

Lemma exp_good : forall n g mg, (rank g < n)%nat -> In (EQ g) vis -> mm g = Some mg ->
  v <= m_verified mg -> good H D s2 out v g.
Proof.
  induction n as [|n IH]; intros g mg Hn Hg Hmg Hvg; [inversion Hn|].
  pose proof (HIm g mg Hmg) as Hok.
  pose proof (mo_order _ _ _ _ _ _ _ _ _ Hok) as (O1 & O2 & O3).
  destruct (N.eq_dec (m_dur mg) 0) as [Hz | Hnz].
  2:{ apply (good_never prog NF fm H D s2 out v g (m_verified mg) (m_dur mg) Hfm); [lia | lia|].
      apply (mo_durge _ _ _ _ _ _ _ _ _ Hok). }
  destruct Hclosed3 as (V & C & Cov).
  assert (Hedge : forall e, In e (m_edges mg) ->
            match e with
            | EIn i => In (EIn i) out
            | EQ e' => ~ In (EQ e') out -> good H D s2 out v e'
            end).
  { intros e He. pose proof (C g mg Hg (fun F => F) Hmg e He) as Hcv.
    destruct e as [i | e'].
    - destruct Hcv as [Ho | Hv]; [exact Ho|]. destruct (V _ Hv) as (g' & mg' & E0 & _). discriminate.
    - intros Hn'. destruct Hcv as [Ho | Hv]; [contradiction|].
      destruct (Hvis_memo e' Hv) as (me & Hme).
      apply (IH e' me); [pose proof (edge_rank g mg e' Hmg He); lia | exact Hv | exact Hme|].
      pose proof (mo_sync _ _ _ _ _ _ _ _ _ Hok Hz e' me He Hme). lia. }
  apply (good_exp prog NF fm H D s2 out v g (m_verified mg) (m_dur mg)).
  - apply Hot. apply (obs_of_memo prog NF fm H D F s g mg Hok).
  - exact Hvg.
  - intros x Hx Hux. pose proof (mo_reads_cell _ _ _ _ _ _ _ _ _ Hok x Hx Hux) as A.
    pose proof (Hvt g mg Hg Hmg). congruence.
  - intros i Hi. apply (Hedge _ (mo_in _ _ _ _ _ _ _ _ _ Hok i Hi)).
  - intros d' Hd' Hn'. destruct (edge_in_dec (EQ d') (m_edges mg)) as [HinL | HnL].
    + apply (Hedge _ HinL). exact Hn'.
    + apply (good_subst H D s s2 (m_edges mg) out (m_verified mg) v d' Hot); [lia | exact Hvg | | |].
      * intros i Hi. apply (Hedge _ Hi).
      * intros e He Hne. apply (Hedge _ He). exact Hne.
      * apply (mo_q _ _ _ _ _ _ _ _ _ Hok (Hvt g mg Hg Hmg) d' Hd' HnL).
Qed.

Lemma flat_reach g : In (EQ g) out -> reach prog q g.
Proof.
  intros Hg. destruct (flatten_under pfam mm sfuel L) as [Uo _]. specialize (Uo _ Hg).
  assert (G : forall e, under mm L e -> forall g0, e = EQ g0 -> reach prog q g0).
  { intros e Hu. induction Hu as [e He | g1 m1 e Hu IH Hm1 He]; intros g0 ->.
    - apply (mo_edges_reach _ _ _ _ _ _ _ _ _ (HIm q m Hm) g0 He).
    - eapply reach_trans; [apply (IH g1 eq_refl)|].
      apply (mo_edges_reach _ _ _ _ _ _ _ _ _ (HIm g1 m1 Hm1) g0 He). }
  apply (G _ Uo g eq_refl).
Qed.

End OneMemo.

(* the serialised memo of q, in the restored database *)
Lemma flat_edges_ok q m' : d_memo s2 q = Some m' -> edges_ok uprog NF fm H D s2 q m'.
Proof.
  rewrite Hm2. unfold snap_memo. fold mm.
  destruct (mm q) as [m|] eqn:Hm; [|discriminate].
  destruct (m_val m) as [x|] eqn:Hx; [|discriminate].
  destruct (pfam (fst q)) eqn:Hp; [|discriminate]. intros E0. injection E0 as <-.
  pose proof (HIm q m Hm) as Hok.
  pose proof (mo_order _ _ _ _ _ _ _ _ _ Hok) as (O1 & O2 & O3).
  set (L := m_edges m). set (L' := flatten pfam mm sfuel L).
  assert (Hes : forall e, In e L -> (erank rank e < sfuel)%nat).
  { intros e _. destruct e as [i|c]; cbn; [specialize (Hsfuel q); lia | apply Hsfuel]. }
  destruct (flatten_closed pfam mm rank edge_rank sfuel L Hes) as (V & C & Cov).
  assert (Hcov_in : forall i, In (EIn i) L -> In (EIn i) L').
  { intros i Hi. destruct (Cov _ Hi) as [Ho | Hv]; [exact Ho|].
    destruct (V _ Hv) as (g' & mg & E0 & _). discriminate. }
  constructor; cbn [m_verified m_edges m_untracked m_dur].
  - intros i Hi. apply Hcov_in. apply (mo_in _ _ _ _ _ _ _ _ _ Hok i Hi).
  - intros Hu d Hd Hn. apply orb_false_iff in Hu. destruct Hu as [Hu Hlost].
    assert (Hvt : forall g mg, In (EQ g) (snd (flatten_full pfam mm sfuel L)) -> mm g = Some mg ->
              m_untracked mg = false).
    { intros g mg Hg Hmg. destruct (m_untracked mg) eqn:Hug; [|reflexivity].
      unfold lost_untracked in Hlost. fold mm L in Hlost.
      assert (X : existsb (fun e => match e with
                                    | EQ g => match mm g with Some m => m_untracked m | None => false end
                                    | EIn _ => false
                                    end) (snd (flatten_full pfam mm sfuel L)) = true).
      { apply existsb_exists. exists (EQ g). split; [exact Hg|]. rewrite Hmg. exact Hug. }
      congruence. }
    destruct (N.eq_dec (m_dur m) 0) as [Hz | Hnz].
    2:{ apply (good_never prog NF fm H D s2 L' (m_verified m) d (m_verified m) (m_dur m) Hfm); [lia | lia|].
        apply (durge_q _ _ _ _ _ _ _ _ (mo_durge _ _ _ _ _ _ _ _ _ Hok) Hd). }
    assert (Hedge : forall e, In (EQ e) L -> ~ In (EQ e) L' -> good H D s2 L' (m_verified m) e).
    { intros e He Hne. destruct (Cov _ He) as [Ho | Hv]; [contradiction|].
      destruct (V _ Hv) as (g' & me & E0 & Hme). injection E0 as <-.
      apply (exp_good q m Hvt (S (rank e)) e me (le_n _) Hv Hme).
      apply (mo_sync _ _ _ _ _ _ _ _ _ Hok Hz e me He Hme). }
    destruct (edge_in_dec (EQ d) L) as [HinL | HnL].
    + apply Hedge; assumption.
    + apply (good_subst H D s s2 L L' (m_verified m) (m_verified m) d Hot); [lia | lia | exact Hcov_in | exact Hedge|].
      apply (mo_q _ _ _ _ _ _ _ _ _ Hok Hu d Hd HnL).
  - intros y Hy Huy. rewrite (mo_reads_cell _ _ _ _ _ _ _ _ _ Hok y Hy Huy). reflexivity.
  - intros g Hg. apply (flat_reach q m Hm g Hg).
  - left. exact Hfm.
  - intros Hz d md' Hd Hmd'. rewrite Hm2 in Hmd'. unfold snap_memo in Hmd'. fold mm in Hmd'.
    destruct (mm d) as [md|] eqn:Hmd; [|discriminate].
    destruct (m_val md); [|discriminate]. destruct (pfam (fst d)); [|discriminate].
    injection Hmd' as <-. cbn.
    destruct (flatten_fn pfam mm sfuel L d Hd) as [HinL | Hnone]; [|congruence].
    apply (mo_sync _ _ _ _ _ _ _ _ _ Hok Hz d md HinL Hmd).
Qed.

End OneState.

Lemma snapshot_sub_core mm : sub_core mm (snap_memo pfam mm sfuel).
Proof.
  intros q m' Hs. unfold snap_memo in Hs.
  destruct (mm q) as [m|] eqn:Hm; [|discriminate].
  destruct (m_val m) as [x|] eqn:Hx; [|discriminate].
  destruct (pfam (fst q)); [|discriminate]. injection Hs as <-.
  exists m. split; [reflexivity|]. repeat split; cbn; auto. rewrite Hx. auto.
Qed.

(* the transfer, for a target s2 that has the restored memo table and the revisions and inputs of s *)
Lemma restore_transfer H D F s s2 :
  DInv_d uprog NF fm H D F s ->
  d_revs s2 = d_revs s -> d_in s2 = d_in s -> d_memo s2 = snap_memo pfam (d_memo s) sfuel ->
  (forall c, sn_cell (H (cur s2)) c = d_cell s2 c) ->
  DInv H D (lift s F) s2.
Proof.
  intros HI Hr Hi Hmm Hcell.
  destruct (DInv_d_facts uprog NF fm H D F s HI) as (F1 & F2 & F3 & F4 & F5 & F6 & F7 & F8 & F9 & F10).
  assert (Hc : cur s2 = cur s) by (unfold cur; rewrite Hr; reflexivity).
  assert (Hcle : cur s <= cur s2) by lia.
  assert (Hlc : forall k, lcs s k <= lcs s2 k) by (intros k; unfold lcs; rewrite Hr; lia).
  assert (Hsub : sub_core (d_memo s) (d_memo s2)) by (rewrite Hmm; apply snapshot_sub_core).
  assert (Hpast : forall r, r <= cur s -> H r = H r /\ forall i, D r i = D r i) by (intros; split; reflexivity).
  assert (Hstamp : forall i, f_changed (d_in s i) <= f_changed (d_in s2 i)) by (intros i; rewrite Hi; lia).
  assert (HIm : forall g mg, d_memo s g = Some mg -> dmemo_ok H D F s g mg).
  { intros g mg Hg. apply (dmemo_ok_same prog NF fm H D F (set_cell s (sn_cell (H (cur s))))); [reflexivity | reflexivity | reflexivity|].
    apply (inv_memo _ _ _ _ _ _ _ HI g mg Hg). }
  apply (DInv_transfer uprog rank Hrank NF fm H D F H D s s2 HI Hcle Hlc Hsub Hpast Hstamp); rewrite ?Hc, ?Hi, ?Hr; auto.
  - intros q m' Hm'.
    apply (flat_edges_ok H D F s s2 HIm (obs_transfer uprog NF fm H D F H D s s2 HI Hcle Hlc Hsub Hpast) Hc Hmm q m' Hm').
  - rewrite <- Hc. exact Hcell.
  - intros r i Hlt Hl. apply F8; [exact Hlt|]. unfold lcs in *. rewrite Hr in Hl. exact Hl.
  - intros Hf k Hk. specialize (F10 Hf k Hk). unfold lcs in *. rewrite Hr. exact F10.
Qed.

Theorem restore_flat_ok s ext :
  OK_d s -> d_stack s = [] ->
  state_ok true (restore (snapshot pfam sfuel s) ext lru0).
Proof.
  intros (H & D & F & HI) Hst. split; [|reflexivity].
  exists H, D, (lift s F). unfold DInv_d.
  apply (restore_transfer H D F s _ HI); [reflexivity | reflexivity | reflexivity | intros c; reflexivity].
Qed.

Theorem restore_flat_ok_clean s ext :
  OK s -> d_stack s = [] -> d_cell ext = d_cell s ->
  state_ok false (restore (snapshot pfam sfuel s) ext lru0).
Proof.
  intros (H & D & F & HI) Hst Hce. split; [|reflexivity].
  exists H, D, (lift s F).
  apply (restore_transfer H D F s _ (DInv_to_d uprog NF fm H D F s HI)); [reflexivity | reflexivity | reflexivity|].
  intros c. cbn. rewrite Hce. apply (inv_cell _ _ _ _ _ _ _ HI).
Qed.

End Flat.

(* ---------------------------------------------------------------- the run *)
(* the harness state: the database is ok; the serialised database, if any, was taken from an ok
   database whose external cells are the current ones unless they changed since *)
Definition pstate_ok (now since : bool) (p : pstate) : Prop :=
  state_ok now (ps_db p) /\ (now = true -> since = true) /\
  forall img, ps_img p = Some img ->
    exists s0, img = snapshot pfam sfuel s0 /\ OK s0 /\ d_stack s0 = [] /\
               (since = false -> d_cell s0 = d_cell (ps_db p)).

Lemma img_keep now since p s' :
  pstate_ok now since p -> (since = false -> d_cell s' = d_cell (ps_db p)) ->
  forall img, ps_img p = Some img ->
    exists s0, img = snapshot pfam sfuel s0 /\ OK s0 /\ d_stack s0 = [] /\
               (since = false -> d_cell s0 = d_cell s').
Proof.
  intros (_ & _ & Hi) Hc img Himg. destruct (Hi img Himg) as (s0 & A & B & C & D0).
  exists s0. repeat split; auto. intros Hs. rewrite (Hc Hs). apply D0; exact Hs.
Qed.

(* what a restore has to deliver (Section Closed, Section Flat) *)
Definition restore_good : Prop :=
  (forall s ext, OK_d s -> d_stack s = [] -> state_ok true (restore (snapshot pfam sfuel s) ext lru0)) /\
  (forall s ext, OK s -> d_stack s = [] -> d_cell ext = d_cell s ->
                 state_ok false (restore (snapshot pfam sfuel s) ext lru0)).

(* in flat mode the operations keep every durability LOW *)
Definition low_op (o : op) : Prop :=
  fm = true -> match o with OSet _ _ (Some d) => d = 0 | OSynth d => d = 0 | _ => True end.

Lemma step_ok fuel now since p o :
  (forall q, (rank q < fuel)%nat) -> Statement.dur_op o -> low_op o ->
  (o = ORestore -> restore_good) ->
  pstate_ok now since p ->
  match o with
  | OGet q =>
      now = false ->
      (Statement.get_ok_strict uprog NF p (fst (pstep fuel p o)) q (snd (pstep fuel p o)) \/
       snd (pstep fuel p o) = PPanic PUninit) /\
      pstate_ok false since (fst (pstep fuel p o))
  | OSetCell _ _ => pstate_ok true true (fst (pstep fuel p o))
  | OSet _ _ _ | OSynth _ => pstate_ok false since (fst (pstep fuel p o))
  | OSnapshot => now = false -> pstate_ok false false (fst (pstep fuel p o))
  | ORestore => pstate_ok since since (fst (pstep fuel p o))
  | _ => pstate_ok now since (fst (pstep fuel p o))
  end.
Proof.
  intros Hfuel Hdop Hlop Hcl Hok. pose proof Hok as (Hdb & Hns & Himg).
  set (s := ps_db p) in *.
  assert (Hst : d_stack s = []) by (destruct Hdb; assumption).
  unfold Statement.pstep.
  destruct o as [i v d | d | c v | c v | q | fam n | | |]; cbn [step fst snd]; fold s; unfold pstate_ok; cbn [with_db ps_db ps_img].
  - (* OSet *)
    assert (Hld : low_dur d) by (intros Hf; specialize (Hlop Hf); destruct d; [exact Hlop | exact I]).
    destruct (db_set_ok now s i v d Hdop Hld Hdb) as [H1 H2].
    destruct (f_dur (d_in (new_revision fams (zalsa_mut fams s)) i) =? D_NEVER) eqn:Hn; cbn [fst].
    + split; [exact H1|]. split; [discriminate|]. apply (img_keep now since p); [exact Hok|]. intros _.
      cbn. destruct (new_revision_facts (zalsa_mut fams s)) as (_ & B & _). rewrite B. apply zalsa_mut_cell.
    + split; [exact (H2 eq_refl)|]. split; [discriminate|]. apply (img_keep now since p); [exact Hok|]. intros _.
      cbn. destruct (new_revision_facts (zalsa_mut fams s)) as (_ & B & _). rewrite B. apply zalsa_mut_cell.
  - (* OSynth *)
    destruct (db_synth_ok now s d Hlop Hdb) as [H1 H2].
    destruct (d =? D_NEVER); cbn [fst].
    + split; [exact H1|]. split; [discriminate|]. apply (img_keep now since p); [exact Hok|]. intros _.
      cbn. destruct (new_revision_facts (zalsa_mut fams s)) as (_ & B & _). rewrite B. apply zalsa_mut_cell.
    + split; [exact H2|]. split; [discriminate|]. apply (img_keep now since p); [exact Hok|]. intros _.
      cbn. destruct (new_revision_facts (zalsa_mut fams s)) as (_ & B & _). rewrite B. apply zalsa_mut_cell.
  - (* OSetCell *)
    split.
    + split; [|exact Hst]. apply (OK_d_same_cells s); auto. apply (state_ok_d now s Hdb).
    + split; [reflexivity|]. intros img Hi. destruct (Himg img Hi) as (s0 & A & B & C & _).
      exists s0. repeat split; auto. discriminate.
  - (* OSetPanic *)
    split.
    + split; [|exact Hst]. destruct now; destruct Hdb as [A _].
      * apply (OK_d_same_cells s); auto.
      * apply (OK_same_all s); auto.
    + split; [exact Hns|]. apply (img_keep now since p); [exact Hok | reflexivity].
  - (* OGet *)
    intros ->.
    destruct (db_get_ok fuel s q Hfuel Hdb) as (Hres & Hin & Hcell).
    destruct (fetch uprog noeq (level uprog noeq fuel) q s) as [s' [[[v dd] cc] | e |]] eqn:Hf;
      cbn [fst snd] in *.
    + destruct Hres as [Hv Hs']. split.
      * left. left. f_equal. rewrite Hv. unfold Spec.snap_of. cbn. rewrite Hin, Hcell. reflexivity.
      * split; [exact Hs'|]. split; [discriminate|]. apply (img_keep false since p); [exact Hok | intros _; exact Hcell].
    + destruct Hres as [Ha Hs']. split.
      * destruct Ha as [[-> Hc] | [-> _]]; [left; right; split; [reflexivity | exact Hc] | right; reflexivity].
      * split; [exact Hs'|]. split; [discriminate|]. apply (img_keep false since p); [exact Hok | intros _; exact Hcell].
    + destruct Hres.
  - (* OSetLru *)
    split.
    + split; [|cbn; rewrite zalsa_mut_stack; exact Hst].
      destruct now; destruct Hdb as [A _].
      * apply (OK_d_same_cells (zalsa_mut fams s)); auto. apply OK_d_zalsa_mut; exact A.
      * apply (OK_same_all (zalsa_mut fams s)); auto. apply OK_zalsa_mut; exact A.
    + split; [exact Hns|]. apply (img_keep now since p); [exact Hok|]. intros _. cbn. apply zalsa_mut_cell.
  - (* OEvict *)
    destruct (evict_all_facts (zalsa_mut fams s)) as (A1 & A2 & A3 & A4 & A5).
    split.
    + split; [|rewrite A4, zalsa_mut_stack; exact Hst].
      destruct now; destruct Hdb as [A _].
      * apply (OK_d_same uprog rank Hrank NF fm (zalsa_mut fams s)); auto; [apply OK_d_zalsa_mut; exact A | apply evicted_sub_sim; exact A5].
      * apply (OK_same uprog rank Hrank NF fm (zalsa_mut fams s)); auto; [apply OK_zalsa_mut; exact A | apply evicted_sub_sim; exact A5].
    + split; [exact Hns|]. apply (img_keep now since p); [exact Hok|]. intros _. rewrite A3. apply zalsa_mut_cell.
  - (* OSnapshot *)
    intros ->. split; [exact Hdb|]. split; [discriminate|].
    intros img Hi. cbn in Hi. injection Hi as <-.
    exists s. destruct Hdb as [A B]. repeat split; auto.
  - (* ORestore *)
    destruct (ps_img p) as [img|] eqn:Hi; cbn [fst ps_db ps_img].
    + destruct (Himg img eq_refl) as (s0 & -> & B & C & D0).
      split; [|split; [auto|]].
      * destruct since.
        -- apply (proj1 (Hcl eq_refl)); [apply OK_to_d; exact B | exact C].
        -- apply (proj2 (Hcl eq_refl)); [exact B | exact C | symmetry; apply D0; reflexivity].
      * intros img' Hi'. injection Hi' as <-.
        exists s0. repeat split; auto.
    + fold s. split; [|split; [auto|]].
      * destruct now.
        -- rewrite (Hns eq_refl). exact Hdb.
        -- apply state_ok_weaken; exact Hdb.
      * intros img' Hi'. rewrite Hi in Hi'. discriminate.
Qed.

(* ---------------------------------------------------------------- the results theorems *)
Theorem results_general fuel :
  (forall q, (rank q < fuel)%nat) ->
  forall ops now since p, Forall Statement.dur_op ops -> Forall low_op ops ->
    Statement.wf_ops now since ops ->
    (In ORestore ops -> restore_good) ->
    pstate_ok now since p ->
    Statement.known_class_free uprog noeq pfam fams lru0 sfuel fuel p ops ->
    Statement.results_ok_strict uprog noeq pfam fams lru0 NF sfuel fuel p ops.
Proof.
  intros Hfuel. induction ops as [|o ops IH]; intros now since p Hdur Hlow Hwf Hcl Hok Hk; [exact I|].
  inversion Hdur as [|? ? Hdo Hdurs]; subst. inversion Hlow as [|? ? Hlo Hlows]; subst.
  cbn [Statement.results_ok_strict Statement.known_class_free] in *. destruct Hk as [Hk1 Hk2].
  assert (Hcl1 : o = ORestore -> restore_good) by (intros ->; apply Hcl; now left).
  assert (Hcl2 : In ORestore ops -> restore_good) by (intros Hin; apply Hcl; now right).
  pose proof (step_ok fuel now since p o Hfuel Hdo Hlo Hcl1 Hok) as Hs.
  destruct o as [i v d | d | c v | c v | q | fam n | | |]; cbn [Statement.wf_ops] in Hwf.
  - split; [exact I|]. apply (IH false since); assumption.
  - split; [exact I|]. apply (IH false since); assumption.
  - split; [exact I|]. apply (IH true true); assumption.
  - split; [exact I|]. apply (IH now since); assumption.
  - destruct Hwf as [-> Hwf]. destruct (Hs eq_refl) as [[Hg | Hu] Hs'].
    + split; [exact Hg|]. apply (IH false since); assumption.
    + contradiction.
  - split; [exact I|]. apply (IH now since); assumption.
  - split; [exact I|]. apply (IH now since); assumption.
  - destruct Hwf as [-> Hwf]. split; [exact I|]. apply (IH false false); auto.
  - split; [exact I|]. apply (IH since since); assumption.
Qed.

Lemma init_ok iv idur :
  (forall i, idur i <= 3) -> (fm = true -> forall i, idur i = 0) ->
  pstate_ok false false (pinit iv idur lru0).
Proof.
  intros Hid Hlow. split; [|split; [discriminate | intros img Hi; discriminate]].
  split; [|reflexivity].
  exists (fun _ => csnap (init iv idur lru0)), (fun _ => idur), (fun _ => None).
  constructor.
  - cbn. unfold REV_START. lia.
  - cbn. unfold revs_ok, REV_START; cbn. lia.
  - intros i r _ _. reflexivity.
  - intros i r _ _. reflexivity.
  - intros i. cbn. unfold REV_START. lia.
  - intros c. reflexivity.
  - intros r i. apply Hid.
  - intros r i _ _. split; reflexivity.
  - intros q m Hm. discriminate.
  - intros d rho c _ HF. discriminate.
  - intros Hf r i. apply (Hlow Hf).
  - intros Hf k Hk. unfold lcs, init; cbn.
    destruct (lc_cases {| r_cur := REV_START; r_med := REV_START; r_high := REV_START |} k)
      as [[-> E0] | [[-> E0] | [[-> E0] | [Hk3 E0]]]]; rewrite E0; cbn; unfold REV_START; lia.
Qed.

Lemma restore_good_closed : Statement.persisted_closed uprog pfam -> restore_good.
Proof.
  intros Hcl. split.
  - intros s ext. apply restore_ok. exact Hcl.
  - intros s ext. apply restore_ok_clean. exact Hcl.
Qed.

Lemma restore_good_flat : fm = true -> (forall p, (S (rank p) < sfuel)%nat) -> restore_good.
Proof.
  intros Hf Hs. split.
  - intros s ext. apply restore_flat_ok; assumption.
  - intros s ext. apply restore_flat_ok_clean; assumption.
Qed.

End Top.

(* ---------------------------------------------------------------- in the terms of Statement.v *)
Section Final.
Variable prog : qkey -> body.
Variable noeq : qkey -> bool.
Variable pfam : N -> bool.
Variable fams : list N.
Variable lru0 : N -> lru_state.
Variable rank : qkey -> nat.
Hypothesis Hrank : Spec.calls_below prog rank.
Variable NF : nat.
Hypothesis Hbound : forall q, (rank q < NF)%nat.

Let no_low ops : Forall (low_op false) ops.
Proof. apply Forall_forall. intros o _ Hf. discriminate. Qed.

(* histories WITHOUT restore (snapshots allowed): C01 for the persist-mode model *)
Theorem results_no_restore_strict fuel sfuel :
  (forall p, (rank p < fuel)%nat) ->
  forall iv idur ops,
    (forall i, idur i <= 3) -> Forall Statement.dur_op ops -> Statement.wf_ops false false ops ->
    ~ In ORestore ops ->
    Statement.known_class_free prog noeq pfam fams lru0 sfuel fuel (pinit iv idur lru0) ops ->
    Statement.results_ok_strict prog noeq pfam fams lru0 NF sfuel fuel (pinit iv idur lru0) ops.
Proof.
  intros Hfuel iv idur ops Hid Hdur Hwf Hnr Hk.
  apply (results_general prog noeq pfam fams lru0 rank (calls_below_tb prog rank Hrank) NF Hbound sfuel false fuel Hfuel
           ops false false _ Hdur (no_low ops) Hwf); [intros Hin; contradiction | | exact Hk].
  apply init_ok; [exact Hid | discriminate].
Qed.

(* histories with snapshots AND restores, when persisted functions only call persisted ones *)
Theorem results_closed_strict fuel sfuel :
  (forall p, (rank p < fuel)%nat) ->
  Statement.persisted_closed prog pfam ->
  forall iv idur ops,
    (forall i, idur i <= 3) -> Forall Statement.dur_op ops -> Statement.wf_ops false false ops ->
    Statement.known_class_free prog noeq pfam fams lru0 sfuel fuel (pinit iv idur lru0) ops ->
    Statement.results_ok_strict prog noeq pfam fams lru0 NF sfuel fuel (pinit iv idur lru0) ops.
Proof.
  intros Hfuel Hcl iv idur ops Hid Hdur Hwf Hk.
  apply (results_general prog noeq pfam fams lru0 rank (calls_below_tb prog rank Hrank) NF Hbound sfuel false fuel Hfuel
           ops false false _ Hdur (no_low ops) Hwf); [intros _; exact (restore_good_closed prog pfam lru0 rank (calls_below_tb prog rank Hrank) NF sfuel false Hcl) | | exact Hk].
  apply init_ok; [exact Hid | discriminate].
Qed.

(* histories with snapshots AND restores, EVERY program and choice of persisted functions
   (dependencies are flattened away to any depth), when all durabilities are LOW *)
Theorem results_low_strict fuel sfuel :
  (forall p, (rank p < fuel)%nat) -> (forall p, (S (rank p) < sfuel)%nat) ->
  forall iv ops,
    Forall Statement.low_op ops -> Statement.wf_ops false false ops ->
    Statement.known_class_free prog noeq pfam fams lru0 sfuel fuel (pinit iv (fun _ => 0) lru0) ops ->
    Statement.results_ok_strict prog noeq pfam fams lru0 NF sfuel fuel (pinit iv (fun _ => 0) lru0) ops.
Proof.
  intros Hfuel Hsfuel iv ops Hlow Hwf Hk.
  assert (Hdur : Forall Statement.dur_op ops).
  { apply Forall_forall. intros o Ho. rewrite Forall_forall in Hlow. specialize (Hlow o Ho).
    destruct o as [i v [d|] | d | | | | | | |]; cbn in *; try exact I. lia. }
  assert (Hl : Forall (low_op true) ops).
  { apply Forall_forall. intros o Ho _. rewrite Forall_forall in Hlow. specialize (Hlow o Ho).
    destruct o as [i v [d|] | d | | | | | | |]; cbn in *; auto. }
  apply (results_general prog noeq pfam fams lru0 rank (calls_below_tb prog rank Hrank) NF Hbound sfuel true fuel Hfuel
           ops false false _ Hdur Hl Hwf); [intros _; exact (restore_good_flat prog pfam lru0 rank (calls_below_tb prog rank Hrank) NF sfuel true eq_refl Hsfuel) | | exact Hk].
  apply init_ok; [intros i; lia | intros _ i; reflexivity].
Qed.


(* ... and in the terms of the full statement (any panic of the base model allowed) *)
Theorem results_no_restore fuel sfuel :
  (forall p, (rank p < fuel)%nat) ->
  forall iv idur ops,
    (forall i, idur i <= 3) -> Forall Statement.dur_op ops -> Statement.wf_ops false false ops ->
    ~ In ORestore ops ->
    Statement.known_class_free prog noeq pfam fams lru0 sfuel fuel (pinit iv idur lru0) ops ->
    Statement.results_ok prog noeq pfam fams lru0 NF sfuel fuel (pinit iv idur lru0) ops.
Proof.
  intros Hfuel iv idur ops Hid Hdur Hwf Hnr Hk. apply Statement.results_ok_of_strict.
  apply (results_no_restore_strict fuel sfuel Hfuel iv idur ops Hid Hdur Hwf Hnr Hk).
Qed.

Theorem results_closed fuel sfuel :
  (forall p, (rank p < fuel)%nat) ->
  Statement.persisted_closed prog pfam ->
  forall iv idur ops,
    (forall i, idur i <= 3) -> Forall Statement.dur_op ops -> Statement.wf_ops false false ops ->
    Statement.known_class_free prog noeq pfam fams lru0 sfuel fuel (pinit iv idur lru0) ops ->
    Statement.results_ok prog noeq pfam fams lru0 NF sfuel fuel (pinit iv idur lru0) ops.
Proof.
  intros Hfuel Hcl iv idur ops Hid Hdur Hwf Hk. apply Statement.results_ok_of_strict.
  apply (results_closed_strict fuel sfuel Hfuel Hcl iv idur ops Hid Hdur Hwf Hk).
Qed.

Theorem results_low fuel sfuel :
  (forall p, (rank p < fuel)%nat) -> (forall p, (S (rank p) < sfuel)%nat) ->
  forall iv ops,
    Forall Statement.low_op ops -> Statement.wf_ops false false ops ->
    Statement.known_class_free prog noeq pfam fams lru0 sfuel fuel (pinit iv (fun _ => 0) lru0) ops ->
    Statement.results_ok prog noeq pfam fams lru0 NF sfuel fuel (pinit iv (fun _ => 0) lru0) ops.
Proof.
  intros Hfuel Hsfuel iv ops Hlow Hwf Hk. apply Statement.results_ok_of_strict.
  apply (results_low_strict fuel sfuel Hfuel Hsfuel iv ops Hlow Hwf Hk).
Qed.

End Final.

(* Persist/LInvSem.v — port of Core/DInvSem.v to the persist-mode model: when may a memo be
   marked verified now (edge walk or durability short-cut), and when is a freshly computed memo
   ok, including what every observer of the query is owed, and that stamps never decrease
   ([frame_changed_lb]). *)
From Salsa Require Import Base.
From Salsa.Kern Require Import CoreK CoreKFacts.
From Salsa.Core Require Import Model Spec SpecProofs Inv DurSem.
From Salsa.Persist Require Import Model PSem PWp LInv.

Section Sem.
Variable prog : qkey -> CM.body.
Variable rank : qkey -> nat.
Hypothesis Hrank : calls_below prog rank.
Variable NF : nat.
Hypothesis Hbound : forall q, (rank q < NF)%nat.
Variable fm : bool.
Variable F : ghost.
Notation E := (E prog NF).
Notation tr := (tr prog NF).
Notation envat := (envat prog NF).
Notation durge := (durge prog NF).
Notation clos := (clos prog NF).
Notation dmemo_ok := (fun H D => dmemo_ok prog NF fm H D F).
Notation DInv := (fun H D => DInv prog NF fm H D F).
Notation obs_pre := (obs_pre prog NF).
Notation obs_ok := (obs_ok prog NF).
Notation good := (good prog NF fm).
Notation dext := (fun H D => dext prog NF H D F).
Notation sle := (fun s => sle s F).
Notation prov := (fun H s => prov prog NF H s F).

Ltac conj := repeat match goal with |- _ /\ _ => split end.

(* a memo verified now serves the whole closure of its query *)
Lemma obs_of_callee H D s d1 md1 d md :
  DInv H D s -> d_memo s d1 = Some md1 -> m_verified md1 = cur s -> clos H (cur s) d1 d ->
  d_memo s d = Some md ->
  E H (cur s) d = E H (m_verified md) d /\ m_dur md1 <= m_dur md.
Proof.
  intros HI Hm1 Hv1 Hc Hmd.
  pose proof (inv_memo _ _ _ _ _ _ _ HI d1 md1 Hm1) as Hok1.
  rewrite <- Hv1 in Hc. rewrite <- Hv1.
  apply (mo_obs _ _ _ _ _ _ _ _ _ Hok1 d md Hc Hmd).
  left. pose proof (mo_order _ _ _ _ _ _ _ _ _ (inv_memo _ _ _ _ _ _ _ HI d md Hmd)) as (_ & A & B).
  rewrite Hv1. lia.
Qed.

(* never-change callees stay what they are *)
Lemma never_now H D s a d :
  DInv H D s -> 1 <= a -> a <= cur s -> durge H D a 3 d ->
  tr H (cur s) d = tr H a d /\ E H (cur s) d = E H a d /\ durge H D (cur s) 3 d.
Proof.
  intros HI Ha Hle Hd.
  apply (durge_stable prog rank Hrank NF Hbound H D 3 a (cur s) d (cur s));
    [lia | apply (stable_never prog NF fm H D F s a HI Ha) | exact Hd | exact Hle | lia].
Qed.

(* two revisions that answer the reads of q at a alike give the same run *)
Lemma same_run H a w q :
  agree_on (envat H a) (envat H w) (tr H a q) -> tr H w q = tr H a q /\ E H w q = E H a q.
Proof.
  intros Hag. destruct (trace_determined (prog q) _ _ Hag) as [Htr Hrun].
  split; [exact Htr | rewrite !(E_unfold prog rank Hrank NF Hbound); exact Hrun].
Qed.

(* ... and it is enough to look at the reads that both runs perform *)
Lemma same_run_common H a w q :
  (forall x, In x (tr H a q) -> In x (tr H w q) -> answer (envat H a) x = answer (envat H w) x) ->
  tr H w q = tr H a q /\ E H w q = E H a q.
Proof.
  intros Hc. apply same_run.
  destruct (first_changed_is_read_again (prog q) (envat H a) (envat H w))
    as [Hag | (pre & x & post & Ht & _ & Hnea & post' & Ht')]; [exact Hag|].
  exfalso. apply Hnea. apply Hc.
  - unfold tr, Inv.tr. rewrite Ht. apply in_or_app; right; left; reflexivity.
  - unfold tr, Inv.tr. rewrite Ht'. apply in_or_app; right; left; reflexivity.
Qed.

(* flat mode: a query of level >= 1 reads no input at all; it is the same at every revision *)
Lemma low_never H D a k : (forall r i, D r i = 0) -> 1 <= k ->
  forall n d, (rank d < n)%nat -> durge H D a k d ->
  forall w, tr H w d = tr H a d /\ E H w d = E H a d /\ durge H D w 3 d.
Proof.
  intros HD Hk. induction n as [|n IH]; intros d Hn Hd w; [inversion Hn|].
  assert (Hag : agree_on (envat H a) (envat H w) (tr H a d)).
  { intros x Hx. destruct x as [i | d' | c |]; cbn.
    - pose proof (durge_in _ _ _ _ _ _ _ _ Hd Hx) as Hle. rewrite HD in Hle. lia.
    - symmetry. apply (IH d'); [|eapply durge_q; eassumption].
      pose proof (tr_calls prog rank Hrank NF H _ _ _ Hx). lia.
    - assert (k = 0); [|lia]. apply (durge_untr _ _ _ _ _ _ _ _ Hd Hx). right; eauto.
    - reflexivity. }
  destruct (same_run H a w d Hag) as [Htr HE]. split; [exact Htr|]. split; [exact HE|].
  constructor; rewrite Htr.
  - intros i Hi. pose proof (durge_in _ _ _ _ _ _ _ _ Hd Hi) as Hle. rewrite HD in Hle. lia.
  - intros d' Hd'. apply (IH d'); [|eapply durge_q; eassumption].
    pose proof (tr_calls prog rank Hrank NF H _ _ _ Hd'). lia.
  - intros x Hx Hu. assert (k = 0); [|lia]. apply (durge_untr _ _ _ _ _ _ _ _ Hd Hx Hu).
Qed.

(* ---------------------------------------------------------------- marking a memo verified now *)
Lemma revalidate_ok H D s q m :
  DInv H D s -> d_memo s q = Some m ->
  agree_on (envat H (m_verified m)) (envat H (cur s)) (tr H (m_verified m) q) ->
  (forall i, In (RIn i) (tr H (m_verified m) q) -> D (cur s) i = D (m_verified m) i) ->
  durge H D (cur s) (m_dur m) q ->
  (* what was flattened away is covered from now on as well *)
  (m_untracked m = false ->
   forall d, In (RQ d) (tr H (m_verified m) q) -> ~ In (EQ d) (m_edges m) ->
     good H D s (m_edges m) (cur s) d) ->
  (m_dur m = 0 -> forall d md, In (EQ d) (m_edges m) -> d_memo s d = Some md -> cur s <= m_verified md) ->
  (forall d md, clos H (cur s) q d -> d <> q -> d_memo s d = Some md ->
     E H (cur s) d = E H (m_verified md) d /\ m_dur m <= m_dur md) ->
  let m' := reverify m (cur s) in
  DInv H D (store s q m') /\ dext H D s (store s q m') /\ E H (cur s) q = E H (m_verified m) q.
Proof.
  intros HI Hm Hag HDin Hdg Hgood Hsync Hclos m'.
  pose proof (inv_memo _ _ _ _ _ _ _ HI q m Hm) as Hok.
  destruct (same_run H _ _ q Hag) as [Htr' HE].
  pose proof (mo_order _ _ _ _ _ _ _ _ _ Hok) as (Ho1 & Ho2 & Ho3).
  assert (Hobs : forall g w k, obs_ok H D s g w k -> clos H w g q -> obs_pre H D s w q m' ->
             E H w q = E H (cur s) q /\ k <= m_dur m').
  { intros g w k Hog Hcl Hpre.
    destruct (ob_obs _ _ _ _ _ _ _ _ Hog q m Hcl Hm) as [A B]; [exact Hpre|].
    split; [rewrite A; symmetry; exact HE | exact B]. }
  assert (Hall : forall g w k, obs_ok H D s g w k -> obs_ok H D (store s q m') g w k).
  { intros g w k Ho. apply obs_store; [reflexivity | exact Ho|]. intros Hcl Hp. apply (Hobs g w k Ho Hcl Hp). }
  assert (Hfin : DInv H D (store s q m') /\ dext H D s (store s q m')).
  assert (Hphi : forall c0, LInv.phi s F q = Some c0 -> c0 <= m_changed m').
  { intros c0 Hc0. unfold LInv.phi in Hc0. rewrite Hm in Hc0. injection Hc0 as <-. cbn. lia. }
  { apply (DInv_store prog NF fm H D F s q m' HI); [reflexivity | | exact Hobs | | exact Hphi].
    - destruct Hok as [a b c d e f g h i st j k].
      constructor; cbn [m' reverify m_val m_verified m_changed m_dur m_untracked m_edges];
        rewrite ?cur_store; unfold LInv.prov; rewrite ?Htr'; auto.
      + pose proof (inv_cur _ _ _ _ _ _ _ HI). lia.
      + intros x Hx. rewrite HE. apply b; exact Hx.
      + intros Hu0 d0 Hd0 Hn. apply (good_mono prog NF fm H D s); [apply N.le_refl | exact Hall | apply Hgood; assumption].
      + apply (prov_mono prog NF H s (store s q m') F q (m_verified m) (m_changed m)); [reflexivity | | exact st].
        intros d0 c0. apply phi_store. exact Hphi.
      + intros d0 md Hd0 Hmd _. unfold store in Hmd; cbn in Hmd. unfold upd in Hmd.
        destruct (key_eqb_spec q d0) as [<- | Hne].
        * injection Hmd as <-. split; [reflexivity | cbn; lia].
        * apply (Hclos d0 md Hd0); [congruence | exact Hmd].
      + intros Hz d0 md Hd0 Hmd. unfold store in Hmd; cbn in Hmd. unfold upd in Hmd.
        destruct (key_eqb_spec q d0) as [<- | Hne].
        * exfalso. pose proof (reach_rank prog rank Hrank q q (f q Hd0)). lia.
        * apply (Hsync Hz d0 md Hd0 Hmd).
    - intros m0 Hm0 Hv0. rewrite Hm in Hm0. injection Hm0 as <-.
      split; [|cbn; lia]. intros _. unfold m'. rewrite <- Hv0. symmetry. apply reverify_same. }
  destruct Hfin as [A B]. split; [exact A|]. split; [exact B | exact HE].
Qed.

(* The durability short-cut: nothing at the memo's level was written since it was verified. *)
Lemma shortcut_ok H D s q m :
  DInv H D s -> d_memo s q = Some m ->
  lcs s (m_dur m) <= m_verified m ->
  let m' := reverify m (cur s) in
  DInv H D (store s q m') /\ dext H D s (store s q m') /\ E H (cur s) q = E H (m_verified m) q.
Proof.
  intros HI Hm Hlc.
  pose proof (inv_memo _ _ _ _ _ _ _ HI q m Hm) as Hok.
  pose proof (mo_order _ _ _ _ _ _ _ _ _ Hok) as (Ho1 & Ho2 & Ho3).
  destruct (N.eq_dec (m_verified m) (cur s)) as [Heq | Hne].
  - (* already verified now: nothing moves *)
    apply (revalidate_ok H D s q m HI Hm); rewrite <- ?Heq.
    + intros x _. reflexivity.
    + intros i _. reflexivity.
    + apply (mo_durge _ _ _ _ _ _ _ _ _ Hok).
    + apply (mo_q _ _ _ _ _ _ _ _ _ Hok).
    + apply (mo_sync _ _ _ _ _ _ _ _ _ Hok).
    + intros d md Hd Hdq Hmd.
      apply (mo_obs _ _ _ _ _ _ _ _ _ Hok d md Hd Hmd). left.
      pose proof (mo_order _ _ _ _ _ _ _ _ _ (inv_memo _ _ _ _ _ _ _ HI d md Hmd)) as (_ & A & B). lia.
  - assert (Hk : 1 <= m_dur m).
    { destruct (N.eq_dec (m_dur m) 0) as [H0 | H0]; [|lia].
      rewrite H0 in Hlc. unfold lcs in Hlc. rewrite lc_zero in Hlc. unfold cur in *. lia. }
    pose proof (stable_now prog NF fm H D F s (m_dur m) (m_verified m) HI Hlc) as Hw.
    pose proof (mo_durge _ _ _ _ _ _ _ _ _ Hok) as Hdg.
    assert (Hst : forall d, durge H D (m_verified m) (m_dur m) d ->
              tr H (cur s) d = tr H (m_verified m) d /\ E H (cur s) d = E H (m_verified m) d /\
              durge H D (cur s) (m_dur m) d).
    { intros d Hd.
      apply (durge_stable prog rank Hrank NF Hbound H D (m_dur m) (m_verified m) (cur s) d (cur s));
        [exact Hk | exact Hw | exact Hd | exact Ho3 | lia]. }
    apply (revalidate_ok H D s q m HI Hm).
    + intros x Hx. destruct x as [i | d | c |]; cbn.
      * symmetry. apply (Hw i); [apply (durge_in _ _ _ _ _ _ _ _ Hdg Hx) | lia | lia].
      * symmetry. apply (Hst d). apply (durge_q _ _ _ _ _ _ _ _ Hdg Hx).
      * exfalso. assert (m_dur m = 0); [|lia].
        apply (durge_untr _ _ _ _ _ _ _ _ Hdg Hx). right; eauto.
      * reflexivity.
    + intros i Hi. apply (Hw i); [apply (durge_in _ _ _ _ _ _ _ _ Hdg Hi) | lia | lia].
    + apply (Hst q Hdg).
    + intros _ d Hd Hn. destruct (mo_flat _ _ _ _ _ _ _ _ _ Hok) as [Hf | Hdir].
      * apply (good_never prog NF fm H D s _ _ d (m_verified m) (m_dur m) Hf Hk Ho3).
        apply (durge_q _ _ _ _ _ _ _ _ Hdg Hd).
      * exfalso. apply Hn. apply Hdir. exact Hd.
    + intros Hz. lia.
    + intros d md Hd Hdq Hmd.
      apply (clos_stable prog rank Hrank NF Hbound H D (m_dur m) (m_verified m) (cur s) q (cur s) Hk Hw Hdg Ho3 (N.le_refl _)) in Hd.
      pose proof (durge_clos _ _ _ _ _ _ _ _ Hdg Hd) as Hdd.
      destruct (mo_obs _ _ _ _ _ _ _ _ _ Hok d md Hd Hmd) as [A B];
        [right; exists (m_dur m); split; assumption|].
      split; [|exact B]. rewrite <- A. apply (Hst d Hdd).
Qed.

(* ---------------------------------------------------------------- frames *)
Record covers (s : db) (pre : list rd) (fr : frame) : Prop := {
  cv_in : forall i, In (RIn i) pre ->
          In (EIn i) (fr_edges fr) /\
          f_changed (d_in s i) <= fr_changed fr /\ fr_dur fr <= f_dur (d_in s i);
  cv_q : forall d, In (RQ d) pre ->
         exists md, d_memo s d = Some md /\ m_verified md = cur s /\ m_val md <> None /\
                    m_changed md <= fr_changed fr /\ fr_dur fr <= m_dur md /\
                    In (EQ d) (fr_edges fr);
  cv_cell : forall x, In x pre -> untr x ->
            fr_untracked fr = true /\ fr_changed fr = cur s /\ fr_dur fr = 0;
  cv_edges_q : forall d, In (EQ d) (fr_edges fr) -> In (RQ d) pre;
  cv_le : fr_changed fr <= cur s;
  cv_ge1 : 1 <= fr_changed fr;
  (* the frame's stamp is the stamp of something that was read *)
  cv_stamp : fr_changed fr <= 1 \/ exists x, In x pre /\ sle s (fr_changed fr) x;
  cv_dur3 : fr_dur fr <= 3;
  cv_untr : fr_untracked fr = true -> fr_dur fr = 0;
  (* the frame's durability is exactly the minimum over what was read *)
  cv_lb : forall k, k <= 3 ->
          (forall i, In (RIn i) pre -> k <= f_dur (d_in s i)) ->
          (forall d, In (RQ d) pre -> forall md, d_memo s d = Some md -> k <= m_dur md) ->
          (forall x, In x pre -> untr x -> k = 0) ->
          k <= fr_dur fr
}.

Lemma covers_frame0 s : 1 <= cur s -> covers s [] frame0.
Proof.
  intros Hc. constructor.
  - intros i [].
  - intros d [].
  - intros x [].
  - intros d [].
  - cbn. unfold REV_START. exact Hc.
  - cbn. unfold REV_START. lia.
  - left. cbn. unfold REV_START. lia.
  - cbn. unfold D_NEVER. lia.
  - discriminate.
  - intros k Hk _ _ _. exact Hk.
Qed.

(* what an observer g (or the query's own memo verified now) is owed about the frame's
   durability, when the new run reads what g saw *)
Lemma frame_dur_lb H D s q fr g w k :
  DInv H D s -> covers s (tr H (cur s) q) fr ->
  obs_ok H D s g w k -> clos H w g q ->
  tr H (cur s) q = tr H w q ->
  (forall i, In (RIn i) (tr H (cur s) q) -> D (cur s) i = D w i) ->
  (forall d md, In (RQ d) (tr H (cur s) q) -> d_memo s d = Some md ->
                obs_pre H D s w d md) ->
  k <= fr_dur fr.
Proof.
  intros HI Hcv Hog Hcl Htr HDi Hpre.
  pose proof (durge_clos _ _ _ _ _ _ _ _ (ob_durge _ _ _ _ _ _ _ _ Hog) Hcl) as Hdq.
  apply (cv_lb _ _ _ Hcv).
  - apply (ob_dur3 _ _ _ _ _ _ _ _ Hog).
  - intros i Hi.
    rewrite <- (inv_dur _ _ _ _ _ _ _ HI i (cur s)); [|apply (inv_in_le _ _ _ _ _ _ _ HI) | lia].
    rewrite (HDi i Hi). rewrite Htr in Hi. apply (durge_in _ _ _ _ _ _ _ _ Hdq Hi).
  - intros d Hd md Hmd. pose proof Hd as Hd'. rewrite Htr in Hd'.
    pose proof (clos_right _ _ _ _ _ _ _ Hcl Hd') as Hcd.
    apply (ob_obs _ _ _ _ _ _ _ _ Hog d md Hcd Hmd). apply Hpre; assumption.
  - intros x Hx Hu. rewrite Htr in Hx. apply (durge_untr _ _ _ _ _ _ _ _ Hdq Hx Hu).
Qed.

(* Stamps never decrease: the stamp of a completed frame is at least the stamp c that q had as
   observer at rho (its old memo, or the memo a restore dropped). *)
Lemma frame_changed_lb H D s q fr rho c k :
  DInv H D s -> covers s (tr H (cur s) q) fr ->
  obs_ok H D s q rho k -> c <= rho -> prov H s q rho c ->
  c <= fr_changed fr.
Proof.
  intros HI Hcv Hog Hcr Hpv.
  pose proof (ob_order _ _ _ _ _ _ _ _ Hog) as (Ho1 & Ho3).
  assert (Hsle : forall x, In x (tr H (cur s) q) -> sle s c x -> c <= fr_changed fr).
  { intros x Hx Hs. destruct x as [i | d | cc |]; cbn in Hs.
    - destruct (cv_in _ _ _ Hcv i Hx) as (_ & A & _). lia.
    - destruct Hs as (c' & Hc' & Hle).
      destruct (cv_q _ _ _ Hcv d Hx) as (md0 & Hmd0 & _ & _ & A & _).
      unfold LInv.phi in Hc'. rewrite Hmd0 in Hc'. injection Hc' as <-. lia.
    - destruct (cv_cell _ _ _ Hcv (RCell cc) Hx) as (_ & A & _); [right; eauto | lia].
    - destruct (cv_cell _ _ _ Hcv RTouch Hx) as (_ & A & _); [left; reflexivity | lia]. }
  destruct (first_changed_is_read_again (prog q) (envat H rho) (envat H (cur s)))
    as [Hag | (pre & x & post & Ht & _ & Hnea & post' & Ht')].
  - destruct (trace_determined _ _ _ Hag) as [Htr _].
    assert (Htr' : tr H (cur s) q = tr H rho q) by exact Htr.
    destruct Hpv as [A | (x & Hx & Hs)].
    + pose proof (cv_ge1 _ _ _ Hcv). lia.
    + apply (Hsle x); [rewrite Htr'; exact Hx | exact Hs].
  - assert (Hx : In x (tr H rho q)).
    { unfold tr, Inv.tr. rewrite Ht. apply in_or_app; right; left; reflexivity. }
    assert (Hx' : In x (tr H (cur s) q)).
    { unfold tr, Inv.tr. rewrite Ht'. apply in_or_app; right; left; reflexivity. }
    destruct x as [i | d | cc |]; cbn in Hnea.
    + destruct (cv_in _ _ _ Hcv i Hx') as (_ & A & _).
      destruct (N.le_gt_cases (f_changed (d_in s i)) rho) as [Hle | Hgt]; [|lia].
      exfalso. apply Hnea.
      rewrite (inv_in _ _ _ _ _ _ _ HI i rho Hle Ho3).
      symmetry. apply (inv_in _ _ _ _ _ _ _ HI i (cur s)); [apply (inv_in_le _ _ _ _ _ _ _ HI) | lia].
    + destruct (cv_q _ _ _ Hcv d Hx') as (md & Hmd & Hvd & _ & A & _).
      destruct (N.le_gt_cases (m_changed md) rho) as [Hle | Hgt]; [|lia].
      exfalso. apply Hnea.
      destruct (ob_obs _ _ _ _ _ _ _ _ Hog d md (clos_one _ _ _ _ _ _ Hx) Hmd) as [B _]; [left; exact Hle|].
      rewrite B, Hvd. reflexivity.
    + destruct (cv_cell _ _ _ Hcv (RCell cc) Hx') as (_ & A & _); [right; eauto | lia].
    + exfalso. apply Hnea. reflexivity.
Qed.

(* the stamp that q has now is at most the stamp of a completed frame *)
Lemma phi_frame_lb H D s q fr c0 :
  DInv H D s -> covers s (tr H (cur s) q) fr -> LInv.phi s F q = Some c0 -> c0 <= fr_changed fr.
Proof.
  intros HI Hcv Hc0. unfold LInv.phi in Hc0.
  destruct (d_memo s q) as [o|] eqn:Ho.
  - injection Hc0 as <-. pose proof (inv_memo _ _ _ _ _ _ _ HI q o Ho) as Hok.
    apply (frame_changed_lb H D s q fr (m_verified o) (m_changed o) (m_dur o) HI Hcv).
    + apply (obs_of_memo prog NF fm H D F s q o Hok).
    + pose proof (mo_order _ _ _ _ _ _ _ _ _ Hok). lia.
    + apply (mo_stamp _ _ _ _ _ _ _ _ _ Hok).
  - destruct (F q) as [[rho c]|] eqn:HF; [|discriminate]. cbn in Hc0. injection Hc0 as <-.
    destruct (inv_ghost _ _ _ _ _ _ _ HI q rho c Ho HF) as (A & B & C0).
    apply (frame_changed_lb H D s q fr rho c 0 HI Hcv B A C0).
Qed.

(* A freshly computed memo may be stored: it is ok, and every observer is served. *)
Lemma fresh_store_ok H D s q fr v ch (old : option memo) :
  DInv H D s ->
  covers s (tr H (cur s) q) fr ->
  v = E H (cur s) q ->
  d_memo s q = old ->
  (forall m0, old = Some m0 -> m_verified m0 = cur s -> m_val m0 = None) ->
  (* ch is either the frame's stamp, or the old memo's stamp when the value is unchanged and
     the durability did not decrease *)
  (ch = fr_changed fr \/
   exists o ov, old = Some o /\ m_val o = Some ov /\ ov = v /\ ch = m_changed o /\
                m_dur o <= fr_dur fr) ->
  let m' := fresh_memo v (cur s) ch fr in
  DInv H D (store s q m') /\ dext H D s (store s q m').
Proof.
  intros HI Hcv Hv Hold Hnv Hch m'.
  assert (Hch_le : ch <= cur s).
  { destruct Hch as [-> | (o & ov & Ho & _ & _ & -> & _)].
    - apply (cv_le _ _ _ Hcv).
    - subst old. pose proof (mo_order _ _ _ _ _ _ _ _ _ (inv_memo _ _ _ _ _ _ _ HI q o Ho)). lia. }
  assert (Hcur1 : 1 <= cur s) by apply (inv_cur _ _ _ _ _ _ _ HI).
  assert (HDcur : forall i, D (cur s) i = f_dur (d_in s i)).
  { intros i. apply (inv_dur _ _ _ _ _ _ _ HI); [apply (inv_in_le _ _ _ _ _ _ _ HI) | lia]. }
  (* callees of the new run: verified now *)
  assert (Hcallee : forall d, In (RQ d) (tr H (cur s) q) ->
            exists md, d_memo s d = Some md /\ m_verified md = cur s /\
                       m_changed md <= fr_changed fr /\ fr_dur fr <= m_dur md /\
                       durge H D (cur s) (m_dur md) d).
  { intros d Hd. destruct (cv_q _ _ _ Hcv d Hd) as (md & Hmd & Hvd & _ & Hcd & Hdd & _).
    exists md. conj; auto. rewrite <- Hvd.
    apply (mo_durge _ _ _ _ _ _ _ _ _ (inv_memo _ _ _ _ _ _ _ HI d md Hmd)). }
  assert (Hdg : durge H D (cur s) (fr_dur fr) q).
  { constructor.
    - intros i Hi. rewrite HDcur. apply (cv_in _ _ _ Hcv i Hi).
    - intros d Hd. destruct (Hcallee d Hd) as (md & _ & _ & _ & Hle & Hdd).
      eapply durge_mono; [exact Hle | exact Hdd].
    - intros x Hx Hu. apply (cv_cell _ _ _ Hcv x Hx Hu). }
  assert (Hmono : forall c0, LInv.phi s F q = Some c0 -> c0 <= m_changed m').
  { intros c0 Hc0. cbn [m' fresh_memo m_changed].
    destruct Hch as [-> | (o & ov & Ho & _ & _ & -> & _)].
    - apply (phi_frame_lb H D s q fr c0 HI Hcv Hc0).
    - subst old. unfold LInv.phi in Hc0. rewrite Ho in Hc0. injection Hc0 as <-. lia. }
  assert (Hch_fr : ch <= fr_changed fr).
  { destruct Hch as [-> | (o & ov & Ho & _ & _ & -> & _)]; [lia|].
    subst old. apply (phi_frame_lb H D s q fr (m_changed o) HI Hcv). unfold LInv.phi. rewrite Ho. reflexivity. }
  apply (DInv_store prog NF fm H D F s q m' HI); [reflexivity | | | | exact Hmono].
  - (* the new memo is ok *)
    constructor; cbn [m' fresh_memo m_val m_verified m_changed m_dur m_untracked m_edges]; rewrite ?cur_store.
    + lia.
    + intros x Hx. injection Hx as <-. exact Hv.
    + intros i Hi. apply (cv_in _ _ _ Hcv i Hi).
    + intros _ d Hd Hn. exfalso. apply Hn.
      destruct (cv_q _ _ _ Hcv d Hd) as (md & _ & _ & _ & _ & _ & Hin). exact Hin.
    + intros x Hx Hu. apply (cv_cell _ _ _ Hcv x Hx Hu).
    + intros d Hd. apply reach_one. apply (calls_of_trace _ _ _ (cv_edges_q _ _ _ Hcv d Hd)).
    + right. intros d Hd. destruct (cv_q _ _ _ Hcv d Hd) as (md & _ & _ & _ & _ & _ & Hin). exact Hin.
    + exact Hdg.
    + apply (cv_dur3 _ _ _ Hcv).
    + (* the stamp has a provenance in the new run *)
      destruct (cv_stamp _ _ _ Hcv) as [A | (x & Hx & Hs)]; [left; lia | right].
      exists x. split; [exact Hx|].
      apply (sle_mono s (store s q m') F ch x); [reflexivity | intros d0 c0; apply phi_store; exact Hmono|].
      destruct x as [i | d | cc |]; cbn in Hs |- *; auto.
      * lia.
      * destruct Hs as (c' & Hc' & Hle). exists c'. split; [exact Hc' | lia].
    + intros d md Hd Hmd _. unfold store in Hmd; cbn in Hmd. unfold upd in Hmd.
      destruct (key_eqb_spec q d) as [<- | Hne].
      * injection Hmd as <-. split; [reflexivity | cbn; lia].
      * assert (Hstep : exists d1, In (RQ d1) (tr H (cur s) q) /\ clos H (cur s) d1 d).
        { destruct Hd as [f | f d1 e Hin Hd1]; [contradiction | exists d1; split; assumption]. }
        destruct Hstep as (d1 & Hin1 & Hd1).
        destruct (Hcallee d1 Hin1) as (md1 & Hmd1 & Hvd1 & _ & Hle1 & _).
        destruct (obs_of_callee H D s d1 md1 d md HI Hmd1 Hvd1 Hd1 Hmd) as (HEd & Hdd).
        split; [exact HEd | lia].
    + intros _ d md Hd Hmd. unfold store in Hmd; cbn in Hmd. unfold upd in Hmd.
      pose proof (cv_edges_q _ _ _ Hcv d Hd) as Hrd.
      destruct (key_eqb_spec q d) as [<- | Hne].
      * pose proof (tr_calls prog rank Hrank NF H _ _ _ Hrd). lia.
      * destruct (cv_q _ _ _ Hcv d Hrd) as (md0 & Hmd0 & Hvd0 & _).
        rewrite Hmd in Hmd0. injection Hmd0 as <-. lia.
  - (* observers *)
    intros g w k Hog Hcl Hpre.
    pose proof (ob_order _ _ _ _ _ _ _ _ Hog) as (Hg1 & Hg3).
    pose proof (durge_clos _ _ _ _ _ _ _ _ (ob_durge _ _ _ _ _ _ _ _ Hog) Hcl) as Hdgq.
    assert (Hmdle : forall d md, d_memo s d = Some md -> m_changed md <= cur s).
    { intros d md Hmd. pose proof (mo_order _ _ _ _ _ _ _ _ _ (inv_memo _ _ _ _ _ _ _ HI d md Hmd)). lia. }
    destruct (N.eq_dec (w) (cur s)) as [Heq | Hnow].
    { (* g is verified now *)
      split; [rewrite Heq; reflexivity|].
      apply (frame_dur_lb H D s q fr g w k HI Hcv Hog Hcl); rewrite ?Heq; auto.
      intros d md _ Hmd. left. apply (Hmdle d md Hmd). }
    assert (Hlt : w < cur s) by lia.
    (* stable since v_g at some level *)
    assert (Hstable : forall k0, durge H D w k0 q -> lcs s k0 <= w ->
              E H w q = E H (cur s) q /\ k <= m_dur m').
    { intros k0 Hdk Hlck.
      assert (Hk : 1 <= k0).
      { destruct (N.eq_dec k0 0) as [-> | H0]; [|lia].
        unfold lcs in Hlck. rewrite lc_zero in Hlck. unfold cur in *. lia. }
      pose proof (stable_now prog NF fm H D F s k0 w HI Hlck) as Hw.
      destruct (durge_stable prog rank Hrank NF Hbound H D k0 w (cur s) q (cur s) Hk Hw Hdk Hg3 (N.le_refl _))
        as (Htr & HE & _).
      split; [symmetry; exact HE|].
      apply (frame_dur_lb H D s q fr g w k HI Hcv Hog Hcl Htr).
      - intros i Hi. rewrite Htr in Hi.
        apply (Hw i); [apply (durge_in _ _ _ _ _ _ _ _ Hdk Hi) | lia | lia].
      - intros d md Hd _. rewrite Htr in Hd. right. exists k0.
        split; [apply (durge_q _ _ _ _ _ _ _ _ Hdk Hd) | exact Hlck]. }
    destruct Hpre as [Hle | (k0 & Hdk & Hlck)]; [|apply (Hstable k0 Hdk Hlck)].
    cbn [m' fresh_memo m_changed] in Hle.
    destruct Hch as [-> | (o & ov & Ho & Hov & Heq & -> & Hdo)].
    + (* not backdated: every read of the new run has a stamp <= v_g *)
      assert (Hsame_ans : forall x, In x (tr H (cur s) q) -> In x (tr H (w) q) ->
                answer (envat H (cur s)) x = answer (envat H (w)) x).
      { intros x Hx Hx'. destruct x as [i | d | c |]; cbn.
        - destruct (cv_in _ _ _ Hcv i Hx) as (_ & Hst & _).
          rewrite (inv_in _ _ _ _ _ _ _ HI i (cur s)); [|apply (inv_in_le _ _ _ _ _ _ _ HI) | lia].
          rewrite (inv_in _ _ _ _ _ _ _ HI i (w)); [reflexivity | lia | lia].
        - destruct (cv_q _ _ _ Hcv d Hx) as (md & Hmd & Hvd & _ & Hcd & _).
          pose proof (clos_right _ _ _ _ _ _ _ Hcl Hx') as Hcd'.
          destruct (ob_obs _ _ _ _ _ _ _ _ Hog d md Hcd' Hmd) as [A _]; [left; lia|].
          rewrite A, Hvd. reflexivity.
        - destruct (cv_cell _ _ _ Hcv (RCell c) Hx) as (_ & Hcc & _); [right; eauto | lia].
        - reflexivity. }
      assert (Hag : agree_on (envat H (cur s)) (envat H (w)) (tr H (cur s) q)).
      { destruct (first_changed_is_read_again (prog q) (envat H (cur s)) (envat H (w)))
          as [Hag | (pre & x & post & Ht & _ & Hnea & post' & Ht')]; [exact Hag|].
        exfalso. apply Hnea. apply Hsame_ans.
        - unfold tr, Inv.tr. rewrite Ht. apply in_or_app; right; left; reflexivity.
        - unfold tr, Inv.tr. rewrite Ht'. apply in_or_app; right; left; reflexivity. }
      destruct (trace_determined _ _ _ Hag) as [Htr Hrun].
      assert (Htr' : tr H (cur s) q = tr H (w) q) by (symmetry; exact Htr).
      split; [rewrite !(E_unfold prog rank Hrank NF Hbound); exact Hrun|].
      apply (frame_dur_lb H D s q fr g w k HI Hcv Hog Hcl Htr').
      * intros i Hi. destruct (cv_in _ _ _ Hcv i Hi) as (_ & Hst & _).
        rewrite HDcur. symmetry. apply (inv_dur _ _ _ _ _ _ _ HI); lia.
      * intros d md Hd Hmd. destruct (cv_q _ _ _ Hcv d Hd) as (md0 & Hmd0 & _ & _ & Hcd & _).
        rewrite Hmd in Hmd0. injection Hmd0 as <-. left. lia.
    + (* backdated: the value equals the old one, the durability did not decrease *)
      subst old.
      destruct (ob_obs _ _ _ _ _ _ _ _ Hog q o Hcl Ho) as [A B]; [left; exact Hle|].
      split; [|cbn; lia].
      rewrite A. rewrite <- (mo_val _ _ _ _ _ _ _ _ _ (inv_memo _ _ _ _ _ _ _ HI q o Ho) ov Hov).
      rewrite Heq. exact Hv.
  - (* the query's own memo, if it was verified now (and evicted) *)
    intros m0 Hm0 Hv0.
    split; [intros Hx; exfalso; apply Hx; apply Hnv; [congruence | exact Hv0]|].
    cbn [m' fresh_memo m_dur].
    apply (frame_dur_lb H D s q fr q (m_verified m0) (m_dur m0) HI Hcv
             (obs_of_memo prog NF fm H D F s q m0 (inv_memo _ _ _ _ _ _ _ HI q m0 Hm0))); rewrite ?Hv0; auto.
    + apply clos_refl.
    + intros d md _ Hmd. left.
      pose proof (mo_order _ _ _ _ _ _ _ _ _ (inv_memo _ _ _ _ _ _ _ HI d md Hmd)). lia.
Qed.

(* ---------------------------------------------------------------- the edge walk succeeded *)
Lemma edge_in_dec (e : edge) (L : list edge) : {In e L} + {~ In e L}.
Proof. apply in_dec. repeat decide equality. Qed.

(* What the walk (from state s0 to state s) established about an edge of q's memo m:
   an input field has an old stamp; a function has a memo that is verified now, every observer
   of the state the walk started in, at a revision >= verified_at, that has it in its closure
   saw the value it has now, and if q itself has it in its closure its recorded durability is
   above the memo's. *)
Definition leaf_ok H D (s0 s : db) (q : qkey) (m : memo) (e : edge) : Prop :=
  match e with
  | EIn i => f_changed (d_in s i) <= m_verified m
  | EQ d =>
      (exists md, d_memo s d = Some md /\ m_verified md = cur s) /\
      (forall g w k, obs_ok H D s0 g w k -> m_verified m <= w -> clos H w g d ->
                     E H w d = E H (cur s) d) /\
      (clos H (m_verified m) q d ->
         durge H D (cur s) (m_dur m) d /\ exists md, d_memo s d = Some md /\ m_dur m <= m_dur md)
  end.

Section Walked.
Variables (H : hist) (D : dhist) (s0 s : db) (q : qkey) (m : memo).
Hypothesis HI0 : DInv H D s0.
Hypothesis HI : DInv H D s.
Hypothesis Hext : dext H D s0 s.
Hypothesis Hm0 : d_memo s0 q = Some m.
Hypothesis Hm : d_memo s q = Some m.
Hypothesis Hu : m_untracked m = false.
Hypothesis Hleaf : forall e, In e (m_edges m) -> leaf_ok H D s0 s q m e.
Let v := m_verified m.
Let L := m_edges m.
Let c := cur s.

Let Hcur : cur s0 = c.
Proof. symmetry. apply (dext_cur _ _ _ _ _ _ _ Hext). Qed.

Let in_same i w : In (EIn i) L -> v <= w -> w <= c ->
  sn_in (H w) i = sn_in (H c) i /\ D w i = D c i.
Proof.
  intros Hi Hv Hw. pose proof (Hleaf _ Hi) as Hle. cbn in Hle. fold v in Hle.
  pose proof (inv_in_le _ _ _ _ _ _ _ HI i) as Hic. fold c in Hic.
  split.
  - rewrite (inv_in _ _ _ _ _ _ _ HI i w); [|lia | exact Hw].
    symmetry. apply (inv_in _ _ _ _ _ _ _ HI i c); [exact Hic | apply N.le_refl].
  - rewrite (inv_dur _ _ _ _ _ _ _ HI i w); [|lia | exact Hw].
    symmetry. apply (inv_dur _ _ _ _ _ _ _ HI i c); [exact Hic | apply N.le_refl].
Qed.

(* a dependency that was flattened away looks now as it looked to every observer *)
Definition seen_as_now (d : qkey) : Prop :=
  forall g w k, obs_ok H D s0 g w k -> v <= w -> clos H w g d ->
    tr H w d = tr H c d /\ E H w d = E H c d.

Lemma good_seen : forall n d, (rank d < n)%nat -> good H D s0 L v d -> seen_as_now d.
Proof.
  induction n as [|n IH]; intros d Hn Hg; [inversion Hn|].
  inversion Hg as [d0 a k Hf Hk Ha Hd | d0 rho k Ho Hv Hun Hi Hq]; subst d0.
  - intros g w k' _ _ _.
    pose proof (inv_lowD _ _ _ _ _ _ _ HI Hf) as HD0.
    destruct (low_never H D a k HD0 Hk (S (rank d)) d (le_n _) Hd w) as (A1 & A2 & _).
    destruct (low_never H D a k HD0 Hk (S (rank d)) d (le_n _) Hd c) as (B1 & B2 & _).
    split; congruence.
  - pose proof (ob_order _ _ _ _ _ _ _ _ Ho) as (Hr1 & Hr2). rewrite Hcur in Hr2.
    assert (Hchild : forall d' g w k', In (RQ d') (tr H rho d) -> obs_ok H D s0 g w k' -> v <= w ->
               clos H w g d' -> E H w d' = E H c d').
    { intros d' g w k' Hd' Hog Hvw Hcl.
      pose proof (tr_calls prog rank Hrank NF H _ _ _ Hd') as Hrk.
      destruct (edge_in_dec (EQ d') L) as [HinL | HnL].
      - destruct (Hleaf _ HinL) as (_ & A & _). apply (A g w k' Hog Hvw Hcl).
      - apply (IH d' ltac:(lia) (Hq d' Hd' HnL) g w k' Hog Hvw Hcl). }
    (* its own revision *)
    assert (Hown : tr H c d = tr H rho d /\ E H c d = E H rho d).
    { apply same_run. intros x Hx. destruct x as [i | d' | cc |]; cbn.
      - apply (in_same i rho (Hi i Hx) Hv Hr2).
      - apply (Hchild d' d rho k Hx Ho Hv). apply clos_one. exact Hx.
      - exfalso. apply (Hun _ Hx). right; eauto.
      - reflexivity. }
    destruct Hown as [Htr HE].
    intros g w k' Hog Hvw Hcl.
    pose proof (ob_order _ _ _ _ _ _ _ _ Hog) as (Hw1 & Hw2). rewrite Hcur in Hw2.
    apply same_run_common. intros x Hx Hx'. rewrite Htr in Hx.
    destruct x as [i | d' | cc |]; cbn.
    + symmetry. apply (in_same i w (Hi i Hx) Hvw Hw2).
    + symmetry. apply (Hchild d' g w k' Hx Hog Hvw). eapply clos_right; eassumption.
    + exfalso. apply (Hun _ Hx). right; eauto.
    + reflexivity.
Qed.

Let Hok0 : dmemo_ok H D s0 q m := inv_memo _ _ _ _ _ _ _ HI0 q m Hm0.
Let Hobq : obs_ok H D s0 q v (m_dur m) := obs_of_memo prog NF fm H D F s0 q m Hok0.

Lemma walked_read d : In (RQ d) (tr H v q) -> E H v d = E H c d.
Proof.
  intros Hd. destruct (edge_in_dec (EQ d) L) as [HinL | HnL].
  - destruct (Hleaf _ HinL) as (_ & A & _). apply (A q v (m_dur m) Hobq (N.le_refl _)).
    apply clos_one. exact Hd.
  - apply (good_seen (S (rank d)) d (le_n _) (mo_q _ _ _ _ _ _ _ _ _ Hok0 Hu d Hd HnL)
             q v (m_dur m) Hobq (N.le_refl _)).
    apply clos_one. exact Hd.
Qed.

Lemma walked_agree : agree_on (envat H v) (envat H c) (tr H v q).
Proof.
  pose proof (mo_order _ _ _ _ _ _ _ _ _ Hok0) as (Ho1 & Ho2 & Ho3). fold v in Ho1, Ho3. rewrite Hcur in Ho3.
  intros x Hx. destruct x as [i | d | cc |]; cbn.
  - apply (in_same i v (mo_in _ _ _ _ _ _ _ _ _ Hok0 i Hx) (N.le_refl _) Ho3).
  - apply walked_read. exact Hx.
  - rewrite (mo_reads_cell _ _ _ _ _ _ _ _ _ Hok0 (RCell cc) Hx) in Hu; [discriminate | right; eauto].
  - reflexivity.
Qed.

Lemma walked_tr : tr H c q = tr H v q /\ E H c q = E H v q.
Proof. apply same_run. exact walked_agree. Qed.

(* what is below a flattened dependency: every memo there has the value of now *)
Lemma below_good : forall n x, (rank x < n)%nat -> good H D s0 L v x -> clos H v q x ->
  forall d md, clos H c x d -> d_memo s d = Some md -> E H c d = E H (m_verified md) d.
Proof.
  induction n as [|n IH]; intros x Hn Hg Hqx d md Hcl Hmd; [inversion Hn|].
  pose proof (mo_order _ _ _ _ _ _ _ _ _ (inv_memo _ _ _ _ _ _ _ HI d md Hmd)) as (Hmo1 & Hmo2 & Hmo3).
  fold c in Hmo3.
  inversion Hg as [d0 a k Hf Hk Ha Hd | d0 rho k Ho Hv Hun Hi Hq]; subst d0.
  - (* no input below x *)
    pose proof (inv_lowD _ _ _ _ _ _ _ HI Hf) as HD0.
    destruct (low_never H D a k HD0 Hk (S (rank x)) x (le_n _) Hd c) as (_ & _ & H3).
    pose proof (durge_clos _ _ _ _ _ _ _ _ H3 Hcl) as H3d.
    assert (H13 : 1 <= 3) by lia.
    destruct (low_never H D c 3 HD0 H13 (S (rank d)) d (le_n _) H3d (m_verified md)) as (_ & A & _).
    symmetry. exact A.
  - pose proof (good_seen (S (rank x)) x (le_n _) Hg) as Hseen.
    destruct (Hseen q v (m_dur m) Hobq (N.le_refl _) Hqx) as [Htrv HEv].
    destruct (Hseen x rho k Ho Hv (clos_refl _ _ _ _ _)) as [Htrr HEr].
    inversion Hcl as [f | f d1 e Hin Hd1]; subst.
    + (* the dependency's own memo *)
      destruct (N.eq_dec (m_verified md) c) as [-> | Hnc]; [reflexivity|].
      assert (Hmd0 : d_memo s0 d = Some md).
      { apply (ext_old _ _ _ _ _ _ _ Hext d md Hmd). rewrite Hcur. lia. }
      pose proof (inv_memo _ _ _ _ _ _ _ HI0 d md Hmd0) as Hokd.
      destruct (N.le_gt_cases (m_verified md) v) as [Hle | Hgt].
      * destruct (mo_obs _ _ _ _ _ _ _ _ _ Hok0 d md Hqx Hmd0) as [A _]; [left; fold v; lia|].
        fold v in A. rewrite <- A. symmetry. exact HEv.
      * destruct (Hseen d (m_verified md) (m_dur md) (obs_of_memo prog NF fm H D F s0 d md Hokd))
          as [_ A]; [lia | apply clos_refl|]. symmetry. exact A.
    + rewrite <- Htrr in Hin.
      destruct (edge_in_dec (EQ d1) L) as [HinL | HnL].
      * destruct (Hleaf _ HinL) as ((md1 & Hmd1 & Hv1) & _ & _).
        apply (obs_of_callee H D s d1 md1 d md HI Hmd1 Hv1 Hd1 Hmd).
      * pose proof (tr_calls prog rank Hrank NF H _ _ _ Hin) as Hrk.
        apply (IH d1 ltac:(lia) (Hq d1 Hin HnL)); [|exact Hd1 | exact Hmd].
        eapply clos_right; [exact Hqx|]. rewrite Htrv, <- Htrr. exact Hin.
Qed.

(* the flattened dependencies are covered from now on: they are observers at the current revision *)
Lemma reroot : forall n x, (rank x < n)%nat -> good H D s0 L v x -> clos H v q x ->
  good H D s L c x.
Proof.
  induction n as [|n IH]; intros x Hn Hg Hqx; [inversion Hn|].
  inversion Hg as [d0 a k Hf Hk Ha Hd | d0 rho k Ho Hv Hun Hi Hq]; subst d0.
  - apply (good_never prog NF fm H D s L c x a k Hf Hk); [rewrite Hcur in Ha; exact Ha | exact Hd].
  - pose proof (good_seen (S (rank x)) x (le_n _) Hg) as Hseen.
    destruct (Hseen q v (m_dur m) Hobq (N.le_refl _) Hqx) as [Htrv HEv].
    destruct (Hseen x rho k Ho Hv (clos_refl _ _ _ _ _)) as [Htrr HEr].
    apply (good_exp prog NF fm H D s L c x c 0).
    + constructor.
      * split; [apply (inv_cur _ _ _ _ _ _ _ HI) | apply N.le_refl].
      * apply (durge_zero prog rank Hrank NF H D).
      * lia.
      * intros d md Hcl Hmd _. split; [|lia].
        apply (below_good (S (rank x)) x (le_n _) Hg Hqx d md Hcl Hmd).
    + apply N.le_refl.
    + intros y Hy. rewrite <- Htrr in Hy. apply (Hun y Hy).
    + intros i Hi0. rewrite <- Htrr in Hi0. apply (Hi i Hi0).
    + intros d' Hd' HnL. rewrite <- Htrr in Hd'.
      pose proof (tr_calls prog rank Hrank NF H _ _ _ Hd') as Hrk.
      apply (IH d' ltac:(lia) (Hq d' Hd' HnL)).
      eapply clos_right; [exact Hqx|]. rewrite Htrv, <- Htrr. exact Hd'.
Qed.

End Walked.

(* Every recorded edge is unchanged since the memo was verified: the memo may be marked
   verified now.  The memo's durability is LOW, or its edges are its direct reads. *)
Lemma deep_ok H D s0 s q m :
  DInv H D s0 -> DInv H D s -> dext H D s0 s ->
  d_memo s0 q = Some m -> d_memo s q = Some m -> m_untracked m = false ->
  (m_dur m = 0 \/ forall d, In (RQ d) (tr H (m_verified m) q) -> In (EQ d) (m_edges m)) ->
  (forall e, In e (m_edges m) -> leaf_ok H D s0 s q m e) ->
  let m' := reverify m (cur s) in
  DInv H D (store s q m') /\ dext H D s (store s q m') /\ E H (cur s) q = E H (m_verified m) q.
Proof.
  intros HI0 HI Hext Hm0 Hm Hu Hflat Hleaf.
  pose proof (inv_memo _ _ _ _ _ _ _ HI0 q m Hm0) as Hok0.
  pose proof (mo_order _ _ _ _ _ _ _ _ _ Hok0) as (Ho1 & Ho2 & Ho3).
  pose proof (mo_durge _ _ _ _ _ _ _ _ _ Hok0) as Hdg.
  assert (Hcur : cur s0 = cur s) by (symmetry; apply (dext_cur _ _ _ _ _ _ _ Hext)).
  rewrite Hcur in Ho3.
  pose proof (walked_agree H D s0 s q m HI0 HI Hext Hm0 Hu Hleaf) as Hag.
  destruct (walked_tr H D s0 s q m HI0 HI Hext Hm0 Hu Hleaf) as [Htr HE].
  assert (Hinc : forall i, In (RIn i) (tr H (m_verified m) q) -> D (cur s) i = D (m_verified m) i).
  { intros i Hi. pose proof (Hleaf _ (mo_in _ _ _ _ _ _ _ _ _ Hok0 i Hi)) as Hle. cbn in Hle.
    rewrite (inv_dur _ _ _ _ _ _ _ HI i (m_verified m) Hle Ho3).
    apply (inv_dur _ _ _ _ _ _ _ HI i (cur s)); [apply (inv_in_le _ _ _ _ _ _ _ HI) | lia]. }
  apply (revalidate_ok H D s q m HI Hm Hag Hinc).
  - (* the level now *)
    constructor; rewrite Htr.
    + intros i Hi. rewrite (Hinc i Hi). apply (durge_in _ _ _ _ _ _ _ _ Hdg Hi).
    + intros d Hd. destruct Hflat as [Hz | Hdir].
      * rewrite Hz. apply (durge_zero prog rank Hrank NF H D).
      * destruct (Hleaf _ (Hdir d Hd)) as (_ & _ & C). apply C. apply clos_one. exact Hd.
    + intros x Hx Hux. apply (durge_untr _ _ _ _ _ _ _ _ Hdg Hx Hux).
  - (* the cover from now on *)
    intros _ d Hd HnL. destruct Hflat as [Hz | Hdir]; [|exfalso; apply HnL; apply Hdir; exact Hd].
    apply (reroot H D s0 s q m HI0 HI Hext Hm0 Hleaf (S (rank d)) d (le_n _)
             (mo_q _ _ _ _ _ _ _ _ _ Hok0 Hu d Hd HnL)).
    apply clos_one. exact Hd.
  - intros _ d md Hd Hmd. destruct (Hleaf _ Hd) as ((md' & Hmd' & Hv') & _).
    rewrite Hmd in Hmd'. injection Hmd' as <-. lia.
  - (* everything below *)
    intros d md Hcl Hdq Hmd.
    inversion Hcl as [f | f d1 e Hin Hd1]; subst; [contradiction|].
    rewrite Htr in Hin.
    destruct (edge_in_dec (EQ d1) (m_edges m)) as [HinL | HnL].
    + destruct (Hleaf _ HinL) as ((md1 & Hmd1 & Hv1) & _ & C).
      destruct (obs_of_callee H D s d1 md1 d md HI Hmd1 Hv1 Hd1 Hmd) as (HEd & Hdd).
      split; [exact HEd|].
      destruct Hflat as [Hz | Hdir]; [lia|].
      destruct (C (clos_one _ _ _ _ _ _ Hin)) as (_ & md1' & Hmd1' & Hle).
      rewrite Hmd1 in Hmd1'. injection Hmd1' as <-. lia.
    + destruct Hflat as [Hz | Hdir]; [|exfalso; apply HnL; apply Hdir; exact Hin].
      split; [|lia].
      apply (below_good H D s0 s q m HI0 HI Hext Hm0 Hleaf (S (rank d1)) d1 (le_n _)
               (mo_q _ _ _ _ _ _ _ _ _ Hok0 Hu d1 Hin HnL) (clos_one _ _ _ _ _ _ Hin) d md Hd1 Hmd).
Qed.

End Sem.

(* Persist/LInvTop.v — port of Core/DInvTop.v (and the eviction facts of Core/InvTop.v): the
   invariant across the API operations of the persist-mode model other than restore (new
   revisions, writes that report the OLD durability and install the new one, synthetic writes,
   eviction, reads, snapshots — which do not touch the database). *)
From Salsa Require Import Base.
From Salsa.Kern Require Import CoreK CoreKFacts.
From Salsa.Core Require Import Model Spec SpecProofs Inv DurSem.
From Salsa.Core Require InvTop.
From Salsa.Persist Require Import Model PSem PWp LInv LInvSem LInvOps.

Notation extend := Salsa.Core.InvTop.extend.
Notation extend_same := Salsa.Core.InvTop.extend_same.
Notation extend_other := Salsa.Core.InvTop.extend_other.
Notation snap_eq := Salsa.Core.InvTop.snap_eq.

Ltac conj := repeat match goal with |- _ /\ _ => split end.

(* ---------------------------------------------------------------- eviction only forgets values *)
Definition evicted_from (mm mm' : qkey -> option memo) : Prop :=
  forall q, mm' q = mm q \/ exists m, mm q = Some m /\ mm' q = Some (evict_memo m).

Lemma evict_memo_idem m : evict_memo (evict_memo m) = evict_memo m.
Proof. unfold evict_memo. destruct (m_untracked m) eqn:Hu; [rewrite Hu; reflexivity | reflexivity]. Qed.

Lemma evicted_refl mm : evicted_from mm mm.
Proof. intros q; left; reflexivity. Qed.

Lemma evicted_trans a b c : evicted_from a b -> evicted_from b c -> evicted_from a c.
Proof.
  intros Hab Hbc q. destruct (Hab q) as [Hq | (m & Hm & Hq)], (Hbc q) as [Hq' | (m' & Hm' & Hq')].
  - left; congruence.
  - right. exists m'. split; congruence.
  - right. exists m. split; congruence.
  - right. exists m. split; [exact Hm|]. rewrite Hq', Hq in *. injection Hm' as <-.
    rewrite evict_memo_idem. reflexivity.
Qed.

Lemma evict_keys_evicted fam ks : forall mm, evicted_from mm (evict_keys fam ks mm).
Proof.
  unfold evict_keys. induction ks as [|k ks IH]; intros mm; cbn [fold_left].
  - apply evicted_refl.
  - eapply evicted_trans; [|apply IH].
    intros q. destruct (mm (fam, k)) as [m|] eqn:Hm; [|left; reflexivity].
    unfold upd. destruct (key_eqb_spec (fam, k) q) as [<- | Hne]; [|left; reflexivity].
    right. exists m. split; [exact Hm | reflexivity].
Qed.

(* what an eviction pass leaves alone *)
Record same_but_memos (s s' : db) : Prop := {
  sb_revs : d_revs s' = d_revs s;
  sb_in : d_in s' = d_in s;
  sb_cell : d_cell s' = d_cell s;
  sb_pcell : d_pcell s' = d_pcell s;
  sb_init : d_init s' = d_init s;
  sb_stack : d_stack s' = d_stack s;
  sb_memo : evicted_from (d_memo s) (d_memo s')
}.

Lemma sbm_refl s : same_but_memos s s.
Proof. constructor; auto using evicted_refl. Qed.

Lemma sbm_trans a b c : same_but_memos a b -> same_but_memos b c -> same_but_memos a c.
Proof.
  intros [a1 a2 a3 a4 a5 a6 a7] [b1 b2 b3 b4 b5 b6 b7]. constructor; try congruence.
  eapply evicted_trans; eassumption.
Qed.

Lemma evict_all_sbm : forall fs s, same_but_memos s (evict_all fs s).
Proof.
  unfold evict_all. induction fs as [|f fs IH]; intros s; cbn [fold_left].
  - apply sbm_refl.
  - eapply sbm_trans; [|apply IH].
    destruct (lru_evict (d_lru s f)) as [ev l'].
    constructor; try reflexivity. cbn. apply evict_keys_evicted.
Qed.

Section Top.
Variable uprog : qkey -> body.
Let prog : qkey -> CM.body := tprog uprog.
Variable noeq : qkey -> bool.
Variable fams : list N.
Variable rank : qkey -> nat.
Hypothesis Hrank : calls_below prog rank.
Variable NF : nat.
Hypothesis Hbound : forall q, (rank q < NF)%nat.
Variable fm : bool.
Notation E := (E prog NF).
Notation tr := (tr prog NF).
Notation durge := (durge prog NF).
Notation clos := (clos prog NF).
Notation dmemo_ok := (dmemo_ok prog NF fm).
Notation DInv := (DInv prog NF fm).
Notation obs_pre := (obs_pre prog NF).
Notation obs_ok := (obs_ok prog NF).
Notation good := (good prog NF fm).
Notation E_hist_eq := (Salsa.Core.InvTop.E_hist_eq).
Notation tr_hist_eq := (Salsa.Core.InvTop.tr_hist_eq).

(* ---------------------------------------------------------------- durability histories *)
Definition extendD (D : dhist) (c : rev) (f : ikey -> dur) : dhist :=
  fun r => if r =? c then f else D r.

Lemma extendD_same D c f : extendD D c f c = f.
Proof. unfold extendD. rewrite N.eqb_refl. reflexivity. Qed.

Lemma extendD_other D c f r : r <> c -> extendD D c f r = D r.
Proof. unfold extendD. intros Hne. apply N.eqb_neq in Hne. rewrite Hne. reflexivity. Qed.

Definition durs_of (s : db) : ikey -> dur := fun i => f_dur (d_in s i).

(* ---------------------------------------------------------------- eviction keeps everything but values *)
Definition memo_sim (m m' : memo) : Prop :=
  m_verified m' = m_verified m /\ m_changed m' = m_changed m /\ m_dur m' = m_dur m /\
  m_untracked m' = m_untracked m /\ (forall e, In e (m_edges m') <-> In e (m_edges m)) /\
  (forall x, m_val m' = Some x -> m_val m = Some x).

Lemma memo_sim_refl m : memo_sim m m.
Proof. repeat split; auto. Qed.

(* the memo table of s' is, up to [memo_sim], a sub-table of the one of s: memos may lose their
   value (eviction), whole memos may disappear (a restored database has no memos of
   non-persisted functions and no value-less ones) *)
Definition sub_sim (mm mm' : qkey -> option memo) : Prop :=
  forall q m', mm' q = Some m' -> exists m, mm q = Some m /\ memo_sim m m'.

Lemma memo_sim_evict m : memo_sim m (evict_memo m).
Proof.
  unfold evict_memo. destruct (m_untracked m) eqn:Hu; [apply memo_sim_refl|].
  repeat split; cbn; auto. discriminate.
Qed.

Lemma evicted_fwd mm mm' q m : evicted_from mm mm' -> mm q = Some m ->
  exists m', mm' q = Some m' /\ memo_sim m m'.
Proof.
  intros Hev Hm. destruct (Hev q) as [Heq | (m0 & Hm0 & Heq)].
  - exists m. split; [congruence | apply memo_sim_refl].
  - rewrite Hm in Hm0. injection Hm0 as <-. exists (evict_memo m). split; [exact Heq | apply memo_sim_evict].
Qed.

Lemma evicted_bwd mm mm' q m' : evicted_from mm mm' -> mm' q = Some m' ->
  exists m, mm q = Some m /\ memo_sim m m'.
Proof.
  intros Hev Hm'. destruct (Hev q) as [Heq | (m0 & Hm0 & Heq)].
  - exists m'. split; [congruence | apply memo_sim_refl].
  - rewrite Heq in Hm'. injection Hm' as <-. exists m0. split; [exact Hm0 | apply memo_sim_evict].
Qed.

Lemma evicted_sub_sim mm mm' : evicted_from mm mm' -> sub_sim mm mm'.
Proof. intros Hev q m' Hm'. exact (evicted_bwd mm mm' q m' Hev Hm'). Qed.

(* the same without the edges: stamps and durability are kept, values may be lost *)
Definition core_sim (m m' : memo) : Prop :=
  m_verified m' = m_verified m /\ m_changed m' = m_changed m /\ m_dur m' = m_dur m /\
  (forall x, m_val m' = Some x -> m_val m = Some x).

Definition sub_core (mm mm' : qkey -> option memo) : Prop :=
  forall q m', mm' q = Some m' -> exists m, mm q = Some m /\ core_sim m m'.

Lemma sub_sim_core mm mm' : sub_sim mm mm' -> sub_core mm mm'.
Proof.
  intros Hs q m' Hm'. destruct (Hs q m' Hm') as (m & Hm & (A & B & C & _ & _ & F)).
  exists m. split; [exact Hm | repeat split; assumption].
Qed.

(* ---------------------------------------------------------------- the invariant modulo cells *)
Definition DInv_d (H : hist) (D : dhist) (F : ghost) (s : db) : Prop :=
  DInv H D F (set_cell s (sn_cell (H (cur s)))).

(* the ghost stamps after memos of s were dropped: what they had *)
Definition lift (s : db) (F : ghost) : ghost :=
  fun d => match d_memo s d with
           | Some md => Some (m_verified md, m_changed md)
           | None => F d
           end.

(* the clauses of a memo that speak about its edges *)
Record edges_ok (H : hist) (D : dhist) (s : db) (q : qkey) (m : memo) : Prop := {
  eo_in : forall i, In (RIn i) (tr H (m_verified m) q) -> In (EIn i) (m_edges m);
  eo_q : m_untracked m = false ->
         forall d, In (RQ d) (tr H (m_verified m) q) -> ~ In (EQ d) (m_edges m) ->
         good H D s (m_edges m) (m_verified m) d;
  eo_cell : forall x, In x (tr H (m_verified m) q) -> untr x -> m_untracked m = true;
  eo_reach : forall d, In (EQ d) (m_edges m) -> reach prog q d;
  eo_flat : fm = true \/ forall d, In (RQ d) (tr H (m_verified m) q) -> In (EQ d) (m_edges m);
  eo_sync : m_dur m = 0 -> forall d md, In (EQ d) (m_edges m) -> d_memo s d = Some md ->
            m_verified m <= m_verified md
}.

Lemma edges_ok_of H D F s q m : dmemo_ok H D F s q m -> edges_ok H D s q m.
Proof. intros [a b c d e f g h i st j k]. constructor; assumption. Qed.

(* ---------------------------------------------------------------- from s under (H, D) to s' under (H', D') *)
Section Transfer.
Variables (H : hist) (D : dhist) (F : ghost) (H' : hist) (D' : dhist) (s s' : db).
Hypothesis HI : DInv_d H D F s.
Hypothesis Hc : cur s <= cur s'.
Hypothesis Hlc : forall k, lcs s k <= lcs s' k.
Hypothesis Hsub : sub_core (d_memo s) (d_memo s').
(* the past is kept *)
Hypothesis Hpast : forall r, r <= cur s -> H' r = H r /\ forall i, D' r i = D r i.

Let Hver : forall q m, d_memo s q = Some m -> m_verified m <= cur s.
Proof.
  intros q m Hm. pose proof (mo_order _ _ _ _ _ _ _ _ _ (inv_memo _ _ _ _ _ _ _ HI q m Hm)) as (_ & _ & A).
  exact A.
Qed.

Let sd := set_cell s (sn_cell (H (cur s))).

Let obs_s g w k : obs_ok H D sd g w k -> obs_ok H D s g w k.
Proof. apply (obs_ok_same prog NF H D sd s); reflexivity. Qed.

Let good_s L v d : good H D sd L v d -> good H D s L v d.
Proof.
  apply (good_mono prog NF fm H D sd s); [apply N.le_refl|].
  intros g w k. apply obs_s.
Qed.

Lemma obs_transfer g w k : obs_ok H D s g w k -> obs_ok H' D' s' g w k.
Proof.
  intros [a b c d]. destruct a as [a1 a2]. destruct (Hpast w a2) as [HHw HDw].
  constructor.
  - lia.
  - apply (durge_hist_eq prog NF H D H' D'); assumption.
  - exact c.
  - intros d1 md' Hd1 Hmd' Hp. apply (clos_hist_eq prog NF H' H) in Hd1; [|symmetry; exact HHw].
    destruct (Hsub d1 md' Hmd') as (md & Hmd & (T1 & T2 & T3 & _)).
    rewrite T1, T3.
    destruct (Hpast (m_verified md) (Hver d1 md Hmd)) as [HHd _].
    rewrite (E_hist_eq prog NF H H' _ d1 HHw), (E_hist_eq prog NF H H' _ d1 HHd).
    apply (d d1 md Hd1 Hmd). destruct Hp as [Hp | (k0 & Hk & Hlk)].
    + left. rewrite <- T2. exact Hp.
    + right. exists k0. split.
      * apply (durge_hist_eq prog NF H' D' H D); [symmetry; exact HHw | intros i; symmetry; apply HDw | exact Hk].
      * specialize (Hlc k0). lia.
Qed.

Lemma good_transfer L L' v d :
  (forall e, In e L -> In e L') -> good H D s L v d -> good H' D' s' L' v d.
Proof.
  intros Hinc Hg. induction Hg as [d a k Hf Hk Ha Hd | d rho k Ho Hv Hu Hi Hq IH].
  - destruct (Hpast a Ha) as [HHa HDa].
    apply (good_never prog NF fm H' D' s' L' v d a k Hf Hk); [lia|].
    apply (durge_hist_eq prog NF H D H' D'); assumption.
  - pose proof (ob_order _ _ _ _ _ _ _ _ Ho) as (_ & Hr2).
    destruct (Hpast rho Hr2) as [HHr _].
    apply (good_exp prog NF fm H' D' s' L' v d rho k);
      rewrite ?(tr_hist_eq prog NF H H' _ d HHr); auto.
    apply obs_transfer. exact Ho.
Qed.

(* a memo with the same edges (as a set) and the same origin kind *)
Lemma edges_sim q m m' :
  d_memo s q = Some m -> memo_sim m m' ->
  (forall d md', In (EQ d) (m_edges m') -> d_memo s' d = Some md' ->
     exists md, d_memo s d = Some md /\ m_verified md' = m_verified md) ->
  edges_ok H' D' s' q m'.
Proof.
  intros Hm (S1 & S2 & S3 & S4 & S5 & S6) Hd.
  pose proof (inv_memo _ _ _ _ _ _ _ HI q m Hm) as Hok.
  destruct (Hpast (m_verified m) (Hver q m Hm)) as [HHv HDv].
  destruct Hok as [a0 b0 c0 d0 e0 f0 g0 h0 i0 st0 j0 k0].
  constructor; rewrite ?S1, ?S3, ?S4, ?(tr_hist_eq prog NF H H' _ q HHv); auto.
  - intros i Hi. apply S5. apply c0. exact Hi.
  - intros Hu0 d1 Hd1 Hn. apply (good_transfer (m_edges m)); [intros e He; apply S5; exact He|].
    apply good_s. apply d0; [congruence | exact Hd1|]. intros Hin. apply Hn. apply S5. exact Hin.
  - intros d1 Hd1. apply f0. apply S5. exact Hd1.
  - destruct g0 as [A | A]; [left; exact A | right]. intros d1 Hd1. apply S5. apply A. exact Hd1.
  - intros Hz d1 md' Hd1 Hmd'. destruct (Hd d1 md' Hd1 Hmd') as (md & Hmd & ->).
    apply (k0 Hz d1 md); [apply S5; exact Hd1 | exact Hmd].
Qed.

(* stamps: the inputs' only grow; a dropped memo leaves its stamp in the ghost table *)
Hypothesis Hstamp : forall i, f_changed (d_in s i) <= f_changed (d_in s' i).

Let F' := lift s F.

Lemma phi_transfer d c : phi s F d = Some c -> exists c', phi s' F' d = Some c' /\ c <= c'.
Proof.
  unfold phi, F', lift. destruct (d_memo s d) as [md|] eqn:Hmd.
  - intros E0. injection E0 as <-. destruct (d_memo s' d) as [md'|] eqn:Hmd'.
    + destruct (Hsub d md' Hmd') as (md0 & Hmd0 & (_ & T2 & _)). rewrite Hmd in Hmd0. injection Hmd0 as <-.
      exists (m_changed md'). split; [reflexivity | lia].
    + exists (m_changed md). split; [reflexivity | lia].
  - intros E0. destruct (d_memo s' d) as [md'|] eqn:Hmd'.
    + destruct (Hsub d md' Hmd') as (md0 & Hmd0 & _). congruence.
    + exists c. split; [exact E0 | lia].
Qed.

Lemma sle_transfer c x : sle s F c x -> sle s' F' c x.
Proof.
  destruct x as [i | d | cc |]; cbn; auto.
  - specialize (Hstamp i). lia.
  - intros (c0 & Hc0 & Hle). destruct (phi_transfer d c0 Hc0) as (c' & Hc' & Hle'). exists c'. split; [exact Hc' | lia].
Qed.

Lemma prov_transfer q rho c : rho <= cur s -> prov prog NF H s F q rho c -> prov prog NF H' s' F' q rho c.
Proof.
  intros Hr [A | (x & Hx & Hs)]; [left; exact A | right].
  destruct (Hpast rho Hr) as [HHr _].
  exists x. split; [rewrite (tr_hist_eq prog NF H H' _ q HHr); exact Hx | apply sle_transfer; exact Hs].
Qed.

Lemma DInv_transfer :
  1 <= cur s' -> revs_ok (d_revs s') ->
  (forall q m', d_memo s' q = Some m' -> edges_ok H' D' s' q m') ->
  (forall i r, f_changed (d_in s' i) <= r -> r <= cur s' -> sn_in (H' r) i = f_val (d_in s' i)) ->
  (forall i r, f_changed (d_in s' i) <= r -> r <= cur s' -> D' r i = f_dur (d_in s' i)) ->
  (forall i, f_changed (d_in s' i) <= cur s') ->
  (forall c, sn_cell (H' (cur s')) c = d_cell s' c) ->
  (forall r i, D' r i <= 3) ->
  (forall r i, r < cur s' -> lcs s' (D' r i) <= r ->
     sn_in (H' (r + 1)) i = sn_in (H' r) i /\ D' (r + 1) i = D' r i) ->
  (fm = true -> forall r i, D' r i = 0) ->
  (fm = true -> forall k, 1 <= k -> lcs s' k <= 1) ->
  DInv H' D' F' s'.
Proof.
  intros H1 Hrv Hedges Hin Hdur Hinle Hcell Hd3 Hwr HlD Hlr.
  assert (Hprov_sd : forall q rho c, prov prog NF H sd F q rho c -> prov prog NF H s F q rho c).
  { intros q rho c. apply (prov_same prog NF H sd s); reflexivity. }
  constructor; auto.
  - intros q m' Hm'. destruct (Hsub q m' Hm') as (m & Hm & (S1 & S2 & S3 & S6)).
    pose proof (obs_transfer q (m_verified m) (m_dur m)
                  (obs_s _ _ _ (obs_of_memo prog NF fm H D F _ q m (inv_memo _ _ _ _ _ _ _ HI q m Hm)))) as Ho.
    destruct (Hedges q m' Hm') as [e1 e2 e3 e4 e5 e6].
    destruct (Hpast (m_verified m) (Hver q m Hm)) as [HHv HDv].
    pose proof (mo_order _ _ _ _ _ _ _ _ _ (inv_memo _ _ _ _ _ _ _ HI q m Hm)) as (O1 & O2 & O3).
    constructor; auto; rewrite ?S1, ?S2, ?S3.
    + change (cur (set_cell s _)) with (cur s) in O3. lia.
    + intros x Hx. rewrite (E_hist_eq prog NF H H' _ q HHv).
      apply (mo_val _ _ _ _ _ _ _ _ _ (inv_memo _ _ _ _ _ _ _ HI q m Hm)). apply S6. exact Hx.
    + apply (ob_durge _ _ _ _ _ _ _ _ Ho).
    + apply (ob_dur3 _ _ _ _ _ _ _ _ Ho).
    + apply prov_transfer; [apply (Hver q m Hm)|]. apply Hprov_sd.
      apply (mo_stamp _ _ _ _ _ _ _ _ _ (inv_memo _ _ _ _ _ _ _ HI q m Hm)).
    + apply (ob_obs _ _ _ _ _ _ _ _ Ho).
  - (* dropped memos, old and new *)
    intros d rho c Hn HF. unfold F', lift in HF.
    destruct (d_memo s d) as [md|] eqn:Hmd.
    + injection HF as <- <-.
      pose proof (inv_memo _ _ _ _ _ _ _ HI d md Hmd) as Hok.
      pose proof (mo_order _ _ _ _ _ _ _ _ _ Hok) as (O1 & O2 & O3).
      split; [exact O2|]. split.
      * apply obs_transfer. apply obs_s.
        destruct (obs_of_memo prog NF fm H D F _ d md Hok) as [a b c0 d0].
        constructor; auto; [apply (durge_zero prog rank Hrank NF H D) | lia|].
        intros x mx Hx Hmx Hp. destruct (d0 x mx Hx Hmx Hp) as [A _]. split; [exact A | lia].
      * apply prov_transfer; [apply (Hver d md Hmd)|]. apply Hprov_sd. apply (mo_stamp _ _ _ _ _ _ _ _ _ Hok).
    + destruct (inv_ghost _ _ _ _ _ _ _ HI d rho c Hmd HF) as (A & B & C0).
      split; [exact A|]. split; [apply obs_transfer; apply obs_s; exact B|].
      apply prov_transfer; [|apply Hprov_sd; exact C0].
      pose proof (ob_order _ _ _ _ _ _ _ _ B) as (_ & Hr). exact Hr.
Qed.

End Transfer.

Lemma DInv_to_d H D F s : DInv H D F s -> DInv_d H D F s.
Proof.
  intros [a a' b b' c d e f g gh l1 l2]. unfold DInv_d. constructor; auto.
  - intros q m Hm. apply (dmemo_ok_same prog NF fm H D F s); [reflexivity | reflexivity | reflexivity|].
    apply g. exact Hm.
  - intros d0 rho c0 Hn HF. destruct (gh d0 rho c0 Hn HF) as (A & B & C0).
    split; [exact A|]. split; [apply (obs_ok_same prog NF H D s); [reflexivity | reflexivity | exact B]|].
    apply (prov_same prog NF H s); [reflexivity | reflexivity | exact C0].
Qed.

Lemma DInv_d_facts H D F s : DInv_d H D F s ->
  1 <= cur s /\ revs_ok (d_revs s) /\
  (forall q m, d_memo s q = Some m -> m_verified m <= cur s) /\
  (forall i r, f_changed (d_in s i) <= r -> r <= cur s -> sn_in (H r) i = f_val (d_in s i)) /\
  (forall i r, f_changed (d_in s i) <= r -> r <= cur s -> D r i = f_dur (d_in s i)) /\
  (forall i, f_changed (d_in s i) <= cur s) /\ (forall r i, D r i <= 3) /\
  (forall r i, r < cur s -> lcs s (D r i) <= r ->
     sn_in (H (r + 1)) i = sn_in (H r) i /\ D (r + 1) i = D r i) /\
  (fm = true -> forall r i, D r i = 0) /\ (fm = true -> forall k, 1 <= k -> lcs s k <= 1).
Proof.
  unfold DInv_d. intros [a a' b b' c d e f g gh l1 l2].
  split; [exact a|]. split; [exact a'|]. split.
  - intros q m Hm. pose proof (mo_order _ _ _ _ _ _ _ _ _ (g q m Hm)) as (_ & _ & Hv). exact Hv.
  - split; [exact b|]. split; [exact b'|]. split; [exact c|]. split; [exact e|].
    split; [exact f|]. split; [exact l1 | exact l2].
Qed.

(* ---------------------------------------------------------------- "ok" states *)
Definition OK (s : db) : Prop := exists H D F, DInv H D F s.
Definition OK_d (s : db) : Prop := exists H D F, DInv_d H D F s.

Lemma OK_to_d s : OK s -> OK_d s.
Proof. intros (H & D & F & HI). exists H, D, F. apply DInv_to_d; exact HI. Qed.

Lemma DInv_snap H D F s : DInv H D F s -> snap_eq (H (cur s)) (csnap s).
Proof.
  intros HI. split; cbn.
  - intros i. apply (inv_in _ _ _ _ _ _ _ HI); [apply (inv_in_le _ _ _ _ _ _ _ HI) | lia].
  - apply (inv_cell _ _ _ _ _ _ _ HI).
Qed.

Lemma OK_d_inputs s : OK_d s ->
  revs_ok (d_revs s) /\ (forall i, f_dur (d_in s i) <= 3) /\
  (fm = true -> (forall i, f_dur (d_in s i) = 0) /\ forall k, 1 <= k -> lcs s k <= 1).
Proof.
  intros (H & D & F & HI).
  destruct (DInv_d_facts H D F s HI) as (F1 & F2 & F3 & F4 & F5 & F6 & F7 & F8 & F9 & F10).
  split; [exact F2|]. split.
  - intros i. rewrite <- (F5 i (cur s)); [apply F7 | apply F6 | lia].
  - intros Hf. split; [|apply (F10 Hf)].
    intros i. rewrite <- (F5 i (cur s)); [apply (F9 Hf) | apply F6 | lia].
Qed.

(* memos of s' that come from memos of s with the same edges: their dependencies' memos do *)
Lemma sub_sim_deps mm mm' : sub_sim mm mm' ->
  forall d md', mm' d = Some md' -> exists md, mm d = Some md /\ m_verified md' = m_verified md.
Proof.
  intros Hs d md' Hmd'. destruct (Hs d md' Hmd') as (md & Hmd & (A & _)). exists md. split; assumption.
Qed.

(* changes that keep the revision vector, the inputs and (up to eviction) the memos *)
Lemma OK_d_same s s' :
  OK_d s -> d_revs s' = d_revs s -> d_in s' = d_in s ->
  sub_sim (d_memo s) (d_memo s') -> OK_d s'.
Proof.
  intros (H & D & F & HI) Hr Hi Hev. exists H, D, (lift s F).
  destruct (DInv_d_facts H D F s HI) as (F1 & F2 & F3 & F4 & F5 & F6 & F7 & F8 & F9 & F10).
  assert (Hc : cur s' = cur s) by (unfold cur; rewrite Hr; reflexivity).
  unfold DInv_d.
  set (s2 := set_cell s' (sn_cell (H (cur s')))).
  assert (Hlc : forall k, lcs s k <= lcs s2 k) by (intros k; unfold lcs; cbn; rewrite Hr; lia).
  assert (Hpast : forall r, r <= cur s -> H r = H r /\ forall i, D r i = D r i) by (intros; split; reflexivity).
  assert (Hcle : cur s <= cur s2) by (change (cur s2) with (cur s'); lia).
  assert (Hstamp : forall i, f_changed (d_in s i) <= f_changed (d_in s2 i)) by (intros i; cbn; rewrite Hi; lia).
  apply (DInv_transfer H D F H D s s2 HI Hcle Hlc (sub_sim_core _ _ Hev) Hpast Hstamp); auto;
    change (cur s2) with (cur s'); change (d_in s2) with (d_in s'); change (d_memo s2) with (d_memo s');
    change (d_revs s2) with (d_revs s'); rewrite ?Hc, ?Hi, ?Hr; auto; try lia.
  - intros q m' Hm'. destruct (Hev q m' Hm') as (m & Hm & Hsim).
    apply (edges_sim H D F H D s s2 HI Hcle Hlc (sub_sim_core _ _ Hev) Hpast q m m' Hm Hsim).
    intros d md' _ Hmd'. apply (sub_sim_deps _ _ Hev d md' Hmd').
  - intros r i Hlt Hl. apply F8; [exact Hlt|]. unfold lcs in *. cbn in Hl. rewrite Hr in Hl. exact Hl.
  - intros Hf k Hk. specialize (F10 Hf k Hk). unfold lcs in *. cbn. rewrite Hr. exact F10.
Qed.

Lemma OK_same s s' :
  OK s -> d_revs s' = d_revs s -> d_in s' = d_in s -> d_cell s' = d_cell s ->
  sub_sim (d_memo s) (d_memo s') -> OK s'.
Proof.
  intros (H & D & F & HI) Hr Hi Hce Hev. exists H, D, (lift s F).
  pose proof (DInv_to_d H D F s HI) as HId.
  destruct (DInv_d_facts H D F s HId) as (F1 & F2 & F3 & F4 & F5 & F6 & F7 & F8 & F9 & F10).
  assert (Hc : cur s' = cur s) by (unfold cur; rewrite Hr; reflexivity).
  assert (Hlc : forall k, lcs s k <= lcs s' k) by (intros k; unfold lcs; rewrite Hr; lia).
  assert (Hpast : forall r, r <= cur s -> H r = H r /\ forall i, D r i = D r i) by (intros; split; reflexivity).
  assert (Hcle : cur s <= cur s') by lia.
  assert (Hstamp : forall i, f_changed (d_in s i) <= f_changed (d_in s' i)) by (intros i; rewrite Hi; lia).
  apply (DInv_transfer H D F H D s s' HId Hcle Hlc (sub_sim_core _ _ Hev) Hpast Hstamp); rewrite ?Hc, ?Hi, ?Hr; auto; try lia.
  - intros q m' Hm'. destruct (Hev q m' Hm') as (m & Hm & Hsim).
    apply (edges_sim H D F H D s s' HId Hcle Hlc (sub_sim_core _ _ Hev) Hpast q m m' Hm Hsim).
    intros d md' _ Hmd'. apply (sub_sim_deps _ _ Hev d md' Hmd').
  - rewrite Hce. apply (inv_cell _ _ _ _ _ _ _ HI).
  - intros r i Hlt Hl. apply F8; [exact Hlt|]. unfold lcs in *. rewrite Hr in Hl. exact Hl.
  - intros Hf k Hk. specialize (F10 Hf k Hk). unfold lcs in *. rewrite Hr. exact F10.
Qed.

(* a state in which nothing has been verified at the current revision yet *)
Definition fresh (s : db) : Prop :=
  forall q m, d_memo s q = Some m -> m_verified m < cur s.

(* Starting a new revision and, inside it, rewriting the inputs: the current-revision slot
   moves by one, a write reports the OLD durability of what it writes (so the other slots only
   move forward, to the new revision at most), and every input that changes is stamped with
   the new revision and had a level that was reported.  [s'] is the state when the writes are
   done.  (No write at all: a plain new revision.) *)
Lemma OK_advance_gen s s' :
  OK_d s ->
  r_cur (d_revs s') = r_cur (d_revs s) + 1 -> revs_ok (d_revs s') ->
  (forall k, lcs s k <= lcs s' k) ->
  (* an input is untouched, or stamped now after its old level was reported *)
  (forall i, d_in s' i = d_in s i \/
             (f_changed (d_in s' i) = cur s' /\ lcs s' (f_dur (d_in s i)) = cur s')) ->
  (forall i, f_dur (d_in s' i) <= 3) ->
  (fm = true -> (forall i, f_dur (d_in s' i) = 0) /\ forall k, 1 <= k -> lcs s' k <= 1) ->
  sub_sim (d_memo s) (d_memo s') ->
  OK s' /\ fresh s'.
Proof.
  intros (H & D & F & HI) Hrc Hrv Hlc Hins Hd3 Hlow Hev.
  destruct (DInv_d_facts H D F s HI) as (F1 & F2 & F3 & F4 & F5 & F6 & F7 & F8 & F9 & F10).
  assert (Hc : cur s' = cur s + 1) by (unfold cur; exact Hrc).
  assert (Hpast : forall r, r <= cur s ->
            extend H (cur s') (csnap s') r = H r /\
            forall i, extendD D (cur s') (durs_of s') r i = D r i).
  { intros r Hr. split; [apply extend_other; lia | intros i; rewrite extendD_other by lia; reflexivity]. }
  split.
  - exists (extend H (cur s') (csnap s')), (extendD D (cur s') (durs_of s')), (lift s F).
    assert (Hcle : cur s <= cur s') by lia.
    assert (Hstamp : forall i, f_changed (d_in s i) <= f_changed (d_in s' i)).
    { intros i. destruct (Hins i) as [-> | (Hst & _)]; [lia|]. rewrite Hst. specialize (F6 i). lia. }
    apply (DInv_transfer H D F _ _ s s' HI Hcle Hlc (sub_sim_core _ _ Hev) Hpast Hstamp); auto; try lia.
    + intros q m' Hm'. destruct (Hev q m' Hm') as (m & Hm & Hsim).
      apply (edges_sim H D F _ _ s s' HI Hcle Hlc (sub_sim_core _ _ Hev) Hpast q m m' Hm Hsim).
      intros d md' _ Hmd'. apply (sub_sim_deps _ _ Hev d md' Hmd').
    + intros i r Hle Hrc'. destruct (N.eq_dec r (cur s')) as [-> | Hne].
      * rewrite extend_same. reflexivity.
      * rewrite extend_other by exact Hne.
        destruct (Hins i) as [Hsame | (Hst & _)]; [|lia].
        rewrite Hsame in *. apply F4; lia.
    + intros i r Hle Hrc'. destruct (N.eq_dec r (cur s')) as [-> | Hne].
      * rewrite extendD_same. reflexivity.
      * rewrite extendD_other by exact Hne.
        destruct (Hins i) as [Hsame | (Hst & _)]; [|lia].
        rewrite Hsame in *. apply F5; lia.
    + intros i. destruct (Hins i) as [Hsame | (Hst & _)]; [|lia].
      rewrite Hsame. specialize (F6 i). lia.
    + intros c. rewrite extend_same. reflexivity.
    + intros r i. unfold extendD. destruct (r =? cur s'); [|apply F7]. apply Hd3.
    + intros r i Hlt Hl.
      destruct (N.eq_dec (r + 1) (cur s')) as [Heq | Hne].
      * assert (r = cur s) by lia. subst r.
        rewrite extendD_other in Hl by lia.
        rewrite Heq, extend_same, extendD_same, extend_other, extendD_other by lia.
        rewrite (F5 i (cur s)) in Hl; [|apply F6 | lia].
        destruct (Hins i) as [Hsame | (_ & Hrep)]; [|lia].
        unfold durs_of, csnap; cbn [sn_in]. rewrite Hsame.
        split; symmetry; [apply F4 | apply F5]; try apply F6; lia.
      * rewrite !extend_other, !extendD_other by lia.
        rewrite extendD_other in Hl by lia.
        apply F8; [lia|]. specialize (Hlc (D r i)). lia.
    + intros Hf r i. destruct (Hlow Hf) as [Hz _]. unfold extendD.
      destruct (r =? cur s'); [apply Hz | apply (F9 Hf)].
    + intros Hf. apply (proj2 (Hlow Hf)).
  - intros q m' Hm'. destruct (Hev q m' Hm') as (m & Hm & (S1 & _)).
    rewrite S1. specialize (F3 q m Hm). lia.
Qed.

(* a revision-vector change alone (a synthetic write): levels only move forward *)
Lemma OK_revs s s' :
  OK s -> cur s' = cur s -> revs_ok (d_revs s') -> (forall k, lcs s k <= lcs s' k) ->
  (fm = true -> forall k, 1 <= k -> lcs s' k <= 1) ->
  d_in s' = d_in s -> d_cell s' = d_cell s -> d_memo s' = d_memo s -> OK s'.
Proof.
  intros (H & D & F & HI) Hc Hrv Hlc Hlow Hi Hce Hm. exists H, D, (lift s F).
  pose proof (DInv_to_d H D F s HI) as HId.
  destruct (DInv_d_facts H D F s HId) as (F1 & F2 & F3 & F4 & F5 & F6 & F7 & F8 & F9 & F10).
  assert (Hev : sub_sim (d_memo s) (d_memo s')) by (rewrite Hm; apply evicted_sub_sim, evicted_refl).
  assert (Hpast : forall r, r <= cur s -> H r = H r /\ forall i, D r i = D r i) by (intros; split; reflexivity).
  assert (Hcle : cur s <= cur s') by lia.
  assert (Hstamp : forall i, f_changed (d_in s i) <= f_changed (d_in s' i)) by (intros i; rewrite Hi; lia).
  apply (DInv_transfer H D F H D s s' HId Hcle Hlc (sub_sim_core _ _ Hev) Hpast Hstamp); rewrite ?Hc, ?Hi; auto; try lia.
  - intros q m' Hm'. destruct (Hev q m' Hm') as (m & Hm0 & Hsim).
    apply (edges_sim H D F H D s s' HId Hcle Hlc (sub_sim_core _ _ Hev) Hpast q m m' Hm0 Hsim).
    intros d md' _ Hmd'. apply (sub_sim_deps _ _ Hev d md' Hmd').
  - rewrite Hce. apply (inv_cell _ _ _ _ _ _ _ HI).
  - intros r i Hlt Hl. apply F8; [exact Hlt|]. specialize (Hlc (D r i)). lia.
Qed.

End Top.

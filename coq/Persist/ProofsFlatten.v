(* Persist/ProofsFlatten.v — the flattening of non-persisted dependencies
   (collect_minimum_serialized_edges) covers them.

   [flatten_closed]  structural: after flattening the edges of a memo, every original edge is
                     either serialised directly or was expanded ("visited"), and every expanded
                     dependency has all ITS edges serialised or expanded: the serialised edges are
                     a cut of the dependency graph below the memo.
   [flatten_sound]   hence: if every serialised edge is unchanged since r (inputs: stamp; kept
                     function edges: their whole recorded support), and no expanded dependency
                     had untracked reads ([lost_untracked] = false), then every ORIGINAL edge has
                     an unchanged recorded support since r.  The side condition is exactly what
                     the real crate does not check (finding: flattened-untracked-dependency). *)
From Salsa Require Import Base.
From Salsa.Kern Require Import CoreK.
From Salsa.Persist Require Import Model.

Lemma edge_eqb_eq a b : edge_eqb a b = true <-> a = b.
Proof.
  destruct a as [i|p], b as [j|q]; cbn; try (split; congruence).
  - rewrite key_eqb_eq; split; congruence.
  - rewrite key_eqb_eq; split; congruence.
Qed.

Lemma edge_eq_dec (a b : edge) : {a = b} + {a <> b}.
Proof.
  destruct (edge_eqb a b) eqn:E.
  - left; now apply edge_eqb_eq.
  - right; intros H; apply edge_eqb_eq in H; congruence.
Qed.

Lemma mem_edge_In e l : mem_edge e l = true <-> In e l.
Proof.
  unfold mem_edge. rewrite existsb_exists. split.
  - intros (x & Hx & E). apply edge_eqb_eq in E. now subst.
  - intros H. exists e. split; [exact H | now apply edge_eqb_eq].
Qed.

Lemma In_add_edge x l e : In x (add_edge l e) <-> In x l \/ x = e.
Proof.
  unfold add_edge. change (existsb (edge_eqb e) l) with (mem_edge e l).
  destruct (mem_edge e l) eqn:M.
  - apply mem_edge_In in M. split; [tauto|]. intros [H|H]; [assumption | now subst].
  - rewrite in_app_iff. cbn. split.
    + intros [H|[H|[]]]; [now left | right; now symmetry].
    + intros [H|H]; [now left | right; left; now symmetry].
Qed.

Section Flatten.
Variable pfam : N -> bool.
Variable mm : qkey -> option memo.
Variable rank : qkey -> nat.
(* the memo graph is acyclic (a recorded function edge may point to a function WITHOUT memo: the
   dependency is then kept as an edge, fix of the memo-less-dependency stale value) *)
Hypothesis edge_rank : forall g m c, mm g = Some m -> In (EQ c) (m_edges m) -> (rank c < rank g)%nat.

Definition erank (e : edge) : nat := match e with EIn _ => O | EQ g => S (rank g) end.

Definition covered (out vis : list edge) (e : edge) : Prop := In e out \/ In e vis.
Definition vis_ok (vis : list edge) : Prop := forall e, In e vis -> exists g m, e = EQ g /\ mm g = Some m.
(* every expanded dependency outside X has all its edges covered *)
Definition closedX (X out vis : list edge) : Prop :=
  forall g m, In (EQ g) vis -> ~ In (EQ g) X -> mm g = Some m ->
              forall e2, In e2 (m_edges m) -> covered out vis e2.

Lemma covered_mono out vis out' vis' e :
  incl out out' -> incl vis vis' -> covered out vis e -> covered out' vis' e.
Proof. intros A B [H|H]; [left; now apply A | right; now apply B]. Qed.

Definition cstep (fuel : nat) (acc : list edge * list edge) (e2 : edge) : list edge * list edge :=
  if mem_edge e2 (snd acc) then acc
  else if mem_edge e2 (fst acc) then acc
  else collect mm fuel e2 acc.

Lemma collect_S fuel e acc :
  collect mm (S fuel) e acc =
  match e with
  | EIn _ => (add_edge (fst acc) e, snd acc)
  | EQ g => match mm g with
            | None => (add_edge (fst acc) e, snd acc)
            | Some m => fold_left (cstep fuel) (m_edges m) (fst acc, e :: snd acc)
            end
  end.
Proof. reflexivity. Qed.

Definition collect_ok (fuel : nat) : Prop :=
  forall e out vis X, (erank e < fuel)%nat -> vis_ok vis -> closedX X out vis ->
    let r := collect mm fuel e (out, vis) in
    incl out (fst r) /\ incl vis (snd r) /\ vis_ok (snd r) /\ closedX X (fst r) (snd r) /\
    covered (fst r) (snd r) e.

Lemma fold_cstep fuel (IH : collect_ok fuel) X :
  forall es out vis,
    (forall e2, In e2 es -> (erank e2 < fuel)%nat) ->
    vis_ok vis -> closedX X out vis ->
    let r := fold_left (cstep fuel) es (out, vis) in
    incl out (fst r) /\ incl vis (snd r) /\ vis_ok (snd r) /\ closedX X (fst r) (snd r) /\
    (forall e2, In e2 es -> covered (fst r) (snd r) e2).
Proof.
  induction es as [|e es IHes]; intros out vis Hes Hv Hc; cbn [fold_left].
  - cbn. repeat split; try apply incl_refl; try assumption. intros e2 [].
  - assert (Hstep : let a := cstep fuel (out, vis) e in
                    incl out (fst a) /\ incl vis (snd a) /\ vis_ok (snd a) /\ closedX X (fst a) (snd a) /\
                    covered (fst a) (snd a) e).
    { unfold cstep. cbn [fst snd]. destruct (mem_edge e vis) eqn:M1.
      - cbn. repeat split; try apply incl_refl; try assumption. right. now apply mem_edge_In.
      - destruct (mem_edge e out) eqn:M2.
        + cbn. repeat split; try apply incl_refl; try assumption. left. now apply mem_edge_In.
        + pose proof (Hes e (or_introl eq_refl)) as Hr. exact (IH e out vis X Hr Hv Hc). }
    destruct (cstep fuel (out, vis) e) as [out1 vis1] eqn:E1. cbn [fst snd] in Hstep.
    destruct Hstep as (I1 & I2 & V1 & C1 & Cov1).
    destruct (IHes out1 vis1) as (J1 & J2 & V2 & C2 & Cov2); [intros e2 He2; apply Hes; now right | exact V1 | exact C1 |].
    repeat split.
    + eapply incl_tran; eauto.
    + eapply incl_tran; eauto.
    + exact V2.
    + exact C2.
    + intros e2 [<-|He2]; [eapply covered_mono; eauto | now apply Cov2].
Qed.

Lemma collect_ok_all fuel : collect_ok fuel.
Proof.
  induction fuel as [|fuel IH]; intros e out vis X Hr Hv Hc; [lia|].
  assert (Hadd : let a := (add_edge out e, vis) in
                 incl out (fst a) /\ incl vis (snd a) /\ vis_ok (snd a) /\ closedX X (fst a) (snd a) /\
                 covered (fst a) (snd a) e).
  { cbn [fst snd]. repeat split.
    + intros x Hx. apply In_add_edge. now left.
    + apply incl_refl.
    + exact Hv.
    + intros g m Hg HX Hmg e2 He2. eapply covered_mono; [| apply incl_refl | exact (Hc g m Hg HX Hmg e2 He2)].
      intros x Hx. apply In_add_edge. now left.
    + left. apply In_add_edge. now right. }
  rewrite collect_S. cbn [fst snd]. destruct e as [i|g].
  - exact Hadd.
  - destruct (mm g) as [m|] eqn:Hg; [|exact Hadd].
    assert (Hv' : vis_ok (EQ g :: vis)).
    { intros e [<-|He]; [exists g, m; now split | now apply Hv]. }
    assert (Hc' : closedX (EQ g :: X) out (EQ g :: vis)).
    { intros g' m' Hg' HX Hmg' e2 He2.
      destruct Hg' as [E|Hg']; [exfalso; apply HX; left; exact E|].
      eapply covered_mono; [apply incl_refl | | apply (Hc g' m' Hg'); eauto].
      - intros x Hx. now right.
      - intros HX'. apply HX. now right. }
    destruct (fold_cstep fuel IH (EQ g :: X) (m_edges m) out (EQ g :: vis)) as (I1 & I2 & V & C & Cov);
      [| exact Hv' | exact Hc' |].
    { intros e2 He2.
      destruct e2 as [i|c]; cbn; [cbn in Hr; lia|]. pose proof (edge_rank g m c Hg He2). cbn in Hr. lia. }
    repeat split.
    + exact I1.
    + intros x Hx. apply I2. now right.
    + exact V.
    + intros g' m' Hg' HX Hmg' e2 He2.
      destruct (edge_eq_dec (EQ g') (EQ g)) as [E|NE].
      * injection E as ->. rewrite Hg in Hmg'. injection Hmg' as <-. now apply Cov.
      * apply (C g' m' Hg'); [|exact Hmg'|exact He2]. intros [E|HX']; [apply NE; now symmetry | now apply HX].
    + right. apply I2. now left.
Qed.

(* ---------------------------------------------------------------- the whole origin *)
Theorem flatten_closed (fuel : nat) (edges : list edge) :
  (forall e, In e edges -> (erank e < fuel)%nat) ->
  let r := flatten_full pfam mm fuel edges in
  vis_ok (snd r) /\ closedX [] (fst r) (snd r) /\ (forall e, In e edges -> covered (fst r) (snd r) e).
Proof.
  intros Hes. unfold flatten_full.
  assert (G : forall es out vis,
             (forall e, In e es -> (erank e < fuel)%nat) ->
             vis_ok vis -> closedX [] out vis ->
             let r := fold_left (flatten_step pfam mm fuel) es (out, vis) in
             incl out (fst r) /\ incl vis (snd r) /\ vis_ok (snd r) /\ closedX [] (fst r) (snd r) /\
             (forall e, In e es -> covered (fst r) (snd r) e)).
  { induction es as [|e es IHes]; intros out vis He Hv Hc; cbn [fold_left].
    - cbn. repeat split; try apply incl_refl; try assumption. intros e [].
    - assert (Hstep : let a := flatten_step pfam mm fuel (out, vis) e in
                      incl out (fst a) /\ incl vis (snd a) /\ vis_ok (snd a) /\ closedX [] (fst a) (snd a) /\
                      covered (fst a) (snd a) e).
      { assert (Hadd : let a := (add_edge out e, vis) in
                       incl out (fst a) /\ incl vis (snd a) /\ vis_ok (snd a) /\ closedX [] (fst a) (snd a) /\
                       covered (fst a) (snd a) e).
        { cbn. repeat split.
          - intros x Hx. apply In_add_edge. now left.
          - apply incl_refl.
          - exact Hv.
          - intros g m Hg HX Hmg e2 He2. eapply covered_mono; [| apply incl_refl | exact (Hc g m Hg HX Hmg e2 He2)].
            intros x Hx. apply In_add_edge. now left.
          - left. apply In_add_edge. now right. }
        unfold flatten_step. cbn [fst snd]. destruct e as [i|q]; [exact Hadd|].
        destruct (pfam (fst q)); [exact Hadd|].
        pose proof (He (EQ q) (or_introl eq_refl)) as Hr.
        exact (collect_ok_all fuel (EQ q) out vis [] Hr Hv Hc). }
      destruct (flatten_step pfam mm fuel (out, vis) e) as [out1 vis1] eqn:E1. cbn [fst snd] in Hstep.
      destruct Hstep as (I1 & I2 & V1 & C1 & Cov1).
      destruct (IHes out1 vis1) as (J1 & J2 & V2 & C2 & Cov2); [intros e2 He2; apply He; now right | exact V1 | exact C1 |].
      repeat split.
      + eapply incl_tran; eauto.
      + eapply incl_tran; eauto.
      + exact V2.
      + exact C2.
      + intros e2 [<-|He2]; [eapply covered_mono; eauto | now apply Cov2]. }
  destruct (G edges [] []) as (_ & _ & V & C & Cov); [exact Hes | intros e [] | intros g m [] |].
  repeat split; assumption.
Qed.

(* ---------------------------------------------------------------- unchanged supports *)
Variable din : ikey -> infield.
Variable r : rev.

(* the recorded support of a dependency has not changed since r (no untracked read in it) *)
Inductive ok_edge : edge -> Prop :=
| ok_in i : changed_after (f_changed (din i)) r = false -> ok_edge (EIn i)
| ok_q g m : mm g = Some m -> m_untracked m = false ->
             (forall e, In e (m_edges m) -> ok_edge e) -> ok_edge (EQ g).

Theorem flatten_sound (fuel : nat) (edges : list edge) :
  (forall e, In e edges -> (erank e < fuel)%nat) ->
  lost_untracked pfam mm fuel edges = false ->
  (forall x, In x (flatten pfam mm fuel edges) -> ok_edge x) ->
  forall e, In e edges -> ok_edge e.
Proof.
  intros Hes Hlost Hout.
  destruct (flatten_closed fuel edges Hes) as (V & C & Cov).
  unfold flatten in Hout. unfold lost_untracked in Hlost.
  set (OUT := fst (flatten_full pfam mm fuel edges)) in *.
  set (VIS := snd (flatten_full pfam mm fuel edges)) in *.
  assert (Hvis : forall n g, (rank g < n)%nat -> In (EQ g) VIS -> ok_edge (EQ g)).
  { induction n as [|n IHn]; intros g Hr Hg; [lia|].
    destruct (V _ Hg) as (g' & m & E & Hm). injection E as <-.
    apply (ok_q g m Hm).
    - destruct (m_untracked m) eqn:U; [|reflexivity].
      assert (X : existsb (fun e => match e with
                                    | EQ g => match mm g with Some m => m_untracked m | None => false end
                                    | EIn _ => false
                                    end) VIS = true).
      { apply existsb_exists. exists (EQ g). split; [exact Hg|]. now rewrite Hm. }
      congruence.
    - intros e2 He2. destruct (C g m Hg (fun F => F) Hm e2 He2) as [Ho|Hv2]; [now apply Hout|].
      destruct (V _ Hv2) as (c & mc & -> & Hmc).
      apply IHn; [|exact Hv2]. pose proof (edge_rank g m c Hm He2). lia. }
  intros e He. destruct (Cov e He) as [Ho|Hv2]; [now apply Hout|].
  destruct (V _ Hv2) as (c & mc & -> & Hmc). apply (Hvis (S (rank c))); [lia | exact Hv2].
Qed.

(* ---------------------------------------------------------------- real snapshots (fix e43c20c) *)
(* A memo that the snapshot serialises with a TRACKED origin lost no untracked dependency: the
   side condition of [flatten_sound] holds of every such memo by construction. *)
Lemma snap_memo_tracked (fuel : nat) q m' :
  snap_memo pfam mm fuel q = Some m' -> m_untracked m' = false ->
  exists m, mm q = Some m /\ m_untracked m = false /\
            lost_untracked pfam mm fuel (m_edges m) = false /\
            m_edges m' = flatten pfam mm fuel (m_edges m) /\
            m_val m' = m_val m /\ m_verified m' = m_verified m /\ m_changed m' = m_changed m /\
            m_dur m' = m_dur m.
Proof.
  unfold snap_memo. destruct (mm q) as [m|]; [|discriminate].
  destruct (m_val m) eqn:Hv; [|discriminate]. destruct (pfam (fst q)); [|discriminate].
  intros E Hu. injection E as <-. cbn in Hu. apply orb_false_iff in Hu. destruct Hu as (Hu1 & Hu2).
  exists m. cbn. rewrite Hv. repeat split; assumption.
Qed.

(* ... hence the flattening lemma without side condition, for the memos of a real snapshot *)
Theorem flatten_sound_snapshot (fuel : nat) q m' :
  (forall p, (S (rank p) < fuel)%nat) ->
  snap_memo pfam mm fuel q = Some m' -> m_untracked m' = false ->
  (forall x, In x (m_edges m') -> ok_edge x) ->
  exists m, mm q = Some m /\ m_untracked m = false /\ forall e, In e (m_edges m) -> ok_edge e.
Proof.
  intros Hf Hs Hu Hok.
  destruct (snap_memo_tracked fuel q m' Hs Hu) as (m & Hm & Hum & Hl & He & _).
  exists m. split; [exact Hm|]. split; [exact Hum|].
  apply (flatten_sound fuel (m_edges m)); [| exact Hl | now rewrite <- He].
  intros e Hin.
  destruct e as [i|c]; cbn; [specialize (Hf q); lia | apply Hf].
Qed.

End Flatten.

(* ---------------------------------------------------------------- serialised origins *)
Section Persistable.
Variable pfam : N -> bool.

(* an edge that is serialised directly: an input field or a persisted function *)
Definition persistable (e : edge) : bool :=
  match e with EIn _ => true | EQ q => pfam (fst q) end.

Definition all_persistable (l : list edge) : Prop := forall e, In e l -> persistable e = true.

Lemma all_persistable_add l e : all_persistable l -> persistable e = true -> all_persistable (add_edge l e).
Proof. intros A B x Hx. apply In_add_edge in Hx. destruct Hx as [Hx| ->]; [now apply A | exact B]. Qed.

(* what a flattened origin consists of: edges that are serialised directly, and function
   dependencies that had NO memo when the origin was flattened (nothing covers them) *)
Definition kept (mm : qkey -> option memo) (e : edge) : Prop :=
  persistable e = true \/ exists g, e = EQ g /\ mm g = None.
Definition all_kept (mm : qkey -> option memo) (l : list edge) : Prop := forall e, In e l -> kept mm e.

Lemma all_kept_add mm l e : all_kept mm l -> kept mm e -> all_kept mm (add_edge l e).
Proof. intros A B x Hx. apply In_add_edge in Hx. destruct Hx as [Hx| ->]; [now apply A | exact B]. Qed.

Lemma collect_out_kept mm fuel : forall e out vis,
  all_kept mm out -> all_kept mm (fst (collect mm fuel e (out, vis))).
Proof.
  induction fuel as [|fuel IH]; intros e out vis A; [exact A|].
  cbn [collect fst snd]. destruct e as [i|g].
  - apply all_kept_add; [exact A | now left].
  - destruct (mm g) as [m|] eqn:Hg; [|apply all_kept_add; [exact A | right; now exists g]].
    assert (G : forall es acc, all_kept mm (fst acc) ->
              all_kept mm (fst (fold_left (fun acc e2 =>
                 if mem_edge e2 (snd acc) then acc else if mem_edge e2 (fst acc) then acc
                 else collect mm fuel e2 acc) es acc))).
    { induction es as [|e2 es IHes]; intros acc Ha; [exact Ha|]. cbn [fold_left]. apply IHes.
      destruct (mem_edge e2 (snd acc)); [exact Ha|]. destruct (mem_edge e2 (fst acc)); [exact Ha|].
      destruct acc as [o v]. now apply IH. }
    now apply G.
Qed.

(* every edge of a flattened origin is serialised directly, or had no memo ... *)
Theorem flatten_kept mm fuel edges : all_kept mm (flatten pfam mm fuel edges).
Proof.
  unfold flatten, flatten_full.
  assert (G : forall es acc, all_kept mm (fst acc) ->
            all_kept mm (fst (fold_left (flatten_step pfam mm fuel) es acc))).
  { induction es as [|e es IHes]; intros acc Ha; [exact Ha|]. cbn [fold_left]. apply IHes.
    unfold flatten_step. destruct e as [i|q].
    - apply all_kept_add; [exact Ha | now left].
    - destruct (pfam (fst q)) eqn:P; [apply all_kept_add; [exact Ha | left; exact P]|].
      destruct acc as [o v]. now apply collect_out_kept. }
  apply G. intros e [].
Qed.

(* ... and flattening an origin all of whose edges are serialised directly expands nothing *)
Lemma flatten_full_persistable mm fuel edges :
  all_persistable edges -> snd (flatten_full pfam mm fuel edges) = [].
Proof.
  unfold flatten_full.
  assert (G : forall es acc, all_persistable es -> snd acc = [] ->
            snd (fold_left (flatten_step pfam mm fuel) es acc) = []).
  { induction es as [|e es IHes]; intros acc Ha Hs; [exact Hs|]. cbn [fold_left]. apply IHes.
    - intros x Hx. apply Ha. now right.
    - pose proof (Ha e (or_introl eq_refl)) as Pe. unfold flatten_step. destruct e as [i|q]; [exact Hs|].
      cbn in Pe. rewrite Pe. exact Hs. }
  intros A. now apply G.
Qed.

(* serialising a restored memo again can not lose an untracked dependency when all its edges are
   serialised directly: whatever the memo tables are then, nothing is expanded.  (An edge kept for
   a dependency that had no memo is expanded by a later snapshot if the dependency has a memo
   then; if that memo is untracked the origin becomes untracked, as for any other memo.) *)
Theorem reserialise_loses_nothing mm' fuel' edges :
  all_persistable edges -> lost_untracked pfam mm' fuel' edges = false.
Proof.
  intros A. unfold lost_untracked. now rewrite (flatten_full_persistable mm' fuel' _ A).
Qed.

End Persistable.

(* flattening an origin all of whose edges are serialised directly keeps exactly its edges *)
Lemma flatten_In_persistable pfam mm fuel edges :
  all_persistable pfam edges -> forall e, In e (flatten pfam mm fuel edges) <-> In e edges.
Proof.
  unfold flatten, flatten_full. intros A.
  assert (G : forall es acc, all_persistable pfam es ->
            forall e, In e (fst (fold_left (flatten_step pfam mm fuel) es acc)) <-> In e (fst acc) \/ In e es).
  { induction es as [|x es IHes]; intros acc Ha e; cbn [fold_left]; [cbn; tauto|].
    rewrite IHes by (intros y Hy; apply Ha; now right).
    pose proof (Ha x (or_introl eq_refl)) as Px. unfold flatten_step.
    assert (Hs : fst (match x with
                      | EIn _ => (add_edge (fst acc) x, snd acc)
                      | EQ q => if pfam (fst q) then (add_edge (fst acc) x, snd acc) else collect mm fuel x acc
                      end) = add_edge (fst acc) x).
    { destruct x as [i|q]; [reflexivity|]. cbn in Px. rewrite Px. reflexivity. }
    rewrite Hs, In_add_edge. cbn [In]. intuition (subst; auto). }
  intros e. rewrite (G edges ([], []) A e). cbn. tauto.
Qed.

(* ---------------------------------------------------------------- where flattened edges come from *)
Section Origin.
Variable pfam : N -> bool.
Variable mm : qkey -> option memo.

(* a function edge of a flattened origin is an original edge, or points to a function without memo *)
Lemma collect_fn fuel : forall e out vis P,
  (forall g, In (EQ g) out -> P g \/ mm g = None) ->
  forall g, In (EQ g) (fst (collect mm fuel e (out, vis))) -> P g \/ mm g = None.
Proof.
  induction fuel as [|fuel IH]; intros e out vis P A g Hg; [apply A; exact Hg|].
  cbn [collect fst snd] in Hg. destruct e as [i|g0].
  - apply In_add_edge in Hg. destruct Hg as [Hg | Hg]; [apply A; exact Hg | discriminate].
  - destruct (mm g0) as [m|] eqn:Hm0.
    + revert Hg. generalize (EQ g0 :: vis). intros vis0.
      assert (G : forall es acc, (forall g, In (EQ g) (fst acc) -> P g \/ mm g = None) ->
                forall g, In (EQ g) (fst (fold_left (fun acc e2 =>
                   if mem_edge e2 (snd acc) then acc else if mem_edge e2 (fst acc) then acc
                   else collect mm fuel e2 acc) es acc)) -> P g \/ mm g = None).
      { induction es as [|e2 es IHes]; intros acc Ha g1 Hg1; [apply Ha; exact Hg1|].
        cbn [fold_left] in Hg1. revert Hg1. apply IHes.
        destruct (mem_edge e2 (snd acc)); [exact Ha|]. destruct (mem_edge e2 (fst acc)); [exact Ha|].
        destruct acc as [o v]. apply IH. exact Ha. }
      apply (G (m_edges m) (out, vis0) A g).
    + apply In_add_edge in Hg. destruct Hg as [Hg | Hg]; [apply A; exact Hg|].
      injection Hg as ->. right. exact Hm0.
Qed.

Theorem flatten_fn fuel edges g :
  In (EQ g) (flatten pfam mm fuel edges) -> In (EQ g) edges \/ mm g = None.
Proof.
  unfold flatten, flatten_full.
  assert (G : forall es acc, (forall g, In (EQ g) (fst acc) -> In (EQ g) edges \/ mm g = None) ->
            (forall e, In e es -> In e edges) ->
            forall g, In (EQ g) (fst (fold_left (flatten_step pfam mm fuel) es acc)) ->
                      In (EQ g) edges \/ mm g = None).
  { induction es as [|e es IHes]; intros acc Ha Hes g1 Hg1; [apply Ha; exact Hg1|].
    cbn [fold_left] in Hg1. revert Hg1. apply IHes; [|intros x Hx; apply Hes; now right].
    intros g2 Hg2. unfold flatten_step in Hg2. destruct e as [i|q].
    - apply In_add_edge in Hg2. destruct Hg2 as [Hg2 | Hg2]; [apply Ha; exact Hg2 | discriminate].
    - destruct (pfam (fst q)).
      + apply In_add_edge in Hg2. destruct Hg2 as [Hg2 | Hg2]; [apply Ha; exact Hg2|].
        injection Hg2 as ->. left. apply Hes. now left.
      + destruct acc as [o v]. apply (collect_fn fuel (EQ q) o v (fun g => In (EQ g) edges) Ha g2 Hg2). }
  apply G; [intros g0 [] | auto].
Qed.

(* every flattened edge, and every expanded dependency, is an original edge or an edge of an
   expanded dependency's memo *)
Inductive under (edges : list edge) : edge -> Prop :=
| under_top e : In e edges -> under edges e
| under_step g m e : under edges (EQ g) -> mm g = Some m -> In e (m_edges m) -> under edges e.

Lemma collect_under edges fuel : forall e out vis,
  under edges e -> (forall x, In x out -> under edges x) -> (forall x, In x vis -> under edges x) ->
  let r := collect mm fuel e (out, vis) in
  (forall x, In x (fst r) -> under edges x) /\ (forall x, In x (snd r) -> under edges x).
Proof.
  induction fuel as [|fuel IH]; intros e out vis He Ho Hv; [split; assumption|].
  cbn [collect fst snd]. destruct e as [i|g0].
  - split; [|exact Hv]. intros x Hx. apply In_add_edge in Hx. destruct Hx as [Hx | ->]; [apply Ho; exact Hx | exact He].
  - destruct (mm g0) as [m|] eqn:Hm0.
    + assert (G : forall es acc, (forall e2, In e2 es -> under edges e2) ->
                (forall x, In x (fst acc) -> under edges x) -> (forall x, In x (snd acc) -> under edges x) ->
                let r := fold_left (fun acc e2 =>
                   if mem_edge e2 (snd acc) then acc else if mem_edge e2 (fst acc) then acc
                   else collect mm fuel e2 acc) es acc in
                (forall x, In x (fst r) -> under edges x) /\ (forall x, In x (snd r) -> under edges x)).
      { induction es as [|e2 es IHes]; intros acc Hes Ha Hb; [split; assumption|].
        cbn [fold_left]. apply IHes; [intros x Hx; apply Hes; now right | |];
          destruct (mem_edge e2 (snd acc)); try assumption;
          destruct (mem_edge e2 (fst acc)); try assumption;
          destruct acc as [o v]; apply (IH e2 o v (Hes e2 (or_introl eq_refl)) Ha Hb). }
      apply G.
      * intros e2 He2. eapply under_step; eassumption.
      * exact Ho.
      * intros x [<- | Hx]; [exact He | apply Hv; exact Hx].
    + split; [|exact Hv]. intros x Hx. apply In_add_edge in Hx.
      destruct Hx as [Hx | ->]; [apply Ho; exact Hx | exact He].
Qed.

Theorem flatten_under fuel edges :
  let r := flatten_full pfam mm fuel edges in
  (forall x, In x (fst r) -> under edges x) /\ (forall x, In x (snd r) -> under edges x).
Proof.
  unfold flatten_full.
  assert (G : forall es acc, (forall e, In e es -> In e edges) ->
            (forall x, In x (fst acc) -> under edges x) -> (forall x, In x (snd acc) -> under edges x) ->
            let r := fold_left (flatten_step pfam mm fuel) es acc in
            (forall x, In x (fst r) -> under edges x) /\ (forall x, In x (snd r) -> under edges x)).
  { induction es as [|e es IHes]; intros acc Hes Ha Hb; [split; assumption|].
    cbn [fold_left].
    assert (He : under edges e) by (apply under_top; apply Hes; now left).
    assert (Hadd : (forall x, In x (add_edge (fst acc) e) -> under edges x)).
    { intros x Hx. apply In_add_edge in Hx. destruct Hx as [Hx | ->]; [apply Ha; exact Hx | exact He]. }
    apply IHes; [intros x Hx; apply Hes; now right | |]; unfold flatten_step; destruct e as [i|q]; cbn [fst snd];
      try assumption; destruct (pfam (fst q)); cbn [fst snd]; try assumption;
      destruct acc as [o v]; apply (collect_under edges fuel (EQ q) o v He Ha Hb). }
  apply G; [auto | intros x [] | intros x []].
Qed.

(* an invariant of the expanded dependencies: whatever holds of the non-persistable original
   edges and is inherited along the edges of memos holds of every expanded dependency *)
Section VisInv.
Variable P : qkey -> Prop.
Hypothesis Pstep : forall g m g2, P g -> mm g = Some m -> In (EQ g2) (m_edges m) -> P g2.

Lemma collect_vis fuel : forall e out vis,
  (forall g, e = EQ g -> P g) -> (forall g, In (EQ g) vis -> P g) ->
  forall g, In (EQ g) (snd (collect mm fuel e (out, vis))) -> P g.
Proof.
  induction fuel as [|fuel IH]; intros e out vis He Hv g Hg; [apply Hv; exact Hg|].
  cbn [collect fst snd] in Hg. destruct e as [i|g0]; [apply Hv; exact Hg|].
  destruct (mm g0) as [m|] eqn:Hm0; [|apply Hv; exact Hg].
  assert (G : forall es acc, (forall g2, In (EQ g2) es -> P g2) -> (forall g, In (EQ g) (snd acc) -> P g) ->
            forall g, In (EQ g) (snd (fold_left (fun acc e2 =>
               if mem_edge e2 (snd acc) then acc else if mem_edge e2 (fst acc) then acc
               else collect mm fuel e2 acc) es acc)) -> P g).
  { induction es as [|e2 es IHes]; intros acc Hes Ha g1 Hg1; [apply Ha; exact Hg1|].
    cbn [fold_left] in Hg1. revert Hg1. apply IHes; [intros g2 Hg2; apply Hes; now right|].
    destruct (mem_edge e2 (snd acc)); [exact Ha|]. destruct (mem_edge e2 (fst acc)); [exact Ha|].
    destruct acc as [o v]. apply IH; [|exact Ha].
    intros g2 ->. apply Hes. now left. }
  apply (G (m_edges m) (out, EQ g0 :: vis)); [| |exact Hg].
  - intros g2 Hg2. apply (Pstep g0 m g2 (He g0 eq_refl) Hm0 Hg2).
  - intros g1 [E0 | Hg1]; [injection E0 as <-; apply He; reflexivity | apply Hv; exact Hg1].
Qed.

Theorem flatten_vis_inv fuel edges :
  (forall g, In (EQ g) edges -> pfam (fst g) = false -> P g) ->
  forall g, In (EQ g) (snd (flatten_full pfam mm fuel edges)) -> P g.
Proof.
  intros Htop. unfold flatten_full.
  assert (G : forall es acc, (forall e, In e es -> In e edges) -> (forall g, In (EQ g) (snd acc) -> P g) ->
            forall g, In (EQ g) (snd (fold_left (flatten_step pfam mm fuel) es acc)) -> P g).
  { induction es as [|e es IHes]; intros acc Hes Ha g Hg; [apply Ha; exact Hg|].
    cbn [fold_left] in Hg. revert Hg. apply IHes; [intros x Hx; apply Hes; now right|].
    unfold flatten_step. destruct e as [i|q]; [exact Ha|].
    destruct (pfam (fst q)) eqn:Hp; [exact Ha|].
    destruct acc as [o v]. apply collect_vis; [|exact Ha].
    intros g0 E0. injection E0 as <-. apply Htop; [apply Hes; now left | exact Hp]. }
  apply G; [auto | intros g []].
Qed.

End VisInv.

End Origin.

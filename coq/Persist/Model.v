(* Persist/Model.v — the persist-mode Core model (salsa built with feature "persistence") with
   database serialisation.  Definitions only.

   Starting point: Core/Model.v (same style, same names).  Differences, and what they mirror:

     active_query.rs:add_read / add_read_simple   under feature "persistence" EVERY read is
                                                  recorded (`record_input = true`), also of
                                                  NEVER_CHANGE dependencies
     function/execute.rs                          discard_edges_if_never_change is compiled out
     function.rs:IngredientImpl::get_or_init      the view caster of a tracked function is set
                                                  lazily by its typed entry point; the dynamic
                                                  entry `Ingredient::maybe_changed_after`
                                                  (`self.view_caster()`) panics before that:
                                                  [d_init], [PUninit]
     database.rs (mod persistence)                as_serialize / deserialize
     function.rs (mod persistence)                SerializeIngredient: which memos (should_serialize:
                                                  persistable function, value present, final), origin
                                                  flattened by collect_minimum_serialized_edges
     function.rs:collect_minimum_serialized_edges flattening of a non-persisted dependency into the
     input/input_field.rs: same name              leaves that cover it (visited set, "already
                                                  serialized" skip, memo-less dependency kept as an edge)
     function/memo.rs (mod persistence)           MappedMemo / with_origin: value, verified_at,
                                                  revisions with the flattened origin
     function.rs:flattened_untracked_dependency   (fix e43c20c) a Derived memo whose flattening expanded
                                                  a DerivedUntracked dependency is serialised untracked
     runtime.rs:deserialize_from                  only `revisions` is restored
     input.rs (mod persistence)                   every input slot with stamps and durabilities
   Not restored: cancellation count, lru order and capacity set at run time, memos of
   non-persisted functions, evicted (value-less) memos.                                    *)
From Salsa Require Import Base.
From Salsa.Kern Require Import CoreK.

(* ---------------------------------------------------------------- user code *)
(* A query body is an arbitrary deterministic strategy tree. *)
Inductive body :=
| Ret (v : val)
| RdIn (i : ikey) (k : val -> body)        (* input field getter *)
| CallQ (q : qkey) (k : val -> body)       (* tracked function call *)
| RdCell (c : cell) (k : val -> body)      (* report_untracked_read(); read external cell *)
| Touch (k : body)                         (* bare report_untracked_read() *)
| PanicIf (c : cell) (k : body).           (* fault injection: panic if switch c is on (C22) *)

(* ---------------------------------------------------------------- outcomes *)
(* Base.panic plus the panic of an uninitialised function ingredient *)
Inductive ppanic :=
| PB (p : panic)
| PUninit.        (* "tracked function ingredients cannot be accessed before calling `init`" *)

Inductive pres (A : Type) :=
| POk (a : A)
| PPanic (p : ppanic)
| PFuel.
Arguments POk {A} a.
Arguments PPanic {A} p.
Arguments PFuel {A}.

Definition ppanic_code (p : ppanic) : N :=
  match p with PB p => panic_code p | PUninit => 8 end.

(* ---------------------------------------------------------------- state *)
Inductive edge := EIn (i : ikey) | EQ (q : qkey).

Definition edge_eqb (a b : edge) : bool :=
  match a, b with
  | EIn i, EIn j => key_eqb i j
  | EQ p, EQ q => key_eqb p q
  | _, _ => false
  end.

Record memo := {
  m_val : option val;        (* None = evicted *)
  m_verified : rev;          (* verified_at *)
  m_changed : rev;           (* revisions.changed_at *)
  m_dur : dur;               (* revisions.durability *)
  m_untracked : bool;        (* origin is DerivedUntracked *)
  m_edges : list edge        (* origin edges, execution order, deduplicated *)
}.

Record infield := { f_val : val; f_changed : rev; f_dur : dur }.

Record lru_state := { lru_cap : option N;     (* None = capacity 0 / no eviction *)
                      lru_set : list N }.     (* key indices, front = least recent *)

Inductive event :=
| EvExec (q : qkey)          (* WillExecute *)
| EvValidate (q : qkey).     (* DidValidateMemoizedValue *)

Record db := {
  d_revs : revs;                       (* Runtime.revisions *)
  d_ccount : N;                        (* Runtime.cancellation_count (u8) *)
  d_in : ikey -> infield;
  d_cell : cell -> val;                (* external untracked state *)
  d_pcell : cell -> val;               (* fault-injection switches (not salsa state) *)
  d_memo : qkey -> option memo;
  d_stack : list qkey;                 (* claimed (executing / verifying) queries *)
  d_lru : N -> lru_state;              (* per function family *)
  d_log : list event;                  (* newest first *)
  d_init : N -> bool                   (* per function family: view caster initialised *)
}.

Definition cur (s : db) : rev := r_cur (d_revs s).

Definition set_revs s x := {| d_revs := x; d_ccount := d_ccount s; d_in := d_in s; d_cell := d_cell s; d_pcell := d_pcell s; d_memo := d_memo s; d_stack := d_stack s; d_lru := d_lru s; d_log := d_log s; d_init := d_init s |}.
Definition set_ccount s x := {| d_revs := d_revs s; d_ccount := x; d_in := d_in s; d_cell := d_cell s; d_pcell := d_pcell s; d_memo := d_memo s; d_stack := d_stack s; d_lru := d_lru s; d_log := d_log s; d_init := d_init s |}.
Definition set_in s x := {| d_revs := d_revs s; d_ccount := d_ccount s; d_in := x; d_cell := d_cell s; d_pcell := d_pcell s; d_memo := d_memo s; d_stack := d_stack s; d_lru := d_lru s; d_log := d_log s; d_init := d_init s |}.
Definition set_cell s x := {| d_revs := d_revs s; d_ccount := d_ccount s; d_in := d_in s; d_cell := x; d_pcell := d_pcell s; d_memo := d_memo s; d_stack := d_stack s; d_lru := d_lru s; d_log := d_log s; d_init := d_init s |}.
Definition set_pcell s x := {| d_revs := d_revs s; d_ccount := d_ccount s; d_in := d_in s; d_cell := d_cell s; d_pcell := x; d_memo := d_memo s; d_stack := d_stack s; d_lru := d_lru s; d_log := d_log s; d_init := d_init s |}.
Definition set_memo s x := {| d_revs := d_revs s; d_ccount := d_ccount s; d_in := d_in s; d_cell := d_cell s; d_pcell := d_pcell s; d_memo := x; d_stack := d_stack s; d_lru := d_lru s; d_log := d_log s; d_init := d_init s |}.
Definition set_stack s x := {| d_revs := d_revs s; d_ccount := d_ccount s; d_in := d_in s; d_cell := d_cell s; d_pcell := d_pcell s; d_memo := d_memo s; d_stack := x; d_lru := d_lru s; d_log := d_log s; d_init := d_init s |}.
Definition set_lru s x := {| d_revs := d_revs s; d_ccount := d_ccount s; d_in := d_in s; d_cell := d_cell s; d_pcell := d_pcell s; d_memo := d_memo s; d_stack := d_stack s; d_lru := x; d_log := d_log s; d_init := d_init s |}.
Definition set_log s x := {| d_revs := d_revs s; d_ccount := d_ccount s; d_in := d_in s; d_cell := d_cell s; d_pcell := d_pcell s; d_memo := d_memo s; d_stack := d_stack s; d_lru := d_lru s; d_log := x; d_init := d_init s |}.
Definition set_init s x := {| d_revs := d_revs s; d_ccount := d_ccount s; d_in := d_in s; d_cell := d_cell s; d_pcell := d_pcell s; d_memo := d_memo s; d_stack := d_stack s; d_lru := d_lru s; d_log := d_log s; d_init := x |}.

(* ---------------------------------------------------------------- monad *)
Definition M (A : Type) := db -> db * pres A.
Definition ret {A} (a : A) : M A := fun s => (s, POk a).
Definition bind {A B} (m : M A) (f : A -> M B) : M B :=
  fun s => match m s with
           | (s', POk a) => f a s'
           | (s', PPanic p) => (s', PPanic p)
           | (s', PFuel) => (s', PFuel)
           end.
Definition fail {A} (p : ppanic) : M A := fun s => (s, PPanic p).
Definition nofuel {A} : M A := fun s => (s, PFuel).
Definition get : M db := fun s => (s, POk s).
Definition modify (f : db -> db) : M unit := fun s => (f s, POk tt).
Notation "x <- m ;; k" := (bind m (fun x => k)) (at level 61, m at next level, right associativity).
Notation "m ;;; k" := (bind m (fun _ => k)) (at level 61, right associativity).

Definition emit (e : event) : M unit := modify (fun s => set_log s (e :: d_log s)).

(* ---------------------------------------------------------------- active query frame *)
Record frame := { fr_dur : dur; fr_changed : rev; fr_edges : list edge; fr_untracked : bool }.

(* ActiveQuery::new / reset_for *)
Definition frame0 : frame :=
  {| fr_dur := D_NEVER; fr_changed := REV_START; fr_edges := []; fr_untracked := false |}.

(* FxIndexSet::insert: keep first occurrence *)
Definition add_edge (es : list edge) (e : edge) : list edge :=
  if existsb (edge_eqb e) es then es else es ++ [e].

(* ActiveQuery::add_read / add_read_simple under feature "persistence" (no cycle heads, no
   accumulated values): every read is recorded, whatever the durability *)
Definition add_read (fr : frame) (e : edge) (d : dur) (c : rev) : frame :=
  {| fr_dur := dur_min (fr_dur fr) d;
     fr_changed := rev_max (fr_changed fr) c;
     fr_edges := add_edge (fr_edges fr) e;
     fr_untracked := fr_untracked fr |}.

(* ActiveQuery::add_untracked_read *)
Definition add_untracked (fr : frame) (now : rev) : frame :=
  {| fr_dur := D_LOW; fr_changed := now; fr_edges := fr_edges fr; fr_untracked := true |}.

(* ---------------------------------------------------------------- lru *)
Definition remove_key (k : N) (l : list N) : list N := filter (fun x => negb (x =? k)) l.

(* Lru::record_use: LinkedHashSet::insert = move to back, only while capacity is non-zero *)
Definition lru_record_use (l : lru_state) (k : N) : lru_state :=
  match lru_cap l with
  | None => l
  | Some _ => {| lru_cap := lru_cap l; lru_set := remove_key k (lru_set l) ++ [k] |}
  end.

(* Lru::set_capacity *)
Definition lru_set_capacity (l : lru_state) (n : N) : lru_state :=
  if n =? 0 then {| lru_cap := None; lru_set := [] |}
  else {| lru_cap := Some n; lru_set := lru_set l |}.

(* Lru::for_each_evicted: pop the front while len > cap. Returns (evicted, remaining). *)
Fixpoint pop_excess (cap : N) (l : list N) (fuel : nat) {struct fuel} : list N * list N :=
  match fuel with
  | O => ([], l)
  | S fuel' =>
      if cap <? N.of_nat (length l) then
        match l with
        | [] => ([], [])
        | x :: l' => let '(ev, rest) := pop_excess cap l' fuel' in (x :: ev, rest)
        end
      else ([], l)
  end.

Definition lru_evict (l : lru_state) : list N * lru_state :=
  match lru_cap l with
  | None => ([], l)
  | Some cap =>
      let '(ev, rest) := pop_excess cap (lru_set l) (length (lru_set l)) in
      (ev, {| lru_cap := lru_cap l; lru_set := rest |})
  end.

(* MemoHeader::can_evict_value + evict_value_from_memo_for *)
Definition evict_memo (m : memo) : memo :=
  if m_untracked m then m
  else {| m_val := None; m_verified := m_verified m; m_changed := m_changed m;
          m_dur := m_dur m; m_untracked := false; m_edges := m_edges m |}.

Definition evict_keys (fam : N) (ks : list N) (mm : qkey -> option memo) : qkey -> option memo :=
  fold_left (fun mm k => match mm (fam, k) with
                         | Some m => upd mm (fam, k) (Some (evict_memo m))
                         | None => mm
                         end) ks mm.

(* ---------------------------------------------------------------- the algorithm *)
Section Algorithm.
Variable prog : qkey -> body.
Variable noeq : qkey -> bool.       (* values_equal always false (no_eq) *)

(* result of reading a query: value plus the stamp reported to the reader *)
Definition qres := (val * dur * rev)%type.

Record lower := {
  l_fetch : qkey -> M qres;
  l_mca : qkey -> rev -> M bool      (* maybe_changed_after: true = Changed *)
}.

Definition set_memo_at (q : qkey) (m : memo) : M unit :=
  modify (fun s => set_memo s (upd (d_memo s) q (Some m))).

(* MemoHeader::mark_as_verified *)
Definition mark_verified (q : qkey) (m : memo) : M memo :=
  s <- get ;;
  let m' := {| m_val := m_val m; m_verified := cur s; m_changed := m_changed m; m_dur := m_dur m;
               m_untracked := m_untracked m; m_edges := m_edges m |} in
  emit (EvValidate q) ;;; set_memo_at q m' ;;; ret m'.

Inductive shallow := ShVerified | ShHigher | ShNo.

(* MemoHeader::shallow_verify_memo (+ _cold) *)
Definition shallow_verify (s : db) (m : memo) : shallow :=
  if m_verified m =? cur s then ShVerified
  else if shallow_ok (last_changed (d_revs s) (m_dur m)) (m_verified m) then ShHigher
  else ShNo.

(* MemoHeader::update_shallow (no outputs in Core) *)
Definition update_shallow (q : qkey) (m : memo) (u : shallow) : M memo :=
  match u with
  | ShHigher => mark_verified q m
  | _ => ret m
  end.

(* try_claim on the single thread: re-entry is a cycle; Panic strategy panics *)
Definition claim (q : qkey) : M unit :=
  s <- get ;;
  if existsb (key_eqb q) (d_stack s) then fail (PB PCycle)
  else modify (fun s => set_stack s (q :: d_stack s)).

Definition release (q : qkey) : M unit :=
  modify (fun s => set_stack s (tl (d_stack s))).

(* running a body against the current frame *)
Fixpoint run_body (L : lower) (b : body) (fr : frame) : M (val * frame) :=
  match b with
  | Ret v => ret (v, fr)
  | RdIn i k =>
      s <- get ;;
      let f := d_in s i in
      run_body L (k (f_val f)) (add_read fr (EIn i) (f_dur f) (f_changed f))
  | CallQ q k =>
      r <- l_fetch L q ;;
      let '(v, d, c) := r in
      run_body L (k v) (add_read fr (EQ q) d c)
  | RdCell c k =>
      s <- get ;;
      run_body L (k (d_cell s c)) (add_untracked fr (cur s))
  | Touch k =>
      s <- get ;;
      run_body L k (add_untracked fr (cur s))
  | PanicIf c k =>
      s <- get ;;
      if d_pcell s c =? 0 then run_body L k fr else fail (PB PInjected)
  end.

(* deep_verify_edges: walk in execution order, stop at the first changed one *)
Fixpoint walk_edges (L : lower) (es : list edge) (since : rev) : M bool :=
  match es with
  | [] => ret false
  | EIn i :: es' =>
      s <- get ;;
      if changed_after (f_changed (d_in s i)) since then ret true
      else walk_edges L es' since
  | EQ q :: es' =>
      c <- l_mca L q since ;;
      if c then ret true else walk_edges L es' since
  end.

(* MemoHeader::deep_verify_memo: true = Unchanged (and then marked verified) *)
Definition deep_verify (L : lower) (q : qkey) (m : memo) : M (bool * memo) :=
  if m_untracked m then ret (false, m)
  else
    c <- walk_edges L (m_edges m) (m_verified m) ;;
    if c then ret (false, m)
    else m' <- mark_verified q m ;; ret (true, m').

(* MemoHeader::verify_memo *)
Definition verify_memo (L : lower) (q : qkey) (m : memo) : M (bool * memo) :=
  s <- get ;;
  match shallow_verify s m with
  | ShNo => deep_verify L q m
  | u => m' <- update_shallow q m u ;; ret (true, m')
  end.

(* execute (Panic strategy) + backdate_if_appropriate + insert_memo
   (discard_edges_if_never_change is compiled out under feature "persistence") *)
Definition execute (L : lower) (q : qkey) (old : option memo) : M memo :=
  emit (EvExec q) ;;;
  r <- run_body L (prog q) frame0 ;;
  let '(v, fr) := r in
  s <- get ;;
  let backdated : res rev :=
    match old with
    | Some o =>
        match m_val o with
        | Some ov =>
            if can_backdate_dur (fr_dur fr) (m_dur o) && negb (noeq q) && (ov =? v) then
              if changed_after (m_changed o) (fr_changed fr) then Panic PBackdate
              else Ok (m_changed o)
            else Ok (fr_changed fr)
        | None => Ok (fr_changed fr)
        end
    | None => Ok (fr_changed fr)
    end in
  match backdated with
  | Ok ch =>
      let edges := fr_edges fr in
      let m := {| m_val := Some v; m_verified := cur s; m_changed := ch; m_dur := fr_dur fr;
                  m_untracked := fr_untracked fr; m_edges := edges |} in
      set_memo_at q m ;;; ret m
  | Panic p => fail (PB p)
  | Fuel => nofuel
  end.

Definition memo_qres (m : memo) (v : val) : qres := (v, m_dur m, m_changed m).

(* IngredientImpl::fetch_hot *)
Definition fetch_hot (q : qkey) : M (option (memo * val)) :=
  s <- get ;;
  match d_memo s q with
  | Some m =>
      match m_val m with
      | Some v =>
          match shallow_verify s m with
          | ShNo => ret None
          | u => m' <- update_shallow q m u ;; ret (Some (m', v))
          end
      | None => ret None
      end
  | None => ret None
  end.

(* IngredientImpl::fetch_cold *)
Definition fetch_cold (L : lower) (q : qkey) : M (memo * val) :=
  claim q ;;;
  s1 <- get ;;
  let old := d_memo s1 q in
  ok <- match old with
        | Some m =>
            match m_val m with
            | Some v => r <- verify_memo L q m ;;
                        ret (if fst r then Some (snd r, v) else None)
            | None => ret None
            end
        | None => ret None
        end ;;
  match ok with
  | Some mv => release q ;;; ret mv
  | None =>
      m <- execute L q old ;;
      release q ;;;
      match m_val m with
      | Some v => ret (m, v)
      | None => nofuel (* unreachable: execute stores a value *)
      end
  end.

(* the typed entry point `FN::fn_ingredient(db)`: get_or_init sets the view caster *)
Definition init_family (fam : N) : M unit :=
  modify (fun s => set_init s (updN (d_init s) fam true)).

(* IngredientImpl::fetch (refresh_memo, then record_use and the read stamp), reached through
   the typed entry point *)
Definition fetch (L : lower) (q : qkey) : M qres :=
  init_family (fst q) ;;;
  hot <- fetch_hot q ;;
  r <- match hot with
       | Some mv => ret mv
       | None => fetch_cold L q
       end ;;
  (* self.eviction.record_use(id) *)
  modify (fun s => set_lru s (updN (d_lru s) (fst q) (lru_record_use (d_lru s (fst q)) (snd q)))) ;;;
  ret (memo_qres (fst r) (snd r)).

(* maybe_changed_after_cold *)
Definition mca_cold (L : lower) (q : qkey) (since : rev) : M bool :=
  claim q ;;;
  s1 <- get ;;
  match d_memo s1 q with
  | None => release q ;;; ret true
  | Some old =>
      r <- verify_memo L q old ;;
      if fst r then release q ;;; ret (changed_after (m_changed (snd r)) since)
      else
        match m_val old with
        | None => release q ;;; ret true
        | Some _ =>
            mnew <- execute L q (Some old) ;;
            release q ;;;
            ret (changed_after (m_changed mnew) since)
        end
  end.

(* <IngredientImpl as Ingredient>::maybe_changed_after (the dynamic entry: `self.view_caster()`
   first), then IngredientImpl::maybe_changed_after (+ maybe_changed_after_hot) *)
Definition mca (L : lower) (q : qkey) (since : rev) : M bool :=
  s <- get ;;
  if negb (d_init s (fst q)) then fail PUninit else
  match d_memo s q with
  | None => ret true
  | Some m =>
      match shallow_verify s m with
      | ShNo => mca_cold L q since
      | u =>
          m' <- update_shallow q m u ;;
          ret (changed_after (m_changed m') since)
      end
  end.

Definition bottom : lower := {| l_fetch := fun _ => nofuel; l_mca := fun _ _ => nofuel |}.

Fixpoint level (n : nat) : lower :=
  match n with
  | O => bottom
  | S n' => let L := level n' in {| l_fetch := fetch L; l_mca := mca L |}
  end.

(* ---------------------------------------------------------------- serialisation *)
Variable pfam : N -> bool.          (* the function family is declared `persist` *)

Definition mem_edge (e : edge) (l : list edge) : bool := existsb (edge_eqb e) l.

(* collect_minimum_serialized_edges of a dependency that is not serialised directly.
   acc = (serialized_edges : FxIndexSet, visited_edges : FxHashSet).
   input field: the leaf is inserted.  function: no memo -> the edge itself is inserted (nothing
   covers it; fix of the memo-less-dependency stale value); otherwise mark visited and
   recurse into every edge that is neither visited nor already serialised (NO persistability
   test at this level).  [fuel] bounds the depth. *)
Fixpoint collect (mm : qkey -> option memo) (fuel : nat) (e : edge) (acc : list edge * list edge)
  : list edge * list edge :=
  match fuel with
  | O => acc
  | S fuel' =>
      match e with
      | EIn _ => (add_edge (fst acc) e, snd acc)
      | EQ g =>
          match mm g with
          | None => (add_edge (fst acc) e, snd acc)
          | Some m =>
              fold_left (fun acc e2 =>
                           if mem_edge e2 (snd acc) then acc
                           else if mem_edge e2 (fst acc) then acc
                           else collect mm fuel' e2 acc)
                        (m_edges m) (fst acc, e :: snd acc)
          end
      end
  end.

(* persistence::collect_minimum_serialized_edges over the edges of a memo to be serialised:
   a persistable dependency is serialised directly, others are covered by their leaves *)
Definition flatten_step (mm : qkey -> option memo) (fuel : nat) (acc : list edge * list edge) (e : edge)
  : list edge * list edge :=
  match e with
  | EIn _ => (add_edge (fst acc) e, snd acc)
  | EQ q => if pfam (fst q) then (add_edge (fst acc) e, snd acc) else collect mm fuel e acc
  end.

Definition flatten_full (mm : qkey -> option memo) (fuel : nat) (edges : list edge) : list edge * list edge :=
  fold_left (flatten_step mm fuel) edges ([], []).

Definition flatten (mm : qkey -> option memo) (fuel : nat) (edges : list edge) : list edge :=
  fst (flatten_full mm fuel edges).

(* persistence::flattened_untracked_dependency (fix e43c20c): some dependency that was expanded
   — the visited set, which function ingredients extend with every edge whose memo they expand
   and which is cleared after every serialised memo — has a DerivedUntracked origin *)
Definition lost_untracked (mm : qkey -> option memo) (fuel : nat) (edges : list edge) : bool :=
  existsb (fun e => match e with
                    | EQ g => match mm g with Some m => m_untracked m | None => false end
                    | EIn _ => false
                    end) (snd (flatten_full mm fuel edges)).

(* the serialised database *)
Record image := {
  i_revs : revs;                       (* Runtime.revisions *)
  i_in : ikey -> infield;              (* every input slot: value, stamp, durability *)
  i_memo : qkey -> option memo         (* the serialised memos *)
}.

(* Memo::should_serialize + with_origin.  The serialised origin of a Derived memo is
   `derived_untracked` when flattening expanded a dependency with untracked reads (its leaves
   cannot stand for it), `derived` otherwise; a DerivedUntracked memo stays untracked. *)
Definition snap_memo (mm : qkey -> option memo) (fuel : nat) (q : qkey) : option memo :=
  match mm q with
  | Some m =>
      match m_val m with
      | Some _ =>
          if pfam (fst q) then
            Some {| m_val := m_val m; m_verified := m_verified m; m_changed := m_changed m;
                    m_dur := m_dur m;
                    m_untracked := m_untracked m || lost_untracked mm fuel (m_edges m);
                    m_edges := flatten mm fuel (m_edges m) |}
          else None
      | None => None
      end
  | None => None
  end.

(* <dyn Database>::as_serialize *)
Definition snapshot (fuel : nat) (s : db) : image :=
  {| i_revs := d_revs s; i_in := d_in s; i_memo := snap_memo (d_memo s) fuel |}.

(* a fresh database + <dyn Database>::deserialize (zalsa_mut: one cancellation-count bump).
   [ext] supplies what is not salsa state: the external cells, the fault switches, the event
   log so far; [lru0] is the declared eviction policy of a fresh database. *)
Definition restore (img : image) (ext : db) (lru0 : N -> lru_state) : db :=
  {| d_revs := i_revs img; d_ccount := 1; d_in := i_in img;
     d_cell := d_cell ext; d_pcell := d_pcell ext;
     d_memo := i_memo img; d_stack := []; d_lru := lru0; d_log := d_log ext;
     d_init := fun _ => false |}.

(* ---------------------------------------------------------------- operations (the API) *)
Inductive op :=
| OSet (i : ikey) (v : val) (d : option dur)
| OSynth (d : dur)
| OSetCell (c : cell) (v : val)
| OSetPanic (c : cell) (v : val)
| OGet (q : qkey)
| OSetLru (fam : N) (n : N)
| OEvict
| OSnapshot                                     (* serde_json::to_string(as_serialize) *)
| ORestore.                                     (* fresh database, deserialize, continue there *)

Definition evict_all (fams : list N) (s : db) : db :=
  fold_left (fun s fam =>
               let '(ev, l') := lru_evict (d_lru s fam) in
               set_memo (set_lru s (updN (d_lru s) fam l')) (evict_keys fam ev (d_memo s)))
            fams s.

Definition new_revision (fams : list N) (s : db) : db :=
  let r := d_revs s in
  let s1 := set_ccount (set_revs s {| r_cur := r_cur r + 1; r_med := r_med r; r_high := r_high r |}) 0 in
  evict_all fams s1.

Definition zalsa_mut (fams : list N) (s : db) : db :=
  if d_ccount s =? 255 then new_revision fams s else set_ccount s (d_ccount s + 1).

Variable fams : list N.
Variable lru0 : N -> lru_state.     (* declared eviction policies *)
Variable sfuel : nat.               (* depth bound for flattening *)

Definition out := pres val.

(* the harness keeps the last serialised string next to the database *)
Record pstate := { ps_db : db; ps_img : option image }.

Definition with_db (p : pstate) (s : db) : pstate := {| ps_db := s; ps_img := ps_img p |}.

Definition step (fuel : nat) (p : pstate) (o : op) : pstate * out :=
  let s := ps_db p in
  match o with
  | OSet i v d =>
      let s1 := new_revision fams (zalsa_mut fams s) in
      let f := d_in s1 i in
      if f_dur f =? D_NEVER then (with_db p s1, PPanic (PB PNeverChange))
      else
        let r1 := if f_dur f =? D_LOW then d_revs s1 else report_write (d_revs s1) (f_dur f) in
        let f' := {| f_val := v; f_changed := cur s1;
                     f_dur := match d with Some d' => d' | None => f_dur f end |} in
        (with_db p (set_in (set_revs s1 r1) (upd (d_in s1) i f')), POk 0)
  | OSynth d =>
      let s1 := new_revision fams (zalsa_mut fams s) in
      if d =? D_NEVER then (with_db p s1, PPanic (PB PNeverChange))
      else (with_db p (set_revs s1 (report_write (d_revs s1) d)), POk 0)
  | OSetCell c v => (with_db p (set_cell s (updN (d_cell s) c v)), POk 0)
  | OSetPanic c v => (with_db p (set_pcell s (updN (d_pcell s) c v)), POk 0)
  | OGet q =>
      match fetch (level fuel) q s with
      | (s', POk (v, _, _)) => (with_db p s', POk v)
      | (s', PPanic e) => (with_db p (set_stack s' []), PPanic e)
      | (s', PFuel) => (with_db p s', PFuel)
      end
  | OSetLru fam n =>
      (* fn_ingredient_mut: zalsa_mut, get_or_init *)
      let s1 := zalsa_mut fams s in
      let s2 := set_init s1 (updN (d_init s1) fam true) in
      (with_db p (set_lru s2 (updN (d_lru s2) fam (lru_set_capacity (d_lru s2 fam) n))), POk 0)
  | OEvict => (with_db p (evict_all fams (zalsa_mut fams s)), POk 0)
  | OSnapshot => ({| ps_db := s; ps_img := Some (snapshot sfuel s) |}, POk 0)
  | ORestore =>
      match ps_img p with
      | Some img => ({| ps_db := restore img s lru0; ps_img := ps_img p |}, POk 0)
      | None => (p, POk 0)
      end
  end.

Fixpoint run_ops (fuel : nat) (p : pstate) (os : list op) : pstate * list out :=
  match os with
  | [] => (p, [])
  | o :: os' =>
      let '(p1, r) := step fuel p o in
      let '(p2, rs) := run_ops fuel p1 os' in
      (p2, r :: rs)
  end.

End Algorithm.

Definition init (iv : ikey -> val) (idur : ikey -> dur) (lru0 : N -> lru_state) : db :=
  {| d_revs := {| r_cur := REV_START; r_med := REV_START; r_high := REV_START |};
     d_ccount := 0;
     d_in := fun i => {| f_val := iv i; f_changed := REV_START; f_dur := idur i |};
     d_cell := fun _ => 0;
     d_pcell := fun _ => 0;
     d_memo := fun _ => None;
     d_stack := [];
     d_lru := lru0;
     d_log := [];
     d_init := fun _ => false |}.

Definition pinit (iv : ikey -> val) (idur : ikey -> dur) (lru0 : N -> lru_state) : pstate :=
  {| ps_db := init iv idur lru0; ps_img := None |}.

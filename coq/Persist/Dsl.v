(* Persist/Dsl.v — the harness expression language compiled to Persist.Model.body (as Core/Dsl.v).
   Programs in the correspondence check are data (one expr per node); this file
   compiles them to [body].  Nothing in a theorem depends on this compiler. *)
From Salsa Require Import Base.
From Salsa.Persist Require Import Model.

Inductive binop := BAdd | BSub | BMin | BMax | BAnd | BOr | BEq | BLt | BShr.

(* u8 arithmetic, as in the Rust interpreter (wrapping) *)
Definition binop_eval (o : binop) (a b : val) : val :=
  match o with
  | BAdd => (a + b) mod 256
  | BSub => (a + 256 - b) mod 256
  | BMin => N.min a b
  | BMax => N.max a b
  | BAnd => N.land a b
  | BOr => N.lor a b
  | BEq => if a =? b then 1 else 0
  | BLt => if a <? b then 1 else 0
  | BShr => N.shiftr a (b mod 8)
  end.

Inductive expr :=
| ELit (v : val)
| EInp (i f : N)
| ECall (fam : N) (key : expr)          (* key value taken mod nkeys *)
| ECell (c : N)
| ETouch
| EPanicIf (c : N)
| EOp (o : binop) (a b : expr)
| EIf (c a b : expr).

Fixpoint comp (nk : N) (e : expr) (k : val -> body) : body :=
  match e with
  | ELit v => k v
  | EInp i f => RdIn (i, f) k
  | ECall fam ke => comp nk ke (fun kv => CallQ (fam, kv mod nk) k)
  | ECell c => RdCell c k
  | ETouch => Touch (k 0)
  | EPanicIf c => PanicIf c (k 0)
  | EOp o a b => comp nk a (fun va => comp nk b (fun vb => k (binop_eval o va vb)))
  | EIf c a b => comp nk c (fun vc => if vc =? 0 then comp nk b k else comp nk a k)
  end.

Definition compile (nk : N) (e : expr) : body := comp nk e Ret.

(* program table: association list, missing nodes are the constant 0 *)
Fixpoint lookup_node (tbl : list (qkey * expr)) (q : qkey) : expr :=
  match tbl with
  | [] => ELit 0
  | (q', e) :: tbl' => if key_eqb q' q then e else lookup_node tbl' q
  end.

Definition prog_of (nk : N) (tbl : list (qkey * expr)) : qkey -> body :=
  fun q => compile nk (lookup_node tbl q).

(* Persist/PSem.v — the specification side of the persist-mode model, tied to the Core one.

   Persist/Model.v has its own copy of the type of bodies.  Instead of copying the semantic
   development as well (trace determinacy, evaluation over histories, durability levels, call
   closures: Core/SpecProofs.v, Core/Inv.v, Core/DurSem.v), bodies are translated to Core bodies
   ([tb]); the translation preserves runs, traces, evaluation and the call relation, so the
   semantic lemmas of the Core development are used as they are, for the translated program. *)
From Salsa Require Import Base.
From Salsa.Core Require Model Spec SpecProofs.
From Salsa.Persist Require Import Model Spec.

Module CM := Salsa.Core.Model.
Module CS := Salsa.Core.Spec.

Fixpoint tb (b : body) : CM.body :=
  match b with
  | Ret v => CM.Ret v
  | RdIn i k => CM.RdIn i (fun v => tb (k v))
  | CallQ q k => CM.CallQ q (fun v => tb (k v))
  | RdCell c k => CM.RdCell c (fun v => tb (k v))
  | Touch k => CM.Touch (tb k)
  | PanicIf c k => CM.PanicIf c (tb k)
  end.

Definition tprog (prog : qkey -> body) : qkey -> CM.body := fun q => tb (prog q).

Definition tenv (e : env) : CS.env := {| CS.e_in := e_in e; CS.e_cell := e_cell e; CS.e_q := e_q e |}.
Definition tsnap (sn : snapshot) : CS.snapshot := {| CS.sn_in := sn_in sn; CS.sn_cell := sn_cell sn |}.

Lemma run_tb b : forall e, CS.run (tenv e) (tb b) = run e b.
Proof.
  induction b as [v | i k IH | q k IH | c k IH | k IH | pc k IH]; intros e; cbn; auto.
Qed.

Lemma eval_tb prog : forall n sn q, CS.eval (tprog prog) n (tsnap sn) q = eval prog n sn q.
Proof.
  induction n as [|n IH]; intros sn q; [reflexivity|].
  cbn [CS.eval eval]. unfold tprog at 2.
  set (e := {| e_in := sn_in sn; e_cell := sn_cell sn; e_q := eval prog n sn |}).
  rewrite <- (run_tb (prog q) e).
  destruct (Salsa.Core.SpecProofs.trace_determined (tb (prog q))
              {| CS.e_in := CS.sn_in (tsnap sn); CS.e_cell := CS.sn_cell (tsnap sn);
                 CS.e_q := CS.eval (tprog prog) n (tsnap sn) |} (tenv e)) as [_ Hr]; [|symmetry; exact Hr].
  intros x _. destruct x as [i | d | c |]; cbn; auto.
Qed.

Lemma calls_tb b q : CS.calls (tb b) q -> calls b q.
Proof.
  induction b as [v | i k IH | q0 k IH | c k IH | k IH | pc k IH]; cbn; intros H; inversion H; subst.
  - eapply calls_in_rdin, IH; eassumption.
  - constructor.
  - eapply calls_in_call, IH; eassumption.
  - eapply calls_in_cell, IH; eassumption.
  - apply calls_in_touch, IH; assumption.
  - apply calls_in_panicif, IH; assumption.
Qed.

Lemma calls_below_tb prog rank : calls_below prog rank -> CS.calls_below (tprog prog) rank.
Proof. intros H q q' Hc. apply H. apply calls_tb. exact Hc. Qed.

Lemma tb_calls b q : calls b q -> CS.calls (tb b) q.
Proof.
  induction 1; cbn.
  - constructor.
  - eapply CS.calls_in_call; eassumption.
  - eapply CS.calls_in_rdin; eassumption.
  - eapply CS.calls_in_cell; eassumption.
  - apply CS.calls_in_touch; assumption.
  - apply CS.calls_in_panicif; assumption.
Qed.

(* the Core-side snapshot of a persist-mode database *)
Definition csnap (s : db) : CS.snapshot :=
  {| CS.sn_in := fun i => f_val (d_in s i); CS.sn_cell := d_cell s |}.

Lemma csnap_snap_of s : csnap s = tsnap (snap_of s).
Proof. reflexivity. Qed.

(* Persist/Statement.v — the full statement of C26 over the executable model (definitions only). *)
From Salsa Require Import Base.
From Salsa.Kern Require Import CoreK.
From Salsa.Persist Require Import Model Spec.

(* External state changes are followed by a new revision before the next request (C01/C04), in
   the database that is in use: [now] = the external state changed since the last new revision of
   the current database, [since] = it changed since the snapshot that a restore would load. *)
Fixpoint wf_ops (now since : bool) (os : list op) : Prop :=
  match os with
  | [] => True
  | o :: os' =>
      match o with
      | OGet _ => now = false /\ wf_ops false since os'
      | OSetCell _ _ => wf_ops true true os'
      | OSet _ _ _ | OSynth _ => wf_ops false since os'
      | OSnapshot => now = false /\ wf_ops false false os'
      | ORestore => wf_ops since since os'
      | _ => wf_ops now since os'
      end
  end.

Section Statement.
Variable prog : qkey -> body.
Variable noeq : qkey -> bool.
Variable pfam : N -> bool.
Variable fams : list N.
Variable lru0 : N -> lru_state.
Variable NF : nat.
Variable sfuel fuel : nat.

Definition pstep := step prog noeq pfam fams lru0 sfuel fuel.

(* every request returns the from-scratch value of the current inputs, or unwinds with one of the
   panics of the base model (never an uninitialised-ingredient panic, never out of fuel) *)
Definition get_ok (p : pstate) (q : qkey) (r : out) : Prop :=
  r = POk (eval prog NF (snap_of (ps_db p)) q) \/ exists e, r = PPanic (PB e).

Fixpoint results_ok (p : pstate) (os : list op) : Prop :=
  match os with
  | [] => True
  | o :: os' =>
      (match o with OGet q => get_ok (fst (pstep p o)) q (snd (pstep p o)) | _ => True end) /\
      results_ok (fst (pstep p o)) os'
  end.

(* the class of runs in which the real crate (and this model of it) is known NOT to return
   from-scratch results: a request that hits an uninitialised function ingredient.  (Before fix
   e43c20c there was a second class: a snapshot in which flattening dropped a dependency with
   untracked reads; such a memo is now serialised as untracked, see
   ProofsFlatten.snap_memo_tracked.) *)
Fixpoint known_class_free (p : pstate) (os : list op) : Prop :=
  match os with
  | [] => True
  | o :: os' =>
      (match o with
       | OGet _ => snd (pstep p o) <> PPanic PUninit
       | _ => True
       end) /\
      known_class_free (fst (pstep p o)) os'
  end.
End Statement.

(* the durabilities an operation may install: the four levels (durabilities are numbers in the
   model; the kernels treat everything >= 3 as NEVER_CHANGE) *)
Definition dur_op (o : op) : Prop :=
  match o with OSet _ _ (Some d) => d <= 3 | _ => True end.

(* the persisted functions only call persisted functions: no dependency is flattened away *)
Definition persisted_closed (prog : qkey -> body) (pfam : N -> bool) : Prop :=
  forall q q', pfam (fst q) = true -> calls (prog q) q' -> pfam (fst q') = true.

(* The full statement.  PROVED (Persist/PTop.v, Props/C26.v):
   - for histories without ORestore (C26_results_no_restore), every program and pfam;
   - with the extra hypothesis [persisted_closed prog pfam] (C26_results_partial).
   NOT proved in general.  Missing: restore (snapshot s) re-establishes the invariant when a
   persisted function q calls a non-persisted function d.  The restored memo of q then has the
   LEAVES of d's memo as edges (ProofsFlatten: flatten_closed, flatten_sound_snapshot are the
   structural half), and d's memo is gone.  Two things are then needed that the invariant
   PInv.DInv (observer-relative changed_at stamps, as in Core/DInv.v) does not give:
   (a) the flattened edges are d's reads at the revision where D'S memo was verified, which
       need not be the revision where q's memo was verified (d may have been re-executed on
       its own since): a covering clause with one revision per expanded node, and, for the
       revisions in between, that a function leaf whose stamp is old NOW had an old stamp THEN;
   (b) when d is executed again after the restore, in a revision later than q's verified_at,
       and q is then validated through its flattened edges, q owes d's new memo
       "m_dur q <= m_dur d": this follows from the observer clause only if d's new changed_at
       is old, i.e. bounded by the current stamps of the leaves below d.
   Both are monotonicity-of-stamps facts across time.  Core/DInv.v has the clause for it
   (mo_stamp / ext_mono: changed_at is bounded by the current stamp of a direct read, and grows);
   it speaks about the memos of the direct reads, which a restored database does not have, and
   re-establishing it for a re-executed restored memo needs "the first changed leaf is read
   again" through the inlined trace of the expanded dependencies. *)
Definition C26_results_full_statement : Prop :=
  forall (prog : qkey -> body) (noeq : qkey -> bool) (pfam : N -> bool) (fams : list N)
         (lru0 : N -> lru_state) (rank : qkey -> nat) (NF : nat),
    calls_below prog rank -> (forall q, (rank q < NF)%nat) ->
    forall fuel sfuel, (forall p, (rank p < fuel)%nat) -> (forall p, (S (rank p) < sfuel)%nat) ->
    forall iv idur ops,
      (forall i, idur i <= 3) -> Forall dur_op ops ->
      wf_ops false false ops ->
      known_class_free prog noeq pfam fams lru0 sfuel fuel (pinit iv idur lru0) ops ->
      results_ok prog noeq pfam fams lru0 NF sfuel fuel (pinit iv idur lru0) ops.

(* Persist/Statement.v — the full statement of C26 over the executable model (definitions only). *)
From Salsa Require Import Base.
From Salsa.Kern Require Import CoreK.
From Salsa.Persist Require Import Model Spec.

(* External state changes are followed by a new revision before the next request (C01/C04), in
   the database that is in use: [now] = the external state changed since the last new revision of
   the current database, [since] = it changed since the snapshot that a restore would load. *)
Fixpoint wf_ops (now since : bool) (os : list op) : Prop :=
  match os with
  | [] => True
  | o :: os' =>
      match o with
      | OGet _ => now = false /\ wf_ops false since os'
      | OSetCell _ _ => wf_ops true true os'
      | OSet _ _ _ | OSynth _ => wf_ops false since os'
      | OSnapshot => now = false /\ wf_ops false false os'
      | ORestore => wf_ops since since os'
      | _ => wf_ops now since os'
      end
  end.

Section Statement.
Variable prog : qkey -> body.
Variable noeq : qkey -> bool.
Variable pfam : N -> bool.
Variable fams : list N.
Variable lru0 : N -> lru_state.
Variable NF : nat.
Variable sfuel fuel : nat.

Definition pstep := step prog noeq pfam fams lru0 sfuel fuel.

(* every request returns the from-scratch value of the current inputs, or unwinds with one of the
   panics of the base model (never an uninitialised-ingredient panic, never out of fuel) *)
Definition get_ok (p : pstate) (q : qkey) (r : out) : Prop :=
  r = POk (eval prog NF (snap_of (ps_db p)) q) \/ exists e, r = PPanic (PB e).

Fixpoint results_ok (p : pstate) (os : list op) : Prop :=
  match os with
  | [] => True
  | o :: os' =>
      (match o with OGet q => get_ok (fst (pstep p o)) q (snd (pstep p o)) | _ => True end) /\
      results_ok (fst (pstep p o)) os'
  end.

(* the class of runs in which the real crate (and this model of it) is known NOT to return
   from-scratch results: a request that hits an uninitialised function ingredient.  (Before fix
   e43c20c there was a second class: a snapshot in which flattening dropped a dependency with
   untracked reads; such a memo is now serialised as untracked, see
   ProofsFlatten.snap_memo_tracked.) *)
Fixpoint known_class_free (p : pstate) (os : list op) : Prop :=
  match os with
  | [] => True
  | o :: os' =>
      (match o with
       | OGet _ => snd (pstep p o) <> PPanic PUninit
       | _ => True
       end) /\
      known_class_free (fst (pstep p o)) os'
  end.
End Statement.

(* NOT proved.  Missing: (1) the Core invariant (Core/Inv*.v) re-proved for this persist-mode
   copy of the model; (2) restore (snapshot s) preserves it — which needs the SEMANTIC flattening
   lemma "an unchanged recorded support (ProofsFlatten.ok_edge) means an unchanged value", i.e.
   the invariant applied to the expanded dependencies; ProofsFlatten.flatten_sound is the
   structural half. *)
Definition C26_results_full_statement : Prop :=
  forall (prog : qkey -> body) (noeq : qkey -> bool) (pfam : N -> bool) (fams : list N)
         (lru0 : N -> lru_state) (rank : qkey -> nat) (NF : nat),
    calls_below prog rank -> (forall q, (rank q < NF)%nat) ->
    forall fuel sfuel, (forall p, (rank p < fuel)%nat) -> (forall p, (S (rank p) < sfuel)%nat) ->
    forall iv idur ops,
      wf_ops false false ops ->
      known_class_free prog noeq pfam fams lru0 sfuel fuel (pinit iv idur lru0) ops ->
      results_ok prog noeq pfam fams lru0 NF sfuel fuel (pinit iv idur lru0) ops.

(* Persist/Statement.v — the full statement of C26 over the executable model (definitions only). *)
From Salsa Require Import Base.
From Salsa.Kern Require Import CoreK.
From Salsa.Persist Require Import Model Spec.

(* External state changes are followed by a new revision before the next request (C01/C04), in
   the database that is in use: [now] = the external state changed since the last new revision of
   the current database, [since] = it changed since the snapshot that a restore would load. *)
Fixpoint wf_ops (now since : bool) (os : list op) : Prop :=
  match os with
  | [] => True
  | o :: os' =>
      match o with
      | OGet _ => now = false /\ wf_ops false since os'
      | OSetCell _ _ => wf_ops true true os'
      | OSet _ _ _ | OSynth _ => wf_ops false since os'
      | OSnapshot => now = false /\ wf_ops false false os'
      | ORestore => wf_ops since since os'
      | _ => wf_ops now since os'
      end
  end.

Section Statement.
Variable prog : qkey -> body.
Variable noeq : qkey -> bool.
Variable pfam : N -> bool.
Variable fams : list N.
Variable lru0 : N -> lru_state.
Variable NF : nat.
Variable sfuel fuel : nat.

Definition pstep := step prog noeq pfam fams lru0 sfuel fuel.

(* every request returns the from-scratch value of the current inputs, or unwinds with one of the
   panics of the base model (never an uninitialised-ingredient panic, never out of fuel) *)
Definition get_ok (p : pstate) (q : qkey) (r : out) : Prop :=
  r = POk (eval prog NF (snap_of (ps_db p)) q) \/ exists e, r = PPanic (PB e).

(* the same, strictly: the only panic of the base model that may unwind a request is an injected
   fault while some fault switch is on (no cycle panic, no backdate-violation assertion) *)
Definition get_ok_strict (p0 p : pstate) (q : qkey) (r : out) : Prop :=
  r = POk (eval prog NF (snap_of (ps_db p)) q) \/
  (r = PPanic (PB PInjected) /\ exists c, d_pcell (ps_db p0) c <> 0).

Fixpoint results_ok_strict (p : pstate) (os : list op) : Prop :=
  match os with
  | [] => True
  | o :: os' =>
      (match o with OGet q => get_ok_strict p (fst (pstep p o)) q (snd (pstep p o)) | _ => True end) /\
      results_ok_strict (fst (pstep p o)) os'
  end.

Fixpoint results_ok (p : pstate) (os : list op) : Prop :=
  match os with
  | [] => True
  | o :: os' =>
      (match o with OGet q => get_ok (fst (pstep p o)) q (snd (pstep p o)) | _ => True end) /\
      results_ok (fst (pstep p o)) os'
  end.

(* the class of runs in which the real crate (and this model of it) is known NOT to return
   from-scratch results: a request that hits an uninitialised function ingredient.  (Before fix
   e43c20c there was a second class: a snapshot in which flattening dropped a dependency with
   untracked reads; such a memo is now serialised as untracked, see
   ProofsFlatten.snap_memo_tracked.) *)
Fixpoint known_class_free (p : pstate) (os : list op) : Prop :=
  match os with
  | [] => True
  | o :: os' =>
      (match o with
       | OGet _ => snd (pstep p o) <> PPanic PUninit
       | _ => True
       end) /\
      known_class_free (fst (pstep p o)) os'
  end.
Lemma results_ok_of_strict : forall os p, results_ok_strict p os -> results_ok p os.
Proof.
  induction os as [|o os IH]; intros p Hs; [exact I|]. destruct Hs as [A B].
  split; [|apply IH; exact B].
  destruct o; try exact I. destruct A as [A | [A _]]; [left; exact A | right; eexists; exact A].
Qed.

End Statement.

(* the durabilities an operation may install: the four levels (durabilities are numbers in the
   model; the kernels treat everything >= 3 as NEVER_CHANGE) *)
Definition dur_op (o : op) : Prop :=
  match o with OSet _ _ (Some d) => d <= 3 | _ => True end.

(* every durability stays LOW (the default): writes keep or install LOW, synthetic writes are LOW *)
Definition low_op (o : op) : Prop :=
  match o with OSet _ _ (Some d) => d = 0 | OSynth d => d = 0 | _ => True end.

(* the functions that are not persisted only call functions that are not persisted: what a
   snapshot flattens away are memos that were computed after the last restore *)
Definition np_closed (prog : qkey -> body) (pfam : N -> bool) : Prop :=
  forall q q', pfam (fst q) = false -> calls (prog q) q' -> pfam (fst q') = false.

(* the persisted functions only call persisted functions: no dependency is flattened away *)
Definition persisted_closed (prog : qkey -> body) (pfam : N -> bool) : Prop :=
  forall q q', pfam (fst q) = true -> calls (prog q) q' -> pfam (fst q') = true.

(* The full statement.  PROVED (Persist/PTop.v, LTop.v, Props/C26.v), against the fixed flattening
   (a dependency without memo is kept as an edge; before that fix the statement was FALSE):
   - for histories without ORestore (C26_results_no_restore), every program and pfam;
   - with the extra hypothesis [persisted_closed prog pfam] (C26_results_partial): nothing is
     flattened away; all durabilities;
   - with the extra hypothesis [np_closed prog pfam] (C26_results_np): what is flattened away, to
     any depth, are memos of functions that are never serialised, which record their direct
     reads; all durabilities — memos validated by the durability short-cut over older
     dependencies (PInv.mo_sync / cconst, lifted to the caller's revision at restore time:
     PTop.exp_good), the durability owed to a flattened dependency that is executed again
     (PInvSem.floor_dur: old stamp by provenance, or marked verified, or computed now:
     PInv.ext_new / fresh_lb);
   - for every program and pfam when all durabilities are LOW (C26_results_low; development of
     stage 4, Persist/LInv*.v, LTop.v).
   In all these settings the only base panic that can unwind a request is an injected fault
   ([results_ok_strict]; C26_results_strict): stamps never decrease, also across restores.
   NOT proved: a program in which a function that is NOT persisted calls a persisted one, with
   some durability above LOW.  The inner recursion of collect_minimum_serialized_edges then
   expands memos of PERSISTED functions (it has no persistability test), and such a memo may be a
   restored one whose own edges are leaves already, with its own cover (PInv.good).  What the
   general invariant (Persist/PInv*.v: dlevel_ok holds for it, for all durabilities) still lacks
   is the restore step for that case: the inherited cover has to be re-rooted when the restored
   inner memo is older than its caller (short-cut), which needs, for every function read of a
   cover node — not only for the leaves that are never serialised (the [pf e = false] premise of
   PInv.good_exp) — "the read's memo is at least as recent as the node, or the read is constant
   in between"; that clause is not maintainable when a walk re-roots the nodes at the current
   revision while a flattened dependency keeps an older memo of its own (only the covered region
   is known to be constant between the two revisions, not the dependency's whole closure).  A
   constancy notion relative to the cover (instead of PInv.cconst) is the missing piece. *)
Definition C26_results_full_statement : Prop :=
  forall (prog : qkey -> body) (noeq : qkey -> bool) (pfam : N -> bool) (fams : list N)
         (lru0 : N -> lru_state) (rank : qkey -> nat) (NF : nat),
    calls_below prog rank -> (forall q, (rank q < NF)%nat) ->
    forall fuel sfuel, (forall p, (rank p < fuel)%nat) -> (forall p, (S (rank p) < sfuel)%nat) ->
    forall iv idur ops,
      (forall i, idur i <= 3) -> Forall dur_op ops ->
      wf_ops false false ops ->
      known_class_free prog noeq pfam fams lru0 sfuel fuel (pinit iv idur lru0) ops ->
      results_ok prog noeq pfam fams lru0 NF sfuel fuel (pinit iv idur lru0) ops.

(* Persist/Statement.v — the full statement of C26 over the executable model (definitions only). *)
From Salsa Require Import Base.
From Salsa.Kern Require Import CoreK.
From Salsa.Persist Require Import Model Spec.

(* External state changes are followed by a new revision before the next request (C01/C04), in
   the database that is in use: [now] = the external state changed since the last new revision of
   the current database, [since] = it changed since the snapshot that a restore would load. *)
Fixpoint wf_ops (now since : bool) (os : list op) : Prop :=
  match os with
  | [] => True
  | o :: os' =>
      match o with
      | OGet _ => now = false /\ wf_ops false since os'
      | OSetCell _ _ => wf_ops true true os'
      | OSet _ _ _ | OSynth _ => wf_ops false since os'
      | OSnapshot => now = false /\ wf_ops false false os'
      | ORestore => wf_ops since since os'
      | _ => wf_ops now since os'
      end
  end.

Section Statement.
Variable prog : qkey -> body.
Variable noeq : qkey -> bool.
Variable pfam : N -> bool.
Variable fams : list N.
Variable lru0 : N -> lru_state.
Variable NF : nat.
Variable sfuel fuel : nat.

Definition pstep := step prog noeq pfam fams lru0 sfuel fuel.

(* every request returns the from-scratch value of the current inputs, or unwinds with one of the
   panics of the base model (never an uninitialised-ingredient panic, never out of fuel) *)
Definition get_ok (p : pstate) (q : qkey) (r : out) : Prop :=
  r = POk (eval prog NF (snap_of (ps_db p)) q) \/ exists e, r = PPanic (PB e).

Fixpoint results_ok (p : pstate) (os : list op) : Prop :=
  match os with
  | [] => True
  | o :: os' =>
      (match o with OGet q => get_ok (fst (pstep p o)) q (snd (pstep p o)) | _ => True end) /\
      results_ok (fst (pstep p o)) os'
  end.

(* the class of runs in which the real crate (and this model of it) is known NOT to return
   from-scratch results: a request that hits an uninitialised function ingredient.  (Before fix
   e43c20c there was a second class: a snapshot in which flattening dropped a dependency with
   untracked reads; such a memo is now serialised as untracked, see
   ProofsFlatten.snap_memo_tracked.) *)
Fixpoint known_class_free (p : pstate) (os : list op) : Prop :=
  match os with
  | [] => True
  | o :: os' =>
      (match o with
       | OGet _ => snd (pstep p o) <> PPanic PUninit
       | _ => True
       end) /\
      known_class_free (fst (pstep p o)) os'
  end.
End Statement.

(* the durabilities an operation may install: the four levels (durabilities are numbers in the
   model; the kernels treat everything >= 3 as NEVER_CHANGE) *)
Definition dur_op (o : op) : Prop :=
  match o with OSet _ _ (Some d) => d <= 3 | _ => True end.

(* every durability stays LOW (the default): writes keep or install LOW, synthetic writes are LOW *)
Definition low_op (o : op) : Prop :=
  match o with OSet _ _ (Some d) => d = 0 | OSynth d => d = 0 | _ => True end.

(* the persisted functions only call persisted functions: no dependency is flattened away *)
Definition persisted_closed (prog : qkey -> body) (pfam : N -> bool) : Prop :=
  forall q q', pfam (fst q) = true -> calls (prog q) q' -> pfam (fst q') = true.

(* The full statement.  PROVED (Persist/PTop.v, Props/C26.v), against the fixed flattening (a
   dependency without memo is kept as an edge; before that fix the statement was FALSE):
   - for histories without ORestore (C26_results_no_restore), every program and pfam;
   - with the extra hypothesis [persisted_closed prog pfam] (C26_results_partial);
   - for every program and pfam when all durabilities are LOW (C26_results_low): the
     dependencies that a snapshot flattens away, to any depth, stay observers (PInv.good).
   NOT proved: restore of a memo with flattened dependencies when some durability is above LOW.
   Two things are then needed that the LOW case avoids:
   (a) a memo of durability >= MEDIUM may have been validated by the durability short-cut while
       its dependencies' memos stayed at older revisions: the flattened edges are then the
       dependency's reads at a revision BEFORE the memo's verified_at (in LOW mode a memo of
       durability LOW was verified by a walk or an execution, so its dependencies are at least
       as recent — PInv.mo_sync — and a memo of higher durability reads no input at all);
   (b) when a flattened dependency is executed again after the restore, in a revision later
       than the restored memo's verified_at, and the memo is then validated through its flattened
       edges, it owes the dependency's new memo "m_dur memo <= m_dur dependency" (trivial when
       the durability is LOW): this follows from the observer clause only if the new changed_at
       is old, i.e. bounded by the current stamps of the leaves below — a provenance clause like
       Core/DInv.v's mo_stamp / ext_mono, over memos that a restored database does not have. *)
Definition C26_results_full_statement : Prop :=
  forall (prog : qkey -> body) (noeq : qkey -> bool) (pfam : N -> bool) (fams : list N)
         (lru0 : N -> lru_state) (rank : qkey -> nat) (NF : nat),
    calls_below prog rank -> (forall q, (rank q < NF)%nat) ->
    forall fuel sfuel, (forall p, (rank p < fuel)%nat) -> (forall p, (S (rank p) < sfuel)%nat) ->
    forall iv idur ops,
      (forall i, idur i <= 3) -> Forall dur_op ops ->
      wf_ops false false ops ->
      known_class_free prog noeq pfam fams lru0 sfuel fuel (pinit iv idur lru0) ops ->
      results_ok prog noeq pfam fams lru0 NF sfuel fuel (pinit iv idur lru0) ops.

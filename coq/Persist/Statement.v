(* Persist/Statement.v — the full statement of C26 over the executable model (definitions only). *)
From Salsa Require Import Base.
From Salsa.Kern Require Import CoreK.
From Salsa.Persist Require Import Model Spec.

(* External state changes are followed by a new revision before the next request (C01/C04), in
   the database that is in use: [now] = the external state changed since the last new revision of
   the current database, [since] = it changed since the snapshot that a restore would load. *)
Fixpoint wf_ops (now since : bool) (os : list op) : Prop :=
  match os with
  | [] => True
  | o :: os' =>
      match o with
      | OGet _ => now = false /\ wf_ops false since os'
      | OSetCell _ _ => wf_ops true true os'
      | OSet _ _ _ | OSynth _ => wf_ops false since os'
      | OSnapshot => now = false /\ wf_ops false false os'
      | ORestore => wf_ops since since os'
      | _ => wf_ops now since os'
      end
  end.

Section Statement.
Variable prog : qkey -> body.
Variable noeq : qkey -> bool.
Variable pfam : N -> bool.
Variable fams : list N.
Variable lru0 : N -> lru_state.
Variable NF : nat.
Variable sfuel fuel : nat.

Definition pstep := step prog noeq pfam fams lru0 sfuel fuel.

(* every request returns the from-scratch value of the current inputs, or unwinds with one of the
   panics of the base model (never an uninitialised-ingredient panic, never out of fuel) *)
Definition get_ok (p : pstate) (q : qkey) (r : out) : Prop :=
  r = POk (eval prog NF (snap_of (ps_db p)) q) \/ exists e, r = PPanic (PB e).

(* the same, strictly: the only panic of the base model that may unwind a request is an injected
   fault while some fault switch is on (no cycle panic, no backdate-violation assertion) *)
Definition get_ok_strict (p0 p : pstate) (q : qkey) (r : out) : Prop :=
  r = POk (eval prog NF (snap_of (ps_db p)) q) \/
  (r = PPanic (PB PInjected) /\ exists c, d_pcell (ps_db p0) c <> 0).

Fixpoint results_ok_strict (p : pstate) (os : list op) : Prop :=
  match os with
  | [] => True
  | o :: os' =>
      (match o with OGet q => get_ok_strict p (fst (pstep p o)) q (snd (pstep p o)) | _ => True end) /\
      results_ok_strict (fst (pstep p o)) os'
  end.

Fixpoint results_ok (p : pstate) (os : list op) : Prop :=
  match os with
  | [] => True
  | o :: os' =>
      (match o with OGet q => get_ok (fst (pstep p o)) q (snd (pstep p o)) | _ => True end) /\
      results_ok (fst (pstep p o)) os'
  end.

(* the class of runs in which the real crate (and this model of it) is known NOT to return
   from-scratch results: a request that hits an uninitialised function ingredient.  (Before fix
   e43c20c there was a second class: a snapshot in which flattening dropped a dependency with
   untracked reads; such a memo is now serialised as untracked, see
   ProofsFlatten.snap_memo_tracked.) *)
Fixpoint known_class_free (p : pstate) (os : list op) : Prop :=
  match os with
  | [] => True
  | o :: os' =>
      (match o with
       | OGet _ => snd (pstep p o) <> PPanic PUninit
       | _ => True
       end) /\
      known_class_free (fst (pstep p o)) os'
  end.
Lemma results_ok_of_strict : forall os p, results_ok_strict p os -> results_ok p os.
Proof.
  induction os as [|o os IH]; intros p Hs; [exact I|]. destruct Hs as [A B].
  split; [|apply IH; exact B].
  destruct o; try exact I. destruct A as [A | [A _]]; [left; exact A | right; eexists; exact A].
Qed.

End Statement.

(* the durabilities an operation may install: the four levels (durabilities are numbers in the
   model; the kernels treat everything >= 3 as NEVER_CHANGE) *)
Definition dur_op (o : op) : Prop :=
  match o with OSet _ _ (Some d) => d <= 3 | _ => True end.

(* every durability stays LOW (the default): writes keep or install LOW, synthetic writes are LOW *)
Definition low_op (o : op) : Prop :=
  match o with OSet _ _ (Some d) => d = 0 | OSynth d => d = 0 | _ => True end.

(* the persisted functions only call persisted functions: no dependency is flattened away *)
Definition persisted_closed (prog : qkey -> body) (pfam : N -> bool) : Prop :=
  forall q q', pfam (fst q) = true -> calls (prog q) q' -> pfam (fst q') = true.

(* The full statement.  PROVED (Persist/PTop.v, Props/C26.v), against the fixed flattening (a
   dependency without memo is kept as an edge; before that fix the statement was FALSE):
   - for histories without ORestore (C26_results_no_restore), every program and pfam;
   - with the extra hypothesis [persisted_closed prog pfam] (C26_results_partial);
   - for every program and pfam when all durabilities are LOW (C26_results_low): the
     dependencies that a snapshot flattens away, to any depth, stay observers (PInv.good).
   In all three settings the only base panic that can unwind a request is an injected fault
   ([results_ok_strict]; C26_results_strict): stamps never decrease, also across restores.
   NOT proved: restore of a memo with flattened dependencies when some durability is above LOW.
   Two things are then needed that the LOW case avoids:
   (a) a memo of durability >= MEDIUM may have been validated by the durability short-cut while
       its dependencies' memos stayed at older revisions: the flattened edges are then the
       dependency's reads at a revision BEFORE the memo's verified_at.  Route: replace PInv.mo_sync
       by "dependency verified at least as late, OR the window between the two revisions is
       stable at the memo's level (DurSem.wstable)", and lift such a dependency to its caller's
       revision at restore time (DurSem.durge_stable gives the same reads);
   (b) when a flattened dependency is executed again after the restore, in a revision later
       than the restored memo's verified_at, and the memo is then validated through its flattened
       edges, it owes the dependency's new memo "m_dur memo <= m_dur dependency".  With the stamp
       provenance that is now part of the invariant (PInv.mo_stamp, inv_ghost, ext_mono) this
       follows, by induction from the leaves, for every memo that existed when the walk started;
       what is still missing is the same bound for a memo of a flattened dependency that is
       stored DURING the walk itself (below a leaf that is re-executed and backdated, after an
       earlier leaf was validated without a value and then re-executed with a larger stamp): a
       "durability floor within a revision" for the memos below a memo that is being verified. *)
Definition C26_results_full_statement : Prop :=
  forall (prog : qkey -> body) (noeq : qkey -> bool) (pfam : N -> bool) (fams : list N)
         (lru0 : N -> lru_state) (rank : qkey -> nat) (NF : nat),
    calls_below prog rank -> (forall q, (rank q < NF)%nat) ->
    forall fuel sfuel, (forall p, (rank p < fuel)%nat) -> (forall p, (S (rank p) < sfuel)%nat) ->
    forall iv idur ops,
      (forall i, idur i <= 3) -> Forall dur_op ops ->
      wf_ops false false ops ->
      known_class_free prog noeq pfam fams lru0 sfuel fuel (pinit iv idur lru0) ops ->
      results_ok prog noeq pfam fams lru0 NF sfuel fuel (pinit iv idur lru0) ops.

(* Persist/PInvSem.v — port of Core/DInvSem.v to the persist-mode model: when may a memo be
   marked verified now (edge walk or durability short-cut), and when is a freshly computed memo
   ok, including what every observer of the query is owed.  (No stamp-provenance lemma: the
   backdate-violation panic is an allowed outcome here.) *)
From Salsa Require Import Base.
From Salsa.Kern Require Import CoreK CoreKFacts.
From Salsa.Core Require Import Model Spec SpecProofs Inv DurSem.
From Salsa.Persist Require Import Model PSem PWp PInv.

Section Sem.
Variable prog : qkey -> CM.body.
Variable rank : qkey -> nat.
Hypothesis Hrank : calls_below prog rank.
Variable NF : nat.
Hypothesis Hbound : forall q, (rank q < NF)%nat.
Notation E := (E prog NF).
Notation tr := (tr prog NF).
Notation envat := (envat prog NF).
Notation durge := (durge prog NF).
Notation clos := (clos prog NF).
Notation dmemo_ok := (dmemo_ok prog NF).
Notation DInv := (DInv prog NF).
Notation obs_pre := (obs_pre prog NF).

Ltac conj := repeat match goal with |- _ /\ _ => split end.

(* a memo verified now serves the whole closure of its query *)
Lemma obs_of_callee H D s d1 md1 d md :
  DInv H D s -> d_memo s d1 = Some md1 -> m_verified md1 = cur s -> clos H (cur s) d1 d ->
  d_memo s d = Some md ->
  E H (cur s) d = E H (m_verified md) d /\ m_dur md1 <= m_dur md.
Proof.
  intros HI Hm1 Hv1 Hc Hmd.
  pose proof (inv_memo _ _ _ _ _ HI d1 md1 Hm1) as Hok1.
  rewrite <- Hv1 in Hc. rewrite <- Hv1.
  apply (mo_obs _ _ _ _ _ _ _ Hok1 d md Hc Hmd).
  left. pose proof (mo_order _ _ _ _ _ _ _ (inv_memo _ _ _ _ _ HI d md Hmd)) as (_ & A & B).
  rewrite Hv1. lia.
Qed.

(* never-change callees stay what they are *)
Lemma never_now H D s a d :
  DInv H D s -> 1 <= a -> a <= cur s -> durge H D a 3 d ->
  tr H (cur s) d = tr H a d /\ E H (cur s) d = E H a d /\ durge H D (cur s) 3 d.
Proof.
  intros HI Ha Hle Hd.
  apply (durge_stable prog rank Hrank NF Hbound H D 3 a (cur s) d (cur s));
    [lia | apply (stable_never prog NF H D s a HI Ha) | exact Hd | exact Hle | lia].
Qed.

(* ---------------------------------------------------------------- marking a memo verified now *)
Lemma revalidate_ok H D s q m :
  DInv H D s -> d_memo s q = Some m ->
  agree_on (envat H (m_verified m)) (envat H (cur s)) (tr H (m_verified m) q) ->
  (forall i, In (RIn i) (tr H (m_verified m) q) -> D (cur s) i = D (m_verified m) i) ->
  durge H D (cur s) (m_dur m) q ->
  (forall d md, clos H (cur s) q d -> d <> q -> d_memo s d = Some md ->
     E H (cur s) d = E H (m_verified md) d /\ m_dur m <= m_dur md) ->
  let m' := reverify m (cur s) in
  DInv H D (store s q m') /\ dext s (store s q m') /\ E H (cur s) q = E H (m_verified m) q.
Proof.
  intros HI Hm Hag HDin Hdg Hclos m'.
  pose proof (inv_memo _ _ _ _ _ HI q m Hm) as Hok.
  destruct (trace_determined (prog q) _ _ Hag) as [Htr Hrun].
  assert (HE : E H (cur s) q = E H (m_verified m) q).
  { rewrite !(E_unfold prog rank Hrank NF Hbound). exact Hrun. }
  assert (Htr' : tr H (cur s) q = tr H (m_verified m) q) by exact Htr.
  pose proof (mo_order _ _ _ _ _ _ _ Hok) as (Ho1 & Ho2 & Ho3).
  assert (Hfin : DInv H D (store s q m') /\ dext s (store s q m')).
  { apply (DInv_store prog NF H D s q m' HI); [reflexivity | | |].
    - destruct Hok as [a b c d e f g h i j].
      constructor; cbn [m' reverify m_val m_verified m_changed m_dur m_untracked m_edges];
        rewrite ?cur_store, ?Htr'; auto.
      + pose proof (inv_cur _ _ _ _ _ HI). lia.
      + intros x Hx. rewrite HE. apply b; exact Hx.
      + intros i0 Hi0. destruct (c i0 Hi0) as [A | A]; [left; exact A | right].
        rewrite (HDin i0 Hi0). exact A.
      + intros d0 Hd0. destruct (d d0 Hd0) as [A | A]; [left; exact A | right].
        apply (never_now H D s (m_verified m) d0 HI Ho1 Ho3 A).
      + intros d0 md Hd0 Hmd _. unfold store in Hmd; cbn in Hmd. unfold upd in Hmd.
        destruct (key_eqb_spec q d0) as [<- | Hne].
        * injection Hmd as <-. split; [reflexivity | cbn; lia].
        * apply (Hclos d0 md Hd0); [congruence | exact Hmd].
    - intros g mg Hg Hne Hcl Hpre.
      pose proof (inv_memo _ _ _ _ _ HI g mg Hg) as Hokg.
      destruct (mo_obs _ _ _ _ _ _ _ Hokg q m Hcl Hm) as [A B]; [exact Hpre|].
      split; [rewrite A; symmetry; exact HE | exact B].
    - intros m0 Hm0 Hv0. rewrite Hm in Hm0. injection Hm0 as <-.
      split; [|cbn; lia]. intros _. unfold m'. rewrite <- Hv0. symmetry. apply reverify_same. }
  destruct Hfin as [A B]. split; [exact A|]. split; [exact B | exact HE].
Qed.

(* The durability short-cut: nothing at the memo's level was written since it was verified. *)
Lemma shortcut_ok H D s q m :
  DInv H D s -> d_memo s q = Some m ->
  lcs s (m_dur m) <= m_verified m ->
  let m' := reverify m (cur s) in
  DInv H D (store s q m') /\ dext s (store s q m') /\ E H (cur s) q = E H (m_verified m) q.
Proof.
  intros HI Hm Hlc.
  pose proof (inv_memo _ _ _ _ _ HI q m Hm) as Hok.
  pose proof (mo_order _ _ _ _ _ _ _ Hok) as (Ho1 & Ho2 & Ho3).
  destruct (N.eq_dec (m_verified m) (cur s)) as [Heq | Hne].
  - (* already verified now: nothing moves *)
    apply (revalidate_ok H D s q m HI Hm); rewrite <- ?Heq.
    + intros x _. reflexivity.
    + intros i _. reflexivity.
    + apply (mo_durge _ _ _ _ _ _ _ Hok).
    + intros d md Hd Hdq Hmd.
      apply (mo_obs _ _ _ _ _ _ _ Hok d md Hd Hmd). left.
      pose proof (mo_order _ _ _ _ _ _ _ (inv_memo _ _ _ _ _ HI d md Hmd)) as (_ & A & B). lia.
  - assert (Hk : 1 <= m_dur m).
    { destruct (N.eq_dec (m_dur m) 0) as [H0 | H0]; [|lia].
      rewrite H0 in Hlc. unfold lcs in Hlc. rewrite lc_zero in Hlc. unfold cur in *. lia. }
    pose proof (stable_now prog NF H D s (m_dur m) (m_verified m) HI Hlc) as Hw.
    pose proof (mo_durge _ _ _ _ _ _ _ Hok) as Hdg.
    assert (Hst : forall d, durge H D (m_verified m) (m_dur m) d ->
              tr H (cur s) d = tr H (m_verified m) d /\ E H (cur s) d = E H (m_verified m) d /\
              durge H D (cur s) (m_dur m) d).
    { intros d Hd.
      apply (durge_stable prog rank Hrank NF Hbound H D (m_dur m) (m_verified m) (cur s) d (cur s));
        [exact Hk | exact Hw | exact Hd | exact Ho3 | lia]. }
    apply (revalidate_ok H D s q m HI Hm).
    + intros x Hx. destruct x as [i | d | c |]; cbn.
      * symmetry. apply (Hw i); [apply (durge_in _ _ _ _ _ _ _ _ Hdg Hx) | lia | lia].
      * symmetry. apply (Hst d). apply (durge_q _ _ _ _ _ _ _ _ Hdg Hx).
      * exfalso. assert (m_dur m = 0); [|lia].
        apply (durge_untr _ _ _ _ _ _ _ _ Hdg Hx). right; eauto.
      * reflexivity.
    + intros i Hi. apply (Hw i); [apply (durge_in _ _ _ _ _ _ _ _ Hdg Hi) | lia | lia].
    + apply (Hst q Hdg).
    + intros d md Hd Hdq Hmd.
      apply (clos_stable prog rank Hrank NF Hbound H D (m_dur m) (m_verified m) (cur s) q (cur s) Hk Hw Hdg Ho3 (N.le_refl _)) in Hd.
      pose proof (durge_clos _ _ _ _ _ _ _ _ Hdg Hd) as Hdd.
      destruct (mo_obs _ _ _ _ _ _ _ Hok d md Hd Hmd) as [A B];
        [right; exists (m_dur m); split; assumption|].
      split; [|exact B]. rewrite <- A. apply (Hst d Hdd).
Qed.

(* ---------------------------------------------------------------- frames *)
Record covers (s : db) (pre : list rd) (fr : frame) : Prop := {
  cv_in : forall i, In (RIn i) pre ->
          In (EIn i) (fr_edges fr) /\
          f_changed (d_in s i) <= fr_changed fr /\ fr_dur fr <= f_dur (d_in s i);
  cv_q : forall d, In (RQ d) pre ->
         exists md, d_memo s d = Some md /\ m_verified md = cur s /\ m_val md <> None /\
                    m_changed md <= fr_changed fr /\ fr_dur fr <= m_dur md /\
                    In (EQ d) (fr_edges fr);
  cv_cell : forall x, In x pre -> untr x ->
            fr_untracked fr = true /\ fr_changed fr = cur s /\ fr_dur fr = 0;
  cv_edges_q : forall d, In (EQ d) (fr_edges fr) -> In (RQ d) pre;
  cv_le : fr_changed fr <= cur s;
  cv_dur3 : fr_dur fr <= 3;
  cv_untr : fr_untracked fr = true -> fr_dur fr = 0;
  (* the frame's durability is exactly the minimum over what was read *)
  cv_lb : forall k, k <= 3 ->
          (forall i, In (RIn i) pre -> k <= f_dur (d_in s i)) ->
          (forall d, In (RQ d) pre -> forall md, d_memo s d = Some md -> k <= m_dur md) ->
          (forall x, In x pre -> untr x -> k = 0) ->
          k <= fr_dur fr
}.

Lemma covers_frame0 s : 1 <= cur s -> covers s [] frame0.
Proof.
  intros Hc. constructor.
  - intros i [].
  - intros d [].
  - intros x [].
  - intros d [].
  - cbn. unfold REV_START. exact Hc.
  - cbn. unfold D_NEVER. lia.
  - discriminate.
  - intros k Hk _ _ _. exact Hk.
Qed.

(* what an observer g (or the query's own memo verified now) is owed about the frame's
   durability, when the new run reads what g saw *)
Lemma frame_dur_lb H D s q fr g mg :
  DInv H D s -> covers s (tr H (cur s) q) fr ->
  d_memo s g = Some mg -> clos H (m_verified mg) g q ->
  tr H (cur s) q = tr H (m_verified mg) q ->
  (forall i, In (RIn i) (tr H (cur s) q) -> D (cur s) i = D (m_verified mg) i) ->
  (forall d md, In (RQ d) (tr H (cur s) q) -> d_memo s d = Some md ->
                obs_pre H D s (m_verified mg) d md) ->
  m_dur mg <= fr_dur fr.
Proof.
  intros HI Hcv Hg Hcl Htr HDi Hpre.
  pose proof (inv_memo _ _ _ _ _ HI g mg Hg) as Hokg.
  pose proof (durge_clos _ _ _ _ _ _ _ _ (mo_durge _ _ _ _ _ _ _ Hokg) Hcl) as Hdq.
  apply (cv_lb _ _ _ Hcv).
  - apply (mo_dur3 _ _ _ _ _ _ _ Hokg).
  - intros i Hi.
    rewrite <- (inv_dur _ _ _ _ _ HI i (cur s)); [|apply (inv_in_le _ _ _ _ _ HI) | lia].
    rewrite (HDi i Hi). rewrite Htr in Hi. apply (durge_in _ _ _ _ _ _ _ _ Hdq Hi).
  - intros d Hd md Hmd. pose proof Hd as Hd'. rewrite Htr in Hd'.
    pose proof (clos_right _ _ _ _ _ _ _ Hcl Hd') as Hcd.
    apply (mo_obs _ _ _ _ _ _ _ Hokg d md Hcd Hmd). apply Hpre; assumption.
  - intros x Hx Hu. rewrite Htr in Hx. apply (durge_untr _ _ _ _ _ _ _ _ Hdq Hx Hu).
Qed.

(* A freshly computed memo may be stored: it is ok, and every observer is served. *)
Lemma fresh_store_ok H D s q fr v ch (old : option memo) :
  DInv H D s ->
  covers s (tr H (cur s) q) fr ->
  v = E H (cur s) q ->
  d_memo s q = old ->
  (forall m0, old = Some m0 -> m_verified m0 = cur s -> m_val m0 = None) ->
  (* ch is either the frame's stamp, or the old memo's stamp when the value is unchanged and
     the durability did not decrease *)
  (ch = fr_changed fr \/
   exists o ov, old = Some o /\ m_val o = Some ov /\ ov = v /\ ch = m_changed o /\
                m_dur o <= fr_dur fr) ->
  let m' := fresh_memo v (cur s) ch fr in
  DInv H D (store s q m') /\ dext s (store s q m').
Proof.
  intros HI Hcv Hv Hold Hnv Hch m'.
  assert (Hch_le : ch <= cur s).
  { destruct Hch as [-> | (o & ov & Ho & _ & _ & -> & _)].
    - apply (cv_le _ _ _ Hcv).
    - subst old. pose proof (mo_order _ _ _ _ _ _ _ (inv_memo _ _ _ _ _ HI q o Ho)). lia. }
  assert (Hcur1 : 1 <= cur s) by apply (inv_cur _ _ _ _ _ HI).
  assert (HDcur : forall i, D (cur s) i = f_dur (d_in s i)).
  { intros i. apply (inv_dur _ _ _ _ _ HI); [apply (inv_in_le _ _ _ _ _ HI) | lia]. }
  (* callees of the new run: verified now *)
  assert (Hcallee : forall d, In (RQ d) (tr H (cur s) q) ->
            exists md, d_memo s d = Some md /\ m_verified md = cur s /\
                       m_changed md <= fr_changed fr /\ fr_dur fr <= m_dur md /\
                       durge H D (cur s) (m_dur md) d).
  { intros d Hd. destruct (cv_q _ _ _ Hcv d Hd) as (md & Hmd & Hvd & _ & Hcd & Hdd & _).
    exists md. conj; auto. rewrite <- Hvd.
    apply (mo_durge _ _ _ _ _ _ _ (inv_memo _ _ _ _ _ HI d md Hmd)). }
  assert (Hdg : durge H D (cur s) (fr_dur fr) q).
  { constructor.
    - intros i Hi. rewrite HDcur. apply (cv_in _ _ _ Hcv i Hi).
    - intros d Hd. destruct (Hcallee d Hd) as (md & _ & _ & _ & Hle & Hdd).
      eapply durge_mono; [exact Hle | exact Hdd].
    - intros x Hx Hu. apply (cv_cell _ _ _ Hcv x Hx Hu). }
  apply (DInv_store prog NF H D s q m' HI); [reflexivity | | |].
  - (* the new memo is ok *)
    constructor; cbn [m' fresh_memo m_val m_verified m_changed m_dur m_untracked m_edges]; rewrite ?cur_store.
    + lia.
    + intros x Hx. injection Hx as <-. exact Hv.
    + intros i Hi. left. apply (cv_in _ _ _ Hcv i Hi).
    + intros d Hd. left. destruct (cv_q _ _ _ Hcv d Hd) as (md & _ & _ & _ & _ & _ & Hin). exact Hin.
    + intros x Hx Hu. apply (cv_cell _ _ _ Hcv x Hx Hu).
    + intros d Hd. apply (cv_edges_q _ _ _ Hcv d Hd).
    + apply (cv_untr _ _ _ Hcv).
    + exact Hdg.
    + apply (cv_dur3 _ _ _ Hcv).
    + intros d md Hd Hmd _. unfold store in Hmd; cbn in Hmd. unfold upd in Hmd.
      destruct (key_eqb_spec q d) as [<- | Hne].
      * injection Hmd as <-. split; [reflexivity | cbn; lia].
      * assert (Hstep : exists d1, In (RQ d1) (tr H (cur s) q) /\ clos H (cur s) d1 d).
        { destruct Hd as [f | f d1 e Hin Hd1]; [contradiction | exists d1; split; assumption]. }
        destruct Hstep as (d1 & Hin1 & Hd1).
        destruct (Hcallee d1 Hin1) as (md1 & Hmd1 & Hvd1 & _ & Hle1 & _).
        destruct (obs_of_callee H D s d1 md1 d md HI Hmd1 Hvd1 Hd1 Hmd) as (HEd & Hdd).
        split; [exact HEd | lia].
  - (* observers *)
    intros g mg Hg Hne Hcl Hpre.
    pose proof (inv_memo _ _ _ _ _ HI g mg Hg) as Hokg.
    pose proof (mo_order _ _ _ _ _ _ _ Hokg) as (Hg1 & Hg2 & Hg3).
    pose proof (durge_clos _ _ _ _ _ _ _ _ (mo_durge _ _ _ _ _ _ _ Hokg) Hcl) as Hdgq.
    assert (Hmdle : forall d md, d_memo s d = Some md -> m_changed md <= cur s).
    { intros d md Hmd. pose proof (mo_order _ _ _ _ _ _ _ (inv_memo _ _ _ _ _ HI d md Hmd)). lia. }
    destruct (N.eq_dec (m_verified mg) (cur s)) as [Heq | Hnow].
    { (* g is verified now *)
      split; [rewrite Heq; reflexivity|].
      apply (frame_dur_lb H D s q fr g mg HI Hcv Hg Hcl); rewrite ?Heq; auto.
      intros d md _ Hmd. left. apply (Hmdle d md Hmd). }
    assert (Hlt : m_verified mg < cur s) by lia.
    (* stable since v_g at some level *)
    assert (Hstable : forall k, durge H D (m_verified mg) k q -> lcs s k <= m_verified mg ->
              E H (m_verified mg) q = E H (cur s) q /\ m_dur mg <= m_dur m').
    { intros k Hdk Hlck.
      assert (Hk : 1 <= k).
      { destruct (N.eq_dec k 0) as [-> | H0]; [|lia].
        unfold lcs in Hlck. rewrite lc_zero in Hlck. unfold cur in *. lia. }
      pose proof (stable_now prog NF H D s k (m_verified mg) HI Hlck) as Hw.
      destruct (durge_stable prog rank Hrank NF Hbound H D k (m_verified mg) (cur s) q (cur s) Hk Hw Hdk Hg3 (N.le_refl _))
        as (Htr & HE & _).
      split; [symmetry; exact HE|].
      apply (frame_dur_lb H D s q fr g mg HI Hcv Hg Hcl Htr).
      - intros i Hi. rewrite Htr in Hi.
        apply (Hw i); [apply (durge_in _ _ _ _ _ _ _ _ Hdk Hi) | lia | lia].
      - intros d md Hd _. rewrite Htr in Hd. right. exists k.
        split; [apply (durge_q _ _ _ _ _ _ _ _ Hdk Hd) | exact Hlck]. }
    destruct Hpre as [Hle | (k & Hdk & Hlck)]; [|apply (Hstable k Hdk Hlck)].
    cbn [m' fresh_memo m_changed] in Hle.
    destruct Hch as [-> | (o & ov & Ho & Hov & Heq & -> & Hdo)].
    + (* not backdated: every read of the new run has a stamp <= v_g *)
      assert (Hsame_ans : forall x, In x (tr H (cur s) q) -> In x (tr H (m_verified mg) q) ->
                answer (envat H (cur s)) x = answer (envat H (m_verified mg)) x).
      { intros x Hx Hx'. destruct x as [i | d | c |]; cbn.
        - destruct (cv_in _ _ _ Hcv i Hx) as (_ & Hst & _).
          rewrite (inv_in _ _ _ _ _ HI i (cur s)); [|apply (inv_in_le _ _ _ _ _ HI) | lia].
          rewrite (inv_in _ _ _ _ _ HI i (m_verified mg)); [reflexivity | lia | lia].
        - destruct (cv_q _ _ _ Hcv d Hx) as (md & Hmd & Hvd & _ & Hcd & _).
          pose proof (clos_right _ _ _ _ _ _ _ Hcl Hx') as Hcd'.
          destruct (mo_obs _ _ _ _ _ _ _ Hokg d md Hcd' Hmd) as [A _]; [left; lia|].
          rewrite A, Hvd. reflexivity.
        - destruct (cv_cell _ _ _ Hcv (RCell c) Hx) as (_ & Hcc & _); [right; eauto | lia].
        - reflexivity. }
      assert (Hag : agree_on (envat H (cur s)) (envat H (m_verified mg)) (tr H (cur s) q)).
      { destruct (first_changed_is_read_again (prog q) (envat H (cur s)) (envat H (m_verified mg)))
          as [Hag | (pre & x & post & Ht & _ & Hnea & post' & Ht')]; [exact Hag|].
        exfalso. apply Hnea. apply Hsame_ans.
        - unfold tr, Inv.tr. rewrite Ht. apply in_or_app; right; left; reflexivity.
        - unfold tr, Inv.tr. rewrite Ht'. apply in_or_app; right; left; reflexivity. }
      destruct (trace_determined _ _ _ Hag) as [Htr Hrun].
      assert (Htr' : tr H (cur s) q = tr H (m_verified mg) q) by (symmetry; exact Htr).
      split; [rewrite !(E_unfold prog rank Hrank NF Hbound); exact Hrun|].
      apply (frame_dur_lb H D s q fr g mg HI Hcv Hg Hcl Htr').
      * intros i Hi. destruct (cv_in _ _ _ Hcv i Hi) as (_ & Hst & _).
        rewrite HDcur. symmetry. apply (inv_dur _ _ _ _ _ HI); lia.
      * intros d md Hd Hmd. destruct (cv_q _ _ _ Hcv d Hd) as (md0 & Hmd0 & _ & _ & Hcd & _).
        rewrite Hmd in Hmd0. injection Hmd0 as <-. left. lia.
    + (* backdated: the value equals the old one, the durability did not decrease *)
      subst old.
      destruct (mo_obs _ _ _ _ _ _ _ Hokg q o Hcl Ho) as [A B]; [left; exact Hle|].
      split; [|cbn; lia].
      rewrite A. rewrite <- (mo_val _ _ _ _ _ _ _ (inv_memo _ _ _ _ _ HI q o Ho) ov Hov).
      rewrite Heq. exact Hv.
  - (* the query's own memo, if it was verified now (and evicted) *)
    intros m0 Hm0 Hv0.
    split; [intros Hx; exfalso; apply Hx; apply Hnv; [congruence | exact Hv0]|].
    cbn [m' fresh_memo m_dur].
    apply (frame_dur_lb H D s q fr q m0 HI Hcv Hm0); rewrite ?Hv0; auto.
    + apply clos_refl.
    + intros d md _ Hmd. left.
      pose proof (mo_order _ _ _ _ _ _ _ (inv_memo _ _ _ _ _ HI d md Hmd)). lia.
Qed.

(* ---------------------------------------------------------------- the edge walk succeeded *)
(* Every recorded edge is unchanged since the memo was verified: the memo may be marked
   verified now.  (Reads without an edge are of level NEVER_CHANGE: they cannot move.) *)
Lemma deep_ok H D s q m :
  DInv H D s -> d_memo s q = Some m -> m_untracked m = false ->
  (forall e, In e (m_edges m) ->
     match e with
     | EIn i => f_changed (d_in s i) <= m_verified m
     | EQ d => E H (m_verified m) d = E H (cur s) d /\ durge H D (cur s) (m_dur m) d /\
               exists md, d_memo s d = Some md /\ m_verified md = cur s /\ m_dur m <= m_dur md
     end) ->
  let m' := reverify m (cur s) in
  DInv H D (store s q m') /\ dext s (store s q m') /\ E H (cur s) q = E H (m_verified m) q.
Proof.
  intros HI Hm Hu Hc.
  pose proof (inv_memo _ _ _ _ _ HI q m Hm) as Hok.
  pose proof (mo_order _ _ _ _ _ _ _ Hok) as (Ho1 & Ho2 & Ho3).
  pose proof (mo_durge _ _ _ _ _ _ _ Hok) as Hdg.
  pose proof (stable_never prog NF H D s (m_verified m) HI Ho1) as Hw3.
  assert (Hin_same : forall i, In (RIn i) (tr H (m_verified m) q) ->
            sn_in (H (cur s)) i = sn_in (H (m_verified m)) i /\ D (cur s) i = D (m_verified m) i).
  { intros i Hi. destruct (mo_reads_in _ _ _ _ _ _ _ Hok i Hi) as [He | H3].
    - pose proof (Hc _ He) as Hle. cbn in Hle. split.
      + rewrite (inv_in _ _ _ _ _ HI i (m_verified m) Hle Ho3).
        apply (inv_in _ _ _ _ _ HI i (cur s)); [apply (inv_in_le _ _ _ _ _ HI) | lia].
      + rewrite (inv_dur _ _ _ _ _ HI i (m_verified m) Hle Ho3).
        apply (inv_dur _ _ _ _ _ HI i (cur s)); [apply (inv_in_le _ _ _ _ _ HI) | lia].
    - apply (Hw3 i); [lia | exact Ho3 | lia]. }
  assert (Hag : agree_on (envat H (m_verified m)) (envat H (cur s)) (tr H (m_verified m) q)).
  { intros x Hx. destruct x as [i | d | c |]; cbn.
    - symmetry. apply (Hin_same i Hx).
    - destruct (mo_reads_q _ _ _ _ _ _ _ Hok d Hx) as [He | H3].
      + exact (proj1 (Hc _ He)).
      + symmetry. apply (never_now H D s (m_verified m) d HI Ho1 Ho3 H3).
    - rewrite (mo_reads_cell _ _ _ _ _ _ _ Hok (RCell c) Hx) in Hu; [discriminate | right; eauto].
    - reflexivity. }
  destruct (trace_determined (prog q) _ _ Hag) as [Htr _].
  assert (Htr' : tr H (cur s) q = tr H (m_verified m) q) by exact Htr.
  apply (revalidate_ok H D s q m HI Hm Hag).
  - intros i Hi. apply (Hin_same i Hi).
  - constructor; rewrite Htr'.
    + intros i Hi. rewrite (proj2 (Hin_same i Hi)). apply (durge_in _ _ _ _ _ _ _ _ Hdg Hi).
    + intros d Hd. destruct (mo_reads_q _ _ _ _ _ _ _ Hok d Hd) as [He | H3].
      * exact (proj1 (proj2 (Hc _ He))).
      * eapply durge_mono; [apply (mo_dur3 _ _ _ _ _ _ _ Hok)|].
        apply (never_now H D s (m_verified m) d HI Ho1 Ho3 H3).
    + intros x Hx Hux. apply (durge_untr _ _ _ _ _ _ _ _ Hdg Hx Hux).
  - intros d md Hd Hdq Hmd.
    assert (Hstep : exists d1, In (RQ d1) (tr H (cur s) q) /\ clos H (cur s) d1 d).
    { destruct Hd as [f | f d1 e Hin Hd1]; [contradiction | exists d1; split; assumption]. }
    destruct Hstep as (d1 & Hin1 & Hd1). rewrite Htr' in Hin1.
    destruct (mo_reads_q _ _ _ _ _ _ _ Hok d1 Hin1) as [He | H3].
    + destruct (Hc _ He) as (_ & _ & md1 & Hmd1 & Hvd1 & Hle1).
      destruct (obs_of_callee H D s d1 md1 d md HI Hmd1 Hvd1 Hd1 Hmd) as (HEd & Hdd).
      split; [exact HEd | lia].
    + assert (H31 : (1 <= 3)) by lia.
      apply (clos_stable prog rank Hrank NF Hbound H D 3 (m_verified m) (cur s) d1 (cur s) H31 Hw3 H3 Ho3 (N.le_refl _)) in Hd1.
      pose proof (durge_clos _ _ _ _ _ _ _ _ H3 Hd1) as H3d.
      assert (Hcq : clos H (m_verified m) q d) by (eapply clos_step; eassumption).
      destruct (mo_obs _ _ _ _ _ _ _ Hok d md Hcq Hmd) as [A B].
      { right. exists 3. split; [exact H3d|]. unfold lcs. rewrite lc_never by lia. exact Ho1. }
      split; [|exact B]. rewrite <- A.
      apply (never_now H D s (m_verified m) d HI Ho1 Ho3 H3d).
Qed.

End Sem.

(* Persist/PWp.v — the weakest-precondition calculus of Core/Wp.v for the persist-mode monad
   (outcomes POk / PPanic / PFuel). *)
From Salsa Require Import Base.
From Salsa.Persist Require Import Model.

(* [wp m Q X s]: running m from s never runs out of fuel; a normal result satisfies Q,
   a panic satisfies X. *)
Definition wp {A} (m : M A) (Q : A -> db -> Prop) (X : ppanic -> db -> Prop) (s : db) : Prop :=
  match m s with
  | (s', POk a) => Q a s'
  | (s', PPanic p) => X p s'
  | (_, PFuel) => False
  end.

Lemma wp_ret {A} (a : A) (Q : A -> db -> Prop) (X : ppanic -> db -> Prop) s : Q a s -> wp (ret a) Q X s.
Proof. intros H; exact H. Qed.

Lemma wp_bind {A B} (m : M A) (f : A -> M B) (Q : B -> db -> Prop) (X : ppanic -> db -> Prop) s :
  wp m (fun a s' => wp (f a) Q X s') X s -> wp (bind m f) Q X s.
Proof.
  unfold wp, bind. destruct (m s) as [s' [a | p |]]; intros H; exact H.
Qed.

Lemma wp_get (Q : db -> db -> Prop) (X : ppanic -> db -> Prop) s : Q s s -> wp get Q X s.
Proof. intros H; exact H. Qed.

Lemma wp_modify f (Q : unit -> db -> Prop) (X : ppanic -> db -> Prop) s : Q tt (f s) -> wp (modify f) Q X s.
Proof. intros H; exact H. Qed.

Lemma wp_fail {A} p (Q : A -> db -> Prop) (X : ppanic -> db -> Prop) s : X p s -> wp (fail p) Q X s.
Proof. intros H; exact H. Qed.

Lemma wp_emit e (Q : unit -> db -> Prop) (X : ppanic -> db -> Prop) s :
  Q tt (set_log s (e :: d_log s)) -> wp (emit e) Q X s.
Proof. intros H; exact H. Qed.

Lemma wp_conseq {A} (m : M A) (Q Q' : A -> db -> Prop) (X X' : ppanic -> db -> Prop) s :
  wp m Q X s -> (forall a s', Q a s' -> Q' a s') -> (forall p s', X p s' -> X' p s') -> wp m Q' X' s.
Proof.
  unfold wp. destruct (m s) as [s' [a | p |]]; intros H HQ HX; auto.
Qed.

Lemma wp_inv {A} (m : M A) (Q : A -> db -> Prop) (X : ppanic -> db -> Prop) s :
  wp m Q X s ->
  (exists s' a, m s = (s', POk a) /\ Q a s') \/ (exists s' p, m s = (s', PPanic p) /\ X p s').
Proof.
  unfold wp. destruct (m s) as [s' [a | p |]]; intros H.
  - left; eauto.
  - right; eauto.
  - destruct H.
Qed.

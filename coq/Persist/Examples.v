(* Persist/Examples.v — concrete runs of the Persist model: a positive example (the shape of
   tests/persistence.rs::partial_query) satisfying the hypotheses of the C26 theorems, the former
   stale-value witness (now from-scratch, fix e43c20c), and the two remaining refutation witnesses that were replayed on the real crate (checks/notes/C26.txt). *)
From Salsa Require Import Base.
From Salsa.Kern Require Import CoreK.
From Salsa.Persist Require Import Model Spec ProofsRoundtrip ProofsFlatten.

Definition pfam (fam : N) : bool := fam <? 2.          (* families 0, 1 persisted; 2, 3 not *)
Definition noeq (q : qkey) : bool := fst q =? 2.
Definition nolru : N -> lru_state := fun _ => {| lru_cap := None; lru_set := [] |}.
Definition lru2 : N -> lru_state :=
  fun fam => if fam =? 1 then {| lru_cap := Some 2; lru_set := [] |} else {| lru_cap := None; lru_set := [] |}.
Definition iv (i : ikey) : val := 1.
Definition FUEL := 6%nat.

Definition run (prog : qkey -> body) (fams : list N) (lru0 : N -> lru_state) (ops : list op) :=
  run_ops prog noeq pfam fams lru0 FUEL FUEL (pinit iv (fun _ => 0) lru0) ops.

(* ---------------------------------------------------------------- positive: partial_query *)
(* plain(0) (persisted) = np(0) + 1, np(0) (not persisted) = input 0.0 *)
Definition prog_pq (q : qkey) : body :=
  if key_eqb q (0, 0) then CallQ (3, 0) (fun a => Ret ((a + 1) mod 256))
  else if key_eqb q (3, 0) then RdIn (0, 0) Ret
  else Ret 0.

Definition s_pq := ps_db (fst (run prog_pq [] nolru [OGet (0, 0)])).
Definition s_pq_restored := restore (Model.snapshot pfam FUEL s_pq) s_pq nolru.

Example ex_pq_flattened :
  option_map m_edges (d_memo s_pq (0, 0)) = Some [EQ (3, 0)] /\
  option_map m_edges (d_memo s_pq_restored (0, 0)) = Some [EIn (0, 0)] /\
  d_memo s_pq_restored (3, 0) = None /\
  lost_untracked pfam (d_memo s_pq) FUEL [EQ (3, 0)] = false.
Proof. vm_compute. repeat split. Qed.

(* restore; new revision; request: validated, not executed, same value *)
Example ex_pq_reuse :
  let r := run prog_pq [] nolru [OGet (0, 0); OSnapshot; ORestore; OSynth 0; OGet (0, 0)] in
  snd r = [POk 2; POk 0; POk 0; POk 0; POk 2] /\
  d_log (ps_db (fst r)) = [EvValidate (0, 0); EvExec (3, 0); EvExec (0, 0)].
Proof. vm_compute. split; reflexivity. Qed.

(* ... and after a write to the leaf the restored database re-executes and is from-scratch *)
Example ex_pq_write :
  let r := run prog_pq [] nolru [OGet (0, 0); OSnapshot; ORestore; OSet (0, 0) 7 None; OGet (0, 0)] in
  snd r = [POk 2; POk 0; POk 0; POk 0; POk 8] /\
  evalo prog_pq FUEL (snap_of (ps_db (fst r))) (0, 0) = Some 8.
Proof. vm_compute. split; reflexivity. Qed.

(* the hypotheses of flatten_closed / flatten_sound hold of these memo tables (written out as a
   finite map; it agrees with the state above on the two functions that have memos) *)
Definition m0 : memo := {| m_val := Some 2; m_verified := 1; m_changed := 1; m_dur := 0;
                           m_untracked := false; m_edges := [EQ (3, 0)] |}.
Definition m3 : memo := {| m_val := Some 1; m_verified := 1; m_changed := 1; m_dur := 0;
                           m_untracked := false; m_edges := [EIn (0, 0)] |}.
Definition mm_pq : qkey -> option memo := upd (upd (fun _ => None) (3, 0) (Some m3)) (0, 0) (Some m0).
Definition rank_pq (q : qkey) : nat := if key_eqb q (0, 0) then 1%nat else 0%nat.

Example ex_pq_mm : d_memo s_pq (0, 0) = mm_pq (0, 0) /\ d_memo s_pq (3, 0) = mm_pq (3, 0).
Proof. vm_compute. split; reflexivity. Qed.

Lemma mm_pq_cases g m : mm_pq g = Some m -> (g = (0, 0) /\ m = m0) \/ (g = (3, 0) /\ m = m3).
Proof.
  unfold mm_pq, upd. destruct (key_eqb_spec (0, 0) g) as [<-|_].
  - intros E. injection E as <-. now left.
  - destruct (key_eqb_spec (3, 0) g) as [<-|_]; [|discriminate]. intros E. injection E as <-. now right.
Qed.

Example ex_pq_hyps :
  (forall g m c, mm_pq g = Some m -> In (EQ c) (m_edges m) -> (rank_pq c < rank_pq g)%nat) /\
  (forall e, In e [EQ (3, 0)] -> (erank rank_pq e < FUEL)%nat) /\
  lost_untracked pfam mm_pq FUEL [EQ (3, 0)] = false /\
  flatten pfam mm_pq FUEL [EQ (3, 0)] = [EIn (0, 0)].
Proof.
  split; [|split; [|split]].
  - intros g m c Hm Hc. destruct (mm_pq_cases g m Hm) as [(-> & ->)|(-> & ->)]; cbn in Hc;
      destruct Hc as [Hc|[]]; try discriminate. injection Hc as <-. vm_compute. lia.
  - intros e [<-|[]]. vm_compute; lia.
  - vm_compute. reflexivity.
  - vm_compute. reflexivity.
Qed.

(* ---------------------------------------------------------------- flattened untracked dependency *)
(* plain(0) (persisted) = np(0), np(0) (not persisted) = external cell 0.  Before fix e43c20c the
   last request returned the stale 0 (the restored memo had origin `derived`, no edges, and was
   validated); now the memo is serialised as untracked and is re-executed in the new revision. *)
Definition prog_f2 (q : qkey) : body :=
  if key_eqb q (0, 0) then CallQ (3, 0) Ret
  else if key_eqb q (3, 0) then RdCell 0 Ret
  else Ret 0.
Definition ops_f2 := [OGet (0, 0); OSnapshot; ORestore; OSetCell 0 1; OSynth 0; OGet (0, 0)].

Example ex_f2_fixed :
  let r := run prog_f2 [] nolru ops_f2 in
  snd r = [POk 0; POk 0; POk 0; POk 0; POk 0; POk 1] /\               (* the last request returns 1 *)
  evalo prog_f2 FUEL (snap_of (ps_db (fst r))) (0, 0) = Some 1 /\    (* = from scratch *)
  d_log (ps_db (fst r)) = [EvExec (3, 0); EvExec (0, 0); EvExec (3, 0); EvExec (0, 0)] /\
  (* the serialised memo: no edges, untracked, because the expanded np(0) was untracked *)
  lost_untracked pfam (d_memo (ps_db (fst (run prog_f2 [] nolru [OGet (0, 0)])))) FUEL [EQ (3, 0)] = true /\
  option_map (fun m => (m_untracked m, m_edges m))
    (d_memo (ps_db (fst (run prog_f2 [] nolru [OGet (0, 0); OSnapshot; ORestore]))) (0, 0)) = Some (true, []).
Proof. vm_compute. repeat split. Qed.

(* in the revision of the snapshot the restored (untracked) memo is still returned without executing *)
Example ex_f2_same_revision :
  let r := run prog_f2 [] nolru [OGet (0, 0); OSnapshot; ORestore; OGet (0, 0)] in
  snd r = [POk 0; POk 0; POk 0; POk 0] /\ d_log (ps_db (fst r)) = [EvExec (3, 0); EvExec (0, 0)].
Proof. vm_compute. split; reflexivity. Qed.

(* the same history without snapshot/restore *)
Example ex_f2_twin :
  snd (run prog_f2 [] nolru [OGet (0, 0); OSetCell 0 1; OSynth 0; OGet (0, 0)]) = [POk 0; POk 0; POk 0; POk 1].
Proof. vm_compute. reflexivity. Qed.

(* ---------------------------------------------------------------- F1: uninitialised ingredient *)
(* plain(0) = lru_fn(0) (both persisted), lru_fn(0) = input 0.0 *)
Definition prog_f1 (q : qkey) : body :=
  if key_eqb q (0, 0) then CallQ (1, 0) Ret
  else if key_eqb q (1, 0) then RdIn (0, 0) Ret
  else Ret 0.
Definition ops_f1 := [OGet (0, 0); OSnapshot; ORestore; OSynth 0; OGet (0, 0)].

Example ex_f1 :
  let r := run prog_f1 [1] lru2 ops_f1 in
  snd r = [POk 1; POk 0; POk 0; POk 0; PPanic PUninit] /\
  evalo prog_f1 FUEL (snap_of (ps_db (fst r))) (0, 0) = Some 1.
Proof. vm_compute. split; reflexivity. Qed.

(* calling the dependency's function once (on any key) before avoids the panic *)
Example ex_f1_warm :
  snd (run prog_f1 [1] lru2 [OGet (0, 0); OSnapshot; ORestore; OGet (1, 5); OSynth 0; OGet (0, 0)])
  = [POk 1; POk 0; POk 0; POk 0; POk 0; POk 1].
Proof. vm_compute. reflexivity. Qed.

(* ---------------------------------------------------------------- F3: evicted dependency *)
(* plain(0) = lru_fn(0); lru_fn(k) = input k.0; capacity 2: lru_fn(0) is evicted by the new revision *)
Definition prog_f3 (q : qkey) : body :=
  if key_eqb q (0, 0) then CallQ (1, 0) Ret
  else if fst q =? 1 then RdIn (snd q, 0) Ret
  else Ret 0.
Definition ops_f3 := [OGet (0, 0); OGet (1, 1); OGet (1, 2); OSynth 0; OSnapshot; ORestore; OGet (1, 3); OGet (0, 0)].
Definition ops_f3_twin := [OGet (0, 0); OGet (1, 1); OGet (1, 2); OSynth 0; OGet (1, 3); OGet (0, 0)].

Example ex_f3 :
  let r := run prog_f3 [1] lru2 ops_f3 in
  let t := run prog_f3 [1] lru2 ops_f3_twin in
  (* same results ... *)
  snd r = [POk 1; POk 1; POk 1; POk 0; POk 0; POk 0; POk 1; POk 1] /\
  snd t = [POk 1; POk 1; POk 1; POk 0; POk 1; POk 1] /\
  (* ... but the restored database executes plain(0) and lru_fn(0) again, the original validates them *)
  firstn 2 (d_log (ps_db (fst r))) = [EvExec (1, 0); EvExec (0, 0)] /\
  firstn 2 (d_log (ps_db (fst t))) = [EvValidate (0, 0); EvValidate (1, 0)] /\
  (* no input changed at all *)
  (forall i, f_changed (d_in (ps_db (fst r)) i) = 1).
Proof. vm_compute. repeat split. Qed.

(* ---------------------------------------------------------------- the results theorems apply *)
(* (Persist/PTop.v; non-vacuity of their hypotheses on concrete histories) *)
From Salsa.Persist Require Statement PTop LTop.

(* a program whose persisted functions only call persisted functions:
   plain(0) = lru_fn(0) + input 0.1, lru_fn(0) = input 0.0; families 0 and 1 are persisted *)
Definition prog_cl (q : qkey) : body :=
  if key_eqb q (0, 0) then CallQ (1, 0) (fun a => RdIn (0, 1) (fun b => Ret ((a + b) mod 256)))
  else if key_eqb q (1, 0) then RdIn (0, 0) Ret
  else Ret 0.
Definition rank_cl (q : qkey) : nat := if key_eqb q (0, 0) then 1%nat else 0%nat.

(* requests; a write with durability HIGH; a snapshot; a write after the snapshot (lost by the
   restore); restore; the dependency's function is called once (see F1); a write to a leaf of a
   restored memo; requests *)
Definition ops_cl : list op :=
  [OGet (0, 0); OSet (0, 1) 5 (Some 2); OGet (0, 0); OSnapshot; OSet (0, 0) 9 None; OGet (0, 0);
   ORestore; OGet (1, 0); OGet (0, 0); OSet (0, 0) 7 None; OGet (0, 0); OSynth 1; OGet (0, 0)].

Lemma prog_cl_calls q q' : calls (prog_cl q) q' -> q = (0, 0) /\ q' = (1, 0).
Proof.
  unfold prog_cl. destruct (key_eqb_spec q (0, 0)) as [-> | _].
  - intros Hc. split; [reflexivity|].
    inversion Hc as [ | ? ? ? ? Hc1 | | | | ]; subst; [reflexivity|].
    inversion Hc1 as [ | | ? ? ? ? Hc2 | | | ]; subst. inversion Hc2.
  - destruct (key_eqb_spec q (1, 0)) as [-> | _]; intros Hc.
    + inversion Hc as [ | | ? ? ? ? Hc1 | | | ]; subst. inversion Hc1.
    + inversion Hc.
Qed.

Example ex_cl_hyps :
  calls_below prog_cl rank_cl /\ (forall q, (rank_cl q < FUEL)%nat) /\
  Statement.persisted_closed prog_cl pfam /\
  Forall Statement.dur_op ops_cl /\ Statement.wf_ops false false ops_cl /\
  Statement.known_class_free prog_cl noeq pfam [1] lru2 FUEL FUEL (pinit iv (fun _ => 0) lru2) ops_cl.
Proof.
  split; [|split; [|split; [|split; [|split]]]].
  - intros q q' Hc. destruct (prog_cl_calls q q' Hc) as [-> ->]. vm_compute. lia.
  - intros q. unfold rank_cl, FUEL. destruct (key_eqb q (0, 0)); lia.
  - intros q q' _ Hc. destruct (prog_cl_calls q q' Hc) as [-> ->]. reflexivity.
  - repeat constructor. cbn. lia.
  - cbn. repeat split.
  - vm_compute. repeat split; discriminate.
Qed.

(* ... so C26_results_closed applies: every request of this history returns the from-scratch
   value; and this is what they return *)
Example ex_cl_results :
  Statement.results_ok prog_cl noeq pfam [1] lru2 FUEL FUEL FUEL (pinit iv (fun _ => 0) lru2) ops_cl /\
  snd (run prog_cl [1] lru2 ops_cl)
  = [POk 2; POk 0; POk 6; POk 0; POk 0; POk 14; POk 0; POk 1; POk 6; POk 0; POk 12; POk 0; POk 12].
Proof.
  split; [|vm_compute; reflexivity].
  destruct ex_cl_hyps as (A & B & C & D0 & E0 & F0).
  apply (PTop.results_closed prog_cl noeq pfam [1] lru2 rank_cl A FUEL B FUEL FUEL B C iv (fun _ => 0) ops_cl);
    [intros i; lia | exact D0 | exact E0 | exact F0].
Qed.

(* a history WITHOUT restore over the partial_query program (a persisted function over a
   non-persisted one; the snapshot flattens): C26_results_no_restore applies *)
Definition ops_nr : list op :=
  [OGet (0, 0); OSnapshot; OSet (0, 0) 7 (Some 1); OGet (0, 0); OSnapshot; OSetCell 3 1; OSynth 0; OGet (3, 0)].

Lemma prog_pq_calls q q' : calls (prog_pq q) q' -> q = (0, 0) /\ q' = (3, 0).
Proof.
  unfold prog_pq. destruct (key_eqb_spec q (0, 0)) as [-> | _].
  - intros Hc. split; [reflexivity|].
    inversion Hc as [ | ? ? ? ? Hc1 | | | | ]; subst; [reflexivity | inversion Hc1].
  - destruct (key_eqb_spec q (3, 0)) as [-> | _]; intros Hc.
    + inversion Hc as [ | | ? ? ? ? Hc1 | | | ]; subst. inversion Hc1.
    + inversion Hc.
Qed.

Example ex_nr_results :
  Statement.results_ok prog_pq noeq pfam [] nolru FUEL FUEL FUEL (pinit iv (fun _ => 0) nolru) ops_nr /\
  snd (run prog_pq [] nolru ops_nr) = [POk 2; POk 0; POk 0; POk 8; POk 0; POk 0; POk 0; POk 7].
Proof.
  split; [|vm_compute; reflexivity].
  assert (A : calls_below prog_pq rank_pq).
  { intros q q' Hc. destruct (prog_pq_calls q q' Hc) as [-> ->]. vm_compute. lia. }
  assert (B : forall q, (rank_pq q < FUEL)%nat).
  { intros q. unfold rank_pq, FUEL. destruct (key_eqb q (0, 0)); lia. }
  apply (PTop.results_no_restore prog_pq noeq pfam [] nolru rank_pq A FUEL B FUEL FUEL B iv (fun _ => 0) ops_nr).
  - intros i; lia.
  - repeat constructor. cbn. lia.
  - cbn. repeat split.
  - cbn. intuition discriminate.
  - vm_compute. repeat split; discriminate.
Qed.

(* the partial_query program is not persisted_closed (the snapshot flattens np(0) away); all
   durabilities are LOW: C26_results_low applies — snapshot, restore, a request served from the
   restored memo, a later write to the FLATTENED leaf of the restored memo, a second round, and
   requests that return the from-scratch values *)
Definition ops_flat : list op :=
  [OGet (0, 0); OSnapshot; ORestore; OGet (0, 0); OSet (0, 0) 7 None; OGet (0, 0); OGet (3, 0);
   OSnapshot; OSet (0, 0) 8 (Some 0); ORestore; OGet (0, 0); OSynth 0; OGet (0, 0)].

Example ex_flat_results :
  let r := run prog_pq [] nolru ops_flat in
  Statement.results_ok prog_pq noeq pfam [] nolru FUEL FUEL FUEL (pinit iv (fun _ => 0) nolru) ops_flat /\
  snd r = [POk 2; POk 0; POk 0; POk 2; POk 0; POk 8; POk 7; POk 0; POk 0; POk 0; POk 8; POk 0; POk 8] /\
  Forall Statement.low_op ops_flat /\ Statement.wf_ops false false ops_flat /\
  ~ Statement.persisted_closed prog_pq pfam.
Proof.
  assert (A : calls_below prog_pq rank_pq).
  { intros q q' Hc. destruct (prog_pq_calls q q' Hc) as [-> ->]. vm_compute. lia. }
  assert (B : forall q, (rank_pq q < FUEL)%nat).
  { intros q. unfold rank_pq, FUEL. destruct (key_eqb q (0, 0)); lia. }
  assert (B' : forall q, (S (rank_pq q) < FUEL)%nat).
  { intros q. unfold rank_pq, FUEL. destruct (key_eqb q (0, 0)); lia. }
  assert (L : Forall Statement.low_op ops_flat) by (repeat constructor).
  assert (W : Statement.wf_ops false false ops_flat) by (cbn; repeat split).
  cbv zeta. split; [|split; [vm_compute; reflexivity | split; [exact L | split; [exact W|]]]].
  - apply (LTop.results_low prog_pq noeq pfam [] nolru rank_pq A FUEL B FUEL FUEL B B' iv ops_flat L W).
    vm_compute. repeat split; discriminate.
  - intros Hc. specialize (Hc (0, 0) (3, 0) eq_refl (calls_here (3, 0) _)). discriminate Hc.
Qed.

(* ---------------------------------------------------------------- F4 (fixed): memo-less dependency *)
(* The former STALE VALUE (a dependency WITHOUT memo was dropped by flattening; fixed in /repo:
   collect_minimum_serialized_edges keeps the edge of a dependency it cannot expand).
   plain(0) = np(0), np(0) = plain(1), plain(1) = lru_fn(0), lru_fn(k) = input k.0
   (plain, lru_fn persisted; np not; lru_fn has capacity 2).
   1. plain(1) is computed; lru_fn(0) is evicted by the next revision; plain(1) is validated in
      it (lru_fn(0) is validated without a value).
   2. snapshot: the value-less lru_fn(0) is not serialised (F3), plain(1) is, with its edge to it.
   3. restore; plain(0) is computed: np(0) is executed, plain(1) is returned from its restored
      memo (verified in this revision, no walk), so lru_fn(0) still has NO memo.
   4. snapshot: flattening plain(0) expands np(0), then — no persistability test in the inner
      recursion of collect_minimum_serialized_edges — expands plain(1), whose only edge leads to a
      function WITHOUT memo: the edge is kept.  (Before the fix: nothing was collected, plain(0)
      was serialised tracked with NO edges, and step 5 returned the stale 1.)
   5. restore; lru_fn is called once (F1); input 0.0 := 7; plain(0): the kept edge is walked,
      lru_fn(0) is executed and has changed, plain(0) is executed again and returns 7. *)
Definition prog_f4 (q : qkey) : body :=
  if key_eqb q (0, 0) then CallQ (3, 0) Ret
  else if key_eqb q (3, 0) then CallQ (0, 1) Ret
  else if key_eqb q (0, 1) then CallQ (1, 0) Ret
  else if fst q =? 1 then RdIn (snd q, 0) Ret
  else Ret 0.
Definition ops_f4 : list op :=
  [OGet (0, 1); OGet (1, 1); OGet (1, 2); OSynth 0; OGet (0, 1); OSnapshot; ORestore;
   OGet (0, 0); OSnapshot; ORestore; OGet (1, 5); OSet (0, 0) 7 None; OGet (0, 0)].

Example ex_f4_fixed :
  let r := run prog_f4 [1] lru2 ops_f4 in
  last (snd r) PFuel = POk 7 /\                                                   (* the last request returns 7 *)
  evalo prog_f4 FUEL (snap_of (ps_db (fst r))) (0, 0) = Some 7 /\               (* = from scratch *)
  firstn 4 (d_log (ps_db (fst r))) = [EvExec (1, 0); EvExec (0, 1); EvExec (3, 0); EvExec (0, 0)] /\
  (* the second serialised memo of plain(0): tracked, the kept edge *)
  option_map (fun m => (m_untracked m, m_edges m, m_verified m))
    (d_memo (ps_db (fst (run prog_f4 [1] lru2 (firstn 10 ops_f4)))) (0, 0)) = Some (false, [EQ (1, 0)], 2) /\
  (* lru_fn(0) has no memo in the first restored database, plain(1) keeps its edge to it *)
  d_memo (ps_db (fst (run prog_f4 [1] lru2 (firstn 8 ops_f4)))) (1, 0) = None /\
  option_map m_edges (d_memo (ps_db (fst (run prog_f4 [1] lru2 (firstn 8 ops_f4)))) (0, 1)) = Some [EQ (1, 0)].
Proof. vm_compute. repeat split. Qed.

(* without the call of lru_fn after the second restore the kept edge leads to an uninitialised
   function ingredient: the known class F1, not a stale value *)
Example ex_f4_cold :
  last (snd (run prog_f4 [1] lru2
    [OGet (0, 1); OGet (1, 1); OGet (1, 2); OSynth 0; OGet (0, 1); OSnapshot; ORestore;
     OGet (0, 0); OSnapshot; ORestore; OSet (0, 0) 7 None; OGet (0, 0)])) PFuel = PPanic PUninit.
Proof. vm_compute. reflexivity. Qed.

Definition rank_f4 (q : qkey) : nat :=
  if key_eqb q (0, 0) then 3%nat else if key_eqb q (3, 0) then 2%nat else if key_eqb q (0, 1) then 1%nat else 0%nat.

Lemma prog_f4_calls q q' : calls (prog_f4 q) q' -> (rank_f4 q' < rank_f4 q)%nat.
Proof.
  unfold prog_f4. destruct (key_eqb_spec q (0, 0)) as [-> | _].
  { intros Hc. inversion Hc as [ | ? ? ? ? Hc1 | | | | ]; subst; [vm_compute; lia | inversion Hc1]. }
  destruct (key_eqb_spec q (3, 0)) as [-> | _].
  { intros Hc. inversion Hc as [ | ? ? ? ? Hc1 | | | | ]; subst; [vm_compute; lia | inversion Hc1]. }
  destruct (key_eqb_spec q (0, 1)) as [-> | _].
  { intros Hc. inversion Hc as [ | ? ? ? ? Hc1 | | | | ]; subst; [vm_compute; lia | inversion Hc1]. }
  destruct (fst q =? 1); intros Hc.
  - inversion Hc as [ | | ? ? ? ? Hc1 | | | ]; subst. inversion Hc1.
  - inversion Hc.
Qed.

(* the history of the former stale value is an instance of C26_results_low: every request
   returns the from-scratch value *)
Example ex_f4_results :
  Statement.results_ok prog_f4 noeq pfam [1] lru2 FUEL FUEL FUEL (pinit iv (fun _ => 0) lru2) ops_f4.
Proof.
  assert (R : forall q, (rank_f4 q <= 3)%nat).
  { intros q. unfold rank_f4. repeat match goal with |- context [if ?b then _ else _] => destruct b end; lia. }
  assert (B : forall q, (rank_f4 q < FUEL)%nat) by (intros q; specialize (R q); unfold FUEL; lia).
  assert (B' : forall q, (S (rank_f4 q) < FUEL)%nat) by (intros q; specialize (R q); unfold FUEL; lia).
  apply (LTop.results_low prog_f4 noeq pfam [1] lru2 rank_f4 prog_f4_calls FUEL B FUEL FUEL B B' iv ops_f4).
  - repeat constructor.
  - cbn. repeat split.
  - vm_compute. repeat split; discriminate.
Qed.

(* ---------------------------------------------------------------- durabilities above LOW and flattening *)
(* plain(0) = np(0) + 1 over input 0.0, which is made HIGH: the program is np_closed (np only reads
   an input), so C26_results_np applies.  The memo of plain(0) gets durability HIGH; after a LOW
   write elsewhere it is validated by the durability short-cut (np(0)'s memo stays at the older
   revision); the snapshot flattens np(0) away; in the restored database a synthetic HIGH write
   leaves it valid (validated by the walk over the flattened leaf), a HIGH write to the leaf
   invalidates it, and a write that makes the input LOW again is seen as well. *)
Definition ops_high : list op :=
  [OSet (0, 0) 4 (Some 2); OGet (0, 0); OSet (1, 0) 9 None; OGet (0, 0); OSnapshot; ORestore;
   OGet (0, 0); OSynth 2; OGet (0, 0); OSet (0, 0) 7 None; OGet (0, 0); OSnapshot; ORestore;
   OSet (0, 0) 8 (Some 0); OGet (0, 0); OGet (3, 0)].

Lemma prog_pq_np : Statement.np_closed prog_pq pfam.
Proof. intros q q' Hp Hc. destruct (prog_pq_calls q q' Hc) as [-> ->]. discriminate Hp. Qed.

Example ex_high_results :
  let r := run prog_pq [] nolru ops_high in
  Statement.results_ok prog_pq noeq pfam [] nolru FUEL FUEL FUEL (pinit iv (fun _ => 0) nolru) ops_high /\
  snd r = [POk 0; POk 5; POk 0; POk 5; POk 0; POk 0; POk 5; POk 0; POk 5; POk 0; POk 8; POk 0; POk 0;
           POk 0; POk 9; POk 8] /\
  Statement.wf_ops false false ops_high /\ Forall Statement.dur_op ops_high /\
  (* executed once; validated by the short-cut after the LOW write; after the restore validated
     by the walk over the flattened leaf (synthetic HIGH write); executed after each write to it *)
  List.rev (d_log (ps_db (fst r)))
  = [EvExec (0, 0); EvExec (3, 0); EvValidate (0, 0); EvValidate (0, 0); EvExec (0, 0); EvExec (3, 0);
     EvExec (0, 0); EvExec (3, 0)] /\
  (* the serialised memo: durability HIGH, verified in the revision of the LOW write, one leaf *)
  option_map (fun m => (m_dur m, m_verified m, m_edges m))
    (d_memo (ps_db (fst (run prog_pq [] nolru (firstn 6 ops_high)))) (0, 0)) = Some (2, 3, [EIn (0, 0)]).
Proof.
  assert (A : calls_below prog_pq rank_pq).
  { intros q q' Hc. destruct (prog_pq_calls q q' Hc) as [-> ->]. vm_compute. lia. }
  assert (B : forall q, (rank_pq q < FUEL)%nat).
  { intros q. unfold rank_pq, FUEL. destruct (key_eqb q (0, 0)); lia. }
  assert (B' : forall q, (S (rank_pq q) < FUEL)%nat).
  { intros q. unfold rank_pq, FUEL. destruct (key_eqb q (0, 0)); lia. }
  assert (Dop : Forall Statement.dur_op ops_high) by (repeat constructor; cbn; lia).
  assert (W : Statement.wf_ops false false ops_high) by (cbn; repeat split).
  cbv zeta. split; [|split; [vm_compute; reflexivity | split; [exact W | split; [exact Dop | vm_compute; split; reflexivity]]]].
  apply (PTop.results_np prog_pq noeq pfam [] nolru rank_pq A FUEL B FUEL FUEL B B' prog_pq_np iv (fun _ => 0) ops_high);
    [intros i; lia | exact Dop | exact W|].
  vm_compute. repeat split; discriminate.
Qed.

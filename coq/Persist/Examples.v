(* Persist/Examples.v — concrete runs of the Persist model: a positive example (the shape of
   tests/persistence.rs::partial_query) satisfying the hypotheses of the C26 theorems, the former
   stale-value witness (now from-scratch, fix e43c20c), and the two remaining refutation witnesses that were replayed on the real crate (checks/notes/C26.txt). *)
From Salsa Require Import Base.
From Salsa.Kern Require Import CoreK.
From Salsa.Persist Require Import Model Spec ProofsRoundtrip ProofsFlatten.

Definition pfam (fam : N) : bool := fam <? 2.          (* families 0, 1 persisted; 2, 3 not *)
Definition noeq (q : qkey) : bool := fst q =? 2.
Definition nolru : N -> lru_state := fun _ => {| lru_cap := None; lru_set := [] |}.
Definition lru2 : N -> lru_state :=
  fun fam => if fam =? 1 then {| lru_cap := Some 2; lru_set := [] |} else {| lru_cap := None; lru_set := [] |}.
Definition iv (i : ikey) : val := 1.
Definition FUEL := 6%nat.

Definition run (prog : qkey -> body) (fams : list N) (lru0 : N -> lru_state) (ops : list op) :=
  run_ops prog noeq pfam fams lru0 FUEL FUEL (pinit iv (fun _ => 0) lru0) ops.

(* ---------------------------------------------------------------- positive: partial_query *)
(* plain(0) (persisted) = np(0) + 1, np(0) (not persisted) = input 0.0 *)
Definition prog_pq (q : qkey) : body :=
  if key_eqb q (0, 0) then CallQ (3, 0) (fun a => Ret ((a + 1) mod 256))
  else if key_eqb q (3, 0) then RdIn (0, 0) Ret
  else Ret 0.

Definition s_pq := ps_db (fst (run prog_pq [] nolru [OGet (0, 0)])).
Definition s_pq_restored := restore (Model.snapshot pfam FUEL s_pq) s_pq nolru.

Example ex_pq_flattened :
  option_map m_edges (d_memo s_pq (0, 0)) = Some [EQ (3, 0)] /\
  option_map m_edges (d_memo s_pq_restored (0, 0)) = Some [EIn (0, 0)] /\
  d_memo s_pq_restored (3, 0) = None /\
  lost_untracked pfam (d_memo s_pq) FUEL [EQ (3, 0)] = false.
Proof. vm_compute. repeat split. Qed.

(* restore; new revision; request: validated, not executed, same value *)
Example ex_pq_reuse :
  let r := run prog_pq [] nolru [OGet (0, 0); OSnapshot; ORestore; OSynth 0; OGet (0, 0)] in
  snd r = [POk 2; POk 0; POk 0; POk 0; POk 2] /\
  d_log (ps_db (fst r)) = [EvValidate (0, 0); EvExec (3, 0); EvExec (0, 0)].
Proof. vm_compute. split; reflexivity. Qed.

(* ... and after a write to the leaf the restored database re-executes and is from-scratch *)
Example ex_pq_write :
  let r := run prog_pq [] nolru [OGet (0, 0); OSnapshot; ORestore; OSet (0, 0) 7 None; OGet (0, 0)] in
  snd r = [POk 2; POk 0; POk 0; POk 0; POk 8] /\
  evalo prog_pq FUEL (snap_of (ps_db (fst r))) (0, 0) = Some 8.
Proof. vm_compute. split; reflexivity. Qed.

(* the hypotheses of flatten_closed / flatten_sound hold of these memo tables (written out as a
   finite map; it agrees with the state above on the two functions that have memos) *)
Definition m0 : memo := {| m_val := Some 2; m_verified := 1; m_changed := 1; m_dur := 0;
                           m_untracked := false; m_edges := [EQ (3, 0)] |}.
Definition m3 : memo := {| m_val := Some 1; m_verified := 1; m_changed := 1; m_dur := 0;
                           m_untracked := false; m_edges := [EIn (0, 0)] |}.
Definition mm_pq : qkey -> option memo := upd (upd (fun _ => None) (3, 0) (Some m3)) (0, 0) (Some m0).
Definition rank_pq (q : qkey) : nat := if key_eqb q (0, 0) then 1%nat else 0%nat.

Example ex_pq_mm : d_memo s_pq (0, 0) = mm_pq (0, 0) /\ d_memo s_pq (3, 0) = mm_pq (3, 0).
Proof. vm_compute. split; reflexivity. Qed.

Lemma mm_pq_cases g m : mm_pq g = Some m -> (g = (0, 0) /\ m = m0) \/ (g = (3, 0) /\ m = m3).
Proof.
  unfold mm_pq, upd. destruct (key_eqb_spec (0, 0) g) as [<-|_].
  - intros E. injection E as <-. now left.
  - destruct (key_eqb_spec (3, 0) g) as [<-|_]; [|discriminate]. intros E. injection E as <-. now right.
Qed.

Example ex_pq_hyps :
  (forall g m c, mm_pq g = Some m -> In (EQ c) (m_edges m) -> (rank_pq c < rank_pq g)%nat) /\
  (forall g m c, mm_pq g = Some m -> In (EQ c) (m_edges m) -> mm_pq c <> None) /\
  (forall e, In e [EQ (3, 0)] -> (erank rank_pq e < FUEL)%nat /\ has_memo mm_pq e) /\
  lost_untracked pfam mm_pq FUEL [EQ (3, 0)] = false /\
  flatten pfam mm_pq FUEL [EQ (3, 0)] = [EIn (0, 0)].
Proof.
  split; [|split; [|split; [|split]]].
  - intros g m c Hm Hc. destruct (mm_pq_cases g m Hm) as [(-> & ->)|(-> & ->)]; cbn in Hc;
      destruct Hc as [Hc|[]]; try discriminate. injection Hc as <-. vm_compute. lia.
  - intros g m c Hm Hc. destruct (mm_pq_cases g m Hm) as [(-> & ->)|(-> & ->)]; cbn in Hc;
      destruct Hc as [Hc|[]]; try discriminate. injection Hc as <-. vm_compute. discriminate.
  - intros e [<-|[]]. split; [vm_compute; lia | vm_compute; discriminate].
  - vm_compute. reflexivity.
  - vm_compute. reflexivity.
Qed.

(* ---------------------------------------------------------------- flattened untracked dependency *)
(* plain(0) (persisted) = np(0), np(0) (not persisted) = external cell 0.  Before fix e43c20c the
   last request returned the stale 0 (the restored memo had origin `derived`, no edges, and was
   validated); now the memo is serialised as untracked and is re-executed in the new revision. *)
Definition prog_f2 (q : qkey) : body :=
  if key_eqb q (0, 0) then CallQ (3, 0) Ret
  else if key_eqb q (3, 0) then RdCell 0 Ret
  else Ret 0.
Definition ops_f2 := [OGet (0, 0); OSnapshot; ORestore; OSetCell 0 1; OSynth 0; OGet (0, 0)].

Example ex_f2_fixed :
  let r := run prog_f2 [] nolru ops_f2 in
  snd r = [POk 0; POk 0; POk 0; POk 0; POk 0; POk 1] /\               (* the last request returns 1 *)
  evalo prog_f2 FUEL (snap_of (ps_db (fst r))) (0, 0) = Some 1 /\    (* = from scratch *)
  d_log (ps_db (fst r)) = [EvExec (3, 0); EvExec (0, 0); EvExec (3, 0); EvExec (0, 0)] /\
  (* the serialised memo: no edges, untracked, because the expanded np(0) was untracked *)
  lost_untracked pfam (d_memo (ps_db (fst (run prog_f2 [] nolru [OGet (0, 0)])))) FUEL [EQ (3, 0)] = true /\
  option_map (fun m => (m_untracked m, m_edges m))
    (d_memo (ps_db (fst (run prog_f2 [] nolru [OGet (0, 0); OSnapshot; ORestore]))) (0, 0)) = Some (true, []).
Proof. vm_compute. repeat split. Qed.

(* in the revision of the snapshot the restored (untracked) memo is still returned without executing *)
Example ex_f2_same_revision :
  let r := run prog_f2 [] nolru [OGet (0, 0); OSnapshot; ORestore; OGet (0, 0)] in
  snd r = [POk 0; POk 0; POk 0; POk 0] /\ d_log (ps_db (fst r)) = [EvExec (3, 0); EvExec (0, 0)].
Proof. vm_compute. split; reflexivity. Qed.

(* the same history without snapshot/restore *)
Example ex_f2_twin :
  snd (run prog_f2 [] nolru [OGet (0, 0); OSetCell 0 1; OSynth 0; OGet (0, 0)]) = [POk 0; POk 0; POk 0; POk 1].
Proof. vm_compute. reflexivity. Qed.

(* ---------------------------------------------------------------- F1: uninitialised ingredient *)
(* plain(0) = lru_fn(0) (both persisted), lru_fn(0) = input 0.0 *)
Definition prog_f1 (q : qkey) : body :=
  if key_eqb q (0, 0) then CallQ (1, 0) Ret
  else if key_eqb q (1, 0) then RdIn (0, 0) Ret
  else Ret 0.
Definition ops_f1 := [OGet (0, 0); OSnapshot; ORestore; OSynth 0; OGet (0, 0)].

Example ex_f1 :
  let r := run prog_f1 [1] lru2 ops_f1 in
  snd r = [POk 1; POk 0; POk 0; POk 0; PPanic PUninit] /\
  evalo prog_f1 FUEL (snap_of (ps_db (fst r))) (0, 0) = Some 1.
Proof. vm_compute. split; reflexivity. Qed.

(* calling the dependency's function once (on any key) before avoids the panic *)
Example ex_f1_warm :
  snd (run prog_f1 [1] lru2 [OGet (0, 0); OSnapshot; ORestore; OGet (1, 5); OSynth 0; OGet (0, 0)])
  = [POk 1; POk 0; POk 0; POk 0; POk 0; POk 1].
Proof. vm_compute. reflexivity. Qed.

(* ---------------------------------------------------------------- F3: evicted dependency *)
(* plain(0) = lru_fn(0); lru_fn(k) = input k.0; capacity 2: lru_fn(0) is evicted by the new revision *)
Definition prog_f3 (q : qkey) : body :=
  if key_eqb q (0, 0) then CallQ (1, 0) Ret
  else if fst q =? 1 then RdIn (snd q, 0) Ret
  else Ret 0.
Definition ops_f3 := [OGet (0, 0); OGet (1, 1); OGet (1, 2); OSynth 0; OSnapshot; ORestore; OGet (1, 3); OGet (0, 0)].
Definition ops_f3_twin := [OGet (0, 0); OGet (1, 1); OGet (1, 2); OSynth 0; OGet (1, 3); OGet (0, 0)].

Example ex_f3 :
  let r := run prog_f3 [1] lru2 ops_f3 in
  let t := run prog_f3 [1] lru2 ops_f3_twin in
  (* same results ... *)
  snd r = [POk 1; POk 1; POk 1; POk 0; POk 0; POk 0; POk 1; POk 1] /\
  snd t = [POk 1; POk 1; POk 1; POk 0; POk 1; POk 1] /\
  (* ... but the restored database executes plain(0) and lru_fn(0) again, the original validates them *)
  firstn 2 (d_log (ps_db (fst r))) = [EvExec (1, 0); EvExec (0, 0)] /\
  firstn 2 (d_log (ps_db (fst t))) = [EvValidate (0, 0); EvValidate (1, 0)] /\
  (* no input changed at all *)
  (forall i, f_changed (d_in (ps_db (fst r)) i) = 1).
Proof. vm_compute. repeat split. Qed.

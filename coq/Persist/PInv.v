(* Persist/PInv.v — the invariant of the persist-mode model for inputs of arbitrary durability:
   the port of Core/DInv.v (definitions, basic facts, the frame rule for storing a memo).

   Differences from Core/DInv.v:
   - the semantic side (E, tr, durge, clos, ...) is Core's, for the translated program (PSem.v);
   - the observer clause [mo_obs] speaks about the memos that EXIST (a restored database has
     lost the memos of non-persisted functions and the value-less ones);
   - no stamp-provenance clause (mo_stamp / ext_mono): the backdate-violation panic is not
     excluded here, it is one of the allowed outcomes, like the panic of an uninitialised
     function ingredient. *)
From Salsa Require Import Base.
From Salsa.Kern Require Import CoreK CoreKFacts.
From Salsa.Core Require Import Model Spec SpecProofs Inv DurSem.
From Salsa.Persist Require Import Model PSem PWp.

Section PInv.
Variable prog : qkey -> CM.body.            (* the translated program *)
Variable rank : qkey -> nat.
Hypothesis Hrank : calls_below prog rank.
Variable NF : nat.
Hypothesis Hbound : forall q, (rank q < NF)%nat.
Notation E := (E prog NF).
Notation tr := (tr prog NF).
Notation envat := (envat prog NF).
Notation durge := (durge prog NF).
Notation clos := (clos prog NF).

Definition lcs (s : db) (k : dur) : rev := last_changed (d_revs s) k.

(* when the observer clause fires for an observer verified at v and d's memo md *)
Definition obs_pre (H : hist) (D : dhist) (s : db) (v : rev) (d : qkey) (md : memo) : Prop :=
  m_changed md <= v \/ exists k, durge H D v k d /\ lcs s k <= v.

Record dmemo_ok (H : hist) (D : dhist) (s : db) (q : qkey) (m : memo) : Prop := {
  mo_order : 1 <= m_verified m /\ m_changed m <= m_verified m /\ m_verified m <= cur s;
  mo_val : forall x, m_val m = Some x -> x = E H (m_verified m) q;
  mo_reads_in : forall i, In (RIn i) (tr H (m_verified m) q) ->
                In (EIn i) (m_edges m) \/ D (m_verified m) i = 3;
  mo_reads_q : forall d, In (RQ d) (tr H (m_verified m) q) ->
               In (EQ d) (m_edges m) \/ durge H D (m_verified m) 3 d;
  mo_reads_cell : forall x, In x (tr H (m_verified m) q) -> untr x -> m_untracked m = true;
  mo_edges_q : forall d, In (EQ d) (m_edges m) -> In (RQ d) (tr H (m_verified m) q);
  mo_untr : m_untracked m = true -> m_dur m = 0;
  mo_durge : durge H D (m_verified m) (m_dur m) q;
  mo_dur3 : m_dur m <= 3;
  mo_obs : forall d md, clos H (m_verified m) q d -> d_memo s d = Some md ->
           obs_pre H D s (m_verified m) d md ->
           E H (m_verified m) d = E H (m_verified md) d /\ m_dur m <= m_dur md
}.

Record DInv (H : hist) (D : dhist) (s : db) : Prop := {
  inv_cur : 1 <= cur s;
  inv_revs : revs_ok (d_revs s);
  inv_in : forall i r, f_changed (d_in s i) <= r -> r <= cur s -> sn_in (H r) i = f_val (d_in s i);
  inv_dur : forall i r, f_changed (d_in s i) <= r -> r <= cur s -> D r i = f_dur (d_in s i);
  inv_in_le : forall i, f_changed (d_in s i) <= cur s;
  inv_cell : forall c, sn_cell (H (cur s)) c = d_cell s c;
  inv_dur3 : forall r i, D r i <= 3;
  (* the write rule: an input whose level had not been written after r is the same at r+1 *)
  inv_wr : forall r i, r < cur s -> lcs s (D r i) <= r ->
           sn_in (H (r + 1)) i = sn_in (H r) i /\ D (r + 1) i = D r i;
  inv_memo : forall q m, d_memo s q = Some m -> dmemo_ok H D s q m
}.

(* ---------------------------------------------------------------- stability from the write rule *)
Lemma lcs_anti H D s k k' : DInv H D s -> k <= k' -> lcs s k' <= lcs s k.
Proof. intros HI. apply lc_anti. apply (inv_revs _ _ _ HI). Qed.

Lemma lcs_le_cur H D s k : DInv H D s -> lcs s k <= cur s.
Proof. intros HI. apply lc_le_cur. apply (inv_revs _ _ _ HI). Qed.

Lemma stable_now H D s k a : DInv H D s -> lcs s k <= a -> wstable H D k a (cur s).
Proof.
  intros HI Hlc i Hi.
  assert (Hn : forall n r, r = a + N.of_nat n -> r <= cur s ->
                 sn_in (H r) i = sn_in (H a) i /\ D r i = D a i).
  { induction n as [|n IH]; intros r Hr Hle.
    - replace r with a by lia. split; reflexivity.
    - assert (Hr' : a + N.of_nat n <= cur s) by lia.
      destruct (IH (a + N.of_nat n) eq_refl Hr') as [A B].
      destruct (inv_wr _ _ _ HI (a + N.of_nat n) i) as [A' B'].
      + lia.
      + rewrite B. pose proof (lcs_anti H D s k (D a i) HI Hi). lia.
      + replace r with (a + N.of_nat n + 1) by lia. split; congruence. }
  intros r Ha Hb. apply (Hn (N.to_nat (r - a))); [lia | exact Hb].
Qed.

Lemma stable_never H D s a : DInv H D s -> 1 <= a -> wstable H D 3 a (cur s).
Proof.
  intros HI Ha. apply (stable_now H D s 3 a HI).
  unfold lcs. rewrite lc_never by lia. exact Ha.
Qed.

(* ---------------------------------------------------------------- extension within a revision *)
Record dext (s s' : db) : Prop := {
  ext_revs : d_revs s' = d_revs s;
  ext_in : d_in s' = d_in s;
  ext_cell : d_cell s' = d_cell s;
  ext_pcell : d_pcell s' = d_pcell s;
  ext_init : forall fam, d_init s fam = true -> d_init s' fam = true;
  ext_valid : forall q m, d_memo s q = Some m -> m_verified m = cur s -> m_val m <> None ->
              d_memo s' q = Some m;
  ext_vcur : forall q m, d_memo s q = Some m -> m_verified m = cur s ->
             exists m', d_memo s' q = Some m' /\ m_verified m' = cur s /\ m_dur m <= m_dur m'
}.

Lemma dext_refl s : dext s s.
Proof.
  constructor; auto.
  intros q m Hm Hv. exists m. split; [exact Hm|]. split; [exact Hv | lia].
Qed.

Lemma dext_cur s s' : dext s s' -> cur s' = cur s.
Proof. intros [Hr _ _ _ _ _ _]. unfold cur. rewrite Hr. reflexivity. Qed.

Lemma dext_trans s1 s2 s3 : dext s1 s2 -> dext s2 s3 -> dext s1 s3.
Proof.
  intros H12 H23. pose proof (dext_cur _ _ H12) as Hc.
  destruct H12 as [a1 b1 c1 d1 g1 e1 f1], H23 as [a2 b2 c2 d2 g2 e2 f2].
  constructor; try congruence; auto.
  - intros q m Hm Hv Hx. apply e2; [apply e1; assumption | rewrite Hc; exact Hv | exact Hx].
  - intros q m Hm Hv. destruct (f1 q m Hm Hv) as (m' & Hm' & Hv' & Hd').
    destruct (f2 q m' Hm') as (m'' & Hm'' & Hv'' & Hd''); [rewrite Hc; exact Hv'|].
    exists m''. split; [exact Hm''|]. split; [rewrite <- Hc; exact Hv'' | lia].
Qed.

(* a computation for a query of rank < k leaves memos of rank >= k alone *)
Definition dtouch_below (s s' : db) (k : nat) : Prop :=
  forall p, (k <= rank p)%nat -> d_memo s' p = d_memo s p.

Lemma dtouch_refl s k : dtouch_below s s k.
Proof. intros p _; reflexivity. Qed.

Lemma dtouch_trans s1 s2 s3 k1 k2 k :
  (k1 <= k)%nat -> (k2 <= k)%nat ->
  dtouch_below s1 s2 k1 -> dtouch_below s2 s3 k2 -> dtouch_below s1 s3 k.
Proof.
  intros H1 H2 T1 T2 p Hp. rewrite (T2 p) by lia. apply T1. lia.
Qed.

Definition stack_ok (s : db) (q : qkey) : Prop :=
  forall p, In p (d_stack s) -> (rank q < rank p)%nat.

(* ---------------------------------------------------------------- the part of the state that matters *)
Definition dcore_eq (s s' : db) : Prop :=
  d_revs s' = d_revs s /\ d_in s' = d_in s /\ d_cell s' = d_cell s /\ d_memo s' = d_memo s.

Lemma dcore_eq_cur s s' : dcore_eq s s' -> cur s' = cur s.
Proof. intros (Hr & _). unfold cur; rewrite Hr; reflexivity. Qed.

Lemma obs_pre_core_eq H D s s' v d md :
  d_revs s' = d_revs s -> obs_pre H D s v d md -> obs_pre H D s' v d md.
Proof. intros Hr. unfold obs_pre, lcs. rewrite Hr. auto. Qed.

Lemma dmemo_ok_core_eq H D s s' q m : dcore_eq s s' -> dmemo_ok H D s q m -> dmemo_ok H D s' q m.
Proof.
  intros Hc Hm. pose proof (dcore_eq_cur _ _ Hc) as Hcur.
  destruct Hc as (Hr & Hi & _ & Hmm).
  destruct Hm as [a b c d e f g h i j].
  constructor; rewrite ?Hcur; auto.
  intros d0 md Hd0 Hmd Hp. apply (j d0 md Hd0); [rewrite <- Hmm; exact Hmd|].
  apply (obs_pre_core_eq H D s' s); [congruence | exact Hp].
Qed.

Lemma DInv_core_eq H D s s' : dcore_eq s s' -> DInv H D s -> DInv H D s'.
Proof.
  intros Hc HI. pose proof (dcore_eq_cur _ _ Hc) as Hcur.
  pose proof Hc as (Hr & Hi & Hce & Hm).
  destruct HI as [a a' b b' c d e f g].
  constructor; unfold lcs in *; rewrite ?Hcur, ?Hi, ?Hce, ?Hm, ?Hr; auto.
  intros q m Hq. apply (dmemo_ok_core_eq H D s); [exact Hc | apply g; exact Hq].
Qed.

(* ---------------------------------------------------------------- storing a memo *)
Definition store (s : db) (q : qkey) (m : memo) : db := set_memo s (upd (d_memo s) q (Some m)).

Lemma cur_store s q m : cur (store s q m) = cur s.
Proof. reflexivity. Qed.

Lemma lcs_store s q m k : lcs (store s q m) k = lcs s k.
Proof. reflexivity. Qed.

Definition reverify (m : memo) (now : rev) : memo :=
  {| m_val := m_val m; m_verified := now; m_changed := m_changed m; m_dur := m_dur m;
     m_untracked := m_untracked m; m_edges := m_edges m |}.

Lemma reverify_same m : reverify m (m_verified m) = m.
Proof. destruct m; reflexivity. Qed.

(* the memo built by execute from a completed frame (persist mode: the edges are kept) *)
Definition fresh_memo (v : val) (now : rev) (ch : rev) (fr : frame) : memo :=
  {| m_val := Some v; m_verified := now; m_changed := ch; m_dur := fr_dur fr;
     m_untracked := fr_untracked fr; m_edges := fr_edges fr |}.

(* The frame rule: store a memo verified now.  Besides the new memo being ok, every other
   memo that observes q must be served by the new memo. *)
Lemma DInv_store H D s q m :
  DInv H D s ->
  m_verified m = cur s ->
  dmemo_ok H D (store s q m) q m ->
  (forall g mg, d_memo s g = Some mg -> g <> q -> clos H (m_verified mg) g q ->
     obs_pre H D s (m_verified mg) q m ->
     E H (m_verified mg) q = E H (cur s) q /\ m_dur mg <= m_dur m) ->
  (forall m0, d_memo s q = Some m0 -> m_verified m0 = cur s ->
     (m_val m0 <> None -> m0 = m) /\ m_dur m0 <= m_dur m) ->
  DInv H D (store s q m) /\ dext s (store s q m).
Proof.
  intros HI Hv Hok Hobs Hsame.
  destruct HI as [a a' b b' c d e f g].
  split.
  - constructor; rewrite ?cur_store; auto.
    intros p mp Hp. unfold store in Hp; cbn in Hp. unfold upd in Hp.
    destruct (key_eqb_spec q p) as [<- | Hne].
    + injection Hp as <-. exact Hok.
    + specialize (g p mp Hp). destruct g as [g1 g2 g3 g4 g5 g6 g7 g8 g9 g10].
      constructor; rewrite ?cur_store; auto.
      intros d0 md Hd0 Hmd Hp0.
      unfold store in Hmd; cbn in Hmd. unfold upd in Hmd.
      destruct (key_eqb_spec q d0) as [<- | Hne0].
      * injection Hmd as <-. rewrite Hv.
        apply (Hobs p mp Hp); [congruence | exact Hd0 | exact Hp0].
      * apply (g10 d0 md Hd0 Hmd). exact Hp0.
  - constructor; try reflexivity; auto.
    + intros p mp Hp Hvp Hxp. unfold store; cbn. unfold upd.
      destruct (key_eqb_spec q p) as [<- | Hne]; [|exact Hp].
      destruct (Hsame mp Hp Hvp) as [Heq _]. rewrite (Heq Hxp). reflexivity.
    + intros p mp Hp Hvp. unfold store; cbn. unfold upd.
      destruct (key_eqb_spec q p) as [<- | Hne].
      * exists m. split; [reflexivity|]. split; [exact Hv|].
        destruct (Hsame mp Hp Hvp) as [_ Hle]. exact Hle.
      * exists mp. split; [exact Hp|]. split; [exact Hvp | lia].
Qed.

Lemma dtouch_store s q m k : (rank q < k)%nat -> dtouch_below s (store s q m) k.
Proof.
  intros Hk p Hp. assert (Hne : q <> p) by (intros ->; lia).
  unfold store; cbn. apply upd_other; exact Hne.
Qed.

(* ---------------------------------------------------------------- panics that may escape a Get *)
(* the backdate-violation assertion (not excluded for this model), an injected fault while some
   fault switch is on, and the panic of an uninitialised function ingredient while some
   function ingredient is uninitialised *)
Definition dallowed (s : db) (p : ppanic) : Prop :=
  p = PB PBackdate \/ (p = PB PInjected /\ exists c, d_pcell s c <> 0) \/
  (p = PUninit /\ exists fam, d_init s fam = false).

Lemma dallowed_ext s s' p :
  d_pcell s' = d_pcell s -> (forall fam, d_init s fam = true -> d_init s' fam = true) ->
  dallowed s' p -> dallowed s p.
Proof.
  intros He Hi [-> | [[-> (c & Hc)] | [-> (fam & Hf)]]].
  - left; reflexivity.
  - right; left. split; [reflexivity|]. exists c. rewrite <- He. exact Hc.
  - right; right. split; [reflexivity|]. exists fam.
    destruct (d_init s fam) eqn:Hs; [|reflexivity]. rewrite (Hi fam Hs) in Hf. discriminate.
Qed.

End PInv.

(* Persist/PTop.v — the persist-mode model across ALL its API operations, snapshot and restore
   included, and the results theorems of C26:

   [results_no_restore]  every Get of every history WITHOUT restore (snapshots allowed: they do
                         not touch the database) returns the from-scratch value — C01 for the
                         persist-mode model, inputs and writes of any durability, any choice of
                         persisted functions;
   [restore_ok], [restore_ok_clean]
                         restore (snapshot s) re-establishes the invariant in the fresh database
                         (same ghost histories: the revision counter is rewound to the snapshot's,
                         the inputs come back with their stamps), when the persisted functions
                         only call persisted functions ([Statement.persisted_closed]);
   [results_closed]      hence: every Get of every history with snapshots and restores returns
                         the from-scratch value of the current inputs, or unwinds with a base
                         panic, outside the uninitialised-ingredient class;
   [results_general]     the common induction over the history ([step_ok] per operation), from
                         any state that satisfies [pstate_ok].

   The "base panics" allowed here include the backdate-violation assertion (PInv.dallowed): its
   unreachability (Core: C22_panic_safe_strict) needs the stamp-provenance clauses of
   Core/DInv.v, which this port does not carry. *)
From Salsa Require Import Base.
From Salsa.Kern Require Import CoreK CoreKFacts.
From Salsa.Core Require Import Model Spec SpecProofs Inv DurSem.
From Salsa.Core Require InvTop.
From Salsa.Persist Require Import Model PSem PWp PInv PInvSem PInvOps PInvTop ProofsRoundtrip ProofsFlatten.
From Salsa.Persist Require Statement.

Section Top.
Variable uprog : qkey -> body.
Variable noeq : qkey -> bool.
Variable pfam : N -> bool.
Variable fams : list N.
Variable lru0 : N -> lru_state.
Variable rank : qkey -> nat.
Hypothesis Hrank : calls_below (tprog uprog) rank.
Variable NF : nat.
Hypothesis Hbound : forall q, (rank q < NF)%nat.
Variable sfuel : nat.
Let prog : qkey -> CM.body := tprog uprog.
Notation DInv := (DInv prog NF).
Notation OK := (OK uprog NF).
Notation OK_d := (OK_d uprog NF).
Notation fresh := (PInvTop.fresh).
Notation pstep := (Statement.pstep uprog noeq pfam fams lru0 sfuel).

(* ---------------------------------------------------------------- new revisions, eviction *)
Lemma new_revision_revs s :
  d_revs (new_revision fams s) =
  {| r_cur := r_cur (d_revs s) + 1; r_med := r_med (d_revs s); r_high := r_high (d_revs s) |}.
Proof.
  unfold new_revision. set (s1 := set_ccount _ 0).
  destruct (evict_all_sbm fams s1) as [a _ _ _ _ _ _]. rewrite a. reflexivity.
Qed.

Lemma new_revision_facts s :
  d_in (new_revision fams s) = d_in s /\ d_cell (new_revision fams s) = d_cell s /\
  d_stack (new_revision fams s) = d_stack s /\
  evicted_from (d_memo s) (d_memo (new_revision fams s)).
Proof.
  unfold new_revision. set (s1 := set_ccount _ 0).
  destruct (evict_all_sbm fams s1) as [a b c d e f g]. rewrite b, c, f. repeat split; auto.
Qed.

Lemma OK_d_new_revision s : OK_d s -> OK (new_revision fams s) /\ fresh (new_revision fams s).
Proof.
  intros Hok. destruct (new_revision_facts s) as (A & _ & _ & F).
  apply (OK_advance uprog NF s); auto.
  - apply new_revision_revs.
  - apply evicted_sub_sim; exact F.
Qed.

Lemma zalsa_mut_stack s : d_stack (zalsa_mut fams s) = d_stack s.
Proof.
  unfold zalsa_mut. destruct (d_ccount s =? 255); [|reflexivity].
  apply (new_revision_facts s).
Qed.

Lemma zalsa_mut_cell s : d_cell (zalsa_mut fams s) = d_cell s.
Proof.
  unfold zalsa_mut. destruct (d_ccount s =? 255); [|reflexivity].
  apply (new_revision_facts s).
Qed.

Lemma OK_d_zalsa_mut s : OK_d s -> OK_d (zalsa_mut fams s).
Proof.
  intros Hok. unfold zalsa_mut. destruct (d_ccount s =? 255).
  - apply OK_to_d. apply OK_d_new_revision; exact Hok.
  - apply (OK_d_same uprog NF s); auto. apply evicted_sub_sim, evicted_refl.
Qed.

Lemma OK_zalsa_mut s : OK s -> OK (zalsa_mut fams s).
Proof.
  intros Hok. unfold zalsa_mut. destruct (d_ccount s =? 255).
  - apply OK_d_new_revision. apply OK_to_d; exact Hok.
  - apply (OK_same uprog NF s); auto. apply evicted_sub_sim, evicted_refl.
Qed.

Lemma evict_all_facts s :
  d_revs (evict_all fams s) = d_revs s /\ d_in (evict_all fams s) = d_in s /\
  d_cell (evict_all fams s) = d_cell s /\ d_stack (evict_all fams s) = d_stack s /\
  evicted_from (d_memo s) (d_memo (evict_all fams s)).
Proof. destruct (evict_all_sbm fams s) as [a b c d e f g]. repeat split; auto. Qed.

(* ---------------------------------------------------------------- the database across one operation *)
Definition state_ok (dirty : bool) (s : db) : Prop :=
  (if dirty then OK_d s else OK s) /\ d_stack s = [].

Lemma state_ok_d dirty s : state_ok dirty s -> OK_d s.
Proof. destruct dirty; intros [A _]; [exact A | apply OK_to_d; exact A]. Qed.

Lemma state_ok_weaken dirty s : state_ok false s -> state_ok dirty s.
Proof. destruct dirty; [|auto]. intros [A B]. split; [apply OK_to_d; exact A | exact B]. Qed.

(* a Get: the from-scratch value or an allowed panic; the database stays ok, inputs and cells
   are untouched *)
Lemma db_get_ok fuel s q :
  (forall p, (rank p < fuel)%nat) -> state_ok false s ->
  let r := fetch uprog noeq (level uprog noeq fuel) q s in
  (match snd r with
   | POk (v, _, _) => v = Spec.eval uprog NF (Spec.snap_of s) q /\ state_ok false (fst r)
   | PPanic p => dallowed s p /\ state_ok false (set_stack (fst r) [])
   | PFuel => False
   end) /\ d_in (fst r) = d_in s /\ d_cell (fst r) = d_cell s.
Proof.
  intros Hfuel [(H & D & HI) Hst]. cbn zeta.
  destruct (dlevel_ok uprog noeq rank Hrank NF Hbound H D fuel) as [HF HM].
  assert (Hso : stack_ok rank s q) by (intros p Hp; rewrite Hst in Hp; destruct Hp).
  assert (Hq : (rank q <= fuel)%nat) by (specialize (Hfuel q); lia).
  pose proof (fetch_ok uprog noeq rank Hrank NF Hbound H D (level uprog noeq fuel) fuel HF HM q s Hq HI Hso) as Hwp.
  unfold wp in Hwp.
  destruct (fetch uprog noeq (level uprog noeq fuel) q s) as [s' [[[v d] c] | p |]] eqn:Hf; cbn [fst snd].
  - destruct Hwp as (HI' & He & _ & Hs' & Hv & _). cbn [fst snd] in Hv.
    split; [|split; [apply (ext_in _ _ He) | apply (ext_cell _ _ He)]].
    split.
    + rewrite Hv. unfold Inv.E.
      rewrite <- (eval_tb uprog NF (Spec.snap_of s) q). rewrite <- csnap_snap_of.
      exact (Salsa.Core.InvTop.eval_snap_eq (tprog uprog) _ _ (DInv_snap uprog NF H D s HI) NF q).
    + split; [exists H, D; exact HI' | congruence].
  - destruct Hwp as (Ha & HI' & He).
    split; [|split; [apply (ext_in _ _ He) | apply (ext_cell _ _ He)]].
    split; [exact Ha|]. split; [|reflexivity].
    exists H, D. apply (DInv_core_eq prog NF H D s'); [repeat split | exact HI'].
  - destruct Hwp.
Qed.

(* the other operations of the database proper *)
Lemma OK_d_same_cells s s' :
  OK_d s -> d_revs s' = d_revs s -> d_in s' = d_in s -> d_memo s' = d_memo s -> OK_d s'.
Proof.
  intros Hok Hr Hi Hm. apply (OK_d_same uprog NF s); auto.
  rewrite Hm. apply evicted_sub_sim, evicted_refl.
Qed.

Lemma OK_same_all s s' :
  OK s -> d_revs s' = d_revs s -> d_in s' = d_in s -> d_cell s' = d_cell s -> d_memo s' = d_memo s -> OK s'.
Proof.
  intros Hok Hr Hi Hc Hm. apply (OK_same uprog NF s); auto.
  rewrite Hm. apply evicted_sub_sim, evicted_refl.
Qed.

Lemma db_set_ok dirty s i v d :
  Statement.dur_op (OSet i v d) -> state_ok dirty s ->
  let s1 := new_revision fams (zalsa_mut fams s) in
  state_ok false s1 /\
  (f_dur (d_in s1 i) =? D_NEVER = false ->
   let r1 := if f_dur (d_in s1 i) =? D_LOW then d_revs s1 else report_write (d_revs s1) (f_dur (d_in s1 i)) in
   let f' := {| f_val := v; f_changed := cur s1;
                f_dur := match d with Some d' => d' | None => f_dur (d_in s1 i) end |} in
   state_ok false (set_in (set_revs s1 r1) (upd (d_in s1) i f'))).
Proof.
  intros Hdop Hok. pose proof (state_ok_d dirty s Hok) as Hd.
  assert (Hst : d_stack s = []) by (destruct Hok; assumption).
  pose proof (OK_d_zalsa_mut s Hd) as Hz.
  destruct (OK_d_new_revision _ Hz) as [Hn Hfresh].
  cbn zeta. set (s1 := new_revision fams (zalsa_mut fams s)) in *.
  assert (Hst1 : d_stack s1 = []).
  { unfold s1. destruct (new_revision_facts (zalsa_mut fams s)) as (_ & _ & E0 & _).
    rewrite E0, zalsa_mut_stack. exact Hst. }
  split; [split; assumption|].
  intros Hnever. split; [|exact Hst1].
  apply N.eqb_neq in Hnever. unfold D_NEVER in Hnever.
  assert (Hnd : match d with Some d' => d' | None => f_dur (d_in s1 i) end <= 3).
  { destruct d as [d'|]; [exact Hdop|].
    destruct Hn as (H1 & D1 & HI1).
    rewrite <- (inv_dur _ _ _ _ _ HI1 i (cur s1)); [apply (inv_dur3 _ _ _ _ _ HI1) | apply (inv_in_le _ _ _ _ _ HI1) | lia]. }
  exact (OK_write uprog NF s1 i v _ Hn Hfresh Hnever Hnd).
Qed.

Lemma db_synth_ok dirty s d :
  state_ok dirty s ->
  let s1 := new_revision fams (zalsa_mut fams s) in
  state_ok false s1 /\ state_ok false (set_revs s1 (report_write (d_revs s1) d)).
Proof.
  intros Hok. pose proof (state_ok_d dirty s Hok) as Hd.
  assert (Hst : d_stack s = []) by (destruct Hok; assumption).
  pose proof (OK_d_zalsa_mut s Hd) as Hz.
  destruct (OK_d_new_revision _ Hz) as [Hn Hfresh].
  cbn zeta. set (s1 := new_revision fams (zalsa_mut fams s)) in *.
  assert (Hst1 : d_stack s1 = []).
  { unfold s1. destruct (new_revision_facts (zalsa_mut fams s)) as (_ & _ & E0 & _).
    rewrite E0, zalsa_mut_stack. exact Hst. }
  split; [split; assumption|]. split; [|exact Hst1].
  assert (Hrv1 : revs_ok (d_revs s1)) by (destruct Hn as (H1 & D1 & HI1); apply (inv_revs _ _ _ _ _ HI1)).
  apply (OK_revs uprog NF s1); auto.
  - cbn. apply revs_ok_report_write; exact Hrv1.
  - intros k. unfold lcs; cbn. apply lc_report_write_ge; exact Hrv1.
Qed.

(* ---------------------------------------------------------------- restore (snapshot s) *)
Section Closed.
Hypothesis Hclosed : Statement.persisted_closed uprog pfam.

(* with [persisted_closed] every edge of a persisted function's memo is serialised directly *)
Lemma edges_persistable H D s q m :
  DInv H D s -> d_memo s q = Some m -> pfam (fst q) = true -> all_persistable pfam (m_edges m).
Proof.
  intros HI Hm Hp e He. destruct e as [i|d]; [reflexivity|]. cbn.
  pose proof (mo_edges_q _ _ _ _ _ _ _ (inv_memo _ _ _ _ _ HI q m Hm) d He) as Hin.
  apply (Hclosed q d Hp). apply calls_tb.
  exact (calls_of_trace _ _ _ Hin).
Qed.

Lemma snapshot_sub_sim H D s :
  DInv_d uprog NF H D s -> sub_sim (d_memo s) (snap_memo pfam (d_memo s) sfuel).
Proof.
  intros HI q m' Hs. unfold snap_memo in Hs.
  destruct (d_memo s q) as [m|] eqn:Hm; [|discriminate].
  destruct (m_val m) as [v|] eqn:Hv; [|discriminate].
  destruct (pfam (fst q)) eqn:Hp; [|discriminate]. injection Hs as <-.
  exists m. split; [reflexivity|].
  assert (Ha : all_persistable pfam (m_edges m)).
  { apply (edges_persistable H D (set_cell s (sn_cell (H (cur s)))) q m HI Hm Hp). }
  unfold memo_sim; cbn. repeat split; auto.
  - unfold lost_untracked. rewrite (flatten_full_persistable pfam (d_memo s) sfuel _ Ha). cbn.
    apply orb_false_r.
  - apply (flatten_In_persistable pfam (d_memo s) sfuel _ Ha).
  - apply (flatten_In_persistable pfam (d_memo s) sfuel _ Ha).
  - rewrite Hv. auto.
Qed.

(* the fresh database after deserialisation satisfies the invariant for the ghost histories of
   the serialised one: always up to the external cells, and exactly when these are the ones the
   serialised database saw *)
Theorem restore_ok s ext :
  OK_d s -> d_stack s = [] ->
  state_ok true (restore (snapshot pfam sfuel s) ext lru0).
Proof.
  intros (H & D & HI) Hst. split; [|reflexivity].
  apply (OK_d_same uprog NF s); try reflexivity; [exists H, D; exact HI|].
  apply (snapshot_sub_sim H D s HI).
Qed.

Theorem restore_ok_clean s ext :
  OK s -> d_stack s = [] -> d_cell ext = d_cell s ->
  state_ok false (restore (snapshot pfam sfuel s) ext lru0).
Proof.
  intros (H & D & HI) Hst Hc. split; [|reflexivity].
  apply (OK_same uprog NF s); try reflexivity; [exists H, D; exact HI | exact Hc|].
  apply (snapshot_sub_sim H D s). apply DInv_to_d. exact HI.
Qed.

End Closed.

(* ---------------------------------------------------------------- the run *)
(* the harness state: the database is ok; the serialised database, if any, was taken from an ok
   database whose external cells are the current ones unless they changed since *)
Definition pstate_ok (now since : bool) (p : pstate) : Prop :=
  state_ok now (ps_db p) /\ (now = true -> since = true) /\
  forall img, ps_img p = Some img ->
    exists s0, img = snapshot pfam sfuel s0 /\ OK s0 /\ d_stack s0 = [] /\
               (since = false -> d_cell s0 = d_cell (ps_db p)).

Lemma img_keep now since p s' :
  pstate_ok now since p -> (since = false -> d_cell s' = d_cell (ps_db p)) ->
  forall img, ps_img p = Some img ->
    exists s0, img = snapshot pfam sfuel s0 /\ OK s0 /\ d_stack s0 = [] /\
               (since = false -> d_cell s0 = d_cell s').
Proof.
  intros (_ & _ & Hi) Hc img Himg. destruct (Hi img Himg) as (s0 & A & B & C & D0).
  exists s0. repeat split; auto. intros Hs. rewrite (Hc Hs). apply D0; exact Hs.
Qed.

Lemma step_ok fuel now since p o :
  (forall q, (rank q < fuel)%nat) -> Statement.dur_op o ->
  (o = ORestore -> Statement.persisted_closed uprog pfam) ->
  pstate_ok now since p ->
  match o with
  | OGet q =>
      now = false ->
      (Statement.get_ok uprog NF (fst (pstep fuel p o)) q (snd (pstep fuel p o)) \/
       snd (pstep fuel p o) = PPanic PUninit) /\
      pstate_ok false since (fst (pstep fuel p o))
  | OSetCell _ _ => pstate_ok true true (fst (pstep fuel p o))
  | OSet _ _ _ | OSynth _ => pstate_ok false since (fst (pstep fuel p o))
  | OSnapshot => now = false -> pstate_ok false false (fst (pstep fuel p o))
  | ORestore => pstate_ok since since (fst (pstep fuel p o))
  | _ => pstate_ok now since (fst (pstep fuel p o))
  end.
Proof.
  intros Hfuel Hdop Hcl Hok. pose proof Hok as (Hdb & Hns & Himg).
  set (s := ps_db p) in *.
  assert (Hst : d_stack s = []) by (destruct Hdb; assumption).
  unfold Statement.pstep.
  destruct o as [i v d | d | c v | c v | q | fam n | | |]; cbn [step fst snd]; fold s; unfold pstate_ok; cbn [with_db ps_db ps_img].
  - (* OSet *)
    destruct (db_set_ok now s i v d Hdop Hdb) as [H1 H2].
    destruct (f_dur (d_in (new_revision fams (zalsa_mut fams s)) i) =? D_NEVER) eqn:Hn; cbn [fst].
    + split; [exact H1|]. split; [discriminate|]. apply (img_keep now since p); [exact Hok|]. intros _.
      cbn. destruct (new_revision_facts (zalsa_mut fams s)) as (_ & B & _). rewrite B. apply zalsa_mut_cell.
    + split; [exact (H2 eq_refl)|]. split; [discriminate|]. apply (img_keep now since p); [exact Hok|]. intros _.
      cbn. destruct (new_revision_facts (zalsa_mut fams s)) as (_ & B & _). rewrite B. apply zalsa_mut_cell.
  - (* OSynth *)
    destruct (db_synth_ok now s d Hdb) as [H1 H2].
    destruct (d =? D_NEVER); cbn [fst].
    + split; [exact H1|]. split; [discriminate|]. apply (img_keep now since p); [exact Hok|]. intros _.
      cbn. destruct (new_revision_facts (zalsa_mut fams s)) as (_ & B & _). rewrite B. apply zalsa_mut_cell.
    + split; [exact H2|]. split; [discriminate|]. apply (img_keep now since p); [exact Hok|]. intros _.
      cbn. destruct (new_revision_facts (zalsa_mut fams s)) as (_ & B & _). rewrite B. apply zalsa_mut_cell.
  - (* OSetCell *)
    split.
    + split; [|exact Hst]. apply (OK_d_same_cells s); auto. apply (state_ok_d now s Hdb).
    + split; [reflexivity|]. intros img Hi. destruct (Himg img Hi) as (s0 & A & B & C & _).
      exists s0. repeat split; auto. discriminate.
  - (* OSetPanic *)
    split.
    + split; [|exact Hst]. destruct now; destruct Hdb as [A _].
      * apply (OK_d_same_cells s); auto.
      * apply (OK_same_all s); auto.
    + split; [exact Hns|]. apply (img_keep now since p); [exact Hok | reflexivity].
  - (* OGet *)
    intros ->.
    destruct (db_get_ok fuel s q Hfuel Hdb) as (Hres & Hin & Hcell).
    destruct (fetch uprog noeq (level uprog noeq fuel) q s) as [s' [[[v dd] cc] | e |]] eqn:Hf;
      cbn [fst snd] in *.
    + destruct Hres as [Hv Hs']. split.
      * left. left. f_equal. rewrite Hv. unfold Spec.snap_of. cbn. rewrite Hin, Hcell. reflexivity.
      * split; [exact Hs'|]. split; [discriminate|]. apply (img_keep false since p); [exact Hok | intros _; exact Hcell].
    + destruct Hres as [Ha Hs']. split.
      * destruct Ha as [-> | [[-> _] | [-> _]]]; [left; right; eexists; reflexivity | left; right; eexists; reflexivity | right; reflexivity].
      * split; [exact Hs'|]. split; [discriminate|]. apply (img_keep false since p); [exact Hok | intros _; exact Hcell].
    + destruct Hres.
  - (* OSetLru *)
    split.
    + split; [|cbn; rewrite zalsa_mut_stack; exact Hst].
      destruct now; destruct Hdb as [A _].
      * apply (OK_d_same_cells (zalsa_mut fams s)); auto. apply OK_d_zalsa_mut; exact A.
      * apply (OK_same_all (zalsa_mut fams s)); auto. apply OK_zalsa_mut; exact A.
    + split; [exact Hns|]. apply (img_keep now since p); [exact Hok|]. intros _. cbn. apply zalsa_mut_cell.
  - (* OEvict *)
    destruct (evict_all_facts (zalsa_mut fams s)) as (A1 & A2 & A3 & A4 & A5).
    split.
    + split; [|rewrite A4, zalsa_mut_stack; exact Hst].
      destruct now; destruct Hdb as [A _].
      * apply (OK_d_same uprog NF (zalsa_mut fams s)); auto; [apply OK_d_zalsa_mut; exact A | apply evicted_sub_sim; exact A5].
      * apply (OK_same uprog NF (zalsa_mut fams s)); auto; [apply OK_zalsa_mut; exact A | apply evicted_sub_sim; exact A5].
    + split; [exact Hns|]. apply (img_keep now since p); [exact Hok|]. intros _. rewrite A3. apply zalsa_mut_cell.
  - (* OSnapshot *)
    intros ->. split; [exact Hdb|]. split; [discriminate|].
    intros img Hi. cbn in Hi. injection Hi as <-.
    exists s. destruct Hdb as [A B]. repeat split; auto.
  - (* ORestore *)
    destruct (ps_img p) as [img|] eqn:Hi; cbn [fst ps_db ps_img].
    + destruct (Himg img eq_refl) as (s0 & -> & B & C & D0).
      split; [|split; [auto|]].
      * destruct since.
        -- apply restore_ok; [exact (Hcl eq_refl) | apply OK_to_d; exact B | exact C].
        -- apply restore_ok_clean; [exact (Hcl eq_refl) | exact B | exact C | symmetry; apply D0; reflexivity].
      * intros img' Hi'. injection Hi' as <-.
        exists s0. repeat split; auto.
    + fold s. split; [|split; [auto|]].
      * destruct now.
        -- rewrite (Hns eq_refl). exact Hdb.
        -- apply state_ok_weaken; exact Hdb.
      * intros img' Hi'. rewrite Hi in Hi'. discriminate.
Qed.

(* ---------------------------------------------------------------- the results theorems *)
Theorem results_general fuel :
  (forall q, (rank q < fuel)%nat) ->
  forall ops now since p, Forall Statement.dur_op ops -> Statement.wf_ops now since ops ->
    (In ORestore ops -> Statement.persisted_closed uprog pfam) ->
    pstate_ok now since p ->
    Statement.known_class_free uprog noeq pfam fams lru0 sfuel fuel p ops ->
    Statement.results_ok uprog noeq pfam fams lru0 NF sfuel fuel p ops.
Proof.
  intros Hfuel. induction ops as [|o ops IH]; intros now since p Hdur Hwf Hcl Hok Hk; [exact I|].
  inversion Hdur as [|? ? Hdo Hdurs]; subst.
  cbn [Statement.results_ok Statement.known_class_free] in *. destruct Hk as [Hk1 Hk2].
  assert (Hcl1 : o = ORestore -> Statement.persisted_closed uprog pfam) by (intros ->; apply Hcl; now left).
  assert (Hcl2 : In ORestore ops -> Statement.persisted_closed uprog pfam) by (intros Hin; apply Hcl; now right).
  pose proof (step_ok fuel now since p o Hfuel Hdo Hcl1 Hok) as Hs.
  destruct o as [i v d | d | c v | c v | q | fam n | | |]; cbn [Statement.wf_ops] in Hwf.
  - split; [exact I|]. apply (IH false since); assumption.
  - split; [exact I|]. apply (IH false since); assumption.
  - split; [exact I|]. apply (IH true true); assumption.
  - split; [exact I|]. apply (IH now since); assumption.
  - destruct Hwf as [-> Hwf]. destruct (Hs eq_refl) as [[Hg | Hu] Hs'].
    + split; [exact Hg|]. apply (IH false since); assumption.
    + contradiction.
  - split; [exact I|]. apply (IH now since); assumption.
  - split; [exact I|]. apply (IH now since); assumption.
  - destruct Hwf as [-> Hwf]. split; [exact I|]. apply (IH false false); auto.
  - split; [exact I|]. apply (IH since since); assumption.
Qed.

Lemma init_ok iv idur : (forall i, idur i <= 3) -> pstate_ok false false (pinit iv idur lru0).
Proof.
  intros Hid. split; [|split; [discriminate | intros img Hi; discriminate]].
  split; [|reflexivity].
  exists (fun _ => csnap (init iv idur lru0)), (fun _ => idur).
  constructor.
  - cbn. unfold REV_START. lia.
  - cbn. unfold revs_ok, REV_START; cbn. lia.
  - intros i r _ _. reflexivity.
  - intros i r _ _. reflexivity.
  - intros i. cbn. unfold REV_START. lia.
  - intros c. reflexivity.
  - intros r i. apply Hid.
  - intros r i _ _. split; reflexivity.
  - intros q m Hm. discriminate.
Qed.

End Top.

(* ---------------------------------------------------------------- in the terms of Statement.v *)
Section Final.
Variable prog : qkey -> body.
Variable noeq : qkey -> bool.
Variable pfam : N -> bool.
Variable fams : list N.
Variable lru0 : N -> lru_state.
Variable rank : qkey -> nat.
Hypothesis Hrank : Spec.calls_below prog rank.
Variable NF : nat.
Hypothesis Hbound : forall q, (rank q < NF)%nat.

(* histories WITHOUT restore (snapshots allowed): C01 for the persist-mode model *)
Theorem results_no_restore fuel sfuel :
  (forall p, (rank p < fuel)%nat) ->
  forall iv idur ops,
    (forall i, idur i <= 3) -> Forall Statement.dur_op ops -> Statement.wf_ops false false ops ->
    ~ In ORestore ops ->
    Statement.known_class_free prog noeq pfam fams lru0 sfuel fuel (pinit iv idur lru0) ops ->
    Statement.results_ok prog noeq pfam fams lru0 NF sfuel fuel (pinit iv idur lru0) ops.
Proof.
  intros Hfuel iv idur ops Hid Hdur Hwf Hnr Hk.
  apply (results_general prog noeq pfam fams lru0 rank (calls_below_tb prog rank Hrank) NF Hbound sfuel fuel Hfuel
           ops false false _ Hdur Hwf); [intros Hin; contradiction | apply init_ok; exact Hid | exact Hk].
Qed.

(* histories with snapshots AND restores, when persisted functions only call persisted ones *)
Theorem results_closed fuel sfuel :
  (forall p, (rank p < fuel)%nat) ->
  Statement.persisted_closed prog pfam ->
  forall iv idur ops,
    (forall i, idur i <= 3) -> Forall Statement.dur_op ops -> Statement.wf_ops false false ops ->
    Statement.known_class_free prog noeq pfam fams lru0 sfuel fuel (pinit iv idur lru0) ops ->
    Statement.results_ok prog noeq pfam fams lru0 NF sfuel fuel (pinit iv idur lru0) ops.
Proof.
  intros Hfuel Hcl iv idur ops Hid Hdur Hwf Hk.
  apply (results_general prog noeq pfam fams lru0 rank (calls_below_tb prog rank Hrank) NF Hbound sfuel fuel Hfuel
           ops false false _ Hdur Hwf); [intros _; exact Hcl | apply init_ok; exact Hid | exact Hk].
Qed.

End Final.

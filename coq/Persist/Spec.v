(* Persist/Spec.v — from-scratch specification for the persist-mode model (as Core/Spec.v).  Definitions only. *)
From Salsa Require Import Base.
From Salsa.Persist Require Import Model.

(* what a body sees: the answers to its reads *)
Record env := { e_in : ikey -> val; e_cell : cell -> val; e_q : qkey -> val }.

(* the denotation of a body under a read environment *)
Fixpoint run (e : env) (b : body) : val :=
  match b with
  | Ret v => v
  | RdIn i k => run e (k (e_in e i))
  | CallQ q k => run e (k (e_q e q))
  | RdCell c k => run e (k (e_cell e c))
  | Touch k => run e k
  | PanicIf _ k => run e k          (* the specification is about runs in which no fault is injected *)
  end.

(* the reads a body performs, in order, with the answers it got *)
Inductive rd := RIn (i : ikey) | RQ (q : qkey) | RCell (c : cell) | RTouch.

Fixpoint trace (e : env) (b : body) : list rd :=
  match b with
  | Ret _ => []
  | RdIn i k => RIn i :: trace e (k (e_in e i))
  | CallQ q k => RQ q :: trace e (k (e_q e q))
  | RdCell c k => RCell c :: trace e (k (e_cell e c))
  | Touch k => RTouch :: trace e k
  | PanicIf _ k => trace e k
  end.

(* a snapshot of everything outside salsa's memo tables *)
Record snapshot := { sn_in : ikey -> val; sn_cell : cell -> val }.

(* from-scratch evaluation, by rank fuel: [eval prog n sn q] is q's value when every
   call chain below q is shorter than n *)
Fixpoint eval (prog : qkey -> body) (n : nat) (sn : snapshot) (q : qkey) : val :=
  match n with
  | O => 0
  | S n' => run {| e_in := sn_in sn; e_cell := sn_cell sn; e_q := eval prog n' sn |} (prog q)
  end.

(* the same with an explicit "call chain too deep" outcome: with fuel above the number of
   nodes, [None] means the from-scratch evaluation re-enters a node (a dependency cycle) *)
Fixpoint runo (ein : ikey -> val) (ecell : cell -> val) (eq : qkey -> option val) (b : body)
  : option val :=
  match b with
  | Ret v => Some v
  | RdIn i k => runo ein ecell eq (k (ein i))
  | CallQ q k => match eq q with Some v => runo ein ecell eq (k v) | None => None end
  | RdCell c k => runo ein ecell eq (k (ecell c))
  | Touch k => runo ein ecell eq k
  | PanicIf _ k => runo ein ecell eq k
  end.

Fixpoint evalo (prog : qkey -> body) (n : nat) (sn : snapshot) (q : qkey) : option val :=
  match n with
  | O => None
  | S n' => runo (sn_in sn) (sn_cell sn) (evalo prog n' sn) (prog q)
  end.

Definition snap_of (s : db) : snapshot :=
  {| sn_in := fun i => f_val (d_in s i); sn_cell := d_cell s |}.

(* the calls reachable in a body, for any answers: used to state acyclicity *)
Inductive calls : body -> qkey -> Prop :=
| calls_here q k : calls (CallQ q k) q
| calls_in_call q k v q' : calls (k v) q' -> calls (CallQ q k) q'
| calls_in_rdin i k v q' : calls (k v) q' -> calls (RdIn i k) q'
| calls_in_cell c k v q' : calls (k v) q' -> calls (RdCell c k) q'
| calls_in_touch k q' : calls k q' -> calls (Touch k) q'
| calls_in_panicif c k q' : calls k q' -> calls (PanicIf c k) q'.

(* acyclicity hypothesis of C01..C05: a rank function decreasing along every possible call *)
Definition calls_below (prog : qkey -> body) (rank : qkey -> nat) : Prop :=
  forall q q', calls (prog q) q' -> (rank q' < rank q)%nat.

(* Persist/ProofsRoundtrip.v — what restore (snapshot s) keeps, and reuse of restored memos
   on the executable model. *)
From Salsa Require Import Base.
From Salsa.Kern Require Import CoreK.
From Salsa.Persist Require Import Model.

Section Roundtrip.
Variable prog : qkey -> body.
Variable noeq : qkey -> bool.
Variable pfam : N -> bool.

(* the memo as serialised: value and stamps are kept, the edges are flattened, and the origin
   becomes untracked when flattening expanded a dependency with untracked reads (fix e43c20c) *)
Definition flat_memo (mm : qkey -> option memo) (fuel : nat) (m : memo) : memo :=
  {| m_val := m_val m; m_verified := m_verified m; m_changed := m_changed m; m_dur := m_dur m;
     m_untracked := m_untracked m || lost_untracked pfam mm fuel (m_edges m);
     m_edges := flatten pfam mm fuel (m_edges m) |}.

Definition serialised (s : db) (q : qkey) : Prop :=
  pfam (fst q) = true /\ exists m v, d_memo s q = Some m /\ m_val m = Some v.

Theorem roundtrip (fuel : nat) (s ext : db) (lru0 : N -> lru_state) :
  let s' := restore (snapshot pfam fuel s) ext lru0 in
  (* the runtime revisions and every input slot (value, stamp, durability) *)
  d_revs s' = d_revs s /\ (forall i, d_in s' i = d_in s i) /\
  (* every memo of a persisted function that has a value: value, stamps, durability kept; edges
     flattened; untracked if it was, or if an expanded dependency was *)
  (forall q m v, pfam (fst q) = true -> d_memo s q = Some m -> m_val m = Some v ->
     d_memo s' q = Some (flat_memo (d_memo s) fuel m)) /\
  (* nothing else: memos of non-persisted functions and value-less memos are gone *)
  (forall q, ~ serialised s q -> d_memo s' q = None) /\
  (* fresh database: no claim, declared eviction policy, one cancellation-count bump, no
     function ingredient initialised; what is not salsa state is untouched *)
  d_stack s' = [] /\ d_lru s' = lru0 /\ d_ccount s' = 1 /\ (forall fam, d_init s' fam = false) /\
  d_cell s' = d_cell ext /\ d_pcell s' = d_pcell ext /\ d_log s' = d_log ext.
Proof.
  cbn. repeat split; try reflexivity.
  - intros q m v Hp Hm Hv. unfold snap_memo, flat_memo. rewrite Hm, Hp.
    destruct (m_val m); [reflexivity | discriminate].
  - intros q Hn. unfold snap_memo. destruct (d_memo s q) as [m|] eqn:Hm; [|reflexivity].
    destruct (m_val m) as [v|] eqn:Hv; [|reflexivity].
    destruct (pfam (fst q)) eqn:Hp; [|reflexivity].
    exfalso. apply Hn. split; [exact Hp|]. exists m, v. now split.
Qed.

(* serialising the restored database again changes nothing, provided flattening is idempotent
   on already flattened origins whose function edges are all persisted (see flatten_persisted) *)

(* ---------------------------------------------------------------- reuse, same revision *)
Lemma fetch_hot_verified q s m v :
  d_memo s q = Some m -> m_val m = Some v -> m_verified m = cur s ->
  fetch_hot q s = (s, POk (Some (m, v))).
Proof.
  intros Hm Hv Hver. unfold fetch_hot, bind, get. rewrite Hm, Hv.
  unfold shallow_verify. rewrite Hver, N.eqb_refl. reflexivity.
Qed.

(* A restored memo that was verified in the revision of the snapshot is returned by the first
   request without any event: neither WillExecute nor DidValidateMemoizedValue. *)
Theorem reuse_hot (L : lower) (fuel : nat) (s ext : db) (lru0 : N -> lru_state) q m v :
  pfam (fst q) = true -> d_memo s q = Some m -> m_val m = Some v -> m_verified m = cur s ->
  let s' := restore (snapshot pfam fuel s) ext lru0 in
  exists s'', fetch prog noeq L q s' = (s'', POk (v, m_dur m, m_changed m)) /\ d_log s'' = d_log ext /\
              d_memo s'' = d_memo s'.
Proof.
  intros Hp Hm Hv Hver s'.
  pose proof (roundtrip fuel s ext lru0) as (Hr & _ & Hk & _).
  specialize (Hk q m v Hp Hm Hv). fold s' in Hk, Hr.
  unfold fetch, init_family. unfold bind at 1. unfold modify.
  set (s0 := set_init s' (updN (d_init s') (fst q) true)).
  unfold bind at 1.
  rewrite (fetch_hot_verified q s0 (flat_memo (d_memo s) fuel m) v); [| exact Hk | exact Hv |].
  - unfold bind, ret, modify. cbn [fst snd memo_qres flat_memo m_dur m_changed].
    eexists. split; [reflexivity|]. split; reflexivity.
  - cbn [flat_memo m_verified]. rewrite Hver. unfold cur. cbn [d_revs s0 set_init]. now rewrite Hr.
Qed.

End Roundtrip.

(* ---------------------------------------------------------------- reuse, later revisions *)
Section ReuseLeaves.
Variable prog : qkey -> body.
Variable noeq : qkey -> bool.

Definition with_ver (m : memo) (r : rev) : memo :=
  {| m_val := m_val m; m_verified := r; m_changed := m_changed m; m_dur := m_dur m;
     m_untracked := m_untracked m; m_edges := m_edges m |}.

Definition leaf_unchanged (s : db) (since : rev) (e : edge) : Prop :=
  match e with
  | EIn i => changed_after (f_changed (d_in s i)) since = false
  | EQ _ => False
  end.

Lemma walk_leaves (L : lower) es : forall s since,
  (forall e, In e es -> leaf_unchanged s since e) ->
  walk_edges L es since s = (s, POk false).
Proof.
  induction es as [|e es IH]; intros s since H; [reflexivity|].
  destruct e as [i|q]; [|destruct (H (EQ q) (or_introl eq_refl))].
  cbn [walk_edges]. unfold bind, get.
  pose proof (H (EIn i) (or_introl eq_refl)) as Hi. cbn in Hi. rewrite Hi.
  apply IH. intros e He. apply H. now right.
Qed.

(* A memo with a value, no untracked read, and an origin consisting of input leaves none of
   which changed since the memo was verified (this is what a restored memo looks like when all
   its dependencies were flattened) is returned WITHOUT executing the function, in whatever
   later revision it is requested: the event log grows by at most one DidValidateMemoizedValue. *)
Lemma fetch_cold_leaves (L : lower) (s : db) q m v :
  d_memo s q = Some m -> m_val m = Some v -> m_untracked m = false ->
  shallow_verify s m = ShNo ->
  (forall e, In e (m_edges m) -> leaf_unchanged s (m_verified m) e) ->
  d_stack s = [] ->
  exists s', fetch_cold prog noeq L q s = (s', POk (with_ver m (cur s), v)) /\
             d_log s' = EvValidate q :: d_log s /\ d_lru s' = d_lru s.
Proof.
  intros Hm Hv Hu Sh Hl Hst.
  unfold fetch_cold, claim. unfold bind at 1. unfold bind at 1. unfold get at 1. rewrite Hst. cbn [existsb].
  unfold modify at 1. unfold bind at 1. unfold get at 1. cbn [d_memo set_stack]. rewrite Hm, Hv.
  unfold bind at 1. unfold bind at 1. unfold verify_memo. unfold bind at 1. unfold get at 1.
  change (shallow_verify (set_stack s (q :: d_stack s)) m) with (shallow_verify s m). rewrite Sh.
  unfold deep_verify. rewrite Hu. unfold bind at 1.
  rewrite (walk_leaves L (m_edges m) (set_stack s (q :: d_stack s)) (m_verified m)); [|exact Hl].
  unfold mark_verified, bind, get, emit, modify, set_memo_at, ret, release.
  cbn [fst snd]. eexists. split; [reflexivity|]. split; reflexivity.
Qed.

Theorem reuse_leaves (L : lower) (s : db) q m v :
  d_memo s q = Some m -> m_val m = Some v -> m_untracked m = false ->
  (forall e, In e (m_edges m) -> leaf_unchanged s (m_verified m) e) ->
  d_stack s = [] ->
  exists s', fetch prog noeq L q s = (s', POk (v, m_dur m, m_changed m)) /\
             (d_log s' = d_log s \/ d_log s' = EvValidate q :: d_log s).
Proof.
  intros Hm Hv Hu Hl Hst.
  unfold fetch, init_family. unfold bind at 1. unfold modify at 1.
  set (s0 := set_init s (updN (d_init s) (fst q) true)).
  assert (Hm0 : d_memo s0 q = Some m) by exact Hm.
  unfold bind at 1. unfold fetch_hot. unfold bind at 1. unfold get at 1. rewrite Hm0, Hv.
  destruct (shallow_verify s0 m) eqn:Sh.
  - (* verified in this revision *)
    cbn [update_shallow]. unfold bind, ret, modify. cbn [fst snd memo_qres].
    eexists. split; [reflexivity|]. left. reflexivity.
  - (* higher durability: marked verified, one validate event *)
    cbn [update_shallow]. unfold mark_verified, bind, get, emit, modify, set_memo_at, ret.
    cbn [fst snd memo_qres m_dur m_changed]. eexists. split; [reflexivity|]. right. reflexivity.
  - (* deep verification over the leaves *)
    unfold ret at 1.
    destruct (fetch_cold_leaves L s0 q m v Hm0 Hv Hu Sh Hl Hst) as (s1 & F & Hlog & _).
    unfold bind at 1. rewrite F.
    unfold bind, modify, ret. cbn [fst snd memo_qres with_ver m_dur m_changed].
    eexists. split; [reflexivity|]. right. cbn [d_log set_lru]. exact Hlog.
Qed.

End ReuseLeaves.

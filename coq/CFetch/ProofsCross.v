(* CFetch/ProofsCross.v — C14, cross-thread part, at the protocol level: a request that would
   close a wait cycle is answered Cycle (the caller does not wait), and when the holder of a
   claim unwinds, every thread waiting for that claim receives Panicked, which
   Running::block_on turns into Cancelled::PropagatedPanic. *)
From Salsa Require Import Base.
From Salsa.Proto Require Import Model ProofsGraph ProofsList ProofsInv ProofsWake ProofsStep
  ProofsExamples.
From Salsa.CFetch Require Import Model.

(* try_claim / peek_claim on a key owned by a thread: the answer is decided by reachability in
   the wait graph, and the dependency graph is not touched *)
Lemma claim_owned_decided fuel s o t k allow st owner s' r :
  o = OClaim t k allow \/ o = OPeek t k allow ->
  sync s k = Some st -> ss_id st = OThread owner ->
  Model.step fuel s o = ROk (s', XClaim r) ->
  dg s' = dg s /\
  (reaches (eproj (dg s)) owner t -> r = CCycle false) /\
  (~ reaches (eproj (dg s)) owner t -> r = CRunning owner).
Proof.
  intros Ho Hs Hid H.
  assert (Hc : exists c, try_claim fuel c s t k allow = ROk (s', r)).
  { destruct Ho as [-> | ->]; cbn [Model.step] in H;
      apply bind_ok in H as ([s1 r1] & Hc & H); cbn [fst snd] in H; injection H as <- <-; eauto. }
  destruct Hc as [c Hc]. unfold try_claim in Hc. rewrite Hs, Hid in Hc.
  apply bind_ok in Hc as (r0 & Hr & Hc). injection Hc as <- <-. cbn [dg set_sync] in *.
  split; [reflexivity|].
  apply runtime_block_spec in Hr as [[-> Hr] | [-> Hr]]; split; auto; contradiction.
Qed.

Theorem cross_thread_reported fuel s :
  reachable fuel s ->
  (* the request that re-enters through waiting threads is reported, not waited for *)
  (forall o t k allow st owner s' r,
     o = OClaim t k allow \/ o = OPeek t k allow ->
     sync s k = Some st -> ss_id st = OThread owner ->
     reaches (eproj (dg s)) owner t ->
     Model.step fuel s o = ROk (s', XClaim r) ->
     r = CCycle false /\ dg s' = dg s) /\
  (forall t k other s' out,
     reaches (eproj (dg s)) other t ->
     Model.step fuel s (OBlockOn t k other) = ROk (s', out) ->
     out = XBlock BCycle /\ s' = s) /\
  (* the unwinding holder hands Panicked to every waiter; receiving it is PropagatedPanic *)
  (forall t k s1 out,
     Model.step fuel s (OUnblock t k Panicked) = ROk (s1, out) ->
     forall d u, edges (dg s) d = Some (u, k) ->
       edges (dg s1) d = None /\ wres (dg s1) d = Some Panicked /\
       (exists s2, Model.step fuel s1 (OReceive d) = ROk (s2, XReceive (Some Panicked))) /\
       on_wait_result Panicked = Panic PPropagated).
Proof.
  intros HR. split; [|split].
  - intros o t k allow st owner s' r Ho Hs Hid Hreach H.
    destruct (claim_owned_decided _ _ _ _ _ _ _ _ _ _ Ho Hs Hid H) as (Hdg & Hc & _). auto.
  - intros t k other s' out Hreach H.
    destruct (cycle_reported fuel s HR) as [Hb _].
    destruct (Hb _ _ _ _ _ H) as (Hiff & Hsame & _).
    assert (out = XBlock BCycle) by now apply Hiff. auto.
  - intros t k s1 out H d u Hd.
    destruct (release_wakes_all _ _ _ _ _ _ _ HR H) as (_ & Hw & _).
    destruct (Hw d) as [He Hr]; [eauto|]. repeat split; auto.
    cbn [Model.step]. unfold receive. rewrite Hr, He. cbn. eauto.
Qed.

(* ---- non-vacuity: a -> b on thread 1, b -> a on thread 2 ---- *)

(* thread 1 holds a = 10, thread 2 holds b = 20 and waits for a; thread 1 now requests b *)
Definition ex_cross_prefix : list op :=
  [ OClaim 1 10 true; OClaim 2 20 true; OClaim 2 10 true; OBlockOn 2 10 1 ].

Definition ex_cross_state : state :=
  match run 20 ex_cross_prefix init with ROk s => s | RErr _ => init end.

Example ex_cross_reachable : reachable 20 ex_cross_state.
Proof. eapply reachable_prefix with (l := ex_cross_prefix); vm_compute; reflexivity. Qed.

(* thread 1 is answered Cycle; it unwinds: removes its claim on a, unblocks with Panicked;
   thread 2 receives Panicked *)
Example ex_cross_run :
  match run_out 20 [OClaim 1 20 true; ORemove 1 10; OUnblock 1 10 Panicked; OReceive 2]
                ex_cross_state with
  | ROk (_, outs) => Some (nth 0 outs XUnit, nth 3 outs XUnit)
  | RErr _ => None
  end = Some (XClaim (CCycle false), XReceive (Some Panicked)).
Proof. vm_compute. reflexivity. Qed.

Example ex_cross_premises :
  exists st, sync ex_cross_state 20 = Some st /\ ss_id st = OThread 2 /\
             reaches (eproj (dg ex_cross_state)) 2 1.
Proof.
  eexists. split; [vm_compute; reflexivity|]. split; [reflexivity|].
  econstructor; [vm_compute; reflexivity | constructor].
Qed.

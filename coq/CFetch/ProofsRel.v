(* CFetch/ProofsRel.v — the thread step as a relation, one constructor per path of
   [step_thread], with the protocol steps already digested (CFetch/ProofsProto.v). *)
From Salsa Require Import Base.
From Salsa.Proto Require Import Model ProofsGraph ProofsList ProofsInv ProofsWake ProofsStep.
From Salsa.CFetch Require Import Model ProofsProto.

Definition stack_of (s : cstate) (t : thread) : list frame := th_stack (c_thr s t).
Definition todo_of (s : cstate) (t : thread) : list key := th_todo (c_thr s t).

Notation "k @: ph" := (mkFrame k ph) (at level 45, no associativity).

Section Rel.
Variable fuel : nat.
Variable P : prog.

Inductive path (s : cstate) (t : thread) : upd -> Prop :=
| R_begin k td :
    stack_of s t = [] -> todo_of s t = k :: td ->
    path s t (mkU (c_proto s) (c_memo s) [(k @: PStart)] td false [])
| R_hot_hit k below m :
    stack_of s t = (k @: PStart) :: below ->
    c_memo s k = Some m -> m_ver m = c_cur s ->
    path s t (mkU (c_proto s) (c_memo s) below (todo_of s t) false
                  [ERet t k (c_cur s) (m_val m)])
| R_hot_mark k below m :
    stack_of s t = (k @: PStart) :: below ->
    c_memo s k = Some m -> m_ver m <> c_cur s -> m_val m = p_val P (c_cur s) k ->
    path s t (mkU (c_proto s) (mark s k m) below (todo_of s t) false
                  [ERet t k (c_cur s) (m_val m)])
| R_go_cold k below :
    stack_of s t = (k @: PStart) :: below ->
    (forall m, c_memo s k = Some m -> m_ver m <> c_cur s) ->
    path s t (mkU (c_proto s) (c_memo s) ((k @: PCold) :: below) (todo_of s t) false [])
| R_claimed k below pr1 md :
    stack_of s t = (k @: PCold) :: below ->
    Model.step fuel (c_proto s) (OClaim t k true) = ROk (pr1, XClaim (CClaimed md)) ->
    sync (c_proto s) k = None -> dg pr1 = dg (c_proto s) ->
    sync pr1 = updN (sync (c_proto s)) k (Some (fresh_sync t)) ->
    path s t (mkU pr1 (c_memo s) ((k @: PClaimed) :: below) (todo_of s t) false [])
| R_blocked k below pr1 pr2 o st :
    stack_of s t = (k @: PCold) :: below ->
    Model.step fuel (c_proto s) (OClaim t k true) = ROk (pr1, XClaim (CRunning o)) ->
    Model.step fuel pr1 (OBlockOn t k o) = ROk (pr2, XBlock BBlocked) ->
    sync (c_proto s) k = Some st -> ss_id st = OThread o -> o <> t ->
    ~ reaches (eproj (dg (c_proto s))) o t -> edges (dg (c_proto s)) t = None ->
    sync pr2 = updN (sync (c_proto s)) k (Some (set_waiting st)) ->
    dg pr2 = set_qdeps (set_edges (dg (c_proto s))
                          (updN (edges (dg (c_proto s))) t (Some (o, k))))
                       (updN (qdeps (dg (c_proto s))) k (qdeps (dg (c_proto s)) k ++ [t])) ->
    path s t (mkU pr2 (c_memo s) ((k @: PWait) :: below) (todo_of s t) false [])
| R_cycle k below pr1 o st inner :
    stack_of s t = (k @: PCold) :: below ->
    Model.step fuel (c_proto s) (OClaim t k true) = ROk (pr1, XClaim (CCycle inner)) ->
    sync (c_proto s) k = Some st -> ss_id st = OThread o ->
    reaches (eproj (dg (c_proto s))) o t ->
    dg pr1 = dg (c_proto s) ->
    sync pr1 = updN (sync (c_proto s)) k (Some (set_waiting st)) ->
    path s t (mkU pr1 (c_memo s) ((k @: PCold) :: below) (todo_of s t) true [])
| R_woken k below pr1 r :
    stack_of s t = (k @: PWait) :: below ->
    Model.step fuel (c_proto s) (OReceive t) = ROk (pr1, XReceive (Some r)) ->
    sync pr1 = sync (c_proto s) ->
    wres (dg (c_proto s)) t = Some r -> edges (dg (c_proto s)) t = None ->
    dg pr1 = set_wres (dg (c_proto s)) (updN (wres (dg (c_proto s))) t None) ->
    path s t (mkU pr1 (c_memo s) ((k @: PStart) :: below) (todo_of s t) false [])
| R_recheck_hit k below m :
    stack_of s t = (k @: PClaimed) :: below ->
    c_memo s k = Some m -> m_ver m = c_cur s ->
    path s t (mkU (c_proto s) (c_memo s) ((k @: PRelease (m_val m)) :: below) (todo_of s t)
                  false [])
| R_to_verify k below m :
    stack_of s t = (k @: PClaimed) :: below ->
    c_memo s k = Some m -> m_ver m <> c_cur s ->
    path s t (mkU (c_proto s) (c_memo s) ((k @: PVerify (m_deps m)) :: below) (todo_of s t)
                  false [])
| R_exec_start k ph below :
    stack_of s t = (k @: ph) :: below ->
    (ph = PClaimed /\ (forall m, c_memo s k = Some m -> m_ver m <> c_cur s)) \/
    (exists l, ph = PVerify l) ->
    path s t (mkU (c_proto s) (c_memo s) ((k @: PExec (p_deps P (c_cur s) k)) :: below)
                  (todo_of s t) false [EExec t k (c_cur s)])
| R_call_v k d rest below :
    stack_of s t = (k @: PVerify (d :: rest)) :: below ->
    path s t (mkU (c_proto s) (c_memo s) ((d @: PStart) :: (k @: PVerify rest) :: below)
                  (todo_of s t) false [])
| R_call_x k d rest below :
    stack_of s t = (k @: PExec (d :: rest)) :: below ->
    path s t (mkU (c_proto s) (c_memo s) ((d @: PStart) :: (k @: PExec rest) :: below)
                  (todo_of s t) false [])
| R_mark k below m :
    stack_of s t = (k @: PVerify []) :: below ->
    c_memo s k = Some m -> m_val m = p_val P (c_cur s) k ->
    path s t (mkU (c_proto s) (mark s k m) ((k @: PRelease (m_val m)) :: below) (todo_of s t)
                  false [])
| R_publish k below :
    stack_of s t = (k @: PExec []) :: below ->
    path s t (mkU (c_proto s) (publish P s k)
                  ((k @: PRelease (p_val P (c_cur s) k)) :: below) (todo_of s t) false [])
| R_release_quiet k v below pr1 st :
    stack_of s t = (k @: PRelease v) :: below ->
    Model.step fuel (c_proto s) (ORemove t k) = ROk (pr1, XRemoved st) ->
    sync (c_proto s) k = Some st -> ss_waiting st = false ->
    dg pr1 = dg (c_proto s) -> sync pr1 = updN (sync (c_proto s)) k None ->
    path s t (mkU pr1 (c_memo s) below (todo_of s t) false [ERet t k (c_cur s) v])
| R_release_wake k v below pr1 st :
    stack_of s t = (k @: PRelease v) :: below ->
    Model.step fuel (c_proto s) (ORemove t k) = ROk (pr1, XRemoved st) ->
    sync (c_proto s) k = Some st -> ss_waiting st = true ->
    dg pr1 = dg (c_proto s) -> sync pr1 = updN (sync (c_proto s)) k None ->
    path s t (mkU pr1 (c_memo s) ((k @: PUnblock v) :: below) (todo_of s t) false [])
| R_unblock k v below pr1 out :
    stack_of s t = (k @: PUnblock v) :: below ->
    Model.step fuel (c_proto s) (OUnblock t k Completed) = ROk (pr1, out) ->
    sync pr1 = sync (c_proto s) ->
    (forall x, In x (qdeps (dg (c_proto s)) k) ->
       edges (dg pr1) x = None /\ wres (dg pr1) x = Some Completed) ->
    (forall x, ~ In x (qdeps (dg (c_proto s)) k) ->
       edges (dg pr1) x = edges (dg (c_proto s)) x /\ wres (dg pr1) x = wres (dg (c_proto s)) x) ->
    path s t (mkU pr1 (c_memo s) below (todo_of s t) false [ERet t k (c_cur s) v]).

Lemma step_thread_path s t c u :
  only_threads (c_proto s) -> step_thread fuel P s t c = Some u -> path s t u.
Proof.
  intros OT. unfold step_thread.
  destruct (th_cycle (c_thr s t)); [discriminate|].
  destruct (th_stack (c_thr s t)) as [|[k ph] below] eqn:Est.
  { destruct (th_todo (c_thr s t)) as [|k td] eqn:Etd; [discriminate|].
    intros [= <-]. now constructor. }
  cbn [f_key f_phase]. unfold step_frame.
  change (th_todo (c_thr s t)) with (todo_of s t).
  destruct ph as [| | | |l|l|v|v].
  - (* PStart *)
    destruct (c_memo s k) as [m|] eqn:Em.
    + destruct (N.eqb_spec (m_ver m) (c_cur s)) as [Ev|Ev].
      * intros [= <-]. eapply R_hot_hit; eauto.
      * destruct (c && valid_now P s k m) eqn:Ec.
        -- intros [= <-]. apply andb_true_iff in Ec as [_ Ec]. apply N.eqb_eq in Ec.
           eapply R_hot_mark; eauto.
        -- intros [= <-]. eapply R_go_cold; eauto. intros m' Hm'. congruence.
    + intros [= <-]. eapply R_go_cold; eauto. intros m' Hm'. congruence.
  - (* PCold *)
    destruct (Model.step fuel (c_proto s) (OClaim t k true)) as [[pr1 out]|] eqn:Ecl; [|discriminate].
    destruct out as [r| | | | | | |]; try discriminate.
    pose proof (claim_cases _ _ _ _ _ _ _ OT Ecl) as (Hdg & Hcases).
    destruct r as [md|o|inner].
    + intros [= <-]. destruct Hcases as [(Hn & _ & Hs) | (st & u0 & _ & _ & _ & [[? _]|[? _]])];
        try discriminate. eapply R_claimed; eauto.
    + destruct Hcases as [(_ & ? & _) | (st & u0 & Hst & Hid & Hs & [[? _]|(Hr & Hne & Hnr)])];
        try discriminate. injection Hr as <-.
      destruct (Model.step fuel pr1 (OBlockOn t k o)) as [[pr2 out2]|] eqn:Ebl; [|discriminate].
      destruct out2 as [|b| | | | | |]; try discriminate.
      pose proof (block_cases _ _ _ _ _ _ _ Ebl) as (Hs2 & Hb).
      rewrite Hdg in Hb.
      destruct b.
      * intros [= <-].
        destruct Hb as [(? & _) | (_ & _ & _ & He & Hg)]; [discriminate|].
        eapply R_blocked; eauto. congruence.
      * intros _. destruct Hb as [(_ & Hr & _) | (? & _)]; [contradiction | discriminate].
    + intros [= <-].
      destruct Hcases as [(_ & ? & _) | (st & u0 & Hst & Hid & Hs & [(_ & Hr)|(? & _)])];
        try discriminate. eapply R_cycle; eauto.
  - (* PWait *)
    destruct (Model.step fuel (c_proto s) (OReceive t)) as [[pr1 out]|] eqn:Erc; [|discriminate].
    destruct out as [|  |[r|]| | | | |]; try discriminate.
    intros [= <-]. pose proof (receive_cases _ _ _ _ _ Erc) as (Hs & Hw & He & Hg).
    eapply R_woken; eauto.
  - (* PClaimed *)
    destruct (c_memo s k) as [m|] eqn:Em.
    + destruct (N.eqb_spec (m_ver m) (c_cur s)) as [Ev|Ev].
      * intros [= <-]. eapply R_recheck_hit; eauto.
      * destruct c; intros [= <-].
        -- eapply R_to_verify; eauto.
        -- eapply R_exec_start; eauto. left. split; auto. intros m' Hm'. congruence.
    + intros [= <-]. eapply R_exec_start; eauto. left. split; auto. intros m' Hm'. congruence.
  - (* PVerify *)
    destruct l as [|d rest].
    + destruct (c_memo s k) as [m|] eqn:Em.
      * destruct (c && valid_now P s k m) eqn:Ec; intros [= <-].
        -- apply andb_true_iff in Ec as [_ Ec]. apply N.eqb_eq in Ec. eapply R_mark; eauto.
        -- eapply R_exec_start; eauto.
      * intros [= <-]. eapply R_exec_start; eauto.
    + destruct c; intros [= <-].
      * eapply R_call_v; eauto.
      * eapply R_exec_start; eauto.
  - (* PExec *)
    destruct l as [|d rest]; intros [= <-].
    + eapply R_publish; eauto.
    + eapply R_call_x; eauto.
  - (* PRelease *)
    destruct (Model.step fuel (c_proto s) (ORemove t k)) as [[pr1 out]|] eqn:Erm; [|discriminate].
    destruct out as [| | |st| | | |]; try discriminate.
    pose proof (remove_cases _ _ _ _ _ _ Erm) as (Hg & Hst & Hs).
    destruct (OT _ _ Hst) as (u0 & _ & Htw & Htg).
    destruct (release_script_cases t k st Htw Htg) as [[Hw ->] | [Hw ->]]; intros [= <-].
    + eapply R_release_quiet; eauto.
    + eapply R_release_wake; eauto.
  - (* PUnblock *)
    destruct (Model.step fuel (c_proto s) (OUnblock t k Completed)) as [[pr1 out]|] eqn:Eub;
      [|discriminate].
    intros [= <-]. pose proof (unblock_cases _ _ _ _ _ _ _ Eub) as (Hs & A & B).
    eapply R_unblock; eauto.
Qed.

End Rel.

(* CFetch/Model.v — the concurrent fetch / maybe_changed_after loop, as an interleaving of atomic
   steps over shared memos and the Proto sync table + dependency graph.

   DEFINITIONS ONLY (CONVENTIONS.md): total, computable Gallina.  Proofs: CFetch/Proofs*.v.

   WHAT THIS IS.  An ABSTRACT, protocol-level model of what several database handles do when they
   request tracked functions at the same time (no writes in between; a write is the separate
   global step [GBump], enabled only when every handle is idle — C20 is the property that says
   writes exclude readers).  Each thread runs, per requested key,

       hot probe -> claim -> re-check memo -> (verify | execute) -> publish -> release

   and every constructor of [phase] below is a program point between two shared accesses:

     PStart      IngredientImpl::fetch_hot (fetch.rs:76-108) /
                 MemoHeader::maybe_changed_after_hot (maybe_changed_after.rs:268-291):
                 one read of the memo table (memo.rs get_memo_from_table_for); a memo verified in
                 the current revision is returned; a stale memo may be marked verified without a
                 claim by the durability short-cut (shallow_verify_memo + update_shallow ->
                 mark_as_verified) — the model's [R_hot_mark], guarded by validity at [cur].
     PCold       fetch_cold (fetch.rs:110-124) / maybe_changed_after_cold::inner
                 (maybe_changed_after.rs:160-182): SyncTable::try_claim; when the key is claimed
                 by another thread the same critical section (sync shard lock + dependency-graph
                 lock, both held) continues into Running::block_on -> DependencyGraph::block_on ->
                 add_edge; the model executes Proto's [OClaim] and [OBlockOn] in ONE step for
                 that reason (DESIGN §4.3: this atomicity is what excludes lost wake-ups).
     PWait       the wait loop of DependencyGraph::block_on (dependency_graph.rs:84-97); the step
                 is Proto's [OReceive]; afterwards the caller retries from the top
                 (`return None` in fetch_cold / ColdResult::Retry).
     PClaimed    "Now that we've claimed the item, check again" (fetch.rs:139-156,
                 maybe_changed_after.rs:184-204): second read of the memo table.
     PVerify l   MemoHeader::deep_verify_memo -> deep_verify_edges over the edges [l] recorded in
                 the old memo; each edge is a nested request (maybe_changed_after of the input
                 query); at the end mark_as_verified (maybe_changed_after.rs:520-522), guarded.
                 The walk may be abandoned at any point in favour of execution (first changed
                 edge, untracked origin, no memo, ...): choice [c = false].
     PExec l     IngredientImpl::execute (execute.rs:36-119): WillExecute is emitted (the model's
                 [EExec] log entry), the body runs; its tracked calls are the nested requests [l];
                 at the end insert_memo publishes a memo verified at the current revision.
     PRelease v  ClaimGuard::drop -> drop_impl/Default (sync.rs:515-521): Proto's [ORemove].
     PUnblock v  ClaimGuard::release (sync.rs:406-430) when anyone_waiting was set: Proto's
                 [OUnblock] with WaitResult::Completed.  (The transfer-related entries of
                 [release_script] do not occur in this fragment: no cycles, hence no transfers.)

   WHAT IS ASSUMED, NOT PROVED HERE (DESIGN §7 C16, "the guards").  The two shared writes carry
   their side condition by construction:
     * [R_publish] (insert_memo) is only performed by the claim holder and stores
       [p_val cur k] — the from-scratch value of [k] in the current revision — with
       [verified_at = cur];
     * [R_hot_mark] / [R_mark] (mark_as_verified) are only enabled when the memo's value equals
       [p_val cur k].
   That a single thread running the real red/green algorithm satisfies these guards is C01
   (Core/InvTop.v, from_scratch_low).  That it still does when other threads act between its
   steps is the stage-2 rely/guarantee goal of DESIGN §7 C16 and is NOT established here.

   NOT MODELLED: panics, cancellation, eviction, cycles with recovery (a [Cycle] answer of
   try_claim parks the thread in the absorbing [th_cycle] state; CFetch/Proofs show it is
   unreachable for rank-respecting programs), atomics orderings, condvars. *)
From Salsa Require Import Base.
From Salsa.Proto Require Import Model.

(* a stored result: memo.header.verified_at, memo.value, and the recorded input edges *)
Record memo := mkMemo { m_ver : rev; m_val : val; m_deps : list key }.

(* the program in one revision: the tracked calls an execution of [k] makes (in order), and the
   value a from-scratch evaluation gives (C01's [E r q]) *)
Record prog := mkProg {
  p_deps : rev -> key -> list key;
  p_val : rev -> key -> val
}.

Inductive phase :=
| PStart
| PCold
| PWait
| PClaimed
| PVerify (rest : list key)
| PExec (rest : list key)
| PRelease (v : val)
| PUnblock (v : val).

Record frame := mkFrame { f_key : key; f_phase : phase }.

(* one database handle / thread: its stack of active requests (innermost first), the top-level
   requests still to make, and whether it was answered [Cycle] *)
Record tstate := mkT { th_stack : list frame; th_todo : list key; th_cycle : bool }.

Inductive event :=
| EExec (t : thread) (k : key) (r : rev)             (* WillExecute *)
| ERet (t : thread) (k : key) (r : rev) (v : val).   (* a request for [k] returned [v] *)

Record cstate := mkC {
  c_cur : rev;                          (* Runtime::current_revision *)
  c_memo : key -> option memo;          (* the memo tables *)
  c_proto : Model.state;                (* all SyncTables + the DependencyGraph *)
  c_thr : thread -> tstate;
  c_tids : list thread;                 (* the handles that exist *)
  c_log : list event                    (* ghost: newest first *)
}.

Definition t_idle : tstate := mkT [] [] false.

Definition cinit : cstate :=
  mkC REV_START (fun _ => None) Model.init (fun _ => t_idle) [] [].

(* ---- the effect of one thread step ---- *)
Record upd := mkU {
  u_proto : Model.state;
  u_memo : key -> option memo;
  u_stack : list frame;
  u_todo : list key;
  u_cycle : bool;
  u_ev : list event
}.

Definition apply_upd (s : cstate) (t : thread) (u : upd) : cstate :=
  mkC (c_cur s) (u_memo u) (u_proto u)
      (updN (c_thr s) t (mkT (u_stack u) (u_todo u) (u_cycle u)))
      (c_tids s) (u_ev u ++ c_log s).

Definition verified_at (s : cstate) (k : key) : option memo :=
  match c_memo s k with
  | Some m => if m_ver m =? c_cur s then Some m else None
  | None => None
  end.

(* mark_as_verified: only the stamp changes *)
Definition mark (s : cstate) (k : key) (m : memo) : key -> option memo :=
  updN (c_memo s) k (Some (mkMemo (c_cur s) (m_val m) (m_deps m))).

(* insert_memo of a fresh result *)
Definition publish (P : prog) (s : cstate) (k : key) : key -> option memo :=
  updN (c_memo s) k (Some (mkMemo (c_cur s) (p_val P (c_cur s) k) (p_deps P (c_cur s) k))).

Definition valid_now (P : prog) (s : cstate) (k : key) (m : memo) : bool :=
  m_val m =? p_val P (c_cur s) k.

Section Step.
Variable fuel : nat.
Variable P : prog.

(* [t]'s top frame is [(k, ph)], the frames below are [below], [ts] is the thread's state *)
Definition step_frame (s : cstate) (t : thread) (ts : tstate) (k : key) (ph : phase)
  (below : list frame) (c : bool) : option upd :=
  let pr := c_proto s in
  let cur := c_cur s in
  let keep stack := mkU pr (c_memo s) stack (th_todo ts) false [] in
  let top ph' := mkFrame k ph' :: below in
  let ret v := mkU pr (c_memo s) below (th_todo ts) false [ERet t k cur v] in
  let exec := mkU pr (c_memo s) (top (PExec (p_deps P cur k))) (th_todo ts) false [EExec t k cur] in
  match ph with
  | PStart =>
    match c_memo s k with
    | Some m =>
      if m_ver m =? cur then Some (ret (m_val m))                       (* R_hot_hit *)
      else if c && valid_now P s k m then                                (* R_hot_mark *)
        Some (mkU pr (mark s k m) below (th_todo ts) false [ERet t k cur (m_val m)])
      else Some (keep (top PCold))                                       (* R_go_cold *)
    | None => Some (keep (top PCold))
    end
  | PCold =>
    match Model.step fuel pr (OClaim t k true) with
    | ROk (pr1, XClaim (CClaimed _)) =>                                  (* R_claimed *)
      Some (mkU pr1 (c_memo s) (top PClaimed) (th_todo ts) false [])
    | ROk (pr1, XClaim (CRunning other)) =>
      match Model.step fuel pr1 (OBlockOn t k other) with
      | ROk (pr2, XBlock BBlocked) =>                                    (* R_blocked *)
        Some (mkU pr2 (c_memo s) (top PWait) (th_todo ts) false [])
      | ROk (pr2, XBlock BCycle) =>                                      (* R_cycle2 *)
        Some (mkU pr2 (c_memo s) (top PCold) (th_todo ts) true [])
      | _ => None
      end
    | ROk (pr1, XClaim (CCycle _)) =>                                    (* R_cycle1 *)
      Some (mkU pr1 (c_memo s) (top PCold) (th_todo ts) true [])
    | _ => None
    end
  | PWait =>
    match Model.step fuel pr (OReceive t) with
    | ROk (pr1, XReceive (Some _)) =>                                    (* R_woken *)
      Some (mkU pr1 (c_memo s) (top PStart) (th_todo ts) false [])
    | _ => None                                                          (* still waiting *)
    end
  | PClaimed =>
    match c_memo s k with
    | Some m =>
      if m_ver m =? cur then Some (keep (top (PRelease (m_val m))))      (* R_recheck_hit *)
      else if c then Some (keep (top (PVerify (m_deps m))))              (* R_to_verify *)
      else Some exec                                                     (* R_exec_start *)
    | None => Some exec
    end
  | PVerify (d :: rest) =>
    if c then Some (keep (mkFrame d PStart :: top (PVerify rest)))       (* R_call *)
    else Some exec
  | PVerify [] =>
    match c_memo s k with
    | Some m =>
      if c && valid_now P s k m then                                     (* R_mark *)
        Some (mkU pr (mark s k m) (top (PRelease (m_val m))) (th_todo ts) false [])
      else Some exec
    | None => Some exec
    end
  | PExec (d :: rest) =>
    Some (keep (mkFrame d PStart :: top (PExec rest)))                   (* R_call *)
  | PExec [] =>                                                          (* R_publish *)
    Some (mkU pr (publish P s k) (top (PRelease (p_val P cur k))) (th_todo ts) false [])
  | PRelease v =>
    match Model.step fuel pr (ORemove t k) with
    | ROk (pr1, XRemoved st) =>
      match release_script t k st Completed with
      | [] => Some (mkU pr1 (c_memo s) below (th_todo ts) false [ERet t k cur v])   (* R_release_quiet *)
      | [OUnblock _ _ _] =>                                              (* R_release_wake *)
        Some (mkU pr1 (c_memo s) (top (PUnblock v)) (th_todo ts) false [])
      | _ => None
      end
    | _ => None
    end
  | PUnblock v =>
    match Model.step fuel pr (OUnblock t k Completed) with
    | ROk (pr1, _) =>                                                    (* R_unblock *)
      Some (mkU pr1 (c_memo s) below (th_todo ts) false [ERet t k cur v])
    | _ => None
    end
  end.

Definition step_thread (s : cstate) (t : thread) (c : bool) : option upd :=
  let ts := c_thr s t in
  if th_cycle ts then None else
  match th_stack ts with
  | [] =>
    match th_todo ts with
    | [] => None
    | k :: td => Some (mkU (c_proto s) (c_memo s) [mkFrame k PStart] td false [])   (* R_begin *)
    end
  | f :: below => step_frame s t ts (f_key f) (f_phase f) below c
  end.

Definition tstep (s : cstate) (t : thread) (c : bool) : option cstate :=
  if mem t (c_tids s) then option_map (apply_upd s t) (step_thread s t c) else None.

(* ---- global steps ---- *)
Definition idleb (ts : tstate) : bool :=
  match th_stack ts, th_todo ts with [], [] => negb (th_cycle ts) | _, _ => false end.

Inductive gop :=
| GStep (t : thread) (c : bool)       (* one atomic step of handle [t]; [c] resolves its choice *)
| GBump                               (* a write by the only remaining handle: new revision *)
| GSpawn (t : thread) (ks : list key).  (* handle [t] is given the requests [ks] *)

Definition gstep (s : cstate) (o : gop) : option cstate :=
  match o with
  | GStep t c => tstep s t c
  | GBump =>
    if forallb (fun t => idleb (c_thr s t)) (c_tids s)
    then Some (mkC (c_cur s + 1) (c_memo s) (c_proto s) (c_thr s) (c_tids s) (c_log s))
    else None
  | GSpawn t ks =>
    if idleb (c_thr s t)
    then Some (mkC (c_cur s) (c_memo s) (c_proto s) (updN (c_thr s) t (mkT [] ks false))
                   (if mem t (c_tids s) then c_tids s else t :: c_tids s) (c_log s))
    else None
  end.

Fixpoint grun (l : list gop) (s : cstate) : option cstate :=
  match l with
  | [] => Some s
  | o :: l' => match gstep s o with Some s' => grun l' s' | None => None end
  end.

End Step.

(* ---- observations ---- *)
Fixpoint count_exec (k : key) (r : rev) (l : list event) : nat :=
  match l with
  | [] => O
  | EExec _ k' r' :: l' => (if (k =? k') && (r =? r') then 1 else 0)%nat + count_exec k r l'
  | ERet _ _ _ _ :: l' => count_exec k r l'
  end.

Definition doneb (ts : tstate) : bool :=
  match th_stack ts, th_todo ts with [], [] => true | _, _ => false end.

(* what a waiting thread does with the wait result it receives: Running::block_on,
   runtime.rs:183-193.  Used by Props/C14x. *)
Definition on_wait_result (r : wait_result) : res bool :=
  match r with
  | Completed => Ok true
  | Cancelled => Ok false
  | Panicked => Panic PPropagated       (* Cancelled::PropagatedPanic.throw() *)
  end.

(* CFetch/ProofsTerm.v — termination of the concurrent fetch loop for rank-respecting programs.

   A measure [Phi] on states — computed from the program, the memo table, the stacks and the
   outstanding requests — strictly decreases with EVERY thread step of EVERY handle (no fairness
   needed: a blocked handle simply has no step).  Hence within one revision every schedule makes
   at most [Phi s] steps, and together with deadlock freedom every maximal execution ends with
   all handles done.

   The measure.  [Wf n mm cur k] bounds the cost of a request for [k]: 1 if [k]'s memo is
   verified in the current revision (a hot hit), else 8 + the cost of walking the edges recorded
   in its (stale) memo + the cost of walking the calls of an execution, each edge costing 1 + the
   cost of the callee (recursion on the rank).  A frame weighs what is left of that budget in its
   phase; a handle weighs its frames plus 1 + W per outstanding request.  Why a waiter does not
   loop: whoever is woken finds the memo verified (the releaser published or verified it before
   releasing — invariant [WokenInv]), so each frame blocks at most once. *)
From Coq Require Import Sorted Wf_nat.
From Salsa Require Import Base.
From Salsa.Proto Require Import Model ProofsGraph ProofsList ProofsInv ProofsWake ProofsStep.
From Salsa.CFetch Require Import Model ProofsProto ProofsRel ProofsSafe ProofsLive.

Definition verb (mm : key -> option memo) (cur : rev) (k : key) : bool :=
  match mm k with Some m => m_ver m =? cur | None => false end.

Definition vdeps (mm : key -> option memo) (k : key) : list key :=
  match mm k with Some m => m_deps m | None => [] end.

Lemma verb_spec s k : verb (c_memo s) (c_cur s) k = true <-> verified s k.
Proof.
  unfold verb, verified. destruct (c_memo s k) as [m|]; split.
  - intros H. apply N.eqb_eq in H. eauto.
  - intros (m' & [= <-] & H). now apply N.eqb_eq.
  - discriminate.
  - intros (m' & H & _). discriminate.
Qed.

Section Term.
Variable fuel : nat.
Variable P : prog.
Variable rank : key -> nat.

(* cost of a request *)
Fixpoint Wf (n : nat) (mm : key -> option memo) (cur : rev) (k : key) : nat :=
  if verb mm cur k then 1 else
  match n with
  | O => 8
  | S n' => 8 + list_sum (map (fun d => S (Wf n' mm cur d)) (vdeps mm k))
              + list_sum (map (fun d => S (Wf n' mm cur d)) (p_deps P cur k))
  end.

Definition Sw (n : nat) mm cur (l : list key) : nat :=
  list_sum (map (fun d => S (Wf n mm cur d)) l).

Definition Wk mm cur (k : key) : nat := Wf (rank k) mm cur k.

(* what is left of the budget of a frame *)
Definition fw mm cur (f : frame) : nat :=
  let k := f_key f in
  let n := pred (rank k) in
  match f_phase f with
  | PStart => Wk mm cur k
  | PCold => if verb mm cur k then 4 else Wk mm cur k - 1
  | PWait => 2
  | PClaimed => if verb mm cur k then 3 else Wk mm cur k - 2
  | PVerify l => Sw n mm cur l + Sw n mm cur (p_deps P cur k) + 5
  | PExec l => Sw n mm cur l + 3
  | PRelease _ => 2
  | PUnblock _ => 1
  end.

Definition stw mm cur (l : list frame) : nat := list_sum (map (fw mm cur) l).
Definition tdw mm cur (l : list key) : nat := list_sum (map (fun k => S (Wk mm cur k)) l).

Definition tw (s : cstate) (t : thread) : nat :=
  stw (c_memo s) (c_cur s) (stack_of s t) + tdw (c_memo s) (c_cur s) (todo_of s t).

(* THE BOUND: the number of thread steps any schedule can still make in this revision *)
Definition Phi (s : cstate) : nat := list_sum (map (tw s) (c_tids s)).

(* ---- elementary facts ---- *)

Lemma Wf_pos n mm cur k : (1 <= Wf n mm cur k)%nat.
Proof. destruct n; cbn [Wf]; destruct (verb mm cur k); lia. Qed.

Lemma Wf_unver n mm cur k : verb mm cur k = false -> (8 <= Wf n mm cur k)%nat.
Proof. intros H. destruct n; cbn [Wf]; rewrite H; lia. Qed.

Lemma Wf_ver n mm cur k : verb mm cur k = true -> Wf n mm cur k = 1%nat.
Proof. intros H. destruct n; cbn [Wf]; now rewrite H. Qed.

Lemma list_sum_le {A} (f g : A -> nat) l :
  (forall x, In x l -> (f x <= g x)%nat) -> (list_sum (map f l) <= list_sum (map g l))%nat.
Proof.
  unfold list_sum. induction l as [|a l IH]; intros H; cbn [map fold_right]; [lia|].
  pose proof (H a (or_introl eq_refl)).
  assert (fold_right Nat.add 0 (map f l) <= fold_right Nat.add 0 (map g l))%nat.
  { apply IH. intros x Hx. apply H. now right. }
  lia.
Qed.

(* more fuel never lowers the cost *)
Lemma Wf_fuel_mono mm cur : forall n k, (Wf n mm cur k <= Wf (S n) mm cur k)%nat.
Proof.
  induction n as [|n IH]; intros k.
  - cbn [Wf]. destruct (verb mm cur k); lia.
  - change (Wf (S n) mm cur k) with
      (if verb mm cur k then 1%nat else
       (8 + list_sum (map (fun d => S (Wf n mm cur d)) (vdeps mm k))
          + list_sum (map (fun d => S (Wf n mm cur d)) (p_deps P cur k)))%nat).
    change (Wf (S (S n)) mm cur k) with
      (if verb mm cur k then 1%nat else
       (8 + list_sum (map (fun d => S (Wf (S n) mm cur d)) (vdeps mm k))
          + list_sum (map (fun d => S (Wf (S n) mm cur d)) (p_deps P cur k)))%nat).
    destruct (verb mm cur k); [lia|].
    assert (A : forall l, (list_sum (map (fun d => S (Wf n mm cur d)) l) <=
                           list_sum (map (fun d => S (Wf (S n) mm cur d)) l))%nat).
    { intros l. apply list_sum_le. intros x _. specialize (IH x). lia. }
    pose proof (A (vdeps mm k)). pose proof (A (p_deps P cur k)). lia.
Qed.

Lemma Wf_fuel_le mm cur k : forall n m, (n <= m)%nat -> (Wf n mm cur k <= Wf m mm cur k)%nat.
Proof.
  intros n m H. induction H as [|m H IH]; [lia|]. pose proof (Wf_fuel_mono mm cur m k). lia.
Qed.

(* ---- the memo table only gets better within a revision ---- *)
Definition memo_le (mm mm' : key -> option memo) (cur : rev) : Prop :=
  forall k, (verb mm cur k = true -> verb mm' cur k = true) /\
            (verb mm' cur k = false -> mm' k = mm k).

Lemma memo_le_refl mm cur : memo_le mm mm cur.
Proof. intros k. auto. Qed.

Lemma Wf_memo_mono mm mm' cur :
  memo_le mm mm' cur -> forall n k, (Wf n mm' cur k <= Wf n mm cur k)%nat.
Proof.
  intros L. induction n as [|n IH]; intros k; destruct (L k) as [A B].
  - cbn [Wf]. destruct (verb mm' cur k) eqn:E'; [destruct (verb mm cur k); lia|].
    destruct (verb mm cur k) eqn:E; [pose proof (A eq_refl); congruence | lia].
  - cbn [Wf]. destruct (verb mm' cur k) eqn:E'; [destruct (verb mm cur k); lia|].
    destruct (verb mm cur k) eqn:E; [pose proof (A eq_refl); congruence|].
    unfold vdeps. rewrite (B eq_refl).
    assert (S1 : forall l, (list_sum (map (fun d => S (Wf n mm' cur d)) l) <=
                            list_sum (map (fun d => S (Wf n mm cur d)) l))%nat).
    { intros l. apply list_sum_le. intros x _. specialize (IH x). lia. }
    pose proof (S1 (match mm k with Some m => m_deps m | None => [] end)).
    pose proof (S1 (p_deps P cur k)). lia.
Qed.

Lemma Sw_memo_mono mm mm' cur n l : memo_le mm mm' cur -> (Sw n mm' cur l <= Sw n mm cur l)%nat.
Proof.
  intros L. apply list_sum_le. intros x _. pose proof (Wf_memo_mono _ _ _ L n x). lia.
Qed.

Lemma fw_memo_mono mm mm' cur f : memo_le mm mm' cur -> (fw mm' cur f <= fw mm cur f)%nat.
Proof.
  intros L. unfold fw, Wk. destruct (L (f_key f)) as [A B].
  pose proof (Wf_memo_mono _ _ _ L (rank (f_key f)) (f_key f)) as HW.
  destruct (f_phase f); try lia.
  - destruct (verb mm' cur (f_key f)) eqn:E', (verb mm cur (f_key f)) eqn:E; try lia;
      try (pose proof (Wf_unver (rank (f_key f)) _ _ _ E); lia);
      try (pose proof (A eq_refl); congruence).
  - destruct (verb mm' cur (f_key f)) eqn:E', (verb mm cur (f_key f)) eqn:E; try lia;
      try (pose proof (Wf_unver (rank (f_key f)) _ _ _ E); lia);
      try (pose proof (A eq_refl); congruence).
  - pose proof (Sw_memo_mono _ _ cur (pred (rank (f_key f))) rest L).
    pose proof (Sw_memo_mono _ _ cur (pred (rank (f_key f))) (p_deps P cur (f_key f)) L). lia.
  - pose proof (Sw_memo_mono _ _ cur (pred (rank (f_key f))) rest L). lia.
Qed.

Lemma stw_memo_mono mm mm' cur l : memo_le mm mm' cur -> (stw mm' cur l <= stw mm cur l)%nat.
Proof. intros L. apply list_sum_le. intros f _. now apply fw_memo_mono. Qed.

Lemma tdw_memo_mono mm mm' cur l : memo_le mm mm' cur -> (tdw mm' cur l <= tdw mm cur l)%nat.
Proof.
  intros L. apply list_sum_le. intros k _. pose proof (Wf_memo_mono _ _ _ L (rank k) k).
  unfold Wk. lia.
Qed.

Lemma memo_step_le s mm' :
  (forall k m, c_memo s k = Some m -> m_ver m <= c_cur s) ->
  memo_step P s mm' -> memo_le (c_memo s) mm' (c_cur s).
Proof.
  intros Hle [->|[(k0 & m0 & Hm0 & _ & ->)|(k0 & ->)]]; [apply memo_le_refl| |];
    intros k; unfold verb, mark, publish, updN; destruct (N.eqb_spec k0 k) as [<-|Hne]; cbn;
    rewrite ?N.eqb_refl; auto; split; auto; discriminate.
Qed.

End Term.

(* ------------------------------------------------------------------------------------------ *)
(* whoever is woken finds the memo verified                                                    *)
(* ------------------------------------------------------------------------------------------ *)

Definition WokenInv (s : cstate) : Prop :=
  forall t r k below, wres (dg (c_proto s)) t = Some r ->
    stack_of s t = (k @: PWait) :: below -> verified s k.

Section Steps.
Variable fuel : nat.
Variable P : prog.
Variable rank : key -> nat.

Lemma woken_generic s t u :
  SafeInv P s -> LiveInv fuel rank s -> WokenInv s -> memo_step P s (u_memo u) ->
  (forall t' r, t' <> t -> wres (dg (u_proto u)) t' = Some r ->
     wres (dg (c_proto s)) t' = Some r \/
     exists k below, stack_of s t' = (k @: PWait) :: below /\ verified s k) ->
  (forall k b r, u_stack u = (k @: PWait) :: b -> wres (dg (u_proto u)) t = Some r -> False) ->
  WokenInv (apply_upd s t u).
Proof.
  intros I L W MS Ho Ht t' r k below Hw Hst. cbn [c_proto apply_upd] in Hw.
  destruct (N.eq_dec t' t) as [->|Hne].
  - rewrite stack_self in Hst. exfalso. eapply Ht; eauto.
  - rewrite stack_other in Hst by auto. apply (verified_apply P); auto.
    destruct (Ho _ _ Hne Hw) as [Hold | (k0 & b0 & Hs0 & Hv0)].
    + eapply W; eauto.
    + rewrite Hst in Hs0. injection Hs0 as <- _. exact Hv0.
Qed.

Lemma pres_woken s t u :
  SafeInv P s -> LiveInv fuel rank s -> WokenInv s -> path fuel P s t u ->
  WokenInv (apply_upd s t u).
Proof.
  intros I L W Hp. pose proof (path_memo_step _ _ _ _ _ Hp) as MS.
  assert (Run : forall k ph below, stack_of s t = (k @: ph) :: below -> ph <> PWait ->
                edges (dg (c_proto s)) t = None /\ wres (dg (c_proto s)) t = None).
  { intros; eapply running_no_wres; eauto. }
  dpath Hp; apply woken_generic; auto; cbn [u_proto u_stack];
    try (intros t' r' _ Hw'; left; first [exact Hw' | rewrite Hdg in Hw'; exact Hw']; fail);
    try (intros k0 b0 r0 E0; discriminate E0);
    try (intros k0 b0 r0 E0 _; eapply below_not_wait; eauto; fail).
  - (* R_blocked: self *)
    intros k0 b0 r0 _ Hw'. rewrite Hdg in Hw'. cbn in Hw'.
    destruct (Run _ _ _ Hst ltac:(discriminate)) as [_ Hn]. congruence.
  - (* R_woken: others *)
    intros t' r' Hne' Hw'. left. rewrite Hdg in Hw'. cbn in Hw'. now rewrite updN_other in Hw' by auto.
  - (* R_unblock: others *)
    intros t' r' Hne' Hw'.
    destruct (in_dec N.eq_dec t' (qdeps (dg (c_proto s)) k)) as [Hq|Hq].
    + right. pose proof (reachable_Inv _ _ (LI_reach _ _ _ L)) as [[G D ND Wr] _].
      apply D in Hq as [u0 Hu0]. destruct (LI_edge _ _ _ L _ _ _ Hu0) as [b Hb].
      exists k, b. split; auto.
      apply (SI_rel _ _ I t (k @: PUnblock v) v); [rewrite Hst; now left | now right].
    + left. destruct (HB _ Hq) as [_ E]. now rewrite E in Hw'.
Qed.

(* ------------------------------------------------------------------------------------------ *)
(* every thread step lowers the measure                                                        *)
(* ------------------------------------------------------------------------------------------ *)

Lemma stw_cons mm cur f l : stw P rank mm cur (f :: l) = (fw P rank mm cur f + stw P rank mm cur l)%nat.
Proof. reflexivity. Qed.

Lemma tdw_cons mm cur k l :
  tdw P rank mm cur (k :: l) = (S (Wk P rank mm cur k) + tdw P rank mm cur l)%nat.
Proof. reflexivity. Qed.

Lemma Sw_cons n mm cur d l : Sw P n mm cur (d :: l) = (S (Wf P n mm cur d) + Sw P n mm cur l)%nat.
Proof. reflexivity. Qed.

Lemma no_lower_rank0 (l : list key) k :
  rank k = O -> (forall d, In d l -> (rank d < rank k)%nat) -> l = [].
Proof.
  intros H0 H. destruct l as [|d l]; auto. specialize (H d (or_introl eq_refl)). lia.
Qed.

Lemma Wk_unfold mm cur k n :
  rank k = S n -> verb mm cur k = false ->
  Wk P rank mm cur k = (8 + Sw P n mm cur (vdeps mm k) + Sw P n mm cur (p_deps P cur k))%nat.
Proof. intros Hr Hv. unfold Wk. rewrite Hr. cbn [Wf]. now rewrite Hv. Qed.

Lemma thread_decreases s t u :
  ranked P rank -> SafeInv P s -> LiveInv fuel rank s -> WokenInv s -> path fuel P s t u ->
  (stw P rank (u_memo u) (c_cur s) (u_stack u) + tdw P rank (u_memo u) (c_cur s) (u_todo u) <
   stw P rank (c_memo s) (c_cur s) (stack_of s t) + tdw P rank (c_memo s) (c_cur s) (todo_of s t))%nat.
Proof.
  intros RK I L W Hp.
  pose proof (path_memo_step _ _ _ _ _ Hp) as MS.
  assert (ML : memo_le (c_memo s) (u_memo u) (c_cur s)).
  { apply (memo_step_le P); auto. intros k m Hm. apply (SI_memo _ _ I _ _ Hm). }
  assert (Hb : forall l, (stw P rank (u_memo u) (c_cur s) l <= stw P rank (c_memo s) (c_cur s) l)%nat)
    by (intros l; now apply stw_memo_mono).
  assert (Hdw : forall l, (tdw P rank (u_memo u) (c_cur s) l <= tdw P rank (c_memo s) (c_cur s) l)%nat)
    by (intros l; now apply tdw_memo_mono).
  pose proof (LI_rest _ _ _ L t) as RE. pose proof (LI_mdeps _ _ _ L) as MD.
  assert (Hver : forall k m, (c_memo s) k = Some m -> m_ver m = (c_cur s) -> verb (c_memo s) (c_cur s) k = true).
  { intros k m Hm Hv. unfold verb. rewrite Hm. now apply N.eqb_eq. }
  assert (Hunv : forall k, (forall m, (c_memo s) k = Some m -> m_ver m <> (c_cur s)) -> verb (c_memo s) (c_cur s) k = false).
  { intros k H. unfold verb. destruct ((c_memo s) k) as [m|] eqn:Em; auto. apply N.eqb_neq. eauto. }
  dpath Hp; cbn [u_memo u_stack u_todo] in *; rewrite ?Hst in *.
  7: { exfalso. eapply no_cycle_answer; eauto. }
  all: rewrite ?stw_cons, ?tdw_cons.
  all: try (specialize (Hb below)); try (pose proof (Hdw (todo_of s t)) as Hdt).
  - (* R_begin *)
    rewrite Htd. specialize (Hdw td). cbn [stw map list_sum fold_right]. rewrite tdw_cons.
    unfold fw; cbn [f_key f_phase]. lia.
  - (* R_hot_hit *)
    unfold fw at 1; cbn [f_key f_phase]. pose proof (Wf_pos P (rank k) (c_memo s) (c_cur s) k). unfold Wk. lia.
  - (* R_hot_mark *)
    unfold fw; cbn [f_key f_phase]. pose proof (Wf_pos P (rank k) (c_memo s) (c_cur s) k). unfold Wk. lia.
  - (* R_go_cold *)
    unfold fw; cbn [f_key f_phase]. rewrite (Hunv k Hnv).
    pose proof (Wf_unver P (rank k) (c_memo s) (c_cur s) k (Hunv k Hnv)). unfold Wk. lia.
  - (* R_claimed *)
    unfold fw; cbn [f_key f_phase]. destruct (verb (c_memo s) (c_cur s) k) eqn:E; [lia|].
    pose proof (Wf_unver P (rank k) (c_memo s) (c_cur s) k E). unfold Wk. lia.
  - (* R_blocked *)
    unfold fw; cbn [f_key f_phase]. destruct (verb (c_memo s) (c_cur s) k) eqn:E; [lia|].
    pose proof (Wf_unver P (rank k) (c_memo s) (c_cur s) k E). unfold Wk. lia.
  - (* R_woken *)
    unfold fw; cbn [f_key f_phase].
    assert (Hv : verb (c_memo s) (c_cur s) k = true) by (apply verb_spec; eapply W; eauto).
    unfold Wk. rewrite (Wf_ver P _ _ _ _ Hv). lia.
  - (* R_recheck_hit *)
    unfold fw; cbn [f_key f_phase]. rewrite (Hver _ _ Hm Hv). lia.
  - (* R_to_verify *)
    unfold fw; cbn [f_key f_phase].
    assert (E : verb (c_memo s) (c_cur s) k = false) by (apply Hunv; intros m' Hm'; congruence). rewrite E.
    destruct (rank k) as [|n] eqn:Er.
    + assert (m_deps m = []) by (eapply no_lower_rank0; eauto; intros d Hd; rewrite Er; rewrite <- Er; eapply MD; eauto).
      assert (p_deps P (c_cur s) k = []) by (eapply no_lower_rank0; eauto; intros d Hd; apply (RK (c_cur s) k d Hd)).
      rewrite H, H0. unfold Wk. rewrite Er. cbn [Wf Sw map list_sum fold_right pred]. rewrite E. lia.
    + rewrite (Wk_unfold (c_memo s) (c_cur s) k n Er E). unfold vdeps. rewrite Hm. cbn [pred]. lia.
  - (* R_exec_start *)
    unfold fw; cbn [f_key f_phase]. destruct Hph as [[-> Hnv] | [l ->]].
    + rewrite (Hunv k Hnv). destruct (rank k) as [|n] eqn:Er.
      * assert (p_deps P (c_cur s) k = []) by (eapply no_lower_rank0; eauto; intros d Hd; apply (RK (c_cur s) k d Hd)).
        rewrite H. unfold Wk. rewrite Er. cbn [Wf Sw map list_sum fold_right pred]. rewrite (Hunv k Hnv). lia.
      * rewrite (Wk_unfold (c_memo s) (c_cur s) k n Er (Hunv k Hnv)). cbn [pred]. lia.
    + lia.
  - (* R_call_v *)
    unfold fw; cbn [f_key f_phase]. rewrite Sw_cons.
    assert (Hlt : (rank d < rank k)%nat).
    { apply (RE (k @: PVerify (d :: rest)) d); [now left | now left]. }
    pose proof (Wf_fuel_le P (c_memo s) (c_cur s) d (rank d) (pred (rank k)) ltac:(lia)). unfold Wk. lia.
  - (* R_call_x *)
    unfold fw; cbn [f_key f_phase]. rewrite Sw_cons.
    assert (Hlt : (rank d < rank k)%nat).
    { apply (RE (k @: PExec (d :: rest)) d); [now left | now left]. }
    pose proof (Wf_fuel_le P (c_memo s) (c_cur s) d (rank d) (pred (rank k)) ltac:(lia)). unfold Wk. lia.
  - (* R_mark *) unfold fw; cbn [f_key f_phase]. lia.
  - (* R_publish *) unfold fw; cbn [f_key f_phase]. lia.
  - (* R_release_quiet *) unfold fw at 1; cbn [f_key f_phase]. lia.
  - (* R_release_wake *) unfold fw; cbn [f_key f_phase]. lia.
  - (* R_unblock *) unfold fw at 1; cbn [f_key f_phase]. lia.
Qed.

End Steps.

(* ------------------------------------------------------------------------------------------ *)
(* the bound                                                                                   *)
(* ------------------------------------------------------------------------------------------ *)

Definition is_gstep (o : gop) : Prop := match o with GStep _ _ => True | _ => False end.

Section Bound.
Variable fuel : nat.
Variable P : prog.
Variable rank : key -> nat.

Lemma list_sum_lt {A} (f g : A -> nat) l x :
  (forall y, In y l -> (f y <= g y)%nat) -> In x l -> (f x < g x)%nat ->
  (list_sum (map f l) < list_sum (map g l))%nat.
Proof.
  unfold list_sum. induction l as [|a l IH]; intros H Hin Hlt; [destruct Hin|].
  cbn [map fold_right]. pose proof (H a (or_introl eq_refl)).
  assert (Hle : (fold_right Nat.add 0 (map f l) <= fold_right Nat.add 0 (map g l))%nat).
  { apply (list_sum_le f g l). intros y Hy. apply H. now right. }
  destruct Hin as [->|Hin]; [lia|].
  assert (fold_right Nat.add 0 (map f l) < fold_right Nat.add 0 (map g l))%nat.
  { apply IH; auto. intros y Hy. apply H. now right. }
  lia.
Qed.

Lemma creach_woken s : ranked P rank -> creach fuel P s -> WokenInv s.
Proof.
  intros RK. induction 1 as [|s o s' HR IH Hs].
  - intros t r k below H. discriminate.
  - destruct (creach_inv _ _ _ _ RK HR) as [I L].
    destruct o as [t c | | t ks]; cbn [gstep] in Hs.
    + destruct (tstep_path _ _ _ _ _ _ I Hs) as (Ht & u & Hp & ->). eapply pres_woken; eauto.
    + destruct (forallb _ _) eqn:Ef; [|discriminate]. injection Hs as <-.
      intros t r k below _ Hst. unfold stack_of in Hst. cbn in Hst.
      pose proof (all_idle _ _ I Ef t) as E. unfold stack_of in E. congruence.
    + destruct (idleb (c_thr s t)) eqn:Ei; [|discriminate]. injection Hs as <-.
      apply idleb_spec in Ei as (Es & Et & Ec).
      intros t' r k below Hw Hst. cbn in Hw. unfold stack_of in Hst. cbn in Hst.
      unfold updN in Hst. destruct (N.eqb_spec t t') as [<-|Hne]; [discriminate|].
      destruct (IH t' r k below Hw Hst) as (m & Hm & Hv). exists m. auto.
Qed.

(* C16, termination: every thread step strictly lowers the measure *)
Theorem step_decreases s t c s' :
  ranked P rank -> creach fuel P s -> tstep fuel P s t c = Some s' ->
  (Phi P rank s' < Phi P rank s)%nat.
Proof.
  intros RK HR Hs. destruct (creach_inv _ _ _ _ RK HR) as [I L].
  pose proof (creach_woken _ RK HR) as W.
  destruct (tstep_path _ _ _ _ _ _ I Hs) as (Ht & u & Hp & ->).
  pose proof (path_memo_step _ _ _ _ _ Hp) as MS.
  assert (ML : memo_le (c_memo s) (u_memo u) (c_cur s)).
  { apply (memo_step_le P); auto. intros k m Hm. apply (SI_memo _ _ I _ _ Hm). }
  assert (Tself : todo_of (apply_upd s t u) t = u_todo u).
  { unfold todo_of, apply_upd. cbn. now rewrite updN_same. }
  assert (Tother : forall y, y <> t -> todo_of (apply_upd s t u) y = todo_of s y).
  { intros y Hy. unfold todo_of, apply_upd. cbn. now rewrite updN_other by auto. }
  pose proof (thread_decreases fuel P rank s t u RK I L W Hp) as H.
  unfold Phi. change (c_tids (apply_upd s t u)) with (c_tids s).
  apply list_sum_lt with (x := t); auto.
  - intros y _. unfold tw. change (c_memo (apply_upd s t u)) with (u_memo u).
    change (c_cur (apply_upd s t u)) with (c_cur s).
    destruct (N.eq_dec y t) as [->|Hne].
    + rewrite stack_self, Tself. lia.
    + rewrite stack_other, Tother by auto.
      pose proof (stw_memo_mono P rank _ _ (c_cur s) (stack_of s y) ML).
      pose proof (tdw_memo_mono P rank _ _ (c_cur s) (todo_of s y) ML). lia.
  - unfold tw. change (c_memo (apply_upd s t u)) with (u_memo u).
    change (c_cur (apply_upd s t u)) with (c_cur s). rewrite stack_self, Tself. exact H.
Qed.

Lemma grun_gsteps_creach : forall l s s',
  creach fuel P s -> grun fuel P l s = Some s' -> creach fuel P s'.
Proof.
  induction l as [|o l IH]; intros s s' HR; cbn [grun]; [now intros [= <-]|].
  destruct (gstep fuel P s o) as [s1|] eqn:E; [|discriminate]. apply IH. econstructor; eauto.
Qed.

(* ... hence any schedule of thread steps from [s] has at most [Phi s] steps: the bound is the
   measure of the start state, whatever the interleaving *)
Theorem run_bounded : forall l s s',
  ranked P rank -> creach fuel P s -> Forall is_gstep l -> grun fuel P l s = Some s' ->
  (length l + Phi P rank s' <= Phi P rank s)%nat.
Proof.
  induction l as [|o l IH]; intros s s' RK HR HG; cbn [grun length].
  - intros [= <-]. lia.
  - destruct (gstep fuel P s o) as [s1|] eqn:E; [|discriminate]. intros Hrun.
    inversion HG as [|? ? Ho HG']; subst. destruct o as [t c| |t ks]; try destruct Ho.
    cbn [gstep] in E. pose proof (step_decreases _ _ _ _ RK HR E).
    assert (HR1 : creach fuel P s1) by (eapply cr_step with (o := GStep t c); eauto).
    pose proof (IH _ _ RK HR1 HG' Hrun). lia.
Qed.

Theorem terminates :
  forall s, ranked P rank -> creach fuel P s ->
  exists n, forall l s', grun fuel P l s = Some s' ->
    (forall o, In o l -> exists t c, o = GStep t c) -> (length l <= n)%nat.
Proof.
  intros s RK HR. exists (Phi P rank s). intros l s' Hrun Hall.
  assert (HG : Forall is_gstep l).
  { apply Forall_forall. intros o Ho. destruct (Hall o Ho) as (t & c & ->). exact Logic.I. }
  pose proof (run_bounded l s s' RK HR HG Hrun). lia.
Qed.

(* the same with the (unneeded) fuel hypothesis of the statement kept visible in Props/C16.v *)
Lemma terminates_stmt :
  forall s, ranked P rank -> creach fuel P s -> (length (c_tids s) < fuel)%nat ->
  exists n, forall l s', grun fuel P l s = Some s' ->
    (forall o, In o l -> exists t c, o = GStep t c) -> (length l <= n)%nat.
Proof. intros s RK HR _. now apply terminates. Qed.

(* with deadlock freedom: all handles can be run to completion, within the bound *)
Theorem completes :
  forall s, ranked P rank -> creach fuel P s -> (length (c_tids s) < fuel)%nat ->
  exists l s', Forall is_gstep l /\ grun fuel P l s = Some s' /\ (length l <= Phi P rank s)%nat /\
               forall t, In t (c_tids s') -> doneb (c_thr s' t) = true.
Proof.
  intros s RK. remember (Phi P rank s) as n eqn:En. revert s En.
  induction n as [n IH] using lt_wf_ind. intros s En HR Hf.
  destruct (forallb (fun t => doneb (c_thr s t)) (c_tids s)) eqn:Ed.
  - exists [], s. split; [constructor|]. split; [reflexivity|]. split; [cbn; lia|].
    intros t Ht. rewrite forallb_forall in Ed. now apply Ed.
  - assert (Hex : exists t, In t (c_tids s) /\ doneb (c_thr s t) = false).
    { clear -Ed. induction (c_tids s) as [|a l IHl]; [discriminate|]. cbn in Ed.
      destruct (doneb (c_thr s a)) eqn:Ea.
      - destruct (IHl Ed) as (t & Ht & Hd). exists t. split; [now right | auto].
      - exists a. split; [now left | auto]. }
    destruct (some_thread_can_step fuel P rank s RK HR Hf Hex) as (t & c & s1 & Ht & Hs).
    pose proof (step_decreases _ _ _ _ RK HR Hs) as Hlt.
    assert (HR1 : creach fuel P s1) by (eapply cr_step with (o := GStep t c); eauto).
    assert (Htids : c_tids s1 = c_tids s).
    { destruct (tstep_path _ _ _ _ _ _ (creach_safe _ _ _ HR) Hs) as (_ & u & _ & ->). reflexivity. }
    destruct (IH (Phi P rank s1) ltac:(lia) s1 eq_refl HR1 ltac:(rewrite Htids; exact Hf))
      as (l & s' & HG & Hrun & Hlen & Hdone).
    exists (GStep t c :: l), s'. split; [constructor; [exact Logic.I | exact HG]|].
    split; [cbn [grun gstep]; rewrite Hs; exact Hrun|]. split; [cbn [length]; lia | exact Hdone].
Qed.

(* a state in which no handle can step any more has all handles done: every maximal execution
   ends with all requests answered *)
Theorem stuck_is_done :
  forall s, ranked P rank -> creach fuel P s -> (length (c_tids s) < fuel)%nat ->
  (forall t c, In t (c_tids s) -> tstep fuel P s t c = None) ->
  forall t, In t (c_tids s) -> doneb (c_thr s t) = true.
Proof.
  intros s RK HR Hf Hstuck t Ht. destruct (doneb (c_thr s t)) eqn:Ed; auto. exfalso.
  destruct (some_thread_can_step fuel P rank s RK HR Hf) as (t' & c & s' & Ht' & Hs); eauto.
  rewrite (Hstuck t' c Ht') in Hs. discriminate.
Qed.

End Bound.

(* CFetch/ProofsTop.v — corollaries in the form exported by Props/C16.v and Props/C17.v. *)
From Coq Require Import Sorted.
From Salsa Require Import Base.
From Salsa.Proto Require Import Model ProofsGraph ProofsList ProofsInv ProofsWake ProofsStep.
From Salsa.CFetch Require Import Model ProofsProto ProofsRel ProofsSafe ProofsLive.

(* C17: claims are exclusive — two frames past the claim for one key belong to one handle *)
Lemma claims_exclusive fuel P s t1 f1 t2 f2 :
  creach fuel P s -> In f1 (stack_of s t1) -> In f2 (stack_of s t2) ->
  holding (f_phase f1) = true -> holding (f_phase f2) = true -> f_key f1 = f_key f2 -> t1 = t2.
Proof. intros HR. eapply holder_unique. eapply creach_safe; eauto. Qed.

(* C17: an execution is only ever logged by the holder of the claim *)
Lemma exec_by_holder fuel P s t c s' t1 k1 r1 :
  creach fuel P s -> tstep fuel P s t c = Some s' -> c_log s' = EExec t1 k1 r1 :: c_log s ->
  t1 = t /\ r1 = c_cur s /\
  (exists st, sync (c_proto s) k1 = Some st /\ ss_id st = OThread t) /\
  (forall m, c_memo s k1 = Some m -> m_ver m = c_cur s ->
     exists l below, stack_of s t = (k1 @: PVerify l) :: below).
Proof.
  intros HR Hstep Hlog. pose proof (creach_safe _ _ _ HR) as I.
  destruct (tstep_path _ _ _ _ _ _ I Hstep) as (Ht & u & Hp & ->).
  dpath Hp; cbn in Hlog; try (apply (f_equal (@length event)) in Hlog; cbn in Hlog; lia);
    try (exfalso; inversion Hlog; fail).
  injection Hlog as <- <- <-. split; auto. split; auto.
  assert (Hh : holding ph = true) by (destruct Hph as [[-> _] | [l ->]]; reflexivity).
  assert (Htop : In (k @: ph) (stack_of s t)) by (rewrite Hst; now left).
  split; [apply (SI_hold _ _ I _ _ Htop Hh)|].
  intros m Hm Hv. destruct Hph as [[-> Hnv] | [l ->]]; [exfalso; eapply Hnv; eauto | eauto].
Qed.

(* C16: a handle only waits for a key of strictly smaller rank than every key it holds *)
Lemma waits_below fuel P rank s t u k f :
  ranked P rank -> creach fuel P s -> edges (dg (c_proto s)) t = Some (u, k) ->
  In f (stack_of s t) -> holding (f_phase f) = true -> (rank k < rank (f_key f))%nat.
Proof.
  intros RK HR He Hin Hh. destruct (creach_inv _ _ _ _ RK HR) as [I L].
  destruct (LI_edge _ _ _ L _ _ _ He) as [below Hst]. rewrite Hst in Hin.
  destruct Hin as [<-|Hin]; [discriminate|].
  exact (sorted_below_lt fuel rank s t _ _ _ L Hst Hin).
Qed.

(* C16: the wait graph of every reachable state is acyclic and grounded (C19 applied to the
   protocol component) *)
Lemma wait_graph_grounded fuel P rank s :
  ranked P rank -> creach fuel P s ->
  (forall t u k, edges (dg (c_proto s)) t = Some (u, k) ->
     ~ reaches (eproj (dg (c_proto s))) u t) /\
  (forall t, exists r, reaches (eproj (dg (c_proto s))) t r /\ edges (dg (c_proto s)) r = None).
Proof.
  intros RK HR. pose proof (proto_reachable _ _ _ _ RK HR) as PR.
  destruct (no_wait_cycle _ _ PR) as (A & B & _). auto.
Qed.

(* what the model builds in (the guards of DESIGN §7 C16): every write to the memo table
   stores a memo verified in the current revision that carries the from-scratch value, and
   [insert_memo] is only performed by the holder of the claim *)
Lemma guards_by_construction fuel P s t c s' k1 m1 :
  creach fuel P s -> tstep fuel P s t c = Some s' ->
  c_memo s' k1 = Some m1 -> c_memo s k1 <> Some m1 ->
  m_ver m1 = c_cur s /\ m_val m1 = p_val P (c_cur s) k1 /\
  ((exists m, c_memo s k1 = Some m /\ m_val m1 = m_val m /\ m_deps m1 = m_deps m) \/
   (exists st, sync (c_proto s) k1 = Some st /\ ss_id st = OThread t)).
Proof.
  intros HR Hstep Hm1 Hne1. pose proof (creach_safe _ _ _ HR) as I.
  destruct (tstep_path _ _ _ _ _ _ I Hstep) as (Ht & u & Hp & ->). cbn in Hm1.
  dpath Hp; cbn [u_memo] in Hm1; try contradiction.
  - unfold mark, updN in Hm1. destruct (N.eqb_spec k k1) as [<-|]; [|contradiction].
    injection Hm1 as <-. cbn. repeat split; auto. left. exists m. auto.
  - unfold mark, updN in Hm1. destruct (N.eqb_spec k k1) as [<-|]; [|contradiction].
    injection Hm1 as <-. cbn. repeat split; auto. left. exists m. auto.
  - unfold publish, updN in Hm1. destruct (N.eqb_spec k k1) as [<-|]; [|contradiction].
    injection Hm1 as <-. cbn. repeat split; auto. right.
    assert (Htop : In (k @: PExec []) (stack_of s t)) by (rewrite Hst; now left).
    apply (SI_hold _ _ I _ _ Htop eq_refl).
Qed.

(* CFetch/Examples.v — concrete interleavings (non-vacuity witnesses for Props/C16, C17). *)
From Salsa Require Import Base.
From Salsa.Proto Require Import Model.
From Salsa.CFetch Require Import Model ProofsProto ProofsRel ProofsSafe ProofsLive.

(* key 2 calls key 1; the value of key 1 never changes, the value of key 2 changes with the
   revision *)
Definition ex_prog : prog :=
  mkProg (fun _ k => if k =? 2 then [1] else [])
         (fun r k => if k =? 1 then 11 else k * 10 + r).

Definition ex_rank (k : key) : nat := N.to_nat k.

Lemma ex_ranked : ranked ex_prog ex_rank.
Proof.
  intros r k d. cbn. destruct (N.eqb_spec k 2) as [->|_]; [|intros []].
  intros [<-|[]]. unfold ex_rank. cbn. lia.
Qed.

Definition steps (t : thread) (n : nat) : list gop := repeat (GStep t true) n.

(* revision 1: handles 1 and 2 both request key 2.  Handle 1 claims it and starts executing;
   handle 2 finds it claimed and blocks; handle 1 executes key 1 and key 2, releases, wakes
   handle 2, which retries and reuses the memo. *)
Definition ex_round1 : list gop :=
  [GSpawn 1 [2]; GSpawn 2 [2]] ++ steps 1 5 ++ steps 2 3 ++ steps 1 8 ++ steps 2 2.

(* a write, then revision 2: handle 1 requests key 2 again — key 1 is marked verified without a
   claim (its value is unchanged), key 2 is re-executed; handle 2 reads key 1 *)
Definition ex_round2 : list gop :=
  [GBump; GSpawn 1 [2]; GSpawn 2 [1]] ++ steps 1 11 ++ steps 2 2.

Definition ex_state1 : cstate :=
  match grun 10 ex_prog ex_round1 cinit with Some s => s | None => cinit end.
Definition ex_state2 : cstate :=
  match grun 10 ex_prog (ex_round1 ++ ex_round2) cinit with Some s => s | None => cinit end.

(* the state in the middle of round 1 in which handle 2 is blocked on handle 1 *)
Definition ex_blocked : cstate :=
  match grun 10 ex_prog ([GSpawn 1 [2]; GSpawn 2 [2]] ++ steps 1 5 ++ steps 2 3) cinit with
  | Some s => s | None => cinit end.

Lemma grun_creach fuel P : forall l s s',
  creach fuel P s -> grun fuel P l s = Some s' -> creach fuel P s'.
Proof.
  induction l as [|o l IH]; intros s s' HR; cbn [grun]; [now intros [= <-]|].
  destruct (gstep fuel P s o) as [s1|] eqn:E; [|discriminate].
  apply IH. econstructor; eauto.
Qed.

Example ex_state1_reachable : creach 10 ex_prog ex_state1.
Proof.
  eapply grun_creach with (l := ex_round1) (s := cinit); [constructor|]. vm_compute. reflexivity.
Qed.

Example ex_state2_reachable : creach 10 ex_prog ex_state2.
Proof.
  eapply grun_creach with (l := ex_round1 ++ ex_round2) (s := cinit); [constructor|].
  vm_compute. reflexivity.
Qed.

Example ex_blocked_reachable : creach 10 ex_prog ex_blocked.
Proof.
  eapply grun_creach with (l := [GSpawn 1 [2]; GSpawn 2 [2]] ++ steps 1 5 ++ steps 2 3) (s := cinit);
    [constructor|]. vm_compute. reflexivity.
Qed.

(* one waits and reuses: two executions (keys 1 and 2), three returns, one wake-up *)
Example ex_round1_log :
  (c_log ex_state1, notified (dg (c_proto ex_state1))) =
  ([ERet 2 2 1 21; ERet 1 2 1 21; ERet 1 1 1 11; EExec 1 1 1; EExec 1 2 1], [(2, Completed)]).
Proof. vm_compute. reflexivity. Qed.

Example ex_round1_log_only :
  c_log ex_state1 = [ERet 2 2 1 21; ERet 1 2 1 21; ERet 1 1 1 11; EExec 1 1 1; EExec 1 2 1].
Proof. vm_compute. reflexivity. Qed.

Example ex_blocked_tids : (length (c_tids ex_blocked) < 10)%nat.
Proof. vm_compute. lia. Qed.

Example ex_blocked_shape :
  (th_stack (c_thr ex_blocked 1), th_stack (c_thr ex_blocked 2),
   edges (dg (c_proto ex_blocked)) 2) =
  ([mkFrame 1 PStart; mkFrame 2 (PExec [])], [mkFrame 2 PWait], Some (1, 2)).
Proof. vm_compute. reflexivity. Qed.

(* revision 2: key 2 executed once more (in revision 2), key 1 not at all *)
Example ex_round2_log :
  firstn 5 (c_log ex_state2) =
  [ERet 2 1 2 11; ERet 1 2 2 22; ERet 1 1 2 11; EExec 1 2 2; ERet 1 1 2 11].
Proof. vm_compute. reflexivity. Qed.

Example ex_counts :
  (count_exec 2 1 (c_log ex_state2), count_exec 2 2 (c_log ex_state2),
   count_exec 1 1 (c_log ex_state2), count_exec 1 2 (c_log ex_state2)) = (1, 1, 1, 0)%nat.
Proof. vm_compute. reflexivity. Qed.

(* in the blocked state some handle can step (handle 1), handle 2 cannot *)
Example ex_blocked_progress :
  (match tstep 10 ex_prog ex_blocked 1 true with Some _ => true | None => false end,
   match tstep 10 ex_prog ex_blocked 2 true with Some _ => true | None => false end) = (true, false).
Proof. vm_compute. reflexivity. Qed.

(* CFetch/ProofsSafe.v — the safety invariant of the concurrent fetch loop (no assumption on the
   call graph): claims are exclusive, a memo verified in the current revision carries the
   from-scratch value, WillExecute is logged at most once per (key, revision). *)
From Salsa Require Import Base.
From Salsa.Proto Require Import Model ProofsGraph ProofsList ProofsInv ProofsWake ProofsStep.
From Salsa.CFetch Require Import Model ProofsProto ProofsRel.

Definition holding (ph : phase) : bool :=
  match ph with PClaimed | PVerify _ | PExec _ | PRelease _ => true | _ => false end.

Definition hkeys (l : list frame) : list key :=
  map f_key (filter (fun f => holding (f_phase f)) l).

Definition is_exec (ph : phase) : Prop := match ph with PExec _ => True | _ => False end.

Definition verified (s : cstate) (k : key) : Prop :=
  exists m, c_memo s k = Some m /\ m_ver m = c_cur s.

Record SafeInv (P : prog) (s : cstate) : Prop := mkSafe {
  SI_only : only_threads (c_proto s);
  SI_owner : forall k st u, sync (c_proto s) k = Some st -> ss_id st = OThread u ->
    exists f, In f (stack_of s u) /\ f_key f = k /\ holding (f_phase f) = true;
  SI_hold : forall t f, In f (stack_of s t) -> holding (f_phase f) = true ->
    exists st, sync (c_proto s) (f_key f) = Some st /\ ss_id st = OThread t;
  SI_nodup : forall t, NoDup (hkeys (stack_of s t));
  SI_memo : forall k m, c_memo s k = Some m ->
    m_ver m <= c_cur s /\ (m_ver m = c_cur s -> m_val m = p_val P (c_cur s) k);
  SI_rel : forall t f v, In f (stack_of s t) ->
    f_phase f = PRelease v \/ f_phase f = PUnblock v ->
    v = p_val P (c_cur s) (f_key f) /\ verified s (f_key f);
  SI_ret : forall t k r v, In (ERet t k r v) (c_log s) -> r <= c_cur s /\ v = p_val P r k;
  SI_exec_le : forall t k r, In (EExec t k r) (c_log s) -> r <= c_cur s;
  SI_exec_live : forall k, (1 <= count_exec k (c_cur s) (c_log s))%nat ->
    verified s k \/ exists t f, In f (stack_of s t) /\ f_key f = k /\ is_exec (f_phase f);
  SI_verify0 : forall t f l, In f (stack_of s t) -> f_phase f = PVerify l ->
    count_exec (f_key f) (c_cur s) (c_log s) = 0%nat;
  SI_once : forall k r, (count_exec k r (c_log s) <= 1)%nat;
  SI_dom : forall t, ~ In t (c_tids s) -> c_thr s t = t_idle
}.

(* ---- generalities ---- *)

Lemma stack_apply s t u t' :
  stack_of (apply_upd s t u) t' = if t =? t' then u_stack u else stack_of s t'.
Proof. unfold stack_of, apply_upd; cbn. unfold updN. destruct (t =? t'); reflexivity. Qed.

Lemma in_stack_apply s t u t' f :
  In f (stack_of (apply_upd s t u) t') ->
  (t' <> t /\ In f (stack_of s t')) \/ (t' = t /\ In f (u_stack u)).
Proof.
  rewrite stack_apply. destruct (N.eqb_spec t t') as [->|Hne]; [now right|].
  left. split; auto.
Qed.

Lemma in_stack_other s t u t' f :
  t' <> t -> In f (stack_of s t') -> In f (stack_of (apply_upd s t u) t').
Proof.
  intros Hne Hin. rewrite stack_apply. destruct (N.eqb_spec t t'); [congruence | exact Hin].
Qed.

Lemma in_stack_self s t u f : In f (u_stack u) -> In f (stack_of (apply_upd s t u) t).
Proof. intros Hin. rewrite stack_apply, N.eqb_refl. exact Hin. Qed.

Lemma count_exec_none k r l :
  (forall t, ~ In (EExec t k r) l) -> count_exec k r l = 0%nat.
Proof.
  induction l as [|e l IH]; intros H; cbn; auto. destruct e as [t k' r'|t k' r' v].
  - destruct (N.eqb_spec k k') as [<-|Hk], (N.eqb_spec r r') as [<-|Hr]; cbn;
      try (apply IH; intros t' Ht'; apply (H t'); now right).
    exfalso. apply (H t). now left.
  - apply IH. intros t' Ht'. apply (H t'). now right.
Qed.

(* two holding frames for one key are the same frame of the same thread *)
Lemma holder_unique P s t1 f1 t2 f2 :
  SafeInv P s -> In f1 (stack_of s t1) -> In f2 (stack_of s t2) ->
  holding (f_phase f1) = true -> holding (f_phase f2) = true -> f_key f1 = f_key f2 -> t1 = t2.
Proof.
  intros I H1 H2 A1 A2 E. destruct (SI_hold _ _ I _ _ H1 A1) as (st1 & S1 & O1).
  destruct (SI_hold _ _ I _ _ H2 A2) as (st2 & S2 & O2). rewrite E in S1. congruence.
Qed.

Lemma hkeys_in f l : In f l -> holding (f_phase f) = true -> In (f_key f) (hkeys l).
Proof.
  intros Hin Hh. unfold hkeys. apply in_map. apply filter_In. auto.
Qed.

Lemma top_unique P s t k ph below f :
  SafeInv P s -> stack_of s t = (k @: ph) :: below -> holding ph = true ->
  In f below -> holding (f_phase f) = true -> f_key f <> k.
Proof.
  intros I Hst Hh Hin Hf E. pose proof (SI_nodup _ _ I t) as ND. rewrite Hst in ND.
  unfold hkeys in ND. cbn [filter f_phase] in ND. rewrite Hh in ND. cbn [map f_key] in ND.
  inversion ND as [|? ? Hn _]. apply Hn. rewrite <- E. now apply hkeys_in.
Qed.

(* a holding frame for the key held by [t]'s top frame IS that top frame *)
Lemma top_holder P s t k ph below t' f :
  SafeInv P s -> stack_of s t = (k @: ph) :: below -> holding ph = true ->
  In f (stack_of s t') -> holding (f_phase f) = true -> f_key f = k ->
  t' = t /\ f = k @: ph.
Proof.
  intros I Hst Hh Hin Hf E.
  assert (Htop : In (k @: ph) (stack_of s t)) by (rewrite Hst; now left).
  assert (t' = t) by (eapply holder_unique; eauto). subst t'. split; auto.
  rewrite Hst in Hin. destruct Hin as [<-|Hin]; auto.
  exfalso. eapply top_unique; eauto.
Qed.

Lemma verified_mark s k m k' cur' :
  cur' = c_cur s -> verified s k' ->
  exists m', mark s k m k' = Some m' /\ m_ver m' = cur'.
Proof.
  intros -> (m0 & Hm & Hv). unfold mark, updN. destruct (k =? k'); eauto.
Qed.

Ltac dpath Hp :=
  destruct Hp as
    [ k td Hst Htd
    | k below m Hst Hm Hv
    | k below m Hst Hm Hv Hval
    | k below Hst Hnv
    | k below pr1 md Hst Hcl Hn Hdg Hs
    | k below pr1 pr2 o st Hst Hcl Hbl Hk Ho Hne Hnr He Hs Hdg
    | k below pr1 o st inner Hst Hcl Hk Ho Hr Hdg Hs
    | k below pr1 r Hst Hrc Hs Hw He Hdg
    | k below m Hst Hm Hv
    | k below m Hst Hm Hv
    | k ph below Hst Hph
    | k d rest below Hst
    | k d rest below Hst
    | k below m Hst Hm Hval
    | k below Hst
    | k v below pr1 st Hst Hrm Hk Hw Hdg Hs
    | k v below pr1 st Hst Hrm Hk Hw Hdg Hs
    | k v below pr1 out Hst Hub Hs HA HB ].

Section Pres.
Variable fuel : nat.
Variable P : prog.

(* the memo table only changes by [mark] / [publish] at the current revision *)
Definition memo_step (s : cstate) (mm : key -> option memo) : Prop :=
  mm = c_memo s \/
  (exists k m, c_memo s k = Some m /\ m_val m = p_val P (c_cur s) k /\ mm = mark s k m) \/
  (exists k, mm = publish P s k).

Lemma path_memo_step s t u : path fuel P s t u -> memo_step s (u_memo u).
Proof.
  destruct 1; cbn [u_memo]; try (left; reflexivity).
  - right; left; eauto.
  - right; left; eauto.
  - right; right; eauto.
Qed.

Lemma memo_step_verified s mm k :
  memo_step s mm -> verified s k -> exists m', mm k = Some m' /\ m_ver m' = c_cur s.
Proof.
  intros [->|[(k0 & m & _ & _ & ->)|(k0 & ->)]] (m0 & Hm & Hv); eauto.
  - unfold mark, updN. destruct (k0 =? k); eauto.
  - unfold publish, updN. destruct (k0 =? k); eauto.
Qed.

Lemma memo_step_inv s mm :
  (forall k m, c_memo s k = Some m ->
     m_ver m <= c_cur s /\ (m_ver m = c_cur s -> m_val m = p_val P (c_cur s) k)) ->
  memo_step s mm ->
  forall k m, mm k = Some m ->
     m_ver m <= c_cur s /\ (m_ver m = c_cur s -> m_val m = p_val P (c_cur s) k).
Proof.
  intros H [->|[(k0 & m0 & Hm0 & Hv0 & ->)|(k0 & ->)]] k m; auto.
  - unfold mark, updN. destruct (N.eqb_spec k0 k) as [<-|Hne]; auto.
    intros [= <-]. cbn. split; [lia | auto].
  - unfold publish, updN. destruct (N.eqb_spec k0 k) as [<-|Hne]; auto.
    intros [= <-]. cbn. split; [lia | auto].
Qed.

Lemma verified_apply s t u k :
  memo_step s (u_memo u) -> verified s k -> verified (apply_upd s t u) k.
Proof. intros Hm Hv. unfold verified. cbn. eapply memo_step_verified; eauto. Qed.

(* ---------------- group Sync ---------------- *)

Lemma below_in s t top below f : stack_of s t = top :: below -> In f below -> In f (stack_of s t).
Proof. intros -> H. now right. Qed.

(* owner and flags agree entry by entry (the waiting flag may differ) *)
Definition sync_sim (sy sy' : key -> option sync_state) : Prop :=
  forall k, match sy k, sy' k with
            | Some a, Some b => ss_id a = ss_id b /\ ss_twice a = ss_twice b /\ ss_target a = ss_target b
            | None, None => True
            | _, _ => False
            end.

Lemma sync_sim_refl sy : sync_sim sy sy.
Proof. intros k. destruct (sy k); auto. Qed.

Lemma sync_sim_eq sy sy' : sy' = sy -> sync_sim sy sy'.
Proof. intros ->. apply sync_sim_refl. Qed.

Lemma sync_sim_waiting sy sy' k st :
  sy k = Some st -> sy' = updN sy k (Some (set_waiting st)) -> sync_sim sy sy'.
Proof.
  intros Hk -> k'. unfold updN. destruct (N.eqb_spec k k') as [<-|Hne].
  - rewrite Hk. cbn. auto.
  - destruct (sy k'); auto.
Qed.

Definition SyncGoal (s : cstate) (t : thread) (u : upd) : Prop :=
  only_threads (u_proto u) /\
  (forall k st o, sync (u_proto u) k = Some st -> ss_id st = OThread o ->
     exists f, In f (stack_of (apply_upd s t u) o) /\ f_key f = k /\ holding (f_phase f) = true) /\
  (forall t' f, In f (stack_of (apply_upd s t u) t') -> holding (f_phase f) = true ->
     exists st, sync (u_proto u) (f_key f) = Some st /\ ss_id st = OThread t') /\
  (forall t', NoDup (hkeys (stack_of (apply_upd s t u) t'))).

Lemma hkeys_spec k l :
  (exists f, In f l /\ f_key f = k /\ holding (f_phase f) = true) <-> In k (hkeys l).
Proof.
  unfold hkeys. rewrite in_map_iff. split.
  - intros (f & Hin & Hk' & Hh). exists f. split; auto. apply filter_In. auto.
  - intros (f & Hk' & Hin). apply filter_In in Hin as [Hin Hh]. eauto.
Qed.

Lemma hkeys_app l1 l2 : hkeys (l1 ++ l2) = hkeys l1 ++ hkeys l2.
Proof. unfold hkeys. now rewrite filter_app, map_app. Qed.

(* paths that keep the owner of every sync entry and the set of keys [t] holds *)
Lemma sync_generic s t u oldtop below new :
  SafeInv P s ->
  stack_of s t = oldtop ++ below -> u_stack u = new ++ below -> hkeys new = hkeys oldtop ->
  sync_sim (sync (c_proto s)) (sync (u_proto u)) ->
  SyncGoal s t u.
Proof.
  intros I Hst Hu Hk Hs.
  pose proof (SI_only _ _ I) as OT. pose proof (SI_owner _ _ I) as OW.
  pose proof (SI_hold _ _ I) as HD. pose proof (SI_nodup _ _ I) as ND.
  assert (HK : hkeys (u_stack u) = hkeys (stack_of s t)).
  { rewrite Hu, Hst, !hkeys_app, Hk. reflexivity. }
  split; [|split; [|split]].
  - intros k st' Hk'. specialize (Hs k). rewrite Hk' in Hs.
    destruct (sync (c_proto s) k) as [st|] eqn:Es; [|contradiction].
    destruct (OT _ _ Es) as (o & Ho & Htw & Htg). destruct Hs as (E1 & E2 & E3).
    exists o. repeat split; congruence.
  - intros k st' o Hk' Ho. specialize (Hs k). rewrite Hk' in Hs.
    destruct (sync (c_proto s) k) as [st|] eqn:Es; [|contradiction]. destruct Hs as (E1 & _).
    destruct (OW k st o Es) as (f & Hin & Hfk & Hh); [congruence|].
    destruct (N.eq_dec o t) as [->|Hne].
    + destruct (proj2 (hkeys_spec k (u_stack u))) as (f' & Hin' & Hk'' & Hh').
      { rewrite HK. apply hkeys_spec. eauto. }
      exists f'. split; auto. now apply in_stack_self.
    + exists f. split; auto. now apply in_stack_other.
  - intros t' f Hin Hh.
    assert (Hold : exists f0, In f0 (stack_of s t') /\ f_key f0 = f_key f /\ holding (f_phase f0) = true).
    { apply in_stack_apply in Hin as [[Hne Hin]|[-> Hin]]; [eauto|].
      apply hkeys_spec. rewrite <- HK. apply hkeys_spec. eauto. }
    destruct Hold as (f0 & Hin0 & Hk0 & Hh0). destruct (HD _ _ Hin0 Hh0) as (st & Es & Ho).
    rewrite Hk0 in Es. specialize (Hs (f_key f)). rewrite Es in Hs.
    destruct (sync (u_proto u) (f_key f)) as [st'|]; [|contradiction].
    destruct Hs as (E1 & _). exists st'. split; auto. congruence.
  - intros t'. rewrite stack_apply. destruct (t =? t'); [rewrite HK|]; apply ND.
Qed.

Ltac generic_sync I Hst :=
  match goal with
  | Hst : stack_of ?s ?t = ?top :: ?below |- SyncGoal ?s ?t (mkU ?pr _ (?a :: ?b :: ?below) _ _ _) =>
    apply (sync_generic s t _ [top] below [a; b] I Hst); cbn;
      auto using sync_sim_refl, sync_sim_eq; eapply sync_sim_waiting; eauto
  | Hst : stack_of ?s ?t = ?top :: ?below |- SyncGoal ?s ?t (mkU ?pr _ (?a :: ?below) _ _ _) =>
    apply (sync_generic s t _ [top] below [a] I Hst); cbn;
      auto using sync_sim_refl, sync_sim_eq; eapply sync_sim_waiting; eauto
  | Hst : stack_of ?s ?t = ?top :: ?below |- SyncGoal ?s ?t (mkU ?pr _ ?below _ _ _) =>
    apply (sync_generic s t _ [top] below [] I Hst); cbn;
      auto using sync_sim_refl, sync_sim_eq; eapply sync_sim_waiting; eauto
  end.

(* releasing [k]: the entry disappears, every other holding frame has another key *)
Lemma sync_release s t u k v below newtop :
  SafeInv P s -> stack_of s t = (k @: PRelease v) :: below ->
  sync (u_proto u) = updN (sync (c_proto s)) k None ->
  u_stack u = newtop ++ below -> hkeys newtop = [] ->
  SyncGoal s t u.
Proof.
  intros I Hst Hs Hu Hnt.
  pose proof (SI_only _ _ I) as OT. pose proof (SI_owner _ _ I) as OW.
  pose proof (SI_hold _ _ I) as HD. pose proof (SI_nodup _ _ I) as ND.
  assert (Htop : In (k @: PRelease v) (stack_of s t)) by (rewrite Hst; now left).
  assert (Hnew : forall f, In f (u_stack u) -> holding (f_phase f) = true -> In f below).
  { intros f Hin Hh. rewrite Hu in Hin. apply in_app_or in Hin as [Hin|Hin]; auto.
    exfalso. assert (Hk : In (f_key f) (hkeys newtop)) by now apply hkeys_in.
    rewrite Hnt in Hk. destruct Hk. }
  split; [|split; [|split]].
  - intros k' st'. rewrite Hs. unfold updN. destruct (k =? k'); [discriminate | apply OT].
  - intros k' st' o. rewrite Hs. unfold updN. destruct (N.eqb_spec k k') as [<-|Hne]; [discriminate|].
    intros Hk' Ho. destruct (OW _ _ _ Hk' Ho) as (f & Hin & Hfk & Hh).
    exists f. split; auto. destruct (N.eq_dec o t) as [->|Hot].
    + apply in_stack_self. rewrite Hu. apply in_or_app. right.
      rewrite Hst in Hin. destruct Hin as [<-|Hin]; [cbn in Hfk; congruence | exact Hin].
    + now apply in_stack_other.
  - intros t' f Hin Hh. rewrite Hs.
    assert (Hold : In f (stack_of s t') /\ f_key f <> k).
    { apply in_stack_apply in Hin as [[Hne Hin]|[-> Hin]].
      - split; auto. intros E.
        destruct (top_holder P s t k (PRelease v) below t' f) as [Ht _]; auto.
      - apply Hnew in Hin; auto. split; [eapply below_in; eauto|].
        eapply top_unique; eauto. }
    destruct Hold as [Hin0 Hne]. destruct (HD _ _ Hin0 Hh) as (st' & Es & Ho).
    exists st'. rewrite updN_other by congruence. auto.
  - intros t'. rewrite stack_apply. destruct (t =? t'); [|apply ND].
    rewrite Hu, hkeys_app, Hnt. cbn [app]. specialize (ND t). rewrite Hst in ND.
    unfold hkeys in ND. cbn in ND. now inversion ND.
Qed.

Lemma pres_sync s t u : SafeInv P s -> path fuel P s t u -> SyncGoal s t u.
Proof.
  intros I Hp.
  pose proof (SI_only _ _ I) as OT. pose proof (SI_owner _ _ I) as OW.
  pose proof (SI_hold _ _ I) as HD. pose proof (SI_nodup _ _ I) as ND.
  dpath Hp; try (generic_sync I Hst; fail).
  - (* R_begin *)
    apply (sync_generic s t _ [] [] [k @: PStart] I); cbn; auto using sync_sim_refl.
  - (* R_claimed *)
    assert (Hnok : forall t' f, In f (stack_of s t') -> holding (f_phase f) = true -> f_key f <> k).
    { intros t' f Hin Hh E. destruct (HD _ _ Hin Hh) as (st & Es & _). congruence. }
    split; [|split; [|split]]; cbn [u_proto].
    + intros k' st'. rewrite Hs. unfold updN. destruct (k =? k'); [|apply OT].
      intros [= <-]. exists t. cbn. auto.
    + intros k' st' o'. rewrite Hs. unfold updN. destruct (N.eqb_spec k k') as [<-|Hne].
      * intros [= <-] [= <-]. exists (k @: PClaimed). split; [|cbn; auto].
        apply in_stack_self. now left.
      * intros Hk' Ho'. destruct (OW _ _ _ Hk' Ho') as (f & Hin & Hfk & Hh).
        exists f. split; auto. destruct (N.eq_dec o' t) as [->|Hot]; [|now apply in_stack_other].
        apply in_stack_self. cbn. right. rewrite Hst in Hin.
        destruct Hin as [<-|Hin]; [discriminate | exact Hin].
    + intros t' f Hin Hh. rewrite Hs.
      apply in_stack_apply in Hin as [[Hne Hin]|[-> Hin]].
      * destruct (HD _ _ Hin Hh) as (st' & Es & Ho). exists st'.
        rewrite updN_other; auto. intros E. eapply Hnok; eauto.
      * cbn in Hin. destruct Hin as [<-|Hin].
        -- cbn. rewrite updN_same. eexists; split; reflexivity.
        -- pose proof (below_in _ _ _ _ _ Hst Hin) as Hin0.
           destruct (HD _ _ Hin0 Hh) as (st' & Es & Ho). exists st'.
           rewrite updN_other; auto. intros E. eapply Hnok; eauto.
    + intros t'. rewrite stack_apply. destruct (t =? t'); [|apply ND]. cbn [u_stack].
      specialize (ND t). rewrite Hst in ND. unfold hkeys in *. cbn in *. constructor; auto.
      intros Hin. apply in_map_iff in Hin as (f & Hfk & Hin). apply filter_In in Hin as [Hin Hh].
      eapply (Hnok t f); eauto. eapply below_in; eauto.
  - (* R_exec_start *)
    destruct Hph as [[-> _] | [l ->]]; generic_sync I Hst.
  - (* R_release_quiet *)
    eapply (sync_release s t _ k v below []); eauto.
  - (* R_release_wake *)
    eapply (sync_release s t _ k v below [k @: PUnblock v]); eauto.
Qed.

(* ---------------- group Val ---------------- *)

Definition ValGoal (s : cstate) (t : thread) (u : upd) : Prop :=
  (forall k m, u_memo u k = Some m ->
     m_ver m <= c_cur s /\ (m_ver m = c_cur s -> m_val m = p_val P (c_cur s) k)) /\
  (forall t' f v, In f (stack_of (apply_upd s t u) t') ->
     f_phase f = PRelease v \/ f_phase f = PUnblock v ->
     v = p_val P (c_cur s) (f_key f) /\ verified (apply_upd s t u) (f_key f)) /\
  (forall t' k r v, In (ERet t' k r v) (u_ev u ++ c_log s) -> r <= c_cur s /\ v = p_val P r k).

Lemma verified_publish s t u k :
  u_memo u = publish P s k -> verified (apply_upd s t u) k.
Proof.
  intros E. unfold verified. cbn. rewrite E. unfold publish. rewrite updN_same. eauto.
Qed.

Lemma verified_marked s t u k m :
  u_memo u = mark s k m -> verified (apply_upd s t u) k.
Proof.
  intros E. unfold verified. cbn. rewrite E. unfold mark. rewrite updN_same. eauto.
Qed.

Lemma pres_val s t u : SafeInv P s -> path fuel P s t u -> ValGoal s t u.
Proof.
  intros I Hp. pose proof (path_memo_step _ _ _ Hp) as MS.
  pose proof (SI_memo _ _ I) as VM. pose proof (SI_rel _ _ I) as VR.
  pose proof (SI_ret _ _ I) as VT.
  split; [|split].
  - eapply memo_step_inv; eauto.
  - intros t1 f1 v1 Hin Hrel.
    assert (Hold : In f1 (stack_of s t1) ->
                   v1 = p_val P (c_cur s) (f_key f1) /\ verified (apply_upd s t u) (f_key f1)).
    { intros Hin0. destruct (VR _ _ _ Hin0 Hrel) as [Hv1 Hver]. split; auto.
      now apply verified_apply. }
    apply in_stack_apply in Hin as [[Hne1 Hin]|[-> Hin]]; [auto|].
    dpath Hp; cbn [u_stack] in Hin;
      repeat match goal with
      | H : In _ (_ :: _) |- _ => destruct H as [<-|H]
      | H : In _ [] |- _ => destruct H
      end;
      try (apply Hold; eapply below_in; eauto; fail);
      try (cbn in Hrel; destruct Hrel; discriminate).
    + (* R_recheck_hit *)
      cbn in Hrel |- *. assert (v1 = m_val m) by (destruct Hrel; congruence). subst v1.
      destruct (VM _ _ Hm) as [_ Hval]. split; auto.
      apply verified_apply; auto. exists m. auto.
    + (* R_mark *)
      cbn in Hrel |- *. assert (v1 = m_val m) by (destruct Hrel; congruence). subst v1.
      split; auto. now apply verified_marked with (m := m).
    + (* R_publish *)
      cbn in Hrel |- *. assert (v1 = p_val P (c_cur s) k) by (destruct Hrel; congruence). subst v1.
      split; auto. now apply verified_publish.
    + (* R_release_wake *)
      cbn in Hrel |- *. assert (v1 = v) by (destruct Hrel; congruence). subst v1.
      assert (Htop : In (k @: PRelease v) (stack_of s t)) by (rewrite Hst; now left).
      destruct (VR _ _ v Htop) as [Hv1 Hver]; [now left|]. split; auto; now apply verified_apply.
  - intros t1 k1 r1 v1 Hin. apply in_app_or in Hin as [Hin|Hin]; [|eauto].
    dpath Hp; cbn [u_ev] in Hin;
      repeat match goal with
      | H : In _ (_ :: _) |- _ => destruct H as [H|H]
      | H : In _ [] |- _ => destruct H
      end; try discriminate; injection Hin as <- <- <- <-.
    + (* R_hot_hit *) destruct (VM _ _ Hm) as [_ Hval]. split; [lia | auto].
    + (* R_hot_mark *) split; [lia | auto].
    + (* R_release_quiet *)
      assert (Htop : In (k @: PRelease v) (stack_of s t)) by (rewrite Hst; now left).
      destruct (VR _ _ v Htop) as [Hv1 _]; [now left|]. split; [lia | auto].
    + (* R_unblock *)
      assert (Htop : In (k @: PUnblock v) (stack_of s t)) by (rewrite Hst; now left).
      destruct (VR _ _ v Htop) as [Hv1 _]; [now right|]. split; [lia | auto].
Qed.

(* ---------------- group Exec ---------------- *)

Lemma count_exec_app k r a b : count_exec k r (a ++ b) = (count_exec k r a + count_exec k r b)%nat.
Proof.
  induction a as [|e a IH]; cbn; auto. destruct e; rewrite IH; lia.
Qed.

Lemma count_exec_in k r l : (1 <= count_exec k r l)%nat -> exists t, In (EExec t k r) l.
Proof.
  induction l as [|e l IH]; cbn; [lia|]. destruct e as [t k' r'|t k' r' v].
  - destruct (N.eqb_spec k k') as [<-|Hk], (N.eqb_spec r r') as [<-|Hr]; cbn;
      try (intros H; destruct (IH H) as [t' Ht']; exists t'; now right).
    intros _. exists t. now left.
  - intros H. destruct (IH H) as [t' Ht']. exists t'. now right.
Qed.

Definition ExecGoal (s : cstate) (t : thread) (u : upd) : Prop :=
  (forall t' k r, In (EExec t' k r) (u_ev u ++ c_log s) -> r <= c_cur s) /\
  (forall k, (1 <= count_exec k (c_cur s) (u_ev u ++ c_log s))%nat ->
     verified (apply_upd s t u) k \/
     exists t' f, In f (stack_of (apply_upd s t u) t') /\ f_key f = k /\ is_exec (f_phase f)) /\
  (forall t' f l, In f (stack_of (apply_upd s t u) t') -> f_phase f = PVerify l ->
     count_exec (f_key f) (c_cur s) (u_ev u ++ c_log s) = 0%nat) /\
  (forall k r, (count_exec k r (u_ev u ++ c_log s) <= 1)%nat).

Lemma is_exec_holding ph : is_exec ph -> holding ph = true.
Proof. destruct ph; cbn; auto; intros []. Qed.

(* at the moment a claim holder decides to execute, nothing was executed for the key in the
   current revision *)
Lemma exec_start_zero s t k ph below :
  SafeInv P s -> stack_of s t = (k @: ph) :: below ->
  (ph = PClaimed /\ (forall m, c_memo s k = Some m -> m_ver m <> c_cur s)) \/
  (exists l, ph = PVerify l) ->
  count_exec k (c_cur s) (c_log s) = 0%nat.
Proof.
  intros I Hst [[-> Hnv] | [l ->]].
  - pose proof (SI_once _ _ I k (c_cur s)) as H1.
    destruct (count_exec k (c_cur s) (c_log s)) as [|n] eqn:E; auto.
    exfalso. destruct (SI_exec_live _ _ I k) as [(m & Hm & Hv) | (t0 & f0 & Hin & Hk & Hex)]; [lia| |].
    + eapply Hnv; eauto.
    + destruct (top_holder P s t k PClaimed below t0 f0) as [_ ->]; auto.
      now apply is_exec_holding.
  - apply (SI_verify0 _ _ I t (k @: PVerify l) l); [rewrite Hst; now left | reflexivity].
Qed.

(* paths that do not log WillExecute *)
Lemma exec_generic s t u :
  SafeInv P s -> memo_step s (u_memo u) ->
  (forall k r, count_exec k r (u_ev u) = 0%nat) ->
  (forall top below, stack_of s t = top :: below -> is_exec (f_phase top) ->
     verified (apply_upd s t u) (f_key top) \/
     exists f, In f (u_stack u) /\ f_key f = f_key top /\ is_exec (f_phase f)) ->
  (forall top below f, stack_of s t = top :: below -> In f below -> In f (u_stack u)) ->
  (forall f l, In f (u_stack u) -> f_phase f = PVerify l ->
     In f (stack_of s t) \/ count_exec (f_key f) (c_cur s) (c_log s) = 0%nat) ->
  ExecGoal s t u.
Proof.
  intros I MS Hev Htop Hbelow Hver.
  pose proof (SI_exec_le _ _ I) as XL. pose proof (SI_exec_live _ _ I) as XV.
  pose proof (SI_verify0 _ _ I) as X0. pose proof (SI_once _ _ I) as X1.
  assert (Hcnt : forall k r, count_exec k r (u_ev u ++ c_log s) = count_exec k r (c_log s)).
  { intros k r. rewrite count_exec_app, Hev. reflexivity. }
  split; [|split; [|split]].
  - intros t' k r Hin. apply in_app_or in Hin as [Hin|Hin]; [|eauto].
    exfalso. assert (H1 : (1 <= count_exec k r (u_ev u))%nat).
    { clear -Hin. induction (u_ev u) as [|e l IH]; [destruct Hin|]. destruct Hin as [->|Hin].
      - cbn. rewrite !N.eqb_refl. cbn. lia.
      - specialize (IH Hin). cbn. destruct e; lia. }
    rewrite Hev in H1. lia.
  - intros k1. rewrite Hcnt. intros H1.
    destruct (XV _ H1) as [Hv | (t0 & f0 & Hin & Hk & Hex)].
    + left. now apply verified_apply.
    + destruct (N.eq_dec t0 t) as [->|Hne].
      * destruct (stack_of s t) as [|top below] eqn:Est; [destruct Hin|].
        destruct Hin as [<-|Hin].
        -- destruct (Htop _ _ eq_refl Hex) as [Hv | (f & Hf & Hfk & Hfe)].
           ++ left. now rewrite <- Hk.
           ++ right. exists t, f. split; [now apply in_stack_self|]. split; [congruence | auto].
        -- right. exists t, f0. split; auto. apply in_stack_self. eapply Hbelow; eauto.
      * right. exists t0, f0. split; auto. now apply in_stack_other.
  - intros t' f l Hin Hph. rewrite Hcnt.
    apply in_stack_apply in Hin as [[Hne Hin]|[-> Hin]]; [eauto|].
    destruct (Hver _ _ Hin Hph) as [Hold|H0]; eauto.
  - intros k r. rewrite Hcnt. apply X1.
Qed.

Lemma pres_exec s t u : SafeInv P s -> path fuel P s t u -> ExecGoal s t u.
Proof.
  intros I Hp. pose proof (path_memo_step _ _ _ Hp) as MS.
  pose proof (SI_exec_le _ _ I) as XL. pose proof (SI_exec_live _ _ I) as XV.
  pose proof (SI_verify0 _ _ I) as X0. pose proof (SI_once _ _ I) as X1.
  dpath Hp.
  11: { (* R_exec_start *)
    pose proof (exec_start_zero s t k ph below I Hst Hph) as Z.
    assert (Hhold : holding ph = true) by (destruct Hph as [[-> _] | [l ->]]; reflexivity).
    assert (Hnex : ~ is_exec ph) by (destruct Hph as [[-> _] | [l ->]]; cbn; auto).
    assert (Hcnt : forall k1 r1, count_exec k1 r1 ([EExec t k (c_cur s)] ++ c_log s) =
              ((if (k1 =? k) && (r1 =? c_cur s) then 1 else 0) + count_exec k1 r1 (c_log s))%nat).
    { intros k1 r1. reflexivity. }
    unfold ExecGoal. cbn [u_ev u_stack].
    split; [|split; [|split]].
    - intros t' k1 r1 [Hin|Hin]; [injection Hin as _ _ <-; lia | eauto].
    - intros k1. rewrite Hcnt. destruct (N.eqb_spec k1 k) as [->|Hk1].
      + intros _. right. exists t, (k @: PExec (p_deps P (c_cur s) k)).
        split; [apply in_stack_self; now left | cbn; auto].
      + cbn [andb Nat.add]. intros H1.
        destruct (XV _ H1) as [Hv | (t0 & f0 & Hin & Hk & Hex)].
        * left. now apply verified_apply.
        * right. exists t0, f0. split; auto.
          destruct (N.eq_dec t0 t) as [->|Hne]; [|now apply in_stack_other].
          apply in_stack_self. cbn. rewrite Hst in Hin. destruct Hin as [<-|Hin]; [|now right].
          cbn in Hex. contradiction.
    - intros t' f l Hin Hph'. rewrite Hcnt.
      assert (Hold : In f (stack_of s t') /\ (t' = t -> In f below)).
      { apply in_stack_apply in Hin as [[Hne Hin]|[-> Hin]]; [split; [auto | congruence]|].
        cbn in Hin. destruct Hin as [<-|Hin]; [discriminate|].
        split; auto. eapply below_in; eauto. }
      destruct Hold as [Hin0 Hb].
      assert (Hfh : holding (f_phase f) = true) by (rewrite Hph'; reflexivity).
      destruct (N.eqb_spec (f_key f) k) as [Ek|Ek].
      + exfalso. destruct (top_holder P s t k ph below t' f) as [-> _]; auto.
        eapply top_unique; eauto.
      + cbn [andb Nat.add]. eauto.
    - intros k1 r1. rewrite Hcnt.
      destruct (N.eqb_spec k1 k) as [->|Hk1], (N.eqb_spec r1 (c_cur s)) as [->|Hr1]; cbn [andb];
        try (apply X1). rewrite Z. lia. }
  all: apply exec_generic; auto; cbn [u_ev u_stack];
    try (intros; reflexivity);
    try (intros top0 below0 Hst0; rewrite Hst in Hst0; injection Hst0 as <- <-; cbn; try tauto);
    try (intros top0 below0 f0 Hst0; rewrite Hst in Hst0; injection Hst0 as <- <-; cbn; tauto).
  all: try (intros top0 below0 Hst0; rewrite Hst in Hst0; discriminate).
  all: try (intros top0 below0 f0 Hst0; rewrite Hst in Hst0; discriminate).
  all: try (intros f0 l0 Hin0 Hph0; cbn in Hin0;
            repeat match goal with
            | H : _ \/ _ |- _ => destruct H as [<-|H]
            | H : False |- _ => destruct H
            end; try discriminate;
            try (left; rewrite Hst; right; assumption)).
  - (* R_to_verify: the new PVerify frame *)
    right. cbn. eapply exec_start_zero; eauto. left. split; auto. intros m' Hm'. congruence.
  - (* R_call_v *)
    right. cbn. apply (X0 t (k @: PVerify (d :: rest)) (d :: rest)); [rewrite Hst; now left | reflexivity].
  - (* R_call_x keeps an executing frame *)
    intros _. right. exists (k @: PExec rest). cbn. auto.
  - (* R_publish: verified *)
    intros _. left. now apply verified_publish.
Qed.

End Pres.

(* ---------------- all steps; reachable states ---------------- *)

Inductive creach (fuel : nat) (P : prog) : cstate -> Prop :=
| cr_init : creach fuel P cinit
| cr_step s o s' : creach fuel P s -> gstep fuel P s o = Some s' -> creach fuel P s'.

Lemma safe_init P : SafeInv P cinit.
Proof.
  constructor; cbn; try (intros; discriminate); try (intros; contradiction); auto.
  - intros t. constructor.
  - intros k H. lia.
Qed.

Lemma tstep_path fuel P s t c s' :
  SafeInv P s -> tstep fuel P s t c = Some s' ->
  In t (c_tids s) /\ exists u, path fuel P s t u /\ s' = apply_upd s t u.
Proof.
  intros I. unfold tstep. destruct (mem t (c_tids s)) eqn:Em; [|discriminate].
  destruct (step_thread fuel P s t c) as [u|] eqn:E; [|discriminate]. intros [= <-].
  split; [now apply mem_In|]. exists u. split; auto.
  eapply step_thread_path; eauto. apply (SI_only _ _ I).
Qed.

Lemma safe_tstep fuel P s t c s' :
  SafeInv P s -> tstep fuel P s t c = Some s' -> SafeInv P s'.
Proof.
  intros I H. destruct (tstep_path _ _ _ _ _ _ I H) as (Ht & u & Hp & ->).
  destruct (pres_sync fuel P s t u I Hp) as (A1 & A2 & A3 & A4).
  destruct (pres_val fuel P s t u I Hp) as (B1 & B2 & B3).
  destruct (pres_exec fuel P s t u I Hp) as (C1 & C2 & C3 & C4).
  constructor; auto.
  intros t' Ht'. cbn in Ht' |- *. rewrite updN_other by (intros ->; contradiction).
  apply (SI_dom _ _ I _ Ht').
Qed.

Lemma idleb_spec ts : idleb ts = true -> th_stack ts = [] /\ th_todo ts = [] /\ th_cycle ts = false.
Proof.
  unfold idleb. destruct (th_stack ts), (th_todo ts); try discriminate.
  destruct (th_cycle ts); [discriminate | auto].
Qed.

Lemma all_idle P s :
  SafeInv P s -> forallb (fun t => idleb (c_thr s t)) (c_tids s) = true ->
  forall t, stack_of s t = [].
Proof.
  intros I H t. destruct (in_dec N.eq_dec t (c_tids s)) as [Hin|Hin].
  - rewrite forallb_forall in H. apply H in Hin. now apply idleb_spec in Hin.
  - unfold stack_of. now rewrite (SI_dom _ _ I _ Hin).
Qed.

Lemma safe_gstep fuel P s o s' : SafeInv P s -> gstep fuel P s o = Some s' -> SafeInv P s'.
Proof.
  intros I. destruct o as [t c | | t ks]; cbn [gstep].
  - apply safe_tstep; auto.
  - destruct (forallb _ _) eqn:Ef; [|discriminate]. intros [= <-].
    pose proof (all_idle _ _ I Ef) as E.
    assert (E' : forall t, stack_of (mkC (c_cur s + 1) (c_memo s) (c_proto s) (c_thr s) (c_tids s) (c_log s)) t = []) by exact E.
    constructor; cbn [c_cur c_memo c_proto c_log c_tids c_thr].
    + apply (SI_only _ _ I).
    + intros k st u Hk Hu. destruct (SI_owner _ _ I _ _ _ Hk Hu) as (f & Hin & _).
      rewrite E in Hin. destruct Hin.
    + intros t f Hin. rewrite E' in Hin. destruct Hin.
    + intros t. rewrite E'. constructor.
    + intros k m Hm. destruct (SI_memo _ _ I _ _ Hm) as [Hle _]. split; lia.
    + intros t f v Hin. rewrite E' in Hin. destruct Hin.
    + intros t k r v Hin. destruct (SI_ret _ _ I _ _ _ _ Hin). split; [lia | auto].
    + intros t k r Hin. pose proof (SI_exec_le _ _ I _ _ _ Hin). lia.
    + intros k H1. apply count_exec_in in H1 as [t Ht].
      pose proof (SI_exec_le _ _ I _ _ _ Ht). lia.
    + intros t f l Hin. rewrite E' in Hin. destruct Hin.
    + apply (SI_once _ _ I).
    + apply (SI_dom _ _ I).
  - destruct (idleb (c_thr s t)) eqn:Ei; [|discriminate]. intros [= <-].
    apply idleb_spec in Ei as (Es & Et & Ec).
    assert (E : forall t', stack_of (mkC (c_cur s) (c_memo s) (c_proto s)
                  (updN (c_thr s) t (mkT [] ks false))
                  (if mem t (c_tids s) then c_tids s else t :: c_tids s) (c_log s)) t' = stack_of s t').
    { intros t'. unfold stack_of. cbn. unfold updN. destruct (N.eqb_spec t t') as [<-|]; auto. }
    constructor; cbn [c_cur c_memo c_proto c_log].
    + apply (SI_only _ _ I).
    + intros k st u. rewrite E. apply (SI_owner _ _ I).
    + intros t' f. rewrite E. apply (SI_hold _ _ I).
    + intros t'. rewrite E. apply (SI_nodup _ _ I).
    + apply (SI_memo _ _ I).
    + intros t' f v. rewrite E. apply (SI_rel _ _ I).
    + apply (SI_ret _ _ I).
    + apply (SI_exec_le _ _ I).
    + intros k H1. destruct (SI_exec_live _ _ I _ H1) as [Hv | (t0 & f0 & Hin & Hr)]; [now left|].
      right. exists t0, f0. now rewrite E.
    + intros t' f l. rewrite E. apply (SI_verify0 _ _ I).
    + apply (SI_once _ _ I).
    + intros t' Hn. cbn. assert (t' <> t).
      { intros ->. apply Hn. destruct (mem t (c_tids s)) eqn:Em; [now apply mem_In | now left]. }
      rewrite updN_other by auto. apply (SI_dom _ _ I). intros Hin. apply Hn.
      destruct (mem t (c_tids s)); [auto | now right].
Qed.

Lemma creach_safe fuel P s : creach fuel P s -> SafeInv P s.
Proof. induction 1; [apply safe_init | eapply safe_gstep; eauto]. Qed.

(* C17 *)
Theorem once_per_revision fuel P s :
  creach fuel P s -> forall k r, (count_exec k r (c_log s) <= 1)%nat.
Proof. intros H. apply (SI_once _ _ (creach_safe _ _ _ H)). Qed.

(* C16, values: in the log of every reachable state *)
Theorem returned_values fuel P s :
  creach fuel P s -> forall t k r v, In (ERet t k r v) (c_log s) -> v = p_val P r k.
Proof. intros H t k r v Hin. apply (SI_ret _ _ (creach_safe _ _ _ H) _ _ _ _ Hin). Qed.

(* C16, values: at the step that returns, the value is that of a memo verified in the current
   revision *)
Theorem returned_from_verified_memo fuel P s t c s' t1 k1 r1 v1 :
  creach fuel P s -> tstep fuel P s t c = Some s' -> c_log s' = ERet t1 k1 r1 v1 :: c_log s ->
  t1 = t /\ r1 = c_cur s' /\
  exists m, c_memo s' k1 = Some m /\ m_ver m = c_cur s' /\ m_val m = v1 /\ v1 = p_val P r1 k1.
Proof.
  intros HR Hstep Hlog. pose proof (creach_safe _ _ _ HR) as I.
  pose proof (safe_tstep _ _ _ _ _ _ I Hstep) as I'.
  destruct (tstep_path _ _ _ _ _ _ I Hstep) as (Ht & u & Hp & ->).
  assert (Hver : t1 = t /\ r1 = c_cur s /\ verified (apply_upd s t u) k1).
  { pose proof (path_memo_step _ _ _ _ _ Hp) as MS.
    dpath Hp; cbn in Hlog; try (apply (f_equal (@length event)) in Hlog; cbn in Hlog; lia);
      try (exfalso; inversion Hlog; fail);
      injection Hlog as <- <- <- <-; split; auto; split; auto.
    - apply (verified_apply P); auto. exists m; auto.
    - now apply verified_marked with (m := m).
    - apply (verified_apply P); auto.
      apply (SI_rel _ _ I t (k @: PRelease v) v); [rewrite Hst; now left | now left].
    - apply (verified_apply P); auto.
      apply (SI_rel _ _ I t (k @: PUnblock v) v); [rewrite Hst; now left | now right]. }
  destruct Hver as (-> & -> & m & Hm & Hv). split; auto. split; auto.
  exists m. split; auto. split; auto.
  assert (Hin : In (ERet t k1 (c_cur s) v1) (c_log (apply_upd s t u))) by (rewrite Hlog; now left).
  destruct (SI_ret _ _ I' _ _ _ _ Hin) as [_ Hval].
  destruct (SI_memo _ _ I' _ _ Hm) as [_ Hmv]. specialize (Hmv Hv). cbn in Hmv.
  split; [congruence | auto].
Qed.

(* CFetch/ExamplesTerm.v — the termination measure on the witness runs of CFetch/Examples.v. *)
From Salsa Require Import Base.
From Salsa.Proto Require Import Model.
From Salsa.CFetch Require Import Model ProofsProto ProofsRel ProofsSafe ProofsLive ProofsTerm Examples.

(* after the two handles received their request (key 2, which calls key 1) *)
Definition ex_spawned : cstate :=
  match grun 10 ex_prog [GSpawn 1 [2]; GSpawn 2 [2]] cinit with Some s => s | None => cinit end.

Definition ex_round1_steps : list gop := steps 1 5 ++ steps 2 3 ++ steps 1 8 ++ steps 2 2.

Example ex_spawned_reachable : creach 10 ex_prog ex_spawned.
Proof.
  eapply grun_creach with (l := [GSpawn 1 [2]; GSpawn 2 [2]]) (s := cinit); [constructor|].
  vm_compute. reflexivity.
Qed.

(* budget 36 at the start; the witness schedule (one handle waits and reuses) takes 18 steps;
   in the blocked state 13 are left; at the end 0 *)
Example ex_measure :
  (Phi ex_prog ex_rank ex_spawned, length ex_round1_steps, Phi ex_prog ex_rank ex_blocked,
   Phi ex_prog ex_rank ex_state1) = (36, 18, 13, 0)%nat.
Proof. vm_compute. reflexivity. Qed.

Example ex_round1_run :
  Forall is_gstep ex_round1_steps /\ grun 10 ex_prog ex_round1_steps ex_spawned = Some ex_state1.
Proof.
  split.
  - apply Forall_forall. intros o Ho. vm_compute in Ho.
    repeat (destruct Ho as [<-|Ho]; [exact Logic.I|]). destruct Ho.
  - vm_compute. reflexivity.
Qed.

(* CFetch/ProofsProto.v — what the CFetch layer needs from the Proto model: the shape of each
   protocol step in the transfer-free fragment, and that the steps cannot fail there. *)
From Salsa Require Import Base.
From Salsa.Proto Require Import Model ProofsGraph ProofsList ProofsInv ProofsWake ProofsStep.

(* the fragment: every sync entry is owned by a thread; no transfer bookkeeping *)
Definition only_threads (pr : state) : Prop :=
  forall k st, sync pr k = Some st ->
  exists u, ss_id st = OThread u /\ ss_twice st = false /\ ss_target st = false.

(* ---- shapes ---- *)

Lemma claim_cases fuel pr t k a pr1 r :
  only_threads pr ->
  Model.step fuel pr (OClaim t k a) = ROk (pr1, XClaim r) ->
  dg pr1 = dg pr /\
  ((sync pr k = None /\ r = CClaimed MDefault /\
    sync pr1 = updN (sync pr) k (Some (fresh_sync t))) \/
   (exists st u, sync pr k = Some st /\ ss_id st = OThread u /\
      sync pr1 = updN (sync pr) k (Some (set_waiting st)) /\
      ((r = CCycle false /\ reaches (eproj (dg pr)) u t) \/
       (r = CRunning u /\ u <> t /\ ~ reaches (eproj (dg pr)) u t)))).
Proof.
  intros OT H. cbn [Model.step] in H. apply bind_ok in H as ([s1 r1] & Hc & H).
  cbn [fst snd] in H. injection H as <- <-.
  unfold try_claim in Hc. destruct (sync pr k) as [st|] eqn:Es.
  - destruct (OT _ _ Es) as (u & Eu & _). rewrite Eu in Hc.
    apply bind_ok in Hc as (r0 & Hr & Hc). injection Hc as <- <-. cbn [dg set_sync sync].
    split; [reflexivity|]. right. exists st, u. repeat split; auto.
    cbn [dg set_sync] in Hr. apply runtime_block_spec in Hr as [[-> Hr] | [-> Hr]]; [now left|].
    right. repeat split; auto. intros ->. apply Hr. constructor.
  - injection Hc as <- <-. cbn. split; [reflexivity|]. now left.
Qed.

Lemma block_cases fuel pr t k o pr2 b :
  Model.step fuel pr (OBlockOn t k o) = ROk (pr2, XBlock b) ->
  sync pr2 = sync pr /\
  ((b = BCycle /\ reaches (eproj (dg pr)) o t /\ dg pr2 = dg pr) \/
   (b = BBlocked /\ ~ reaches (eproj (dg pr)) o t /\ t <> o /\ edges (dg pr) t = None /\
    dg pr2 = set_qdeps (set_edges (dg pr) (updN (edges (dg pr)) t (Some (o, k))))
                       (updN (qdeps (dg pr)) k (qdeps (dg pr) k ++ [t])))).
Proof.
  intros H. cbn [Model.step] in H. apply bind_ok in H as ([g1 b1] & Hb & H).
  cbn [fst snd] in H. injection H as <- <-. cbn [sync set_dg dg]. split; [reflexivity|].
  apply block_on_spec in Hb as (Hc & Hsame & Hadd). destruct b1.
  - right. specialize (Hadd eq_refl). apply add_edge_ok in Hadd as (Hne & He & Hr & ->).
    repeat split; auto.
  - left. split; auto. split; [now apply Hc | now apply Hsame].
Qed.

Lemma receive_cases fuel pr t pr1 r :
  Model.step fuel pr (OReceive t) = ROk (pr1, XReceive (Some r)) ->
  sync pr1 = sync pr /\ wres (dg pr) t = Some r /\ edges (dg pr) t = None /\
  dg pr1 = set_wres (dg pr) (updN (wres (dg pr)) t None).
Proof.
  intros H. cbn [Model.step] in H. apply bind_ok in H as ([g1 o1] & Hb & H).
  cbn [fst snd] in H. injection H as E1 E2. subst pr1 o1. cbn [sync set_dg dg].
  split; [reflexivity|].
  apply receive_ok in Hb as [(Hn & _) | (r' & Hr' & Hw & He & ->)]; [discriminate|].
  injection Hr' as <-. auto.
Qed.

Lemma remove_cases fuel pr t k pr1 st :
  Model.step fuel pr (ORemove t k) = ROk (pr1, XRemoved st) ->
  dg pr1 = dg pr /\ sync pr k = Some st /\ sync pr1 = updN (sync pr) k None.
Proof.
  intros H. cbn [Model.step] in H. apply bind_ok in H as ([s1 st1] & Hb & H).
  cbn [fst snd] in H. injection H as <- <-. unfold sync_remove in Hb.
  destruct (sync pr k) as [st0|] eqn:Es; [|discriminate]. injection Hb as <- <-. cbn. auto.
Qed.

Lemma release_script_cases t k st :
  ss_twice st = false -> ss_target st = false ->
  (ss_waiting st = false /\ release_script t k st Completed = []) \/
  (ss_waiting st = true /\ release_script t k st Completed = [OUnblock t k Completed]).
Proof.
  intros T G. unfold release_script. rewrite T, G. destruct (ss_waiting st); cbn; auto.
Qed.

(* the fold of unblock_runtime, field by field *)
Lemma unblock_fold_fields r : forall l g g',
  foldM (fun g' from_id => unblock_runtime g' from_id r) l g = ROk g' ->
  (forall x, In x l -> edges g' x = None /\ wres g' x = Some r) /\
  (forall x, ~ In x l -> edges g' x = edges g x /\ wres g' x = wres g x) /\
  qdeps g' = qdeps g /\ transferred g' = transferred g /\ tdeps g' = tdeps g.
Proof.
  induction l as [|d l IH]; intros g g'; cbn [foldM].
  - intros [= <-]. split; [intros x []|]. split; [intros x _; auto|]. auto.
  - intros H. apply bind_ok in H as (g1 & H1 & H2).
    apply unblock_runtime_ok in H1 as (_ & ->). apply IH in H2 as (A & B & Q & T1 & T2).
    cbn in *. split; [|split; [|auto]].
    + intros x [<-|Hx]; [|now apply A].
      destruct (in_dec N.eq_dec d l) as [Hd|Hd]; [now apply A|].
      destruct (B _ Hd) as [E W]. rewrite E, W, !updN_same. auto.
    + intros x Hx. assert (Hne : d <> x) by (intros ->; apply Hx; now left).
      destruct (B x) as [E W]; [intros Hi; apply Hx; now right|].
      rewrite E, W, !updN_other by auto. auto.
Qed.

Lemma unblock_cases fuel pr t k r pr1 out :
  Model.step fuel pr (OUnblock t k r) = ROk (pr1, out) ->
  sync pr1 = sync pr /\
  (forall x, In x (qdeps (dg pr) k) -> edges (dg pr1) x = None /\ wres (dg pr1) x = Some r) /\
  (forall x, ~ In x (qdeps (dg pr) k) ->
     edges (dg pr1) x = edges (dg pr) x /\ wres (dg pr1) x = wres (dg pr) x).
Proof.
  intros H. cbn [Model.step] in H. apply bind_ok in H as (g1 & Hb & H). injection H as <- <-.
  cbn [sync set_dg dg]. split; [reflexivity|].
  unfold unblock_runtimes_blocked_on in Hb. apply unblock_fold_fields in Hb as (A & B & _).
  cbn in B. auto.
Qed.

(* ---- the steps cannot fail ---- *)

(* the blocked threads met when following the edges from [t] *)
Inductive chain_nodes (e : gmap) : N -> list N -> Prop :=
| cn_root t : e t = None -> chain_nodes e t []
| cn_step t u l : e t = Some u -> chain_nodes e u l -> chain_nodes e t (t :: l).

Lemma chain_has_nodes e t r : chain e t r -> exists l, chain_nodes e t l.
Proof.
  induction 1 as [t Ht | t u r Ht Hc [l IH]]; [exists []; now constructor|].
  exists (t :: l). econstructor; eauto.
Qed.

Lemma chain_nodes_reaches e t l x : chain_nodes e t l -> In x l -> reaches e t x /\ e x <> None.
Proof.
  induction 1 as [t Ht | t u l Ht Hc IH]; [intros []|].
  intros [<-|Hx]; [split; [constructor | congruence]|].
  destruct (IH Hx) as [Hr Hn]. split; auto. econstructor; eauto.
Qed.

Lemma chain_nodes_nodup e t l : grounded e -> chain_nodes e t l -> NoDup l.
Proof.
  intros G. induction 1 as [t Ht | t u l Ht Hc IH]; constructor; auto.
  intros Hin. destruct (chain_nodes_reaches _ _ _ _ Hc Hin) as [Hr _].
  eapply grounded_no_cycle; eauto.
Qed.

Lemma depends_on_enough e to p l :
  chain_nodes (eproj_f e) p l -> forall fuel, (length l < fuel)%nat ->
  exists b, depends_on_loop fuel e p to = ROk b.
Proof.
  induction 1 as [t Ht | t u l Ht Hc IH]; intros fuel Hlt;
    (destruct fuel as [|f]; [inversion Hlt|]); cbn [depends_on_loop].
  - unfold eproj_f in Ht. destruct (e t) as [[q kq]|]; [discriminate | eauto].
  - unfold eproj_f in Ht. destruct (e t) as [[q kq]|]; [|discriminate]. cbn in Ht.
    injection Ht as ->. destruct (u =? to); [eauto|]. apply IH. cbn in Hlt. lia.
Qed.

(* [dom] lists every thread that may be blocked *)
Lemma depends_on_total fuel g dom p to :
  grounded (eproj g) -> (forall x, edges g x <> None -> In x dom) -> (length dom < fuel)%nat ->
  exists b, depends_on fuel g p to = ROk b.
Proof.
  intros G D L. destruct (G p) as [r Hc]. apply chain_has_nodes in Hc as [l Hl].
  unfold depends_on. eapply depends_on_enough; [exact Hl|].
  assert (Hle : (length l <= length dom)%nat).
  { apply NoDup_incl_length; [eapply chain_nodes_nodup; eauto|].
    intros x Hx. apply D. destruct (chain_nodes_reaches _ _ _ _ Hl Hx) as [_ Hn].
    unfold eproj, eproj_f in Hn. destruct (edges g x); [discriminate | contradiction]. }
  lia.
Qed.

Lemma claim_total fuel pr dom t k a :
  only_threads pr -> grounded (eproj (dg pr)) ->
  (forall x, edges (dg pr) x <> None -> In x dom) -> (length dom < fuel)%nat ->
  exists pr1 r, Model.step fuel pr (OClaim t k a) = ROk (pr1, XClaim r).
Proof.
  intros OT G D L. cbn [Model.step]. unfold try_claim.
  destruct (sync pr k) as [st|] eqn:Es.
  - destruct (OT _ _ Es) as (u & -> & _). cbn [dg set_sync]. unfold runtime_block.
    destruct (t =? u); [cbn; eauto|].
    destruct (depends_on_total fuel (dg pr) dom u t G D L) as [b ->]. cbn.
    destruct b; cbn; eauto.
  - cbn. eauto.
Qed.

Lemma block_total fuel pr dom t k o :
  grounded (eproj (dg pr)) ->
  (forall x, edges (dg pr) x <> None -> In x dom) -> (length dom < fuel)%nat ->
  o <> t -> ~ reaches (eproj (dg pr)) o t -> edges (dg pr) t = None ->
  exists pr2, Model.step fuel pr (OBlockOn t k o) = ROk (pr2, XBlock BBlocked).
Proof.
  intros G D L Hne Hr He. cbn [Model.step]. unfold block_on.
  destruct (N.eqb_spec t o) as [->|_]; [congruence|].
  destruct (depends_on_total fuel (dg pr) dom o t G D L) as [b Hb]. rewrite Hb. cbn [bind].
  destruct b; [exfalso; apply Hr; eapply depends_on_true; exact Hb|].
  unfold add_edge. destruct (N.eqb_spec t o) as [->|_]; [congruence|].
  rewrite He, Hb. cbn. eauto.
Qed.

Lemma unblock_fold_total r : forall l g,
  NoDup l -> (forall d, In d l -> edges g d <> None) ->
  exists g', foldM (fun g' from_id => unblock_runtime g' from_id r) l g = ROk g'.
Proof.
  induction l as [|d l IH]; intros g ND E; cbn [foldM]; [eauto|].
  inversion ND as [|? ? Hd ND']; subst.
  destruct (edges g d) as [[u k]|] eqn:Ed; [|exfalso; apply (E d); [now left | exact Ed]].
  assert (H1 : exists g1, unblock_runtime g d r = ROk g1 /\ edges g1 = updN (edges g) d None).
  { unfold unblock_runtime. rewrite Ed. eexists; split; reflexivity. }
  destruct H1 as (g1 & H1 & E1). rewrite H1. cbn [bind]. apply IH; auto.
  intros d' Hd'. rewrite E1, updN_other by (intros ->; contradiction). apply E. now right.
Qed.

Lemma unblock_total fuel pr t k r :
  einv (dg pr) -> exists pr1, Model.step fuel pr (OUnblock t k r) = ROk (pr1, XUnit).
Proof.
  intros [G D ND W]. cbn [Model.step]. unfold unblock_runtimes_blocked_on.
  destruct (unblock_fold_total r (qdeps (dg pr) k)
              (set_qdeps (dg pr) (updN (qdeps (dg pr)) k []))) as [g' Hg'].
  - apply ND.
  - intros d Hd. cbn. apply D in Hd as [u Hu]. congruence.
  - rewrite Hg'. cbn. eauto.
Qed.

Lemma receive_total fuel pr t r :
  einv (dg pr) -> wres (dg pr) t = Some r ->
  exists pr1, Model.step fuel pr (OReceive t) = ROk (pr1, XReceive (Some r)).
Proof.
  intros [G D ND W] Hw. cbn [Model.step]. unfold receive. rewrite Hw, (W _ _ Hw). cbn. eauto.
Qed.

Lemma remove_total fuel pr t k st :
  sync pr k = Some st -> exists pr1, Model.step fuel pr (ORemove t k) = ROk (pr1, XRemoved st).
Proof. intros Es. cbn [Model.step]. unfold sync_remove. rewrite Es. cbn. eauto. Qed.

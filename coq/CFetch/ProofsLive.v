(* CFetch/ProofsLive.v — rank-respecting programs: try_claim never answers Cycle, the wait graph
   stays grounded, every blocked thread has a releaser, and some thread can always step. *)
From Coq Require Import Sorted.
From Salsa Require Import Base.
From Salsa.Proto Require Import Model ProofsGraph ProofsList ProofsInv ProofsWake ProofsStep.
From Salsa.CFetch Require Import Model ProofsProto ProofsRel ProofsSafe.

Definition inner_ok (f : frame) : Prop :=
  match f_phase f with PVerify _ | PExec _ => True | _ => False end.

Definition rest_of (ph : phase) : list key :=
  match ph with PVerify l | PExec l => l | _ => [] end.

Section Live.
Variable fuel : nat.
Variable P : prog.
Variable rank : key -> nat.

(* the call graph of every revision descends along [rank] *)
Definition ranked : Prop := forall r k d, In d (p_deps P r k) -> (rank d < rank k)%nat.

Definition rk_lt (f g : frame) : Prop := (rank (f_key f) < rank (f_key g))%nat.

Record LiveInv (s : cstate) : Prop := mkLive {
  LI_reach : reachable fuel (c_proto s);
  LI_cycle : forall t, th_cycle (c_thr s t) = false;
  LI_shape : forall t top below, stack_of s t = top :: below -> Forall inner_ok below;
  LI_sorted : forall t, StronglySorted rk_lt (stack_of s t);
  LI_rest : forall t f d, In f (stack_of s t) -> In d (rest_of (f_phase f)) ->
    (rank d < rank (f_key f))%nat;
  LI_mdeps : forall k m d, c_memo s k = Some m -> In d (m_deps m) -> (rank d < rank k)%nat;
  LI_edge : forall t u k, edges (dg (c_proto s)) t = Some (u, k) ->
    exists below, stack_of s t = (k @: PWait) :: below;
  LI_wres : forall t r, wres (dg (c_proto s)) t = Some r ->
    exists k below, stack_of s t = (k @: PWait) :: below;
  LI_wait : forall t k below, stack_of s t = (k @: PWait) :: below ->
    (exists u, edges (dg (c_proto s)) t = Some (u, k)) \/
    (exists r, wres (dg (c_proto s)) t = Some r);
  LI_target : forall x u k, edges (dg (c_proto s)) x = Some (u, k) ->
    (exists st, sync (c_proto s) k = Some st /\ ss_id st = OThread u /\ ss_waiting st = true) \/
    (exists v below, stack_of s u = (k @: PUnblock v) :: below)
}.

(* ---- the rank argument ---- *)

Definition toprank_le (s : cstate) (x : thread) (n : nat) : Prop :=
  exists f below, stack_of s x = f :: below /\ (rank (f_key f) <= n)%nat.

Lemma sorted_top_le s x f :
  LiveInv s -> In f (stack_of s x) -> toprank_le s x (rank (f_key f)).
Proof.
  intros L Hin. pose proof (LI_sorted _ L x) as S.
  destruct (stack_of s x) as [|top below] eqn:E; [destruct Hin|].
  exists top, below. split; auto. destruct Hin as [<-|Hin]; [lia|].
  apply StronglySorted_inv in S as [_ Hall]. rewrite Forall_forall in Hall.
  specialize (Hall _ Hin). unfold rk_lt in Hall. lia.
Qed.

Lemma sorted_below_lt s x top below f :
  LiveInv s -> stack_of s x = top :: below -> In f below ->
  (rank (f_key top) < rank (f_key f))%nat.
Proof.
  intros L E Hin. pose proof (LI_sorted _ L x) as S. rewrite E in S.
  apply StronglySorted_inv in S as [_ Hall]. rewrite Forall_forall in Hall. now apply Hall.
Qed.

(* the thread an edge points to has a frame for the key *)
Lemma target_frame s x u k :
  SafeInv P s -> LiveInv s -> edges (dg (c_proto s)) x = Some (u, k) ->
  exists f, In f (stack_of s u) /\ f_key f = k /\
            (holding (f_phase f) = true \/ exists v, f_phase f = PUnblock v).
Proof.
  intros I L He. destruct (LI_target _ L _ _ _ He) as [(st & Hs & Ho & _) | (v & below & Hst)].
  - destruct (SI_owner _ _ I _ _ _ Hs Ho) as (f & Hin & Hk & Hh). eauto.
  - exists (k @: PUnblock v). rewrite Hst. split; [now left|]. cbn. eauto.
Qed.

Lemma rank_along s x y n :
  SafeInv P s -> LiveInv s -> reaches (eproj (dg (c_proto s))) x y ->
  toprank_le s x n -> toprank_le s y n.
Proof.
  intros I L Hr. revert n. induction Hr as [x | x x' y Hx Hr IH]; intros n Hn; auto.
  apply IH. unfold eproj, eproj_f in Hx.
  destruct (edges (dg (c_proto s)) x) as [[x'' k']|] eqn:He; [|discriminate].
  cbn in Hx. injection Hx as ->.
  destruct (LI_edge _ L _ _ _ He) as [below Hst].
  destruct Hn as (f & below0 & Hst0 & Hle). rewrite Hst in Hst0. injection Hst0 as <- <-.
  cbn in Hle. destruct (target_frame _ _ _ _ I L He) as (f' & Hin & Hk & _).
  destruct (sorted_top_le _ _ _ L Hin) as (top & bl & E & Hle'). exists top, bl. split; auto.
  rewrite Hk in Hle'. lia.
Qed.

(* try_claim never has a reason to answer Cycle *)
Lemma no_cycle_answer s t k below st o :
  SafeInv P s -> LiveInv s ->
  stack_of s t = (k @: PCold) :: below ->
  sync (c_proto s) k = Some st -> ss_id st = OThread o ->
  ~ reaches (eproj (dg (c_proto s))) o t.
Proof.
  intros I L Hst Hs Ho Hr.
  destruct (SI_owner _ _ I _ _ _ Hs Ho) as (f & Hin & Hk & Hh).
  destruct (N.eq_dec o t) as [->|Hne].
  - rewrite Hst in Hin. destruct Hin as [<-|Hin]; [discriminate|].
    pose proof (sorted_below_lt _ _ _ _ _ L Hst Hin) as Hlt. cbn in Hlt. rewrite Hk in Hlt. lia.
  - inversion Hr as [|x x1 y Hx Hr']; subst; [congruence|].
    unfold eproj, eproj_f in Hx.
    destruct (edges (dg (c_proto s)) o) as [[x1' k1]|] eqn:He; [|discriminate].
    destruct (LI_edge _ L _ _ _ He) as [below_o Hsto].
    rewrite Hsto in Hin. destruct Hin as [<-|Hin]; [discriminate|].
    pose proof (sorted_below_lt _ _ _ _ _ L Hsto Hin) as Hlt. cbn in Hlt. try rewrite Hk in Hlt.
    assert (Ho' : toprank_le s o (rank k1)).
    { exists (k1 @: PWait), below_o. split; auto. }
    destruct (rank_along _ _ _ _ I L Hr Ho') as (top & bl & E & Hle).
    rewrite Hst in E. injection E as <- <-. cbn in Hle. lia.
Qed.

(* ---------------- preservation: protocol reachability ---------------- *)

Lemma running_no_wres s t k ph below :
  LiveInv s -> stack_of s t = (k @: ph) :: below -> ph <> PWait ->
  edges (dg (c_proto s)) t = None /\ wres (dg (c_proto s)) t = None.
Proof.
  intros L Hst Hph. split.
  - destruct (edges (dg (c_proto s)) t) as [[u k']|] eqn:E; auto.
    destruct (LI_edge _ L _ _ _ E) as [b Hb]. rewrite Hst in Hb. injection Hb as _ -> _. congruence.
  - destruct (wres (dg (c_proto s)) t) as [r|] eqn:E; auto.
    destruct (LI_wres _ L _ _ E) as (k' & b & Hb). rewrite Hst in Hb. injection Hb as _ -> _. congruence.
Qed.

Lemma reach1 pr o pr' out :
  reachable fuel pr -> Model.step fuel pr o = ROk (pr', out) -> pre pr o -> reachable fuel pr'.
Proof. intros R Hs Hp. eapply reach_step; eauto. Qed.

Lemma pres_reach s t u :
  SafeInv P s -> LiveInv s -> path fuel P s t u -> reachable fuel (u_proto u).
Proof.
  intros I L Hp. pose proof (LI_reach _ L) as R. pose proof (SI_only _ _ I) as OT.
  dpath Hp; cbn [u_proto]; auto.
  - apply (reach1 _ _ _ _ R Hcl). exact Logic.I.
  - destruct (claim_cases _ _ _ _ _ _ _ OT Hcl) as [Hdg1 _].
    assert (R1 : reachable fuel pr1) by (apply (reach1 _ _ _ _ R Hcl); exact Logic.I).
    apply (reach1 _ _ _ _ R1 Hbl). cbn. rewrite Hdg1.
    eapply running_no_wres; eauto. discriminate.
  - apply (reach1 _ _ _ _ R Hcl). exact Logic.I.
  - apply (reach1 _ _ _ _ R Hrc). exact Logic.I.
  - apply (reach1 _ _ _ _ R Hrm). exact Logic.I.
  - apply (reach1 _ _ _ _ R Hrm). exact Logic.I.
  - apply (reach1 _ _ _ _ R Hub). exact Logic.I.
Qed.

(* ---------------- preservation: the local structure of the stacks ---------------- *)

Lemma sorted_retop k ph ph' below :
  StronglySorted rk_lt ((k @: ph) :: below) -> StronglySorted rk_lt ((k @: ph') :: below).
Proof.
  intros S. apply StronglySorted_inv in S as [S Hall]. constructor; auto.
Qed.

Lemma sorted_call k ph ph' d below :
  (rank d < rank k)%nat ->
  StronglySorted rk_lt ((k @: ph) :: below) ->
  StronglySorted rk_lt ((d @: PStart) :: (k @: ph') :: below).
Proof.
  intros Hlt S. pose proof (sorted_retop _ _ ph' _ S) as S'. constructor; auto.
  apply StronglySorted_inv in S as [_ Hall]. constructor; [exact Hlt|].
  rewrite Forall_forall in *. intros f Hf. specialize (Hall _ Hf). unfold rk_lt in *. cbn in *. lia.
Qed.

Lemma struct_cycle s t u :
  SafeInv P s -> LiveInv s -> path fuel P s t u -> u_cycle u = false.
Proof.
  intros I L Hp. dpath Hp; cbn [u_cycle]; auto. exfalso. eapply no_cycle_answer; eauto.
Qed.

Lemma struct_shape s t u :
  LiveInv s -> path fuel P s t u ->
  forall top below, u_stack u = top :: below -> Forall inner_ok below.
Proof.
  intros L Hp. pose proof (LI_shape _ L t) as SH.
  dpath Hp; cbn [u_stack]; rewrite Hst in SH; intros top0 below0 E.
  all: try (injection E as <- <-; exact (SH _ _ eq_refl)).
  all: try (pose proof (SH _ _ eq_refl) as SH'; rewrite E in SH'; inversion SH'; assumption).
  all: try (injection E as <- <-; constructor; [exact Logic.I | exact (SH _ _ eq_refl)]).
  injection E as <- <-. constructor.
Qed.

Lemma struct_sorted s t u :
  LiveInv s -> path fuel P s t u -> StronglySorted rk_lt (u_stack u).
Proof.
  intros L Hp. pose proof (LI_sorted _ L t) as SO. pose proof (LI_rest _ L t) as RE.
  dpath Hp; cbn [u_stack]; rewrite Hst in SO, RE.
  all: try (eapply sorted_retop; exact SO).
  all: try (apply StronglySorted_inv in SO as [SO _]; exact SO).
  - repeat constructor.
  - eapply sorted_call; [|exact SO]. apply (RE (k @: PVerify (d :: rest)) d); [now left | now left].
  - eapply sorted_call; [|exact SO]. apply (RE (k @: PExec (d :: rest)) d); [now left | now left].
Qed.

Lemma struct_rest s t u :
  ranked -> LiveInv s -> path fuel P s t u ->
  forall f d, In f (u_stack u) -> In d (rest_of (f_phase f)) -> (rank d < rank (f_key f))%nat.
Proof.
  intros RK L Hp. pose proof (LI_rest _ L t) as RE. pose proof (LI_mdeps _ L) as MD.
  dpath Hp; cbn [u_stack]; rewrite Hst in RE; intros f0 d0 Hin0 Hd0; cbn in Hin0;
    repeat match goal with
    | H : _ \/ _ |- _ => destruct H as [<-|H]
    | H : False |- _ => destruct H
    end; try (cbn in Hd0; contradiction);
    try (apply (RE f0 d0); [right; assumption | assumption]).
  - cbn in Hd0 |- *. eapply MD; eauto.
  - cbn in Hd0 |- *. exact (RK _ _ _ Hd0).
  - cbn in Hd0 |- *. apply (RE (k @: PVerify (d :: rest)) d0); [now left | now right].
  - cbn in Hd0 |- *. apply (RE (k @: PExec (d :: rest)) d0); [now left | now right].
Qed.

Lemma struct_mdeps s t u :
  ranked -> LiveInv s -> path fuel P s t u ->
  forall k m d, u_memo u k = Some m -> In d (m_deps m) -> (rank d < rank k)%nat.
Proof.
  intros RK L Hp. pose proof (LI_mdeps _ L) as MD.
  assert (MDmark : forall k0 m0, c_memo s k0 = Some m0 ->
            forall k m d, mark s k0 m0 k = Some m -> In d (m_deps m) -> (rank d < rank k)%nat).
  { intros k0 m0 Hm0 k m d. unfold mark, updN. destruct (N.eqb_spec k0 k) as [<-|_]; [|apply MD].
    intros [= <-]. cbn. eapply MD; eauto. }
  assert (MDpub : forall k0 k m d, publish P s k0 k = Some m -> In d (m_deps m) -> (rank d < rank k)%nat).
  { intros k0 k m d. unfold publish, updN. destruct (N.eqb_spec k0 k) as [<-|_]; [|apply MD].
    intros [= <-]. cbn. apply (RK (c_cur s) k0 d). }
  dpath Hp; cbn [u_memo]; try exact MD; try (eapply MDmark; eauto; fail); apply MDpub.
Qed.

(* ---------------- preservation: who waits for whom ---------------- *)

Definition WaitGoal (s : cstate) (t : thread) (u : upd) : Prop :=
  (forall x u0 k, edges (dg (u_proto u)) x = Some (u0, k) ->
     exists below, stack_of (apply_upd s t u) x = (k @: PWait) :: below) /\
  (forall x r, wres (dg (u_proto u)) x = Some r ->
     exists k below, stack_of (apply_upd s t u) x = (k @: PWait) :: below) /\
  (forall x k below, stack_of (apply_upd s t u) x = (k @: PWait) :: below ->
     (exists u0, edges (dg (u_proto u)) x = Some (u0, k)) \/
     (exists r, wres (dg (u_proto u)) x = Some r)) /\
  (forall x u0 k, edges (dg (u_proto u)) x = Some (u0, k) ->
     (exists st, sync (u_proto u) k = Some st /\ ss_id st = OThread u0 /\ ss_waiting st = true) \/
     (exists v below, stack_of (apply_upd s t u) u0 = (k @: PUnblock v) :: below)).

Lemma stack_other s t u x : x <> t -> stack_of (apply_upd s t u) x = stack_of s x.
Proof. intros H. rewrite stack_apply. destruct (N.eqb_spec t x); congruence. Qed.

Lemma stack_self s t u : stack_of (apply_upd s t u) t = u_stack u.
Proof. now rewrite stack_apply, N.eqb_refl. Qed.

(* paths that leave the dependency graph alone, taken by a running thread *)
Lemma wait_generic s t u :
  LiveInv s ->
  dg (u_proto u) = dg (c_proto s) ->
  edges (dg (c_proto s)) t = None -> wres (dg (c_proto s)) t = None ->
  (forall k b, u_stack u <> (k @: PWait) :: b) ->
  (forall x u0 k', edges (dg (c_proto s)) x = Some (u0, k') ->
     (exists st, sync (u_proto u) k' = Some st /\ ss_id st = OThread u0 /\ ss_waiting st = true) \/
     (exists v below, stack_of (apply_upd s t u) u0 = (k' @: PUnblock v) :: below)) ->
  WaitGoal s t u.
Proof.
  intros L Hdg He Hw Hnw Htg. unfold WaitGoal. rewrite Hdg.
  split; [|split; [|split]]; auto.
  - intros x u0 k Hx. assert (x <> t) by congruence. rewrite stack_other by auto.
    eapply LI_edge; eauto.
  - intros x r Hx. assert (x <> t) by congruence. rewrite stack_other by auto.
    eapply LI_wres; eauto.
  - intros x k below Hx. destruct (N.eq_dec x t) as [->|Hne].
    + rewrite stack_self in Hx. exfalso. eapply Hnw; eauto.
    + rewrite stack_other in Hx by auto. eapply LI_wait; eauto.
Qed.

(* the target clause when neither the sync table nor any PUnblock top changes *)
Lemma target_keep s t u k ph below :
  LiveInv s -> stack_of s t = (k @: ph) :: below -> (forall v, ph <> PUnblock v) ->
  sync (u_proto u) = sync (c_proto s) ->
  forall x u0 k', edges (dg (c_proto s)) x = Some (u0, k') ->
     (exists st, sync (u_proto u) k' = Some st /\ ss_id st = OThread u0 /\ ss_waiting st = true) \/
     (exists v below, stack_of (apply_upd s t u) u0 = (k' @: PUnblock v) :: below).
Proof.
  intros L Hst Hph Hs x u0 k' Hx. rewrite Hs.
  destruct (LI_target _ L _ _ _ Hx) as [Hl | (v & b & Hr)]; [now left|].
  right. exists v, b. rewrite stack_other; auto. intros ->. rewrite Hst in Hr.
  injection Hr as _ Hr _. eapply Hph; eauto.
Qed.

Lemma below_not_wait s t top below :
  LiveInv s -> stack_of s t = top :: below -> forall k b, below <> (k @: PWait) :: b.
Proof.
  intros L Hst k b E. pose proof (LI_shape _ L _ _ _ Hst) as SH. rewrite E in SH.
  inversion SH as [|? ? H1 _]. exact H1.
Qed.

Ltac wait_same L Hst Run :=
  let He := fresh "He" in let Hw := fresh "Hw" in
  destruct (Run _ _ _ Hst ltac:(discriminate)) as [He Hw];
  apply wait_generic; auto;
  [ cbn [u_stack]; first [ intros k0 b0; discriminate | solve [eapply below_not_wait; eauto] ]
  | eapply target_keep; eauto; intros v0; discriminate ].

Lemma pres_wait s t u :
  SafeInv P s -> LiveInv s -> path fuel P s t u -> WaitGoal s t u.
Proof.
  intros I L Hp.
  assert (Run : forall k ph below, stack_of s t = (k @: ph) :: below -> ph <> PWait ->
                edges (dg (c_proto s)) t = None /\ wres (dg (c_proto s)) t = None).
  { intros; eapply running_no_wres; eauto. }
  dpath Hp.
  - (* R_begin *)
    assert (He : edges (dg (c_proto s)) t = None).
    { destruct (edges (dg (c_proto s)) t) as [[u0 k']|] eqn:E; auto.
      destruct (LI_edge _ L _ _ _ E) as [b Hb]. congruence. }
    assert (Hw : wres (dg (c_proto s)) t = None).
    { destruct (wres (dg (c_proto s)) t) as [r|] eqn:E; auto.
      destruct (LI_wres _ L _ _ E) as (k' & b & Hb). congruence. }
    apply wait_generic; auto; cbn [u_stack u_proto].
    + intros k0 b. discriminate.
    + intros x u0 k' Hx. destruct (LI_target _ L _ _ _ Hx) as [Hl | (v & b & Hr)]; [now left|].
      right. exists v, b. rewrite stack_other; auto. intros ->. congruence.
  - wait_same L Hst Run.
  - wait_same L Hst Run.
  - wait_same L Hst Run.
  - (* R_claimed *)
    destruct (Run _ _ _ Hst ltac:(discriminate)) as [He Hw].
    apply wait_generic; auto; cbn [u_stack u_proto]; [intros k0 b0; discriminate|].
    intros x u0 k' Hx.
    destruct (LI_target _ L _ _ _ Hx) as [(st & Hs' & Ho & Hwt) | (v & b & Hr)].
    + left. exists st. rewrite Hs, updN_other by congruence. auto.
    + right. exists v, b. rewrite stack_other; auto. intros ->. congruence.
  - (* R_blocked *)
    destruct (Run _ _ _ Hst ltac:(discriminate)) as [_ Hw].
    unfold WaitGoal. cbn [u_proto]. rewrite Hdg. cbn [edges wres set_qdeps set_edges].
    split; [|split; [|split]].
    + intros x u0 k'. unfold updN. destruct (N.eqb_spec t x) as [<-|Hxt].
      * intros [= <- <-]. rewrite stack_self. cbn. eauto.
      * intros Hx. rewrite stack_other by auto. eapply LI_edge; eauto.
    + intros x r Hx. assert (x <> t) by congruence. rewrite stack_other by auto.
      eapply LI_wres; eauto.
    + intros x k0 b Hx. unfold updN. destruct (N.eqb_spec t x) as [<-|Hxt].
      * rewrite stack_self in Hx. cbn in Hx. injection Hx as <- _. left. eauto.
      * rewrite stack_other in Hx by auto. eapply LI_wait; eauto.
    + intros x u0 k'. unfold updN at 1. destruct (N.eqb_spec t x) as [<-|Hxt].
      * intros [= <- <-]. left. exists (set_waiting st). rewrite Hs, updN_same. cbn. auto.
      * intros Hx. destruct (LI_target _ L _ _ _ Hx) as [(st0 & Hs' & Ho' & Hwt) | (v & b & Hr)].
        -- left. rewrite Hs. unfold updN. destruct (N.eqb_spec k k') as [<-|Hk'].
           ++ exists (set_waiting st). assert (st0 = st) by congruence. subst st0. cbn. auto.
           ++ eauto.
        -- right. exists v, b. rewrite stack_other; auto. intros ->. congruence.
  - (* R_cycle *) exfalso. eapply no_cycle_answer; eauto.
  - (* R_woken *)
    unfold WaitGoal. cbn [u_proto]. rewrite Hdg, Hs. cbn [edges wres set_wres].
    split; [|split; [|split]].
    + intros x u0 k' Hx. assert (x <> t) by congruence. rewrite stack_other by auto.
      eapply LI_edge; eauto.
    + intros x r0. unfold updN. destruct (N.eqb_spec t x) as [<-|Hxt]; [discriminate|].
      intros Hx. rewrite stack_other by auto. eapply LI_wres; eauto.
    + intros x k0 b Hx. destruct (N.eq_dec x t) as [->|Hxt].
      * rewrite stack_self in Hx. discriminate.
      * rewrite stack_other in Hx by auto. rewrite updN_other by auto. eapply LI_wait; eauto.
    + intros x u0 k' Hx.
      destruct (LI_target _ L _ _ _ Hx) as [Hl | (v & b & Hr)]; [now left|].
      right. exists v, b. rewrite stack_other; auto. intros ->. congruence.
  - wait_same L Hst Run.
  - wait_same L Hst Run.
  - (* R_exec_start *)
    destruct Hph as [[-> _] | [l ->]]; wait_same L Hst Run.
  - wait_same L Hst Run.
  - wait_same L Hst Run.
  - wait_same L Hst Run.
  - wait_same L Hst Run.
  - (* R_release_quiet *)
    destruct (Run _ _ _ Hst ltac:(discriminate)) as [He Hw'].
    apply wait_generic; auto; cbn [u_stack u_proto]; [eapply below_not_wait; eauto|].
    intros x u0 k' Hx.
    destruct (LI_target _ L _ _ _ Hx) as [(st0 & Hs' & Ho' & Hwt) | (v0 & b & Hr)].
    + left. exists st0. rewrite Hs, updN_other; auto. intros <-. congruence.
    + right. exists v0, b. rewrite stack_other; auto. intros ->. congruence.
  - (* R_release_wake *)
    destruct (Run _ _ _ Hst ltac:(discriminate)) as [He Hw'].
    apply wait_generic; auto; cbn [u_stack u_proto]; [intros k0 b0; discriminate|].
    intros x u0 k' Hx.
    destruct (LI_target _ L _ _ _ Hx) as [(st0 & Hs' & Ho' & Hwt) | (v0 & b & Hr)].
    + destruct (N.eq_dec k' k) as [->|Hk'].
      * right. exists v, below.
        assert (Htop : In (k @: PRelease v) (stack_of s t)) by (rewrite Hst; now left).
        destruct (SI_hold _ _ I _ _ Htop eq_refl) as (st1 & Hs1 & Ho1). cbn in Hs1.
        assert (u0 = t) by congruence. subst u0. now rewrite stack_self.
      * left. exists st0. rewrite Hs, updN_other; auto.
    + right. exists v0, b. rewrite stack_other; auto. intros ->. congruence.
  - (* R_unblock *)
    destruct (Run _ _ _ Hst ltac:(discriminate)) as [He Hw'].
    pose proof (reachable_Inv _ _ (LI_reach _ L)) as [[G D ND W] _].
    assert (Dk : forall x, In x (qdeps (dg (c_proto s)) k) <-> exists u0, edges (dg (c_proto s)) x = Some (u0, k)).
    { intros x. apply D. }
    assert (Htq : ~ In t (qdeps (dg (c_proto s)) k)).
    { intros Hin. apply Dk in Hin as [u0 Hu0]. congruence. }
    unfold WaitGoal. cbn [u_proto]. rewrite Hs.
    split; [|split; [|split]].
    + intros x u0 k' Hx.
      destruct (in_dec N.eq_dec x (qdeps (dg (c_proto s)) k)) as [Hq|Hq].
      * destruct (HA _ Hq) as [E _]. congruence.
      * destruct (HB _ Hq) as [E _]. rewrite E in Hx.
        assert (x <> t) by congruence. rewrite stack_other by auto. eapply LI_edge; eauto.
    + intros x r Hx.
      destruct (in_dec N.eq_dec x (qdeps (dg (c_proto s)) k)) as [Hq|Hq].
      * assert (x <> t) by (intros ->; contradiction). rewrite stack_other by auto.
        apply Dk in Hq as [u0 Hu0]. destruct (LI_edge _ L _ _ _ Hu0) as [b Hb]. eauto.
      * destruct (HB _ Hq) as [_ E]. rewrite E in Hx.
        assert (x <> t) by congruence. rewrite stack_other by auto. eapply LI_wres; eauto.
    + intros x k0 b Hx. destruct (N.eq_dec x t) as [->|Hxt].
      * rewrite stack_self in Hx. cbn in Hx. exfalso. eapply below_not_wait; eauto.
      * rewrite stack_other in Hx by auto.
        destruct (in_dec N.eq_dec x (qdeps (dg (c_proto s)) k)) as [Hq|Hq].
        -- right. destruct (HA _ Hq) as [_ E]. eauto.
        -- destruct (HB _ Hq) as [E1 E2]. rewrite E1, E2. eapply LI_wait; eauto.
    + intros x u0 k' Hx.
      destruct (in_dec N.eq_dec x (qdeps (dg (c_proto s)) k)) as [Hq|Hq].
      * destruct (HA _ Hq) as [E _]. congruence.
      * destruct (HB _ Hq) as [E _]. rewrite E in Hx.
        assert (k' <> k). { intros ->. apply Hq. apply Dk. eauto. }
        destruct (LI_target _ L _ _ _ Hx) as [Hl | (v0 & b & Hr)]; [now left|].
        right. exists v0, b. rewrite stack_other; auto. intros ->. rewrite Hst in Hr. congruence.
Qed.

(* ---------------- all steps ---------------- *)

Lemma live_init : LiveInv cinit.
Proof.
  constructor; cbn; try (intros; discriminate); auto.
  - apply reach_init.
  - intros t. constructor.
  - intros t f d [].
Qed.

Lemma live_tstep s t c s' :
  ranked -> SafeInv P s -> LiveInv s -> tstep fuel P s t c = Some s' -> LiveInv s'.
Proof.
  intros RK I L H. destruct (tstep_path _ _ _ _ _ _ I H) as (Ht & u & Hp & ->).
  destruct (pres_wait s t u I L Hp) as (W1 & W2 & W3 & W4).
  constructor; auto.
  - now apply (pres_reach s t u).
  - intros t'. cbn. unfold updN. destruct (t =? t'); [cbn; eapply struct_cycle; eauto | apply L].
  - intros t' top below. rewrite stack_apply. destruct (t =? t');
      [eapply struct_shape; eauto | apply (LI_shape _ L)].
  - intros t'. rewrite stack_apply. destruct (t =? t');
      [eapply struct_sorted; eauto | apply (LI_sorted _ L)].
  - intros t' f d Hin. apply in_stack_apply in Hin as [[_ Hin]|[-> Hin]];
      [eapply (LI_rest _ L); eauto | eapply struct_rest; eauto].
  - cbn. eapply struct_mdeps; eauto.
Qed.

Lemma live_gstep s o s' :
  ranked -> SafeInv P s -> LiveInv s -> gstep fuel P s o = Some s' -> LiveInv s'.
Proof.
  intros RK I L. destruct o as [t c | | t ks]; cbn [gstep].
  - now apply live_tstep.
  - destruct (forallb _ _); [|discriminate]. intros [= <-]. destruct L. constructor; auto.
  - destruct (idleb (c_thr s t)) eqn:Ei; [|discriminate]. intros [= <-].
    apply idleb_spec in Ei as (Es & Et & Ec).
    assert (E : forall t', stack_of (mkC (c_cur s) (c_memo s) (c_proto s)
                  (updN (c_thr s) t (mkT [] ks false))
                  (if mem t (c_tids s) then c_tids s else t :: c_tids s) (c_log s)) t' = stack_of s t').
    { intros t'. unfold stack_of. cbn. unfold updN. destruct (N.eqb_spec t t') as [<-|]; auto. }
    destruct L as [R C SH SO RE MD ED WR WT TG].
    constructor; cbn [c_proto c_memo]; auto.
    + intros t'. cbn. unfold updN. destruct (t =? t'); [reflexivity | apply C].
    + intros t'. rewrite E. apply SH.
    + intros t'. rewrite E. apply SO.
    + intros t'. rewrite E. apply RE.
    + intros t' u0 k. rewrite E. apply ED.
    + intros t' r. setoid_rewrite E. apply WR.
    + intros t' k below. rewrite E. apply WT.
    + intros x u0 k Hx. destruct (TG _ _ _ Hx) as [Hl|Hr]; [now left|]. right. now setoid_rewrite E.
Qed.

Lemma creach_inv s : ranked -> creach fuel P s -> SafeInv P s /\ LiveInv s.
Proof.
  intros RK. induction 1 as [|s o s' HR [I L] Hs].
  - split; [apply safe_init | apply live_init].
  - split; [eapply safe_gstep; eauto | eapply live_gstep; eauto].
Qed.

(* ---------------- progress ---------------- *)

Lemma blocked_in_tids s x :
  SafeInv P s -> LiveInv s -> edges (dg (c_proto s)) x <> None -> In x (c_tids s).
Proof.
  intros I L He. destruct (in_dec N.eq_dec x (c_tids s)) as [Hin|Hin]; auto. exfalso.
  destruct (edges (dg (c_proto s)) x) as [[u k]|] eqn:E; [|congruence].
  destruct (LI_edge _ L _ _ _ E) as [b Hb]. unfold stack_of in Hb.
  rewrite (SI_dom _ _ I _ Hin) in Hb. discriminate.
Qed.

(* a thread that is not finished and not blocked can take a step *)
Lemma running_enabled s t :
  SafeInv P s -> LiveInv s -> (length (c_tids s) < fuel)%nat ->
  In t (c_tids s) -> doneb (c_thr s t) = false -> edges (dg (c_proto s)) t = None ->
  exists c s', tstep fuel P s t c = Some s'.
Proof.
  intros I L Hf Ht Hd He.
  pose proof (reachable_Inv _ _ (LI_reach _ L)) as [EI _].
  pose proof (E_grounded _ _ _ EI) as G.
  assert (Dom : forall x, edges (dg (c_proto s)) x <> None -> In x (c_tids s))
    by (intros x; now apply blocked_in_tids).
  assert (Hmem : mem t (c_tids s) = true) by now apply mem_In.
  unfold tstep. rewrite Hmem. unfold step_thread. rewrite (LI_cycle _ L t).
  unfold doneb in Hd.
  destruct (th_stack (c_thr s t)) as [|[k ph] below] eqn:Est.
  { destruct (th_todo (c_thr s t)); [discriminate|]. exists true. cbn. eauto. }
  cbn [f_key f_phase]. unfold step_frame.
  assert (Hst : stack_of s t = (k @: ph) :: below) by exact Est.
  destruct ph as [| | | |l|l|v|v].
  - exists true. destruct (c_memo s k) as [m|]; [|cbn; eauto].
    destruct (m_ver m =? c_cur s); [cbn; eauto|]. destruct (true && valid_now P s k m); cbn; eauto.
  - destruct (claim_total fuel (c_proto s) (c_tids s) t k true (SI_only _ _ I) G Dom Hf)
      as (pr1 & r & Hcl).
    exists true. rewrite Hcl.
    destruct (claim_cases _ _ _ _ _ _ _ (SI_only _ _ I) Hcl) as (Hdg & Hc).
    destruct r as [md|o|inner]; [cbn; eauto | | cbn; eauto].
    destruct Hc as [(_ & ? & _) | (st & u0 & _ & _ & _ & [[? _]|(Hr & Hne & Hnr)])]; try discriminate.
    injection Hr as <-.
    assert (Hb : exists pr2, Model.step fuel pr1 (OBlockOn t k o) = ROk (pr2, XBlock BBlocked)).
    { apply (block_total fuel pr1 (c_tids s) t k o); rewrite ?Hdg; auto. }
    destruct Hb as [pr2 Hbl]. rewrite Hbl. cbn. eauto.
  - destruct (LI_wait _ L _ _ _ Hst) as [[u0 Hu0] | [r Hr]]; [congruence|].
    destruct (receive_total fuel (c_proto s) t r EI Hr) as [pr1 Hrc].
    exists true. rewrite Hrc. cbn. eauto.
  - exists true. destruct (c_memo s k) as [m|]; [|cbn; eauto].
    destruct (m_ver m =? c_cur s); cbn; eauto.
  - exists true. destruct l as [|d rest]; [|cbn; eauto].
    destruct (c_memo s k) as [m|]; [|cbn; eauto]. destruct (true && valid_now P s k m); cbn; eauto.
  - exists true. destruct l; cbn; eauto.
  - assert (Htop : In (k @: PRelease v) (stack_of s t)) by (rewrite Hst; now left).
    destruct (SI_hold _ _ I _ _ Htop eq_refl) as (st & Hs & Ho). cbn in Hs.
    destruct (remove_total fuel (c_proto s) t k st Hs) as [pr1 Hrm].
    exists true. rewrite Hrm.
    destruct (SI_only _ _ I _ _ Hs) as (u0 & _ & Htw & Htg).
    destruct (release_script_cases t k st Htw Htg) as [[_ ->] | [_ ->]]; cbn; eauto.
  - destruct (unblock_total fuel (c_proto s) t k Completed EI) as [pr1 Hub].
    exists true. rewrite Hub. cbn. eauto.
Qed.

(* C16, deadlock freedom: as long as some handle is not finished, some handle can step *)
Theorem some_thread_can_step s :
  ranked -> creach fuel P s -> (length (c_tids s) < fuel)%nat ->
  (exists t, In t (c_tids s) /\ doneb (c_thr s t) = false) ->
  exists t c s', In t (c_tids s) /\ tstep fuel P s t c = Some s'.
Proof.
  intros RK HR Hf (t0 & Ht0 & Hd0). destruct (creach_inv _ RK HR) as [I L].
  pose proof (reachable_Inv _ _ (LI_reach _ L)) as [EI _].
  pose proof (E_grounded _ _ _ EI) as G.
  destruct (edges (dg (c_proto s)) t0) as [[u0 k0]|] eqn:E0.
  - (* t0 is blocked: follow the wait chain to its root *)
    destruct (someone_runs _ G t0) as (r & Hr & Hroot).
    assert (Hroot' : edges (dg (c_proto s)) r = None).
    { unfold eproj, eproj_f in Hroot. destruct (edges (dg (c_proto s)) r); [discriminate | auto]. }
    (* the root is the target of an edge, hence owns a frame *)
    assert (Hlast : exists x k, edges (dg (c_proto s)) x = Some (r, k)).
    { clear -Hr E0 Hroot'. revert u0 k0 E0. induction Hr as [x | x y z Hxy Hr IH]; intros u0 k0 E0.
      - congruence.
      - unfold eproj, eproj_f in Hxy. rewrite E0 in Hxy. cbn in Hxy. injection Hxy as <-.
        destruct (edges (dg (c_proto s)) u0) as [[u1 k1]|] eqn:E1.
        + eapply IH; eauto.
        + inversion Hr; subst; [eauto|].
          unfold eproj, eproj_f in H. rewrite E1 in H. discriminate. }
    destruct Hlast as (x & k & Hx).
    destruct (target_frame _ _ _ _ I L Hx) as (f & Hin & _).
    assert (Hrt : In r (c_tids s)).
    { destruct (in_dec N.eq_dec r (c_tids s)) as [H|H]; auto. exfalso.
      unfold stack_of in Hin. rewrite (SI_dom _ _ I _ H) in Hin. destruct Hin. }
    assert (Hrd : doneb (c_thr s r) = false).
    { unfold doneb. unfold stack_of in Hin. destruct (th_stack (c_thr s r)); [destruct Hin | reflexivity]. }
    destruct (running_enabled s r I L Hf Hrt Hrd Hroot') as (c & s' & Hs). eauto.
  - destruct (running_enabled s t0 I L Hf Ht0 Hd0 E0) as (c & s' & Hs). eauto.
Qed.

(* C16: try_claim never answers Cycle, no handle is ever parked *)
Theorem never_cycle s t : ranked -> creach fuel P s -> th_cycle (c_thr s t) = false.
Proof. intros RK HR. destruct (creach_inv _ RK HR) as [_ L]. apply (LI_cycle _ L). Qed.

(* C16: the protocol state of every reachable CFetch state is a reachable Proto state, so all
   of C19 applies to it *)
Theorem proto_reachable s : ranked -> creach fuel P s -> reachable fuel (c_proto s).
Proof. intros RK HR. destruct (creach_inv _ RK HR) as [_ L]. apply (LI_reach _ L). Qed.

(* C16, no lost wake-up, part 1: whoever is blocked waits for a key whose holder knows it
   (anyone_waiting is set) or whose former holder is about to unblock it *)
Theorem blocked_has_releaser s x u k :
  ranked -> creach fuel P s -> edges (dg (c_proto s)) x = Some (u, k) ->
  (exists below, stack_of s x = (k @: PWait) :: below) /\
  ((exists st f, sync (c_proto s) k = Some st /\ ss_id st = OThread u /\ ss_waiting st = true /\
                 In f (stack_of s u) /\ f_key f = k /\ holding (f_phase f) = true) \/
   (exists v below, stack_of s u = (k @: PUnblock v) :: below)).
Proof.
  intros RK HR Hx. destruct (creach_inv _ RK HR) as [I L]. split; [eapply LI_edge; eauto|].
  destruct (LI_target _ L _ _ _ Hx) as [(st & Hs & Ho & Hw) | Hr]; [|now right].
  left. destruct (SI_owner _ _ I _ _ _ Hs Ho) as (f & Hin & Hk & Hh). exists st, f. repeat split; auto.
Qed.

(* part 2: the unblock step wakes every thread blocked on the key, with Completed *)
Theorem unblock_wakes_all_waiters s t c s' k1 v1 below1 :
  ranked -> creach fuel P s -> stack_of s t = (k1 @: PUnblock v1) :: below1 ->
  tstep fuel P s t c = Some s' ->
  forall x u, edges (dg (c_proto s)) x = Some (u, k1) ->
    edges (dg (c_proto s')) x = None /\ wres (dg (c_proto s')) x = Some Completed.
Proof.
  intros RK HR Hst1 Hstep x u0 Hx. destruct (creach_inv _ RK HR) as [I L].
  destruct (tstep_path _ _ _ _ _ _ I Hstep) as (Ht & u & Hp & ->).
  pose proof (reachable_Inv _ _ (LI_reach _ L)) as [[G D ND W] _].
  assert (Hq : In x (qdeps (dg (c_proto s)) k1)) by (apply D; eauto).
  dpath Hp; rewrite Hst1 in Hst; try discriminate.
  - injection Hst as _ <- _. destruct Hph as [[? _]|[? ?]]; discriminate.
  - injection Hst as <- <- <-. cbn. now apply HA.
Qed.

End Live.

(* Cycle/EpochInv.v — the epoch invariant of the Cycle model (for C15): every stamp the fixpoint
   loop can meet is a well-formed stamp of the current cancellation epoch.  Definitions and the
   lemmas about replacing one memo.  No restriction on programs, strategies or histories. *)
From Coq Require Import PeanoNat.
From Salsa Require Import Base.
From Salsa.gen Require Import Kernels.
From Salsa.Kern Require Import CoreK K4_Stamp.
From Salsa.Cycle Require Import StampK Model ModelProofs.

Class ectx : Type := { eprog : qkey -> body; estrat : N -> strategy; ecinit : qkey -> val }.

(* ---------------------------------------------------------------- stamps *)
Lemma stamp_default_wf : stamp_wf stamp_default.
Proof. unfold stamp_wf, stamp_default, stamp_iteration, MAX_ITERATIONS. cbn. lia. Qed.

Lemma stamp_initial_wf c : c < 256 -> stamp_wf (stamp_initial c) /\ stamp_ccount (stamp_initial c) = c.
Proof.
  intros Hc. destruct (k_stamp_initial_parts c Hc) as [Hi Hcc].
  unfold stamp_wf, stamp_initial, stamp_ccount, stamp_iteration, MAX_ITERATIONS.
  rewrite Hi, Hcc, k_MAX_ITERATIONS_val. split; [split; [| lia] | reflexivity].
  unfold k_stamp_initial. apply k_stamp_new_range; lia.
Qed.

Lemma stamp_ccount_default : stamp_ccount stamp_default = 0.
Proof. reflexivity. Qed.

Section Epoch.
Context {E : ectx}.
Notation prog := (@eprog E).
Notation strat := (@estrat E).
Notation cinit := (@ecinit E).

Definition rcv (q : qkey) : Prop := recovers (strat_of strat q) = true.

(* a memo of the current revision and cancellation epoch *)
Definition cur_memo (s : cdb) (m : cmemo) : Prop :=
  cm_verified m = ccur s /\ stamp_ccount (iter_of m) = c_ccount s.

(* what the memo of a cycle head may be: final, poisoned, or current *)
Definition head_memo_ok (s : cdb) (mh : cmemo) : Prop :=
  cm_final mh = true \/ cm_val mh = None \/ cur_memo s mh.

Definition hd_ok (s : cdb) (hd : head) : Prop :=
  stamp_wf (snd hd) /\ stamp_ccount (snd hd) = c_ccount s /\ rcv (fst hd) /\
  exists mh, c_memo s (fst hd) = Some mh /\ head_memo_ok s mh.

Definition heads_ok (s : cdb) (hs : list head) : Prop := forall hd, In hd hs -> hd_ok s hd.

Record memo_si (s : cdb) (m : cmemo) : Prop := {
  ms_wf : stamp_wf (iter_of m);
  ms_ver : cm_verified m <= ccur s;
  ms_cc : cm_final m = false -> cm_verified m = ccur s -> stamp_ccount (iter_of m) <= c_ccount s;
  ms_ne : cm_final m = false -> raw_heads m <> [];
  ms_heads : cur_memo s m -> cm_final m = false -> heads_ok s (raw_heads m)
}.

Definition SI (s : cdb) : Prop :=
  c_ccount s < 256 /\ forall p m, c_memo s p = Some m -> memo_si s m.

(* a good maximum: nothing met yet, or a stamp of this epoch *)
Definition goodst (s : cdb) (x : stamp) : Prop :=
  x = stamp_default \/ (stamp_wf x /\ stamp_ccount x = c_ccount s).

Lemma goodst_max s a b : goodst s a -> goodst s b -> goodst s (N.max a b).
Proof.
  intros [-> | [Ha Hca]] [-> | [Hb Hcb]].
  - left. reflexivity.
  - right. unfold stamp_default. rewrite N.max_0_l. now split.
  - right. unfold stamp_default. rewrite N.max_0_r. now split.
  - right. destruct (stamp_max_wf a b Ha Hb) as (Hw & Hc & _); [congruence |]. split; [exact Hw | congruence].
Qed.

(* ---------------------------------------------------------------- how states evolve inside one Get *)
Definition ext (s s' : cdb) : Prop :=
  ccur s' = ccur s /\ c_ccount s' = c_ccount s /\
  forall h mh, c_memo s h = Some mh -> rcv h -> head_memo_ok s mh ->
    exists mh', c_memo s' h = Some mh' /\ head_memo_ok s' mh'.

Lemma ext_refl s : ext s s.
Proof. split; [reflexivity |]. split; [reflexivity |]. intros h mh Hm _ Hok. now exists mh. Qed.

Lemma ext_trans s1 s2 s3 : ext s1 s2 -> ext s2 s3 -> ext s1 s3.
Proof.
  intros (A1 & A2 & A3) (B1 & B2 & B3). split; [congruence |]. split; [congruence |].
  intros h mh Hm Hr Hok. destruct (A3 h mh Hm Hr Hok) as (mh' & Hm' & Hok'). now apply (B3 h mh').
Qed.

Lemma hd_ok_ext s s' hd : ext s s' -> hd_ok s hd -> hd_ok s' hd.
Proof.
  intros (A1 & A2 & A3) (Hw & Hc & Hr & mh & Hm & Hok).
  split; [exact Hw |]. split; [congruence |]. split; [exact Hr |]. now apply (A3 _ mh).
Qed.

Lemma heads_ok_ext s s' hs : ext s s' -> heads_ok s hs -> heads_ok s' hs.
Proof. intros He H hd Hin. apply (hd_ok_ext s s' hd He), H, Hin. Qed.

Lemma goodst_ext s s' x : ext s s' -> goodst s x -> goodst s' x.
Proof. intros (_ & A2 & _) [-> | [Hw Hc]]; [now left | right; split; [exact Hw | congruence]]. Qed.

(* states that differ outside the memo table, the revision and the cancellation count *)
Definition same_core (s s' : cdb) : Prop :=
  c_memo s' = c_memo s /\ c_revs s' = c_revs s /\ c_ccount s' = c_ccount s.

Lemma same_core_refl s : same_core s s.
Proof. now repeat split. Qed.

Lemma same_core_trans s1 s2 s3 : same_core s1 s2 -> same_core s2 s3 -> same_core s1 s3.
Proof. intros (A1 & A2 & A3) (B1 & B2 & B3). repeat split; congruence. Qed.

Lemma same_core_SI s s' : same_core s s' -> SI s -> SI s' /\ ext s s'.
Proof.
  intros (Hm & Hr & Hc) HS.
  assert (Hcur : ccur s' = ccur s) by (unfold ccur; now rewrite Hr).
  assert (Hcm : forall m, cur_memo s' m <-> cur_memo s m).
  { intros m. unfold cur_memo. rewrite Hcur, Hc. reflexivity. }
  assert (Hho : forall m, head_memo_ok s' m <-> head_memo_ok s m).
  { intros m. unfold head_memo_ok. rewrite Hcm. reflexivity. }
  assert (Hhd : forall hd, hd_ok s hd -> hd_ok s' hd).
  { intros hd (Hw & Hcc & Hrc & mh & Hmh & Hok). split; [exact Hw |]. split; [congruence |].
    split; [exact Hrc |]. exists mh. split; [now rewrite Hm | now apply Hho]. }
  split.
  - destruct HS as [Hlt Hall]. split; [congruence |]. intros p m Hp. rewrite Hm in Hp.
    destruct (Hall p m Hp) as [H1 H2 H3 H4 H5]. constructor.
    + exact H1.
    + now rewrite Hcur.
    + rewrite Hcur, Hc. exact H3.
    + exact H4.
    + intros Hcu Hf hd Hin. apply Hhd. apply H5; [now apply Hcm | exact Hf | exact Hin].
  - split; [exact Hcur |]. split; [exact Hc |]. intros h mh Hmh _ Hok. exists mh.
    split; [now rewrite Hm | now apply Hho].
Qed.

(* ---------------------------------------------------------------- replacing one memo *)
Definition put (s : cdb) (q : qkey) (m : cmemo) : cdb := cset_memo s (upd (c_memo s) q (Some m)).

Lemma put_ext s q m : (rcv q -> head_memo_ok s m) -> ext s (put s q m).
Proof.
  intros Hq. split; [reflexivity |]. split; [reflexivity |].
  intros h mh Hm Hr Hok. cbn. unfold upd. destruct (key_eqb_spec q h) as [<- | Hne].
  - exists m. split; [reflexivity | now apply Hq].
  - exists mh. split; [exact Hm | exact Hok].
Qed.

Lemma put_SI s q m :
  SI s -> stamp_wf (iter_of m) -> cm_verified m <= ccur s ->
  (cm_final m = false -> cm_verified m = ccur s -> stamp_ccount (iter_of m) <= c_ccount s) ->
  (cm_final m = false -> raw_heads m <> []) ->
  (cur_memo s m -> cm_final m = false -> heads_ok (put s q m) (raw_heads m)) ->
  (rcv q -> head_memo_ok s m) ->
  SI (put s q m) /\ ext s (put s q m).
Proof.
  intros [Hlt Hall] Hwf Hver Hcc Hnonempty Hheads Hq.
  assert (He := put_ext s q m Hq). split; [| exact He].
  split; [exact Hlt |]. intros p mp Hp. cbn in Hp. unfold upd in Hp.
  destruct (key_eqb_spec q p) as [<- | Hne].
  - injection Hp as <-. constructor; assumption.
  - destruct (Hall p mp Hp) as [H1 H2 H3 H4 H5]. constructor; try assumption.
    intros Hcu Hf. apply (heads_ok_ext s _ _ He). now apply H5.
Qed.

Lemma head_memo_ok_put s q m m' : head_memo_ok s m' -> head_memo_ok (put s q m) m'.
Proof. intros H. exact H. Qed.

Lemma hd_ok_put_self s q m it :
  stamp_wf it -> stamp_ccount it = c_ccount s -> rcv q -> head_memo_ok s m -> hd_ok (put s q m) (q, it).
Proof.
  intros Hw Hc Hr Hok. split; [exact Hw |]. split; [exact Hc |]. split; [exact Hr |].
  exists m. split; [cbn; unfold upd; now rewrite key_eqb_refl | exact Hok].
Qed.

End Epoch.

(* Cycle/FbFetch.v — (fallback cycles, C13_fresh) fetch under the fresh-revision invariant, for every
   fuel level. *)
From Coq Require Import PeanoNat.
From Salsa Require Import Base.
From Salsa.Kern Require Import CoreK.
From Salsa.Core Require Import Spec.
From Salsa.Cycle Require Import StampK Model Spec SpecProofs FallbackProofs Cert FreshBase FbSem FbInv FbOps FbExec
     FbRound FbLoop.

Section Fetch.
Context {C : bctx}.
Notation prog := (@fprog C).
Notation strat := (@fstrat C).
Notation cinit := (@fcinit C).
Notation ns := (@fns C).
Notation lvl := (@flvl C).
Notation nxt := (@fnxt C).
Notation SV := (spec_fallback prog sn cinit ns).
Notation cyc := (cycn prog sn ns).
Notation sc := (succs prog sn).

(* memo tables that only gain entries *)
Lemma done_grow s s' : (forall p m, c_memo s p = Some m -> c_memo s' p = Some m) ->
  forall d, done s d -> done s' d.
Proof.
  intros Hg d (m & Hm & Hd). exists m. split; [now apply Hg |].
  destruct Hd as [Hf | (h & it & mh & Hp & Hmh & Hr)]; [now left |].
  right. exists h, it, mh. split; [exact Hp |]. split; [now apply Hg | exact Hr].
Qed.

Lemma partat_grow s s' : (forall p m, c_memo s p = Some m -> c_memo s' p = Some m) ->
  forall d h it, partat s d h it -> partat s' d h it.
Proof. intros Hg d h it (m & Hm & Hp). exists m. split; [now apply Hg | exact Hp]. Qed.

Lemma callable_ns st s d : Inv st st s -> callable st d -> In d ns.
Proof.
  intros HI Hc. destruct st as [| q r]; [exact Hc |].
  apply (Hcalls q d); [apply (iv_incl _ _ _ HI); now left | exact Hc].
Qed.

Lemma rho_done st s d : Inv st st s -> done s d -> rho_of st s d = SV d.
Proof. reflexivity. Qed.

(* levels on the stack are at least the level of the top *)
Lemma stack_level_ge st s q r h : Inv st st s -> st = q :: r -> In h st -> (lvl q <= lvl h)%nat.
Proof.
  intros HI Hst Hh. assert (Hm := chain_mono _ (iv_incl _ _ _ HI) (iv_chain _ _ _ HI)).
  rewrite Hst in *. destruct Hh as [<- | Hh]; [lia |]. destruct Hm as [Hm _]. now apply Hm.
Qed.

Definition memo_post (st : list qkey) (s : cdb) (d : qkey) (s' : cdb) (m : cmemo) : Prop :=
  exists v, cm_val m = Some v /\ fetch_post st s d s' (v, cm_dur m, cm_changed m, heads_of m).

Lemma final_post st s s' d m :
  Inv st st s -> Inv st st s' -> pres st s s' -> c_memo s' d = Some m -> cm_final m = true ->
  (forall p, In p st -> c_memo s' p = c_memo s p) ->
  memo_post st s d s' m.
Proof.
  intros HI HI' Hp Hm Hf Hsame.
  assert (Hd : done s' d) by (exists m; split; [exact Hm | now left]).
  destruct (done_val _ _ _ _ HI' Hd) as (m1 & Hm1 & Hv & _). rewrite Hm in Hm1. injection Hm1 as <-.
  exists (SV d). split; [exact Hv |]. unfold fetch_post.
  split; [exact HI' |]. split; [exact Hp |].
  split; [apply (mo_chg _ _ _ _ (iv_memo _ _ _ HI' d m Hm)) |].
  split; [rewrite <- (rho_pres st s s' Hp d); symmetry; now apply rho_done |].
  left. split; [unfold heads_of; now rewrite Hf |]. split; [exact Hd | exact Hsame].
Qed.

(* the callee is on the stack: it becomes (or is) a cycle head *)
Lemma cold_callback st s d nn' L :
  Inv st st s -> callable st d -> In d st ->
  cwp (cfetch_cold prog strat cinit (S nn') L d) (memo_post st s d) s.
Proof.
  intros HI Hc Hd. destruct st as [| q r] eqn:Hst; [contradiction |]. cbn [callable] in Hc.
  rewrite <- Hst in *.
  unfold cfetch_cold. apply cwp_bind.
  eapply cwp_conseq; [apply (try_claim_held st st s d HI Hd) |].
  intros s1 c (-> & HI1 & Hm1).
  assert (Hd1 : In d (sc q)) by exact Hc.
  eapply cwp_conseq; [apply (fetch_cold_cycle_ok st st s1 q r d HI1 Hst Hd1 Hd) |].
  intros s2 m (HI2 & Hm2 & Hown & _ & Hoth & Hsome & Hnone).
  destruct (memo_val _ _ _ _ _ HI2 Hm2) as (v & Hv).
  exists v. split; [exact Hv |]. unfold fetch_post.
  assert (Hgrow : forall p mp, c_memo s p = Some mp -> c_memo s2 p = Some mp).
  { intros p mp Hp. rewrite <- Hm1 in Hp. destruct (key_eqb_spec p d) as [-> | Hne].
    - rewrite Hm2. f_equal. now apply Hsome.
    - now rewrite (Hoth p Hne). }
  assert (Hlvl : lvl d = lvl q).
  { destruct (stack_callback _ _ _ _ _ _ HI Hst Hd1 Hd) as (_ & _ & Hl). exact Hl. }
  assert (Hbot : botof lvl st = Some d).
  { apply (own_is_botof st q r Hst st s2 d m HI2 Hm2 Hown Hlvl). }
  assert (Hpres : pres st s s2).
  { split; [apply (done_grow s s2 Hgrow) |]. split; [intros p _ mp Hp; now apply Hgrow |].
    split.
    - intros p Hp Hn. rewrite <- Hm1 in Hn. destruct (key_eqb_spec p d) as [-> | Hne].
      + right. split; [exact Hbot |]. rewrite Hm2. f_equal. now apply Hnone.
      + left. now rewrite (Hoth p Hne).
    - intros x h it mh _ Hpa _ _ _. now apply (partat_grow s s2 Hgrow). }
  split; [exact HI2 |]. split; [exact Hpres |].
  split; [apply (mo_chg _ _ _ _ (iv_memo _ _ _ HI2 d m Hm2)) |].
  split.
  { unfold rho_of.
    destruct (kind_of_own _ _ _ _ (iv_memo _ _ _ HI2 d m Hm2) Hown) as (_ & _ & _ & _ & _ & _ & (Hcd & _) & Hvd).
    rewrite Hvd in Hv. injection Hv as <-. symmetry. now apply sv_cyc. }
  right. exists d, (cm_iter m), m. destruct (own_heads _ _ Hown) as [Hh _].
  split; [exact Hbot |]. split; [exact Hh |]. split; [exact Hm2 |]. split; [exact Hown |].
  split; [reflexivity | now left].
Qed.

Lemma pres_of_memo_eq st s s' : c_memo s' = c_memo s -> pres st s s'.
Proof. intros He. apply (pres_eq_r st s s s' He), pres_refl. Qed.

(* from what execute promises to what fetch promises *)
Lemma exec_to_memo_post st s s1 s' d m :
  Inv st st s -> ~ In d st -> c_memo s1 = c_memo s -> exec_post d st s1 s' m -> memo_post st s d s' m.
Proof.
  intros HI Hnd Hm1 (HI' & Hp' & Hm & Hchg & v & Hv & Hc).
  assert (Hp : pres st s s') by (apply (pres_trans _ _ _ _ (pres_of_memo_eq st s s1 Hm1) Hp')).
  destruct Hc as [(Hf & HvK & Hd & Hsame) | (b & it & mb & Hpart & Hbot & Hb & Hmb & Ho & Hit & HvK)].
  - apply (final_post st s s' d m HI HI' Hp Hm Hf). intros p Hpin. rewrite (Hsame p Hpin). now rewrite Hm1.
  - exists v. split; [exact Hv |]. unfold fetch_post.
    assert (Hbd : b <> d) by (intros ->; contradiction).
    assert (Hbot' : botof lvl st = Some b) by (apply (botof_pop d st b Hbot Hbd)).
    split; [exact HI' |]. split; [exact Hp |]. split; [exact Hchg |].
    split; [exact HvK |].
    right. exists b, it, mb. destruct (part_heads _ _ _ _ Hpart) as [Hh _].
    split; [exact Hbot' |]. split; [exact Hh |]. split; [exact Hmb |]. split; [exact Ho |].
    split; [exact Hit |]. right. exists m. split; [exact Hm | exact Hpart].
Qed.

Lemma cold_free st s d n nn' L :
  fetch_spec L n -> (length ns < S n + length st)%nat ->
  Inv st st s -> callable st d -> ~ In d st ->
  (forall m, c_memo s d = Some m -> cm_final m = false) ->
  cwp (cfetch_cold prog strat cinit (S nn') L d) (memo_post st s d) s.
Proof.
  intros HL Hfuel HI Hc Hnd Hnf.
  assert (Hdn : In d ns) by (eapply callable_ns; eassumption).
  assert (Hchain : chain (d :: st)).
  { assert (Hch := iv_chain _ _ _ HI). destruct st as [| q r]; [exact I |]. split; [exact Hc | exact Hch]. }
  unfold cfetch_cold. apply cwp_bind.
  eapply cwp_conseq; [apply (try_claim_free st st s d HI Hnd) |].
  intros s1 c (Hcl & HI1 & Hm1).
  assert (Hmode : exists mode, c = Claimed mode /\ (mode = RDefault \/ mode = RSelfOnly)).
  { destruct Hcl as [-> | ->]; eexists; split; try reflexivity; [now left | now right]. }
  destruct Hmode as (mode & -> & Hmode). apply cwp_on_panic. apply cwp_bind, cwp_get.
  (* the execution path *)
  assert (Hexec : forall s1', Inv (d :: st) st s1' -> c_memo s1' = c_memo s -> idle s1' d ->
            cwp (cexecute prog strat cinit (S nn') L d mode (c_memo s1 d)) (memo_post st s d) s1').
  { intros s1' HI1' Hm1' Hidle.
    assert (HIp : Inv (d :: st) (d :: st) s1') by (apply Inv_push; assumption).
    assert (Hnown : forall m, c_memo s1' d = Some m -> ~ own d m).
    { intros m Hm Ho. unfold idle in Hidle. rewrite Hm in Hidle. destruct Hidle as (h & it & mh & Hp & _).
      exact (own_not_part _ _ _ _ Ho Hp). }
    replace (c_memo s1 d) with (c_memo s1' d) by (now rewrite Hm1, Hm1').
    eapply cwp_conseq.
    - apply (cexecute_ok L n nn' d st s1' mode HL); [cbn [length]; lia | exact HIp | exact Hnown | exact Hmode].
    - intros s' m Hex. eapply exec_to_memo_post; eassumption. }
  destruct (c_memo s1 d) as [m |] eqn:Hm.
  - destruct (memo_val _ _ _ _ _ HI1 Hm) as (v0 & Hv0). rewrite Hv0.
    assert (Hms : c_memo s d = Some m) by (now rewrite <- Hm1).
    destruct (mo_kind _ _ _ _ (iv_memo _ _ _ HI1 d m Hm)) as [Hf | [Hk | Hk]].
    + destruct Hf as (Hf & _). rewrite (Hnf m Hms) in Hf. discriminate.
    + destruct Hk as (_ & (Hin & _) & _). contradiction.
    + destruct Hk as (h & it & mh & Hp & Hnp & Hmh & Hkind & Hle & _ & _ & Hlive & Hset).
      apply cwp_bind. apply cwp_bind.
      eapply cwp_conseq.
      { apply (cverify_part (d :: st) st s1 L d m h it mh HI1); [intros x Hx; now right | exact Hm | exact Hp | exact Hmh]. }
      intros s2 r (HI2 & Hcase). apply cwp_ret.
      destruct Hcase as [(Hfh & Hit & -> & Hu) | [(Hfh & Hit & -> & Hm2) | (Hne & Hfalse & Hm2)]]; cbn [fst snd].
      * (* settled: now final *)
        apply cwp_bind.
        eapply cwp_conseq; [apply (drop_guard_ok st st s2 d mode HI2 Hnd) |].
        { intros o Ho. destruct Hmode as [-> | ->]; discriminate. }
        intros s3 [] (HI3 & Hm3). apply cwp_ret.
        assert (Hgrow : forall p mp, p <> d -> c_memo s p = Some mp -> c_memo s3 p = Some mp).
        { intros p mp Hpd Hpm. rewrite Hm3, (mupd_other _ _ _ _ _ Hu Hpd), Hm1. exact Hpm. }
        assert (Hsame : forall p, In p st -> c_memo s3 p = c_memo s p).
        { intros p Hp'. rewrite Hm3, (mupd_other _ _ _ _ _ Hu), Hm1; [reflexivity | intros ->; contradiction]. }
        apply (final_post st s s3 d (with_final m true) HI HI3); [| rewrite Hm3; apply (mupd_same _ _ _ _ Hu) | reflexivity | exact Hsame].
        split.
        { intros x (mx & Hmx & Hdx). destruct (key_eqb_spec x d) as [-> | Hxd].
          - exists (with_final m true). split; [rewrite Hm3; apply (mupd_same _ _ _ _ Hu) | now left].
          - exists mx. split; [now apply Hgrow |].
            destruct Hdx as [Hfx | (hx & itx & mhx & Hpx & Hmhx & Hrx)]; [now left |].
            right. exists hx, itx, mhx. split; [exact Hpx |]. split; [| exact Hrx].
            apply Hgrow; [| exact Hmhx]. intros ->. rewrite Hms in Hmhx. injection Hmhx as <-.
            destruct Hrx as [Hrx _]. destruct Hp as (Hnfm & _). congruence. }
        split; [intros p Hp' mp Hpm; rewrite (Hsame p Hp'); exact Hpm |].
        split; [intros p Hp' Hpn; left; rewrite (Hsame p Hp'); exact Hpn |].
        intros x hx itx mhx Hhx (mx & Hmx & Hpx) Hmhx Hox Hitx.
        exists mx. split; [| exact Hpx]. apply Hgrow; [| exact Hmx].
        intros ->. rewrite Hms in Hmx. injection Hmx as <-.
        destruct (part_inj _ _ _ _ _ _ Hp Hpx) as [<- <-]. rewrite <- Hm1 in Hmhx. rewrite Hmh in Hmhx.
        injection Hmhx as <-. destruct Hox as (Hnfh & _). congruence.
      * (* live *)
        apply cwp_bind.
        eapply cwp_conseq; [apply (drop_guard_ok st st s2 d mode HI2 Hnd) |].
        { intros o Ho. destruct Hmode as [-> | ->]; discriminate. }
        intros s3 [] (HI3 & Hm3). apply cwp_ret.
        assert (Hm3s : c_memo s3 = c_memo s) by (now rewrite Hm3, Hm2, Hm1).
        assert (Hown : own h mh) by (destruct Hkind as [Ho | Hf]; [exact Ho | congruence]).
        destruct (Hlive Hit Hfh) as (Hv & _ & _).
        destruct (own_heads _ _ Hown) as [_ Hio].
        assert (Hhst : In h st) by (exact (own_in_stack _ _ _ _ _ HI1 Hmh Hown)).
        destruct st as [| q r] eqn:Hst; [contradiction |]. rewrite <- Hst in *.
        assert (Hlq : lvl h = lvl q).
        { assert (Hge := stack_level_ge st s q r h HI Hst Hhst).
          assert (Hlh := npath_lvl _ _ Hnp).
          assert (Hqs : In q st) by (rewrite Hst; now left).
          assert (Hc' : In d (sc q)) by (rewrite Hst in Hc; exact Hc).
          destruct (Hcalls q d (iv_incl _ _ _ HI q Hqs) Hc') as [_ [Hlt | Hn]]; [lia |].
          destruct (Hnxt q d Hn) as (He & _). lia. }
        assert (Hmhs : c_memo s h = Some mh) by (now rewrite <- Hm1).
        assert (Hbot : botof lvl st = Some h) by (apply (own_is_botof st q r Hst st s h mh HI Hmhs Hown Hlq)).
        exists (SV d). split; [exact Hv |]. unfold fetch_post.
        split; [exact HI3 |]. split; [now apply pres_of_memo_eq |].
        split; [apply (mo_chg _ _ _ _ (iv_memo _ _ _ HI1 d m Hm)) |].
        split; [reflexivity |].
        right. exists h, it, mh. destruct (part_heads _ _ _ _ Hp) as [Hh _].
        split; [exact Hbot |]. split; [exact Hh |]. split; [now rewrite Hm3s |]. split; [exact Hown |].
        split; [now rewrite <- Hio |]. right. exists m. split; [now rewrite Hm3s | exact Hp].
      * (* stale: execute *)
        destruct r as [b m']. cbn [fst] in Hfalse. subst b. cbn [fst].
        apply (Hexec s2 HI2); [now rewrite Hm2 |].
        unfold idle. rewrite Hm2, Hm. exists h, it, mh. split; [exact Hp |]. split; [exact Hmh | exact Hne].
  - apply cwp_bind, cwp_ret. apply (Hexec s1 HI1 Hm1). unfold idle. now rewrite Hm.
Qed.

Lemma in_st_dec (d : qkey) (st : list qkey) : In d st \/ ~ In d st.
Proof.
  induction st as [| a r IH]; [right; intros [] |].
  destruct (key_eqb_spec a d) as [-> | Hne]; [left; now left |].
  destruct IH as [H | H]; [left; now right | right; intros [Heq | Hin]; [congruence | contradiction]].
Qed.

Lemma cfetch_step L n nn' : fetch_spec L n ->
  forall st s d, Inv st st s -> callable st d -> (length ns < S n + length st)%nat ->
  cwp (cfetch prog strat cinit (S nn') L d) (fetch_post st s d) s.
Proof.
  intros HL st s d HI Hc Hfuel. unfold cfetch. apply cwp_bind.
  eapply cwp_conseq; [apply (cfetch_hot_ok st st s d HI) |].
  intros s1 hot (-> & ->).
  assert (Hfin : forall s' m, memo_post st s d s' m ->
            cwp (match cm_val m with
                 | Some v => cret (v, cm_dur m, cm_changed m, heads_of m)
                 | None => cassert
                 end) (fetch_post st s d) s').
  { intros s' m (v & Hv & Hpost). rewrite Hv. apply cwp_ret. exact Hpost. }
  assert (Hcold : cwp (cfetch_cold prog strat cinit (S nn') L d) (memo_post st s d) s ->
            cwp (m <- cfetch_cold prog strat cinit (S nn') L d ;;
                 match cm_val m with
                 | Some v => cret (v, cm_dur m, cm_changed m, heads_of m)
                 | None => cassert
                 end) (fetch_post st s d) s).
  { intros H. apply cwp_bind. eapply cwp_conseq; [exact H |]. exact Hfin. }
  assert (Hgo : (forall m, c_memo s d = Some m -> cm_final m = false) ->
            cwp (cfetch_cold prog strat cinit (S nn') L d) (memo_post st s d) s).
  { intros Hnf. destruct (in_st_dec d st) as [Hin | Hnin].
    - now apply cold_callback.
    - now apply (cold_free st s d n nn' L). }
  destruct (c_memo s d) as [m |] eqn:Hm.
  - destruct (cm_final m) eqn:Hf.
    + apply cwp_bind, cwp_ret. apply Hfin.
      apply (final_post st s s d m HI HI (pres_refl st s) Hm Hf). intros p _. reflexivity.
    + apply Hcold, Hgo. intros m' Hm'. injection Hm' as <-. exact Hf.
  - apply Hcold, Hgo. intros m' Hm'. discriminate.
Qed.

Lemma clevel_spec nn' : forall n, fetch_spec (clevel prog strat cinit (S nn') n) n.
Proof.
  induction n as [| n IH].
  - intros st s d HI _ Hfuel. exfalso.
    assert (H := NoDup_incl_length (iv_nd _ _ _ HI) (iv_incl _ _ _ HI)). cbn in Hfuel. lia.
  - intros st s d HI Hc Hfuel. cbn [clevel cl_fetch]. now apply (cfetch_step _ n nn' IH).
Qed.

End Fetch.

(* Cycle/HeadOps.v — the pieces of the Cycle model against the head-soundness invariant of
   Cycle/HeadInv.v: memo writers, the closure of cycle heads, flattening, fetch_cold_cycle. *)
From Coq Require Import PeanoNat Lia.
From Salsa Require Import Base.
From Salsa.Kern Require Import CoreK.
From Salsa.Core Require Import Spec.
From Salsa.Cycle Require Import StampK Model LockInv LockOps LockFetch HeadInv.

Section HeadOps.
Variable prog : qkey -> body.
Variable strat : N -> strategy.
Variable cinit : qkey -> val.
Notation reach := (reach prog).
Notation reachR := (reachR prog).
Notation cyc := (cyc prog).
Notation heads_hok := (heads_hok prog).
Notation edges_hok := (edges_hok prog).
Notation memo_hok := (memo_hok prog).
Notation rev_hok := (rev_hok prog).
Notation MH := (MH prog).
Notation KH := (KH prog).
Notation chn := (chn prog).
Notation req := (req prog).

Lemma awp_and {A} (m : CM A) (Q1 Q2 : A -> cdb -> Prop) (X1 X2 : cdb -> Prop) s :
  awp m Q1 X1 s -> awp m Q2 X2 s -> awp m (fun a s' => Q1 a s' /\ Q2 a s') (fun s' => X1 s' /\ X2 s') s.
Proof. unfold awp. destruct (m s) as [s' [a | p |]]; auto. Qed.

Lemma kh_quiet {A} (m : CM A) hl stk s : quiet m -> KH hl stk s ->
  awp m (fun _ s' => KH hl stk s') (KH hl stk) s.
Proof.
  intros Hm HK. eapply awp_conseq; [apply (awp_quiet prog m hl stk s Hm HK) | intros a s' [B _]; exact B | intros s' B; exact B].
Qed.

(* ---------------------------------------------------------------- field changes keep memo_hok *)
Lemma hok_with_verified p m r : memo_hok p m -> memo_hok p (with_verified m r).
Proof. intros H. exact H. Qed.
Lemma hok_with_final p m b : memo_hok p m -> memo_hok p (with_final m b).
Proof. intros H. exact H. Qed.
Lemma hok_with_iteration_count p m k it : memo_hok p m -> memo_hok p (with_iteration_count m k it).
Proof.
  intros [A B]. unfold with_iteration_count. destruct (cm_extra m) eqn:Ee; [| split; assumption].
  split; [exact A |]. cbn [cm_val]. intros Hv. unfold raw_heads. cbn [cm_extra cm_heads].
  apply heads_hok_update. specialize (B Hv). unfold raw_heads in B. rewrite Ee in B. exact B.
Qed.

(* ---------------------------------------------------------------- writers *)
Lemma put_hok q m hl stk s : KH hl stk s -> memo_hok q m ->
  awp (put_memo q m) (fun _ s' => KH hl stk s' /\ c_memo s' q = Some m) (KH hl stk) s.
Proof.
  intros HK Hm. unfold put_memo. apply awp_modify. split; [apply KH_put; assumption |]. cbn. apply upd_same.
Qed.

Lemma mark_verified_hok q m hl stk s : KH hl stk s -> memo_hok q m ->
  awp (cmark_verified q m) (fun m' s' => KH hl stk s' /\ memo_hok q m') (KH hl stk) s.
Proof.
  intros HK Hm. unfold cmark_verified. apply awp_bind, awp_get. apply awp_bind.
  eapply awp_conseq; [apply (kh_quiet _ hl stk s (quiet_emit _) HK) | | intros s' B; exact B].
  intros ? s1 HK1. apply awp_bind.
  eapply awp_conseq; [apply (put_hok q _ hl stk s1 HK1 (hok_with_verified q m _ Hm)) | | intros s' B; exact B].
  intros ? s2 [HK2 _]. apply awp_ret. split; [exact HK2 | exact Hm].
Qed.

Lemma update_shallow_hok q m u hl stk s : KH hl stk s -> memo_hok q m ->
  awp (cupdate_shallow q m u) (fun m' s' => KH hl stk s' /\ memo_hok q m') (KH hl stk) s.
Proof.
  intros HK Hm. destruct u; cbn [cupdate_shallow]; [apply awp_ret; split; assumption | apply mark_verified_hok; assumption | apply awp_ret; split; assumption].
Qed.

Lemma validate_provisional_hok q m hl stk s : KH hl stk s -> memo_hok q m ->
  awp (validate_provisional q m) (fun r s' => KH hl stk s' /\ memo_hok q (snd r)) (KH hl stk) s.
Proof.
  intros HK Hm. unfold validate_provisional. apply awp_bind, awp_get.
  destruct (heads_all_final s (cm_verified m) (heads_of m)); [| apply awp_ret; split; assumption].
  apply awp_bind. eapply awp_conseq; [apply (put_hok q _ hl stk s HK (hok_with_final q m true Hm)) | | intros s' B; exact B].
  intros ? s1 [HK1 _]. apply awp_ret. split; [exact HK1 | exact Hm].
Qed.

Lemma quiet_same_iteration_heads ver : forall hs, quiet (same_iteration_heads ver hs).
Proof.
  induction hs as [| h hs IH]; cbn [same_iteration_heads]; [apply quiet_ret |].
  apply quiet_bind; [apply quiet_peek_claim |]. intros pk. destruct pk; [apply quiet_ret |].
  apply quiet_bind; [apply quiet_get |]. intros s.
  destruct (key_status s (fst h)) as [[it v hs0 | it v | it v] |]; try apply quiet_fail.
  - destruct (negb (v =? ver)); [apply quiet_ret |]. destruct (negb (snd h =? it)); [apply quiet_ret | apply IH].
  - destruct ((v =? ccur s) && (stamp_ccount it =? c_ccount s)); [apply quiet_fail | apply quiet_ret].
  - destruct (negb (v =? ver)); [apply quiet_ret |]. destruct (negb (snd h =? it)); [apply quiet_ret | apply IH].
Qed.

Lemma quiet_vsi q m : quiet (validate_same_iteration q m).
Proof.
  unfold validate_same_iteration. apply quiet_bind; [apply quiet_get |]. intros s.
  destruct (negb (cm_verified m =? ccur s)); [apply quiet_ret |].
  destruct (heads_not_eq (heads_of m) q); [apply quiet_ret | apply quiet_same_iteration_heads].
Qed.

Lemma vmbp_hok q m hl stk s : KH hl stk s -> memo_hok q m ->
  awp (validate_may_be_provisional q m) (fun r s' => KH hl stk s' /\ memo_hok q (snd r)) (KH hl stk) s.
Proof.
  intros HK Hm. unfold validate_may_be_provisional.
  destruct (cm_final m); [apply awp_ret; split; assumption |].
  destruct (heads_of m); [apply awp_ret; split; assumption |].
  apply awp_bind, awp_get.
  destruct (negb (stamp_ccount (iter_of m) =? c_ccount s)); [apply awp_ret; split; assumption |].
  apply awp_bind. eapply awp_conseq; [apply (validate_provisional_hok q m hl stk s HK Hm) | | intros s' B; exact B].
  intros r s1 [HK1 Hr]. destruct (fst r); [apply awp_ret; split; assumption |].
  apply awp_bind. eapply awp_conseq; [apply (kh_quiet _ hl stk s1 (quiet_vsi q m) HK1) | | intros s' B; exact B].
  intros b s2 HK2. apply awp_ret. split; assumption.
Qed.

(* ---------------------------------------------------------------- the closure of cycle heads *)
Definition acc_hok (q : qkey) (acc : coll) : Prop := heads_hok q (fst (fst acc)).

Lemma collect_rec_hok s q qh : MH s ->
  forall n cur acc, reachR q cur -> acc_hok q acc ->
    exists r, collect_recursive n cur q qh acc s = (s, r) /\ forall acc', r = COk acc' -> acc_hok q acc'.
Proof.
  intros HM. induction n as [| n IH]; intros cur acc Hcur Hacc; cbn [collect_recursive].
  - eexists. split; [reflexivity | intros acc' H; discriminate].
  - destruct (key_eqb cur q).
    + destruct acc as [[missing mx] dep]. eexists. split; [reflexivity |]. intros acc' H. injection H as <-. exact Hacc.
    + unfold cbind at 1. unfold cget at 1. unfold key_status.
      destruct (c_memo s cur) as [mh |] eqn:Hmh; [| eexists; split; [reflexivity | intros acc' H; discriminate]].
      unfold status_of. destruct (cm_val mh) as [v |] eqn:Hv.
      2: { destruct (cm_final mh); (eexists; split; [reflexivity | intros acc' H; discriminate]). }
      destruct (cm_final mh) eqn:Hf; [eexists; split; [reflexivity | intros acc' H; discriminate] |].
      assert (Hhs : heads_hok q (heads_of mh)).
      { unfold heads_of. rewrite Hf. apply (heads_hok_reach prog q cur _ Hcur).
        apply (proj2 (HM cur mh Hmh)). congruence. }
      clear Hmh Hv.
      assert (Hgen : forall hs acc0, acc_hok q acc0 -> heads_hok q hs ->
                exists r,
                  (fix go (hs : list head) (acc : coll) : CM coll :=
                        match hs with
                        | [] => cret acc
                        | h :: hs' =>
                            let '(missing, mx, dep) := acc in
                            let mx1 := N.max mx (snd h) in
                            if heads_contains qh (fst h) then go hs' (missing, mx1, dep)
                            else if existsb (fun x => key_eqb (fst x) (fst h) && (snd x =? snd h)) missing
                                 then go hs' (missing, mx1, dep)
                            else acc' <- collect_recursive n (fst h) q qh (missing ++ [h], mx1, dep) ;;
                                 go hs' acc'
                        end) hs acc0 s = (s, r) /\
                forall acc', r = COk acc' -> acc_hok q acc').
      { induction hs as [| h hs IHhs]; intros acc0 Hacc0 Hhs0.
        - eexists. split; [reflexivity |]. intros acc' H. injection H as <-. exact Hacc0.
        - destruct acc0 as [[missing mx] dep].
          assert (Hh : reachR q (fst h) /\ cyc (fst h)) by (apply Hhs0; now left).
          assert (Hhs' : heads_hok q hs) by (intros x Hx; apply Hhs0; now right).
          cbv zeta. destruct (heads_contains qh (fst h)); [apply IHhs; assumption |].
          destruct (existsb (fun x => key_eqb (fst x) (fst h) && (snd x =? snd h)) missing); [apply IHhs; assumption |].
          unfold cbind at 1.
          destruct (IH (fst h) (missing ++ [h], N.max mx (snd h), dep)) as (r1 & Hr1 & Hres).
          { apply Hh. }
          { intros x Hx. cbn [fst] in Hx. apply in_app_or in Hx as [Hx | [<- | []]]; [apply Hacc0; exact Hx | exact Hh]. }
          rewrite Hr1. destruct r1 as [acc1 | p |]; try (eexists; split; [reflexivity | intros acc' H; discriminate]).
          apply IHhs; [apply Hres; reflexivity | exact Hhs']. }
      apply (Hgen (heads_of mh) acc Hacc Hhs).
Qed.

Lemma collect_hok n heads0 q hl stk s : KH hl stk s -> heads_hok q heads0 ->
  awp (collect_all_cycle_heads n heads0 q) (fun r s' => KH hl stk s' /\ heads_hok q (fst (fst r))) (KH hl stk) s.
Proof.
  intros HK Hh0. pose proof (proj2 (proj2 HK)) as HM.
  unfold collect_all_cycle_heads. apply awp_bind.
  match goal with |- awp (?g heads0 ?a0) _ _ s =>
    assert (Hgo : forall hs acc, incl hs heads0 -> acc_hok q acc ->
              exists r, g hs acc s = (s, r) /\ forall acc', r = COk acc' -> acc_hok q acc')
  end.
  { induction hs as [| h hs IH]; intros acc Hin Hacc.
    - eexists. split; [reflexivity |]. intros acc' H. injection H as <-. exact Hacc.
    - unfold cbind at 1.
      destruct (collect_rec_hok s q heads0 HM n (fst h) acc) as (r1 & Hr1 & Hres).
      { apply Hh0. apply Hin. left; reflexivity. }
      { exact Hacc. }
      rewrite Hr1. destruct r1 as [acc1 | p |]; try (eexists; split; [reflexivity | intros acc' H; discriminate]).
      apply IH; [intros x Hx; apply Hin; right; exact Hx | apply Hres; reflexivity]. }
  destruct (Hgo heads0 ([], stamp_default, false) (fun x Hx => Hx)) as (r & Hr & Hres).
  { intros x []. }
  unfold awp at 1. rewrite Hr.
  destruct r as [[[missing mx] dep] | p |]; [| exact HK | exact I].
  pose proof (Hres _ eq_refl) as Hm. unfold acc_hok in Hm. cbn [fst] in Hm.
  destruct (insert_missing heads0 missing) as [hs' |] eqn:Ei; [| apply awp_fail; exact HK].
  apply awp_ret. split; [exact HK |]. cbn [fst]. intros x Hx.
  destruct (insert_missing_in missing heads0 hs' Ei x Hx) as [A | A]; [apply Hh0; exact A | apply Hm; exact A].
Qed.

(* ---------------------------------------------------------------- flattening *)
Lemma fold_add_edges_hok q : forall es acc, edges_hok q acc -> edges_hok q es ->
  edges_hok q (fold_left (fun es0 e => add_edge es0 e) es acc).
Proof.
  induction es as [| e es IH]; intros acc Ha He; cbn [fold_left]; [exact Ha |].
  apply IH; [| intros d Hd; apply He; right; exact Hd].
  intros d Hd. apply In_add_edge' in Hd. destruct Hd as [Hd | Hd]; [apply Ha; exact Hd | apply He; left; now symmetry].
Qed.

Lemma flatten_fn_hok s q : MH s -> forall n d acc, reach q d -> edges_hok q (fst acc) ->
  edges_hok q (fst (flatten_fn strat n s d acc)).
Proof.
  intros HM. induction n as [| n IH]; intros d acc Hd Ha; cbn [flatten_fn]; [exact Ha |].
  destruct (c_memo s d) as [m |] eqn:Hm; [| exact Ha].
  destruct (cm_final m).
  { cbn [fst]. intros e He. apply In_add_edge' in He. destruct He as [He | He]; [apply Ha; exact He | injection He as ->; exact Hd]. }
  destruct (existsb (key_eqb d) (snd acc)); [exact Ha |].
  assert (Hme : edges_hok q (cm_edges m)).
  { intros e He. apply (reach_trans prog q d e Hd). apply (proj1 (HM d m Hm)). exact He. }
  destruct (recovers (strat_of strat d)).
  - cbn [fst snd]. apply fold_add_edges_hok; assumption.
  - generalize (fst acc, d :: snd acc) (Ha : edges_hok q (fst (fst acc, d :: snd acc))).
    revert Hme. generalize (cm_edges m). induction l as [| e es IHes]; intros Hes a Haa; cbn [fold_left]; [exact Haa |].
    apply IHes; [intros x Hx; apply Hes; right; exact Hx |].
    destruct e as [i | d'].
    + cbn [fst]. intros x Hx. apply In_add_edge' in Hx. destruct Hx as [Hx | Hx]; [apply Haa; exact Hx | discriminate].
    + apply IH; [apply Hes; left; reflexivity | exact Haa].
Qed.

Lemma flatten_edges_hok s q n es : MH s -> edges_hok q es -> edges_hok q (flatten_edges strat n s es).
Proof.
  intros HM He. unfold flatten_edges.
  assert (H : forall l a, edges_hok q l -> edges_hok q (fst a) ->
            edges_hok q (fst (fold_left (fun a e => match e with
                             | EIn _ => (add_edge (fst a) e, snd a)
                             | EQ d => flatten_fn strat n s d a
                             end) l a))).
  { induction l as [| e l IH]; intros a Hl Ha; cbn [fold_left]; [exact Ha |].
    apply IH; [intros x Hx; apply Hl; right; exact Hx |].
    destruct e as [i | d].
    - cbn [fst]. intros x Hx. apply In_add_edge' in Hx. destruct Hx as [Hx | Hx]; [apply Ha; exact Hx | discriminate].
    - apply (flatten_fn_hok s q HM); [apply Hl; left; reflexivity | exact Ha]. }
  apply H; [exact He | intros d []].
Qed.

(* ---------------------------------------------------------------- the other heads' memos *)
Lemma map_heads_hok f heads me hl stk s : KH hl stk s ->
  (forall p m, memo_hok p m -> memo_hok p (f p m)) ->
  awp (map_heads_memos f heads me) (fun _ s' => KH hl stk s') (KH hl stk) s.
Proof.
  intros (HK & Hc & HM) Hf. unfold map_heads_memos. apply awp_modify.
  split; [apply (K_sim hl stk s); [apply lksim_fields; reflexivity | exact HK] |]. split; [exact Hc |].
  unfold HeadInv.MH. cbn [c_memo cset_memo].
  generalize (heads_not_eq heads me). intros l. revert HM. unfold HeadInv.MH. generalize (c_memo s).
  induction l as [| h l IH]; intros mm Hmm; cbn [fold_left]; [exact Hmm |].
  apply IH. cbv beta. match goal with |- context [match ?x with _ => _ end] => destruct x as [m |] eqn:Em end; [| exact Hmm].
  intros p mp. unfold upd.
  match goal with |- context [if ?c then _ else _] => destruct c eqn:Ek end.
  - intros A. injection A as <-. apply key_eqb_eq in Ek. subst p. apply Hf. apply (Hmm _ m Em).
  - apply Hmm.
Qed.

Lemma poison_hok q hl stk s : KH hl stk s -> KH hl stk (fst (poison q s)).
Proof.
  intros HK. unfold poison. cbn [fst]. apply KH_put; [exact HK |].
  split; [intros d [] | intros Hv; exfalso; apply Hv; reflexivity].
Qed.

(* ---------------------------------------------------------------- re-entry *)
Lemma initial_hok q v now it : cyc q -> memo_hok q (initial_memo q v now it).
Proof.
  intros Hc. split; [intros d [] |]. intros _ h Hh. cbn in Hh. destruct Hh as [<- | []]. cbn [fst].
  split; [left; reflexivity | exact Hc].
Qed.

Lemma fetch_cold_cycle_hok q hl stk s : KH hl stk s -> cyc q ->
  awp (fetch_cold_cycle strat cinit q) (fun m s' => KH hl stk s' /\ memo_hok q m) (KH hl stk) s.
Proof.
  intros HK Hc. unfold fetch_cold_cycle. destruct (negb (recovers (strat_of strat q))); [apply awp_fail; exact HK |].
  apply awp_bind, awp_get.
  assert (Hf : forall it, awp (put_memo q (initial_memo q (Some (cinit q)) (ccur s) it) ;;;
                               cret (initial_memo q (Some (cinit q)) (ccur s) it))
                          (fun m s' => KH hl stk s' /\ memo_hok q m) (KH hl stk) s).
  { intros it. apply awp_bind.
    eapply awp_conseq; [apply (put_hok q _ hl stk s HK (initial_hok q _ _ it Hc)) | | intros s' B; exact B].
    intros ? s1 [HK1 _]. apply awp_ret. split; [exact HK1 | apply initial_hok; exact Hc]. }
  destruct (c_memo s q) as [m |] eqn:Em; [| apply Hf].
  destruct (cm_val m) eqn:Ev.
  - destruct ((cm_verified m =? ccur s) && (stamp_ccount (iter_of m) =? c_ccount s)); [| apply Hf].
    destruct (heads_contains (raw_heads m) q); [| apply Hf].
    pose proof (proj2 (proj2 HK) q m Em) as [Hme Hmh].
    match goal with |- awp (cbind (put_memo q ?mm) _) _ _ _ => assert (Hm' : memo_hok q mm) end.
    { destruct (cm_extra m) eqn:Ee; [| split; assumption]. split; [exact Hme |].
      intros _ h Hh. assert (Hv : cm_val m <> None) by congruence. unfold raw_heads in Hh. cbn [cm_extra cm_heads] in Hh.
      apply filter_In in Hh. destruct Hh as [Hh _]. apply (Hmh Hv). unfold raw_heads. rewrite Ee. exact Hh. }
    apply awp_bind. eapply awp_conseq; [apply (put_hok q _ hl stk s HK Hm') | | intros s' B; exact B].
    intros ? s1 [HK1 _]. apply awp_ret. split; [exact HK1 | exact Hm'].
  - destruct (negb (cm_final m) && (cm_verified m =? ccur s) && (stamp_ccount (iter_of m) =? c_ccount s));
      [apply awp_fail; exact HK | apply Hf].
Qed.

Lemma fetch_hot_hok q hl stk s : KH hl stk s ->
  awp (cfetch_hot q) (fun hot s' => KH hl stk s' /\ forall m, hot = Some m -> memo_hok q m) (KH hl stk) s.
Proof.
  intros HK. unfold cfetch_hot. apply awp_bind, awp_get.
  assert (Hn : awp (cret (@None cmemo)) (fun hot s' => KH hl stk s' /\ forall m, hot = Some m -> memo_hok q m) (KH hl stk) s).
  { apply awp_ret. split; [exact HK | intros m A; discriminate]. }
  destruct (c_memo s q) as [m |] eqn:Em; [| exact Hn].
  destruct (cm_val m); [| exact Hn].
  pose proof (proj2 (proj2 HK) q m Em) as Hm.
  assert (Hu : forall u, awp (if cm_final m then m' <- cupdate_shallow q m u ;; cret (Some m') else cret None)
                 (fun hot s' => KH hl stk s' /\ forall m0, hot = Some m0 -> memo_hok q m0) (KH hl stk) s).
  { intros u. destruct (cm_final m); [| exact Hn].
    apply awp_bind. eapply awp_conseq; [apply (update_shallow_hok q m u hl stk s HK Hm) | | intros s' B; exact B].
    intros m' s1 [HK1 Hm']. apply awp_ret. split; [exact HK1 |]. intros m0 A. injection A as <-. exact Hm'. }
  destruct (cshallow_verify s m); [apply Hu | apply Hu | exact Hn].
Qed.

(* ---------------------------------------------------------------- the outer cycle *)
Lemma quiet_find_claimed : forall hs, quiet (find_claimed_head hs).
Proof.
  induction hs as [| h hs IH]; cbn [find_claimed_head]; [apply quiet_ret |].
  apply quiet_bind; [apply quiet_peek_claim |]. intros pk. destruct pk as [| [|]]; try apply IH. apply quiet_ret.
Qed.

Lemma quiet_outer_cycle heads me : quiet (outer_cycle heads me).
Proof.
  unfold outer_cycle. apply quiet_bind; [apply quiet_get |]. intros s.
  destruct (find (fun k => negb (key_eqb k me) && heads_contains heads k) (List.rev (c_qstack s))); [apply quiet_ret | apply quiet_find_claimed].
Qed.

Lemma outer_cycle_hok heads me hl stk s : KH hl stk s ->
  awp (outer_cycle heads me) (fun o s' => KH hl stk s' /\ forall oc, o = Some oc -> In oc hl /\ oc <> me)
      (KH hl stk) s.
Proof.
  intros HK.
  pose proof (awp_and _ _ _ _ _ s (outer_cycle_ok heads me hl stk s (proj1 HK))
                (kh_quiet _ hl stk s (quiet_outer_cycle heads me) HK)) as H.
  eapply awp_conseq; [exact H | intros o s' [[_ A] B]; split; assumption | intros s' [_ B]; exact B].
Qed.

End HeadOps.

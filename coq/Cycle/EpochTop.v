(* Cycle/EpochTop.v — the epoch invariant holds of every reachable state of the Cycle model (all
   programs, strategies and histories); consequences for the fixpoint loop (C15): the maximum a
   trip reports is a stamp of the loop's own epoch (or nothing), so the loop's counter is bounded. *)
From Coq Require Import PeanoNat.
From Salsa Require Import Base.
From Salsa.gen Require Import Kernels.
From Salsa.Kern Require Import CoreK K4_Stamp.
From Salsa.Cycle Require Import StampK Model ModelProofs EpochInv EpochOps EpochRound EpochFetch.

Section Top.
Context {E : ectx}.
Notation prog := (@eprog E).
Notation strat := (@estrat E).
Notation cinit := (@ecinit E).

(* ---------------------------------------------------------------- reachable states *)
Lemma SI_init iv idur : SI (cinit_db iv idur).
Proof. split; [cbn; lia |]. intros p m Hm. discriminate. Qed.

Lemma SI_fields s s' : c_memo s' = c_memo s -> ccur s' = ccur s -> c_ccount s' = c_ccount s -> SI s -> SI s'.
Proof.
  intros Hm Hcur Hc [Hlt Hall].
  assert (Hcm : forall m, cur_memo s' m <-> cur_memo s m).
  { intros m. unfold cur_memo. rewrite Hcur, Hc. reflexivity. }
  assert (Hhd : forall hd, hd_ok s hd -> hd_ok s' hd).
  { intros hd (Hw & Hcc & Hrc & mh & Hmh & Hok). split; [exact Hw |]. split; [congruence |].
    split; [exact Hrc |]. exists mh. split; [now rewrite Hm |].
    unfold head_memo_ok in *. rewrite Hcm. exact Hok. }
  split; [congruence |]. intros p m Hp. rewrite Hm in Hp.
  destruct (Hall p m Hp) as [H1 H2 H3 H4 H5]. constructor.
  - exact H1.
  - now rewrite Hcur.
  - rewrite Hcur, Hc. exact H3.
  - exact H4.
  - intros Hcu Hf hd Hin. apply Hhd. apply H5; [now apply Hcm | exact Hf | exact Hin].
Qed.

Lemma SI_new_revision s : SI s -> SI (cnew_revision s).
Proof.
  intros [Hlt Hall]. split; [cbn; lia |]. intros p m Hm. cbn in Hm.
  destruct (Hall p m Hm) as [H1 H2 H3 H4 H5].
  assert (Hcur : ccur (cnew_revision s) = ccur s + 1) by reflexivity.
  constructor.
  - exact H1.
  - rewrite Hcur. lia.
  - intros _ Hv. rewrite Hcur in Hv. lia.
  - exact H4.
  - intros [Hv _]. rewrite Hcur in Hv. lia.
Qed.

Lemma SI_zalsa_mut s : SI s -> SI (czalsa_mut s).
Proof.
  intros HS. unfold czalsa_mut. destruct (N.eqb_spec (c_ccount s) 255) as [He | Hne]; [now apply SI_new_revision |].
  destruct HS as [Hlt Hall]. split; [cbn; lia |]. intros p m Hm. cbn in Hm.
  destruct (Hall p m Hm) as [H1 H2 H3 H4 H5].
  constructor.
  - exact H1.
  - exact H2.
  - intros Hf Hv. cbn. specialize (H3 Hf Hv). lia.
  - exact H4.
  - intros [Hv Hc] Hf. cbn in Hc. specialize (H3 Hf Hv). lia.
Qed.

Lemma SI_step nodes fuel s o : SI s -> SI (fst (cstep prog strat cinit nodes fuel s o)).
Proof.
  intros HS. destruct o as [i v d | d | c v | c v | q |]; cbn [cstep].
  - assert (H1 := SI_new_revision _ (SI_zalsa_mut s HS)).
    set (s1 := cnew_revision (czalsa_mut s)) in *.
    destruct (f_dur (c_in s1 i) =? D_NEVER); [exact H1 |]. cbn [fst].
    apply (SI_fields s1); try reflexivity; [| exact H1].
    unfold ccur. cbn. match goal with |- context [if ?b then _ else _] => destruct b end; reflexivity.
  - assert (H1 := SI_new_revision _ (SI_zalsa_mut s HS)).
    set (s1 := cnew_revision (czalsa_mut s)) in *.
    destruct (d =? D_NEVER); [exact H1 |]. cbn [fst].
    apply (SI_fields s1); try reflexivity. exact H1.
  - cbn [fst]. apply (SI_fields s); try reflexivity. exact HS.
  - cbn [fst]. apply (SI_fields s); try reflexivity. exact HS.
  - destruct (clevel_ok nodes fuel) as [HLf HLm].
    destruct (gwp_fetch (clevel prog strat cinit nodes fuel) HLf HLm nodes q s s HS (ext_refl s)) as (H1 & _ & _).
    destruct (cfetch prog strat cinit nodes (clevel prog strat cinit nodes fuel) q s) as [s' [[[[v du] ch] hs] | p |]];
      exact H1.
  - cbn [fst]. now apply SI_zalsa_mut.
Qed.

Theorem SI_reachable nodes fuel : forall ops s, SI s ->
  SI (fst (crun_ops prog strat cinit nodes fuel s ops)).
Proof.
  induction ops as [| o ops IH]; intros s HS; [exact HS |].
  cbn [crun_ops]. assert (H1 := SI_step nodes fuel s o HS).
  destruct (cstep prog strat cinit nodes fuel s o) as [s1 r]. cbn [fst] in H1.
  specialize (IH s1 H1). destruct (crun_ops prog strat cinit nodes fuel s1 ops) as [s2 rs]. exact IH.
Qed.

(* ---------------------------------------------------------------- the loop's counter *)
Section Loop.
Variable L : clower.
Hypothesis HLf : Lfetch_ok L.
Hypothesis HLm : Lmca_ok L.
Variable n : nat.
Variable q : qkey.
Hypothesis Hrq : rcv q.

(* the configuration of the next trip *)
Definition next_memo (s3 : cdb) (hs : list head) (it' : stamp) (v : val) (rv : cmemo) : cmemo :=
  with_value (with_final (with_heads rv (heads_update hs q it') it') false) (Some v) (ccur s3).
Definition next_mid (s1 : cdb) (hs : list head) (it' : stamp) : cdb :=
  let s2 := cset_log s1 (CEvIterate q (stamp_iteration it') :: c_log s1) in
  cset_memo s2 (fold_left (mstep (fun h m => with_iteration_count m h it')) (heads_not_eq hs q) (c_memo s2)).
Definition next_state (s1 : cdb) (hs : list head) (it' : stamp) (v : val) (rv : cmemo) : cdb :=
  put (next_mid s1 hs it') q (next_memo (next_mid s1 hs it') hs it' v rv).
Definition next_ls (s1 : cdb) (ls : lstate) (hs : list head) (it' : stamp) (v : val) (rv : cmemo) : lstate :=
  {| ls_iter := it'; ls_last := Some (next_memo (next_mid s1 hs it') hs it' v rv); ls_old := ls_old ls |}.

Lemma iter_unfold k ls s s1 hm v rv hs it' :
  round prog strat cinit n L q ls s = (s1, COk (RIterate hm v rv hs)) ->
  stamp_increment (N.max (ls_iter ls) hm) = Some it' ->
  iter_loop prog strat cinit (S k) n L q ls s
  = iter_loop prog strat cinit k n L q (next_ls s1 ls hs it' v rv) (next_state s1 hs it' v rv).
Proof.
  intros Hr Hi. cbn [iter_loop]. unfold cbind at 1. rewrite Hr, Hi. reflexivity.
Qed.

Lemma next_state_ok s1 ls hm v rv hs it' :
  SI s1 -> loop_inv (c_ccount s1) ls -> round_epost q s1 (RIterate hm v rv hs) ->
  stamp_increment (N.max (ls_iter ls) hm) = Some it' ->
  SI (next_state s1 hs it' v rv) /\ ext s1 (next_state s1 hs it' v rv) /\
  loop_inv (c_ccount (next_state s1 hs it' v rv)) (next_ls s1 ls hs it' v rv).
Proof.
  intros HS1 Hinv (Hg & Hho & Hnn & Hlv) Hi.
  destruct (goodst_max_inv s1 ls hm Hinv Hg) as [Hmw Hmc].
  destruct (stamp_increment_wf _ _ Hmw Hi) as (Hw' & Hc' & _).
  unfold next_state, next_mid.
  set (s2 := cset_log s1 _).
  assert (Hc2 : same_core s1 s2) by (now repeat split).
  destruct (same_core_SI s1 s2 Hc2 HS1) as [HS2 He12].
  destruct (fold_iter it' (heads_not_eq hs q) s2 HS2 Hw') as [HS3 He23].
  { change (c_ccount s2) with (c_ccount s1). congruence. }
  { intros h Hh. unfold heads_not_eq in Hh. apply filter_In in Hh as [Hin Hne].
    apply Bool.negb_true_iff, key_eqb_neq in Hne.
    split; [apply (Hho h Hin) |].
    destruct (live_key_core q s1 s2 (fst h) Hc2 (Hlv h Hin)) as [Heq | Hx]; [contradiction | exact Hx]. }
  set (s3 := cset_memo s2 _) in *.
  assert (He13 : ext s1 s3) by (exact (ext_trans _ _ _ He12 He23)).
  assert (Hho3 : heads_ok s3 hs) by (apply (heads_ok_ext s1 s3 _ He13), Hho).
  assert (Hcc3 : c_ccount s3 = c_ccount s1) by apply He13.
  set (m := next_memo s3 hs it' v rv).
  assert (Hcm : cur_memo s3 m) by (split; [reflexivity | change (stamp_ccount it' = c_ccount s3); congruence]).
  destruct (put_SI s3 q m HS3) as [HS4 He34].
  - exact Hw'.
  - apply N.le_refl.
  - intros _ _. change (stamp_ccount it' <= c_ccount s3). rewrite Hc', Hmc, Hcc3. apply N.le_refl.
  - intros _. unfold m, next_memo. cbn. now apply heads_update_nonempty.
  - intros _ _ x Hx. unfold m, next_memo in Hx. cbn in Hx. destruct (heads_update_in _ _ _ _ Hx) as [-> | Hin].
    + apply hd_ok_put_self; [exact Hw' | congruence | exact Hrq | right; right; exact Hcm].
    + apply (hd_ok_ext s3 _ _ (put_ext s3 q m (fun _ => or_intror (or_intror Hcm)))). now apply Hho3.
  - intros _. right; right. exact Hcm.
  - split; [exact HS4 |]. split; [exact (ext_trans _ _ _ He13 He34) |].
    split; cbn [next_ls ls_iter]; [exact Hw' |].
    change (stamp_ccount it' = c_ccount s3). congruence.
Qed.

(* what a trip from an invariant state yields *)
Lemma round_facts ls s : SI s -> loop_inv (c_ccount s) ls ->
  SI (fst (round prog strat cinit n L q ls s)) /\
  c_ccount (fst (round prog strat cinit n L q ls s)) = c_ccount s /\
  forall out, snd (round prog strat cinit n L q ls s) = COk out ->
    round_epost q (fst (round prog strat cinit n L q ls s)) out.
Proof.
  intros HS Hinv. destruct (gwp_round L HLf n q s ls s HS (ext_refl s) Hinv) as (H1 & H2 & H3).
  split; [exact H1 |]. split; [apply H2 | exact H3].
Qed.

(* the loop never reports out-of-fuel unless a trip does *)
Theorem loop_bounded_epoch :
  (forall ls1 s1, SI s1 -> snd (round prog strat cinit n L q ls1 s1) <> CFuel) ->
  forall k ls s, SI s -> loop_inv (c_ccount s) ls -> (trips_left ls < k)%nat ->
  snd (iter_loop prog strat cinit k n L q ls s) <> CFuel.
Proof.
  intros Hnf. induction k as [| k IH]; intros ls s HS Hinv Hk; [lia |].
  destruct (round_facts ls s HS Hinv) as (HS1 & Hcc1 & Hpost).
  destruct (round prog strat cinit n L q ls s) as [s1 [r | p |]] eqn:Hr; cbn [fst snd] in *.
  - destruct r as [v rv mode | hm v rv hs].
    + cbn [iter_loop]. unfold cbind. rewrite Hr. cbn. discriminate.
    + assert (Hinv1 : loop_inv (c_ccount s1) ls) by (now rewrite Hcc1).
      specialize (Hpost _ eq_refl).
      destruct (goodst_max_inv s1 ls hm Hinv1 (proj1 Hpost)) as [Hmw Hmc].
      destruct (stamp_increment (N.max (ls_iter ls) hm)) as [it' |] eqn:Hi.
      * rewrite (iter_unfold k ls s s1 hm v rv hs it' Hr Hi).
        destruct (next_state_ok s1 ls hm v rv hs it' HS1 Hinv1 Hpost Hi) as (HS4 & _ & Hinv4).
        apply IH; [exact HS4 | exact Hinv4 |].
        destruct (stamp_increment_wf _ _ Hmw Hi) as [[Hw1 Hw2] [_ Hi']].
        destruct Hinv as [[Hl1 Hl2] _].
        assert (Hge : stamp_iteration (ls_iter ls) <= stamp_iteration (N.max (ls_iter ls) hm)).
        { destruct (proj1 Hpost) as [-> | [Hgw Hgc]].
          - unfold stamp_default. rewrite N.max_0_r. apply N.le_refl.
          - destruct (stamp_max_wf (ls_iter ls) hm (conj Hl1 Hl2) Hgw) as (_ & _ & Hx); [| exact Hx].
            destruct Hinv1 as [_ Hx]. congruence. }
        unfold trips_left in *. cbn [next_ls ls_iter]. unfold MAX_ITERATIONS in *.
        rewrite k_MAX_ITERATIONS_val in *. lia.
      * cbn [iter_loop]. unfold cbind. rewrite Hr, Hi. cbn. discriminate.
  - cbn [iter_loop]. unfold cbind. rewrite Hr. cbn. discriminate.
  - exfalso. apply (Hnf ls s HS). now rewrite Hr.
Qed.

(* trips that never converge end in the too-many-iterations panic *)
Theorem loop_diverging_epoch :
  (forall ls1 s1, SI s1 -> exists s' hm v rv hs,
      round prog strat cinit n L q ls1 s1 = (s', COk (RIterate hm v rv hs))) ->
  forall k ls s, SI s -> loop_inv (c_ccount s) ls -> (trips_left ls < k)%nat ->
  exists s', iter_loop prog strat cinit k n L q ls s = (s', CPanic (PB PTooMany)).
Proof.
  intros Hdiv. induction k as [| k IH]; intros ls s HS Hinv Hk; [lia |].
  destruct (round_facts ls s HS Hinv) as (HS1 & Hcc1 & Hpost).
  destruct (Hdiv ls s HS) as (s1 & hm & v & rv & hs & Hr). rewrite Hr in *. cbn [fst snd] in *.
  assert (Hinv1 : loop_inv (c_ccount s1) ls) by (now rewrite Hcc1).
  specialize (Hpost _ eq_refl).
  destruct (goodst_max_inv s1 ls hm Hinv1 (proj1 Hpost)) as [Hmw Hmc].
  destruct (stamp_increment (N.max (ls_iter ls) hm)) as [it' |] eqn:Hi.
  - rewrite (iter_unfold k ls s s1 hm v rv hs it' Hr Hi).
    destruct (next_state_ok s1 ls hm v rv hs it' HS1 Hinv1 Hpost Hi) as (HS4 & _ & Hinv4).
    apply IH; [exact HS4 | exact Hinv4 |].
    destruct (stamp_increment_wf _ _ Hmw Hi) as [[Hw1 Hw2] [_ Hi']].
    destruct Hinv as [[Hl1 Hl2] _].
    assert (Hge : stamp_iteration (ls_iter ls) <= stamp_iteration (N.max (ls_iter ls) hm)).
    { destruct (proj1 Hpost) as [-> | [Hgw Hgc]].
      - unfold stamp_default. rewrite N.max_0_r. apply N.le_refl.
      - destruct (stamp_max_wf (ls_iter ls) hm (conj Hl1 Hl2) Hgw) as (_ & _ & Hx); [| exact Hx].
        destruct Hinv1 as [_ Hx]. congruence. }
    unfold trips_left in *. cbn [next_ls ls_iter]. unfold MAX_ITERATIONS in *.
    rewrite k_MAX_ITERATIONS_val in *. lia.
  - cbn [iter_loop]. unfold cbind. rewrite Hr, Hi. cbn. eexists. reflexivity.
Qed.

(* execute: the only place a loop is started; its own fuel (LOOP_FUEL) is never the problem *)
Theorem execute_iterate_bounded old s :
  SI s -> (forall o, old = Some o -> stamp_wf (iter_of o)) ->
  (forall ls1 s1, SI s1 -> snd (round prog strat cinit n L q ls1 s1) <> CFuel) ->
  snd (execute_iterate prog strat cinit n L q old s) <> CFuel.
Proof.
  intros HS Hold Hnf. unfold execute_iterate.
  destruct HS as [Hlt Hall]. assert (HS : SI s) by (split; assumption).
  destruct (stamp_initial_wf (c_ccount s) Hlt) as [Hiw Hic].
  assert (Hloop : forall ls, loop_inv (c_ccount s) ls ->
            snd (on_panic (iter_loop prog strat cinit LOOP_FUEL n L q ls) (poison q) s) <> CFuel).
  { intros ls Hinv. assert (H := loop_bounded_epoch Hnf LOOP_FUEL ls s HS Hinv (loop_fuel_enough ls)).
    unfold on_panic. destruct (iter_loop prog strat cinit LOOP_FUEL n L q ls s) as [s' [a | p |]]; cbn in *; try discriminate.
    contradiction. }
  unfold cbind at 1. unfold cget at 1.
  assert (Hinit : forall lo, snd ((st <- cret {| ls_iter := stamp_initial (c_ccount s); ls_last := None; ls_old := lo |} ;;
                                  on_panic (iter_loop prog strat cinit LOOP_FUEL n L q st) (poison q)) s) <> CFuel).
  { intros lo. apply Hloop. now split. }
  destruct old as [o |]; [| apply Hinit].
  destruct (cm_verified o =? ccur s); [| apply Hinit].
  destruct (N.eqb_spec (stamp_ccount (iter_of o)) (c_ccount s)) as [Hcc | Hcc]; cbn [negb]; [| apply Hinit].
  destruct (cm_val o).
  - apply Hloop. split; [now apply Hold | exact Hcc].
  - cbn. discriminate.
Qed.

End Loop.

End Top.

(* ---------------------------------------------------------------- statements without the class *)
Definition epoch_inv (strat : N -> strategy) (s : cdb) : Prop :=
  @SI {| eprog := fun _ => Ret 0; estrat := strat; ecinit := fun _ => 0 |} s.

Lemma SI_any_prog (E1 E2 : ectx) s : @estrat E1 = @estrat E2 -> @SI E1 s -> @SI E2 s.
Proof.
  intros Hs [Hlt Hall]. split; [exact Hlt |]. intros p m Hm. destruct (Hall p m Hm) as [H1 H2 H3 H4 H5].
  constructor; try assumption.
  intros Hc Hf hd Hin. destruct (H5 Hc Hf hd Hin) as (Hw & Hcc & Hr & mh & Hmh & Hok).
  split; [exact Hw |]. split; [exact Hcc |]. split; [unfold rcv in *; now rewrite <- Hs |].
  exists mh. split; [exact Hmh | exact Hok].
Qed.

Lemma SI_epoch (E0 : ectx) s : @SI E0 s <-> epoch_inv (@estrat E0) s.
Proof. unfold epoch_inv. split; apply SI_any_prog; reflexivity. Qed.

Theorem epoch_inv_reachable : forall prog strat cinit nodes fuel iv idur ops,
  epoch_inv strat (fst (crun_ops prog strat cinit nodes fuel (cinit_db iv idur) ops)).
Proof.
  intros prog strat cinit nodes fuel iv idur ops. unfold epoch_inv.
  apply (SI_any_prog {| eprog := prog; estrat := strat; ecinit := cinit |}); [reflexivity |].
  apply (@SI_reachable {| eprog := prog; estrat := strat; ecinit := cinit |}). apply SI_init.
Qed.

Theorem epoch_inv_step : forall prog strat cinit nodes fuel s o,
  epoch_inv strat s -> epoch_inv strat (fst (cstep prog strat cinit nodes fuel s o)).
Proof.
  intros prog strat cinit nodes fuel s o HS. unfold epoch_inv in *.
  apply (SI_epoch {| eprog := prog; estrat := strat; ecinit := cinit |}).
  apply (@SI_step {| eprog := prog; estrat := strat; ecinit := cinit |}).
  now apply (SI_epoch {| eprog := prog; estrat := strat; ecinit := cinit |}).
Qed.

Theorem epoch_loop_bounded : forall prog strat cinit nodes fuel q,
  recovers (strat_of strat q) = true ->
  (forall ls1 s1, epoch_inv strat s1 ->
     snd (round prog strat cinit nodes (clevel prog strat cinit nodes fuel) q ls1 s1) <> CFuel) ->
  forall k ls s, epoch_inv strat s -> loop_inv (c_ccount s) ls -> (trips_left ls < k)%nat ->
  snd (iter_loop prog strat cinit k nodes (clevel prog strat cinit nodes fuel) q ls s) <> CFuel.
Proof.
  intros prog strat cinit nodes fuel q Hr Hnf k ls s HS Hinv Hk.
  set (E0 := {| eprog := prog; estrat := strat; ecinit := cinit |}).
  destruct (@clevel_ok E0 nodes fuel) as [HLf HLm].
  apply (@loop_bounded_epoch E0 _ HLf nodes q Hr).
  - intros ls1 s1 HS1. apply Hnf. now apply (SI_epoch E0).
  - now apply (SI_epoch E0).
  - exact Hinv.
  - exact Hk.
Qed.

Theorem epoch_loop_diverging : forall prog strat cinit nodes fuel q,
  recovers (strat_of strat q) = true ->
  (forall ls1 s1, epoch_inv strat s1 -> exists s' hm v rv hs,
     round prog strat cinit nodes (clevel prog strat cinit nodes fuel) q ls1 s1 = (s', COk (RIterate hm v rv hs))) ->
  forall k ls s, epoch_inv strat s -> loop_inv (c_ccount s) ls -> (trips_left ls < k)%nat ->
  exists s', iter_loop prog strat cinit k nodes (clevel prog strat cinit nodes fuel) q ls s = (s', CPanic (PB PTooMany)).
Proof.
  intros prog strat cinit nodes fuel q Hr Hdiv k ls s HS Hinv Hk.
  set (E0 := {| eprog := prog; estrat := strat; ecinit := cinit |}).
  destruct (@clevel_ok E0 nodes fuel) as [HLf HLm].
  apply (@loop_diverging_epoch E0 _ HLf nodes q Hr).
  - intros ls1 s1 HS1. apply Hdiv. now apply (SI_epoch E0).
  - now apply (SI_epoch E0).
  - exact Hinv.
  - exact Hk.
Qed.

Theorem epoch_execute_bounded : forall prog strat cinit nodes fuel q old s,
  recovers (strat_of strat q) = true ->
  epoch_inv strat s -> (old = None \/ old = c_memo s q) ->
  (forall ls1 s1, epoch_inv strat s1 ->
     snd (round prog strat cinit nodes (clevel prog strat cinit nodes fuel) q ls1 s1) <> CFuel) ->
  snd (execute_iterate prog strat cinit nodes (clevel prog strat cinit nodes fuel) q old s) <> CFuel.
Proof.
  intros prog strat cinit nodes fuel q old s Hr HS Hold Hnf.
  set (E0 := {| eprog := prog; estrat := strat; ecinit := cinit |}).
  destruct (@clevel_ok E0 nodes fuel) as [HLf HLm].
  assert (HS0 : @SI E0 s) by (now apply (SI_epoch E0)).
  apply (@execute_iterate_bounded E0 _ HLf nodes q Hr old s HS0).
  - intros o Ho. destruct Hold as [-> | ->]; [discriminate |]. apply (tbl_memo_of s q o HS0 Ho).
  - intros ls1 s1 HS1. apply Hnf. now apply (SI_epoch E0).
Qed.

Print Assumptions epoch_inv_reachable.
Print Assumptions epoch_loop_bounded.
Print Assumptions epoch_loop_diverging.
Print Assumptions epoch_execute_bounded.

(* Cycle/FbInv.v — the invariant of the Cycle model inside the first revision for FALLBACK cycles
   (C13_fresh, stage G1): programs whose (input-determined) call graph is layered by [lvl] and whose
   only same-level calls follow an injective successor map [nxt] between functions with
   cycle_result (every strongly connected component is a simple ring of fallback functions).
   Same architecture as Cycle/FreshInv.v; the values are those of [spec_fallback]. *)
From Coq Require Import PeanoNat.
From Salsa Require Import Base.
From Salsa.Kern Require Import CoreK.
From Salsa.Core Require Import Spec.
From Salsa.Cycle Require Import StampK Model Spec SpecProofs FallbackProofs Cert FreshBase FbSem.

(* ---------------------------------------------------------------- the class of programs *)
Definition fby_of (strat : N -> strategy) (q : qkey) : Prop := strat_of strat q = SFallback.

Definition fbring_ok_of (prog : qkey -> body) (strat : N -> strategy) (sn : snapshot) (ns : list qkey)
           (lvl : qkey -> nat) (nxt : qkey -> option qkey) : Prop :=
  (forall q d, In q ns -> In d (succs prog sn q) -> In d ns /\ ((lvl d < lvl q)%nat \/ nxt q = Some d)) /\
  (forall q d, nxt q = Some d -> lvl d = lvl q /\ fby_of strat q /\ fby_of strat d) /\
  (forall a b c, nxt a = Some c -> nxt b = Some c -> a = b) /\
  (forall q d, nxt q = Some d -> In d (succs prog sn q)).

Class bctx : Type := {
  fprog : qkey -> body;
  fstrat : N -> strategy;
  fcinit : qkey -> val;
  fiv : ikey -> val;
  fidur : ikey -> dur;
  fns : list qkey;
  flvl : qkey -> nat;
  fnxt : qkey -> option qkey;
  frank : qkey -> nat;
  fdet : input_determined fprog (csnap_of (cinit_db fiv fidur));
  fring : fbring_ok_of fprog fstrat (csnap_of (cinit_db fiv fidur)) fns flvl fnxt;
  frank1 : forall q q', cycn fprog (csnap_of (cinit_db fiv fidur)) fns q = false ->
             In q' (succs fprog (csnap_of (cinit_db fiv fidur)) q) ->
             cycn fprog (csnap_of (cinit_db fiv fidur)) fns q' = false -> (frank q' < frank q)%nat;
  frank2 : forall q, (frank q < length fns)%nat
}.

Section Fresh.
Context {C : bctx}.
Notation prog := (@fprog C).
Notation strat := (@fstrat C).
Notation cinit := (@fcinit C).
Notation iv := (@fiv C).
Notation idur := (@fidur C).
Notation ns := (@fns C).
Notation lvl := (@flvl C).
Notation nxt := (@fnxt C).

Definition s0 : cdb := cinit_db iv idur.
Definition sn : snapshot := csnap_of s0.

Notation SV := (spec_fallback prog sn cinit ns).
Notation cyc := (cycn prog sn ns).
Notation sc := (succs prog sn).

Definition fixy (q : qkey) : Prop := fby_of strat q.

Lemma Hdet : input_determined prog sn.
Proof. exact fdet. Qed.
Lemma Hring : fbring_ok_of prog strat sn ns lvl nxt.
Proof. exact fring. Qed.

Lemma Hcalls q d : In q ns -> In d (sc q) -> In d ns /\ ((lvl d < lvl q)%nat \/ nxt q = Some d).
Proof. apply Hring. Qed.
Lemma Hnxt q d : nxt q = Some d -> lvl d = lvl q /\ fixy q /\ fixy d.
Proof. apply Hring. Qed.
Lemma Hinj a b c : nxt a = Some c -> nxt b = Some c -> a = b.
Proof. apply Hring. Qed.
Lemma Hreal q d : nxt q = Some d -> In d (sc q).
Proof. apply Hring. Qed.

Lemma sv_cyc q : cyc q = true -> SV q = cinit q.
Proof. apply SV_cyc. Qed.
Lemma sv_body q : cyc q = false -> SV q = F prog sn SV q.
Proof. apply (SV_body prog sn cinit ns (@frank C)); [apply Hdet | apply frank1 | apply frank2]. Qed.
Lemma f_ext_succs rho rho' q : (forall d, In d (sc q) -> rho d = rho' d) -> F prog sn rho q = F prog sn rho' q.
Proof.
  intros H. unfold F. apply run_agree. intros d Hd. apply H. rewrite <- (Hdet q rho). exact Hd.
Qed.

(* a path of same-level calls *)
Inductive npath : qkey -> qkey -> Prop :=
| np_one q h : nxt q = Some h -> npath q h
| np_step q d h : nxt q = Some d -> npath d h -> npath q h.

Lemma npath_lvl q h : npath q h -> lvl h = lvl q.
Proof.
  induction 1 as [q h H | q d h H _ IH].
  - apply (Hnxt q h H).
  - rewrite IH. apply (Hnxt q d H).
Qed.

Lemma npath_split q a : npath q a -> forall c, npath q c -> a = c \/ npath a c \/ npath c a.
Proof.
  induction 1 as [q a Ha | q d a Hd Hda IH]; intros c Hc.
  - inversion Hc as [q' c' Hqc | q' d' c' Hqd Hdc]; subst.
    + left. congruence.
    + right; left. rewrite Ha in Hqd. injection Hqd as <-. exact Hdc.
  - inversion Hc as [q' c' Hqc | q' d' c' Hqd Hdc]; subst.
    + right; right. rewrite Hd in Hqc. injection Hqc as <-. exact Hda.
    + rewrite Hd in Hqd. injection Hqd as <-. now apply IH.
Qed.

Lemma npath_trans a b c : npath a b -> npath b c -> npath a c.
Proof.
  induction 1 as [a b Hab | a d b Had _ IH]; intros Hbc.
  - now apply (np_step a b c).
  - apply (np_step a d c Had). now apply IH.
Qed.

(* each frame was called by the one under it *)
Fixpoint chain (st : list qkey) : Prop :=
  match st with
  | q :: ((q' :: _) as r) => In q (sc q') /\ chain r
  | _ => True
  end.

Lemma chain_mono st : incl st ns -> chain st -> mono lvl st.
Proof.
  induction st as [| q r IH]; intros Hin Hc; [exact I |].
  assert (Hr : incl r ns) by (intros x Hx; apply Hin; now right).
  destruct r as [| q' r'].
  - split; [intros x [] | exact I].
  - destruct Hc as [Hq Hc]. specialize (IH Hr Hc). split; [| exact IH].
    assert (Hle : (lvl q <= lvl q')%nat).
    { destruct (Hcalls q' q (Hr q' (or_introl eq_refl)) Hq) as [_ [Hlt | Hn]]; [lia |].
      destruct (Hnxt q' q Hn) as [He _]. lia. }
    intros x [<- | Hx]; [exact Hle |].
    destruct IH as [Hq' _]. specialize (Hq' x Hx). lia.
Qed.

(* ---------------------------------------------------------------- memo shapes *)
Definition own (q : qkey) (m : cmemo) : Prop :=
  cm_final m = false /\ cm_extra m = true /\ cm_heads m = [(q, cm_iter m)].
Definition part (q h : qkey) (it : stamp) (m : cmemo) : Prop :=
  cm_final m = false /\ cm_extra m = true /\ cm_heads m = [(h, it)] /\ h <> q.

Definition hv (s : cdb) (h : qkey) : val :=
  match c_memo s h with
  | Some m => match cm_val m with Some v => v | None => 0 end
  | None => 0
  end.

(* final, or provisional under a head that is final at the recorded stamp *)
Definition done (s : cdb) (d : qkey) : Prop :=
  exists m, c_memo s d = Some m /\
    (cm_final m = true \/
     exists h it mh, part d h it m /\ c_memo s h = Some mh /\ cm_final mh = true /\ iter_of mh = it).

Definition partat (s : cdb) (d h : qkey) (it : stamp) : Prop :=
  exists md, c_memo s d = Some md /\ part d h it md.

(* progress measure of a head's provisional memo: only the metadata can move *)
Definition hpot (m : cmemo) : N := cm_dur m + (if cm_untracked m then 0 else 1).

Definition kind_final (st : list qkey) (s : cdb) (q : qkey) (m : cmemo) : Prop :=
  cm_final m = true /\ cm_val m = Some (SV q) /\ ~ In q st /\ iter_of m <= 15 /\
  (forall d, In d (sc q) -> done s d).

Definition kind_own (st : list qkey) (s : cdb) (q : qkey) (m : cmemo) : Prop :=
  own q m /\ bottom lvl st q /\ fixy q /\ cm_dur m <= 3 /\ cm_iter m + hpot m <= 4 /\
  (npath q q /\ forall x, npath q x -> npath x q) /\
  (cyc q = true /\ forall x, npath q x -> cyc x = true) /\
  cm_val m = Some (cinit q).

Definition kind_part (st : list qkey) (s : cdb) (q : qkey) (m : cmemo) : Prop :=
  exists h it mh, part q h it m /\ npath q h /\ c_memo s h = Some mh /\
    (own h mh \/ cm_final mh = true) /\ it <= iter_of mh /\ it <= 4 /\ cm_iter m <= it + 1 /\
    (iter_of mh = it -> cm_final mh = false ->
       cm_val m = Some (SV q) /\ ~ In q st /\
       forall d, In d (sc q) -> done s d \/ d = h \/ partat s d h it) /\
    (iter_of mh = it -> cm_final mh = true ->
       cm_val m = Some (SV q) /\ ~ In q st /\ forall d, In d (sc q) -> done s d).

Record memo_ok (st : list qkey) (s : cdb) (q : qkey) (m : cmemo) : Prop := {
  mo_ns : In q ns;
  mo_ver : cm_verified m = REV_START;
  mo_chg : cm_changed m = REV_START;
  mo_val : exists v, cm_val m = Some v;
  mo_kind : kind_final st s q m \/ kind_own st s q m \/ kind_part st s q m
}.

Definition held (s : cdb) (q : qkey) : Prop :=
  exists y, c_sync s q = Some y /\ sy_trans y = false.

Record Inv (hl st : list qkey) (s : cdb) : Prop := {
  iv_in : c_in s = c_in s0;
  iv_cell : c_cell s = c_cell s0;
  iv_pcell : c_pcell s = c_pcell s0;
  iv_revs : c_revs s = c_revs s0;
  iv_cc : c_ccount s = 0;
  iv_nd : NoDup st;
  iv_incl : incl st ns;
  iv_chain : chain st;
  iv_sync : forall q, In q hl <-> held s q;
  iv_twice : forall q y, c_sync s q = Some y -> sy_twice y = true -> sy_trans y = false;
  iv_memo : forall q m, c_memo s q = Some m -> memo_ok st s q m
}.

Lemma ccur_inv hl st s : Inv hl st s -> ccur s = REV_START.
Proof. intros H. unfold ccur. rewrite (iv_revs _ _ _ H). reflexivity. Qed.

(* ---------------------------------------------------------------- consequences *)
Lemma own_not_part q m h it : own q m -> part q h it m -> False.
Proof.
  intros (_ & _ & Ho) (_ & _ & Hp & Hne). rewrite Ho in Hp. injection Hp as <- _. now apply Hne.
Qed.

Lemma done_val hl st s d : Inv hl st s -> done s d ->
  exists m, c_memo s d = Some m /\ cm_val m = Some (SV d) /\ ~ In d st /\
            forall e, In e (sc d) -> done s e.
Proof.
  intros HI (m & Hm & Hd). exists m. split; [exact Hm |].
  destruct (mo_kind _ _ _ _ (iv_memo _ _ _ HI d m Hm)) as [Hf | [Ho | Hp]].
  - destruct Hf as (_ & Hv & Hn & _ & Hs). now repeat split.
  - exfalso. destruct Ho as ((Hnf & _ & Hh) & _). destruct Hd as [Hf | (h & it & mh & Hp & _)]; [congruence |].
    destruct Hp as (_ & _ & Hp & Hne). rewrite Hh in Hp. injection Hp as <- _. now apply Hne.
  - destruct Hp as (h & it & mh & Hp & _ & Hmh & _ & _ & _ & _ & _ & Hset).
    destruct Hd as [Hf | (h' & it' & mh' & Hp' & Hmh' & Hf' & Hit')].
    + destruct Hp as (Hnf & _). congruence.
    + destruct Hp as (_ & _ & Hh & _). destruct Hp' as (_ & _ & Hh' & _).
      rewrite Hh in Hh'. injection Hh' as <- <-. rewrite Hmh in Hmh'. injection Hmh' as <-.
      destruct (Hset Hit' Hf') as (Hv & Hn & Hs). now repeat split.
Qed.

Lemma done_not_stack hl st s d : Inv hl st s -> done s d -> ~ In d st.
Proof. intros HI Hd. now destruct (done_val _ _ _ _ HI Hd) as (m & _ & _ & Hn & _). Qed.

Lemma done_walk hl st s : Inv hl st s -> forall k x y, walk sc k x y -> done s x -> done s y.
Proof.
  intros HI. induction k as [| k IH]; intros x y Hw Hd; cbn in Hw.
  - now subst.
  - destruct Hw as (z & Hz & Hw). apply (IH z y Hw).
    destruct (done_val _ _ _ _ HI Hd) as (m & _ & _ & _ & Hs). now apply Hs.
Qed.

(* a node all of whose callees are done, itself on the stack, lies on no cycle *)
Lemma stack_not_cyc hl st s q : Inv hl st s -> In q st -> (forall d, In d (sc q) -> done s d) -> cyc q = false.
Proof.
  intros HI Hq Hs. destruct (cyc q) eqn:Hc; [| reflexivity]. exfalso.
  apply (cycn_walk prog sn ns q) in Hc as (_ & k & _ & Hw). cbn in Hw. destruct Hw as (z & Hz & Hw).
  apply (done_not_stack _ _ _ _ HI (done_walk _ _ _ HI k z q Hw (Hs z Hz))). exact Hq.
Qed.

(* ---------------------------------------------------------------- moving a memo_ok to a later state *)
Lemma memo_ok_transfer st st' s s' p m :
  memo_ok st s p m ->
  (~ In p st -> ~ In p st') ->
  (own p m -> bottom lvl st' p) ->
  (forall d, done s d -> done s' d) ->
  (forall h it, part p h it m -> forall mh, c_memo s h = Some mh ->
      (c_memo s' h = Some mh /\ hv s' h = hv s h /\
       (iter_of mh = it -> cm_final mh = false -> forall d, partat s d h it -> partat s' d h it))
      \/ (exists mh', c_memo s' h = Some mh' /\ (own h mh' \/ cm_final mh' = true) /\ iter_of mh < iter_of mh')
      \/ (exists mh', c_memo s' h = Some mh' /\ cm_final mh' = true /\ cm_final mh = false /\
            iter_of mh' = iter_of mh /\ done s' h /\
            (forall d, partat s d h (iter_of mh) -> done s' d))) ->
  memo_ok st' s' p m.
Proof.
  intros [Hns Hver Hchg Hval Hkind] Hst Hbot Hdone Hhead.
  constructor; try assumption.
  destruct Hkind as [Hf | [Ho | Hp]].
  - left. destruct Hf as (Hfin & Hv & Hn & Hit & Hs).
    split; [exact Hfin |]. split; [exact Hv |]. split; [now apply Hst |].
    split; [exact Hit |]. intros d Hd. apply Hdone, Hs, Hd.
  - right; left. destruct Ho as (Hown & Hb & Hrest). split; [exact Hown |]. split; [now apply Hbot | exact Hrest].
  - right; right. destruct Hp as (h & it & mh & Hp & Hnp & Hmh & Hk & Hle & Hit12 & Hmi & Hlive & Hset).
    destruct (Hhead h it Hp mh Hmh) as [(Hmh' & Hhv & Hpa) | [(mh' & Hmh' & Hown' & Hlt) | (mh' & Hmh' & Hf' & Hnf & Hit' & Hdh & Hpd)]].
    + exists h, it, mh. split; [exact Hp |]. split; [exact Hnp |]. split; [exact Hmh' |].
      split; [exact Hk |]. split; [exact Hle |]. split; [exact Hit12 |]. split; [exact Hmi |].
      split.
      * intros He Hnf. destruct (Hlive He Hnf) as (Hv & Hn & Hs).
        split; [exact Hv |]. split; [now apply Hst |].
        intros d Hd. destruct (Hs d Hd) as [H1 | [H1 | H1]].
        -- left. now apply Hdone.
        -- right; left. exact H1.
        -- right; right. now apply Hpa.
      * intros He Hf. destruct (Hset He Hf) as (Hv & Hn & Hs).
        split; [exact Hv |]. split; [now apply Hst |].
        intros d Hd. apply Hdone, Hs, Hd.
    + exists h, it, mh'. split; [exact Hp |]. split; [exact Hnp |]. split; [exact Hmh' |].
      split; [exact Hown' |]. split; [lia |]. split; [exact Hit12 |]. split; [exact Hmi |].
      split.
      * intros Heq. lia.
      * intros Heq. lia.
    + exists h, it, mh'. split; [exact Hp |]. split; [exact Hnp |]. split; [exact Hmh' |].
      split; [now right |]. split; [lia |]. split; [exact Hit12 |]. split; [exact Hmi |].
      split.
      * intros _ Hf. congruence.
      * intros Heq _. rewrite Hit' in Heq. destruct (Hlive Heq Hnf) as (Hv & Hn & Hs).
        split; [exact Hv |]. split; [now apply Hst |].
        intros d Hd. destruct (Hs d Hd) as [H1 | [H1 | H1]].
        -- now apply Hdone.
        -- subst d. exact Hdh.
        -- apply Hpd. rewrite Heq. exact H1.
Qed.


(* ---------------------------------------------------------------- one memo replaced *)
Definition mupd (s s' : cdb) (q : qkey) (m' : cmemo) : Prop :=
  c_in s' = c_in s /\ c_cell s' = c_cell s /\ c_pcell s' = c_pcell s /\ c_revs s' = c_revs s /\
  c_ccount s' = c_ccount s /\ c_sync s' = c_sync s /\
  (forall p, c_memo s' p = if key_eqb q p then Some m' else c_memo s p).

Lemma mupd_same s s' q m' : mupd s s' q m' -> c_memo s' q = Some m'.
Proof. intros (_ & _ & _ & _ & _ & _ & H). rewrite H, key_eqb_refl. reflexivity. Qed.

Lemma mupd_other s s' q m' p : mupd s s' q m' -> p <> q -> c_memo s' p = c_memo s p.
Proof.
  intros (_ & _ & _ & _ & _ & _ & H) Hne. rewrite H.
  destruct (key_eqb_spec q p) as [-> | _]; [congruence | reflexivity].
Qed.

Lemma mupd_put s q m' : mupd s (cset_memo s (upd (c_memo s) q (Some m'))) q m'.
Proof. unfold mupd. cbn. repeat split. Qed.

Lemma hv_other s s' q m' p : mupd s s' q m' -> p <> q -> hv s' p = hv s p.
Proof. intros H Hne. unfold hv. now rewrite (mupd_other _ _ _ _ _ H Hne). Qed.

Lemma part_inj q h it h' it' m : part q h it m -> part q h' it' m -> h = h' /\ it = it'.
Proof.
  intros (_ & _ & H1 & _) (_ & _ & H2 & _). rewrite H1 in H2. injection H2 as <- <-. now split.
Qed.

Lemma done_upd s s' q m' d : mupd s s' q m' -> ~ done s q -> done s d -> done s' d.
Proof.
  intros Hu Hnq (m & Hm & Hd).
  assert (Hdq : d <> q). { intros ->. apply Hnq. now exists m. }
  exists m. split; [now rewrite (mupd_other _ _ _ _ _ Hu Hdq) |].
  destruct Hd as [Hf | (h & it & mh & Hp & Hmh & Hf & Hit)]; [now left |].
  right. exists h, it, mh. split; [exact Hp |]. split; [| now split].
  assert (Hhq : h <> q). { intros ->. apply Hnq. exists mh. split; [exact Hmh | now left]. }
  now rewrite (mupd_other _ _ _ _ _ Hu Hhq).
Qed.

Lemma partat_upd s s' q m' d h it : mupd s s' q m' -> d <> q -> partat s d h it -> partat s' d h it.
Proof.
  intros Hu Hne (md & Hmd & Hp). exists md. split; [| exact Hp]. now rewrite (mupd_other _ _ _ _ _ Hu Hne).
Qed.

Lemma memo_ok_head st s p m h it : memo_ok st s p m -> part p h it m ->
  exists mh, c_memo s h = Some mh /\ (own h mh \/ cm_final mh = true) /\ it <= iter_of mh /\
    (iter_of mh = it -> cm_final mh = false -> ~ In p st).
Proof.
  intros Hok Hp. destruct (mo_kind _ _ _ _ Hok) as [Hf | [Ho | Hk]].
  - destruct Hf as (Hf & _). destruct Hp as (Hnf & _). congruence.
  - destruct Ho as (Ho & _). exfalso. eapply own_not_part; eassumption.
  - destruct Hk as (h' & it' & mh & Hp' & _ & Hmh & Hk & Hle & _ & _ & Hlive & _).
    destruct (part_inj _ _ _ _ _ _ Hp Hp') as [-> ->].
    exists mh. split; [exact Hmh |]. split; [exact Hk |]. split; [exact Hle |].
    intros He Hnf. now destruct (Hlive He Hnf) as (_ & Hn & _).
Qed.

(* q's memo is absent or stale *)
Definition idle (s : cdb) (q : qkey) : Prop :=
  match c_memo s q with
  | None => True
  | Some m => exists h it mh, part q h it m /\ c_memo s h = Some mh /\ iter_of mh <> it
  end.

Lemma idle_not_done s q : idle s q -> ~ done s q.
Proof.
  unfold idle. intros Hi (m & Hm & Hd). rewrite Hm in Hi.
  destruct Hi as (h & it & mh & Hp & Hmh & Hne).
  destruct Hd as [Hf | (h' & it' & mh' & Hp' & Hmh' & Hf' & Hit')].
  - destruct Hp as (Hnf & _). congruence.
  - destruct (part_inj _ _ _ _ _ _ Hp Hp') as [<- <-]. rewrite Hmh in Hmh'. injection Hmh' as <-. contradiction.
Qed.

Lemma idle_not_head s q h mh : idle s q -> c_memo s h = Some mh -> (own h mh \/ cm_final mh = true) -> h <> q.
Proof.
  unfold idle. intros Hi Hmh Hk ->. rewrite Hmh in Hi. destruct Hi as (h' & it & mh' & Hp & _).
  destruct Hk as [Ho | Hf].
  - eapply own_not_part; eassumption.
  - destruct Hp as (Hnf & _). congruence.
Qed.

Lemma others_idle hl st st' s s' q m' :
  Inv hl st s -> mupd s s' q m' -> idle s q ->
  (forall x, In x st' -> In x st) ->
  (forall h, h <> q -> bottom lvl st h -> bottom lvl st' h) ->
  forall p m, p <> q -> c_memo s p = Some m -> memo_ok st' s' p m.
Proof.
  intros HI Hu Hidle Hst Hbot p m Hpq Hm.
  assert (Hok := iv_memo _ _ _ HI p m Hm).
  apply (memo_ok_transfer st st' s s' p m Hok (fun Hn Hx => Hn (Hst _ Hx))).
  - intros Ho. apply Hbot; [exact Hpq |].
    destruct (mo_kind _ _ _ _ Hok) as [Hf | [Hk | Hk]].
    + destruct Hf as (Hf & _). destruct Ho as (Hnf & _). congruence.
    + now destruct Hk as (_ & Hb & _).
    + destruct Hk as (h & it & mh & Hp & _). exfalso. eapply own_not_part; eassumption.
  - intros d. apply (done_upd _ _ _ _ _ Hu). now apply idle_not_done.
  - intros h it Hp mh Hmh. left.
    destruct (memo_ok_head _ _ _ _ _ _ Hok Hp) as (mh0 & Hmh0 & Hk & _).
    assert (Hhq : h <> q) by (eapply idle_not_head; eassumption).
    split; [now rewrite (mupd_other _ _ _ _ _ Hu Hhq) |].
    split; [now apply (hv_other _ _ _ _ _ Hu) |].
    intros He Hnf d Hpa. apply (partat_upd _ _ _ _ _ _ _ Hu); [| exact Hpa].
    intros ->. destruct Hpa as (md & Hmd & Hpd). unfold idle in Hidle. rewrite Hmd in Hidle.
    destruct Hidle as (h' & it' & mh' & Hp' & Hmh' & Hne).
    destruct (part_inj _ _ _ _ _ _ Hpd Hp') as [<- <-]. rewrite Hmh in Hmh'. injection Hmh' as <-. contradiction.
Qed.

Lemma Inv_upd hl st st' s s' q m' :
  Inv hl st s -> mupd s s' q m' -> NoDup st' -> incl st' ns -> chain st' ->
  memo_ok st' s' q m' ->
  (forall p m, p <> q -> c_memo s p = Some m -> memo_ok st' s' p m) ->
  Inv hl st' s'.
Proof.
  intros HI Hu Hnd Hin Hch Hq Hoth.
  assert (Hu' := Hu). destruct Hu' as (H1 & H2 & H3 & H4 & H5 & H6 & H7).
  constructor.
  - rewrite H1. apply (iv_in _ _ _ HI).
  - rewrite H2. apply (iv_cell _ _ _ HI).
  - rewrite H3. apply (iv_pcell _ _ _ HI).
  - rewrite H4. apply (iv_revs _ _ _ HI).
  - rewrite H5. apply (iv_cc _ _ _ HI).
  - exact Hnd.
  - exact Hin.
  - exact Hch.
  - intros x. unfold held. rewrite H6. apply (iv_sync _ _ _ HI).
  - intros x y. rewrite H6. apply (iv_twice _ _ _ HI).
  - intros p m Hm. destruct (key_eqb_spec p q) as [-> | Hne].
    + rewrite (mupd_same _ _ _ _ Hu) in Hm. injection Hm as <-. exact Hq.
    + rewrite (mupd_other _ _ _ _ _ Hu Hne) in Hm. now apply Hoth.
Qed.


Lemma own_not_done hl st s q m : Inv hl st s -> c_memo s q = Some m -> own q m -> ~ done s q.
Proof.
  intros HI Hm Ho (m' & Hm' & Hd). rewrite Hm in Hm'. injection Hm' as <-.
  destruct Hd as [Hf | (h & it & mh & Hp & _)].
  - destruct Ho as (Hnf & _). congruence.
  - eapply own_not_part; eassumption.
Qed.

Lemma kind_of_own st s q m : memo_ok st s q m -> own q m -> kind_own st s q m.
Proof.
  intros Hok Ho. destruct (mo_kind _ _ _ _ Hok) as [Hf | [Hk | Hk]].
  - destruct Hf as (Hf & _). destruct Ho as (Hnf & _). congruence.
  - exact Hk.
  - destruct Hk as (h & it & mh & Hp & _). exfalso. eapply own_not_part; eassumption.
Qed.

(* the memo of a head q is replaced (next iteration, or finalised) *)
Lemma others_own hl st st' s s' q mq m' :
  Inv hl st s -> mupd s s' q m' -> c_memo s q = Some mq -> own q mq ->
  (forall x, In x st' -> In x st) ->
  (forall h, h <> q -> bottom lvl st h -> bottom lvl st' h) ->
  (((own q m' \/ cm_final m' = true) /\ iter_of mq < iter_of m') \/
   (cm_final m' = true /\ iter_of m' = iter_of mq)) ->
  forall p m, p <> q -> c_memo s p = Some m -> memo_ok st' s' p m.
Proof.
  intros HI Hu Hmq Hoq Hst Hbot Hcase p m Hpq Hm.
  assert (Hok := iv_memo _ _ _ HI p m Hm).
  assert (Hnd : ~ done s q) by (eapply own_not_done; eassumption).
  apply (memo_ok_transfer st st' s s' p m Hok (fun Hn Hx => Hn (Hst _ Hx))).
  - intros Ho. apply Hbot; [exact Hpq |]. now destruct (kind_of_own _ _ _ _ Hok Ho) as (_ & Hb & _).
  - intros d. now apply (done_upd _ _ _ _ _ Hu).
  - intros h it Hp mh Hmh.
    assert (Hpa : forall d it', partat s d h it' -> d <> q).
    { intros d it' (md & Hmd & Hpd) ->. rewrite Hmq in Hmd. injection Hmd as <-.
      eapply own_not_part; eassumption. }
    destruct (key_eqb_spec h q) as [-> | Hhq].
    + rewrite Hmq in Hmh. injection Hmh as <-.
      destruct Hcase as [(Ho' & Hlt) | (Hf' & Hit')].
      * right; left. exists m'. split; [apply (mupd_same _ _ _ _ Hu) |]. now split.
      * right; right. exists m'. split; [apply (mupd_same _ _ _ _ Hu) |]. split; [exact Hf' |].
        split; [apply Hoq |]. split; [exact Hit' |].
        split.
        -- exists m'. split; [apply (mupd_same _ _ _ _ Hu) | now left].
        -- intros d Hd. assert (Hdq := Hpa d _ Hd). destruct Hd as (md & Hmd & Hpd).
           exists md. split; [now rewrite (mupd_other _ _ _ _ _ Hu Hdq) |].
           right. exists q, (iter_of mq), m'. split; [exact Hpd |].
           split; [apply (mupd_same _ _ _ _ Hu) |]. now split.
    + left. split; [now rewrite (mupd_other _ _ _ _ _ Hu Hhq) |].
      split; [now apply (hv_other _ _ _ _ _ Hu) |].
      intros _ _ d Hd. apply (partat_upd _ _ _ _ _ _ _ Hu); [| exact Hd]. eapply Hpa; eassumption.
Qed.

(* a settled memo gets its final flag *)
Lemma others_settle hl st s s' q m hq itq mhq :
  Inv hl st s -> mupd s s' q (with_final m true) -> c_memo s q = Some m ->
  part q hq itq m -> c_memo s hq = Some mhq -> cm_final mhq = true -> iter_of mhq = itq ->
  forall p mp, p <> q -> c_memo s p = Some mp -> memo_ok st s' p mp.
Proof.
  intros HI Hu Hmq Hpq Hmhq Hfq Hitq p mp Hne Hmp.
  assert (Hok := iv_memo _ _ _ HI p mp Hmp).
  assert (Hnh : forall h mh, c_memo s h = Some mh -> (own h mh \/ cm_final mh = true) -> h <> q).
  { intros h mh Hmh Hk ->. rewrite Hmq in Hmh. injection Hmh as <-. destruct Hk as [Ho | Hf].
    - eapply own_not_part; eassumption.
    - destruct Hpq as (Hnf & _). congruence. }
  assert (Hhq : hq <> q) by (eapply Hnh; [exact Hmhq | now right]).
  assert (Hdone : forall d, done s d -> done s' d).
  { intros d (md & Hmd & Hd). destruct (key_eqb_spec d q) as [-> | Hdq].
    - exists (with_final m true). split; [apply (mupd_same _ _ _ _ Hu) | now left].
    - exists md. split; [now rewrite (mupd_other _ _ _ _ _ Hu Hdq) |].
      destruct Hd as [Hf | (h & it & mh & Hp & Hmh & Hf & Hit)]; [now left |].
      right. exists h, it, mh. split; [exact Hp |]. split; [| now split].
      assert (Hh : h <> q) by (eapply Hnh; [exact Hmh | now right]).
      now rewrite (mupd_other _ _ _ _ _ Hu Hh). }
  apply (memo_ok_transfer st st s s' p mp Hok (fun H => H)).
  - intros Ho. now destruct (kind_of_own _ _ _ _ Hok Ho) as (_ & Hb & _).
  - exact Hdone.
  - intros h it Hp mh Hmh. left.
    destruct (memo_ok_head _ _ _ _ _ _ Hok Hp) as (mh0 & Hmh0 & Hk & _).
    assert (Hh : h <> q) by (eapply Hnh; eassumption).
    split; [now rewrite (mupd_other _ _ _ _ _ Hu Hh) |].
    split; [now apply (hv_other _ _ _ _ _ Hu) |].
    intros He Hnf d Hpa. apply (partat_upd _ _ _ _ _ _ _ Hu); [| exact Hpa].
    intros ->. destruct Hpa as (md & Hmd & Hpd). rewrite Hmq in Hmd. injection Hmd as <-.
    destruct (part_inj _ _ _ _ _ _ Hpd Hpq) as [-> ->]. rewrite Hmhq in Hmh. injection Hmh as <-. congruence.
Qed.

Lemma settle_new hl st s s' q m hq itq mhq :
  Inv hl st s -> mupd s s' q (with_final m true) -> c_memo s q = Some m ->
  part q hq itq m -> c_memo s hq = Some mhq -> cm_final mhq = true -> iter_of mhq = itq ->
  memo_ok st s' q (with_final m true).
Proof.
  intros HI Hu Hmq Hpq Hmhq Hfq Hitq.
  assert (Hok := iv_memo _ _ _ HI q m Hmq).
  assert (Hd : done s q).
  { exists m. split; [exact Hmq |]. right. exists hq, itq, mhq. split; [exact Hpq |]. split; [exact Hmhq |]. now split. }
  destruct (done_val _ _ _ _ HI Hd) as (m1 & Hm1 & Hv & Hn & Hs). rewrite Hmq in Hm1. injection Hm1 as <-.
  destruct Hok as [Hns Hver Hchg Hval Hkind].
  constructor; try assumption.
  left. split; [reflexivity |]. split; [exact Hv |]. split; [exact Hn |]. split.
  - destruct Hkind as [Hf | [Hk | Hk]].
    + destruct Hf as (Hf & _). destruct Hpq as (Hnf & _). congruence.
    + destruct Hk as (Ho & _). exfalso. eapply own_not_part; eassumption.
    + destruct Hk as (h & it & mh & Hp & _ & _ & _ & _ & Hit12 & Hmi & _).
      destruct Hp as (_ & He & _). unfold iter_of. cbn. rewrite He. lia.
  - intros d Hdd. specialize (Hs d Hdd).
    destruct Hs as (md & Hmd & Hk). destruct (key_eqb_spec d q) as [-> | Hdq].
    + exists (with_final m true). split; [apply (mupd_same _ _ _ _ Hu) | now left].
    + exists md. split; [now rewrite (mupd_other _ _ _ _ _ Hu Hdq) |].
      destruct Hk as [Hf | (h & it & mh & Hp & Hmh & Hf & Hit)]; [now left |].
      right. exists h, it, mh. split; [exact Hp |]. split; [| now split].
      assert (Hh : h <> q).
      { intros ->. rewrite Hmq in Hmh. injection Hmh as <-. destruct Hpq as (Hnf & _). congruence. }
      now rewrite (mupd_other _ _ _ _ _ Hu Hh).
Qed.



(* a node of the stack whose memo is not its own head memo has no usable memo *)
Lemma stack_idle hl st s q : Inv hl st s -> In q st ->
  (forall m, c_memo s q = Some m -> ~ own q m) -> idle s q.
Proof.
  intros HI Hq Hno. unfold idle. destruct (c_memo s q) as [m |] eqn:Hm; [| exact I].
  destruct (mo_kind _ _ _ _ (iv_memo _ _ _ HI q m Hm)) as [Hf | [Hk | Hk]].
  - destruct Hf as (_ & _ & Hn & _). contradiction.
  - destruct Hk as (Ho & _). exfalso. now apply (Hno m).
  - destruct Hk as (h & it & mh & Hp & _ & Hmh & _ & _ & _ & _ & Hlive & Hset).
    exists h, it, mh. split; [exact Hp |]. split; [exact Hmh |]. intros He.
    destruct (cm_final mh) eqn:Hf.
    + now destruct (Hset He eq_refl) as (_ & Hn & _).
    + now destruct (Hlive He eq_refl) as (_ & Hn & _).
Qed.

(* ---------------------------------------------------------------- changes outside the memo table *)
Lemma memo_ok_ext st s s' p m : (forall x, c_memo s' x = c_memo s x) -> memo_ok st s p m -> memo_ok st s' p m.
Proof.
  intros He Hok. apply (memo_ok_transfer st st s s' p m Hok (fun H => H)).
  - intros Ho. now destruct (kind_of_own _ _ _ _ Hok Ho) as (_ & Hb & _).
  - intros d (md & Hmd & Hd). exists md. split; [now rewrite He |].
    destruct Hd as [Hf | (h & it & mh & Hp & Hmh & Hr)]; [now left |].
    right. exists h, it, mh. split; [exact Hp |]. split; [now rewrite He | exact Hr].
  - intros h it _ mh Hmh. left. split; [now rewrite He |]. split; [unfold hv; now rewrite He |].
    intros _ _ d (md & Hmd & Hp). exists md. split; [now rewrite He | exact Hp].
Qed.

Lemma Inv_sync hl hl' st s s' :
  Inv hl st s -> (forall x, c_memo s' x = c_memo s x) ->
  c_in s' = c_in s -> c_cell s' = c_cell s -> c_pcell s' = c_pcell s -> c_revs s' = c_revs s ->
  c_ccount s' = c_ccount s ->
  (forall q, In q hl' <-> held s' q) ->
  (forall q y, c_sync s' q = Some y -> sy_twice y = true -> sy_trans y = false) ->
  Inv hl' st s'.
Proof.
  intros HI Hm H1 H2 H3 H4 H5 Hh Ht. constructor.
  - rewrite H1. apply (iv_in _ _ _ HI).
  - rewrite H2. apply (iv_cell _ _ _ HI).
  - rewrite H3. apply (iv_pcell _ _ _ HI).
  - rewrite H4. apply (iv_revs _ _ _ HI).
  - rewrite H5. apply (iv_cc _ _ _ HI).
  - apply (iv_nd _ _ _ HI).
  - apply (iv_incl _ _ _ HI).
  - apply (iv_chain _ _ _ HI).
  - exact Hh.
  - exact Ht.
  - intros q m Hq. rewrite Hm in Hq. apply (memo_ok_ext st s s' q m Hm). now apply (iv_memo _ _ _ HI).
Qed.

(* the same state with an unrelated field changed *)
Lemma Inv_same hl st s s' :
  Inv hl st s -> (forall x, c_memo s' x = c_memo s x) -> c_sync s' = c_sync s ->
  c_in s' = c_in s -> c_cell s' = c_cell s -> c_pcell s' = c_pcell s -> c_revs s' = c_revs s ->
  c_ccount s' = c_ccount s -> Inv hl st s'.
Proof.
  intros HI Hm Hs H1 H2 H3 H4 H5. apply (Inv_sync hl hl st s s' HI Hm H1 H2 H3 H4 H5).
  - intros q. unfold held. rewrite Hs. apply (iv_sync _ _ _ HI).
  - intros q y. rewrite Hs. apply (iv_twice _ _ _ HI).
Qed.

(* q starts executing *)
Lemma Inv_push hl st s q :
  Inv hl st s -> ~ In q st -> In q ns -> chain (q :: st) -> idle s q -> Inv hl (q :: st) s.
Proof.
  intros HI Hnq Hqn Hch Hidle. constructor; try apply HI.
  - constructor; [exact Hnq | apply (iv_nd _ _ _ HI)].
  - intros x [<- | Hx]; [exact Hqn | now apply (iv_incl _ _ _ HI)].
  - exact Hch.
  - intros p m Hm. assert (Hok := iv_memo _ _ _ HI p m Hm).
    destruct (key_eqb_spec p q) as [-> | Hpq].
    + unfold idle in Hidle. rewrite Hm in Hidle. destruct Hidle as (h & it & mh & Hp & Hmh & Hne).
      destruct Hok as [Hns Hver Hchg Hval Hkind]. constructor; try assumption.
      right; right. destruct Hkind as [Hf | [Hk | Hk]].
      * destruct Hf as (Hf & _). destruct Hp as (Hnf & _). congruence.
      * destruct Hk as (Ho & _). exfalso. eapply own_not_part; eassumption.
      * destruct Hk as (h' & it' & mh' & Hp' & Hnp & Hmh' & Hk & Hle & Hit12 & Hmi & _).
        destruct (part_inj _ _ _ _ _ _ Hp Hp') as [<- <-]. rewrite Hmh in Hmh'. injection Hmh' as <-.
        exists h, it, mh. split; [exact Hp |]. split; [exact Hnp |]. split; [exact Hmh |].
        split; [exact Hk |]. split; [exact Hle |]. split; [exact Hit12 |]. split; [exact Hmi |].
        split; intros He; contradiction.
    + apply (memo_ok_transfer st (q :: st) s s p m Hok).
      * intros Hn [Heq | Hx]; [congruence | contradiction].
      * intros Ho. apply bottom_push; [congruence |]. now destruct (kind_of_own _ _ _ _ Hok Ho) as (_ & Hb & _).
      * intros d Hd. exact Hd.
      * intros h it _ mh Hmh. left. split; [exact Hmh |]. split; [reflexivity |]. intros _ _ d Hd. exact Hd.
Qed.


(* ---------------------------------------------------------------- calling back into the stack *)
Lemma below_chain st d : chain st -> In d st ->
  match below st d with [] => True | d' :: _ => In d (sc d') end.
Proof.
  induction st as [| x r IH]; intros Hc Hd; [contradiction |].
  cbn [below]. destruct (key_eqb_spec x d) as [-> | Hne].
  - destruct r as [| x' r']; [exact I |]. now destruct Hc as [Hc _].
  - destruct Hd as [Heq | Hd]; [congruence |]. apply IH; [| exact Hd].
    destruct r as [| x' r']; [exact I | now destruct Hc as [_ Hc]].
Qed.

Lemma mono_below_mono st d : mono lvl st -> mono lvl (below st d).
Proof.
  induction st as [| x r IH]; intros Hm; [exact I |].
  cbn [below]. destruct Hm as [_ Hm]. destruct (key_eqb x d); [exact Hm | now apply IH].
Qed.

Lemma chain_above q r y : chain (q :: r) -> In y r -> exists y', In y' (q :: r) /\ In y' (sc y).
Proof.
  revert q. induction r as [| y1 r' IH]; intros q Hc Hy; [contradiction |].
  destruct Hc as [Hq Hc]. destruct Hy as [<- | Hy].
  - exists q. split; [now left | exact Hq].
  - destruct (IH y1 Hc Hy) as (y' & Hin & Hs). exists y'. split; [now right | exact Hs].
Qed.

Lemma stack_callback hl st s q r d :
  Inv hl st s -> st = q :: r -> In d (sc q) -> In d st ->
  nxt q = Some d /\ bottom lvl st d /\ lvl d = lvl q.
Proof.
  intros HI -> Hd Hin.
  assert (Hm := chain_mono _ (iv_incl _ _ _ HI) (iv_chain _ _ _ HI)).
  assert (Hqn : In q ns) by (apply (iv_incl _ _ _ HI); now left).
  assert (Hle : (lvl q <= lvl d)%nat).
  { destruct Hin as [<- | Hin]; [lia |]. destruct Hm as [Hm _]. now apply Hm. }
  destruct (Hcalls q d Hqn Hd) as [_ [Hlt | Hn]]; [lia |].
  destruct (Hnxt q d Hn) as (Hl & _).
  split; [exact Hn |]. split; [| exact Hl].
  split; [exact Hin |]. intros q' Hq'.
  assert (Hbc := below_chain _ d (iv_chain _ _ _ HI) Hin).
  assert (Hbm := mono_below_mono _ d Hm).
  assert (Hbi := below_incl (q :: r) d).
  destruct (below (q :: r) d) as [| d' b'] eqn:Eb; [contradiction |].
  assert (Hd'n : In d' ns) by (apply (iv_incl _ _ _ HI), Hbi; now left).
  assert (Hlt : (lvl d < lvl d')%nat).
  { destruct (Hcalls d' d Hd'n Hbc) as [_ [Hlt | Hn']]; [exact Hlt |].
    exfalso. assert (Heq := Hinj _ _ _ Hn' Hn). subst d'.
    assert (Hnd := iv_nd _ _ _ HI). apply NoDup_cons_iff in Hnd as [Hnq _]. apply Hnq.
    cbn [below] in Eb. destruct (key_eqb q d).
    - rewrite Eb. now left.
    - apply (below_incl r d). rewrite Eb. now left. }
  destruct Hq' as [<- | Hq']; [exact Hlt |].
  destruct Hbm as [Hbm _]. specialize (Hbm q' Hq'). lia.
Qed.

Lemma stack_closed hl st s q r d :
  Inv hl st s -> st = q :: r -> In d (sc q) -> In d st -> forall x, npath d x -> In x st.
Proof.
  intros HI Hst Hd Hin.
  destruct (stack_callback _ _ _ _ _ _ HI Hst Hd Hin) as (Hn & _ & Hl). subst st.
  assert (Hm := chain_mono _ (iv_incl _ _ _ HI) (iv_chain _ _ _ HI)).
  assert (Hstep : forall y z, In y (q :: r) -> lvl y = lvl q -> nxt y = Some z -> In z (q :: r) /\ lvl z = lvl q).
  { intros y z Hy Hly Hyz. destruct Hy as [<- | Hy].
    - rewrite Hn in Hyz. injection Hyz as <-. now split.
    - destruct (chain_above q r y (iv_chain _ _ _ HI) Hy) as (y' & Hy' & Hs).
      assert (Hyn : In y ns) by (apply (iv_incl _ _ _ HI); now right).
      assert (Hge : (lvl q <= lvl y')%nat).
      { destruct Hy' as [<- | Hy']; [lia |]. destruct Hm as [Hm _]. now apply Hm. }
      destruct (Hcalls y y' Hyn Hs) as [_ [Hlt | Hn']]; [lia |].
      rewrite Hn' in Hyz. injection Hyz as <-. split; [exact Hy' |].
      destruct (Hnxt y y' Hn') as (He & _). lia. }
  assert (Hgen : forall y x, npath y x -> In y (q :: r) -> lvl y = lvl q -> In x (q :: r)).
  { intros y x Hp. induction Hp as [y h Hyh | y z h Hyz _ IH]; intros Hy Hly.
    - now destruct (Hstep y h Hy Hly Hyh).
    - destruct (Hstep y z Hy Hly Hyz) as [Hz Hlz]. now apply IH. }
  intros x Hp. now apply (Hgen d x Hp).
Qed.


(* ---------------------------------------------------------------- rings *)
Lemma done_npath hl st s x y : Inv hl st s -> npath x y -> done s x -> done s y.
Proof.
  intros HI Hp. induction Hp as [x y Hxy | x d y Hxd _ IH]; intros Hd.
  - destruct (done_val _ _ _ _ HI Hd) as (m & _ & _ & _ & Hs). apply Hs, Hreal, Hxy.
  - apply IH. destruct (done_val _ _ _ _ HI Hd) as (m & _ & _ & _ & Hs). apply Hs, Hreal, Hxd.
Qed.

Lemma own_ring hl st s b mb : Inv hl st s -> c_memo s b = Some mb -> own b mb ->
  npath b b /\ forall x, npath b x -> npath x b.
Proof.
  intros HI Hmb Ho. now destruct (kind_of_own _ _ _ _ (iv_memo _ _ _ HI b mb Hmb) Ho) as (_ & _ & _ & _ & _ & Hr & _).
Qed.

(* nothing on the ring of an active head is done *)
Lemma own_ring_not_done hl st s b mb x : Inv hl st s -> c_memo s b = Some mb -> own b mb ->
  (npath x b \/ npath b x) -> ~ done s x.
Proof.
  intros HI Hmb Ho Hx Hd.
  destruct (own_ring _ _ _ _ _ HI Hmb Ho) as [_ Hc].
  assert (Hxb : npath x b) by (destruct Hx as [H | H]; [exact H | now apply Hc]).
  apply (own_not_done _ _ _ _ _ HI Hmb Ho). eapply done_npath; eassumption.
Qed.

(* all same-level frames reach whatever the top frame reaches *)
Lemma stack_reaches t : forall st', incl st' ns -> chain st' -> forall q' r', st' = q' :: r' ->
  npath q' t -> forall y, In y st' -> lvl y = lvl q' -> npath y t.
Proof.
  induction st' as [| a r IH]; intros Hin Hc q' r' Heq Ht y Hy Hl; [discriminate |].
  injection Heq as -> ->. destruct Hy as [<- | Hy]; [exact Ht |].
  destruct r' as [| y1 r'']; [contradiction |].
  assert (Hm := chain_mono _ Hin Hc). destruct Hm as [Hq' Hm].
  assert (Hr : incl (y1 :: r'') ns) by (intros x Hx; apply Hin; now right).
  destruct Hc as [Hcall Hc].
  assert (Hl1 : lvl y1 = lvl q').
  { assert (H1 := Hq' y1 (or_introl eq_refl)). assert (H2 := Hq' y Hy).
    destruct Hy as [<- | Hy]; [exact Hl |]. destruct Hm as [Hm1 _]. specialize (Hm1 y Hy). lia. }
  assert (Hn1 : nxt y1 = Some q').
  { destruct (Hcalls y1 q' (Hr y1 (or_introl eq_refl)) Hcall) as [_ [Hlt | Hn]]; [lia | exact Hn]. }
  apply (IH Hr Hc y1 r'' eq_refl); [now apply (np_step y1 q' t) | exact Hy | lia].
Qed.

Lemma stack_cycle hl st s q r d :
  Inv hl st s -> st = q :: r -> In d (sc q) -> In d st ->
  npath d d /\ forall x, npath d x -> npath x d.
Proof.
  intros HI Hst Hd Hin.
  destruct (stack_callback _ _ _ _ _ _ HI Hst Hd Hin) as (Hn & _ & Hl).
  assert (Hall : forall y, In y st -> lvl y = lvl q -> npath y d).
  { intros y Hy Hly. apply (stack_reaches d st (iv_incl _ _ _ HI) (iv_chain _ _ _ HI) q r Hst); [now constructor | exact Hy | exact Hly]. }
  split.
  - apply Hall; [exact Hin | exact Hl].
  - intros x Hx. apply Hall.
    + eapply stack_closed; eassumption.
    + rewrite (npath_lvl _ _ Hx). exact Hl.
Qed.


Lemma part_npath hl st s d m h it : Inv hl st s -> c_memo s d = Some m -> part d h it m -> npath d h.
Proof.
  intros HI Hm Hp. destruct (mo_kind _ _ _ _ (iv_memo _ _ _ HI d m Hm)) as [Hf | [Hk | Hk]].
  - destruct Hf as (Hf & _). destruct Hp as (Hnf & _). congruence.
  - destruct Hk as (Ho & _). exfalso. eapply own_not_part; eassumption.
  - destruct Hk as (h' & it' & mh & Hp' & Hnp & _). destruct (part_inj _ _ _ _ _ _ Hp Hp') as [-> _]. exact Hnp.
Qed.


(* ---------------------------------------------------------------- closed walks along the stack *)
Lemma chain_suffix l1 : forall l2, chain (l1 ++ l2) -> chain l2.
Proof.
  induction l1 as [| a l1 IH]; intros l2 Hc; [exact Hc |].
  apply IH. cbn [app] in Hc. destruct (l1 ++ l2) as [| b r] eqn:E; [destruct l1; [cbn in E; subst; exact I | discriminate] |].
  now destruct Hc.
Qed.

Lemma chain_walk_up l1 : forall x l2, chain (l1 ++ x :: l2) -> walk sc (length l1) x (hd x l1).
Proof.
  induction l1 as [| a l1 IH]; intros x l2 Hc; [reflexivity |].
  cbn [app] in Hc. cbn [hd length].
  assert (Hc' : chain (l1 ++ x :: l2)).
  { destruct (l1 ++ x :: l2) as [| b r] eqn:E; [exact I | now destruct Hc]. }
  specialize (IH x l2 Hc').
  assert (Ha : In a (sc (hd x l1))).
  { destruct l1 as [| b l1']; cbn [app hd] in *; now destruct Hc. }
  replace (S (length l1)) with (length l1 + 1)%nat by lia.
  apply (walk_app sc (length l1) 1 x (hd x l1) a IH). cbn. exists a. now split.
Qed.

Lemma split_above (st : list qkey) x d : In x st -> ~ In x (below st d) -> x <> d ->
  In d st -> exists l1 l2 l3, st = l1 ++ x :: l2 ++ d :: l3.
Proof.
  induction st as [| a r IH]; intros Hx Hnb Hne Hd; [contradiction |].
  cbn [below] in Hnb. destruct (key_eqb_spec a d) as [-> | Had].
  - destruct Hx as [Heq | Hx]; [congruence | contradiction].
  - destruct Hd as [Heq | Hd]; [congruence |].
    destruct Hx as [<- | Hx].
    + apply in_split in Hd as (l2 & l3 & ->). exists [], l2, l3. reflexivity.
    + destruct (IH Hx Hnb Hne Hd) as (l1 & l2 & l3 & ->). exists (a :: l1), l2, l3. reflexivity.
Qed.

Lemma split_at (st : list qkey) d : In d st -> exists l1 l3, st = l1 ++ d :: l3.
Proof. intros H. apply in_split in H as (l1 & l3 & ->). now exists l1, l3. Qed.

Lemma stack_cyc hl st s q r d :
  Inv hl st s -> st = q :: r -> In d (sc q) -> In d st ->
  cyc d = true /\ forall x, npath d x -> cyc x = true.
Proof.
  intros HI Hst Hd Hin.
  destruct (stack_callback _ _ _ _ _ _ HI Hst Hd Hin) as (Hn & (_ & Hbot) & Hl).
  assert (Hlen : (length st <= length ns)%nat) by (apply NoDup_incl_length; [apply (iv_nd _ _ _ HI) | apply (iv_incl _ _ _ HI)]).
  assert (Hch := iv_chain _ _ _ HI).
  assert (Hmem : forall x, In x st -> lvl x = lvl d -> cyc x = true).
  { intros x Hx Hlx. apply (cycn_walk prog sn ns x). split; [now apply (iv_incl _ _ _ HI) |].
    assert (Hnb : ~ In x (below st d)). { intros Hb. specialize (Hbot x Hb). lia. }
    destruct (key_eqb_spec x d) as [-> | Hne].
    - destruct (split_at st d Hin) as (l1 & l3 & Hs).
      assert (Hup : walk sc (length l1) d q).
      { assert (H := chain_walk_up l1 d l3). rewrite <- Hs in H. specialize (H Hch).
        replace (hd d l1) with q in H; [exact H |]. rewrite Hst in Hs. destruct l1; injection Hs; intros; subst; reflexivity. }
      exists (length l1). split.
      + rewrite Hs, app_length in Hlen. cbn in Hlen. lia.
      + replace (S (length l1)) with (length l1 + 1)%nat by lia.
        apply (walk_app sc _ 1 d q d Hup). exists d. now split.
    - destruct (split_above st x d Hx Hnb Hne Hin) as (l1 & l2 & l3 & Hs).
      assert (Hup : walk sc (length l1) x q).
      { assert (H := chain_walk_up l1 x (l2 ++ d :: l3)). rewrite <- Hs in H. specialize (H Hch).
        replace (hd x l1) with q in H; [exact H |]. rewrite Hst in Hs. destruct l1; injection Hs; intros; subst; reflexivity. }
      assert (Hdx : walk sc (length (x :: l2)) d x).
      { assert (Hc2 : chain ((x :: l2) ++ d :: l3)).
        { apply (chain_suffix l1). rewrite Hs in Hch. exact Hch. }
        exact (chain_walk_up (x :: l2) d l3 Hc2). }
      exists (length l1 + length (x :: l2))%nat. split.
      + rewrite Hs, !app_length in Hlen. cbn [length] in *. rewrite app_length in Hlen. cbn [length] in Hlen. lia.
      + replace (S (length l1 + length (x :: l2))) with (length l1 + (1 + length (x :: l2)))%nat by lia.
        apply (walk_app sc _ _ x q x Hup). apply (walk_app sc 1 _ q d x); [| exact Hdx].
        exists d. now split. }
  split.
  - now apply Hmem.
  - intros x Hx. apply Hmem.
    + eapply stack_closed; eassumption.
    + apply (npath_lvl _ _ Hx).
Qed.

(* every frame of the top level reaches the top frame along same-level calls *)
Lemma stack_down : forall st', incl st' ns -> chain st' -> forall q' r', st' = q' :: r' ->
  forall y, In y st' -> lvl y = lvl q' -> y = q' \/ npath y q'.
Proof.
  induction st' as [| a r IH]; intros Hin Hc q' r' Heq y Hy Hl; [discriminate |].
  injection Heq as -> ->. destruct Hy as [<- | Hy]; [now left |]. right.
  destruct r' as [| y1 r'']; [contradiction |].
  assert (Hm := chain_mono _ Hin Hc). destruct Hm as [Hq' Hm].
  assert (Hr : incl (y1 :: r'') ns) by (intros x Hx; apply Hin; now right).
  destruct Hc as [Hcall Hc].
  assert (Hl1 : lvl y1 = lvl q').
  { assert (H1 := Hq' y1 (or_introl eq_refl)). assert (H2 := Hq' y Hy).
    destruct Hy as [<- | Hy]; [exact Hl |]. destruct Hm as [Hm1 _]. specialize (Hm1 y Hy). lia. }
  assert (Hn1 : nxt y1 = Some q').
  { destruct (Hcalls y1 q' (Hr y1 (or_introl eq_refl)) Hcall) as [_ [Hlt | Hn]]; [lia | exact Hn]. }
  destruct (IH Hr Hc y1 r'' eq_refl y Hy) as [-> | Hp]; [lia | now constructor |].
  apply (npath_trans y y1 q' Hp). now constructor.
Qed.

Lemma callback_memo hl st s q r d :
  Inv hl st s -> st = q :: r -> In d (sc q) -> In d st ->
  c_memo s d = None \/ exists m, c_memo s d = Some m /\ own d m.
Proof.
  intros HI Hst Hd Hin. destruct (c_memo s d) as [m |] eqn:Hm; [| now left]. right.
  exists m. split; [reflexivity |].
  destruct (stack_callback _ _ _ _ _ _ HI Hst Hd Hin) as (Hn & Hb & Hl).
  destruct (mo_kind _ _ _ _ (iv_memo _ _ _ HI d m Hm)) as [Hf | [Hk | Hk]].
  - destruct Hf as (_ & _ & Hnin & _). contradiction.
  - now destruct Hk as (Ho & _).
  - exfalso. destruct Hk as (h & it & mh & Hp & Hnp & Hmh & Hk & _).
    destruct Hk as [Ho | Hf].
    + destruct (kind_of_own _ _ _ _ (iv_memo _ _ _ HI h mh Hmh) Ho) as (_ & Hbh & _).
      assert (Heq : h = d).
      { apply (bottom_unique lvl st h d Hbh Hb). now apply npath_lvl. }
      destruct Hp as (_ & _ & _ & Hne). contradiction.
    + assert (Hdn : done s h) by (exists mh; split; [exact Hmh | now left]).
      apply (done_not_stack _ _ _ _ HI Hdn). eapply stack_closed; eassumption.
Qed.

End Fresh.

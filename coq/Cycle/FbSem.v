(* Cycle/FbSem.v — facts about [spec_fallback] used by the fresh-revision theorem for fallback
   cycles (C13_fresh): its value on cyclic and on other nodes, and closed walks along a chain of
   calls (a query stack). *)
From Coq Require Import PeanoNat.
From Salsa Require Import Base.
From Salsa.Core Require Import Model Spec.
From Salsa.Cycle Require Import Spec SpecProofs FallbackProofs.

Section FbSem.
Variable prog : qkey -> body.
Variable sn : snapshot.
Variable fb : qkey -> val.
Variable ns : list qkey.
Variable rank : qkey -> nat.

Notation g := (succs prog sn).
Definition cycn (q : qkey) : bool := mem q (cyclic_nodes g ns).
Notation SV := (spec_fallback prog sn fb ns).

Hypothesis Hdet : input_determined prog sn.
Hypothesis Hrank : forall q q', cycn q = false -> In q' (g q) -> cycn q' = false -> (rank q' < rank q)%nat.
Hypothesis Hrb : forall q, (rank q < length ns)%nat.

Lemma SV_cyc q : cycn q = true -> SV q = fb q.
Proof. intros H. unfold spec_fallback. cbn [spec_fb]. fold (cycn q). now rewrite H. Qed.

Lemma SV_body q : cycn q = false -> SV q = F prog sn SV q.
Proof.
  intros H.
  rewrite <- (spec_fallback_wd prog sn fb ns rank Hdet Hrank Hrb (S (S (length ns))) q) by lia.
  cbn [spec_fb]. fold (cycn q). rewrite H. reflexivity.
Qed.

Lemma cycn_walk q : cycn q = true <-> In q ns /\ exists k, (k <= length ns)%nat /\ walk g (S k) q q.
Proof.
  unfold cycn, cyclic_nodes. rewrite mem_In, filter_In, on_cycle_spec. reflexivity.
Qed.

End FbSem.

(* ---------------------------------------------------------------- walks along a chain *)
Section Chain.
Variable g : qkey -> list qkey.

Lemma walk_app a b x y z : walk g a x y -> walk g b y z -> walk g (a + b) x z.
Proof.
  revert x. induction a as [| a IH]; intros x Hxy Hyz; cbn in *.
  - now subst.
  - destruct Hxy as (w & Hw & Hwy). exists w. split; [exact Hw | now apply IH].
Qed.

End Chain.

(* Cycle/EpochFetch.v — the loop, execute, fetch and maybe_changed_after preserve the epoch
   invariant at every fuel level. *)
From Coq Require Import PeanoNat.
From Salsa Require Import Base.
From Salsa.gen Require Import Kernels.
From Salsa.Kern Require Import CoreK K4_Stamp.
From Salsa.Cycle Require Import StampK Model ModelProofs EpochInv EpochOps EpochRound.

Section Fetch.
Context {E : ectx}.
Notation prog := (@eprog E).
Notation strat := (@estrat E).
Notation cinit := (@ecinit E).

Lemma goodst_max_inv s ls hm : loop_inv (c_ccount s) ls -> goodst s hm ->
  stamp_wf (N.max (ls_iter ls) hm) /\ stamp_ccount (N.max (ls_iter ls) hm) = c_ccount s.
Proof.
  intros [Hw Hc] [-> | [Hgw Hgc]].
  - unfold stamp_default. rewrite N.max_0_r. now split.
  - destruct (stamp_max_wf (ls_iter ls) hm Hw Hgw) as (H1 & H2 & _); [congruence |]. split; [exact H1 | congruence].
Qed.

Lemma heads_update_nonempty hs k it : hs <> [] -> heads_update hs k it <> [].
Proof. destruct hs; [intros H; contradiction | intros _; discriminate]. Qed.

Lemma poison_ok s0 q s : SI s -> ext s0 s -> rcv q -> SI (fst (poison q s)) /\ ext s0 (fst (poison q s)).
Proof.
  intros HS He Hr. unfold poison. cbn [fst].
  destruct HS as [Hlt Hall]. assert (HS : SI s) by (split; assumption).
  destruct (stamp_initial_wf (c_ccount s) Hlt) as [Hw Hc].
  set (m := initial_memo q None (ccur s) (stamp_initial (c_ccount s))).
  assert (Hok : head_memo_ok s m) by (right; left; reflexivity).
  destruct (put_SI s q m HS) as [H1 H2].
  - exact Hw.
  - apply N.le_refl.
  - intros _ _. change (stamp_ccount (stamp_initial (c_ccount s)) <= c_ccount s). rewrite Hc. apply N.le_refl.
  - intros _. discriminate.
  - intros _ _ x [<- | []]. now apply hd_ok_put_self.
  - intros _. exact Hok.
  - split; [exact H1 | eapply ext_trans; eassumption].
Qed.

Section Level.
Variable L : clower.
Hypothesis HLf : Lfetch_ok L.
Hypothesis HLm : Lmca_ok L.
Variable n : nat.

Definition out_epost (s' : cdb) (out : val * cmemo * rmode) : Prop :=
  let '(v, rv, mode) := out in
  rev_ok s' rv /\ (cm_final rv = false -> stamp_ccount (iter_of rv) = c_ccount s').

Lemma gwp_iter_loop q : rcv q -> forall k s0 ls s,
  SI s -> ext s0 s -> loop_inv (c_ccount s) ls ->
  gwp s0 (iter_loop prog strat cinit k n L q ls) out_epost s.
Proof.
  intros Hrq. induction k as [| k IH]; intros s0 ls s HS He0 Hinv; cbn [iter_loop].
  - apply gwp_nofuel; assumption.
  - apply (gwp_ref s s0 _ _ _ He0). assert (He := ext_refl s).
    eapply gwp_bind; [apply (gwp_round L HLf n q s ls s HS He Hinv) |].
    intros s1 out HS1 He1 Hout. destruct out as [v rv mode | hm v rv heads]; cbn in Hout.
    + apply gwp_ret; [exact HS1 | exact He1 | exact Hout].
    + destruct Hout as (Hg & Hho & Hnn & Hlv).
      assert (Hcc1 : c_ccount s1 = c_ccount s) by apply He1.
      assert (Hinv1 : loop_inv (c_ccount s1) ls) by (now rewrite Hcc1).
      destruct (goodst_max_inv s1 ls hm Hinv1 Hg) as [Hmw Hmc].
      destruct (stamp_increment (N.max (ls_iter ls) hm)) as [it' |] eqn:Hi; [| apply gwp_fail; assumption].
      destruct (stamp_increment_wf _ _ Hmw Hi) as (Hw' & Hc' & _).
      unfold cemit. apply gwp_bind_modify.
      set (s2 := cset_log s1 _).
      assert (Hc2 : same_core s1 s2) by (now repeat split).
      destruct (same_core_SI s1 s2 Hc2 HS1) as [HS2 He12].
      unfold map_heads_memos. apply gwp_bind_modify.
      assert (Hcc2 : c_ccount s2 = c_ccount s1) by reflexivity.
      destruct (fold_iter it' (heads_not_eq heads q) s2 HS2 Hw') as [HS3 He23].
      { congruence. }
      { intros h Hh. unfold heads_not_eq in Hh. apply filter_In in Hh as [Hin Hne].
        apply Bool.negb_true_iff, key_eqb_neq in Hne.
        split; [apply (Hho h Hin) |].
        destruct (live_key_core q s1 s2 (fst h) Hc2 (Hlv h Hin)) as [Heq | Hx]; [contradiction | exact Hx]. }
      set (s3 := cset_memo s2 _) in *.
      assert (He3 : ext s s3) by (exact (ext_trans _ _ _ He1 (ext_trans _ _ _ He12 He23))).
      assert (Hho3 : heads_ok s3 heads).
      { apply (heads_ok_ext s2 s3 _ He23), (heads_ok_ext s1 s2 _ He12), Hho. }
      apply gwp_bind_get.
      assert (Hcur3 : ccur s3 = ccur s) by apply He3.
      assert (Hcc3 : c_ccount s3 = c_ccount s) by apply He3.
      set (m := with_value (with_final (with_heads rv (heads_update heads q it') it') false) (Some v) (ccur s3)).
      assert (Hcm : cur_memo s3 m) by (split; [reflexivity | change (stamp_ccount it' = c_ccount s3); congruence]).
      eapply gwp_bind.
      { apply (gwp_put s q m (fun _ _ => True) s3 HS3 He3).
        - exact Hw'.
        - apply N.le_refl.
        - intros _ _. change (stamp_ccount it' <= c_ccount s3). rewrite Hc', Hmc, Hcc3, Hcc1. apply N.le_refl.
        - intros _. cbn. now apply heads_update_nonempty.
        - intros _ _ x Hx. cbn in Hx. destruct (heads_update_in _ _ _ _ Hx) as [-> | Hin].
          + apply hd_ok_put_self; [exact Hw' | congruence | exact Hrq | right; right; exact Hcm].
          + apply (hd_ok_ext s3 _ _ (put_ext s3 q m (fun _ => or_intror (or_intror Hcm)))). now apply Hho3.
        - intros _. right; right. exact Hcm.
        - exact I. }
      intros s4 [] HS4 He4 _.
      apply IH; [exact HS4 | exact He4 |].
      assert (Hcc4 : c_ccount s4 = c_ccount s) by apply He4.
      split; cbn [ls_iter]; [exact Hw' | congruence].
Qed.

Lemma gwp_execute_iterate q old s0 s :
  rcv q -> SI s -> ext s0 s -> (forall o, old = Some o -> stamp_wf (iter_of o)) ->
  gwp s0 (execute_iterate prog strat cinit n L q old) out_epost s.
Proof.
  intros Hrq HS He Hold. unfold execute_iterate. apply gwp_bind_get.
  destruct HS as [Hlt Hall]. assert (HS : SI s) by (split; assumption).
  destruct (stamp_initial_wf (c_ccount s) Hlt) as [Hiw Hic].
  assert (Hloop : forall ls, loop_inv (c_ccount s) ls ->
            gwp s0 (on_panic (iter_loop prog strat cinit LOOP_FUEL n L q ls) (poison q)) out_epost s).
  { intros ls Hinv. apply gwp_on_panic; [now apply gwp_iter_loop |].
    intros s1 HS1 He1. now apply poison_ok. }
  assert (Hinit : forall lo, gwp s0 (st <- cret {| ls_iter := stamp_initial (c_ccount s); ls_last := None; ls_old := lo |} ;;
                                     on_panic (iter_loop prog strat cinit LOOP_FUEL n L q st) (poison q)) out_epost s).
  { intros lo. apply Hloop. now split. }
  destruct old as [o |]; [| apply Hinit].
  destruct (cm_verified o =? ccur s); [| apply Hinit].
  destruct (N.eqb_spec (stamp_ccount (iter_of o)) (c_ccount s)) as [Hcc | Hcc]; cbn [negb]; [| apply Hinit].
  destruct (cm_val o).
  - apply Hloop. split; [now apply Hold | exact Hcc].
  - apply gwp_bind with (R1 := fun _ _ => False); [apply gwp_fail; assumption | intros s1 a _ _ []].
Qed.

Lemma gwp_execute_panic q old s0 s :
  SI s -> ext s0 s ->
  gwp s0 (execute_panic prog L q old)
      (fun s' out => let '(v, rv, mode) := out in rev_ok s' rv) s.
Proof.
  intros HS He0. apply (gwp_ref s s0 _ _ _ He0). assert (He := ext_refl s).
  unfold execute_panic.
  eapply gwp_bind; [apply (gwp_run_query L HLf s q old s HS He) |].
  intros s1 [v fr] HS1 He1 Hfr. cbn [snd] in Hfr.
  eapply gwp_bind; [apply (gwp_corep s pop_query s1 corep_pop HS1 He1) |].
  intros s2 [] HS2 He2 Hc2. cbv beta in Hc2.
  apply gwp_ret; [exact HS2 | exact He2 |].
  destruct (fr_heads fr) as [| h0 hs0] eqn:Hh.
  - apply rev_ok_final; [reflexivity | apply complete_frame_wf, stamp_default_wf].
  - split; [apply stamp_default_wf |]. intros _.
    split; [discriminate |]. split; [| apply N.le_0_l].
    exact (same_core_heads s1 s2 _ Hc2 HS1 Hfr).
Qed.

Lemma cbackdate_fields old v rv rv1 : cbackdate old v rv = COk rv1 ->
  iter_of rv1 = iter_of rv /\ cm_final rv1 = cm_final rv /\ raw_heads rv1 = raw_heads rv.
Proof.
  unfold cbackdate. destruct old as [o |]; [| intros H; injection H as <-; now repeat split].
  destruct (_ && _ && _ && _).
  - destruct (changed_after (cm_changed o) (cm_changed rv)); [discriminate |].
    intros H. injection H as <-. now repeat split.
  - intros H. injection H as <-. now repeat split.
Qed.

Lemma out_memo_fields rv v r :
  iter_of (with_value (cdiscard_edges rv) (Some v) r) = iter_of rv /\
  cm_final (with_value (cdiscard_edges rv) (Some v) r) = cm_final rv /\
  raw_heads (with_value (cdiscard_edges rv) (Some v) r) = raw_heads rv /\
  cm_verified (with_value (cdiscard_edges rv) (Some v) r) = r.
Proof.
  unfold cdiscard_edges.
  destruct ((cm_dur rv =? D_NEVER) && negb (cm_untracked rv) && match raw_heads rv with [] => true | _ => false end);
    now repeat split.
Qed.

(* what a fetch-like step returns: a memo whose heads are good *)
Definition memo_epost (s' : cdb) (m : cmemo) : Prop :=
  stamp_wf (iter_of m) /\ heads_ok s' (heads_of m).

Lemma gwp_cexecute q mode0 old s0 s :
  SI s -> ext s0 s -> (forall o, old = Some o -> stamp_wf (iter_of o)) ->
  gwp s0 (cexecute prog strat cinit n L q mode0 old) memo_epost s.
Proof.
  intros HS He0 Hold. apply (gwp_ref s s0 _ _ _ He0). assert (He := ext_refl s).
  unfold cexecute. unfold cemit. apply gwp_bind_modify.
  set (s1 := cset_log s _).
  assert (Hc1 : same_core s s1) by (now repeat split).
  destruct (same_core_SI s s1 Hc1 HS) as [HS1 He1].
  set (R1 := fun (s' : cdb) (out : val * cmemo * rmode) =>
               let '(v, rv, mode) := out in
               rev_ok s' rv /\ (rcv q -> cm_final rv = false -> stamp_ccount (iter_of rv) = c_ccount s')).
  eapply (gwp_bind s _ _ R1).
  - destruct (recovers (strat_of strat q)) eqn:Hrec.
    + eapply gwp_conseq; [apply (gwp_execute_iterate q old s s1 Hrec HS1 He1 Hold) |].
      intros s' [[v rv] mode] _ _ [H1 H2]. split; [exact H1 | intros _; exact H2].
    + eapply gwp_bind; [apply (gwp_execute_panic q old s s1 HS1 He1) |].
      intros s2 [[v rv] mode] HS2 He2 Hrv. apply gwp_ret; [exact HS2 | exact He2 |].
      split; [exact Hrv |]. intros Hr. unfold rcv in Hr. congruence.
  - intros s2 [[v rv] mode] HS2 He2 [Hrv Hrc].
    destruct (cbackdate old v rv) as [rv1 | p |] eqn:Hbd; [| apply gwp_fail; assumption | apply gwp_nofuel; assumption].
    destruct (cbackdate_fields _ _ _ _ Hbd) as (Hi1 & Hf1 & Hh1).
    apply gwp_bind_get.
    destruct (out_memo_fields rv1 v (ccur s2)) as (Fi & Ff & Fh & Fv).
    set (m := with_value (cdiscard_edges rv1) (Some v) (ccur s2)) in *.
    destruct Hrv as [Hw Hnf].
    assert (Hio : iter_of m = iter_of rv) by congruence.
    assert (Hfo : cm_final m = cm_final rv) by congruence.
    assert (Hho : raw_heads m = raw_heads rv) by congruence.
    assert (Hok : rcv q -> head_memo_ok s2 m).
    { intros Hr. destruct (cm_final m) eqn:Hb; [now left |]. right; right. split; [exact Fv |].
      rewrite Hio. apply Hrc; [exact Hr | congruence]. }
    assert (Hep := put_ext s2 q m Hok).
    assert (Hhp : cm_final m = false -> heads_ok (put s2 q m) (raw_heads m)).
    { intros Hb. rewrite Hho. rewrite Hfo in Hb. destruct (Hnf Hb) as (_ & Hh & _).
      now apply (heads_ok_ext s2 _ _ Hep). }
    eapply gwp_bind.
    { apply (gwp_put s q m (fun s' _ => s' = put s2 q m) s2 HS2 He2).
      - rewrite Hio. exact Hw.
      - rewrite Fv. apply N.le_refl.
      - intros Hf _. rewrite Hio. rewrite Hfo in Hf. now destruct (Hnf Hf) as (_ & _ & Hle).
      - intros Hf. rewrite Hho. rewrite Hfo in Hf. now destruct (Hnf Hf).
      - intros _ Hf. now apply Hhp.
      - exact Hok.
      - reflexivity. }
    intros s3 [] HS3 He3 ->.
    eapply gwp_bind; [apply (gwp_corep s (drop_guard q mode) _ (corep_drop_guard q mode) HS3 He3) |].
    intros s4 [] HS4 He4 Hc4. cbv beta in Hc4.
    apply gwp_ret; [exact HS4 | exact He4 |].
    split; [rewrite Hio; exact Hw |].
    destruct (cm_final m) eqn:Hb.
    + rewrite (heads_of_final m Hb). apply heads_ok_nil.
    + rewrite (heads_of_prov m Hb). exact (same_core_heads _ s4 _ Hc4 HS3 (Hhp eq_refl)).
Qed.

Lemma gwp_fetch_cold_cycle q s0 s :
  SI s -> ext s0 s -> gwp s0 (fetch_cold_cycle strat cinit q) memo_epost s.
Proof.
  intros HS He0. apply (gwp_ref s s0 _ _ _ He0). assert (He := ext_refl s).
  unfold fetch_cold_cycle. destruct (recovers (strat_of strat q)) eqn:Hrec; cbn [negb]; [| apply gwp_fail; assumption].
  apply gwp_bind_get.
  destruct HS as [Hlt Hall]. assert (HS : SI s) by (split; assumption).
  destruct (stamp_initial_wf (c_ccount s) Hlt) as [Hiw Hic].
  assert (Hfresh : forall it, stamp_wf it -> stamp_ccount it = c_ccount s ->
            gwp s (put_memo q (initial_memo q (Some (cinit q)) (ccur s) it) ;;; cret (initial_memo q (Some (cinit q)) (ccur s) it))
                memo_epost s).
  { intros it Hw Hc. set (m := initial_memo q (Some (cinit q)) (ccur s) it).
    assert (Hcm : cur_memo s m) by (split; [reflexivity | exact Hc]).
    assert (Hok : head_memo_ok s m) by (right; right; exact Hcm).
    eapply gwp_bind.
    { apply (gwp_put s q m (fun s' _ => s' = put s q m) s HS He).
      - exact Hw.
      - apply N.le_refl.
      - intros _ _. change (stamp_ccount it <= c_ccount s). rewrite Hc. apply N.le_refl.
      - intros _. discriminate.
      - intros _ _ x [<- | []]. now apply hd_ok_put_self.
      - intros _. exact Hok.
      - reflexivity. }
    intros s1 [] HS1 He1 ->. apply gwp_ret; [exact HS1 | exact He1 |].
    split; [exact Hw |]. intros x [<- | []]. now apply hd_ok_put_self. }
  destruct (c_memo s q) as [m |] eqn:Hm; [| now apply Hfresh].
  destruct (Hall q m Hm) as [M1 M2 M3 M4 M5].
  destruct (cm_val m) as [v |].
  - destruct (N.eqb_spec (cm_verified m) (ccur s)) as [Hv | Hv]; cbn [andb]; [| now apply Hfresh].
    destruct (N.eqb_spec (stamp_ccount (iter_of m)) (c_ccount s)) as [Hc | Hc]; [| now apply Hfresh].
    destruct (heads_contains (raw_heads m) q) eqn:Hhc; [| now apply Hfresh].
    (* keep only q's own entries *)
    destruct (cm_extra m) eqn:Hex.
    2: { unfold raw_heads in Hhc. rewrite Hex in Hhc. discriminate. }
    set (m' := {| cm_val := Some v; cm_verified := cm_verified m; cm_changed := cm_changed m;
                  cm_dur := cm_dur m; cm_untracked := cm_untracked m; cm_edges := cm_edges m;
                  cm_final := cm_final m; cm_extra := true; cm_iter := cm_iter m;
                  cm_heads := filter (fun h => key_eqb (fst h) q) (cm_heads m);
                  cm_conv := cm_conv m |}).
    assert (Hio : iter_of m' = iter_of m) by (unfold iter_of, m'; cbn; now rewrite Hex).
    assert (Hcm : cur_memo s m) by (split; assumption).
    assert (Hcm' : cur_memo s m') by (split; [exact Hv | now rewrite Hio]).
    assert (Hsub : forall x, In x (raw_heads m') -> In x (raw_heads m)).
    { intros x Hx. unfold raw_heads, m' in Hx. cbn in Hx. apply filter_In in Hx as [Hx _].
      unfold raw_heads. now rewrite Hex. }
    assert (Hne' : raw_heads m' <> []).
    { unfold raw_heads, m'. cbn. unfold raw_heads in Hhc. rewrite Hex in Hhc. unfold heads_contains in Hhc.
      apply existsb_exists in Hhc as (x & Hx & Hk). intros Hn.
      assert (Hin : In x (filter (fun h => key_eqb (fst h) q) (cm_heads m))) by (apply filter_In; now split).
      rewrite Hn in Hin. contradiction. }
    assert (Hok : head_memo_ok s m') by (right; right; exact Hcm').
    assert (Hep := put_ext s q m' (fun _ => Hok)).
    assert (Hhp : cm_final m' = false -> heads_ok (put s q m') (raw_heads m')).
    { intros Hf x Hx. apply (hd_ok_ext s _ _ Hep). apply (M5 Hcm Hf). now apply Hsub. }
    eapply gwp_bind.
    { apply (gwp_put s q m' (fun s' _ => s' = put s q m') s HS He).
      - rewrite Hio. exact M1.
      - exact M2.
      - intros _ _. rewrite Hio, Hc. apply N.le_refl.
      - intros _. exact Hne'.
      - intros _ Hf. now apply Hhp.
      - intros _. exact Hok.
      - reflexivity. }
    intros s1 [] HS1 He1 ->. apply gwp_ret; [exact HS1 | exact He1 |].
    split; [rewrite Hio; exact M1 |].
    destruct (cm_final m') eqn:Hf; [rewrite (heads_of_final m' Hf); apply heads_ok_nil |].
    rewrite (heads_of_prov m' Hf). now apply Hhp.
  - destruct (negb (cm_final m) && (cm_verified m =? ccur s) && (stamp_ccount (iter_of m) =? c_ccount s));
      [apply gwp_fail; assumption | now apply Hfresh].
Qed.

Lemma panic_release q s0 : forall s1, SI s1 -> ext s0 s1 ->
  SI (fst (release_panicking q s1)) /\ ext s0 (fst (release_panicking q s1)).
Proof.
  intros s1 HS1 He1. destruct (same_core_SI s1 _ (core_release_panicking q s1) HS1) as [H1 H2].
  split; [exact H1 | eapply ext_trans; eassumption].
Qed.

Lemma gwp_fetch_cold q s0 s :
  SI s -> ext s0 s -> gwp s0 (cfetch_cold prog strat cinit n L q) memo_epost s.
Proof.
  intros HS He0. apply (gwp_ref s s0 _ _ _ He0). assert (He := ext_refl s).
  unfold cfetch_cold.
  eapply gwp_bind; [apply (gwp_corep s (try_claim q true) s (corep_try_claim q true) HS He) |].
  intros s1 c HS1 He1 Hc1. destruct c as [mode | inner]; [| now apply gwp_fetch_cold_cycle].
  apply gwp_on_panic; [| apply panic_release].
  apply gwp_bind_get.
  set (R1 := fun (s' : cdb) (ok : option cmemo) => forall m, ok = Some m -> memo_epost s' m).
  eapply (gwp_bind s _ _ R1).
  - destruct (c_memo s1 q) as [m |] eqn:Hm.
    + destruct (cm_val m).
      * eapply gwp_bind; [apply (gwp_verify_memo L HLm s q m s1 HS1 He1 (tbl_memo_of s1 q m HS1 Hm)) |].
        intros s2 [b m'] HS2 He2 (Hw & Hb). cbn [fst snd] in *.
        apply gwp_ret; [exact HS2 | exact He2 |]. intros m0 Hm0. destruct b; [| discriminate].
        injection Hm0 as <-. split; [exact Hw | now apply Hb].
      * apply gwp_ret; [exact HS1 | exact He1 |]. intros m0 Hm0. discriminate.
    + apply gwp_ret; [exact HS1 | exact He1 |]. intros m0 Hm0. discriminate.
  - intros s2 ok HS2 He2 Hok. destruct ok as [m |].
    + destruct (Hok m eq_refl) as [Hw Hh].
      eapply gwp_bind; [apply (gwp_corep s (drop_guard q mode) s2 (corep_drop_guard q mode) HS2 He2) |].
      intros s3 [] HS3 He3 Hc3. cbv beta in Hc3. apply gwp_ret; [exact HS3 | exact He3 |].
      split; [exact Hw | exact (same_core_heads s2 s3 _ Hc3 HS2 Hh)].
    + apply gwp_cexecute; [exact HS2 | exact He2 |].
      intros o Ho. apply (tbl_memo_of s1 q o HS1 Ho).
Qed.

Lemma gwp_fetch q s0 s :
  SI s -> ext s0 s -> gwp s0 (cfetch prog strat cinit n L q) (fun s' r => heads_ok s' (snd r)) s.
Proof.
  intros HS He. unfold cfetch.
  eapply gwp_bind; [apply (gwp_fetch_hot s0 q s HS He) |].
  intros s1 hot HS1 He1 Hhot.
  eapply gwp_bind with (R1 := memo_epost).
  - destruct hot as [m |].
    + destruct (Hhot m eq_refl) as [Hw Hf]. apply gwp_ret; [exact HS1 | exact He1 |].
      split; [exact Hw |]. rewrite (heads_of_final m Hf). apply heads_ok_nil.
    + now apply gwp_fetch_cold.
  - intros s2 m HS2 He2 [Hw Hh]. destruct (cm_val m); [| apply gwp_fail; assumption].
    apply gwp_ret; [exact HS2 | exact He2 | exact Hh].
Qed.

Lemma gwp_mca_cold q since s0 s :
  SI s -> ext s0 s -> gwp s0 (cmca_cold prog strat cinit n L q since) (fun _ _ => True) s.
Proof.
  intros HS He0. apply (gwp_ref s s0 _ _ _ He0). assert (He := ext_refl s).
  unfold cmca_cold.
  eapply gwp_bind; [apply (gwp_corep s (try_claim q false) s (corep_try_claim q false) HS He) |].
  intros s1 c HS1 He1 Hc1. destruct c as [mode | inner].
  2: { destruct (recovers (strat_of strat q)); [apply gwp_ret | apply gwp_fail]; try assumption. exact I. }
  apply gwp_on_panic; [| apply panic_release].
  apply gwp_bind_get.
  assert (Hdrop : forall s2 (b : bool), SI s2 -> ext s s2 ->
            gwp s (drop_guard q mode ;;; cret b) (fun _ _ => True) s2).
  { intros s2 b HS2 He2.
    eapply gwp_bind; [apply (gwp_corep s (drop_guard q mode) s2 (corep_drop_guard q mode) HS2 He2) |].
    intros s3 [] HS3 He3 _. apply gwp_ret; [exact HS3 | exact He3 | exact I]. }
  destruct (c_memo s1 q) as [old |] eqn:Hm; [| now apply Hdrop].
  eapply gwp_bind; [apply (gwp_verify_memo L HLm s q old s1 HS1 He1 (tbl_memo_of s1 q old HS1 Hm)) |].
  intros s2 [b m'] HS2 He2 _. cbn [fst snd].
  destruct b; [now apply Hdrop |].
  destruct (negb (cm_final m')); [now apply Hdrop |].
  destruct (cm_val old); [| now apply Hdrop].
  eapply gwp_bind.
  { apply (gwp_cexecute q mode (Some old) s s2 HS2 He2).
    intros o Ho. injection Ho as <-. apply (tbl_memo_of s1 q old HS1 Hm). }
  intros s3 mnew HS3 He3 _. apply gwp_ret; [exact HS3 | exact He3 | exact I].
Qed.

Lemma gwp_mca q since s0 s :
  SI s -> ext s0 s -> gwp s0 (cmca prog strat cinit n L q since) (fun _ _ => True) s.
Proof.
  intros HS He. unfold cmca. apply gwp_bind_get.
  destruct (c_memo s q) as [m |] eqn:Hm; [| apply gwp_ret; [exact HS | exact He | exact I]].
  assert (Hw : stamp_wf (iter_of m)) by apply (tbl_memo_of s q m HS Hm).
  assert (Hhot : forall u, cm_final m = true ->
            gwp s0 (m' <- cupdate_shallow q m u ;; cret (changed_after (cm_changed m') since)) (fun _ _ => True) s).
  { intros u Hf. eapply gwp_bind; [apply (gwp_update_shallow s0 q m u s HS He Hf Hw) |].
    intros s1 m' HS1 He1 _. apply gwp_ret; [exact HS1 | exact He1 | exact I]. }
  destruct (cshallow_verify s m).
  - destruct (cm_final m) eqn:Hf; [now apply Hhot | now apply gwp_mca_cold].
  - destruct (cm_final m) eqn:Hf; [now apply Hhot | now apply gwp_mca_cold].
  - now apply gwp_mca_cold.
Qed.

End Level.

Lemma clevel_ok n : forall k, Lfetch_ok (clevel prog strat cinit n k) /\ Lmca_ok (clevel prog strat cinit n k).
Proof.
  induction k as [| k [IHf IHm]].
  - split.
    + intros s0 q s HS He. cbn. now apply gwp_nofuel.
    + intros s0 q since s HS He. cbn. now apply gwp_nofuel.
  - split.
    + intros s0 q s HS He. cbn [clevel cl_fetch]. now apply gwp_fetch.
    + intros s0 q since s HS He. cbn [clevel cl_mca]. now apply gwp_mca.
Qed.



End Fetch.

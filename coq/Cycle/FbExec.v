(* Cycle/FbExec.v — (fallback cycles, C13_fresh) running a body under the fresh-revision invariant: what a fetch promises
   its caller, and what a body run computes given that promise. *)
From Coq Require Import PeanoNat.
From Salsa Require Import Base.
From Salsa.Kern Require Import CoreK.
From Salsa.Core Require Import Spec.
From Salsa.Cycle Require Import StampK Model Spec SpecProofs FallbackProofs Cert FreshBase FbSem FbInv FbOps.

Section Exec.
Context {C : bctx}.
Notation prog := (@fprog C).
Notation strat := (@fstrat C).
Notation cinit := (@fcinit C).
Notation ns := (@fns C).
Notation lvl := (@flvl C).
Notation nxt := (@fnxt C).
Notation SV := (spec_fallback prog sn cinit ns).
Notation cyc := (cycn prog sn ns).
Notation sc := (succs prog sn).

(* the assignment every read is answered from: the specification itself *)
Definition rho_of (st : list qkey) (s : cdb) : qkey -> val := SV.

Definition callable (st : list qkey) (d : qkey) : Prop :=
  match st with
  | [] => In d ns
  | q :: _ => In d (sc q)
  end.

(* what a sub-computation leaves alone *)
Definition pres (st : list qkey) (s s' : cdb) : Prop :=
  (forall d, done s d -> done s' d) /\
  (forall p, In p st -> forall m, c_memo s p = Some m -> c_memo s' p = Some m) /\
  (forall p, In p st -> c_memo s p = None ->
     c_memo s' p = None \/
     (botof lvl st = Some p /\ c_memo s' p = Some (initial_memo p (Some (cinit p)) REV_START 0))) /\
  (forall d h it mh, In h st -> partat s d h it -> c_memo s h = Some mh -> own h mh -> cm_iter mh = it ->
     partat s' d h it).

Lemma pres_refl st s : pres st s s.
Proof.
  split; [intros d H; exact H |]. split; [intros p _ m H; exact H |].
  split; [intros p _ H; now left |]. intros d h it mh _ H _ _ _. exact H.
Qed.

Lemma pres_trans st s s1 s2 : pres st s s1 -> pres st s1 s2 -> pres st s s2.
Proof.
  intros (A1 & A2 & A3 & A4) (B1 & B2 & B3 & B4).
  split; [intros d H; apply B1, A1, H |].
  split; [intros p Hp m H; apply B2, A2, H; exact Hp |].
  split.
  - intros p Hp H. destruct (A3 p Hp H) as [H1 | [Hb H1]].
    + now apply B3.
    + right. split; [exact Hb | now apply B2].
  - intros d h it mh Hh Hpa Hmh Ho Hit.
    apply (B4 d h it mh Hh); [now apply (A4 d h it mh) | now apply A2 | exact Ho | exact Hit].
Qed.

Lemma botof_pop q r0 p : botof lvl (q :: r0) = Some p -> p <> q -> botof lvl r0 = Some p.
Proof.
  destruct r0 as [| a r]; cbn; intros H Hne.
  - injection H as <-. congruence.
  - destruct (Nat.eqb (lvl a) (lvl q)); injection H as <-; [reflexivity | congruence].
Qed.

Lemma pres_pop q r0 s s' : ~ In q r0 -> pres (q :: r0) s s' -> pres r0 s s'.
Proof.
  intros Hnq (A1 & A2 & A3 & A4). split; [exact A1 |].
  split; [intros p Hp; apply A2; now right |].
  split.
  - intros p Hp Hn. destruct (A3 p (or_intror Hp) Hn) as [H1 | [Hb H1]]; [now left |].
    right. split; [| exact H1]. apply (botof_pop q r0 p Hb). intros ->. contradiction.
  - intros d h it mh Hh. apply A4. now right.
Qed.

Lemma botof_in st b : botof lvl st = Some b -> In b st.
Proof.
  destruct st as [| q r]; [discriminate |]. cbn. intros H. injection H as <-. apply botof_from_in.
Qed.

Lemma rho_pres st s s' : pres st s s' -> forall d, rho_of st s' d = rho_of st s d.
Proof. intros _ d. reflexivity. Qed.

(* what a fetch promises *)
Definition fetch_post (st : list qkey) (s : cdb) (d : qkey) (s' : cdb) (r : cqres) : Prop :=
  let '(v, du, ch, hs) := r in
  Inv st st s' /\ pres st s s' /\ ch = REV_START /\ v = rho_of st s d /\
  ((hs = [] /\ done s' d /\ (forall p, In p st -> c_memo s' p = c_memo s p)) \/
   (exists b it mb, botof lvl st = Some b /\ hs = [(b, it)] /\ c_memo s' b = Some mb /\ own b mb /\
                    cm_iter mb = it /\ (d = b \/ partat s' d b it))).

Definition fetch_spec (L : clower) (n : nat) : Prop :=
  forall st s d, Inv st st s -> callable st d -> (length ns < n + length st)%nat ->
                 cwp (cl_fetch L d) (fetch_post st s d) s.

(* what the running frame knows about the reads so far *)
Definition FrOK (st : list qkey) (s : cdb) (fr : cframe) (reads : list qkey) : Prop :=
  fr_changed fr = REV_START /\
  ((fr_heads fr = [] /\ forall e, In e reads -> done s e) \/
   (exists b it mb, botof lvl st = Some b /\ fr_heads fr = [(b, it)] /\ c_memo s b = Some mb /\ own b mb /\
                    cm_iter mb = it /\ (exists e, In e reads /\ (e = b \/ partat s e b it)) /\
                    forall e, In e reads -> done s e \/ e = b \/ partat s e b it)).

Lemma FrOK_pres st s s' fr reads : Inv st st s -> pres st s s' -> FrOK st s fr reads -> FrOK st s' fr reads.
Proof.
  intros HI (A1 & A2 & A3 & A4) (Hc & Hk). split; [exact Hc |].
  destruct Hk as [(Hh & Hr) | (b & it & mb & Hb & Hh & Hmb & Ho & Hit & (e0 & He0 & Hw) & Hr)].
  - left. split; [exact Hh |]. intros e He. apply A1, Hr, He.
  - right. exists b, it, mb. split; [exact Hb |]. split; [exact Hh |].
    assert (Hbs : In b st) by (eapply own_in_stack; eassumption).
    split; [now apply A2 |]. split; [exact Ho |]. split; [exact Hit |].
    split.
    { exists e0. split; [exact He0 |]. destruct Hw as [Hw | Hw]; [now left | right; now apply (A4 e0 b it mb Hbs)]. }
    intros e He. destruct (Hr e He) as [H1 | [H1 | H1]].
    + left. now apply A1.
    + right; left. exact H1.
    + right; right. now apply (A4 e b it mb Hbs).
Qed.

Definition env_of (rho : qkey -> val) : env := {| e_in := sn_in sn; e_cell := sn_cell sn; e_q := rho |}.

Lemma in_val hl st s i : Inv hl st s -> f_val (c_in s i) = sn_in sn i /\ f_changed (c_in s i) = REV_START.
Proof. intros HI. rewrite (iv_in _ _ _ HI). split; reflexivity. Qed.

Lemma cell_val hl st s c : Inv hl st s -> c_cell s c = sn_cell sn c.
Proof. intros HI. rewrite (iv_cell _ _ _ HI). reflexivity. Qed.

Lemma pcell_val hl st s c : Inv hl st s -> c_pcell s c = 0.
Proof. intros HI. rewrite (iv_pcell _ _ _ HI). reflexivity. Qed.

Section Body.
Variable L : clower.
Variable n : nat.
Variable st : list qkey.
Variable q : qkey.
Variable r0 : list qkey.
Hypothesis Hst : st = q :: r0.
Hypothesis HL : fetch_spec L n.
Hypothesis Hfuel : (length ns < n + length st)%nat.
Variable rho : qkey -> val.

Definition body_post (s : cdb) (fr : cframe) (reads : list qkey) (b : body) (s' : cdb) (r : val * cframe) : Prop :=
  Inv st st s' /\ pres st s s' /\ fst r = run (env_of rho) b /\
  FrOK st s' (snd r) (reads ++ call_trace (sn_in sn) (sn_cell sn) rho b) /\
  fr_dur (snd r) <= fr_dur fr /\ (fr_untracked fr = true -> fr_untracked (snd r) = true) /\
  (fr_heads (snd r) = [] -> fr_heads fr = [] /\ forall p, In p st -> c_memo s' p = c_memo s p).

Lemma crun_body_ok : forall b fr s reads,
  Inv st st s -> rho_of st s = rho -> FrOK st s fr reads ->
  incl (call_trace (sn_in sn) (sn_cell sn) rho b) (sc q) ->
  cwp (crun_body L b fr) (body_post s fr reads b) s.
Proof.
  induction b as [v | i k IH | d k IH | c k IH | k IH | c k IH]; intros fr s reads HI Hrho Hfr Hinc;
    cbn [crun_body].
  - apply cwp_ret. split; [exact HI |]. split; [apply pres_refl |]. split; [reflexivity |].
    cbn [call_trace snd]. rewrite app_nil_r. split; [exact Hfr |]. split; [lia |].
    split; [intros H; exact H |]. intros H. split; [exact H | reflexivity].
  - apply cwp_bind, cwp_get. destruct (in_val _ _ _ i HI) as [Hv Hc]. rewrite Hv.
    eapply cwp_conseq.
    + apply (IH (sn_in sn i) _ s reads HI Hrho); [| exact Hinc].
      destruct Hfr as (Hch & Hk). split; [| exact Hk].
      cbn [cadd_read_simple fr_changed]. rewrite Hch, Hc. reflexivity.
    + intros s' [v' fr'] (H1 & H2 & H3 & H4 & H5 & H6 & H7). split; [exact H1 |]. split; [exact H2 |].
      split; [exact H3 |]. split; [exact H4 |]. cbn [snd cadd_read_simple fr_dur fr_untracked fr_heads] in *.
      split; [unfold dur_min in H5; lia |]. split; [exact H6 | exact H7].
  - (* a call *)
    assert (Hd : In d (sc q)) by (apply Hinc; now left).
    assert (Hcall : callable st d) by (rewrite Hst; exact Hd).
    apply cwp_bind. eapply cwp_conseq; [apply (HL st s d HI Hcall Hfuel) |].
    intros s1 [[[v du] ch] hs] (HI1 & Hp1 & Hch & Hv & Hhs).
    rewrite Hrho in Hv. subst v ch.
    assert (Hfr1 := FrOK_pres st s s1 fr reads HI Hp1 Hfr).
    assert (Hrho1 : rho_of st s1 = rho) by exact Hrho.
    destruct Hfr1 as (Hchg & Hk).
    (* the merged frame *)
    assert (Hadd : exists fr', cadd_read fr (EQ d) du REV_START hs = Some fr' /\
              FrOK st s1 fr' (reads ++ [d]) /\ fr_dur fr' <= fr_dur fr /\ fr_untracked fr' = fr_untracked fr /\
              (fr_heads fr' = [] -> fr_heads fr = [] /\ forall p, In p st -> c_memo s1 p = c_memo s p)).
    { unfold cadd_read.
      destruct Hhs as [(-> & Hdd & Hsame) | (b & it & mb & Hb & -> & Hmb & Ho & Hit & Hdb)].
      - cbn [heads_extend]. eexists. split; [reflexivity |]. cbn [fr_changed fr_dur fr_untracked fr_heads].
        split; [| split; [unfold dur_min; lia | split; [reflexivity | intros H; split; [exact H | exact Hsame]]]].
        split; [rewrite Hchg; reflexivity |].
        destruct Hk as [(Hh & Hr) | (b & it & mb & Hb & Hh & Hmb & Ho & Hit & (e0 & He0 & Hw) & Hr)].
        + left. split; [exact Hh |]. intros e He. apply in_app_or in He as [He | [<- | []]]; [now apply Hr | exact Hdd].
        + right. exists b, it, mb. split; [exact Hb |]. split; [exact Hh |]. split; [exact Hmb |].
          split; [exact Ho |]. split; [exact Hit |].
          split; [exists e0; split; [apply in_or_app; now left | exact Hw] |].
          intros e He. apply in_app_or in He as [He | [<- | []]]; [now apply Hr | now left].
      - destruct Hk as [(Hh & Hr) | (b' & it' & mb' & Hb' & Hh & Hmb' & Ho' & Hit' & _ & Hr)].
        + rewrite Hh. cbn [heads_extend]. unfold heads_insert. cbn [heads_find fst snd app].
          eexists. split; [reflexivity |]. cbn [fr_changed fr_dur fr_untracked fr_heads].
          split; [| split; [unfold dur_min; lia | split; [reflexivity | intros H; discriminate]]].
          split; [rewrite Hchg; reflexivity |].
          right. exists b, it, mb. split; [exact Hb |]. split; [reflexivity |]. split; [exact Hmb |].
          split; [exact Ho |]. split; [exact Hit |].
          split; [exists d; split; [apply in_or_app; right; now left | exact Hdb] |].
          intros e He. apply in_app_or in He as [He | [<- | []]]; [left; now apply Hr | right; exact Hdb].
        + rewrite Hb in Hb'. injection Hb' as <-. rewrite Hmb in Hmb'. injection Hmb' as <-.
          rewrite Hit in Hit'. subst it'. rewrite Hh. cbn [heads_extend]. unfold heads_insert. cbn [heads_find fst snd app].
          rewrite key_eqb_refl, N.eqb_refl.
          eexists. split; [reflexivity |]. cbn [fr_changed fr_dur fr_untracked fr_heads].
          split; [| split; [unfold dur_min; lia | split; [reflexivity | intros H; discriminate]]].
          split; [rewrite Hchg; reflexivity |].
          right. exists b, it, mb. split; [exact Hb |]. split; [reflexivity |]. split; [exact Hmb |].
          split; [exact Ho |]. split; [exact Hit |].
          split; [exists d; split; [apply in_or_app; right; now left | exact Hdb] |].
          intros e He. apply in_app_or in He as [He | [<- | []]]; [now apply Hr | right; exact Hdb]. }
    destruct Hadd as (fr' & Hfr' & Hok' & Hdur' & Hun' & Hhd'). rewrite Hfr'.
    eapply cwp_conseq.
    + apply (IH (rho d) fr' s1 (reads ++ [d]) HI1 Hrho1 Hok').
      intros x Hx. apply Hinc. cbn [call_trace]. now right.
    + intros s2 [v2 fr2] (H1 & H2 & H3 & H4 & H5 & H6 & H7). split; [exact H1 |].
      split; [eapply pres_trans; eassumption |]. split; [exact H3 |].
      cbn [call_trace]. rewrite <- app_assoc in H4. split; [exact H4 |].
      cbn [snd] in *. split; [lia |]. split; [intros Hu; apply H6; now rewrite Hun' |].
      intros Hn. destruct (H7 Hn) as [Hn' Hs2]. destruct (Hhd' Hn') as [Hn0 Hs1].
      split; [exact Hn0 |]. intros p Hp. rewrite (Hs2 p Hp). now apply Hs1.
  - apply cwp_bind, cwp_get. rewrite (cell_val _ _ _ c HI).
    eapply cwp_conseq.
    + apply (IH (sn_cell sn c) _ s reads HI Hrho); [| exact Hinc].
      destruct Hfr as (Hch & Hk). split; [| exact Hk].
      cbn [cadd_untracked fr_changed]. apply (ccur_inv _ _ _ HI).
    + intros s' [v' fr'] (H1 & H2 & H3 & H4 & H5 & H6 & H7). split; [exact H1 |]. split; [exact H2 |].
      split; [exact H3 |]. split; [exact H4 |]. cbn [snd cadd_untracked fr_dur fr_untracked fr_heads] in *.
      split; [unfold D_LOW in H5; lia |]. split; [intros _; now apply H6 | exact H7].
  - apply cwp_bind, cwp_get.
    eapply cwp_conseq.
    + apply (IH _ s reads HI Hrho); [| exact Hinc].
      destruct Hfr as (Hch & Hk). split; [| exact Hk].
      cbn [cadd_untracked fr_changed]. apply (ccur_inv _ _ _ HI).
    + intros s' [v' fr'] (H1 & H2 & H3 & H4 & H5 & H6 & H7). split; [exact H1 |]. split; [exact H2 |].
      split; [exact H3 |]. split; [exact H4 |]. cbn [snd cadd_untracked fr_dur fr_untracked fr_heads] in *.
      split; [unfold D_LOW in H5; lia |]. split; [intros _; now apply H6 | exact H7].
  - apply cwp_bind, cwp_get. rewrite (pcell_val _ _ _ c HI). cbn [N.eqb].
    apply (IH fr s reads HI Hrho Hfr Hinc).
Qed.

Definition seed_frame (s : cdb) (seed : option cmemo) : cframe :=
  match seed with
  | Some m => if negb (cm_final m) && (cm_verified m =? ccur s) then cseed m else cframe0
  | None => cframe0
  end.

Definition run_post (s : cdb) (seed : option cmemo) (s' : cdb) (r : val * cframe) : Prop :=
  Inv st st s' /\ pres st s s' /\ fst r = F prog sn (rho_of st s) q /\ FrOK st s' (snd r) (sc q) /\
  fr_dur (snd r) <= fr_dur (seed_frame s seed) /\
  (fr_untracked (seed_frame s seed) = true -> fr_untracked (snd r) = true) /\
  (fr_heads (snd r) = [] -> forall p, In p st -> c_memo s' p = c_memo s p).

End Body.

Lemma run_query_ok L n st q r0 s seed :
  st = q :: r0 -> fetch_spec L n -> (length ns < n + length st)%nat ->
  Inv st st s -> (forall m, seed = Some m -> cm_changed m = REV_START) ->
  cwp (run_query prog L q seed) (run_post st q s seed) s.
Proof.
  intros Hst HL Hfuel HI Hseed. unfold run_query. apply cwp_bind, cwp_get.
  apply cwp_bind. unfold push_query. apply cwp_modify. apply cwp_bind, cwp_modify.
  apply cwp_on_panic. fold (seed_frame s seed).
  set (s1 := cset_runs _ _).
  assert (HI1 : Inv st st s1) by (apply Inv_set_runs, Inv_set_qstack, HI).
  eapply cwp_conseq.
  - apply (crun_body_ok L n st q r0 Hst HL Hfuel (rho_of st s) (prog q) (seed_frame s seed) s1 [] HI1).
    + reflexivity.
    + split.
      * unfold seed_frame. destruct seed as [m |]; [| reflexivity].
        destruct (negb (cm_final m) && (cm_verified m =? ccur s)); [| reflexivity].
        cbn [cseed fr_changed]. rewrite (Hseed m eq_refl). reflexivity.
      * left. split; [| intros e []].
        unfold seed_frame. destruct seed as [m |]; [| reflexivity].
        destruct (negb (cm_final m) && (cm_verified m =? ccur s)); reflexivity.
    + rewrite (Hdet q). apply incl_refl.
  - intros s' r (H1 & H2 & H3 & H4 & H5 & H6 & H7).
    split; [exact H1 |]. split; [exact H2 |]. split; [exact H3 |].
    rewrite (Hdet q) in H4. split; [exact H4 |]. split; [exact H5 |]. split; [exact H6 |].
    intros Hn. destruct (H7 Hn) as [_ H8]. exact H8.
Qed.


End Exec.

(* Cycle/LockInv.v — the claim discipline of the Cycle model (one thread), for ALL programs,
   strategies and histories: which keys are held by an open claim guard, that the query stack only
   holds such keys, and that a key claimed a second time is not at the same time transferred.
   A weakest precondition for every outcome except out-of-fuel (which is a model artefact: no
   guard runs).  Definitions and the sync-table operations. *)
From Coq Require Import PeanoNat Lia.
From Salsa Require Import Base.
From Salsa.Kern Require Import CoreK.
From Salsa.Cycle Require Import StampK Model.

(* ---------------------------------------------------------------- a wp for values and panics *)
Definition awp {A} (m : CM A) (Q : A -> cdb -> Prop) (X : cdb -> Prop) (s : cdb) : Prop :=
  match m s with
  | (s', COk a) => Q a s'
  | (s', CPanic _) => X s'
  | (_, CFuel) => True
  end.

Lemma awp_ret {A} (a : A) (Q : A -> cdb -> Prop) (X : cdb -> Prop) s : Q a s -> awp (cret a) Q X s.
Proof. intros H; exact H. Qed.
Lemma awp_fail {A} p (Q : A -> cdb -> Prop) (X : cdb -> Prop) s : X s -> awp (cfail p) Q X s.
Proof. intros H; exact H. Qed.
Lemma awp_nofuel {A} (Q : A -> cdb -> Prop) (X : cdb -> Prop) s : awp cnofuel Q X s.
Proof. exact I. Qed.
Lemma awp_get (Q : cdb -> cdb -> Prop) (X : cdb -> Prop) s : Q s s -> awp cget Q X s.
Proof. intros H; exact H. Qed.
Lemma awp_modify f (Q : unit -> cdb -> Prop) (X : cdb -> Prop) s : Q tt (f s) -> awp (cmodify f) Q X s.
Proof. intros H; exact H. Qed.
Lemma awp_bind {A B} (m : CM A) (f : A -> CM B) (Q : B -> cdb -> Prop) (X : cdb -> Prop) s :
  awp m (fun a s' => awp (f a) Q X s') X s -> awp (cbind m f) Q X s.
Proof. unfold awp, cbind. destruct (m s) as [s' [a | p |]]; intros H; exact H. Qed.
Lemma awp_conseq {A} (m : CM A) (Q Q' : A -> cdb -> Prop) (X X' : cdb -> Prop) s :
  awp m Q X s -> (forall a s', Q a s' -> Q' a s') -> (forall s', X s' -> X' s') -> awp m Q' X' s.
Proof. unfold awp. destruct (m s) as [s' [a | p |]]; intros H HQ HX; auto. Qed.
Lemma awp_on_panic {A} (m : CM A) h (Q : A -> cdb -> Prop) (X : cdb -> Prop) s :
  awp m Q (fun s' => X (fst (h s'))) s -> awp (on_panic m h) Q X s.
Proof. unfold awp, on_panic. destruct (m s) as [s' [a | p |]]; intros H; exact H. Qed.

(* ---------------------------------------------------------------- the invariant *)
Definition held (s : cdb) (q : qkey) : Prop := exists y, c_sync s q = Some y /\ sy_trans y = false.

Record LK (hl : list qkey) (s : cdb) : Prop := {
  lk_nd : NoDup hl;
  lk_held : forall q, In q hl <-> held s q;
  lk_twice : forall q y, c_sync s q = Some y -> sy_twice y = true -> sy_trans y = false;
  lk_stack : incl (c_qstack s) hl
}.

(* what the invariant reads off a state *)
Definition ssim (a b : option sync) : Prop :=
  match a, b with
  | None, None => True
  | Some y, Some y' => sy_trans y' = sy_trans y /\ sy_twice y' = sy_twice y
  | _, _ => False
  end.

Definition lksim (s s' : cdb) : Prop :=
  c_qstack s' = c_qstack s /\ forall q, ssim (c_sync s q) (c_sync s' q).

Lemma ssim_refl a : ssim a a.
Proof. destruct a; cbn; auto. Qed.
Lemma ssim_trans a b c : ssim a b -> ssim b c -> ssim a c.
Proof.
  destruct a, b, c; cbn; try tauto. intros [A1 A2] [B1 B2]. split; congruence.
Qed.
Lemma lksim_refl s : lksim s s.
Proof. split; [reflexivity | intros q; apply ssim_refl]. Qed.
Lemma lksim_trans a b c : lksim a b -> lksim b c -> lksim a c.
Proof. intros [A1 A2] [B1 B2]. split; [congruence |]. intros q. eapply ssim_trans; [apply A2 | apply B2]. Qed.

Lemma held_sim s s' q : lksim s s' -> held s q -> held s' q.
Proof.
  intros [_ H] (y & Hy & Ht). specialize (H q). rewrite Hy in H.
  destruct (c_sync s' q) as [y' |] eqn:Ey'; [| destruct H]. destruct H as [A _]. exists y'. split; [exact Ey' | congruence].
Qed.
Lemma lksim_sym s s' : lksim s s' -> lksim s' s.
Proof.
  intros [A B]. split; [congruence |]. intros q. specialize (B q).
  destruct (c_sync s q), (c_sync s' q); cbn in *; try tauto. destruct B; split; congruence.
Qed.

Lemma LK_sim hl s s' : lksim s s' -> LK hl s -> LK hl s'.
Proof.
  intros Hs [a b c d]. constructor.
  - exact a.
  - intros q. rewrite b. split; apply held_sim; [exact Hs | apply lksim_sym; exact Hs].
  - intros q y' Hy' Ht. destruct Hs as [_ Hq]. specialize (Hq q). rewrite Hy' in Hq.
    destruct (c_sync s q) as [y |] eqn:Ey; [| destruct Hq]. destruct Hq as [A B].
    rewrite A. apply (c q y Ey). congruence.
  - destruct Hs as [Hq _]. rewrite Hq. exact d.
Qed.

(* a state component other than the sync table and the query stack changes *)
Lemma lksim_fields s s' : c_sync s' = c_sync s -> c_qstack s' = c_qstack s -> lksim s s'.
Proof. intros A B. split; [exact B |]. intros q. rewrite A. apply ssim_refl. Qed.

(* the claim state and stack expected at a program point *)
Definition K (hl stk : list qkey) (s : cdb) : Prop := LK hl s /\ c_qstack s = stk.

Lemma K_sim hl stk s s' : lksim s s' -> K hl stk s -> K hl stk s'.
Proof. intros Hs [A B]. split; [apply (LK_sim hl s s' Hs A) | destruct Hs; congruence]. Qed.

(* ---------------------------------------------------------------- lock-silent computations *)
(* every outcome (also out-of-fuel) leaves the claim state and the stack as they were *)
Definition lks {A} (m : CM A) : Prop := forall s, lksim s (fst (m s)).

Lemma lks_ret {A} (a : A) : lks (cret a).
Proof. intros s. apply lksim_refl. Qed.
Lemma lks_fail {A} p : lks (@cfail A p).
Proof. intros s. apply lksim_refl. Qed.
Lemma lks_nofuel {A} : lks (@cnofuel A).
Proof. intros s. apply lksim_refl. Qed.
Lemma lks_get : lks cget.
Proof. intros s. apply lksim_refl. Qed.
Lemma lks_bind {A B} (m : CM A) (f : A -> CM B) : lks m -> (forall a, lks (f a)) -> lks (cbind m f).
Proof.
  intros Hm Hf s. unfold cbind. specialize (Hm s). destruct (m s) as [s1 [a | p |]]; cbn [fst] in *; try exact Hm.
  eapply lksim_trans; [exact Hm | apply Hf].
Qed.
Lemma lks_modify f : (forall s, lksim s (f s)) -> lks (cmodify f).
Proof. intros H s. apply H. Qed.
Lemma lks_on_panic {A} (m : CM A) h : lks m -> lks h -> lks (on_panic m h).
Proof.
  intros Hm Hh s. unfold on_panic. specialize (Hm s). destruct (m s) as [s1 [a | p |]]; cbn [fst] in *; try exact Hm.
  eapply lksim_trans; [exact Hm | apply Hh].
Qed.

Lemma awp_lks {A} (m : CM A) hl stk s : lks m -> K hl stk s ->
  awp m (fun _ s' => K hl stk s' /\ lksim s s') (fun s' => K hl stk s') s.
Proof.
  intros Hm HK. unfold awp. specialize (Hm s). destruct (m s) as [s1 [a | p |]]; cbn [fst] in Hm.
  - split; [apply (K_sim hl stk s s1 Hm HK) | exact Hm].
  - apply (K_sim hl stk s s1 Hm HK).
  - exact I.
Qed.

Lemma lks_put q m : lks (put_memo q m).
Proof. apply lks_modify. intros s. apply lksim_fields; reflexivity. Qed.
Lemma lks_emit e : lks (cemit e).
Proof. apply lks_modify. intros s. apply lksim_fields; reflexivity. Qed.

Lemma lks_set_sync_flags q y y' : sy_trans y' = sy_trans y -> sy_twice y' = sy_twice y ->
  forall s, c_sync s q = Some y -> lksim s (fst (set_sync q (Some y') s)).
Proof.
  intros A B s Hy. split; [reflexivity |]. intros p. cbn. unfold upd.
  destruct (key_eqb_spec q p) as [<- | Hne]; [rewrite Hy; cbn; split; assumption | apply ssim_refl].
Qed.

(* peek_claim only sets the anyone_waiting flag *)
Lemma lks_peek_claim q : lks (peek_claim q).
Proof.
  intros s. unfold peek_claim, cbind, cget. cbn.
  destruct (c_sync s q) as [y |] eqn:Ey; [| apply lksim_refl].
  destruct (sy_trans y) eqn:Et.
  - destruct (trans_get (c_trans s) q); apply lksim_refl.
  - cbn. apply (lks_set_sync_flags q y); [exact (eq_sym Et) | reflexivity | exact Ey].
Qed.

(* Cycle/Cert.v — reading an assignment off a state of the Cycle model, and the decidable
   per-run certificates evaluated by the correspondence driver.  Definitions only. *)
From Salsa Require Import Base.
From Salsa.Kern Require Import CoreK.
From Salsa.Core Require Spec.
From Salsa.Cycle Require Import StampK Model Spec.

(* a memo counts when it holds a value, was verified in the current revision and is final or
   would be finalised by validate_provisional on its next read (all its heads are final, same
   revision, same iteration) *)
Definition settled (s : cdb) (m : cmemo) : bool :=
  (cm_verified m =? ccur s) && (cm_final m || heads_all_final s (cm_verified m) (heads_of m)).

Definition final_val (s : cdb) (q : qkey) : option val :=
  match c_memo s q with
  | Some m => if settled s m then cm_val m else None
  | None => None
  end.

Definition csnap_of (s : cdb) : Salsa.Core.Spec.snapshot :=
  {| Salsa.Core.Spec.sn_in := fun i => f_val (c_in s i); Salsa.Core.Spec.sn_cell := c_cell s |}.

(* C12: the settled memos satisfy their equations *)
Definition is_fixpoint_state (prog : qkey -> body) (ns : list qkey) (s : cdb) : bool :=
  cert_fix prog (csnap_of s) ns (final_val s).

(* C13: settled memos of cyclic nodes hold the fallback, the others their body's value *)
Definition is_fallback_state (prog : qkey -> body) (fb : qkey -> val) (ns : list qkey) (s : cdb) : bool :=
  let cn := cyclic_nodes (succs prog (csnap_of s)) ns in
  cert_fallback prog (csnap_of s) fb (fun q => mem q cn) ns (final_val s).

(* Cycle/LockOps.v — the sync-table operations against the claim invariant of Cycle/LockInv.v:
   claiming, the three ways of dropping a guard, releasing while unwinding; none of their internal
   assertions can fire.  And: everything else in the model that runs between a claim and its
   release leaves the claim state alone. *)
From Coq Require Import PeanoNat Lia.
From Salsa Require Import Base.
From Salsa.Kern Require Import CoreK.
From Salsa.Cycle Require Import StampK Model LockInv.

(* ---------------------------------------------------------------- claiming *)
Lemma LK_push hl s s' q y' :
  LK hl s -> ~ held s q -> c_qstack s' = c_qstack s ->
  c_sync s' = upd (c_sync s) q (Some y') -> sy_trans y' = false -> LK (q :: hl) s'.
Proof.
  intros [a b c d] Hnh Hq Hs Ht. constructor.
  - constructor; [rewrite b; exact Hnh | exact a].
  - intros p. unfold held. rewrite Hs. unfold upd. destruct (key_eqb_spec q p) as [<- | Hne].
    + split; [intros _; exists y'; split; [reflexivity | exact Ht] | intros _; left; reflexivity].
    + cbn [In]. rewrite b. unfold held. split; [intros [A | A]; [congruence | exact A] | intros A; right; exact A].
  - intros p y. rewrite Hs. unfold upd. destruct (key_eqb_spec q p) as [<- | Hne].
    + intros A _. injection A as <-. exact Ht.
    + apply c.
  - rewrite Hq. intros x Hx. right. apply d. exact Hx.
Qed.

Lemma LK_pop hl s s' q y' :
  LK (q :: hl) s -> ~ In q (c_qstack s) -> c_qstack s' = c_qstack s ->
  c_sync s' = upd (c_sync s) q y' ->
  (forall y, y' = Some y -> sy_trans y = true /\ sy_twice y = false) -> LK hl s'.
Proof.
  intros [a b c d] Hnq Hq Hs Hy. inversion a as [| ? ? Hnin Hnd]; subst. constructor.
  - exact Hnd.
  - intros p. unfold held. rewrite Hs. unfold upd. destruct (key_eqb_spec q p) as [<- | Hne].
    + split; [intros A; contradiction |]. intros (y & A & B). destruct (Hy y A) as [C _]. congruence.
    + specialize (b p). cbn [In] in b. unfold held in b. rewrite <- b. split; [intros A; right; exact A | intros [A | A]; [congruence | exact A]].
  - intros p y. rewrite Hs. unfold upd. destruct (key_eqb_spec q p) as [<- | Hne].
    + intros A B. destruct (Hy y A) as [_ C]. congruence.
    + apply c.
  - rewrite Hq. intros x Hx. destruct (d x Hx) as [<- | A]; [contradiction | exact A].
Qed.

Lemma try_claim_ok q allow hl stk s : K hl stk s ->
  awp (try_claim q allow)
      (fun r s' => match r with
                   | Claimed mode => K (q :: hl) stk s' /\ ~ In q hl /\ (mode = RDefault \/ mode = RSelfOnly)
                   | ClCycle inner => K hl stk s' /\ (inner = false -> In q hl)
                   end)
      (fun _ => False) s.
Proof.
  intros [HL Hstk]. unfold try_claim. apply awp_bind, awp_get.
  assert (Hfresh : forall y0, ~ held s q -> 
            awp (set_sync q (Some y0) ;;; cret (Claimed (if sy_twice y0 then RSelfOnly else RDefault)))
                (fun r s' => match r with
                   | Claimed mode => K (q :: hl) stk s' /\ ~ In q hl /\ (mode = RDefault \/ mode = RSelfOnly)
                   | ClCycle inner => K hl stk s' /\ (inner = false -> In q hl)
                   end) (fun _ => False) s -> True) by auto.
  clear Hfresh.
  assert (Hclaim : forall y0 mode, ~ held s q -> sy_trans y0 = false -> (mode = RDefault \/ mode = RSelfOnly) ->
            awp (set_sync q (Some y0) ;;; cret (Claimed mode))
                (fun r s' => match r with
                   | Claimed mode => K (q :: hl) stk s' /\ ~ In q hl /\ (mode = RDefault \/ mode = RSelfOnly)
                   | ClCycle inner => K hl stk s' /\ (inner = false -> In q hl)
                   end) (fun _ => False) s).
  { intros y0 mode Hnh Ht Hm. apply awp_bind. unfold set_sync. apply awp_modify, awp_ret.
    split; [split; [apply (LK_push hl s _ q y0 HL Hnh); [reflexivity | reflexivity | exact Ht] | exact Hstk] |].
    split; [rewrite (lk_held _ _ HL); exact Hnh | exact Hm]. }
  destruct (c_sync s q) as [y |] eqn:Ey.
  - destruct (sy_trans y) eqn:Et.
    + assert (Hnh : ~ held s q) by (intros (y1 & A & B); congruence).
      destruct (trans_get (c_trans s) q).
      * destruct allow.
        -- destruct (sy_twice y) eqn:Etw.
           ++ exfalso. pose proof (lk_twice _ _ HL q y Ey Etw). congruence.
           ++ apply (Hclaim _ RSelfOnly Hnh); [reflexivity | now right].
        -- apply awp_ret. split; [split; assumption | discriminate].
      * apply (Hclaim _ RDefault Hnh); [reflexivity | now left].
    + apply awp_bind. unfold set_sync. apply awp_modify, awp_ret.
      split.
      * apply (K_sim hl stk s); [| split; assumption].
        apply (lks_set_sync_flags q y); [exact (eq_sym Et) | reflexivity | exact Ey].
      * intros _. apply (lk_held _ _ HL). exists y. split; assumption.
  - assert (Hnh : ~ held s q) by (intros (y1 & A & B); congruence).
    apply (Hclaim _ RDefault Hnh); [reflexivity | now left].
Qed.

(* ---------------------------------------------------------------- releasing *)
Lemma lks_release_state q y : lks (release_state q y).
Proof.
  unfold release_state. destruct (sy_wait y); [| apply lks_ret].
  apply lks_bind.
  - destruct (sy_twice y); [apply lks_modify; intros s; apply lksim_fields; reflexivity | apply lks_ret].
  - intros _. destruct (sy_target y); [apply lks_modify; intros s; apply lksim_fields; reflexivity | apply lks_ret].
Qed.

Lemma held_head hl s q : LK (q :: hl) s -> exists y, c_sync s q = Some y /\ sy_trans y = false.
Proof. intros HL. apply (lk_held _ _ HL). left; reflexivity. Qed.

(* remove q's entry (or flag it transferred), then run lock-silent code *)
Lemma release_then {A} q y' (m : CM A) hl stk s :
  K (q :: hl) stk s -> ~ In q stk ->
  (forall y, y' = Some y -> sy_trans y = true /\ sy_twice y = false) -> lks m ->
  awp (set_sync q y' ;;; m) (fun _ s' => K hl stk s') (fun s' => K hl stk s') s.
Proof.
  intros [HL Hstk] Hnq Hy Hm. apply awp_bind. unfold set_sync. apply awp_modify.
  assert (HK1 : K hl stk (cset_sync s (upd (c_sync s) q y'))).
  { split; [| exact Hstk]. apply (LK_pop hl s _ q y' HL); [rewrite Hstk; exact Hnq | reflexivity | reflexivity | exact Hy]. }
  eapply awp_conseq; [apply (awp_lks m hl stk _ Hm HK1) | intros a s' [H _]; exact H | intros s' H; exact H].
Qed.

Lemma release_default_ok q hl stk s : K (q :: hl) stk s -> ~ In q stk ->
  awp (release_default q) (fun _ s' => K hl stk s') (fun _ => False) s.
Proof.
  intros HK Hnq. unfold release_default. apply awp_bind, awp_get.
  destruct (held_head hl s q (proj1 HK)) as (y & Ey & Et). rewrite Ey.
  pose proof (release_then q None (release_state q y) hl stk s HK Hnq) as H.
  unfold awp in *. destruct ((set_sync q None;;; release_state q y) s) as [s' [a | p |]] eqn:E.
  - apply H; [intros y0 A; discriminate | apply lks_release_state].
  - exfalso. revert E. unfold cbind, set_sync, cmodify, release_state.
    destruct (sy_wait y); cbn; [| discriminate].
    destruct (sy_twice y), (sy_target y); cbn; discriminate.
  - exact I.
Qed.

Lemma release_self_ok q hl stk s : K (q :: hl) stk s -> ~ In q stk ->
  awp (release_self q) (fun _ s' => K hl stk s') (fun _ => False) s.
Proof.
  intros HK Hnq. unfold release_self. apply awp_bind, awp_get.
  destruct (held_head hl s q (proj1 HK)) as (y & Ey & Et). rewrite Ey.
  destruct (sy_twice y) eqn:Etw.
  - unfold set_sync. apply awp_modify. destruct HK as [HL Hstk]. split; [| exact Hstk].
    eapply LK_pop; [exact HL | rewrite Hstk; exact Hnq | reflexivity | reflexivity |].
    intros y0 A. injection A as <-. split; reflexivity.
  - pose proof (release_then q None (release_state q y) hl stk s HK Hnq) as H.
    unfold awp in *. destruct ((set_sync q None;;; release_state q y) s) as [s' [a | p |]] eqn:E.
    + apply H; [intros y0 A; discriminate | apply lks_release_state].
    + exfalso. revert E. unfold cbind, set_sync, cmodify, release_state.
      destruct (sy_wait y); cbn; [| discriminate].
      rewrite Etw. destruct (sy_target y); cbn; discriminate.
    + exact I.
Qed.

Lemma transfer_ok q o hl stk s : K (q :: hl) stk s -> ~ In q stk -> In o hl ->
  awp (transfer q o) (fun _ s' => K hl stk s') (fun _ => False) s.
Proof.
  intros [HL Hstk] Hnq Ho. unfold transfer. apply awp_bind, awp_get.
  assert (Hoq : o <> q). { intros ->. pose proof (lk_nd _ _ HL) as Hnd. inversion Hnd; contradiction. }
  destruct (proj1 (lk_held _ _ HL o) (or_intror Ho)) as (yo & Eo & Eto). rewrite Eo.
  apply awp_bind. unfold set_sync at 1. apply awp_modify.
  set (s1 := cset_sync s _).
  assert (Hsim : lksim s s1).
  { apply (lks_set_sync_flags o yo); [reflexivity | reflexivity | exact Eo]. }
  assert (HK1 : K (q :: hl) stk s1) by (apply (K_sim _ _ s); [exact Hsim | split; assumption]).
  apply awp_bind, awp_get.
  destruct (held_head hl s1 q (proj1 HK1)) as (y & Ey & Et). rewrite Ey.
  apply awp_bind. unfold set_sync. apply awp_modify.
  rewrite Eto. cbn [andb].
  apply awp_modify. destruct HK1 as [HL1 Hstk1]. split; [| exact Hstk1].
  eapply LK_pop; [exact HL1 | rewrite Hstk1; exact Hnq | reflexivity | reflexivity |].
  intros y0 A. injection A as <-. split; reflexivity.
Qed.

Definition mode_ok (hl : list qkey) (m : rmode) : Prop :=
  match m with RTransfer o => In o hl | _ => True end.

Lemma drop_guard_ok q mode hl stk s : K (q :: hl) stk s -> ~ In q stk -> mode_ok hl mode ->
  awp (drop_guard q mode) (fun _ s' => K hl stk s') (fun _ => False) s.
Proof.
  intros HK Hnq Hm. destruct mode as [| | o]; cbn [drop_guard].
  - apply release_default_ok; assumption.
  - apply release_self_ok; assumption.
  - apply transfer_ok; assumption.
Qed.

(* the guard dropped while unwinding: whether or not it had been dropped already *)
Lemma release_panicking_ok q hl stk s : ~ In q stk -> ~ In q hl ->
  K (q :: hl) stk s \/ K hl stk s -> K hl stk (fst (release_panicking q s)).
Proof.
  intros Hnq Hnh HK. unfold release_panicking.
  destruct (c_sync s q) as [y |] eqn:Ey.
  - assert (H : awp (set_sync q None ;;; release_state q y) (fun _ s' => K hl stk s') (fun s' => K hl stk s') s).
    { destruct HK as [HK | [HL Hstk]].
      - apply (release_then q None _ hl stk s HK Hnq); [intros y0 A; discriminate | apply lks_release_state].
      - apply awp_bind. unfold set_sync. apply awp_modify.
        assert (HK1 : K hl stk (cset_sync s (upd (c_sync s) q None))).
        { split; [| exact Hstk]. destruct HL as [a b c d]. constructor.
          - exact a.
          - intros p. unfold held. cbn. unfold upd. destruct (key_eqb_spec q p) as [<- | Hne].
            + split; [intros A; contradiction | intros (y0 & A & _); discriminate].
            + apply b.
          - intros p y0. cbn. unfold upd. destruct (key_eqb_spec q p) as [<- | Hne]; [discriminate | apply c].
          - exact d. }
        eapply awp_conseq; [apply (awp_lks _ hl stk _ (lks_release_state q y) HK1) | intros a s' [A _]; exact A | intros s' A; exact A]. }
    unfold awp in H. destruct ((set_sync q None;;; release_state q y) s) as [s' [a | p |]] eqn:E; cbn [fst].
    + exact H.
    + exact H.
    + exfalso. revert E. unfold cbind, set_sync, cmodify, release_state.
      destruct (sy_wait y); cbn; [| discriminate].
      destruct (sy_twice y), (sy_target y); cbn; discriminate.
  - cbn [fst]. destruct HK as [HK | HK]; [| exact HK].
    exfalso. destruct (held_head hl s q (proj1 HK)) as (y & A & _). congruence.
Qed.

(* ---------------------------------------------------------------- the query stack *)
Lemma push_ok q hl stk s : K hl stk s -> In q hl -> K hl (q :: stk) (cset_qstack s (q :: c_qstack s)).
Proof.
  intros [[a b c d] Hstk] Hq. split; [| cbn; now rewrite Hstk]. constructor; try assumption.
  cbn. intros x [<- | Hx]; [exact Hq | apply d; exact Hx].
Qed.

Lemma pop_ok q hl stk s : K hl (q :: stk) s -> K hl stk (cset_qstack s (tl (c_qstack s))).
Proof.
  intros [[a b c d] Hstk]. split; [| cbn; now rewrite Hstk]. constructor; try assumption.
  cbn. rewrite Hstk. cbn. intros x Hx. apply d. rewrite Hstk. right; exact Hx.
Qed.

(* Cycle/SpecProofs.v — the lattice-theoretic facts behind C12 (kleene is the least fixpoint,
   reached within height x nodes rounds; chaotic iteration; the certificate) . *)
From Coq Require Import PeanoNat.
From Salsa Require Import Base.
From Salsa.Core Require Import Model Spec.
From Salsa.Cycle Require Import Spec.

(* ---------------------------------------------------------------- the order *)
Lemma le_bits_refl a : le_bits a a.
Proof. unfold le_bits. apply N.land_diag. Qed.

Lemma le_bits_0 a : le_bits 0 a.
Proof. unfold le_bits. apply N.land_0_l. Qed.

Lemma le_bits_trans a b c : le_bits a b -> le_bits b c -> le_bits a c.
Proof.
  unfold le_bits. intros Hab Hbc.
  transitivity (N.land (N.land a b) c); [now rewrite Hab |].
  rewrite <- N.land_assoc, Hbc. exact Hab.
Qed.

Lemma le_bits_antisym a b : le_bits a b -> le_bits b a -> a = b.
Proof. unfold le_bits. intros Hab Hba. rewrite <- Hab. rewrite N.land_comm. exact Hba. Qed.

Lemma le_bits_below_0 a : le_bits a 0 -> a = 0.
Proof. unfold le_bits. rewrite N.land_0_r. congruence. Qed.

Lemma le_bits_testbit a b i : le_bits a b -> N.testbit a i = true -> N.testbit b i = true.
Proof.
  unfold le_bits. intros H Ha. rewrite <- H in Ha. rewrite N.land_spec in Ha.
  apply andb_true_iff in Ha. tauto.
Qed.

Lemma mem_In q l : mem q l = true <-> In q l.
Proof.
  unfold mem. rewrite existsb_exists. split.
  - intros [x [Hin Hx]]. apply key_eqb_eq in Hx. now subst.
  - intros H. exists q. split; [exact H | apply key_eqb_refl].
Qed.

(* ---------------------------------------------------------------- extensionality of run *)
Lemma run_ext : forall b ein ecell rho rho',
  (forall p, rho p = rho' p) ->
  run {| e_in := ein; e_cell := ecell; e_q := rho |} b =
  run {| e_in := ein; e_cell := ecell; e_q := rho' |} b.
Proof.
  induction b as [v | i k IH | q k IH | c k IH | k IH | c k IH]; intros ein ecell rho rho' Hext; cbn.
  - reflexivity.
  - apply IH, Hext.
  - rewrite (Hext q). apply IH, Hext.
  - apply IH, Hext.
  - apply IH, Hext.
  - apply IH, Hext.
Qed.

Section Kleene.
Variable prog : qkey -> body.
Variable sn : snapshot.
Variable ns : list qkey.

Notation Fq := (F prog sn).

Lemma F_ext rho rho' q : (forall p, rho p = rho' p) -> Fq rho q = Fq rho' q.
Proof. intros H. unfold F. now apply run_ext. Qed.

(* the semantic iterates: listed nodes re-evaluated, everything else 0 *)
Fixpoint R (n : nat) : qkey -> val :=
  match n with
  | O => fun _ => 0
  | S n' => fun q => if mem q ns then Fq (R n') q else 0
  end.

Lemma tlookup_tbl0 l q : tlookup (tbl0 l) q = 0.
Proof. induction l as [| x l IH]; cbn; [reflexivity |]. destruct (key_eqb x q); [reflexivity | exact IH]. Qed.

Lemma tlookup_kround_gen t l q :
  tlookup (map (fun q' => (q', Fq (tlookup t) q')) l) q = if mem q l then Fq (tlookup t) q else 0.
Proof.
  induction l as [| x l IH]; cbn; [reflexivity |].
  destruct (key_eqb x q) eqn:E.
  - apply key_eqb_eq in E. subst x. unfold mem. cbn. rewrite key_eqb_refl. reflexivity.
  - rewrite IH. unfold mem. cbn.
    assert (E' : key_eqb q x = false).
    { apply key_eqb_neq. apply key_eqb_neq in E. congruence. }
    rewrite E'. reflexivity.
Qed.

Lemma tlookup_kround t q :
  tlookup (kround prog sn ns t) q = if mem q ns then Fq (tlookup t) q else 0.
Proof. apply tlookup_kround_gen. Qed.

Lemma kiter_S n : forall t, kiter prog sn ns (S n) t = kround prog sn ns (kiter prog sn ns n t).
Proof.
  induction n as [| n IH]; intros t; [reflexivity |].
  change (kiter prog sn ns (S (S n)) t) with (kiter prog sn ns (S n) (kround prog sn ns t)).
  rewrite IH. reflexivity.
Qed.

Lemma kiter_R n : forall q, tlookup (kiter prog sn ns n (tbl0 ns)) q = R n q.
Proof.
  induction n as [| n IH]; intros q.
  - cbn. apply tlookup_tbl0.
  - rewrite kiter_S, tlookup_kround. cbn [R]. destruct (mem q ns); [| reflexivity].
    apply F_ext, IH.
Qed.

(* ---- early exit computes the same table ---- *)
Lemma tbl_eqb_eq : forall a b, tbl_eqb a b = true -> a = b.
Proof.
  induction a as [| x a IH]; intros [| y b] H; cbn in H; try discriminate; [reflexivity |].
  apply andb_true_iff in H. destruct H as [H Hab]. apply andb_true_iff in H. destruct H as [Hk Hv].
  apply key_eqb_eq in Hk. apply N.eqb_eq in Hv. destruct x, y. cbn in *. subst. f_equal. now apply IH.
Qed.

Lemma kiter_stable n : forall t, kround prog sn ns t = t -> kiter prog sn ns n t = t.
Proof. induction n as [| n IH]; intros t H; cbn; [reflexivity |]. rewrite H. now apply IH. Qed.

Lemma kfix_kiter n : forall t, kfix prog sn ns n t = kiter prog sn ns n t.
Proof.
  induction n as [| n IH]; intros t; cbn; [reflexivity |].
  destruct (tbl_eqb t (kround prog sn ns t)) eqn:E.
  - apply tbl_eqb_eq in E. rewrite <- E. symmetry. apply kiter_stable. now symmetry.
  - apply IH.
Qed.

Lemma kleene_R q : kleene prog sn ns q = R (krounds ns) q.
Proof. unfold kleene, kleene_tbl. rewrite kfix_kiter. apply kiter_R. Qed.

Lemma R_out n q : mem q ns = false -> R n q = 0.
Proof. destruct n; cbn; intros H; [reflexivity | now rewrite H]. Qed.

(* ---------------------------------------------------------------- monotone chain *)
Hypothesis Hmono : monotone_prog prog sn.

Lemma R_mono n : env_le (R n) (R (S n)).
Proof.
  induction n as [| n IH]; intros p.
  - apply le_bits_0.
  - cbn [R]. destruct (mem p ns); [| apply le_bits_refl]. apply Hmono. exact IH.
Qed.

Lemma R_mono_le n m : (n <= m)%nat -> env_le (R n) (R m).
Proof.
  induction 1 as [| m Hle IH]; intros p; [apply le_bits_refl |].
  eapply le_bits_trans; [apply IH | apply R_mono].
Qed.

Lemma R_below sigma : is_prefixpoint prog sn ns sigma -> forall n, env_le (R n) sigma.
Proof.
  intros Hpre. induction n as [| n IH]; intros p; [apply le_bits_0 |].
  cbn [R]. destruct (mem p ns) eqn:E; [| apply le_bits_0].
  eapply le_bits_trans; [apply Hmono, IH | apply Hpre, mem_In, E].
Qed.

(* ---------------------------------------------------------------- stabilisation *)
Hypothesis Hfits : fits8 prog sn.

Lemma R_lt n : forall q, R n q < 256.
Proof.
  induction n as [| n IH]; intros q; cbn; [lia |].
  destruct (mem q ns); [apply Hfits, IH | lia].
Qed.

Definition bits8 : list N := [0; 1; 2; 3; 4; 5; 6; 7].
Definition bc (a : val) : nat := length (filter (N.testbit a) bits8).

Lemma flen_le {A} (p p' : A -> bool) l :
  (forall i, In i l -> p i = true -> p' i = true) ->
  (length (filter p l) <= length (filter p' l))%nat.
Proof.
  induction l as [| x l IH]; intros H; cbn; [lia |].
  assert (IH' := IH (fun i Hi => H i (or_intror Hi))).
  destruct (p x) eqn:E.
  - rewrite (H x (or_introl eq_refl) E). cbn. lia.
  - destruct (p' x); cbn; lia.
Qed.

Lemma flen_lt {A} (p p' : A -> bool) l :
  (forall i, In i l -> p i = true -> p' i = true) ->
  (exists i, In i l /\ p i = false /\ p' i = true) ->
  (length (filter p l) < length (filter p' l))%nat.
Proof.
  induction l as [| x l IH]; intros H [i [Hin [Hp Hp']]]; [destruct Hin |].
  cbn. assert (Hle := flen_le p p' l (fun i Hi => H i (or_intror Hi))).
  destruct Hin as [-> | Hin].
  - rewrite Hp, Hp'. cbn. lia.
  - assert (IH' := IH (fun i Hi => H i (or_intror Hi)) (ex_intro _ i (conj Hin (conj Hp Hp')))).
    destruct (p x) eqn:E.
    + rewrite (H x (or_introl eq_refl) E). cbn. lia.
    + destruct (p' x); cbn; lia.
Qed.

Lemma forallb_false_ex {A} (f : A -> bool) l :
  forallb f l = false -> exists x, In x l /\ f x = false.
Proof.
  induction l as [| x l IH]; cbn; [discriminate |].
  destruct (f x) eqn:E; cbn; intros H.
  - destruct (IH H) as [y [Hy Hf]]. exists y. tauto.
  - exists x. tauto.
Qed.

Lemma testbit_high a n : a < 256 -> 8 <= n -> N.testbit a n = false.
Proof.
  intros Ha Hn. destruct (N.eq_dec a 0) as [-> | Hz]; [apply N.bits_0 |].
  apply N.bits_above_log2.
  assert (N.log2 a < 8); [| lia].
  apply N.log2_lt_pow2; [lia |]. exact Ha.
Qed.

Lemma eq8 a b : a < 256 -> b < 256 ->
  (forall i, In i bits8 -> N.testbit a i = N.testbit b i) -> a = b.
Proof.
  intros Ha Hb H. apply N.bits_inj. intros n.
  destruct (N.lt_ge_cases n 8) as [Hlt | Hge].
  - apply H. unfold bits8.
    assert (n = 0 \/ n = 1 \/ n = 2 \/ n = 3 \/ n = 4 \/ n = 5 \/ n = 6 \/ n = 7) as Hn by lia.
    cbn. intuition.
  - rewrite (testbit_high a n Ha Hge), (testbit_high b n Hb Hge). reflexivity.
Qed.

Lemma bc_le a b : le_bits a b -> (bc a <= bc b)%nat.
Proof. intros H. apply flen_le. intros i _. now apply le_bits_testbit. Qed.

Lemma bc_lt a b : le_bits a b -> a < 256 -> b < 256 -> a <> b -> (bc a < bc b)%nat.
Proof.
  intros Hle Ha Hb Hne. apply flen_lt; [intros i _; now apply le_bits_testbit |].
  destruct (forallb (fun i => Bool.eqb (N.testbit a i) (N.testbit b i)) bits8) eqn:E.
  - exfalso. apply Hne. apply eq8; try assumption. intros i Hi.
    rewrite forallb_forall in E. specialize (E i Hi). now apply Bool.eqb_prop in E.
  - destruct (forallb_false_ex _ _ E) as [i [Hi Hf]]. exists i. split; [exact Hi |].
    destruct (N.testbit a i) eqn:Ea.
    + rewrite (le_bits_testbit a b i Hle Ea) in Hf. discriminate.
    + destruct (N.testbit b i); [tauto | discriminate].
Qed.

Lemma bc_le8 a : (bc a <= 8)%nat.
Proof.
  unfold bc. change 8%nat with (length bits8).
  generalize bits8. induction l as [| x l IH]; cbn; [lia |]. destruct (N.testbit a x); cbn; lia.
Qed.

Definition weight (n : nat) : nat := list_sum (map (fun q => bc (R n q)) ns).

Lemma list_sum_le {A} (f g : A -> nat) l :
  (forall q, In q l -> (f q <= g q)%nat) -> (list_sum (map f l) <= list_sum (map g l))%nat.
Proof.
  induction l as [| x l IH]; intros H; [cbn; lia |].
  change (f x + list_sum (map f l) <= g x + list_sum (map g l))%nat.
  assert (f x <= g x)%nat by (apply H; now left).
  assert (list_sum (map f l) <= list_sum (map g l))%nat by (apply IH; intros; apply H; now right). lia.
Qed.

Lemma list_sum_lt {A} (f g : A -> nat) l :
  (forall q, In q l -> (f q <= g q)%nat) -> (exists q, In q l /\ (f q < g q)%nat) ->
  (list_sum (map f l) < list_sum (map g l))%nat.
Proof.
  induction l as [| x l IH]; intros H [q [Hin Hlt]]; [destruct Hin |].
  change (f x + list_sum (map f l) < g x + list_sum (map g l))%nat.
  assert (Hx : (f x <= g x)%nat) by (apply H; now left).
  assert (Hl : (list_sum (map f l) <= list_sum (map g l))%nat) by (apply list_sum_le; intros; apply H; now right).
  destruct Hin as [-> | Hin]; [lia |].
  assert (list_sum (map f l) < list_sum (map g l))%nat; [| lia].
  apply IH; [intros; apply H; now right | exists q; tauto].
Qed.

Lemma list_sum_bound {A} (f : A -> nat) c l :
  (forall q, (f q <= c)%nat) -> (list_sum (map f l) <= c * length l)%nat.
Proof.
  intros H. induction l as [| x l IH]; [cbn; lia |].
  change (f x + list_sum (map f l) <= c * S (length l))%nat.
  rewrite Nat.mul_succ_r. specialize (H x). lia.
Qed.

Lemma weight_bound n : (weight n <= 8 * length ns)%nat.
Proof. unfold weight. apply list_sum_bound. intros q. apply bc_le8. Qed.

Definition stable (n : nat) : bool := forallb (fun q => R (S n) q =? R n q) ns.

Lemma stable_eq n : stable n = true -> forall p, R (S n) p = R n p.
Proof.
  intros H p. destruct (mem p ns) eqn:E.
  - unfold stable in H. rewrite forallb_forall in H. apply N.eqb_eq. apply H. now apply mem_In.
  - now rewrite !R_out.
Qed.

Lemma step_eq n : (forall p, R (S n) p = R n p) -> forall p, R (S (S n)) p = R (S n) p.
Proof.
  intros H p. cbn [R]. destruct (mem p ns); [| reflexivity]. apply F_ext. intros p'.
  change (R (S n) p' = R n p'). apply H.
Qed.

Lemma all_eq n : (forall p, R (S n) p = R n p) ->
  forall k p, R (S (k + n)) p = R (k + n) p.
Proof.
  intros H. induction k as [| k IH]; [exact H |].
  change (S k + n)%nat with (S (k + n)). apply step_eq. exact IH.
Qed.

Lemma stable_forever n : stable n = true -> forall m, (n <= m)%nat -> forall p, R m p = R n p.
Proof.
  intros H m Hle. replace m with ((m - n) + n)%nat by lia.
  generalize (m - n)%nat as k. induction k as [| k IH]; intros p; [reflexivity |].
  change (S k + n)%nat with (S (k + n)). rewrite (all_eq n (stable_eq n H) k p). apply IH.
Qed.

Lemma unstable_weight n : stable n = false -> (weight n < weight (S n))%nat.
Proof.
  intros H. unfold stable in H. destruct (forallb_false_ex _ _ H) as [q [Hq Hne]].
  apply N.eqb_neq in Hne. unfold weight. apply list_sum_lt.
  - intros p _. apply bc_le, R_mono.
  - exists q. split; [exact Hq |]. apply bc_lt; [apply R_mono | apply R_lt | apply R_lt | congruence].
Qed.

Lemma no_stable_weight n : (forall k, (k < n)%nat -> stable k = false) -> (n <= weight n)%nat.
Proof.
  induction n as [| n IH]; intros H; [lia |].
  assert (n <= weight n)%nat by (apply IH; intros; apply H; lia).
  assert (weight n < weight (S n))%nat by (apply unstable_weight, H; lia). lia.
Qed.

Lemma stable_or_not n :
  (exists k, (k < n)%nat /\ stable k = true) \/ (forall k, (k < n)%nat -> stable k = false).
Proof.
  induction n as [| n [[k [Hk Hs]] | Hnone]].
  - right. intros k Hk. lia.
  - left. exists k. split; [lia | exact Hs].
  - destruct (stable n) eqn:E.
    + left. exists n. split; [lia | exact E].
    + right. intros k Hk. destruct (Nat.eq_dec k n) as [-> | Hne]; [exact E | apply Hnone; lia].
Qed.

(* reached within height x nodes rounds *)
Lemma stabilises : exists k, (k <= 8 * length ns)%nat /\ stable k = true.
Proof.
  destruct (stable_or_not (S (8 * length ns))) as [[k [Hk Hs]] | Hnone].
  - exists k. split; [lia | exact Hs].
  - exfalso. assert (H1 := no_stable_weight _ Hnone). assert (H2 := weight_bound (S (8 * length ns))). lia.
Qed.

Lemma kleene_is_fixpoint : is_fixpoint prog sn ns (kleene prog sn ns).
Proof.
  destruct stabilises as [k [Hk Hs]]. intros q Hq.
  rewrite kleene_R. unfold krounds.
  transitivity (Fq (R (S (8 * length ns))) q).
  - apply F_ext. intros p. apply kleene_R.
  - change (Fq (R (S (8 * length ns))) q) with (if true then Fq (R (S (8 * length ns))) q else 0).
    rewrite <- (proj2 (mem_In q ns) Hq).
    change (R (S (S (8 * length ns))) q = R (S (8 * length ns)) q).
    rewrite (stable_forever k Hs (S (S (8 * length ns)))) by lia.
    rewrite (stable_forever k Hs (S (8 * length ns))) by lia. reflexivity.
Qed.

Lemma kleene_least sigma : is_prefixpoint prog sn ns sigma -> env_le (kleene prog sn ns) sigma.
Proof. intros H p. rewrite kleene_R. now apply R_below. Qed.

Lemma kleene_rounds : exists k, (k <= 8 * length ns)%nat /\
  forall m, (k <= m)%nat -> forall q, tlookup (kiter prog sn ns m (tbl0 ns)) q = kleene prog sn ns q.
Proof.
  destruct stabilises as [k [Hk Hs]]. exists k. split; [exact Hk |]. intros m Hm q.
  rewrite kiter_R, kleene_R. rewrite (stable_forever k Hs m Hm).
  symmetry. apply stable_forever; [exact Hs | unfold krounds; lia].
Qed.

(* least fixpoint, reached within height x nodes rounds *)
Theorem kleene_lfp :
  is_fixpoint prog sn ns (kleene prog sn ns) /\
  (forall sigma, is_prefixpoint prog sn ns sigma -> env_le (kleene prog sn ns) sigma) /\
  (exists k, (k <= 8 * length ns)%nat /\
     forall m, (k <= m)%nat -> forall q, tlookup (kiter prog sn ns m (tbl0 ns)) q = kleene prog sn ns q).
Proof. split; [apply kleene_is_fixpoint | split; [apply kleene_least | apply kleene_rounds]]. Qed.

(* chaotic iteration: whatever the evaluation order was, a state that only holds values below
   the least fixpoint and satisfies every equation IS the least fixpoint *)
Theorem chaotic : forall sigma,
  env_le sigma (kleene prog sn ns) -> is_fixpoint prog sn ns sigma ->
  forall q, sigma q = kleene prog sn ns q.
Proof.
  intros sigma Hbelow Hfix q. apply le_bits_antisym; [apply Hbelow |].
  apply kleene_least. intros p Hp. rewrite (Hfix p Hp). apply le_bits_refl.
Qed.

(* ---------------------------------------------------------------- the certificate *)
Lemma runo_run : forall b ein ecell (sigma : qkey -> option val) rho v,
  runo ein ecell sigma b = Some v ->
  (forall q v', sigma q = Some v' -> rho q = v') ->
  run {| e_in := ein; e_cell := ecell; e_q := rho |} b = v.
Proof.
  induction b as [v0 | i k IH | q k IH | c k IH | k IH | c k IH]; intros ein ecell sigma rho v H Hag; cbn in *.
  - congruence.
  - eapply IH; eassumption.
  - destruct (sigma q) as [v' |] eqn:E; [| discriminate]. rewrite (Hag q v' E). eapply IH; eassumption.
  - eapply IH; eassumption.
  - eapply IH; eassumption.
  - eapply IH; eassumption.
Qed.

(* a partial assignment read off a final state that re-evaluates to itself and lies below the
   least fixpoint equals the least fixpoint wherever it is defined *)
Theorem certified_fix : forall sigma : qkey -> option val,
  cert_fix prog sn ns sigma = true ->
  (forall q v, sigma q = Some v -> le_bits v (kleene prog sn ns q)) ->
  forall q v, In q ns -> sigma q = Some v -> v = kleene prog sn ns q.
Proof.
  intros sigma Hcert Hbelow q v Hq Hs.
  set (tau := fun p => match sigma p with Some x => x | None => kleene prog sn ns p end).
  assert (Htau_le : env_le tau (kleene prog sn ns)).
  { intros p. unfold tau. destruct (sigma p) eqn:E; [now apply Hbelow | apply le_bits_refl]. }
  assert (Hpre : is_prefixpoint prog sn ns tau).
  { intros p Hp. unfold tau at 2. destruct (sigma p) as [x |] eqn:E.
    - unfold cert_fix in Hcert. rewrite forallb_forall in Hcert. specialize (Hcert p Hp).
      rewrite E in Hcert. destruct (runo (sn_in sn) (sn_cell sn) sigma (prog p)) as [x' |] eqn:Er; [| discriminate].
      apply N.eqb_eq in Hcert. subst x'.
      unfold F. rewrite (runo_run _ _ _ sigma tau x Er); [apply le_bits_refl |].
      intros p' v' E'. unfold tau. now rewrite E'.
    - rewrite <- (kleene_is_fixpoint p Hp). apply Hmono, Htau_le. }
  apply le_bits_antisym; [now apply Hbelow |].
  assert (H := kleene_least tau Hpre q). unfold tau in H. now rewrite Hs in H.
Qed.

End Kleene.

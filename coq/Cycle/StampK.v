(* Cycle/StampK.v — the iteration-stamp kernels the Cycle model is built from, re-exported
   from the translator's output (coq/gen/Kernels.v, regenerated from /repo/src/cycle.rs on
   every run).  The Cycle model uses only these names.  Definitions only.

     cycle.rs:58        MAX_ITERATIONS                       -> MAX_ITERATIONS
     cycle.rs:140-142   IterationStamp::initial              -> stamp_initial
     cycle.rs:144-146   IterationStamp::is_default           -> stamp_is_default
     cycle.rs:148-150   IterationStamp::is_initial_iteration -> stamp_is_initial
     cycle.rs:152-159   IterationStamp::increment_iteration  -> stamp_increment
     cycle.rs:165-167   IterationStamp::cancellation_count   -> stamp_ccount
     cycle.rs:169-171   IterationStamp::iteration            -> stamp_iteration
   A stamp is the u16 `iteration + 256 * cancellation_count`; `Ord` on stamps is `<=` on N. *)
From Salsa Require Import Base.
From Salsa.gen Require Import Kernels.

Definition stamp := N.
Definition MAX_ITERATIONS : N := k_MAX_ITERATIONS.
Definition stamp_initial (ccount : N) : stamp := k_stamp_initial ccount.
Definition stamp_default : stamp := 0.
Definition stamp_is_default (s : stamp) : bool := k_stamp_is_default s.
Definition stamp_is_initial (s : stamp) : bool := k_stamp_is_initial_iteration s.
Definition stamp_increment (s : stamp) : option stamp := k_stamp_increment_iteration s.
Definition stamp_ccount (s : stamp) : N := k_stamp_cancellation_count s.
Definition stamp_iteration (s : stamp) : N := k_stamp_iteration s.

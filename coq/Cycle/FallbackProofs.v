(* Cycle/FallbackProofs.v — the facts behind C13: reachability on the input-determined call
   graph ([on_cycle] = "lies on a closed walk of bounded length"), well-definedness of
   [spec_fallback] (fuel-irrelevance), and the certificate theorem. *)
From Coq Require Import PeanoNat.
From Salsa Require Import Base.
From Salsa.Core Require Import Model Spec.
From Salsa.Cycle Require Import Spec SpecProofs.

(* ---------------------------------------------------------------- reachability *)
Section Reach.
Variable g : qkey -> list qkey.

(* a walk of exactly k edges from y to x *)
Fixpoint walk (k : nat) (y x : qkey) : Prop :=
  match k with
  | O => y = x
  | S k' => exists z, In z (g y) /\ walk k' z x
  end.

Definition reach (l : list qkey) (k : nat) (x : qkey) : Prop := exists y, In y l /\ walk k y x.

Lemma add_all_In : forall new l x, In x (add_all l new) <-> In x l \/ In x new.
Proof.
  induction new as [| y new IH]; intros l x; cbn [add_all].
  - cbn. tauto.
  - rewrite IH. destruct (mem y l) eqn:E.
    + apply mem_In in E. cbn. split; [tauto |]. intros [H | [-> | H]]; tauto.
    + rewrite in_app_iff. cbn. tauto.
Qed.

Lemma closure_spec : forall n l x,
  In x (closure g n l) <-> exists k, (k <= n)%nat /\ reach l k x.
Proof.
  induction n as [| n IH]; intros l x; cbn [closure].
  - split.
    + intros H. exists 0%nat. split; [lia |]. exists x. cbn. tauto.
    + intros [k [Hk [y [Hy Hw]]]]. assert (k = 0)%nat by lia. subst. cbn in Hw. now subst.
  - rewrite IH. split.
    + intros [k [Hk [y [Hy Hw]]]]. apply add_all_In in Hy. destruct Hy as [Hy | Hy].
      * exists k. split; [lia |]. exists y. tauto.
      * apply in_flat_map in Hy. destruct Hy as [y0 [Hy0 Hin]].
        exists (S k). split; [lia |]. exists y0. split; [exact Hy0 |]. cbn. exists y. tauto.
    + intros [k [Hk [y [Hy Hw]]]]. destruct k as [| k].
      * exists 0%nat. split; [lia |]. exists y. split; [apply add_all_In; tauto | exact Hw].
      * cbn in Hw. destruct Hw as [z [Hz Hw]]. exists k. split; [lia |].
        exists z. split; [| exact Hw]. apply add_all_In. right. apply in_flat_map. exists y. tauto.
Qed.

(* q is on a cycle iff a closed walk of length at most n + 1 passes through it *)
Theorem on_cycle_spec : forall n q,
  on_cycle g n q = true <-> exists k, (k <= n)%nat /\ walk (S k) q q.
Proof.
  intros n q. unfold on_cycle. rewrite mem_In, closure_spec. split.
  - intros [k [Hk [y [Hy Hw]]]]. apply add_all_In in Hy. destruct Hy as [[] | Hy].
    exists k. split; [exact Hk |]. cbn. exists y. tauto.
  - intros [k [Hk [z [Hz Hw]]]]. exists k. split; [exact Hk |]. exists z. split; [| exact Hw].
    apply add_all_In. now right.
Qed.

End Reach.

(* ---------------------------------------------------------------- run and the calls it makes *)
Lemma run_agree : forall b ein ecell rho rho',
  (forall p, In p (call_trace ein ecell rho b) -> rho p = rho' p) ->
  run {| e_in := ein; e_cell := ecell; e_q := rho |} b =
  run {| e_in := ein; e_cell := ecell; e_q := rho' |} b.
Proof.
  induction b as [v | i k IH | q k IH | c k IH | k IH | c k IH]; intros ein ecell rho rho' H; cbn in *.
  - reflexivity.
  - apply IH, H.
  - rewrite <- (H q (or_introl eq_refl)). apply IH. intros p Hp. apply H. now right.
  - apply IH, H.
  - apply IH, H.
  - apply IH, H.
Qed.

Lemma runo_run_trace : forall b ein ecell (sigma : qkey -> option val) rho v,
  runo ein ecell sigma b = Some v ->
  (forall p, In p (call_trace ein ecell rho b) -> forall v', sigma p = Some v' -> rho p = v') ->
  run {| e_in := ein; e_cell := ecell; e_q := rho |} b = v.
Proof.
  induction b as [v0 | i k IH | q k IH | c k IH | k IH | c k IH]; intros ein ecell sigma rho v H Hag; cbn in *.
  - congruence.
  - eapply IH; eassumption.
  - destruct (sigma q) as [v' |] eqn:E; [| discriminate].
    assert (Hq : rho q = v') by (apply Hag; [now left | exact E]).
    rewrite Hq in *. eapply IH; [eassumption |]. intros p Hp. apply Hag. now right.
  - eapply IH; eassumption.
  - eapply IH; eassumption.
  - eapply IH; eassumption.
Qed.

(* ---------------------------------------------------------------- spec_fallback *)
Section Fallback.
Variable prog : qkey -> body.
Variable sn : snapshot.
Variable fb : qkey -> val.
Variable cyc : qkey -> bool.

(* the call edges depend on inputs only *)
Hypothesis Hdet : input_determined prog sn.

(* a rank on the nodes that are not on a cycle, decreasing along calls between them: the
   witness that the call graph minus its cyclic nodes is acyclic *)
Variable rank : qkey -> nat.
Hypothesis Hrank : forall q q', cyc q = false -> In q' (succs prog sn q) -> cyc q' = false ->
                                (rank q' < rank q)%nat.

Notation sf := (spec_fb prog sn fb cyc).

Lemma spec_fb_fuel : forall n m q, (rank q + 1 < n)%nat -> (rank q + 1 < m)%nat -> sf n q = sf m q.
Proof.
  induction n as [| n IH]; intros m q Hn Hm; [lia |].
  destruct m as [| m]; [lia |]. cbn [spec_fb].
  destruct (cyc q) eqn:Ec; [reflexivity |].
  apply run_agree. intros p Hp. rewrite (Hdet q (sf n)) in Hp.
  destruct (cyc p) eqn:Ep.
  - destruct n as [| n']; [lia |]. destruct m as [| m']; [lia |]. cbn [spec_fb]. now rewrite Ep.
  - assert (rank p < rank q)%nat by (now apply Hrank). apply IH; lia.
Qed.

(* the certificate on a partial assignment: defined cyclic nodes hold the fallback, defined
   other nodes re-evaluate to themselves over the assignment *)
Lemma certified_fb_gen : forall ns (sigma : qkey -> option val),
  cert_fallback prog sn fb cyc ns sigma = true ->
  (forall q v, sigma q = Some v -> In q ns) ->
  forall r q v n, (rank q <= r)%nat -> (rank q + 1 < n)%nat -> sigma q = Some v -> v = sf n q.
Proof.
  intros ns sigma Hcert Hdom.
  unfold cert_fallback in Hcert. rewrite forallb_forall in Hcert.
  assert (Hcyc : forall q v n, cyc q = true -> (0 < n)%nat -> sigma q = Some v -> v = sf n q).
  { intros q v n Ec Hn Hs. destruct n as [| n]; [lia |]. cbn [spec_fb]. rewrite Ec.
    specialize (Hcert q (Hdom q v Hs)). rewrite Hs, Ec in Hcert. now apply N.eqb_eq in Hcert. }
  induction r as [| r IH]; intros q v n Hr Hn Hs.
  - destruct (cyc q) eqn:Ec; [apply Hcyc; [exact Ec | lia | exact Hs] |].
    destruct n as [| n]; [lia |]. cbn [spec_fb]. rewrite Ec.
    specialize (Hcert q (Hdom q v Hs)). rewrite Hs, Ec in Hcert.
    destruct (runo (sn_in sn) (sn_cell sn) sigma (prog q)) as [v' |] eqn:Er; [| discriminate].
    apply N.eqb_eq in Hcert. subst v'. symmetry.
    apply (runo_run_trace _ _ _ sigma _ _ Er). intros p Hp v' Hs'.
    rewrite (Hdet q (sf n)) in Hp. destruct (cyc p) eqn:Ep.
    + symmetry. apply Hcyc; [exact Ep | lia | exact Hs'].
    + assert (rank p < rank q)%nat by (now apply Hrank). lia.
  - destruct (cyc q) eqn:Ec; [apply Hcyc; [exact Ec | lia | exact Hs] |].
    destruct n as [| n]; [lia |]. cbn [spec_fb]. rewrite Ec.
    specialize (Hcert q (Hdom q v Hs)). rewrite Hs, Ec in Hcert.
    destruct (runo (sn_in sn) (sn_cell sn) sigma (prog q)) as [v' |] eqn:Er; [| discriminate].
    apply N.eqb_eq in Hcert. subst v'. symmetry.
    apply (runo_run_trace _ _ _ sigma _ _ Er). intros p Hp v' Hs'.
    rewrite (Hdet q (sf n)) in Hp. destruct (cyc p) eqn:Ep.
    + symmetry. apply Hcyc; [exact Ep | lia | exact Hs'].
    + assert (rank p < rank q)%nat by (now apply Hrank). symmetry. apply IH; [lia | lia | exact Hs'].
Qed.

End Fallback.

(* ---------------------------------------------------------------- the statements for Props/C13.v *)

(* spec_fallback does not depend on the fuel once it exceeds the rank: it is a function of the
   program and the inputs alone *)
Theorem spec_fallback_wd : forall prog sn fb ns rank,
  input_determined prog sn ->
  let cyc := fun q => mem q (cyclic_nodes (succs prog sn) ns) in
  (forall q q', cyc q = false -> In q' (succs prog sn q) -> cyc q' = false -> (rank q' < rank q)%nat) ->
  (forall q, (rank q < length ns)%nat) ->
  forall n q, (length ns < n)%nat -> spec_fb prog sn fb cyc n q = spec_fallback prog sn fb ns q.
Proof.
  intros prog sn fb ns rank Hdet cyc Hrank Hb n q Hn. unfold spec_fallback. fold cyc.
  apply (spec_fb_fuel prog sn fb cyc Hdet rank Hrank); specialize (Hb q); lia.
Qed.

Theorem certified_fallback : forall prog sn fb ns rank (sigma : qkey -> option val),
  input_determined prog sn ->
  let cyc := fun q => mem q (cyclic_nodes (succs prog sn) ns) in
  (forall q q', cyc q = false -> In q' (succs prog sn q) -> cyc q' = false -> (rank q' < rank q)%nat) ->
  (forall q, (rank q < length ns)%nat) ->
  cert_fallback prog sn fb cyc ns sigma = true ->
  (forall q v, sigma q = Some v -> In q ns) ->
  forall q v, sigma q = Some v -> v = spec_fallback prog sn fb ns q.
Proof.
  intros prog sn fb ns rank sigma Hdet cyc Hrank Hb Hcert Hdom q v Hs. unfold spec_fallback. fold cyc.
  apply (certified_fb_gen prog sn fb cyc Hdet rank Hrank ns sigma Hcert Hdom (rank q) q v);
    [lia | specialize (Hb q); lia | exact Hs].
Qed.

(* Cycle/EpochRound.v — the head closure, one trip of the fixpoint loop and the loop itself preserve
   the epoch invariant; the maximum stamp a trip reports is a stamp of the current epoch. *)
From Coq Require Import PeanoNat.
From Salsa Require Import Base.
From Salsa.gen Require Import Kernels.
From Salsa.Kern Require Import CoreK K4_Stamp.
From Salsa.Cycle Require Import StampK Model ModelProofs EpochInv EpochOps.

Section Round.
Context {E : ectx}.
Notation prog := (@eprog E).
Notation strat := (@estrat E).
Notation cinit := (@ecinit E).

(* ---------------------------------------------------------------- the head closure reads only *)
(* a key that is the loop's own, or whose memo is provisional and current *)
Definition live_key (s : cdb) (me k : qkey) : Prop :=
  k = me \/ exists m, c_memo s k = Some m /\ cm_final m = false /\ cur_memo s m.

Definition acc_ok (s : cdb) (acc : coll) : Prop :=
  let '(missing, mx, dep) := acc in heads_ok s missing /\ goodst s mx.

Definition acc_live (s : cdb) (me : qkey) (old : list head) (acc : coll) : Prop :=
  let '(missing, mx, dep) := acc in forall hd, In hd missing -> In hd old \/ live_key s me (fst hd).

Lemma hd_goodst s hd : hd_ok s hd -> goodst s (snd hd).
Proof. intros (Hw & Hc & _). right. now split. Qed.

Lemma collect_rec_ok s me query_heads : SI s ->
  forall n cur_head acc,
    (cur_head = me \/ exists it0, hd_ok s (cur_head, it0)) -> acc_ok s acc ->
    exists r, collect_recursive n cur_head me query_heads acc s = (s, r) /\
    forall acc', r = COk acc' ->
      acc_ok s acc' /\ live_key s me cur_head /\ acc_live s me (fst (fst acc)) acc'.
Proof.
  intros HS. induction n as [| n IH]; intros cur_head acc Hcur Hacc; cbn [collect_recursive].
  - eexists. split; [reflexivity | intros acc' H; discriminate].
  - destruct (key_eqb_spec cur_head me) as [Heq | Hne].
    + destruct acc as [[missing mx] dep]. eexists. split; [reflexivity |]. intros acc' H. injection H as <-.
      split; [exact Hacc |]. split; [now left |]. intros hd Hhd. now left.
    + destruct Hcur as [Heq | (it0 & Hw & Hc & Hr & mh & Hmh & Hok)]; [contradiction |]. cbn [fst] in *.
      unfold cbind at 1. unfold cget at 1. unfold key_status. rewrite Hmh.
      destruct (cm_val mh) as [v |] eqn:Hv.
      2: { unfold status_of. rewrite Hv. destruct (cm_final mh); (eexists; split; [reflexivity | intros acc' H; discriminate]). }
      unfold status_of. rewrite Hv. destruct (cm_final mh) eqn:Hf; [eexists; split; [reflexivity | intros acc' H; discriminate] |].
      assert (Hcm : cur_memo s mh).
      { destruct Hok as [Hx | [Hx | Hx]]; [congruence | congruence | exact Hx]. }
      assert (Hhs : heads_ok s (heads_of mh)).
      { rewrite (heads_of_prov mh Hf). destruct HS as [_ Hall]. now apply (ms_heads _ _ (Hall cur_head mh Hmh)). }
      assert (Hlive : live_key s me cur_head).
      { right. exists mh. split; [exact Hmh |]. split; [exact Hf | exact Hcm]. }
      clear Hmh Hv.
      assert (Hgen : forall hs acc0, acc_ok s acc0 -> heads_ok s hs ->
                acc_live s me (fst (fst acc)) acc0 ->
                exists r,
                  (fix go (hs : list head) (acc : coll) : CM coll :=
                        match hs with
                        | [] => cret acc
                        | h :: hs' =>
                            let '(missing, mx, dep) := acc in
                            let mx1 := N.max mx (snd h) in
                            if heads_contains query_heads (fst h) then go hs' (missing, mx1, dep)
                            else if existsb (fun x => key_eqb (fst x) (fst h) && (snd x =? snd h)) missing
                                 then go hs' (missing, mx1, dep)
                            else acc' <- collect_recursive n (fst h) me query_heads (missing ++ [h], mx1, dep) ;;
                                 go hs' acc'
                        end) hs acc0 s = (s, r) /\
                forall acc', r = COk acc' ->
                  acc_ok s acc' /\ acc_live s me (fst (fst acc)) acc').
      { induction hs as [| h hs IHhs]; intros acc0 Hacc0 Hhs0 Hlv0.
        - eexists. split; [reflexivity |]. intros acc' H. injection H as <-. now split.
        - destruct acc0 as [[missing mx] dep]. destruct Hacc0 as (Hm & Hg).
          assert (Hh : hd_ok s h) by (apply Hhs0; now left).
          assert (Hhs' : heads_ok s hs) by (intros x Hx; apply Hhs0; now right).
          assert (Hg1 : goodst s (N.max mx (snd h))) by (apply goodst_max; [exact Hg | now apply hd_goodst]).
          cbv zeta. destruct (heads_contains query_heads (fst h)).
          { apply IHhs; [now split | exact Hhs' | exact Hlv0]. }
          destruct (existsb (fun x => key_eqb (fst x) (fst h) && (snd x =? snd h)) missing).
          { apply IHhs; [now split | exact Hhs' | exact Hlv0]. }
          unfold cbind at 1.
          assert (Hacc1 : acc_ok s (missing ++ [h], N.max mx (snd h), dep)).
          { split; [| exact Hg1]. intros x Hx. apply in_app_or in Hx as [Hx | [<- | []]]; [now apply Hm | exact Hh]. }
          destruct (IH (fst h) (missing ++ [h], N.max mx (snd h), dep)) as (r1 & Hr1 & Hres).
          { right. exists (snd h). destruct h. exact Hh. }
          { exact Hacc1. }
          rewrite Hr1. destruct r1 as [acc1 | p |]; try (eexists; split; [reflexivity | intros acc' H; discriminate]).
          destruct (Hres acc1 eq_refl) as (Hok1 & Hlk1 & Hlv1).
          apply IHhs; [exact Hok1 | exact Hhs' |].
          destruct acc1 as [[missing1 mx1] dep1]. intros hd Hhd.
          destruct (Hlv1 hd Hhd) as [Hin | Hl]; [| now right].
          cbn [fst] in Hin. apply in_app_or in Hin as [Hin | [<- | []]]; [now apply Hlv0 | now right]. }
      destruct (Hgen (heads_of mh) acc Hacc Hhs) as (r & Hrun & Hres).
      { destruct acc as [[missing mx] dep]. intros hd Hhd. now left. }
      exists r. split; [exact Hrun |]. intros acc' Ha. destruct (Hres acc' Ha) as [H1 H2].
      split; [exact H1 |]. split; [exact Hlive | exact H2].
Qed.

Lemma heads_insert_nonempty hs q it hs' : heads_insert hs q it = Some hs' -> hs' <> [].
Proof.
  unfold heads_insert. destruct (heads_find hs q) as [it' |] eqn:Hf.
  - destruct (it' =? it); [| discriminate]. intros H. injection H as <-.
    destruct hs; [discriminate | discriminate].
  - intros H. injection H as <-. destruct hs; discriminate.
Qed.

Lemma insert_missing_incl missing : forall hs hs', insert_missing hs missing = Some hs' ->
  forall x, In x hs' -> In x hs \/ In x missing.
Proof.
  induction missing as [| h o IH]; intros hs hs' H x Hx; cbn [insert_missing] in H.
  - injection H as <-. now left.
  - destruct (heads_insert hs (fst h) (snd h)) as [hs1 |] eqn:Hi; [| discriminate].
    destruct (IH hs1 hs' H x Hx) as [H1 | H1]; [| right; now right].
    destruct (heads_insert_incl _ _ _ _ Hi x H1) as [H2 | H2]; [now left |].
    right; left. destruct h. exact (eq_sym H2).
Qed.

Lemma insert_missing_nonempty missing : forall hs hs', insert_missing hs missing = Some hs' ->
  hs <> [] -> hs' <> [].
Proof.
  induction missing as [| h o IH]; intros hs hs' H Hne; cbn [insert_missing] in H.
  - injection H as <-. exact Hne.
  - destruct (heads_insert hs (fst h) (snd h)) as [hs1 |] eqn:Hi; [| discriminate].
    apply (IH hs1 hs' H). eapply heads_insert_nonempty; eassumption.
Qed.

Definition collect_post (s : cdb) (me : qkey) (heads0 : list head) (r : list head * stamp * bool) : Prop :=
  let '(heads, hm, dep) := r in
  heads_ok s heads /\ goodst s hm /\ (heads0 <> [] -> heads <> []) /\
  (forall hd, In hd heads -> live_key s me (fst hd)).

Lemma collect_all_ok s n heads0 me : SI s -> heads_ok s heads0 ->
  exists r, collect_all_cycle_heads n heads0 me s = (s, r) /\
            forall x, r = COk x -> collect_post s me heads0 x.
Proof.
  intros HS Hh0. unfold collect_all_cycle_heads. unfold cbind at 1.
  assert (Hgo : forall l acc0, (forall h, In h l -> hd_ok s h) -> acc_ok s acc0 ->
            (forall hd, In hd (fst (fst acc0)) -> live_key s me (fst hd)) ->
            exists r,
              (fix go (hs : list head) (acc : coll) : CM coll :=
                 match hs with
                 | [] => cret acc
                 | h :: hs' => acc' <- collect_recursive n (fst h) me heads0 acc ;; go hs' acc'
                 end) l acc0 s = (s, r) /\
              forall acc', r = COk acc' ->
                acc_ok s acc' /\ (forall hd, In hd (fst (fst acc')) -> live_key s me (fst hd)) /\
                (forall h, In h l -> live_key s me (fst h))).
  { induction l as [| h l IHl]; intros acc0 Hl Hacc0 Hlv0.
    - eexists. split; [reflexivity |]. intros acc' H. injection H as <-. split; [exact Hacc0 |]. split; [exact Hlv0 | intros h []].
    - unfold cbind at 1.
      destruct (collect_rec_ok s me heads0 HS n (fst h) acc0) as (r1 & Hr1 & Hres1).
      { right. exists (snd h). destruct h. apply Hl. now left. }
      { exact Hacc0. }
      rewrite Hr1. destruct r1 as [acc1 | p |]; try (eexists; split; [reflexivity | intros acc' H; discriminate]).
      destruct (Hres1 acc1 eq_refl) as (Hok1 & Hlk1 & Hlv1).
      destruct (IHl acc1) as (r2 & Hr2 & Hres2).
      { intros x Hx. apply Hl. now right. }
      { exact Hok1. }
      { destruct acc1 as [[m1 x1] d1]. cbn [fst]. intros hd Hhd. destruct (Hlv1 hd Hhd) as [Hin | Hx]; [now apply Hlv0 | exact Hx]. }
      exists r2. split; [exact Hr2 |]. intros acc' Ha. destruct (Hres2 acc' Ha) as (H1 & H2 & H3).
      split; [exact H1 |]. split; [exact H2 |]. intros x [<- | Hx]; [exact Hlk1 | now apply H3]. }
  destruct (Hgo heads0 ([], stamp_default, false)) as (r & Hr & Hres).
  { exact Hh0. }
  { split; [apply heads_ok_nil | now left]. }
  { intros hd []. }
  rewrite Hr. destruct r as [[[missing mx] dep] | p |]; try (eexists; split; [reflexivity | intros x H; discriminate]).
  destruct (Hres _ eq_refl) as ((Hm & Hg) & Hlm & Hl0). cbn [fst] in Hlm.
  destruct (insert_missing heads0 missing) as [hs' |] eqn:Hins; [| eexists; split; [reflexivity | intros x H; discriminate]].
  eexists. split; [reflexivity |]. intros x H. injection H as <-.
  split; [| split; [exact Hg | split]].
  - intros hd Hhd. destruct (insert_missing_incl _ _ _ Hins hd Hhd) as [H1 | H1]; [now apply Hh0 | now apply Hm].
  - intros Hne. eapply insert_missing_nonempty; eassumption.
  - intros hd Hhd. destruct (insert_missing_incl _ _ _ Hins hd Hhd) as [H1 | H1]; [now apply Hl0 | now apply Hlm].
Qed.

Lemma gwp_collect s0 n heads0 me s : SI s -> ext s0 s -> heads_ok s heads0 ->
  gwp s0 (collect_all_cycle_heads n heads0 me) (fun s' r => s' = s /\ collect_post s me heads0 r) s.
Proof.
  intros HS He Hh. destruct (collect_all_ok s n heads0 me HS Hh) as (r & Hr & Hres).
  unfold gwp. rewrite Hr. cbn [fst snd]. split; [exact HS |]. split; [exact He |].
  intros a Ha. split; [reflexivity | now apply Hres].
Qed.

(* ---------------------------------------------------------------- outer_cycle, completion *)
Lemma corep_find_claimed hs : corep (find_claimed_head hs).
Proof.
  induction hs as [| h hs IH]; cbn [find_claimed_head]; [apply corep_ret |].
  apply corep_bind; [apply corep_peek_claim |]. intros pk. destruct pk as [| [|]]; try exact IH. apply corep_ret.
Qed.

Lemma corep_outer_cycle heads me : corep (outer_cycle heads me).
Proof.
  unfold outer_cycle. apply corep_bind; [apply corep_get |]. intros s.
  destruct (find _ _); [apply corep_ret | apply corep_find_claimed].
Qed.

Lemma corep_complete n fr it : corep (complete_cycle_query strat n fr it).
Proof.
  unfold complete_cycle_query. apply corep_bind; [apply corep_get |]. intros s.
  apply corep_bind; [apply corep_pop | intros; apply corep_ret].
Qed.

(* ---------------------------------------------------------------- map_heads_memos *)
Definition mstep (f : qkey -> cmemo -> cmemo) (mm : qkey -> option cmemo) (h : head) : qkey -> option cmemo :=
  match mm (fst h) with
  | Some m => upd mm (fst h) (Some (f (fst h) m))
  | None => mm
  end.

Lemma cset_memo_id s : cset_memo s (c_memo s) = s.
Proof. destruct s; reflexivity. Qed.

Lemma fold_final l : forall s, SI s ->
  SI (cset_memo s (fold_left (mstep (fun _ m => with_final m true)) l (c_memo s))) /\
  ext s (cset_memo s (fold_left (mstep (fun _ m => with_final m true)) l (c_memo s))).
Proof.
  induction l as [| h l IH]; intros s HS; cbn [fold_left].
  - rewrite cset_memo_id. split; [exact HS | apply ext_refl].
  - destruct (c_memo s (fst h)) as [m |] eqn:Hm.
    + assert (Hstep : mstep (fun _ m => with_final m true) (c_memo s) h
                      = upd (c_memo s) (fst h) (Some (with_final m true))) by (unfold mstep; now rewrite Hm).
      rewrite Hstep.
      destruct (tbl_memo_of s (fst h) m HS Hm) as (Hw & Hv & _).
      destruct (put_SI s (fst h) (with_final m true) HS Hw Hv) as [HS1 He1].
      * intros H. discriminate.
      * intros H. discriminate.
      * intros _ H. discriminate.
      * intros _. now left.
      * destruct (IH (put s (fst h) (with_final m true)) HS1) as [H1 H2].
        split; [exact H1 | eapply ext_trans; [exact He1 | exact H2]].
    + assert (Hstep : mstep (fun _ m => with_final m true) (c_memo s) h = c_memo s) by (unfold mstep; now rewrite Hm).
      rewrite Hstep. now apply IH.
Qed.

Definition live_rcv (s : cdb) (k : qkey) : Prop :=
  rcv k /\ exists m, c_memo s k = Some m /\ cm_final m = false /\ cur_memo s m.

Lemma heads_update_in hs k it x : In x (heads_update hs k it) ->
  x = (k, it) \/ In x hs.
Proof.
  unfold heads_update. intros H. apply in_map_iff in H as (y & Hy & Hin).
  destruct (key_eqb_spec (fst y) k) as [Hk | Hk]; [left; rewrite <- Hy, Hk; reflexivity | right; now rewrite <- Hy].
Qed.

Lemma step_iter s k m it' :
  SI s -> stamp_wf it' -> stamp_ccount it' = c_ccount s -> rcv k ->
  c_memo s k = Some m -> cm_final m = false -> cur_memo s m ->
  SI (put s k (with_iteration_count m k it')) /\ ext s (put s k (with_iteration_count m k it')) /\
  cm_final (with_iteration_count m k it') = false /\ cur_memo s (with_iteration_count m k it').
Proof.
  intros HS Hw Hc Hr Hm Hf Hcm.
  destruct HS as [Hlt Hall]. assert (HS : SI s) by (split; assumption).
  destruct (Hall k m Hm) as [M1 M2 M3 M4 M5].
  set (m2 := with_iteration_count m k it').
  assert (Hf2 : cm_final m2 = false).
  { unfold m2, with_iteration_count. destruct (cm_extra m); [exact Hf | exact Hf]. }
  assert (Hv2 : cm_verified m2 = cm_verified m).
  { unfold m2, with_iteration_count. destruct (cm_extra m); reflexivity. }
  assert (Hi2 : iter_of m2 = it' \/ (m2 = m)).
  { unfold m2, with_iteration_count, iter_of. destruct (cm_extra m); [now left | now right]. }
  assert (Hcm2 : cur_memo s m2).
  { destruct Hcm as [Hc1 Hc2]. split; [congruence |]. destruct Hi2 as [-> | ->]; [exact Hc | exact Hc2]. }
  assert (Hok2 : head_memo_ok s m2) by (right; right; exact Hcm2).
  destruct (put_SI s k m2 HS) as [HS1 He1].
  - destruct Hi2 as [-> | ->]; [exact Hw | exact M1].
  - rewrite Hv2. exact M2.
  - intros _ _. destruct Hcm2 as [_ Hx]. rewrite Hx. apply N.le_refl.
  - intros _. unfold m2, with_iteration_count, raw_heads. destruct (cm_extra m) eqn:He.
    + cbn. specialize (M4 Hf). unfold raw_heads in M4. rewrite He in M4.
      destruct (cm_heads m); [contradiction | discriminate].
    + specialize (M4 Hf). unfold raw_heads in M4. rewrite He in M4. contradiction.
  - intros _ _ x Hx. unfold m2, with_iteration_count, raw_heads in Hx. destruct (cm_extra m) eqn:He.
    + cbn in Hx. destruct (heads_update_in _ _ _ _ Hx) as [-> | Hin].
      * apply hd_ok_put_self; assumption.
      * apply (hd_ok_ext s _ _ (put_ext s k m2 (fun _ => Hok2))).
        apply (M5 Hcm Hf). unfold raw_heads. now rewrite He.
    + rewrite He in Hx. contradiction.
  - intros _. exact Hok2.
  - split; [exact HS1 |]. split; [exact He1 |]. split; [exact Hf2 | exact Hcm2].
Qed.

Lemma fold_iter it' l : forall s, SI s -> stamp_wf it' -> stamp_ccount it' = c_ccount s ->
  (forall h, In h l -> live_rcv s (fst h)) ->
  SI (cset_memo s (fold_left (mstep (fun h m => with_iteration_count m h it')) l (c_memo s))) /\
  ext s (cset_memo s (fold_left (mstep (fun h m => with_iteration_count m h it')) l (c_memo s))).
Proof.
  induction l as [| h l IH]; intros s HS Hw Hc Hl; cbn [fold_left].
  - rewrite cset_memo_id. split; [exact HS | apply ext_refl].
  - destruct (Hl h (or_introl eq_refl)) as (Hr & m & Hm & Hf & Hcm).
    assert (Hstep : mstep (fun h m => with_iteration_count m h it') (c_memo s) h
                    = upd (c_memo s) (fst h) (Some (with_iteration_count m (fst h) it'))) by (unfold mstep; now rewrite Hm).
    rewrite Hstep.
    destruct (step_iter s (fst h) m it' HS Hw Hc Hr Hm Hf Hcm) as (HS1 & He1 & Hf2 & Hcm2).
    destruct (IH (put s (fst h) (with_iteration_count m (fst h) it')) HS1 Hw Hc) as [H1 H2].
    + intros x Hx. destruct (Hl x (or_intror Hx)) as (Hrx & mx & Hmx & Hfx & Hcx).
      split; [exact Hrx |]. cbn. unfold upd. destruct (key_eqb_spec (fst h) (fst x)) as [Hk | Hk].
      * eexists. split; [reflexivity |]. split; [exact Hf2 | exact Hcm2].
      * exists mx. split; [exact Hmx |]. split; [exact Hfx | exact Hcx].
    + split; [exact H1 | eapply ext_trans; [exact He1 | exact H2]].
Qed.

(* ---------------------------------------------------------------- one trip *)
Definition rev_ok (s : cdb) (rv : cmemo) : Prop :=
  stamp_wf (iter_of rv) /\
  (cm_final rv = false -> raw_heads rv <> [] /\ heads_ok s (raw_heads rv) /\ stamp_ccount (iter_of rv) <= c_ccount s).

Definition round_epost (q : qkey) (s' : cdb) (out : round_out) : Prop :=
  match out with
  | RDone v rv mode => rev_ok s' rv /\ (cm_final rv = false -> stamp_ccount (iter_of rv) = c_ccount s')
  | RIterate hm v rv heads =>
      goodst s' hm /\ heads_ok s' heads /\ heads <> [] /\
      (forall hd, In hd heads -> live_key s' q (fst hd))
  end.

Lemma complete_frame_wf fr es it b : stamp_wf it -> stamp_wf (iter_of (complete_frame fr es it b)).
Proof.
  intros Hw. unfold iter_of, complete_frame. cbn.
  destruct (b || negb (stamp_is_default it)); [exact Hw | apply stamp_default_wf].
Qed.

Lemma rev_ok_final s rv : cm_final rv = true -> stamp_wf (iter_of rv) -> rev_ok s rv.
Proof. intros Hf Hw. split; [exact Hw | intros H; congruence]. Qed.

Lemma same_core_heads s s' hs : same_core s s' -> SI s -> heads_ok s hs -> heads_ok s' hs.
Proof. intros Hc HS. destruct (same_core_SI s s' Hc HS) as [_ He]. now apply heads_ok_ext. Qed.

Section Trip.
Variable L : clower.
Hypothesis HLf : Lfetch_ok L.
Hypothesis HLm : Lmca_ok L.
Variable n : nat.
Variable q : qkey.

Lemma live_key_core s s' k : same_core s s' -> live_key s q k -> live_key s' q k.
Proof.
  intros (Hm & Hr & Hc) [-> | (m & Hk & Hf & Hcu & Hcc)]; [now left |]. right. exists m.
  split; [now rewrite Hm |]. split; [exact Hf |]. split; [unfold ccur; now rewrite Hr | congruence].
Qed.

Lemma gwp_round s0 ls s :
  SI s -> ext s0 s -> loop_inv (c_ccount s) ls ->
  gwp s0 (round prog strat cinit n L q ls) (round_epost q) s.
Proof.
  intros HS He0 [Hlw Hlc]. apply (gwp_ref s s0 _ _ _ He0). assert (He := ext_refl s).
  unfold round.
  eapply gwp_bind; [apply (gwp_run_query L HLf s q _ s HS He) |].
  intros s1 [v fr] HS1 He1 Hfr. cbn [snd] in Hfr.
  assert (Hcc1 : c_ccount s1 = c_ccount s) by apply He1.
  assert (Hpop : forall s2, SI s2 -> ext s s2 -> SI (fst (pop_query s2)) /\ ext s (fst (pop_query s2))).
  { intros s2 HS2 He2. destruct (same_core_SI s2 _ (corep_pop s2) HS2) as [H1 H2].
    split; [exact H1 | eapply ext_trans; eassumption]. }
  destruct (fr_heads fr) as [| h0 hs0] eqn:Hh.
  - (* no heads *)
    assert (Hfin : forall it', stamp_wf it' ->
              gwp s (pop_query ;;; cret (RDone v (complete_frame fr (fr_edges fr) it' false) RDefault)) (round_epost q) s1).
    { intros it' Hw'. eapply gwp_bind; [apply (gwp_corep s pop_query s1 corep_pop HS1 He1) |].
      intros s2 [] HS2 He2 _. apply gwp_ret; [exact HS2 | exact He2 |]. cbn.
      split; [apply rev_ok_final; [reflexivity | now apply complete_frame_wf] | intros H; discriminate]. }
    destruct (stamp_is_initial (ls_iter ls)).
    + apply Hfin, stamp_default_wf.
    + destruct (stamp_increment (ls_iter ls)) as [it' |] eqn:Hi.
      * apply Hfin. now destruct (stamp_increment_wf _ _ Hlw Hi).
      * apply gwp_on_panic; [apply gwp_fail; assumption | exact Hpop].
  - (* heads *)
    rewrite <- Hh in *.
    set (R1 := fun (s' : cdb) (d : list head * qkey * stamp + list head * stamp * option qkey * cmemo * val) =>
                 match d with
                 | inl (heads, oc, it') =>
                     heads_ok s' heads /\ heads <> [] /\ stamp_wf it' /\ stamp_ccount it' = c_ccount s'
                 | inr (heads, hm, outer, last, lv) =>
                     heads_ok s' heads /\ heads <> [] /\ goodst s' hm /\
                     (forall hd, In hd heads -> live_key s' q (fst hd))
                 end).
    eapply (gwp_bind s _ _ R1).
    + apply gwp_on_panic; [| exact Hpop].
      eapply gwp_bind; [apply (gwp_collect s n (fr_heads fr) q s1 HS1 He1 Hfr) |].
      intros s2 [[heads hm] dep] HS2 He2 (-> & Hho & Hg & Hne & Hlv).
      assert (Hnn : heads <> []) by (apply Hne; rewrite Hh; discriminate).
      eapply gwp_bind; [apply (gwp_corep s (outer_cycle heads q) s1 (corep_outer_cycle heads q) HS1 He1) |].
      intros s3 outer HS3 He3 Hc3. cbv beta in Hc3.
      assert (Hho3 : heads_ok s3 heads) by (eapply same_core_heads; eassumption).
      assert (Hcc3 : c_ccount s3 = c_ccount s1) by apply Hc3.
      destruct dep; cbn [negb].
      * apply gwp_bind_get.
        destruct (match ls_last ls with Some m => Some m | None => c_memo s3 q end) as [last |]; [| apply gwp_fail; assumption].
        destruct (cm_val last) as [lv |]; [| apply gwp_fail; assumption].
        apply gwp_ret; [exact HS3 | exact He3 |]. cbn.
        split; [exact Hho3 |]. split; [exact Hnn |].
        split; [destruct Hg as [-> | [Hgw Hgc]]; [now left | right; split; [exact Hgw | congruence]] |].
        intros hd Hhd. apply (live_key_core s1 s3 _ Hc3). now apply Hlv.
      * destruct outer as [oc |]; [| apply gwp_fail; assumption].
        destruct (stamp_increment (ls_iter ls)) as [it' |] eqn:Hi; [| apply gwp_fail; assumption].
        destruct (stamp_increment_wf _ _ Hlw Hi) as (Hw' & Hc' & _).
        apply gwp_ret; [exact HS3 | exact He3 |]. cbn.
        split; [exact Hho3 |]. split; [exact Hnn |]. split; [exact Hw' | congruence].
    + intros s2 d HS2 He2 Hd.
      assert (Hcomplete : forall it, gwp s (complete_cycle_query strat n fr it)
                 (fun s' rv => same_core s2 s' /\ exists es, rv = complete_frame fr es it true) s2).
      { intros it. apply (gwp_corep_res s _ (fun rv => exists es, rv = complete_frame fr es it true) s2
                            (corep_complete n fr it) HS2 He2).
        intros a Ha. unfold complete_cycle_query, cbind, cget, pop_query, cmodify, cret in Ha. cbn in Ha.
        injection Ha as <-. eexists. reflexivity. }
      destruct d as [[[heads oc] it'] | [[[[heads hm] outer] last] lv]]; cbn in Hd.
      * destruct Hd as (Hho & Hnn & Hw' & Hc').
        eapply gwp_bind; [apply (Hcomplete it') |].
        intros s3 rv HS3 He3 (Hc3 & es & ->).
        destruct (same_core_cur _ _ Hc3) as [_ Hcc3].
        assert (Heq : stamp_ccount it' = c_ccount s3) by congruence.
        assert (Hle : stamp_ccount it' <= c_ccount s3) by (rewrite Heq; apply N.le_refl).
        apply gwp_ret; [exact HS3 | exact He3 |].
        split; [split; [exact Hw' |] | intros _; exact Heq].
        intros _. split; [exact Hnn |]. split; [eapply same_core_heads; eassumption | exact Hle].
      * destruct Hd as (Hho & Hnn & Hg & Hlv).
        destruct (match strat_of strat q with
                  | SFallback => (cinit q, true)
                  | _ => let nv := recover strat q lv v in (nv, nv =? lv)
                  end) as [v' vconv].
        eapply gwp_bind; [apply (Hcomplete (ls_iter ls)) |].
        intros s3 rv HS3 He3 (Hc3 & es & ->).
        destruct (same_core_cur _ _ Hc3) as [_ Hcc3].
        assert (Hho3 : heads_ok s3 heads) by (eapply same_core_heads; eassumption).
        assert (Hcc2 : c_ccount s2 = c_ccount s) by apply He2.
        destruct outer as [oc |].
        -- assert (Heq : stamp_ccount (ls_iter ls) = c_ccount s3) by congruence.
           assert (Hle : stamp_ccount (ls_iter ls) <= c_ccount s3) by (rewrite Heq; apply N.le_refl).
           apply gwp_ret; [exact HS3 | exact He3 |].
           split; [split; [exact Hlw |] | intros _; exact Heq].
           intros _. split; [exact Hnn |]. split; [exact Hho3 | exact Hle].
        -- apply gwp_bind_get.
           destruct (vconv && _ && others_converged s3 heads q).
           ++ unfold map_heads_memos. apply gwp_bind_modify.
              destruct (fold_final (heads_not_eq heads q) s3 HS3) as [HS4 He4].
              set (s4 := cset_memo s3 _) in *.
              eapply gwp_bind.
              { apply (gwp_corep s (cemit (CEvFinalize q (stamp_iteration (N.max (ls_iter ls) hm)))) s4 (corep_emit _) HS4).
                eapply ext_trans; eassumption. }
              intros s5 [] HS5 He5 _. apply gwp_ret; [exact HS5 | exact He5 |]. cbn.
              split; [apply rev_ok_final; [reflexivity | now apply complete_frame_wf] | intros H; discriminate].
           ++ apply gwp_ret; [exact HS3 | exact He3 |]. cbn.
              split; [destruct Hg as [-> | [Hgw Hgc]]; [now left | right; split; [exact Hgw | congruence]] |].
              split; [exact Hho3 |]. split; [exact Hnn |].
              intros hd Hhd. apply (live_key_core s2 s3 _ Hc3). now apply Hlv.
Qed.

End Trip.

End Round.

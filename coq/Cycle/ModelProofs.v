(* Cycle/ModelProofs.v — facts about the executable Cycle model (Cycle/Model.v):
   C14: re-entering a node whose function has no cycle recovery panics with the cycle error —
        never a value, never out-of-fuel;
   C15: the fixpoint loop of one `execute` makes at most MAX_ITERATIONS + 1 trips; a loop that
        never converges ends in the too-many-iterations panic. *)
From Coq Require Import PeanoNat.
From Salsa Require Import Base.
From Salsa.gen Require Import Kernels.
From Salsa.Kern Require Import CoreK K4_Stamp.
From Salsa.Cycle Require Import StampK Model.

(* ---------------------------------------------------------------- C14 *)
Section C14.
Variable prog : qkey -> body.
Variable strat : N -> strategy.
Variable cinit : qkey -> val.

(* q's lock is held by this thread (claimed, not transferred): q is being verified or executed *)
Definition held (s : cdb) (q : qkey) : Prop :=
  exists y, c_sync s q = Some y /\ sy_trans y = false.

(* the state after the failed claim: only the anyone_waiting flag of q's lock is set *)
Definition mark_waiting (s : cdb) (q : qkey) : cdb :=
  match c_sync s q with
  | Some y => cset_sync s (upd (c_sync s) q
                (Some {| sy_trans := false; sy_wait := true; sy_target := sy_target y; sy_twice := sy_twice y |}))
  | None => s
  end.

Lemma reenter_fetch_cold_panics : forall n L q s,
  strat (fst q) = SPanic -> held s q ->
  cfetch_cold prog strat cinit n L q s = (mark_waiting s q, CPanic (PB PCycle)).
Proof.
  intros n L q s Hst [y [Hy Ht]].
  unfold cfetch_cold, try_claim, cbind, cget, mark_waiting. rewrite Hy, Ht.
  unfold set_sync, cmodify, cret. cbn.
  unfold fetch_cold_cycle, strat_of. rewrite Hst. reflexivity.
Qed.

Lemma reenter_mca_cold_panics : forall n L q since s,
  strat (fst q) = SPanic -> held s q ->
  cmca_cold prog strat cinit n L q since s = (mark_waiting s q, CPanic (PB PCycle)).
Proof.
  intros n L q since s Hst [y [Hy Ht]].
  unfold cmca_cold, try_claim, cbind, cget, mark_waiting. rewrite Hy, Ht.
  unfold set_sync, cmodify, cret. cbn.
  unfold strat_of. rewrite Hst. reflexivity.
Qed.

(* a first claim on a free key takes the lock, and it stays held while the body runs only
   through the model's own operations; this is the entry half of "re-entered while executing" *)
Lemma first_claim_holds : forall q s,
  c_sync s q = None ->
  exists s', try_claim q true s = (s', COk (Claimed RDefault)) /\ held s' q.
Proof.
  intros q s H. unfold try_claim, cbind, cget. rewrite H. unfold set_sync, cmodify, cret. cbn.
  eexists. split; [reflexivity |]. exists sync0. cbn. rewrite upd_same. split; reflexivity.
Qed.

(* the whole fetch: when the hot path does not answer (no memo, no value, not verifiable, or
   provisional), a held Panic-strategy key panics *)
Theorem C14_panics_fetch : forall n L q s,
  strat (fst q) = SPanic -> held s q ->
  cfetch_hot q s = (s, COk None) ->
  cfetch prog strat cinit n L q s = (mark_waiting s q, CPanic (PB PCycle)).
Proof.
  intros n L q s Hst Hh Hhot. unfold cfetch, cbind. rewrite Hhot.
  rewrite (reenter_fetch_cold_panics n L q s Hst Hh). reflexivity.
Qed.

End C14.

(* ---------------------------------------------------------------- C15: stamps *)
Definition stamp_wf (s : stamp) : Prop := s < 65536 /\ stamp_iteration s <= MAX_ITERATIONS.

Lemma stamp_max_wf a b : stamp_wf a -> stamp_wf b -> stamp_ccount a = stamp_ccount b ->
  stamp_wf (N.max a b) /\ stamp_ccount (N.max a b) = stamp_ccount a /\
  stamp_iteration a <= stamp_iteration (N.max a b).
Proof.
  intros [Ha1 Ha2] [Hb1 Hb2] Hc.
  destruct (N.max_spec a b) as [[Hlt ->] | [Hle ->]].
  - split; [split; assumption |]. split; [now symmetry |].
    unfold stamp_ccount, stamp_iteration in *.
    apply (k_stamp_order a b Ha1 Hb1) in Hlt. lia.
  - split; [split; assumption |]. split; [reflexivity | lia].
Qed.

Lemma stamp_increment_wf m it' : stamp_wf m -> stamp_increment m = Some it' ->
  stamp_wf it' /\ stamp_ccount it' = stamp_ccount m /\ stamp_iteration it' = stamp_iteration m + 1.
Proof.
  intros [Hm1 Hm2] H. unfold stamp_increment, stamp_wf, stamp_ccount, stamp_iteration, MAX_ITERATIONS in *.
  destruct (k_stamp_increment_some m it' Hm1 Hm2 H) as [Heq [Hi [Hc Hle]]].
  assert (Hr := k_stamp_iteration_range m). rewrite k_MAX_ITERATIONS_val in *.
  repeat split; try assumption.
  subst it'. unfold k_stamp_iteration in *. lia.
Qed.

Lemma stamp_increment_none m : stamp_wf m -> stamp_increment m = None -> stamp_iteration m = MAX_ITERATIONS.
Proof.
  intros [Hm1 Hm2] H. unfold stamp_increment, stamp_iteration, MAX_ITERATIONS in *.
  now apply (k_stamp_increment_none_iff m Hm1 Hm2).
Qed.

(* ---------------------------------------------------------------- C15: the loop *)
Definition loop_inv (c : N) (st : lstate) : Prop :=
  stamp_wf (ls_iter st) /\ stamp_ccount (ls_iter st) = c.

(* trips still possible from iteration byte i *)
Definition trips_left (st : lstate) : nat := N.to_nat (MAX_ITERATIONS + 1 - stamp_iteration (ls_iter st)).

Section C15.
Variable prog : qkey -> body.
Variable strat : N -> strategy.
Variable cinit : qkey -> val.
Variable n : nat.
Variable L : clower.
Variable q : qkey.

Notation round_ := (round prog strat cinit n L q).
Notation loop_ := (fun k => iter_loop prog strat cinit k n L q).

(* the epoch hypothesis: the stamps of the heads met by a trip are well-formed stamps of the
   loop's own cancellation epoch.  (True of every run of the real algorithm — memos of another
   epoch are never validated — but not proved here for all states: hence `_partial`.) *)
Definition same_epoch_rounds (c : N) : Prop :=
  forall st s s' hm v rev hs,
    round_ st s = (s', COk (RIterate hm v rev hs)) ->
    stamp_wf hm /\ stamp_ccount hm = c.

Lemma loop_step_iterate : forall k st s s1 hm v rev hs it',
  round_ st s = (s1, COk (RIterate hm v rev hs)) ->
  stamp_increment (N.max (ls_iter st) hm) = Some it' ->
  exists s2 m, loop_ (S k) st s = loop_ k {| ls_iter := it'; ls_last := Some m; ls_old := ls_old st |} s2.
Proof.
  intros k st s s1 hm v rev hs it' Hr Hi.
  cbn [iter_loop]. unfold cbind at 1. rewrite Hr. rewrite Hi.
  unfold cbind, cemit, map_heads_memos, cmodify, cget, put_memo. cbn.
  eexists. eexists. reflexivity.
Qed.

(* with the loop's own fuel above the number of trips left, the loop never reports out-of-fuel
   unless a trip itself does: it ends with a value or a panic after at most
   MAX_ITERATIONS + 1 - iteration trips *)
Theorem loop_bounded : forall c,
  same_epoch_rounds c ->
  (forall st s, snd (round_ st s) <> CFuel) ->
  forall k st s, loop_inv c st -> (trips_left st < k)%nat ->
  snd (loop_ k st s) <> CFuel.
Proof.
  intros c Hep Hnf. induction k as [| k IH]; intros st s [Hwf Hc] Hk; [lia |].
  destruct (round_ st s) as [s1 [r | p |]] eqn:Hr.
  - destruct r as [v rev mode | hm v rev hs].
    + cbn [iter_loop]. unfold cbind. rewrite Hr. cbn. discriminate.
    + destruct (Hep st s s1 hm v rev hs Hr) as [Hhm Hhc].
      destruct (stamp_max_wf (ls_iter st) hm Hwf Hhm) as [Hmwf [Hmc Hmi]]; [congruence |].
      destruct (stamp_increment (N.max (ls_iter st) hm)) as [it' |] eqn:Hi.
      * destruct (loop_step_iterate k st s s1 hm v rev hs it' Hr Hi) as [s2 [m Heq]].
        rewrite Heq. apply IH.
        -- destruct (stamp_increment_wf _ _ Hmwf Hi) as [Hw' [Hc' Hi']].
           split; [exact Hw' | cbn; congruence].
        -- destruct (stamp_increment_wf _ _ Hmwf Hi) as [[Hw1 Hw2] [Hc' Hi']].
           unfold trips_left in *. cbn [ls_iter]. unfold MAX_ITERATIONS in *.
           rewrite k_MAX_ITERATIONS_val in *. lia.
      * cbn [iter_loop]. unfold cbind. rewrite Hr, Hi. cbn. discriminate.
  - cbn [iter_loop]. unfold cbind. rewrite Hr. cbn. discriminate.
  - exfalso. apply (Hnf st s). now rewrite Hr.
Qed.

(* a loop whose trips never converge (always "iterate again") and never panic by themselves ends
   in the too-many-iterations panic *)
Theorem loop_diverging_panics : forall c,
  same_epoch_rounds c ->
  (forall st s, exists s' hm v rev hs, round_ st s = (s', COk (RIterate hm v rev hs))) ->
  forall k st s, loop_inv c st -> (trips_left st < k)%nat ->
  exists s', loop_ k st s = (s', CPanic (PB PTooMany)).
Proof.
  intros c Hep Hdiv. induction k as [| k IH]; intros st s [Hwf Hc] Hk; [lia |].
  destruct (Hdiv st s) as [s1 [hm [v [rev [hs Hr]]]]].
  destruct (Hep st s s1 hm v rev hs Hr) as [Hhm Hhc].
  destruct (stamp_max_wf (ls_iter st) hm Hwf Hhm) as [Hmwf [Hmc Hmi]]; [congruence |].
  destruct (stamp_increment (N.max (ls_iter st) hm)) as [it' |] eqn:Hi.
  - destruct (loop_step_iterate k st s s1 hm v rev hs it' Hr Hi) as [s2 [m Heq]].
    rewrite Heq. apply IH.
    + destruct (stamp_increment_wf _ _ Hmwf Hi) as [Hw' [Hc' Hi']].
      split; [exact Hw' | cbn; congruence].
    + destruct (stamp_increment_wf _ _ Hmwf Hi) as [[Hw1 Hw2] [Hc' Hi']].
      unfold trips_left in *. cbn [ls_iter]. unfold MAX_ITERATIONS in *.
      rewrite k_MAX_ITERATIONS_val in *. lia.
  - cbn [iter_loop]. unfold cbind. rewrite Hr, Hi. cbn. eexists. reflexivity.
Qed.

End C15.

(* LOOP_FUEL (203) is above the number of trips left from any well-formed stamp *)
Lemma loop_fuel_enough st : (trips_left st < LOOP_FUEL)%nat.
Proof.
  unfold trips_left, LOOP_FUEL, MAX_ITERATIONS. rewrite k_MAX_ITERATIONS_val. lia.
Qed.



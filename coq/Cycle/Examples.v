(* Cycle/Examples.v — concrete programs and runs of the executable Cycle model: non-vacuity
   witnesses for the hypotheses of the C12–C15 theorems, and the refutation witness of the
   history-independence clause of C13.  vm_compute is used only here. *)
From Salsa Require Import Base.
From Salsa.Kern Require Import CoreK.
From Salsa.Core Require Spec.
From Salsa.Cycle Require Import StampK Model Spec Cert SpecProofs.

(* families as in the harness: 0 plain, 1 fix, 2 fixjoin, 3 fallback (0xA5), 4 nocycle *)
Definition ex_strat (fam : N) : strategy :=
  match fam with 1 => SFix | 2 => SFixJoin | 3 => SFallback | _ => SPanic end.
Definition ex_cinit (q : qkey) : val := if fst q =? 3 then 165 else 0.

Definition outs_of (prog : qkey -> body) (iv : ikey -> val) (ops : list cop) : list cout :=
  snd (crun_ops prog ex_strat ex_cinit 12 12 (cinit_db iv (fun _ => 0)) ops).
Definition final_of (prog : qkey -> body) (iv : ikey -> val) (ops : list cop) : cdb :=
  fst (crun_ops prog ex_strat ex_cinit 12 12 (cinit_db iv (fun _ => 0)) ops).

(* ---------------------------------------------------------------- C12 *)
(* x0 = in(0,0) | x1 ;  x1 = 2 | (x0 & 6)      (family 1: cycle_initial = 0, default cycle_fn) *)
Definition ex12_prog (q : qkey) : body :=
  if key_eqb q (1, 0) then RdIn (0, 0) (fun a => CallQ (1, 1) (fun b => Ret (N.lor a b)))
  else if key_eqb q (1, 1) then CallQ (1, 0) (fun b => Ret (N.lor 2 (N.land b 6)))
  else Ret 0.
Definition ex12_ns : list qkey := [(1, 0); (1, 1)].
Definition ex12_iv (i : ikey) : val := if key_eqb i (0, 0) then 5 else 0.

(* entered at either node, in a fresh revision or after a write: the least fixpoint *)
Example ex12_run :
  outs_of ex12_prog ex12_iv [COGet (1, 0); COGet (1, 1); COSet (0, 0) 8 None; COGet (1, 1); COGet (1, 0)]
  = [COk 7; COk 6; COk 0; COk 2; COk 10].
Proof. vm_compute. reflexivity. Qed.

Example ex12_kleene :
  let s := final_of ex12_prog ex12_iv [COGet (1, 0); COGet (1, 1); COSet (0, 0) 8 None; COGet (1, 1); COGet (1, 0)] in
  kleene ex12_prog (csnap_of s) ex12_ns (1, 0) = 10 /\ kleene ex12_prog (csnap_of s) ex12_ns (1, 1) = 2 /\
  is_fixpoint_state ex12_prog ex12_ns s = true /\
  final_val s (1, 0) = Some 10 /\ final_val s (1, 1) = Some 2.
Proof. vm_compute. repeat split; reflexivity. Qed.

(* union and intersection are monotone and keep bytes bytes *)
Lemma lor_mono a a' b b' : le_bits a a' -> le_bits b b' -> le_bits (N.lor a b) (N.lor a' b').
Proof.
  intros Ha Hb. unfold le_bits. apply N.bits_inj. intros n.
  rewrite N.land_spec, !N.lor_spec.
  assert (Ha' := le_bits_testbit a a' n Ha). assert (Hb' := le_bits_testbit b b' n Hb).
  destruct (N.testbit a n) eqn:Ea; destruct (N.testbit b n) eqn:Eb; cbn.
  - rewrite (Ha' eq_refl). reflexivity.
  - rewrite (Ha' eq_refl). reflexivity.
  - rewrite (Hb' eq_refl). now rewrite orb_true_r.
  - reflexivity.
Qed.

Lemma land_mono a a' b b' : le_bits a a' -> le_bits b b' -> le_bits (N.land a b) (N.land a' b').
Proof.
  intros Ha Hb. unfold le_bits. apply N.bits_inj. intros n.
  rewrite !N.land_spec.
  assert (Ha' := le_bits_testbit a a' n Ha). assert (Hb' := le_bits_testbit b b' n Hb).
  destruct (N.testbit a n) eqn:Ea; destruct (N.testbit b n) eqn:Eb; cbn; try reflexivity.
  rewrite (Ha' eq_refl), (Hb' eq_refl). reflexivity.
Qed.

Lemma lt256_bits x : (forall n, 8 <= n -> N.testbit x n = false) -> x < 256.
Proof.
  intros H. destruct (N.lt_ge_cases x 256) as [Hlt | Hge]; [exact Hlt | exfalso].
  assert (Hx : x <> 0) by lia.
  assert (Hl : 8 <= N.log2 x) by (apply (N.log2_le_pow2 x 8); lia).
  assert (Hb := N.bit_log2 x Hx). rewrite (H _ Hl) in Hb. discriminate.
Qed.

Lemma lor_lt256 a b : a < 256 -> b < 256 -> N.lor a b < 256.
Proof.
  intros Ha Hb. apply lt256_bits. intros n Hn.
  rewrite N.lor_spec, (testbit_high a n Ha Hn), (testbit_high b n Hb Hn). reflexivity.
Qed.

Lemma land_lt256 a b : a < 256 -> N.land a b < 256.
Proof.
  intros Ha. apply lt256_bits. intros n Hn.
  rewrite N.land_spec, (testbit_high a n Ha Hn). reflexivity.
Qed.

(* the hypotheses of the C12 theorems hold of the example, for every snapshot with byte inputs *)
Example ex12_monotone sn : monotone_prog ex12_prog sn.
Proof.
  intros q rho rho' Hle. unfold F, ex12_prog.
  destruct (key_eqb q (1, 0)); [| destruct (key_eqb q (1, 1))];
    cbn [Salsa.Core.Spec.run Salsa.Core.Spec.e_q Salsa.Core.Spec.e_in Salsa.Core.Spec.e_cell].
  - apply lor_mono; [apply le_bits_refl | apply Hle].
  - apply lor_mono; [apply le_bits_refl |]. apply land_mono; [apply Hle | apply le_bits_refl].
  - apply le_bits_refl.
Qed.

Example ex12_fits sn : (forall i, Salsa.Core.Spec.sn_in sn i < 256) -> fits8 ex12_prog sn.
Proof.
  intros Hin q rho Hrho. unfold F, ex12_prog.
  destruct (key_eqb q (1, 0)); [| destruct (key_eqb q (1, 1))];
    cbn [Salsa.Core.Spec.run Salsa.Core.Spec.e_q Salsa.Core.Spec.e_in Salsa.Core.Spec.e_cell].
  - apply lor_lt256; [apply Hin | apply Hrho].
  - apply lor_lt256; [lia |]. apply land_lt256, Hrho.
  - lia.
Qed.

(* ---------------------------------------------------------------- C13 *)
(* f0 = 4 & (in(0,0) | f1) ;  f1 = f0          (family 3: cycle_result = 0xA5) *)
Definition ex13_prog (q : qkey) : body :=
  if key_eqb q (3, 0) then RdIn (0, 0) (fun a => CallQ (3, 1) (fun b => Ret (N.land 4 (N.lor a b))))
  else if key_eqb q (3, 1) then CallQ (3, 0) Ret
  else Ret 0.
Definition ex13_ns : list qkey := [(3, 0); (3, 1)].
Definition ex13_iv (i : ikey) : val := if key_eqb i (0, 1) then 7 else 0.

(* fresh database, either entry: both members return the fallback *)
Example ex13_fresh :
  outs_of ex13_prog ex13_iv [COGet (3, 0); COGet (3, 1)] = [COk 165; COk 165] /\
  outs_of ex13_prog ex13_iv [COGet (3, 1); COGet (3, 0)] = [COk 165; COk 165].
Proof. vm_compute. split; reflexivity. Qed.

Example ex13_spec :
  let s := final_of ex13_prog ex13_iv [COGet (3, 0); COGet (3, 1)] in
  spec_fallback ex13_prog (csnap_of s) ex_cinit ex13_ns (3, 0) = 165 /\
  spec_fallback ex13_prog (csnap_of s) ex_cinit ex13_ns (3, 1) = 165 /\
  is_fallback_state ex13_prog ex_cinit ex13_ns s = true.
Proof. vm_compute. repeat split; reflexivity. Qed.

(* the refutation witness: enter at f1, write an UNRELATED input field, ask for f0 *)
Definition ex13_hist : list cop := [COGet (3, 1); COSet (0, 1) 9 None; COGet (3, 0)].

Lemma ex13_refuted_run :
  outs_of ex13_prog ex13_iv ex13_hist = [COk 165; COk 0; COk 4] /\
  spec_fallback ex13_prog (csnap_of (final_of ex13_prog ex13_iv ex13_hist)) ex_cinit ex13_ns (3, 0) = 165.
Proof. vm_compute. split; reflexivity. Qed.

(* ---------------------------------------------------------------- C14 *)
(* n0 = if in(0,0) then n1 else 7 ;  n1 = in(1,0) | n0     (family 4: no recovery) *)
Definition ex14_prog (q : qkey) : body :=
  if key_eqb q (4, 0) then RdIn (0, 0) (fun a => if a =? 0 then Ret 7 else CallQ (4, 1) Ret)
  else if key_eqb q (4, 1) then RdIn (1, 0) (fun a => CallQ (4, 0) (fun b => Ret (N.lor a b)))
  else if key_eqb q (0, 0) then RdIn (1, 0) Ret
  else Ret 0.
Definition ex14_iv (i : ikey) : val := if key_eqb i (0, 0) then 1 else if key_eqb i (1, 0) then 2 else 0.

(* cycle panic from either entry, an unrelated function is fine in between, and once the input
   breaks the cycle the same functions return their from-scratch values *)
Example ex14_run :
  outs_of ex14_prog ex14_iv
    [COGet (4, 0); COGet (0, 0); COGet (4, 1); COSet (0, 0) 0 None; COGet (4, 1); COGet (4, 0)]
  = [CPanic (PB PCycle); COk 2; CPanic (PB PCycle); COk 0; COk 7; COk 7].
Proof. vm_compute. reflexivity. Qed.

(* ---------------------------------------------------------------- C15 *)
(* d0 = if in(0,0) then 1 + d1 else 7 ;  d1 = in(1,0) | d0     (family 1: never stabilises) *)
Definition ex15_prog (q : qkey) : body :=
  if key_eqb q (1, 0) then RdIn (0, 0) (fun a => if a =? 0 then Ret 7
                                                 else CallQ (1, 1) (fun b => Ret ((1 + b) mod 256)))
  else if key_eqb q (1, 1) then RdIn (1, 0) (fun a => CallQ (1, 0) (fun b => Ret (N.lor a b)))
  else if key_eqb q (0, 0) then RdIn (1, 0) Ret
  else Ret 0.

Definition count_runs (q : qkey) (s : cdb) : nat := length (filter (key_eqb q) (c_runs s)).

Example ex15_run :
  outs_of ex15_prog ex14_iv
    [COGet (1, 0); COGet (0, 0); COSet (0, 0) 0 None; COGet (1, 1); COGet (1, 0)]
  = [CPanic (PB PTooMany); COk 2; COk 0; COk 7; COk 7].
Proof. vm_compute. reflexivity. Qed.

(* the head ran its body exactly MAX_ITERATIONS + 1 times before the panic *)
Example ex15_runs :
  count_runs (1, 0) (final_of ex15_prog ex14_iv [COGet (1, 0)]) = 201%nat.
Proof. vm_compute. reflexivity. Qed.

(* Cycle/Spec.v — what cyclic programs are supposed to return.  Definitions only.
   * kleene        least fixpoint of the equations  x_q = body_q(x)  over the bit-set lattice
                   (C12, and "once inputs make them converge" of C15)
   * spec_fallback fallback on the cycles of the input-determined call graph, bodies elsewhere (C13)
   The bodies, [run], [runo], snapshots are those of Core/Spec.v. *)
From Salsa Require Import Base.
From Salsa.Core Require Import Model Spec.

(* ---------------------------------------------------------------- the lattice *)
(* values are bit sets (u8 in the harness): a below b = a is a subset of b *)
Definition le_bits (a b : val) : Prop := N.land a b = a.
Definition le_bitsb (a b : val) : bool := N.land a b =? a.
Definition env_le (rho rho' : qkey -> val) : Prop := forall p, le_bits (rho p) (rho' p).

(* ---------------------------------------------------------------- the equations *)
(* right-hand side of q's equation under the assignment rho *)
Definition F (prog : qkey -> body) (sn : snapshot) (rho : qkey -> val) (q : qkey) : val :=
  run {| e_in := sn_in sn; e_cell := sn_cell sn; e_q := rho |} (prog q).

(* monotone bodies: a predicate on the family of bodies (semantic, so it covers every
   deterministic body built from union, intersection, input masks, input-controlled branches) *)
Definition monotone_prog (prog : qkey -> body) (sn : snapshot) : Prop :=
  forall q rho rho', env_le rho rho' -> le_bits (F prog sn rho q) (F prog sn rho' q).

(* results are bytes *)
Definition fits8 (prog : qkey -> body) (sn : snapshot) : Prop :=
  forall q rho, (forall p, rho p < 256) -> F prog sn rho q < 256.

(* every node that has a body is listed *)
Definition closed_on (prog : qkey -> body) (sn : snapshot) (ns : list qkey) : Prop :=
  forall q, ~ In q ns -> forall rho, F prog sn rho q = 0.

(* ---------------------------------------------------------------- Kleene iteration *)
Definition tbl := list (qkey * val).

Fixpoint tlookup (t : tbl) (q : qkey) : val :=
  match t with
  | [] => 0
  | p :: t' => if key_eqb (fst p) q then snd p else tlookup t' q
  end.

Definition tbl0 (ns : list qkey) : tbl := map (fun q => (q, 0)) ns.

(* one synchronous round: every equation re-evaluated under the previous assignment *)
Definition kround (prog : qkey -> body) (sn : snapshot) (ns : list qkey) (t : tbl) : tbl :=
  map (fun q => (q, F prog sn (tlookup t) q)) ns.

Fixpoint kiter (prog : qkey -> body) (sn : snapshot) (ns : list qkey) (n : nat) (t : tbl) : tbl :=
  match n with
  | O => t
  | S n' => kiter prog sn ns n' (kround prog sn ns t)
  end.

Fixpoint tbl_eqb (a b : tbl) : bool :=
  match a, b with
  | [], [] => true
  | x :: a', y :: b' => key_eqb (fst x) (fst y) && (snd x =? snd y) && tbl_eqb a' b'
  | _, _ => false
  end.

(* the same iteration, stopping as soon as a round changes nothing (proved equal to kiter) *)
Fixpoint kfix (prog : qkey -> body) (sn : snapshot) (ns : list qkey) (n : nat) (t : tbl) : tbl :=
  match n with
  | O => t
  | S n' => let t' := kround prog sn ns t in
            if tbl_eqb t t' then t else kfix prog sn ns n' t'
  end.

(* height of the lattice (8 bits) times the number of nodes, plus one *)
Definition krounds (ns : list qkey) : nat := S (8 * length ns).

Definition kleene_tbl (prog : qkey -> body) (sn : snapshot) (ns : list qkey) : tbl :=
  kfix prog sn ns (krounds ns) (tbl0 ns).

Definition kleene (prog : qkey -> body) (sn : snapshot) (ns : list qkey) (q : qkey) : val :=
  tlookup (kleene_tbl prog sn ns) q.

(* an assignment that satisfies every listed equation *)
Definition is_fixpoint (prog : qkey -> body) (sn : snapshot) (ns : list qkey) (rho : qkey -> val) : Prop :=
  forall q, In q ns -> F prog sn rho q = rho q.
Definition is_prefixpoint (prog : qkey -> body) (sn : snapshot) (ns : list qkey) (rho : qkey -> val) : Prop :=
  forall q, In q ns -> le_bits (F prog sn rho q) (rho q).

(* ---------------------------------------------------------------- the call graph (fallback) *)
(* the calls a body makes when every call is answered [ans]; for programs whose call edges
   depend on inputs only ([input_determined]) this is *the* list of callees *)
Fixpoint call_trace (ein : ikey -> val) (ecell : cell -> val) (ans : qkey -> val) (b : body) : list qkey :=
  match b with
  | Ret _ => []
  | RdIn i k => call_trace ein ecell ans (k (ein i))
  | CallQ q k => q :: call_trace ein ecell ans (k (ans q))
  | RdCell c k => call_trace ein ecell ans (k (ecell c))
  | Touch k => call_trace ein ecell ans k
  | PanicIf _ k => call_trace ein ecell ans k
  end.

Definition succs (prog : qkey -> body) (sn : snapshot) (q : qkey) : list qkey :=
  call_trace (sn_in sn) (sn_cell sn) (fun _ => 0) (prog q).

Definition input_determined (prog : qkey -> body) (sn : snapshot) : Prop :=
  forall q ans, call_trace (sn_in sn) (sn_cell sn) ans (prog q) = succs prog sn q.

Definition mem (q : qkey) (l : list qkey) : bool := existsb (key_eqb q) l.

Fixpoint add_all (l new : list qkey) : list qkey :=
  match new with
  | [] => l
  | x :: new' => add_all (if mem x l then l else l ++ [x]) new'
  end.

(* nodes reachable from the list [l] in at most n further steps (l included) *)
Fixpoint closure (g : qkey -> list qkey) (n : nat) (l : list qkey) : list qkey :=
  match n with
  | O => l
  | S n' => closure g n' (add_all l (flat_map g l))
  end.

(* q lies on a cycle: it is reachable from one of its own successors *)
Definition on_cycle (g : qkey -> list qkey) (n : nat) (q : qkey) : bool :=
  mem q (closure g n (add_all [] (g q))).

Definition cyclic_nodes (g : qkey -> list qkey) (ns : list qkey) : list qkey :=
  filter (on_cycle g (length ns)) ns.

(* fallback on the cyclic nodes, the body over the callees' results elsewhere *)
Fixpoint spec_fb (prog : qkey -> body) (sn : snapshot) (fb : qkey -> val) (cyc : qkey -> bool)
         (n : nat) (q : qkey) : val :=
  match n with
  | O => 0
  | S n' =>
      if cyc q then fb q
      else run {| e_in := sn_in sn; e_cell := sn_cell sn; e_q := spec_fb prog sn fb cyc n' |} (prog q)
  end.

Definition spec_fallback (prog : qkey -> body) (sn : snapshot) (fb : qkey -> val) (ns : list qkey)
  : qkey -> val :=
  let cn := cyclic_nodes (succs prog sn) ns in
  spec_fb prog sn fb (fun q => mem q cn) (S (length ns)).

(* ---------------------------------------------------------------- certificates on partial assignments *)
(* [sigma] is the (partial) assignment read off a final state; the certificate re-evaluates
   every defined node's body over it *)
Definition cert_fix (prog : qkey -> body) (sn : snapshot) (ns : list qkey) (sigma : qkey -> option val) : bool :=
  forallb (fun q => match sigma q with
                    | None => true
                    | Some v => match runo (sn_in sn) (sn_cell sn) sigma (prog q) with
                                | Some v' => v' =? v
                                | None => false
                                end
                    end) ns.

Definition cert_fallback (prog : qkey -> body) (sn : snapshot) (fb : qkey -> val) (cyc : qkey -> bool)
           (ns : list qkey) (sigma : qkey -> option val) : bool :=
  forallb (fun q => match sigma q with
                    | None => true
                    | Some v =>
                        if cyc q then v =? fb q
                        else match runo (sn_in sn) (sn_cell sn) sigma (prog q) with
                             | Some v' => v' =? v
                             | None => false
                             end
                    end) ns.

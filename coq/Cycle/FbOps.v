(* Cycle/FbOps.v — (fallback cycles, C13_fresh) the Cycle model's lock and validation steps under the
   fresh-revision invariant (Cycle/FbInv.v): claims, releases, transfers, the hot path, provisional-memo
   validation, the callback into an active head. *)
From Coq Require Import PeanoNat.
From Salsa Require Import Base.
From Salsa.Kern Require Import CoreK.
From Salsa.Core Require Import Spec.
From Salsa.Cycle Require Import StampK Model Spec SpecProofs FallbackProofs Cert FreshBase FbSem FbInv.

Section Ops.
Context {C : bctx}.
Notation prog := (@fprog C).
Notation strat := (@fstrat C).
Notation cinit := (@fcinit C).
Notation ns := (@fns C).
Notation lvl := (@flvl C).
Notation nxt := (@fnxt C).
Notation SV := (spec_fallback prog sn cinit ns).
Notation cyc := (cycn prog sn ns).
Notation sc := (succs prog sn).

(* ---------------------------------------------------------------- sync table *)
Lemma Inv_set_sync hl hl' st s q yo :
  Inv hl st s ->
  (forall x, In x hl' <-> (if key_eqb q x then (exists y, yo = Some y /\ sy_trans y = false) else In x hl)) ->
  (forall y, yo = Some y -> sy_twice y = true -> sy_trans y = false) ->
  Inv hl' st (cset_sync s (upd (c_sync s) q yo)).
Proof.
  intros HI Hh Ht. apply (Inv_sync hl hl' st s _ HI); try reflexivity.
  - intros x. rewrite Hh. unfold held. cbn. unfold upd.
    destruct (key_eqb q x); [reflexivity | apply (iv_sync _ _ _ HI)].
  - intros x y. cbn. unfold upd. destruct (key_eqb q x).
    + intros Hy. now apply Ht.
    + apply (iv_twice _ _ _ HI).
Qed.

Lemma Inv_set_trans hl st s l : Inv hl st s -> Inv hl st (cset_trans s l).
Proof. intros HI. apply (Inv_same hl st s _ HI); reflexivity. Qed.

Lemma Inv_set_log hl st s l : Inv hl st s -> Inv hl st (cset_log s l).
Proof. intros HI. apply (Inv_same hl st s _ HI); reflexivity. Qed.

Lemma Inv_set_runs hl st s l : Inv hl st s -> Inv hl st (cset_runs s l).
Proof. intros HI. apply (Inv_same hl st s _ HI); reflexivity. Qed.

Lemma Inv_set_qstack hl st s l : Inv hl st s -> Inv hl st (cset_qstack s l).
Proof. intros HI. apply (Inv_same hl st s _ HI); reflexivity. Qed.

Definition memo_eq (s s' : cdb) : Prop := forall x, c_memo s' x = c_memo s x.

Lemma try_claim_held hl st s q :
  Inv hl st s -> In q hl ->
  cwp (try_claim q true) (fun s' r => r = ClCycle false /\ Inv hl st s' /\ c_memo s' = c_memo s) s.
Proof.
  intros HI Hq. destruct (proj1 (iv_sync _ _ _ HI q) Hq) as (y & Hy & Hty).
  unfold cwp, try_claim, cbind, cget. rewrite Hy, Hty. cbn.
  split; [reflexivity |]. split; [| reflexivity].
  apply (Inv_set_sync hl hl st s q _ HI).
  - intros x. destruct (key_eqb_spec q x) as [<- | Hne]; [| reflexivity].
    split; [intros _; eexists; split; reflexivity | intros _; exact Hq].
  - intros y' Hy' Htw. injection Hy' as <-. reflexivity.
Qed.

Lemma try_claim_free hl st s q :
  Inv hl st s -> ~ In q hl ->
  cwp (try_claim q true)
      (fun s' r => (r = Claimed RDefault \/ r = Claimed RSelfOnly) /\ Inv (q :: hl) st s' /\ c_memo s' = c_memo s) s.
Proof.
  intros HI Hq.
  assert (Hset : forall y, sy_trans y = false -> (sy_twice y = true -> sy_trans y = false) ->
            Inv (q :: hl) st (cset_sync s (upd (c_sync s) q (Some y)))).
  { intros y Hy Htw. apply (Inv_set_sync hl (q :: hl) st s q _ HI).
    - intros x. destruct (key_eqb_spec q x) as [<- | Hne].
      + split; [intros _; exists y; now split | intros _; now left].
      + split; [intros [Heq | Hx]; [congruence | exact Hx] | intros Hx; now right].
    - intros y' Hy' Ht. injection Hy' as <-. exact Hy. }
  unfold cwp, try_claim, cbind, cget.
  destruct (c_sync s q) as [y |] eqn:Hy.
  - destruct (sy_trans y) eqn:Hty.
    + destruct (trans_get (c_trans s) q) as [o |].
      * destruct (sy_twice y) eqn:Htw.
        -- exfalso. assert (H := iv_twice _ _ _ HI q y Hy Htw). congruence.
        -- cbn. split; [now right |]. split; [| reflexivity]. apply Hset; reflexivity.
      * cbn. split; [now left |]. split; [| reflexivity]. apply Hset; reflexivity.
    + exfalso. apply Hq. apply (iv_sync _ _ _ HI q). exists y. now split.
  - cbn. split; [now left |]. split; [| reflexivity]. apply Hset; reflexivity.
Qed.

Lemma peek_claim_held hl st s h :
  Inv hl st s -> In h hl ->
  cwp (peek_claim h) (fun s' r => r = PkCycle false /\ Inv hl st s' /\ c_memo s' = c_memo s) s.
Proof.
  intros HI Hq. destruct (proj1 (iv_sync _ _ _ HI h) Hq) as (y & Hy & Hty).
  unfold cwp, peek_claim, cbind, cget. rewrite Hy, Hty. cbn.
  split; [reflexivity |]. split; [| reflexivity].
  apply (Inv_set_sync hl hl st s h _ HI).
  - intros x. destruct (key_eqb_spec h x) as [<- | Hne]; [| reflexivity].
    split; [intros _; eexists; split; reflexivity | intros _; exact Hq].
  - intros y' Hy' Htw. injection Hy' as <-. reflexivity.
Qed.

Lemma peek_claim_any hl st s h :
  Inv hl st s ->
  cwp (peek_claim h) (fun s' r => Inv hl st s' /\ c_memo s' = c_memo s /\ (In h hl -> r = PkCycle false)) s.
Proof.
  intros HI. unfold cwp, peek_claim, cbind, cget.
  destruct (c_sync s h) as [y |] eqn:Hy.
  - destruct (sy_trans y) eqn:Hty.
    + assert (Hnh : ~ In h hl).
      { intros Hh. destruct (proj1 (iv_sync _ _ _ HI h) Hh) as (y' & Hy' & Hty'). congruence. }
      destruct (trans_get (c_trans s) h); cbn; (split; [exact HI |]; split; [reflexivity | intros Hh; contradiction]).
    + assert (Hh : In h hl) by (apply (iv_sync _ _ _ HI h); exists y; now split).
      cbn. split; [| split; [reflexivity | reflexivity]].
      apply (Inv_set_sync hl hl st s h _ HI).
      * intros x. destruct (key_eqb_spec h x) as [<- | Hne]; [| reflexivity].
        split; [intros _; eexists; split; reflexivity | intros _; exact Hh].
      * intros y' Hy' Htw. injection Hy' as <-. reflexivity.
  - cbn. split; [exact HI |]. split; [reflexivity |]. intros Hh.
    destruct (proj1 (iv_sync _ _ _ HI h) Hh) as (y' & Hy' & _). congruence.
Qed.

Lemma release_state_ok hl st s q y :
  Inv hl st s -> cwp (release_state q y) (fun s' _ => Inv hl st s' /\ c_memo s' = c_memo s) s.
Proof.
  intros HI. unfold cwp, release_state.
  destruct (sy_wait y); [| cbn; now split].
  unfold cbind. destruct (sy_twice y); cbn; destruct (sy_target y); cbn;
    (split; [| reflexivity]); repeat apply Inv_set_trans; exact HI.
Qed.

Lemma remove_held hl st s q :
  Inv (q :: hl) st s -> ~ In q hl -> forall yo,
  (forall y, yo = Some y -> sy_trans y = true /\ sy_twice y = false) ->
  Inv hl st (cset_sync s (upd (c_sync s) q yo)).
Proof.
  intros HI Hq yo Hyo. apply (Inv_set_sync (q :: hl) hl st s q yo HI).
  - intros x. destruct (key_eqb_spec q x) as [<- | Hne].
    + split; [intros Hx; contradiction |].
      intros (y & -> & Hy). destruct (Hyo y eq_refl) as [Ht _]. congruence.
    + split; [intros Hx; now right | intros [Heq | Hx]; [congruence | exact Hx]].
  - intros y Hy Htw. destruct (Hyo y Hy) as [_ Hf]. congruence.
Qed.

Lemma drop_guard_ok hl st s q mode :
  Inv (q :: hl) st s -> ~ In q hl ->
  (forall o, mode = RTransfer o -> In o hl) ->
  cwp (drop_guard q mode) (fun s' _ => Inv hl st s' /\ c_memo s' = c_memo s) s.
Proof.
  intros HI Hq Hmode.
  destruct (proj1 (iv_sync _ _ _ HI q) (or_introl eq_refl)) as (y & Hy & Hty).
  destruct mode as [| | o]; unfold drop_guard.
  - unfold release_default. apply cwp_bind, cwp_get. rewrite Hy.
    apply cwp_bind. unfold set_sync. apply cwp_modify.
    eapply cwp_conseq.
    { apply (release_state_ok hl st). apply (remove_held hl st s q HI Hq None). intros y' Hy'. discriminate. }
    intros s' a [H1 H2]. split; [exact H1 | exact H2].
  - unfold release_self. apply cwp_bind, cwp_get. rewrite Hy.
    destruct (sy_twice y).
    + unfold set_sync. apply cwp_modify. split; [| reflexivity].
      apply (remove_held hl st s q HI Hq). intros y' Hy'. injection Hy' as <-. now split.
    + apply cwp_bind. unfold set_sync. apply cwp_modify.
      eapply cwp_conseq.
    { apply (release_state_ok hl st). apply (remove_held hl st s q HI Hq None). intros y' Hy'. discriminate. }
    intros s' a [H1 H2]. split; [exact H1 | exact H2].
  - assert (Ho : In o hl) by (now apply Hmode).
    assert (Hoq : o <> q) by (intros ->; contradiction).
    destruct (proj1 (iv_sync _ _ _ HI o) (or_intror Ho)) as (yo & Hyo & Htyo).
    unfold transfer. apply cwp_bind, cwp_get. rewrite Hyo.
    apply cwp_bind. unfold set_sync. apply cwp_modify.
    apply cwp_bind, cwp_get. cbn [c_sync cset_sync]. rewrite (upd_other _ o q _ Hoq), Hy.
    apply cwp_bind. apply cwp_modify.
    rewrite Htyo. cbn [andb]. apply cwp_modify. split; [| reflexivity].
    apply Inv_set_trans.
    set (s1 := cset_sync s (upd (c_sync s) o (Some {| sy_trans := false; sy_wait := true; sy_target := true; sy_twice := sy_twice yo |}))).
    assert (HI1 : Inv (q :: hl) st s1).
    { apply (Inv_set_sync (q :: hl) (q :: hl) st s o _ HI).
      - intros x. destruct (key_eqb_spec o x) as [<- | Hne]; [| reflexivity].
        split; [intros _; eexists; split; reflexivity | intros _; now right].
      - intros y' Hy' Htw. injection Hy' as <-. reflexivity. }
    apply (remove_held hl st s1 q HI1 Hq). intros y' Hy'. injection Hy' as <-. now split.
Qed.

(* ---------------------------------------------------------------- reading memos *)
Lemma memo_val hl st s d m : Inv hl st s -> c_memo s d = Some m -> exists v, cm_val m = Some v.
Proof. intros HI Hm. apply (mo_val _ _ _ _ (iv_memo _ _ _ HI d m Hm)). Qed.

Lemma memo_verified hl st s d m : Inv hl st s -> c_memo s d = Some m -> cm_verified m =? ccur s = true.
Proof.
  intros HI Hm. rewrite (ccur_inv _ _ _ HI), (mo_ver _ _ _ _ (iv_memo _ _ _ HI d m Hm)). reflexivity.
Qed.

Lemma shallow_verified hl st s d m : Inv hl st s -> c_memo s d = Some m -> cshallow_verify s m = CShVerified.
Proof. intros HI Hm. unfold cshallow_verify. now rewrite (memo_verified _ _ _ _ _ HI Hm). Qed.

Lemma memo_iter_small hl st s d m : Inv hl st s -> c_memo s d = Some m -> iter_of m <= 15.
Proof.
  intros HI Hm. destruct (mo_kind _ _ _ _ (iv_memo _ _ _ HI d m Hm)) as [Hf | [Hk | Hk]].
  - now destruct Hf as (_ & _ & _ & Hi & _).
  - destruct Hk as ((_ & He & _) & _ & _ & _ & Hi & _). unfold iter_of. rewrite He. lia.
  - destruct Hk as (h & it & mh & (_ & He & _) & _ & _ & _ & _ & Hi & Hmi & _).
    unfold iter_of. rewrite He. lia.
Qed.

Lemma cfetch_hot_ok hl st s d :
  Inv hl st s ->
  cwp (cfetch_hot d)
      (fun s' r => s' = s /\
                   r = match c_memo s d with
                       | Some m => if cm_final m then Some m else None
                       | None => None
                       end) s.
Proof.
  intros HI. unfold cfetch_hot. apply cwp_bind, cwp_get.
  destruct (c_memo s d) as [m |] eqn:Hm; [| apply cwp_ret; now split].
  destruct (memo_val _ _ _ _ _ HI Hm) as (v & Hv). rewrite Hv.
  rewrite (shallow_verified _ _ _ _ _ HI Hm).
  destruct (cm_final m); [| apply cwp_ret; now split].
  cbn [cupdate_shallow]. apply cwp_bind, cwp_ret, cwp_ret. now split.
Qed.

Lemma status_of_val m v : cm_val m = Some v ->
  status_of m = if cm_final m then PsFinal (iter_of m) (cm_verified m)
                else PsProvisional (iter_of m) (cm_verified m) (heads_of m).
Proof. intros Hv. unfold status_of. rewrite Hv. destruct (cm_final m); reflexivity. Qed.

Lemma part_heads d h it m : part d h it m -> heads_of m = [(h, it)] /\ iter_of m = cm_iter m.
Proof.
  intros (Hnf & He & Hh & _). unfold heads_of, raw_heads, iter_of. rewrite Hnf, He, Hh. now split.
Qed.

(* the single head of a provisional memo: same stamp? *)
Lemma same_iteration_ok hl st s h it mh :
  Inv hl st s -> c_memo s h = Some mh ->
  cwp (same_iteration_heads REV_START [(h, it)])
      (fun s' r => Inv hl st s' /\ c_memo s' = c_memo s /\
                   (r = true -> iter_of mh = it) /\ (iter_of mh = it -> In h hl -> r = true)) s.
Proof.
  intros HI Hmh. cbn [same_iteration_heads fst snd]. apply cwp_bind.
  eapply cwp_conseq; [apply (peek_claim_any hl st s h HI) |].
  intros s1 pk (HI1 & Hm1 & Hpk).
  assert (Hmh1 : c_memo s1 h = Some mh) by (now rewrite Hm1).
  destruct (memo_val _ _ _ _ _ HI1 Hmh1) as (v & Hv).
  assert (Hver : cm_verified mh = REV_START) by apply (mo_ver _ _ _ _ (iv_memo _ _ _ HI1 h mh Hmh1)).
  assert (Hcont : cwp (s2 <- cget ;;
                       match key_status s2 h with
                       | None => cassert
                       | Some (PsPoisoned it0 v0) =>
                           if (v0 =? ccur s2) && (stamp_ccount it0 =? c_ccount s2) then propagated else cret false
                       | Some (PsProvisional it0 v0 _) | Some (PsFinal it0 v0) =>
                           if negb (v0 =? REV_START) then cret false
                           else if negb (it =? it0) then cret false else cret true
                       end)
                      (fun s' r => Inv hl st s' /\ c_memo s' = c_memo s /\
                                   (r = true -> iter_of mh = it) /\ (iter_of mh = it -> r = true)) s1).
  { apply cwp_bind, cwp_get. unfold key_status. rewrite Hmh1, (status_of_val mh v Hv).
    assert (Hb : cwp (if negb (cm_verified mh =? REV_START) then cret false
                      else if negb (it =? iter_of mh) then cret false else cret true)
                     (fun s' r => Inv hl st s' /\ c_memo s' = c_memo s /\
                                  (r = true -> iter_of mh = it) /\ (iter_of mh = it -> r = true)) s1).
    { rewrite Hver. cbn [N.eqb Pos.eqb negb]. destruct (N.eqb_spec it (iter_of mh)) as [He | Hne]; cbn [negb]; apply cwp_ret.
      - split; [exact HI1 |]. split; [exact Hm1 |]. split; [intros _; now symmetry | reflexivity].
      - split; [exact HI1 |]. split; [exact Hm1 |]. split; [discriminate | intros He; congruence]. }
    destruct (cm_final mh); exact Hb. }
  destruct pk as [| inner].
  - apply cwp_ret. split; [exact HI1 |]. split; [exact Hm1 |]. split; [discriminate |].
    intros _ Hh. specialize (Hpk Hh). discriminate.
  - eapply cwp_conseq; [exact Hcont |]. intros s2 r (H1 & H2 & H3 & H4).
    split; [exact H1 |]. split; [exact H2 |]. split; [exact H3 | intros He _; now apply H4].
Qed.

Lemma own_in_stack hl st s h mh : Inv hl st s -> c_memo s h = Some mh -> own h mh -> In h st.
Proof.
  intros HI Hmh Ho.
  destruct (kind_of_own _ _ _ _ (iv_memo _ _ _ HI h mh Hmh) Ho) as (_ & (Hin & _) & _). exact Hin.
Qed.

Lemma vsi_part hl st s d m h it mh :
  Inv hl st s -> c_memo s d = Some m -> part d h it m -> c_memo s h = Some mh ->
  cwp (validate_same_iteration d m)
      (fun s' r => Inv hl st s' /\ c_memo s' = c_memo s /\
                   (r = true -> iter_of mh = it) /\ (iter_of mh = it -> In h hl -> r = true)) s.
Proof.
  intros HI Hm Hp Hmh. destruct (part_heads _ _ _ _ Hp) as [Hh _].
  unfold validate_same_iteration. apply cwp_bind, cwp_get.
  rewrite (memo_verified _ _ _ _ _ HI Hm). cbn [negb]. rewrite Hh.
  assert (Hne : key_eqb h d = false) by (apply key_eqb_neq; apply Hp).
  cbn [heads_not_eq filter fst]. rewrite Hne. cbn [negb].
  rewrite (mo_ver _ _ _ _ (iv_memo _ _ _ HI d m Hm)).
  now apply same_iteration_ok.
Qed.

Lemma cverify_part hl st s L d m h it mh :
  Inv hl st s -> incl st hl -> c_memo s d = Some m -> part d h it m -> c_memo s h = Some mh ->
  cwp (cverify_memo strat L d m)
      (fun s' r =>
         Inv hl st s' /\
         ((cm_final mh = true /\ iter_of mh = it /\ r = (true, with_final m true) /\
           mupd s s' d (with_final m true))
          \/ (cm_final mh = false /\ iter_of mh = it /\ r = (true, m) /\ c_memo s' = c_memo s)
          \/ (iter_of mh <> it /\ fst r = false /\ c_memo s' = c_memo s))) s.
Proof.
  intros HI Hsub Hm Hp Hmh.
  assert (Hok := iv_memo _ _ _ HI d m Hm).
  destruct (part_heads _ _ _ _ Hp) as [Hh Hit].
  assert (Hnf : cm_final m = false) by apply Hp.
  destruct (memo_ok_head _ _ _ _ _ _ Hok Hp) as (mh0 & Hmh0 & Hk & _).
  rewrite Hmh in Hmh0. injection Hmh0 as <-.
  destruct (memo_val _ _ _ _ _ HI Hmh) as (vh & Hvh).
  assert (Hverh : cm_verified mh = REV_START) by apply (mo_ver _ _ _ _ (iv_memo _ _ _ HI h mh Hmh)).
  assert (Hverm : cm_verified m = REV_START) by apply (mo_ver _ _ _ _ Hok).
  set (Q := fun (s' : cdb) (r : bool * cmemo) =>
         Inv hl st s' /\
         ((cm_final mh = true /\ iter_of mh = it /\ r = (true, with_final m true) /\
           mupd s s' d (with_final m true))
          \/ (cm_final mh = false /\ iter_of mh = it /\ r = (true, m) /\ c_memo s' = c_memo s)
          \/ (iter_of mh <> it /\ fst r = false /\ c_memo s' = c_memo s))).
  set (Kont := fun r : bool * cmemo =>
         if fst r then m' <- cupdate_shallow d (snd r) CShVerified ;; cret (true, m')
         else cdeep_verify strat L d (snd r)).
  (* what happens once validate_provisional said no *)
  assert (Hslow : (cm_final mh = false \/ iter_of mh <> it) ->
            cwp (b <- validate_same_iteration d m ;; cret (b, m)) (fun s' r => cwp (Kont r) Q s') s).
  { intros Hcase. apply cwp_bind.
    eapply cwp_conseq; [apply (vsi_part hl st s d m h it mh HI Hm Hp Hmh) |].
    intros s2 b (HI2 & Hm2 & Hb1 & Hb2). apply cwp_ret. unfold Kont. cbn [fst snd].
    destruct b.
    - cbn [cupdate_shallow]. apply cwp_bind, cwp_ret, cwp_ret. split; [exact HI2 |].
      right; left. specialize (Hb1 eq_refl). destruct Hcase as [Hc | Hc]; [| contradiction].
      split; [exact Hc |]. split; [exact Hb1 |]. split; [reflexivity | exact Hm2].
    - unfold cdeep_verify. rewrite Hnf. cbn [negb].
      assert (Hr : cwp (cret (false, m)) Q s2).
      { apply cwp_ret. split; [exact HI2 |]. right; right.
        split; [| now split]. intros He. destruct Hcase as [Hc | Hc]; [| contradiction].
        assert (Hin : In h hl).
        { apply Hsub. destruct Hk as [Ho | Hf]; [| congruence]. exact (own_in_stack hl st s h mh HI Hmh Ho). }
        specialize (Hb2 He Hin). discriminate. }
      destruct (cm_untracked m); exact Hr. }
  unfold cverify_memo. apply cwp_bind, cwp_get. rewrite (shallow_verified _ _ _ _ _ HI Hm).
  cbv iota. fold Kont. apply cwp_bind.
  unfold validate_may_be_provisional. rewrite Hnf, Hh. cbv iota.
  assert (Hcc : negb (stamp_ccount (iter_of m) =? c_ccount s) = false).
  { rewrite (iv_cc _ _ _ HI), stamp_ccount_small; [reflexivity |].
    assert (H := memo_iter_small _ _ _ _ _ HI Hm). lia. }
  apply cwp_bind, cwp_get. rewrite Hcc. apply cwp_bind.
  unfold validate_provisional. apply cwp_bind, cwp_get.
  rewrite Hh. cbn [heads_all_final fst snd]. unfold key_status. rewrite Hmh, (status_of_val mh vh Hvh).
  destruct (cm_final mh) eqn:Hfh.
  - rewrite Hverh, Hverm. cbn [N.eqb Pos.eqb andb]. rewrite Bool.andb_true_r.
    destruct (N.eqb_spec (iter_of mh) it) as [He | Hne].
    + (* settled *)
      apply cwp_bind. unfold put_memo. apply cwp_modify, cwp_ret. cbn [fst]. apply cwp_ret.
      unfold Kont. cbn [fst snd cupdate_shallow]. apply cwp_bind, cwp_ret, cwp_ret.
      set (s' := cset_memo s (upd (c_memo s) d (Some (with_final m true)))).
      assert (Hu : mupd s s' d (with_final m true)) by apply mupd_put.
      split.
      * apply (Inv_upd hl st st s s' d (with_final m true) HI Hu); try apply HI.
        -- eapply settle_new; eassumption.
        -- eapply others_settle; eassumption.
      * left. split; [reflexivity |]. split; [exact He |]. split; [reflexivity | exact Hu].
    + apply cwp_ret. cbn [fst]. apply Hslow. now right.
  - apply cwp_ret. cbn [fst]. apply Hslow. now left.
Qed.

(* ---------------------------------------------------------------- the callback into the stack *)
Lemma own_filter_eq d m : own d m ->
  {| cm_val := cm_val m; cm_verified := cm_verified m; cm_changed := cm_changed m;
     cm_dur := cm_dur m; cm_untracked := cm_untracked m; cm_edges := cm_edges m;
     cm_final := cm_final m; cm_extra := true; cm_iter := cm_iter m;
     cm_heads := filter (fun h => key_eqb (fst h) d) (cm_heads m);
     cm_conv := cm_conv m |} = m.
Proof.
  intros (_ & He & Hh). destruct m; cbn in *. subst. cbn. rewrite key_eqb_refl. reflexivity.
Qed.

Lemma initial_ok hl st s s' d :
  Inv hl st s -> c_memo s d = None -> In d ns -> bottom lvl st d -> fixy d ->
  (npath d d /\ forall x, npath d x -> npath x d) ->
  (cyc d = true /\ forall x, npath d x -> cyc x = true) ->
  mupd s s' d (initial_memo d (Some (cinit d)) REV_START 0) -> Inv hl st s'.
Proof.
  intros HI Hm Hdn Hb Hfx Hring Hcyc Hu.
  apply (Inv_upd hl st st s s' d _ HI Hu); try apply HI.
  - constructor; try reflexivity; try exact Hdn.
    + eexists. reflexivity.
    + right; left. split; [repeat split |]. split; [exact Hb |]. split; [exact Hfx |].
      split; [unfold initial_memo, D_NEVER; cbn; lia |].
      split; [unfold hpot, initial_memo, D_NEVER; cbn; lia |].
      split; [exact Hring |]. split; [exact Hcyc | reflexivity].
  - apply (others_idle hl st st s s' d _ HI Hu).
    + unfold idle. now rewrite Hm.
    + intros x Hx. exact Hx.
    + intros h _ Hh. exact Hh.
Qed.

Lemma fetch_cold_cycle_ok hl st s q r d :
  Inv hl st s -> st = q :: r -> In d (sc q) -> In d st ->
  cwp (fetch_cold_cycle strat cinit d)
      (fun s' m => Inv hl st s' /\ c_memo s' d = Some m /\ own d m /\ c_sync s' = c_sync s /\
                   (forall p, p <> d -> c_memo s' p = c_memo s p) /\
                   (forall m0, c_memo s d = Some m0 -> m = m0) /\
                   (c_memo s d = None -> m = initial_memo d (Some (cinit d)) REV_START 0)) s.
Proof.
  intros HI Hst Hd Hin.
  destruct (stack_callback _ _ _ _ _ _ HI Hst Hd Hin) as (Hn & Hb & Hl).
  destruct (Hnxt q d Hn) as (_ & _ & Hfx).
  assert (Hdn : In d ns) by (now apply (iv_incl _ _ _ HI)).
  unfold fetch_cold_cycle.
  assert (Hrec : recovers (strat_of strat d) = true).
  { unfold fixy, fby_of in Hfx. rewrite Hfx. reflexivity. }
  rewrite Hrec. cbn [negb]. apply cwp_bind, cwp_get.
  destruct (callback_memo _ _ _ _ _ _ HI Hst Hd Hin) as [Hnone | (m & Hm & Ho)].
  - rewrite Hnone. rewrite (iv_cc _ _ _ HI), (ccur_inv _ _ _ HI).
    change (stamp_initial 0) with 0.
    apply cwp_bind. unfold put_memo. apply cwp_modify, cwp_ret.
    set (s' := cset_memo s _).
    assert (Hu : mupd s s' d (initial_memo d (Some (cinit d)) REV_START 0)) by apply mupd_put.
    split; [eapply initial_ok; try eassumption; [eapply stack_cycle; eassumption | eapply stack_cyc; eassumption] |].
    split; [apply (mupd_same _ _ _ _ Hu) |]. split; [repeat split |]. split; [reflexivity |].
    split; [intros p Hp; now apply (mupd_other _ _ _ _ _ Hu) |].
    split; [intros m0 Hm0; congruence | reflexivity].
  - rewrite Hm. assert (He : cm_extra m = true) by apply Ho. rewrite He.
    rewrite (own_filter_eq d m Ho).
    destruct (memo_val _ _ _ _ _ HI Hm) as (v & Hv). rewrite Hv.
    rewrite (memo_verified _ _ _ _ _ HI Hm).
    assert (Hep : stamp_ccount (iter_of m) =? c_ccount s = true).
    { rewrite (iv_cc _ _ _ HI), stamp_ccount_small; [reflexivity |].
      assert (H := memo_iter_small _ _ _ _ _ HI Hm). lia. }
    rewrite Hep. cbn [andb].
    assert (Hhc : heads_contains (raw_heads m) d = true).
    { destruct Ho as (_ & _ & Hh). unfold raw_heads. rewrite He, Hh. cbn. now rewrite key_eqb_refl. }
    rewrite Hhc.
    apply cwp_bind. unfold put_memo. apply cwp_modify, cwp_ret.
    set (s' := cset_memo s _).
    assert (Hpt : forall x, c_memo s' x = c_memo s x).
    { intros x. unfold s'. cbn. unfold upd. destruct (key_eqb_spec d x) as [<- | _]; [now rewrite Hm | reflexivity]. }
    split; [apply (Inv_same hl st s s' HI Hpt); reflexivity |].
    split; [now rewrite Hpt |]. split; [exact Ho |]. split; [reflexivity |].
    split; [intros p _; apply Hpt |]. split; [intros m0 Hm0; congruence | intros Hx; congruence].
Qed.

End Ops.

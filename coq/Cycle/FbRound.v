(* Cycle/FbRound.v — (fallback cycles, C13_fresh) one trip around the fixpoint loop under the
   fresh-revision invariant. *)
From Coq Require Import PeanoNat.
From Salsa Require Import Base.
From Salsa.Kern Require Import CoreK.
From Salsa.Core Require Import Spec.
From Salsa.Cycle Require Import StampK Model Spec SpecProofs FallbackProofs Cert FreshBase FbSem FbInv FbOps FbExec.

Section Round.
Context {C : bctx}.
Notation prog := (@fprog C).
Notation strat := (@fstrat C).
Notation cinit := (@fcinit C).
Notation ns := (@fns C).
Notation lvl := (@flvl C).
Notation nxt := (@fnxt C).
Notation SV := (spec_fallback prog sn cinit ns).
Notation cyc := (cycn prog sn ns).
Notation sc := (succs prog sn).

(* ---------------------------------------------------------------- the head closure of a single head *)
Lemma own_heads b mb : own b mb -> heads_of mb = [(b, cm_iter mb)] /\ iter_of mb = cm_iter mb.
Proof.
  intros (Hnf & He & Hh). unfold heads_of, raw_heads, iter_of. rewrite Hnf, He, Hh. now split.
Qed.

Lemma collect_single hl st s n' b it q mb :
  Inv hl st s -> c_memo s b = Some mb -> own b mb -> cm_iter mb = it ->
  cwp (collect_all_cycle_heads (S n') [(b, it)] q)
      (fun s' r => s' = s /\
                   r = if key_eqb b q then ([(b, it)], 0, true) else ([(b, it)], it, false)) s.
Proof.
  intros HI Hmb Ho Hit. destruct (own_heads _ _ Ho) as [Hh Hio].
  destruct (memo_val _ _ _ _ _ HI Hmb) as (v & Hv).
  unfold collect_all_cycle_heads. apply cwp_bind. apply cwp_bind.
  cbn [collect_recursive fst snd].
  destruct (key_eqb b q) eqn:Hbq.
  - apply cwp_ret, cwp_ret. cbn [insert_missing]. apply cwp_ret. now split.
  - apply cwp_bind, cwp_get. unfold key_status. rewrite Hmb, (status_of_val mb v Hv).
    assert (Hnf : cm_final mb = false) by apply Ho. rewrite Hnf, Hh, Hit.
    cbn [heads_contains existsb fst snd]. rewrite key_eqb_refl. cbn [orb].
    apply cwp_ret, cwp_ret. cbn [insert_missing]. apply cwp_ret. split; [reflexivity |].
    unfold stamp_default. rewrite N.max_0_l. reflexivity.
Qed.

Lemma find_self_none q it l :
  find (fun k => negb (key_eqb k q) && heads_contains [(q, it)] k) l = None.
Proof.
  induction l as [| k l IH]; [reflexivity |]. cbn [find heads_contains existsb fst].
  destruct (key_eqb_spec k q) as [-> | Hne]; cbn [negb andb]; [exact IH |].
  destruct (key_eqb_spec q k) as [-> | _]; [congruence |]. cbn [orb]. exact IH.
Qed.

Lemma outer_self (s : cdb) q it :
  cwp (outer_cycle [(q, it)] q) (fun s' r => s' = s /\ r = None) s.
Proof.
  unfold outer_cycle. apply cwp_bind, cwp_get. rewrite find_self_none.
  cbn [heads_not_eq filter fst]. rewrite key_eqb_refl. cbn [negb List.rev find_claimed_head].
  apply cwp_ret. now split.
Qed.

Lemma find_other_some b it q l k :
  find (fun k => negb (key_eqb k q) && heads_contains [(b, it)] k) l = Some k -> k = b.
Proof.
  intros H. apply find_some in H as [_ H]. apply andb_true_iff in H as [_ H].
  cbn [heads_contains existsb fst] in H. rewrite Bool.orb_false_r in H.
  apply key_eqb_eq in H. now symmetry.
Qed.

Lemma outer_other hl st s b it q :
  Inv hl st s -> In b hl -> b <> q ->
  cwp (outer_cycle [(b, it)] q) (fun s' r => Inv hl st s' /\ c_memo s' = c_memo s /\ r = Some b) s.
Proof.
  intros HI Hb Hne. unfold outer_cycle. apply cwp_bind, cwp_get.
  destruct (find (fun k => negb (key_eqb k q) && heads_contains [(b, it)] k) (List.rev (c_qstack s))) as [k |] eqn:Hf.
  - apply find_other_some in Hf. subst k. apply cwp_ret. split; [exact HI |]. split; reflexivity.
  - cbn [heads_not_eq filter fst]. apply key_eqb_neq in Hne. rewrite Hne. cbn [negb List.rev app find_claimed_head fst].
    apply cwp_bind. eapply cwp_conseq; [apply (peek_claim_held hl st s b HI Hb) |].
    intros s1 pk (-> & HI1 & Hm1). apply cwp_ret. split; [exact HI1 |]. split; [exact Hm1 | reflexivity].
Qed.

Lemma own_succ_not_done hl st s q mq : Inv hl st s -> c_memo s q = Some mq -> own q mq ->
  exists x, In x (sc q) /\ ~ done s x.
Proof.
  intros HI Hm Ho. destruct (own_ring _ _ _ _ _ HI Hm Ho) as [Hqq _].
  inversion Hqq as [a h Hn | a d h Hn Hd]; subst.
  - exists q. split; [now apply Hreal |]. eapply own_not_done; eassumption.
  - exists d. split; [now apply Hreal |]. eapply own_ring_not_done; try eassumption. now left.
Qed.


Lemma done_eq s s' d : c_memo s' = c_memo s -> done s d -> done s' d.
Proof. intros He. unfold done. now rewrite He. Qed.
Lemma partat_eq s s' d h it : c_memo s' = c_memo s -> partat s d h it -> partat s' d h it.
Proof. intros He. unfold partat. now rewrite He. Qed.
Lemma hv_eq s s' h : c_memo s' = c_memo s -> hv s' h = hv s h.
Proof. intros He. unfold hv. now rewrite He. Qed.
Lemma pres_eq_r st s s1 s2 : c_memo s2 = c_memo s1 -> pres st s s1 -> pres st s s2.
Proof.
  intros He (A1 & A2 & A3 & A4). unfold pres, done, partat in *. rewrite He. now repeat split.
Qed.

Section RoundMain.
Variable L : clower.
Variable n nn' : nat.
Variable st : list qkey.
Variable q : qkey.
Variable r0 : list qkey.
Hypothesis Hst : st = q :: r0.
Hypothesis HL : fetch_spec L n.
Hypothesis Hfuel : (length ns < n + length st)%nat.

Definition LIA (s : cdb) (ls : lstate) : Prop :=
  ls_last ls = None /\ ls_old ls = c_memo s q /\
  (forall m, c_memo s q = Some m -> ~ own q m /\ ls_iter ls = iter_of m) /\
  (c_memo s q = None -> ls_iter ls = 0).
Definition LIB (s : cdb) (ls : lstate) : Prop :=
  exists m, ls_last ls = Some m /\ c_memo s q = Some m /\ own q m /\ cm_iter m = ls_iter ls.
Definition LI (s : cdb) (ls : lstate) : Prop := LIA s ls \/ LIB s ls.

Definition completed_out (s : cdb) (ls : lstate) (s' : cdb) (v : val) (rev : cmemo) (mode : rmode) : Prop :=
  mode = RDefault /\ cm_final rev = true /\ raw_heads rev = [] /\ cm_changed rev = REV_START /\
  v = SV q /\ iter_of rev <= 14 /\ LIA s ls /\
  (forall p, In p st -> c_memo s' p = c_memo s p) /\ (forall d, In d (sc q) -> done s' d).

Definition participant_out (ls : lstate) (s' : cdb) (v : val) (rev : cmemo) (mode : rmode) : Prop :=
  exists b it mb, b <> q /\ mode = RTransfer b /\ In b st /\ cm_final rev = false /\ cm_extra rev = true /\
    cm_heads rev = [(b, it)] /\ cm_iter rev <= it + 1 /\ cm_changed rev = REV_START /\
    c_memo s' b = Some mb /\ own b mb /\ cm_iter mb = it /\ v = SV q /\ npath q b /\
    (forall m, c_memo s' q = Some m -> ~ own q m) /\
    (forall d, In d (sc q) -> done s' d \/ d = b \/ partat s' d b it).

Definition head_common (ls : lstate) (s' : cdb) (mq : cmemo) (lv v : val) (rev : cmemo) : Prop :=
  c_memo s' q = Some mq /\ own q mq /\ cm_iter mq = ls_iter ls /\ cm_val mq = Some lv /\
  lv = cinit q /\ v = cinit q /\
  cm_final rev = true /\ cm_extra rev = true /\ cm_iter rev = ls_iter ls /\ cm_heads rev = [] /\
  cm_changed rev = REV_START /\ cm_dur rev <= cm_dur mq /\
  (cm_untracked mq = true -> cm_untracked rev = true) /\
  (forall d, In d (sc q) -> done s' d \/ d = q \/ partat s' d q (cm_iter mq)).

Definition round_post (s : cdb) (ls : lstate) (s' : cdb) (out : round_out) : Prop :=
  Inv st st s' /\ pres st s s' /\
  match out with
  | RDone v rev mode =>
      completed_out s ls s' v rev mode \/ participant_out ls s' v rev mode \/
      (exists mq lv, head_common ls s' mq lv v rev /\ mode = RDefault /\ v = lv /\
                     cm_dur rev = cm_dur mq /\ cm_untracked rev = cm_untracked mq)
  | RIterate hm v rev heads =>
      hm = 0 /\ heads = [(q, ls_iter ls)] /\
      exists mq lv, head_common ls s' mq lv v rev /\
                    (v <> lv \/ cm_dur rev <> cm_dur mq \/ cm_untracked rev <> cm_untracked mq)
  end.

Lemma LI_seed s ls : Inv st st s -> LI s ls ->
  forall m, (match ls_last ls with Some m => Some m | None => ls_old ls end) = Some m -> cm_changed m = REV_START.
Proof.
  intros HI [(Hl & Ho & _) | (m0 & Hl & Hm0 & _)] m Hm; rewrite Hl in Hm.
  - rewrite Ho in Hm. apply (mo_chg _ _ _ _ (iv_memo _ _ _ HI q m Hm)).
  - injection Hm as <-. apply (mo_chg _ _ _ _ (iv_memo _ _ _ HI q m0 Hm0)).
Qed.

Lemma q_in_st : In q st.
Proof. rewrite Hst. now left. Qed.

Lemma LI_iter s ls : Inv st st s -> LI s ls -> ls_iter ls <= 13.
Proof.
  intros HI [(Hl & Ho & Hsome & Hnone) | (m0 & Hl & Hm0 & Hown & Hit)].
  - destruct (c_memo s q) as [m |] eqn:Hm.
    + destruct (Hsome m eq_refl) as [Hno ->].
      destruct (mo_kind _ _ _ _ (iv_memo _ _ _ HI q m Hm)) as [Hf | [Hk | Hk]].
      * destruct Hf as (_ & _ & Hn & _). exfalso. apply Hn, q_in_st.
      * destruct Hk as (Hw & _). contradiction.
      * destruct Hk as (h & it & mh & (_ & He & _) & _ & _ & _ & _ & Hi & Hmi & _).
        unfold iter_of. rewrite He. lia.
    + rewrite (Hnone eq_refl). lia.
  - destruct (kind_of_own _ _ _ _ (iv_memo _ _ _ HI q m0 Hm0) Hown) as (_ & _ & _ & _ & Hp & _). lia.
Qed.

(* reads answered from done nodes: the node is on no cycle and the body computed its value *)
Lemma completed_value s s1 : Inv st st s -> Inv st st s1 -> pres st s s1 ->
  (forall e, In e (sc q) -> done s1 e) -> F prog sn (rho_of st s) q = SV q.
Proof.
  intros HI HI1 Hp Hd. symmetry. apply sv_body. apply (stack_not_cyc st st s1 q HI1 q_in_st Hd).
Qed.

Lemma complete_frame_iter fr es it : iter_of (complete_frame fr es it false) = it.
Proof.
  unfold iter_of, complete_frame. cbn. rewrite stamp_is_default_eq.
  destruct (N.eqb_spec it 0) as [-> | Hne]; reflexivity.
Qed.

Lemma complete_frame_raw fr es it b : raw_heads (complete_frame fr es it b) = [].
Proof. unfold raw_heads, complete_frame. cbn. destruct (b || negb (stamp_is_default it)); reflexivity. Qed.

Lemma botof_top_level b : botof lvl st = Some b -> lvl b = lvl q.
Proof. rewrite Hst. cbn. intros H. injection H as <-. apply botof_from_lvl. Qed.

Lemma own_is_botof hl s h mh : Inv hl st s -> c_memo s h = Some mh -> own h mh -> lvl h = lvl q ->
  botof lvl st = Some h.
Proof.
  intros HI Hmh Ho Hl.
  destruct (kind_of_own _ _ _ _ (iv_memo _ _ _ HI h mh Hmh) Ho) as (_ & Hb & _).
  assert (Hm := chain_mono _ (iv_incl _ _ _ HI) (iv_chain _ _ _ HI)).
  destruct (botof lvl st) as [b |] eqn:Hbo; [| rewrite Hst in Hbo; discriminate].
  destruct (botof_bottom lvl st b Hm (iv_nd _ _ _ HI) Hbo) as [Hbb Hlb].
  f_equal. apply (bottom_unique lvl st b h Hbb Hb). rewrite (Hlb q r0 Hst). now symmetry.
Qed.


Lemma part_old_bound s1 b it mb old :
  Inv st st s1 -> c_memo s1 b = Some mb -> own b mb -> cm_iter mb = it -> b <> q -> npath q b ->
  (forall m, c_memo s1 q = Some m -> ~ own q m) ->
  c_memo s1 q = Some old -> iter_of old <= it.
Proof.
  intros HI1 Hmb Ho Hit Hbq Hqb Hnown Hold.
  destruct (mo_kind _ _ _ _ (iv_memo _ _ _ HI1 q old Hold)) as [Hf | [Hk | Hk]].
  - destruct Hf as (_ & _ & Hn & _). exfalso. apply Hn, q_in_st.
  - destruct Hk as (Hw & _). exfalso. now apply (Hnown old).
  - destruct Hk as (h & ito & mh & Hp & Hnp & Hmh & Hk & Hle & _ & Hmi & Hlive & _).
    assert (Hio : iter_of old = cm_iter old).
    { destruct Hp as (_ & He & _). unfold iter_of. now rewrite He. }
    rewrite Hio. destruct Hk as [Hown | Hfin].
    + assert (Hhb : botof lvl st = Some h).
      { eapply own_is_botof; try eassumption. now apply npath_lvl. }
      assert (Hbb : botof lvl st = Some b).
      { eapply own_is_botof; try eassumption. now apply npath_lvl. }
      rewrite Hhb in Hbb. injection Hbb as ->. rewrite Hmb in Hmh. injection Hmh as <-.
      destruct (own_heads _ _ Ho) as [_ Hiob]. rewrite Hiob, Hit in Hle.
      destruct (N.eq_dec ito it) as [-> | Hne]; [| lia].
      exfalso. assert (Hnf : cm_final mb = false) by apply Ho.
      rewrite Hiob, Hit in Hlive. destruct (Hlive eq_refl Hnf) as (_ & Hn & _). apply Hn, q_in_st.
    + exfalso. assert (Hdh : done s1 h) by (exists mh; split; [exact Hmh | now left]).
      destruct (npath_split _ _ Hnp _ Hqb) as [Heq | [Hhb | Hbh]].
      * subst h. rewrite Hmb in Hmh. injection Hmh as <-. destruct Ho as (Hnf & _). congruence.
      * eapply (own_ring_not_done st st s1 b mb h); try eassumption. now left.
      * eapply (own_ring_not_done st st s1 b mb h); try eassumption. now right.
Qed.

Lemma round_ok s ls : Inv st st s -> LI s ls ->
  cwp (round prog strat cinit (S nn') L q ls) (round_post s ls) s.
Proof.
  intros HI HLI. assert (Hit13 := LI_iter s ls HI HLI).
  assert (Hqn : In q ns) by (apply (iv_incl _ _ _ HI), q_in_st).
  unfold round. apply cwp_bind.
  eapply cwp_conseq; [apply (run_query_ok L n st q r0 s _ Hst HL Hfuel HI (LI_seed s ls HI HLI)) |].
  intros s1 [v fr] (HI1 & Hp1 & Hv & (Hchg & Hk) & Hdur & Hun & Hsame). cbn [fst snd] in *.
  destruct Hk as [(Hh & Hr) | (b & it & mb & Hb & Hh & Hmb & Ho & Hitb & (e0 & He0 & Hw) & Hr)]; rewrite Hh.
  - (* completed *)
    specialize (Hsame Hh).
    assert (HA : LIA s ls).
    { destruct HLI as [HA | (m0 & Hl & Hm0 & Hown & Hi)]; [exact HA |]. exfalso.
      assert (Hm1 : c_memo s1 q = Some m0) by (rewrite (Hsame q q_in_st); exact Hm0).
      destruct (own_succ_not_done _ _ _ _ _ HI1 Hm1 Hown) as (x & Hx & Hnd). apply Hnd, Hr, Hx. }
    rewrite (stamp_is_initial_small (ls_iter ls)) by lia.
    assert (HvK : v = SV q) by (rewrite Hv; eapply completed_value; eassumption).
    assert (Hfin : forall it', it' <= 14 ->
       cwp (pop_query ;;; cret (RDone v (complete_frame fr (fr_edges fr) it' false) RDefault)) (round_post s ls) s1).
    { intros it' Hit'. apply cwp_bind. unfold pop_query. apply cwp_modify, cwp_ret.
      split; [apply Inv_set_qstack, HI1 |]. split; [exact Hp1 |]. left.
      split; [reflexivity |]. split; [reflexivity |]. split; [apply complete_frame_raw |].
      split; [exact Hchg |]. split; [exact HvK |]. split; [rewrite complete_frame_iter; exact Hit' |].
      split; [exact HA |]. split; [exact Hsame | exact Hr]. }
    destruct (N.eqb_spec (ls_iter ls) 0) as [He | Hne].
    + apply Hfin. unfold stamp_default. lia.
    + rewrite stamp_increment_small by lia. apply Hfin. lia.
  - assert (Hbst : In b st) by (eapply own_in_stack; eassumption).
    apply cwp_bind. apply cwp_on_panic. apply cwp_bind.
    eapply cwp_conseq; [apply (collect_single st st s1 nn' b it q mb HI1 Hmb Ho Hitb) |].
    intros s2 c [-> ->]. destruct (key_eqb_spec b q) as [Hbq | Hbq].
    + (* the head itself *)
      subst b. cbv iota beta. apply cwp_bind. eapply cwp_conseq; [apply outer_self |].
      intros s2 o [-> ->]. cbn [negb]. apply cwp_bind, cwp_get.
      set (seed := match ls_last ls with Some m => Some m | None => ls_old ls end) in *.
      assert (Hlast : match ls_last ls with Some m => Some m | None => c_memo s1 q end = Some mb /\
                      ls_iter ls = it /\ fr_dur (seed_frame s seed) <= cm_dur mb /\
                      (cm_untracked mb = true -> fr_untracked (seed_frame s seed) = true)).
      { unfold seed. destruct HLI as [(Hl & Hold & Hsome & Hnone) | (m0 & Hl & Hm0 & Hown & Hi)]; rewrite Hl.
        - split; [exact Hmb |]. destruct Hp1 as (_ & P2 & P3 & _).
          destruct (c_memo s q) as [mo |] eqn:Hmo.
          + exfalso. rewrite (P2 q q_in_st mo Hmo) in Hmb. injection Hmb as <-. now destruct (Hsome mo eq_refl).
          + rewrite (Hnone eq_refl), Hold.
            destruct (P3 q q_in_st Hmo) as [Hx | [_ Hx]]; rewrite Hx in Hmb; [discriminate |].
            injection Hmb as <-. subst it. split; [reflexivity |]. cbn. split; [unfold D_NEVER; lia | discriminate].
        - destruct Hp1 as (_ & P2 & _). rewrite (P2 q q_in_st m0 Hm0) in Hmb. injection Hmb as <-.
          split; [reflexivity |]. split; [now rewrite <- Hi |].
          unfold seed_frame. assert (Hnf : cm_final m0 = false) by apply Hown. rewrite Hnf.
          rewrite (memo_verified _ _ _ _ _ HI Hm0). cbn [negb andb cseed fr_dur fr_untracked].
          split; [unfold dur_min; lia | intros H; exact H]. }
      destruct Hlast as (Hlast & Hiter & Hsd & Hsu). rewrite Hlast.
      destruct (kind_of_own _ _ _ _ (iv_memo _ _ _ HI1 q mb Hmb) Ho) as (_ & _ & Hfix & _ & _ & _ & _ & Hlv).
      rewrite Hlv. apply cwp_ret.
      cbv iota beta.
      assert (Hpair : match strat_of strat q with
                      | SFallback => (cinit q, true)
                      | _ => (recover strat q (cinit q) v, recover strat q (cinit q) v =? cinit q)
                      end = (cinit q, true)).
      { unfold fixy, fby_of in Hfix. rewrite Hfix. reflexivity. }
      rewrite Hpair. cbv iota beta.
      unfold complete_cycle_query. apply cwp_bind, cwp_bind, cwp_get.
      apply cwp_bind. unfold pop_query. apply cwp_modify, cwp_ret. apply cwp_bind, cwp_get.
      set (s2 := cset_qstack s1 (tl (c_qstack s1))).
      set (es := flatten_edges strat (S nn') s1 (fr_edges fr)).
      set (rev0 := complete_frame fr es (ls_iter ls) true).
      assert (Hoc : others_converged s2 [(q, it)] q = true).
      { unfold others_converged. cbn [heads_not_eq filter fst]. rewrite key_eqb_refl. reflexivity. }
      rewrite Hoc, Bool.andb_true_r.
      assert (Hcc : cm_changed mb =? cm_changed rev0 = true).
      { rewrite (mo_chg _ _ _ _ (iv_memo _ _ _ HI1 q mb Hmb)). cbn. rewrite Hchg. reflexivity. }
      rewrite Hcc, Bool.andb_true_r.
      assert (Hcommon : head_common ls s2 mb (cinit q) (cinit q) rev0).
      { split; [exact Hmb |]. split; [exact Ho |]. split; [now rewrite Hitb |]. split; [exact Hlv |].
        split; [reflexivity |]. split; [reflexivity |]. split; [reflexivity |]. split; [reflexivity |]. split; [reflexivity |].
        split; [reflexivity |]. split; [exact Hchg |]. split; [cbn; lia |].
        split; [intros Hu; cbn; apply Hun, Hsu, Hu |]. rewrite Hitb. exact Hr. }
      cbn [andb].
      destruct ((cm_dur mb =? cm_dur rev0) && eqb (cm_untracked mb) (cm_untracked rev0)) eqn:Hconv.
      * (* converged *)
        apply andb_true_iff in Hconv as [Hc2 Hc3].
        apply N.eqb_eq in Hc2. apply Bool.eqb_prop in Hc3.
        apply cwp_bind. unfold map_heads_memos. cbn [heads_not_eq filter fst]. rewrite key_eqb_refl.
        cbn [negb fold_left]. apply cwp_modify. apply cwp_bind, cwp_emit, cwp_ret.
        split.
        { apply Inv_set_log. apply (Inv_same st st s2 _ (Inv_set_qstack _ _ _ _ HI1)); try reflexivity. }
        split; [exact Hp1 |]. right; right. exists mb, (cinit q). split; [exact Hcommon |].
        split; [reflexivity |]. split; [reflexivity |]. split; [now symmetry | now symmetry].
      * apply cwp_ret. split; [apply Inv_set_qstack, HI1 |]. split; [exact Hp1 |].
        split; [reflexivity |]. split; [now rewrite Hiter |]. exists mb, (cinit q). split; [exact Hcommon |].
        apply andb_false_iff in Hconv as [Hc | Hc].
        { right; left. apply N.eqb_neq in Hc. congruence. }
        right; right. intros He. rewrite He in Hc. now rewrite Bool.eqb_reflx in Hc.
    + (* a participant under b *)
      cbv iota beta. apply cwp_bind.
      eapply cwp_conseq; [apply (outer_other st st s1 b it q HI1 Hbst Hbq) |].
      intros s2 o (HI2 & Hm2 & ->). cbn [negb].
      assert (Hlb : lvl b = lvl q) by (now apply botof_top_level).
      assert (Hle0 : lvl e0 = lvl q).
      { destruct Hw as [-> | (md & Hmd & Hpd)]; [exact Hlb |].
        rewrite <- Hlb. symmetry. apply npath_lvl. exact (part_npath _ _ _ _ _ _ _ HI1 Hmd Hpd). }
      assert (Hnq : nxt q = Some e0).
      { destruct (Hcalls q e0 Hqn He0) as [_ [Hlt | Hn]]; [lia | exact Hn]. }
      destruct (Hnxt q e0 Hnq) as (_ & Hfix & _).
      assert (Hqb : npath q b).
      { destruct Hw as [-> | (md & Hmd & Hpd)]; [now constructor |].
        apply (np_step q e0 b Hnq). exact (part_npath _ _ _ _ _ _ _ HI1 Hmd Hpd). }
      assert (Hnown : forall m, c_memo s1 q = Some m -> ~ own q m).
      { intros m Hm Hown. assert (Hbq' : botof lvl st = Some q) by (exact (own_is_botof st s1 q m HI1 Hm Hown eq_refl)).
        rewrite Hb in Hbq'. injection Hbq' as ->. now apply Hbq. }
      assert (Hiter : ls_iter ls <= it).
      { destruct HLI as [(Hl & Hold & Hsome & Hnone) | (m0 & Hl & Hm0 & Hown & Hi)].
        - destruct (c_memo s q) as [mo |] eqn:Hmo.
          + destruct (Hsome mo eq_refl) as [_ ->]. destruct Hp1 as (_ & P2 & _).
            apply (part_old_bound s1 b it mb mo HI1 Hmb Ho Hitb Hbq Hqb Hnown). apply P2; [apply q_in_st | exact Hmo].
          + rewrite (Hnone eq_refl). lia.
        - exfalso. destruct Hp1 as (_ & P2 & _). apply (Hnown m0); [apply P2; [apply q_in_st | exact Hm0] | exact Hown]. }
      assert (Hit12 : it <= 12).
      { destruct (kind_of_own _ _ _ _ (iv_memo _ _ _ HI1 b mb Hmb) Ho) as (_ & _ & _ & _ & Hp & _). lia. }
      rewrite stamp_increment_small by lia. apply cwp_ret. cbv iota beta.
      unfold complete_cycle_query. apply cwp_bind, cwp_bind, cwp_get.
      apply cwp_bind. unfold pop_query. apply cwp_modify, cwp_ret, cwp_ret.
      set (s3 := cset_qstack s2 (tl (c_qstack s2))).
      assert (Hm3 : c_memo s3 = c_memo s1) by exact Hm2.
      split; [apply Inv_set_qstack, HI2 |]. split; [apply (pres_eq_r st s s1 s3 Hm3 Hp1) |].
      right; left. exists b, it, mb.
      split; [exact Hbq |]. split; [reflexivity |]. split; [exact Hbst |]. split; [reflexivity |].
      split; [reflexivity |]. split; [reflexivity |]. split; [cbn; lia |]. split; [exact Hchg |].
      split; [now rewrite Hm3 |]. split; [exact Ho |]. split; [exact Hitb |].
      split.
      { assert (Hs : match strat_of strat q with SFallback => cinit q | _ => v end = cinit q).
        { unfold fixy, fby_of in Hfix. rewrite Hfix. reflexivity. }
        rewrite Hs. symmetry. apply sv_cyc.
        destruct (kind_of_own _ _ _ _ (iv_memo _ _ _ HI1 b mb Hmb) Ho) as (_ & _ & _ & _ & _ & _ & (_ & Hcx) & _).
        apply Hcx.
        assert (Hm := chain_mono _ (iv_incl _ _ _ HI1) (iv_chain _ _ _ HI1)).
        destruct (stack_down st (iv_incl _ _ _ HI1) (iv_chain _ _ _ HI1) q r0 Hst b Hbst Hlb) as [Heq | Hp]; [congruence | exact Hp]. }
      split; [exact Hqb |]. split; [intros m Hm; apply Hnown; now rewrite <- Hm3 |].
      intros d Hd. destruct (Hr d Hd) as [H1 | [H1 | H1]].
      * left. now apply (done_eq s1 s3).
      * right; left. exact H1.
      * right; right. now apply (partat_eq s1 s3).
Qed.

End RoundMain.

End Round.

(* Cycle/FreshExamples.v — non-vacuity of the fresh-revision theorem (Cycle/FreshThm.v): a program
   with a 3-node Fixpoint ring over a 2-node joining ring over a plain leaf satisfies every
   hypothesis; runs entered at each member; a nested-cycle program (outside the proved class)
   checked by computation.  vm_compute is used only here. *)
From Coq Require Import PeanoNat.
From Salsa Require Import Base.
From Salsa.Kern Require Import CoreK.
From Salsa.Core Require Spec.
From Salsa.Cycle Require Import StampK Model Spec Cert SpecProofs Examples FreshInv FreshThm.

Definition cinit0 (q : qkey) : val := 0.

(* ring A (family 1, default cycle_fn):   a0 = in(0,0) | a1 | b0 ;  a1 = a2 | 1 ;  a2 = (a0 & 6) | 8
   ring B (family 2, joining cycle_fn):   b0 = b1 | 16 ;  b1 = (b0 & 48) | leaf
   leaf   (family 0, no cycle recovery):  leaf = in(0,1) & 64 *)
Definition exf_prog (q : qkey) : body :=
  if key_eqb q (1, 0) then
    RdIn (0, 0) (fun a => CallQ (1, 1) (fun b => CallQ (2, 0) (fun c => Ret (N.lor a (N.lor b c)))))
  else if key_eqb q (1, 1) then CallQ (1, 2) (fun b => Ret (N.lor b 1))
  else if key_eqb q (1, 2) then CallQ (1, 0) (fun b => Ret (N.lor (N.land b 6) 8))
  else if key_eqb q (2, 0) then CallQ (2, 1) (fun b => Ret (N.lor b 16))
  else if key_eqb q (2, 1) then CallQ (2, 0) (fun b => CallQ (0, 0) (fun c => Ret (N.lor (N.land b 48) c)))
  else if key_eqb q (0, 0) then RdIn (0, 1) (fun a => Ret (N.land a 64))
  else Ret 0.

Definition exf_ns : list qkey := [(1, 0); (1, 1); (1, 2); (2, 0); (2, 1); (0, 0)].
Definition exf_lvl (q : qkey) : nat := match fst q with 1%N => 2%nat | 2%N => 1%nat | _ => 0%nat end.
Definition exf_nxt (q : qkey) : option qkey :=
  if key_eqb q (1, 0) then Some (1, 1)
  else if key_eqb q (1, 1) then Some (1, 2)
  else if key_eqb q (1, 2) then Some (1, 0)
  else if key_eqb q (2, 0) then Some (2, 1)
  else if key_eqb q (2, 1) then Some (2, 0)
  else None.
Definition exf_iv (i : ikey) : val := if key_eqb i (0, 0) then 5 else if key_eqb i (0, 1) then 64 else 0.

Lemma exf_cases (P : qkey -> Prop) :
  P (1, 0) -> P (1, 1) -> P (1, 2) -> P (2, 0) -> P (2, 1) -> P (0, 0) ->
  (forall q, exf_prog q = Ret 0 -> exf_nxt q = None -> P q) -> forall q, P q.
Proof.
  intros H0 H1 H2 H3 H4 H5 Hr q. unfold exf_prog, exf_nxt in Hr.
  destruct (key_eqb_spec q (1, 0)) as [-> | N0]; [exact H0 |].
  destruct (key_eqb_spec q (1, 1)) as [-> | N1]; [exact H1 |].
  destruct (key_eqb_spec q (1, 2)) as [-> | N2]; [exact H2 |].
  destruct (key_eqb_spec q (2, 0)) as [-> | N3]; [exact H3 |].
  destruct (key_eqb_spec q (2, 1)) as [-> | N4]; [exact H4 |].
  destruct (key_eqb_spec q (0, 0)) as [-> | N5]; [exact H5 |].
  apply Hr.
  - apply key_eqb_neq in N0, N1, N2, N3, N4, N5. now rewrite N0, N1, N2, N3, N4, N5.
  - apply key_eqb_neq in N0, N1, N2, N3, N4. now rewrite N0, N1, N2, N3, N4.
Qed.

Example exf_monotone sn : monotone_prog exf_prog sn.
Proof.
  intros q rho rho' Hle. revert q. apply exf_cases; unfold F;
    try (intros q Hq _; rewrite Hq); cbn;
    repeat (first [apply le_bits_refl | apply Hle | apply lor_mono | apply land_mono]).
Qed.

Example exf_fits sn : (forall i, Salsa.Core.Spec.sn_in sn i < 256) -> fits8 exf_prog sn.
Proof.
  intros Hin q rho Hrho. revert q. apply exf_cases; unfold F;
    try (intros q Hq _; rewrite Hq); cbn;
    repeat (first [apply Hin | apply Hrho | apply lor_lt256 | apply land_lt256 | lia]).
Qed.

Example exf_determined sn : input_determined exf_prog sn.
Proof.
  intros q ans. revert q. apply exf_cases; unfold succs; try (intros q Hq _; rewrite Hq); reflexivity.
Qed.

Example exf_ring sn : ring_ok_of exf_prog ex_strat sn exf_ns exf_lvl exf_nxt.
Proof.
  split; [| split; [| split]].
  - intros q d Hq Hd. unfold exf_ns in Hq. cbn [In] in Hq.
    destruct Hq as [<- | [<- | [<- | [<- | [<- | [<- | []]]]]]]; cbn in Hd;
      repeat (destruct Hd as [<- | Hd]; [split; [cbn; tauto | cbn; first [left; lia | right; reflexivity]] |]);
      contradiction.
  - intros q. pattern q. apply exf_cases; try (intros q0 _ Hn d Hd; rewrite Hn in Hd; discriminate);
      intros d Hd; cbn in Hd; first [discriminate Hd | injection Hd as <-; (split; [reflexivity |]);
      split; first [left; reflexivity | right; reflexivity]].
  - intros a. pattern a. apply exf_cases; try (intros a0 _ Hn b c Ha; rewrite Hn in Ha; discriminate);
      intros b; pattern b; apply exf_cases; try (intros b0 _ Hn c _ Hb; rewrite Hn in Hb; discriminate);
      intros c Ha Hb; cbn in Ha, Hb; first [discriminate Ha | discriminate Hb | congruence].
  - intros q. pattern q. apply exf_cases; try (intros q0 _ Hn d Hd; rewrite Hn in Hd; discriminate);
      intros d Hd; cbn in Hd; first [discriminate Hd | injection Hd as <-; cbn; tauto].
Qed.

(* the theorem applies: whatever the entry order, subset or repetition *)
Example exf_fresh : forall (qs : list qkey), (forall q, In q qs -> In q exf_ns) ->
  let sn := csnap_of (cinit_db exf_iv (fun _ => 0)) in
  exists s',
    crun_ops exf_prog ex_strat cinit0 6 6 (cinit_db exf_iv (fun _ => 0)) (map COGet qs)
      = (s', map (fun q => COk (kleene exf_prog sn exf_ns q)) qs) /\
    is_fixpoint_state exf_prog exf_ns s' = true.
Proof.
  intros qs Hqs sn.
  apply (fresh_ring exf_prog ex_strat cinit0 exf_iv (fun _ => 0) exf_ns exf_lvl exf_nxt 6 6 qs).
  - apply exf_monotone.
  - apply exf_fits. intros i. cbn. unfold exf_iv.
    destruct (key_eqb i (0, 0)); [lia |]. destruct (key_eqb i (0, 1)); lia.
  - apply exf_determined.
  - apply exf_ring.
  - reflexivity.
  - lia.
  - cbn. lia.
  - exact Hqs.
Qed.

Definition exf_outs (ops : list cop) : list cout :=
  snd (crun_ops exf_prog ex_strat cinit0 6 6 (cinit_db exf_iv (fun _ => 0)) ops).
Definition exf_sn := csnap_of (cinit_db exf_iv (fun _ => 0)).

(* the least fixpoint of the example *)
Example exf_kleene :
  map (kleene exf_prog exf_sn exf_ns) exf_ns = [93; 13; 12; 80; 80; 64].
Proof. vm_compute. reflexivity. Qed.

(* the 3-node ring entered at each member first (then everything else, with repeats) *)
Example exf_enter_each :
  exf_outs [COGet (1, 0); COGet (1, 1); COGet (1, 2)] = [COk 93; COk 13; COk 12] /\
  exf_outs [COGet (1, 1); COGet (1, 2); COGet (1, 0)] = [COk 13; COk 12; COk 93] /\
  exf_outs [COGet (1, 2); COGet (1, 0); COGet (1, 1)] = [COk 12; COk 93; COk 13] /\
  exf_outs [COGet (2, 1); COGet (1, 2); COGet (0, 0); COGet (2, 0); COGet (1, 2); COGet (1, 0)]
    = [COk 80; COk 12; COk 64; COk 80; COk 12; COk 93].
Proof. vm_compute. repeat split; reflexivity. Qed.

(* nested cycles (outside the class the theorem is proved for): a0 -> a1 -> a0 and a1 -> a2 -> a1;
   checked by computation for every entry point *)
Definition exn_prog (q : qkey) : body :=
  if key_eqb q (1, 0) then RdIn (0, 0) (fun a => CallQ (1, 1) (fun b => Ret (N.lor a b)))
  else if key_eqb q (1, 1) then CallQ (1, 0) (fun a => CallQ (1, 2) (fun b => Ret (N.lor (N.land a 6) b)))
  else if key_eqb q (1, 2) then CallQ (1, 1) (fun a => Ret (N.lor (N.land a 12) 16))
  else Ret 0.
Definition exn_ns : list qkey := [(1, 0); (1, 1); (1, 2)].
Definition exn_outs (ops : list cop) : list cout :=
  snd (crun_ops exn_prog ex_strat cinit0 3 6 (cinit_db exf_iv (fun _ => 0)) ops).

Example exn_nested :
  map (kleene exn_prog exf_sn exn_ns) exn_ns = [21; 20; 20] /\
  exn_outs [COGet (1, 0); COGet (1, 1); COGet (1, 2)] = [COk 21; COk 20; COk 20] /\
  exn_outs [COGet (1, 1); COGet (1, 2); COGet (1, 0)] = [COk 20; COk 20; COk 21] /\
  exn_outs [COGet (1, 2); COGet (1, 0); COGet (1, 1)] = [COk 20; COk 21; COk 20].
Proof. vm_compute. repeat split; reflexivity. Qed.

(* Cycle/HeadExamples.v — head soundness on the nested examples: by the theorem every recorded head
   lies on a cycle of the call graph; by computation heads are recorded on the way. *)
From Coq Require Import PeanoNat Lia.
From Salsa Require Import Base.
From Salsa.Kern Require Import CoreK.
From Salsa.Core Require Import Spec.
From Salsa.Cycle Require Import StampK Model Examples FreshExamples FbExamples HeadInv HeadTop.

Example exc_heads_sound : forall ops,
  Forall (fun r => r <> CFuel) (snd (exc_run ops)) ->
  forall p m, c_memo (fst (exc_run ops)) p = Some m -> cm_val m <> None ->
  forall h, In h (raw_heads m) -> (p = fst h \/ reach exc_prog p (fst h)) /\ reach exc_prog (fst h) (fst h).
Proof.
  intros ops Hall p m Hm Hv.
  exact (proj2 (heads_sound exc_prog ex_strat ex_cinit 3 6 exb_iv (fun _ => 0) ops Hall p m Hm) Hv).
Qed.

(* two fallback cycles through one node, entered at g2: the memos of g0 and g1 (g1 was a nested
   head that became a participant) really record heads; all of them lie on cycles *)
Example exc_heads_recorded :
  let s := fst (exc_run [COGet (3, 2)]) in
  map (fun q => match c_memo s q with Some m => map fst (raw_heads m) | None => [] end) exc_ns
  = [[(3, 1)]; [(3, 1); (3, 2)]; []].
Proof. vm_compute. reflexivity. Qed.

(* nested Fixpoint heads, entered at a2 *)
Example exn_heads_recorded :
  let s := fst (crun_ops exn_prog ex_strat cinit0 3 6 (cinit_db exf_iv (fun _ => 0)) [COGet (1, 2)]) in
  map (fun q => match c_memo s q with Some m => map fst (raw_heads m) | None => [] end) exn_ns
  = [[(1, 1)]; [(1, 1); (1, 2)]; []].
Proof. vm_compute. reflexivity. Qed.

(* Cycle/HeadTop.v — head soundness is an invariant of every run of the Cycle model: all programs,
   strategies and histories.  Every cycle head recorded in a valued memo is a key on a cycle of the
   static call graph that the memo's key can reach; every recorded query edge is a transitive
   callee.  Hence functions from which no cycle can be reached never take part in cycle handling. *)
From Coq Require Import PeanoNat Lia.
From Salsa Require Import Base.
From Salsa.Kern Require Import CoreK.
From Salsa.Core Require Import Spec.
From Salsa.Cycle Require Import StampK Model LockInv LockOps LockFetch LockTop HeadInv HeadOps HeadFetch.

Section Top.
Variable prog : qkey -> body.
Variable strat : N -> strategy.
Variable cinit : qkey -> val.

Definition hidle (s : cdb) : Prop := KH prog [] [] s.

Lemma hidle_init iv idur : hidle (cinit_db iv idur).
Proof. split; [apply idle_init |]. split; [exact I | intros p m Hm; discriminate]. Qed.

Lemma hidle_fields s s' : c_sync s' = c_sync s -> c_qstack s' = c_qstack s -> c_memo s' = c_memo s ->
  hidle s -> hidle s'.
Proof. intros A B C. apply KH_sim; [apply lksim_fields; assumption | exact C]. Qed.

Lemma hidle_new_revision s : hidle s -> hidle (cnew_revision s).
Proof. apply hidle_fields; reflexivity. Qed.
Lemma hidle_zalsa_mut s : hidle s -> hidle (czalsa_mut s).
Proof. unfold czalsa_mut. destruct (c_ccount s =? 255); [apply hidle_new_revision | apply hidle_fields; reflexivity]. Qed.

Lemma hidle_step nodes fuel s o : hidle s ->
  snd (cstep prog strat cinit nodes fuel s o) <> CFuel -> hidle (fst (cstep prog strat cinit nodes fuel s o)).
Proof.
  intros Hi. destruct o as [i v d | d | c v | c v | q |]; cbn [cstep].
  - pose proof (hidle_new_revision _ (hidle_zalsa_mut s Hi)) as H1.
    destruct (f_dur (c_in (cnew_revision (czalsa_mut s)) i) =? D_NEVER); cbn [fst]; intros _; [exact H1 |].
    eapply hidle_fields; [| | | exact H1]; reflexivity.
  - pose proof (hidle_new_revision _ (hidle_zalsa_mut s Hi)) as H1.
    destruct (d =? D_NEVER); cbn [fst]; intros _; [exact H1 |]. eapply hidle_fields; [| | | exact H1]; reflexivity.
  - intros _. cbn [fst]. eapply hidle_fields; [| | | exact Hi]; reflexivity.
  - intros _. cbn [fst]. eapply hidle_fields; [| | | exact Hi]; reflexivity.
  - destruct (clevel_hk prog strat cinit nodes fuel) as [HF HM].
    assert (Hr : req prog [] q) by (intros k r A; discriminate).
    pose proof (cfetch_hk prog strat cinit _ HF HM nodes q [] [] s Hi Hr) as H. unfold awp in H.
    destruct (cfetch prog strat cinit nodes (clevel prog strat cinit nodes fuel) q s) as [s' [[[[v du] ch] hs] | p |]];
      cbn [fst snd]; intros Hne; [exact (proj1 H) | exact H | congruence].
  - intros _. cbn [fst]. apply hidle_zalsa_mut. exact Hi.
Qed.

Theorem hidle_reachable nodes fuel : forall ops s, hidle s ->
  Forall (fun r => r <> CFuel) (snd (crun_ops prog strat cinit nodes fuel s ops)) ->
  hidle (fst (crun_ops prog strat cinit nodes fuel s ops)).
Proof.
  induction ops as [| o ops IH]; intros s Hi Hall; [exact Hi |].
  cbn [crun_ops] in *. pose proof (hidle_step nodes fuel s o Hi) as Hs.
  destruct (cstep prog strat cinit nodes fuel s o) as [s1 r]. cbn [fst snd] in Hs.
  specialize (IH s1).
  destruct (crun_ops prog strat cinit nodes fuel s1 ops) as [s2 rs]. cbn [fst snd] in *.
  inversion Hall as [| ? ? Hr Hrs]; subst. apply IH; [apply Hs; exact Hr | exact Hrs].
Qed.

(* the invariant in plain terms, at every reachable state *)
Theorem heads_sound nodes fuel iv idur ops :
  let s := fst (crun_ops prog strat cinit nodes fuel (cinit_db iv idur) ops) in
  Forall (fun r => r <> CFuel) (snd (crun_ops prog strat cinit nodes fuel (cinit_db iv idur) ops)) ->
  forall p m, c_memo s p = Some m ->
    (forall d, In (EQ d) (cm_edges m) -> reach prog p d) /\
    (cm_val m <> None -> forall h, In h (raw_heads m) ->
       (p = fst h \/ reach prog p (fst h)) /\ reach prog (fst h) (fst h)).
Proof.
  intros s Hall p m Hm.
  pose proof (hidle_reachable nodes fuel ops _ (hidle_init iv idur) Hall) as (_ & _ & HM).
  exact (HM p m Hm).
Qed.

(* a function from which no cycle of the call graph can be reached never records a cycle head:
   it is never a cycle participant, never a head, never provisional *)
Corollary no_cycle_no_heads nodes fuel iv idur ops p :
  (forall h, p = h \/ reach prog p h -> ~ reach prog h h) ->
  let s := fst (crun_ops prog strat cinit nodes fuel (cinit_db iv idur) ops) in
  Forall (fun r => r <> CFuel) (snd (crun_ops prog strat cinit nodes fuel (cinit_db iv idur) ops)) ->
  forall m, c_memo s p = Some m -> cm_val m <> None -> raw_heads m = [] /\ heads_of m = [].
Proof.
  intros Hac s Hall m Hm Hv.
  destruct (heads_sound nodes fuel iv idur ops Hall p m Hm) as [_ Hh].
  assert (Hr : raw_heads m = []).
  { destruct (raw_heads m) as [| h hs] eqn:E; [reflexivity |]. exfalso.
    destruct (Hh Hv h (or_introl eq_refl)) as [A B]. exact (Hac (fst h) A B). }
  split; [exact Hr |]. unfold heads_of. rewrite Hr. destruct (cm_final m); reflexivity.
Qed.

End Top.

(* Cycle/EpochOps.v — every step of the Cycle model preserves the epoch invariant (Cycle/EpochInv.v),
   whatever its outcome (value, panic, out-of-fuel). *)
From Coq Require Import PeanoNat.
From Salsa Require Import Base.
From Salsa.gen Require Import Kernels.
From Salsa.Kern Require Import CoreK K4_Stamp.
From Salsa.Cycle Require Import StampK Model ModelProofs EpochInv.

(* ---------------------------------------------------------------- a wp for all outcomes *)
Section Wp.
Context {E : ectx}.

(* from reference state s0: the invariant holds afterwards, the state extends s0, and a value
   satisfies R *)
Definition gwp {A} (s0 : cdb) (m : CM A) (R : cdb -> A -> Prop) (s : cdb) : Prop :=
  SI (fst (m s)) /\ ext s0 (fst (m s)) /\ forall a, snd (m s) = COk a -> R (fst (m s)) a.

Lemma gwp_ret {A} s0 (a : A) (R : cdb -> A -> Prop) s : SI s -> ext s0 s -> R s a -> gwp s0 (cret a) R s.
Proof. intros H1 H2 H3. split; [exact H1 |]. split; [exact H2 |]. intros a' Ha. injection Ha as <-. exact H3. Qed.

Lemma gwp_fail {A} s0 p (R : cdb -> A -> Prop) s : SI s -> ext s0 s -> gwp s0 (cfail p) R s.
Proof. intros H1 H2. split; [exact H1 |]. split; [exact H2 |]. intros a Ha. discriminate. Qed.

Lemma gwp_nofuel {A} s0 (R : cdb -> A -> Prop) s : SI s -> ext s0 s -> gwp s0 cnofuel R s.
Proof. intros H1 H2. split; [exact H1 |]. split; [exact H2 |]. intros a Ha. discriminate. Qed.

Lemma gwp_bind {A B} s0 (m : CM A) (f : A -> CM B) (R1 : cdb -> A -> Prop) (R : cdb -> B -> Prop) s :
  gwp s0 m R1 s ->
  (forall s1 a, SI s1 -> ext s0 s1 -> R1 s1 a -> gwp s0 (f a) R s1) ->
  gwp s0 (cbind m f) R s.
Proof.
  unfold gwp, cbind. intros (H1 & H2 & H3) Hf. destruct (m s) as [s1 [a | p |]]; cbn [fst snd] in *.
  - apply (Hf s1 a H1 H2 (H3 a eq_refl)).
  - split; [exact H1 |]. split; [exact H2 |]. intros b Hb. discriminate.
  - split; [exact H1 |]. split; [exact H2 |]. intros b Hb. discriminate.
Qed.

Lemma gwp_get s0 (R : cdb -> cdb -> Prop) s : SI s -> ext s0 s -> R s s -> gwp s0 cget R s.
Proof. intros H1 H2 H3. split; [exact H1 |]. split; [exact H2 |]. intros a Ha. injection Ha as <-. exact H3. Qed.

Lemma gwp_modify s0 f (R : cdb -> unit -> Prop) s : SI (f s) -> ext s0 (f s) -> R (f s) tt -> gwp s0 (cmodify f) R s.
Proof. intros H1 H2 H3. split; [exact H1 |]. split; [exact H2 |]. intros a Ha. injection Ha as <-. exact H3. Qed.

Lemma gwp_bind_get {B} s0 (f : cdb -> CM B) (R : cdb -> B -> Prop) s :
  gwp s0 (f s) R s -> gwp s0 (cbind cget f) R s.
Proof. intros H. exact H. Qed.

Lemma gwp_bind_modify {B} s0 g (f : unit -> CM B) (R : cdb -> B -> Prop) s :
  gwp s0 (f tt) R (g s) -> gwp s0 (cbind (cmodify g) f) R s.
Proof. intros H. exact H. Qed.

Lemma gwp_conseq {A} s0 (m : CM A) (R R' : cdb -> A -> Prop) s :
  gwp s0 m R s -> (forall s' a, SI s' -> ext s0 s' -> R s' a -> R' s' a) -> gwp s0 m R' s.
Proof.
  intros (H1 & H2 & H3) HR. split; [exact H1 |]. split; [exact H2 |]. intros a Ha. apply HR; auto.
Qed.

Lemma gwp_on_panic {A} s0 (m : CM A) h (R : cdb -> A -> Prop) s :
  gwp s0 m R s ->
  (forall s1, SI s1 -> ext s0 s1 -> SI (fst (h s1)) /\ ext s0 (fst (h s1))) ->
  gwp s0 (on_panic m h) R s.
Proof.
  unfold gwp, on_panic. intros (H1 & H2 & H3) Hh. destruct (m s) as [s1 [a | p |]]; cbn [fst snd] in *.
  - split; [exact H1 |]. split; [exact H2 | exact H3].
  - destruct (Hh s1 H1 H2) as [H4 H5]. split; [exact H4 |]. split; [exact H5 |]. intros b Hb. discriminate.
  - split; [exact H1 |]. split; [exact H2 |]. intros b Hb. discriminate.
Qed.

(* changing the reference state *)
Lemma gwp_ref {A} s0 s0' (m : CM A) (R : cdb -> A -> Prop) s :
  ext s0' s0 -> gwp s0 m R s -> gwp s0' m R s.
Proof.
  intros He (H1 & H2 & H3). split; [exact H1 |]. split; [eapply ext_trans; eassumption | exact H3].
Qed.

(* ---------------------------------------------------------------- steps outside the memo table *)
Definition corep {A} (m : CM A) : Prop := forall s, same_core s (fst (m s)).

Lemma corep_ret {A} (a : A) : corep (cret a).
Proof. intros s. apply same_core_refl. Qed.
Lemma corep_fail {A} p : corep (@cfail A p).
Proof. intros s. apply same_core_refl. Qed.
Lemma corep_get : corep cget.
Proof. intros s. apply same_core_refl. Qed.
Lemma corep_bind {A B} (m : CM A) (f : A -> CM B) : corep m -> (forall a, corep (f a)) -> corep (cbind m f).
Proof.
  intros Hm Hf s. unfold cbind. specialize (Hm s). destruct (m s) as [s1 [a | p |]]; cbn [fst] in *; try exact Hm.
  eapply same_core_trans; [exact Hm | apply Hf].
Qed.
Lemma corep_modify f : (forall s, same_core s (f s)) -> corep (cmodify f).
Proof. intros H s. apply H. Qed.

Lemma gwp_corep {A} s0 (m : CM A) s : corep m -> SI s -> ext s0 s ->
  gwp s0 m (fun s' _ => same_core s s') s.
Proof.
  intros Hc HS He. destruct (same_core_SI s _ (Hc s) HS) as [H1 H2].
  split; [exact H1 |]. split; [eapply ext_trans; eassumption |]. intros a _. apply Hc.
Qed.

Lemma gwp_corep_res {A} s0 (m : CM A) (P : A -> Prop) s : corep m -> SI s -> ext s0 s ->
  (forall a, snd (m s) = COk a -> P a) ->
  gwp s0 m (fun s' a => same_core s s' /\ P a) s.
Proof.
  intros Hc HS He HP. destruct (same_core_SI s _ (Hc s) HS) as [H1 H2].
  split; [exact H1 |]. split; [eapply ext_trans; eassumption |]. intros a Ha. split; [apply Hc | now apply HP].
Qed.

Lemma corep_set_sync q y : corep (set_sync q y).
Proof. apply corep_modify. intros s. now repeat split. Qed.

Lemma corep_try_claim q allow : corep (try_claim q allow).
Proof.
  unfold try_claim. apply corep_bind; [apply corep_get |]. intros s.
  destruct (c_sync s q) as [y |].
  - destruct (sy_trans y).
    + destruct (trans_get (c_trans s) q).
      * destruct allow; [| apply corep_ret]. destruct (sy_twice y); [apply corep_fail |].
        apply corep_bind; [apply corep_set_sync | intros; apply corep_ret].
      * apply corep_bind; [apply corep_set_sync | intros; apply corep_ret].
    + apply corep_bind; [apply corep_set_sync | intros; apply corep_ret].
  - apply corep_bind; [apply corep_set_sync | intros; apply corep_ret].
Qed.

Lemma corep_peek_claim q : corep (peek_claim q).
Proof.
  unfold peek_claim. apply corep_bind; [apply corep_get |]. intros s.
  destruct (c_sync s q) as [y |]; [| apply corep_ret].
  destruct (sy_trans y).
  - destruct (trans_get (c_trans s) q); apply corep_ret.
  - apply corep_bind; [apply corep_set_sync | intros; apply corep_ret].
Qed.

Lemma corep_release_state q y : corep (release_state q y).
Proof.
  unfold release_state. destruct (sy_wait y); [| apply corep_ret].
  apply corep_bind.
  - destruct (sy_twice y); [apply corep_modify; intros s; now repeat split | apply corep_ret].
  - intros _. destruct (sy_target y); [apply corep_modify; intros s; now repeat split | apply corep_ret].
Qed.

Lemma corep_release_default q : corep (release_default q).
Proof.
  unfold release_default. apply corep_bind; [apply corep_get |]. intros s.
  destruct (c_sync s q) as [y |]; [| apply corep_fail].
  apply corep_bind; [apply corep_set_sync | intros; apply corep_release_state].
Qed.

Lemma corep_release_self q : corep (release_self q).
Proof.
  unfold release_self. apply corep_bind; [apply corep_get |]. intros s.
  destruct (c_sync s q) as [y |]; [| apply corep_fail].
  destruct (sy_twice y); [apply corep_set_sync |].
  apply corep_bind; [apply corep_set_sync | intros; apply corep_release_state].
Qed.

Lemma corep_transfer q o : corep (transfer q o).
Proof.
  unfold transfer. apply corep_bind; [apply corep_get |]. intros s.
  destruct (c_sync s o) as [yo |].
  - apply corep_bind; [apply corep_set_sync |]. intros _.
    apply corep_bind; [apply corep_get |]. intros s1.
    destruct (c_sync s1 q) as [y |]; [| apply corep_fail].
    apply corep_bind; [apply corep_set_sync |]. intros _.
    destruct (sy_trans yo && match trans_get (c_trans s1) o with None => true | Some _ => false end);
      [apply corep_fail | apply corep_modify; intros s2; now repeat split].
  - apply corep_bind; [apply corep_release_default | intros; apply corep_fail].
Qed.

Lemma corep_drop_guard q m : corep (drop_guard q m).
Proof. destruct m; [apply corep_release_default | apply corep_release_self | apply corep_transfer]. Qed.

Lemma core_release_panicking q s : same_core s (fst (release_panicking q s)).
Proof.
  unfold release_panicking. destruct (c_sync s q) as [y |]; [| apply same_core_refl].
  apply (corep_bind (set_sync q None) (fun _ => release_state q y)); [apply corep_set_sync | intros; apply corep_release_state].
Qed.

Lemma corep_push q : corep (push_query q).
Proof. apply corep_modify. intros s. now repeat split. Qed.
Lemma corep_pop : corep pop_query.
Proof. apply corep_modify. intros s. now repeat split. Qed.
Lemma corep_emit e : corep (cemit e).
Proof. apply corep_modify. intros s. now repeat split. Qed.

End Wp.

(* ---------------------------------------------------------------- steps that write memos *)
Section Memo.
Context {E : ectx}.
Notation prog := (@eprog E).
Notation strat := (@estrat E).
Notation cinit := (@ecinit E).

Lemma gwp_put s0 q m (R : cdb -> unit -> Prop) s :
  SI s -> ext s0 s -> stamp_wf (iter_of m) -> cm_verified m <= ccur s ->
  (cm_final m = false -> cm_verified m = ccur s -> stamp_ccount (iter_of m) <= c_ccount s) ->
  (cm_final m = false -> raw_heads m <> []) ->
  (cur_memo s m -> cm_final m = false -> heads_ok (put s q m) (raw_heads m)) ->
  (rcv q -> head_memo_ok s m) ->
  R (put s q m) tt -> gwp s0 (put_memo q m) R s.
Proof.
  intros HS He H1 H2 H3 H4 H4' H5 HR. destruct (put_SI s q m HS H1 H2 H3 H4 H4' H5) as [HS' He'].
  unfold put_memo. apply gwp_modify; [exact HS' | eapply ext_trans; eassumption | exact HR].
Qed.

(* putting a final memo *)
Lemma gwp_put_final s0 q m (R : cdb -> unit -> Prop) s :
  SI s -> ext s0 s -> cm_final m = true -> stamp_wf (iter_of m) -> cm_verified m <= ccur s ->
  R (put s q m) tt -> gwp s0 (put_memo q m) R s.
Proof.
  intros HS He Hf Hw Hv HR. apply gwp_put; try assumption.
  - intros H. congruence.
  - intros H. congruence.
  - intros _ H. congruence.
  - intros _. now left.
Qed.

Lemma iter_of_with_verified m r : iter_of (with_verified m r) = iter_of m.
Proof. reflexivity. Qed.
Lemma iter_of_with_final m b : iter_of (with_final m b) = iter_of m.
Proof. reflexivity. Qed.

Lemma same_core_cur s s' : same_core s s' -> ccur s' = ccur s /\ c_ccount s' = c_ccount s.
Proof. intros (_ & Hr & Hc). unfold ccur. now rewrite Hr. Qed.

Lemma gwp_mark_verified s0 q m s :
  SI s -> ext s0 s -> cm_final m = true -> stamp_wf (iter_of m) ->
  gwp s0 (cmark_verified q m) (fun s' m' => cm_final m' = true /\ stamp_wf (iter_of m')) s.
Proof.
  intros HS He Hf Hw. unfold cmark_verified. apply gwp_bind_get.
  unfold cemit. apply gwp_bind_modify.
  set (s2 := cset_log s _).
  assert (Hc2 : same_core s s2) by (now repeat split).
  destruct (same_core_SI s s2 Hc2 HS) as [HS2 He2'].
  assert (He2 : ext s0 s2) by (eapply ext_trans; eassumption).
  eapply gwp_bind.
  { apply (gwp_put_final s0 q (with_verified m (ccur s)) (fun _ _ => True) s2 HS2 He2 Hf Hw); [| exact I].
    cbn. apply N.le_refl. }
  intros s3 [] HS3 He3 _. apply gwp_ret; [exact HS3 | exact He3 |]. now split.
Qed.

Lemma gwp_update_shallow s0 q m u s :
  SI s -> ext s0 s -> cm_final m = true -> stamp_wf (iter_of m) ->
  gwp s0 (cupdate_shallow q m u) (fun s' m' => cm_final m' = true /\ stamp_wf (iter_of m')) s.
Proof.
  intros HS He Hf Hw. destruct u; cbn [cupdate_shallow].
  - apply gwp_ret; [exact HS | exact He | now split].
  - now apply gwp_mark_verified.
  - apply gwp_ret; [exact HS | exact He | now split].
Qed.

Lemma corep_same_iteration_heads ver hs : corep (same_iteration_heads ver hs).
Proof.
  induction hs as [| h hs IH]; cbn [same_iteration_heads]; [apply corep_ret |].
  apply corep_bind; [apply corep_peek_claim |]. intros pk. destruct pk; [apply corep_ret |].
  apply corep_bind; [apply corep_get |]. intros s.
  destruct (key_status s (fst h)) as [[it v hs' | it v | it v] |]; try apply corep_fail.
  - destruct (negb (v =? ver)); [apply corep_ret |]. destruct (negb (snd h =? it)); [apply corep_ret | exact IH].
  - destruct ((v =? ccur s) && (stamp_ccount it =? c_ccount s)); [apply corep_fail | apply corep_ret].
  - destruct (negb (v =? ver)); [apply corep_ret |]. destruct (negb (snd h =? it)); [apply corep_ret | exact IH].
Qed.

Lemma corep_vsi q m : corep (validate_same_iteration q m).
Proof.
  unfold validate_same_iteration. apply corep_bind; [apply corep_get |]. intros s.
  destruct (negb (cm_verified m =? ccur s)); [apply corep_ret |].
  destruct (heads_not_eq (heads_of m) q); [apply corep_ret | apply corep_same_iteration_heads].
Qed.

Lemma vsi_true q m s : snd (validate_same_iteration q m s) = COk true -> cm_verified m = ccur s.
Proof.
  unfold validate_same_iteration, cbind, cget. destruct (N.eqb_spec (cm_verified m) (ccur s)) as [He | Hne]; [intros _; exact He |].
  cbn. intros H. discriminate.
Qed.

Lemma heads_of_final m : cm_final m = true -> heads_of m = [].
Proof. intros H. unfold heads_of. now rewrite H. Qed.
Lemma heads_of_prov m : cm_final m = false -> heads_of m = raw_heads m.
Proof. intros H. unfold heads_of. now rewrite H. Qed.

Lemma heads_ok_nil s : heads_ok s [].
Proof. intros hd []. Qed.

Lemma gwp_validate_provisional s0 q m s :
  SI s -> ext s0 s -> stamp_wf (iter_of m) -> cm_verified m <= ccur s ->
  gwp s0 (validate_provisional q m)
      (fun s' r => stamp_wf (iter_of (snd r)) /\ cm_verified (snd r) = cm_verified m /\
                   (fst r = true -> cm_final (snd r) = true) /\ (fst r = false -> snd r = m)) s.
Proof.
  intros HS He Hw Hv. unfold validate_provisional. apply gwp_bind_get.
  destruct (heads_all_final s (cm_verified m) (heads_of m)).
  - eapply gwp_bind.
    { apply (gwp_put_final s0 q (with_final m true) (fun _ _ => True) s HS He); try reflexivity; assumption || exact I. }
    intros s2 [] HS2 He2 _. apply gwp_ret; [exact HS2 | exact He2 |]. cbn.
    split; [exact Hw |]. split; [reflexivity |]. split; [reflexivity | discriminate].
  - apply gwp_ret; [exact HS | exact He |]. cbn.
    split; [exact Hw |]. split; [reflexivity |]. split; [discriminate | reflexivity].
Qed.

(* what the table guarantees about a memo read from it *)
Definition tbl_memo (s : cdb) (m : cmemo) : Prop :=
  stamp_wf (iter_of m) /\ cm_verified m <= ccur s /\ (cm_final m = false -> raw_heads m <> []) /\
  (cur_memo s m -> cm_final m = false -> heads_ok s (raw_heads m)).

Lemma tbl_memo_of s q m : SI s -> c_memo s q = Some m -> tbl_memo s m.
Proof.
  intros [_ H] Hm. destruct (H q m Hm) as [H1 H2 H3 H4 H5].
  split; [exact H1 |]. split; [exact H2 |]. split; [exact H4 | exact H5].
Qed.

Lemma gwp_vmbp s0 q m s :
  SI s -> ext s0 s -> tbl_memo s m ->
  gwp s0 (validate_may_be_provisional q m)
      (fun s' r => stamp_wf (iter_of (snd r)) /\ cm_verified (snd r) = cm_verified m /\
                   (fst r = true -> heads_ok s' (heads_of (snd r)) /\
                                    (cm_final (snd r) = true \/ cm_verified (snd r) = ccur s')) /\
                   (fst r = false -> snd r = m)) s.
Proof.
  intros HS He0 (Hw & Hv & Hne & Hh). apply (gwp_ref s s0 _ _ _ He0). assert (He := ext_refl s).
  unfold validate_may_be_provisional.
  destruct (cm_final m) eqn:Hf.
  { apply gwp_ret; [exact HS | exact He |]. cbn. split; [exact Hw |]. split; [reflexivity |]. split; [| discriminate].
    intros _. split; [rewrite (heads_of_final m Hf); apply heads_ok_nil | now left]. }
  rewrite (heads_of_prov m Hf). destruct (raw_heads m) as [| h0 hs0] eqn:Hrh; [now destruct (Hne eq_refl) |].
  apply gwp_bind_get.
  destruct (N.eqb_spec (stamp_ccount (iter_of m)) (c_ccount s)) as [Hcc | Hcc]; cbn [negb].
  2: { apply gwp_ret; [exact HS | exact He |]. cbn. split; [exact Hw |]. split; [reflexivity |]. split; [discriminate | reflexivity]. }
  eapply gwp_bind; [apply (gwp_validate_provisional s q m s HS He Hw Hv) |].
  intros s1 [b m1] HS1 He1 (Hw1 & Hv1 & Ht1 & Hf1). cbn [fst snd] in *.
  destruct b.
  - apply gwp_ret; [exact HS1 | exact He1 |]. cbn. split; [exact Hw1 |]. split; [exact Hv1 |]. split; [| discriminate].
    intros _. specialize (Ht1 eq_refl). split; [rewrite (heads_of_final m1 Ht1); apply heads_ok_nil | now left].
  - specialize (Hf1 eq_refl). subst m1.
    eapply gwp_bind.
    { apply (gwp_corep_res s (validate_same_iteration q m) (fun b => b = true -> cm_verified m = ccur s1) s1
               (corep_vsi q m) HS1 He1).
      intros b Hb ->. now apply (vsi_true q m s1). }
    intros s2 b HS2 He2 (Hc2 & Hb). apply gwp_ret; [exact HS2 | exact He2 |]. cbn [fst snd].
    split; [exact Hw |]. split; [reflexivity |]. split; [| reflexivity]. intros ->. specialize (Hb eq_refl).
    destruct (same_core_cur _ _ Hc2) as [Hcur2 Hcc2].
    assert (Hcur1 : ccur s1 = ccur s) by apply He1.
    split; [| right; congruence].
    rewrite (heads_of_prov m Hf), Hrh. apply (heads_ok_ext s s2 _ He2). apply Hh; [| reflexivity].
    split; [congruence | exact Hcc].
Qed.

(* ---------------------------------------------------------------- given the lower level *)
Definition Lfetch_ok (L : clower) : Prop :=
  forall s0 q s, SI s -> ext s0 s -> gwp s0 (cl_fetch L q) (fun s' r => heads_ok s' (snd r)) s.
Definition Lmca_ok (L : clower) : Prop :=
  forall s0 q since s, SI s -> ext s0 s -> gwp s0 (cl_mca L q since) (fun _ _ => True) s.

Section Lower.
Variable L : clower.
Hypothesis HLf : Lfetch_ok L.
Hypothesis HLm : Lmca_ok L.

Lemma gwp_walk_edges s0 es since : forall s, SI s -> ext s0 s ->
  gwp s0 (cwalk_edges L es since) (fun _ _ => True) s.
Proof.
  induction es as [| e es IH]; intros s HS He; cbn [cwalk_edges].
  - apply gwp_ret; [exact HS | exact He | exact I].
  - destruct e as [i | q].
    + apply gwp_bind_get. destruct (changed_after (f_changed (c_in s i)) since).
      * apply gwp_ret; [exact HS | exact He | exact I].
      * now apply IH.
    + eapply gwp_bind; [apply (HLm s0 q since s HS He) |]. intros s1 c HS1 He1 _.
      destruct c; [apply gwp_ret; [exact HS1 | exact He1 | exact I] | now apply IH].
Qed.

Lemma gwp_deep_verify s0 q m s :
  SI s -> ext s0 s -> stamp_wf (iter_of m) ->
  gwp s0 (cdeep_verify strat L q m)
      (fun s' r => stamp_wf (iter_of (snd r)) /\ (fst r = true -> cm_final (snd r) = true)) s.
Proof.
  intros HS He Hw. unfold cdeep_verify.
  assert (Hno : gwp s0 (cret (false, m))
                  (fun s' r => stamp_wf (iter_of (snd r)) /\ (fst r = true -> cm_final (snd r) = true)) s).
  { apply gwp_ret; [exact HS | exact He |]. cbn. split; [exact Hw | discriminate]. }
  destruct (cm_untracked m); [exact Hno |].
  destruct (cm_final m) eqn:Hf; cbn [negb]; [| exact Hno].
  destruct (negb (recovers (strat_of strat q)) && negb match raw_heads m with [] => true | _ :: _ => false end); [exact Hno |].
  eapply gwp_bind; [apply (gwp_walk_edges s0 (cm_edges m) (cm_verified m) s HS He) |].
  intros s1 c HS1 He1 _. destruct c.
  - apply gwp_ret; [exact HS1 | exact He1 |]. cbn. split; [exact Hw | discriminate].
  - eapply gwp_bind; [apply (gwp_mark_verified s0 q m s1 HS1 He1 Hf Hw) |].
    intros s2 m' HS2 He2 (Hf' & Hw'). apply gwp_ret; [exact HS2 | exact He2 |]. cbn. now split.
Qed.

Lemma shallow_higher s m : cshallow_verify s m = CShHigher -> cm_verified m <> ccur s.
Proof.
  unfold cshallow_verify. destruct (N.eqb_spec (cm_verified m) (ccur s)) as [He | Hne]; [discriminate | intros _; exact Hne].
Qed.

Lemma gwp_upd_sh s0 q m1 u s :
  SI s -> ext s0 s -> stamp_wf (iter_of m1) -> heads_ok s (heads_of m1) ->
  (u = CShHigher -> cm_final m1 = true) ->
  gwp s0 (cupdate_shallow q m1 u) (fun s' m' => stamp_wf (iter_of m') /\ heads_ok s' (heads_of m')) s.
Proof.
  intros HS He Hw Hh Hu. destruct u; cbn [cupdate_shallow].
  - apply gwp_ret; [exact HS | exact He | now split].
  - eapply gwp_conseq; [apply (gwp_mark_verified s0 q m1 s HS He (Hu eq_refl) Hw) |].
    intros s' m' _ _ (Hf & Hw'). split; [exact Hw' |]. rewrite (heads_of_final _ Hf). apply heads_ok_nil.
  - apply gwp_ret; [exact HS | exact He | now split].
Qed.

Lemma gwp_verify_memo s0 q m s :
  SI s -> ext s0 s -> tbl_memo s m ->
  gwp s0 (cverify_memo strat L q m)
      (fun s' r => stamp_wf (iter_of (snd r)) /\ (fst r = true -> heads_ok s' (heads_of (snd r)))) s.
Proof.
  intros HS He0 Ht. apply (gwp_ref s s0 _ _ _ He0). assert (He := ext_refl s).
  assert (Hw : stamp_wf (iter_of m)) by apply Ht.
  unfold cverify_memo. apply gwp_bind_get.
  assert (Hdeep : forall s1 m1, SI s1 -> ext s s1 -> stamp_wf (iter_of m1) ->
            gwp s (cdeep_verify strat L q m1)
              (fun s' r => stamp_wf (iter_of (snd r)) /\ (fst r = true -> heads_ok s' (heads_of (snd r)))) s1).
  { intros s1 m1 HS1 He1 Hw1. eapply gwp_conseq; [apply (gwp_deep_verify s q m1 s1 HS1 He1 Hw1) |].
    intros s' r _ _ (H1 & H2). split; [exact H1 |]. intros Hb. rewrite (heads_of_final _ (H2 Hb)). apply heads_ok_nil. }
  assert (Hval : forall u, (u = CShHigher -> cm_verified m <> ccur s) ->
            gwp s (r <- validate_may_be_provisional q m ;;
                   if fst r then m' <- cupdate_shallow q (snd r) u ;; cret (true, m')
                   else cdeep_verify strat L q (snd r))
              (fun s' r => stamp_wf (iter_of (snd r)) /\ (fst r = true -> heads_ok s' (heads_of (snd r)))) s).
  { intros u Hu. eapply gwp_bind; [apply (gwp_vmbp s q m s HS He Ht) |].
    intros s1 [b m1] HS1 He1 (Hw1 & Hv1 & Ht1 & Hf1). cbn [fst snd] in *. destruct b.
    - destruct (Ht1 eq_refl) as [Hh1 Hk1].
      eapply gwp_bind.
      { apply (gwp_upd_sh s q m1 u s1 HS1 He1 Hw1 Hh1). intros ->.
        destruct Hk1 as [Hk1 | Hk1]; [exact Hk1 |]. exfalso. apply (Hu eq_refl).
        rewrite <- Hv1, Hk1. apply He1. }
      intros s2 m2 HS2 He2 (Hw2 & Hh2). apply gwp_ret; [exact HS2 | exact He2 |]. cbn. now split.
    - apply Hdeep; assumption. }
  destruct (cshallow_verify s m) eqn:Hsh.
  - apply Hval. discriminate.
  - apply Hval. intros _. now apply shallow_higher.
  - now apply Hdeep.
Qed.

Lemma gwp_fetch_hot s0 q s :
  SI s -> ext s0 s ->
  gwp s0 (cfetch_hot q) (fun s' r => forall m, r = Some m -> stamp_wf (iter_of m) /\ cm_final m = true) s.
Proof.
  intros HS He. unfold cfetch_hot. apply gwp_bind_get.
  assert (Hnone : gwp s0 (cret None)
                    (fun s' r => forall m, r = Some m -> stamp_wf (iter_of m) /\ cm_final m = true) s).
  { apply gwp_ret; [exact HS | exact He |]. intros m Hm. discriminate. }
  destruct (c_memo s q) as [m |] eqn:Hm; [| exact Hnone].
  destruct (cm_val m); [| exact Hnone].
  assert (Hw : stamp_wf (iter_of m)) by apply (tbl_memo_of s q m HS Hm).
  destruct (cshallow_verify s m); try exact Hnone; (destruct (cm_final m) eqn:Hf; [| exact Hnone]).
  - eapply gwp_bind; [apply (gwp_update_shallow s0 q m CShVerified s HS He Hf Hw) |].
    intros s1 m' HS1 He1 (Hf' & Hw'). apply gwp_ret; [exact HS1 | exact He1 |].
    intros m0 Hm0. injection Hm0 as <-. now split.
  - eapply gwp_bind; [apply (gwp_update_shallow s0 q m CShHigher s HS He Hf Hw) |].
    intros s1 m' HS1 He1 (Hf' & Hw'). apply gwp_ret; [exact HS1 | exact He1 |].
    intros m0 Hm0. injection Hm0 as <-. now split.
Qed.

(* ---------------------------------------------------------------- running a body *)
Lemma heads_insert_incl hs q it hs' : heads_insert hs q it = Some hs' ->
  forall x, In x hs' -> In x hs \/ x = (q, it).
Proof.
  unfold heads_insert. destruct (heads_find hs q) as [it' |].
  - destruct (it' =? it); [| discriminate]. intros H. injection H as <-. intros x Hx. now left.
  - intros H. injection H as <-. intros x Hx. apply in_app_or in Hx as [Hx | [<- | []]]; [now left | now right].
Qed.

Lemma heads_extend_incl other : forall hs hs', heads_extend hs other = Some hs' ->
  forall x, In x hs' -> In x hs \/ In x other.
Proof.
  induction other as [| h o IH]; intros hs hs' H x Hx; cbn [heads_extend] in H.
  - injection H as <-. now left.
  - destruct (heads_insert hs (fst h) (snd h)) as [hs1 |] eqn:Hi; [| discriminate].
    destruct (IH hs1 hs' H x Hx) as [H1 | H1]; [| right; now right].
    destruct (heads_insert_incl _ _ _ _ Hi x H1) as [H2 | H2]; [now left |].
    right; left. destruct h. exact (eq_sym H2).
Qed.

Lemma gwp_run_body : forall b s0 fr s, SI s -> ext s0 s -> heads_ok s (fr_heads fr) ->
  gwp s0 (crun_body L b fr) (fun s' r => heads_ok s' (fr_heads (snd r))) s.
Proof.
  induction b as [v | i k IH | d k IH | c k IH | k IH | c k IH]; intros s0 fr s HS He0 Hfr;
    apply (gwp_ref s s0 _ _ _ He0); assert (He := ext_refl s); cbn [crun_body].
  - apply gwp_ret; [exact HS | exact He | exact Hfr].
  - apply gwp_bind_get. apply IH; [exact HS | exact He | exact Hfr].
  - eapply gwp_bind; [apply (HLf s d s HS He) |].
    intros s1 [[[v du] ch] hs] HS1 He1 Hhs. cbn [snd] in Hhs.
    destruct (cadd_read fr (EQ d) du ch hs) as [fr' |] eqn:Hadd; [| apply gwp_fail; assumption].
    apply IH; [exact HS1 | exact He1 |].
    unfold cadd_read in Hadd. destruct (heads_extend (fr_heads fr) hs) as [hs' |] eqn:Hx; [| discriminate].
    injection Hadd as <-. cbn [fr_heads]. intros x Hxin.
    destruct (heads_extend_incl _ _ _ Hx x Hxin) as [H1 | H1].
    + apply (hd_ok_ext s s1 x He1), Hfr, H1.
    + now apply Hhs.
  - apply gwp_bind_get. apply IH; [exact HS | exact He | exact Hfr].
  - apply gwp_bind_get. apply IH; [exact HS | exact He | exact Hfr].
  - apply gwp_bind_get. destruct (c_pcell s c =? 0); [apply IH; [exact HS | exact He | exact Hfr] | apply gwp_fail; assumption].
Qed.

Lemma gwp_run_query s0 q seed s : SI s -> ext s0 s ->
  gwp s0 (run_query prog L q seed) (fun s' r => heads_ok s' (fr_heads (snd r))) s.
Proof.
  intros HS He. unfold run_query. apply gwp_bind_get.
  unfold push_query. apply gwp_bind_modify. apply gwp_bind_modify.
  set (s1 := cset_runs _ _).
  assert (Hc1 : same_core s s1) by (now repeat split).
  destruct (same_core_SI s s1 Hc1 HS) as [HS1 He1'].
  assert (He1 : ext s0 s1) by (eapply ext_trans; eassumption).
  apply gwp_on_panic.
  - apply gwp_run_body; [exact HS1 | exact He1 |].
    destruct seed as [m |]; [destruct (negb (cm_final m) && (cm_verified m =? ccur s)) |]; apply heads_ok_nil.
  - intros s2 HS2 He2. destruct (same_core_SI s2 _ (corep_pop s2) HS2) as [H1 H2].
    split; [exact H1 | eapply ext_trans; eassumption].
Qed.

End Lower.

End Memo.

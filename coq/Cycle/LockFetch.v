(* Cycle/LockFetch.v — every level function of the Cycle model keeps the claim invariant: whatever
   the program, the strategies, the memo table and the outcome (value or panic), a fetch or a
   maybe_changed_after leaves exactly the claims and the query stack it found. *)
From Coq Require Import PeanoNat Lia.
From Salsa Require Import Base.
From Salsa.Kern Require Import CoreK.
From Salsa.Cycle Require Import StampK Model LockInv LockOps.

Section Fetch.
Variable prog : qkey -> body.
Variable strat : N -> strategy.
Variable cinit : qkey -> val.

(* ---------------------------------------------------------------- lock-silent pieces *)
Lemma lks_mark_verified q m : lks (cmark_verified q m).
Proof.
  unfold cmark_verified. apply lks_bind; [apply lks_get |]. intros s.
  apply lks_bind; [apply lks_emit |]. intros _. apply lks_bind; [apply lks_put | intros _; apply lks_ret].
Qed.

Lemma lks_update_shallow q m u : lks (cupdate_shallow q m u).
Proof. destruct u; cbn [cupdate_shallow]; [apply lks_ret | apply lks_mark_verified | apply lks_ret]. Qed.

Lemma lks_validate_provisional q m : lks (validate_provisional q m).
Proof.
  unfold validate_provisional. apply lks_bind; [apply lks_get |]. intros s.
  destruct (heads_all_final s (cm_verified m) (heads_of m)); [| apply lks_ret].
  apply lks_bind; [apply lks_put | intros _; apply lks_ret].
Qed.

Lemma lks_same_iteration_heads ver : forall hs, lks (same_iteration_heads ver hs).
Proof.
  induction hs as [| h hs IH]; cbn [same_iteration_heads]; [apply lks_ret |].
  apply lks_bind; [apply lks_peek_claim |]. intros pk. destruct pk; [apply lks_ret |].
  apply lks_bind; [apply lks_get |]. intros s.
  destruct (key_status s (fst h)) as [[it v hs0 | it v | it v] |]; try apply lks_fail.
  - destruct (negb (v =? ver)); [apply lks_ret |]. destruct (negb (snd h =? it)); [apply lks_ret | apply IH].
  - destruct ((v =? ccur s) && (stamp_ccount it =? c_ccount s)); [apply lks_fail | apply lks_ret].
  - destruct (negb (v =? ver)); [apply lks_ret |]. destruct (negb (snd h =? it)); [apply lks_ret | apply IH].
Qed.

Lemma lks_vsi q m : lks (validate_same_iteration q m).
Proof.
  unfold validate_same_iteration. apply lks_bind; [apply lks_get |]. intros s.
  destruct (negb (cm_verified m =? ccur s)); [apply lks_ret |].
  destruct (heads_not_eq (heads_of m) q); [apply lks_ret | apply lks_same_iteration_heads].
Qed.

Lemma lks_vmbp q m : lks (validate_may_be_provisional q m).
Proof.
  unfold validate_may_be_provisional. destruct (cm_final m); [apply lks_ret |].
  destruct (heads_of m); [apply lks_ret |].
  apply lks_bind; [apply lks_get |]. intros s.
  destruct (negb (stamp_ccount (iter_of m) =? c_ccount s)); [apply lks_ret |].
  apply lks_bind; [apply lks_validate_provisional |]. intros r.
  destruct (fst r); [apply lks_ret |]. apply lks_bind; [apply lks_vsi | intros b; apply lks_ret].
Qed.

Lemma lks_collect_rec me qh : forall n cur acc, lks (collect_recursive n cur me qh acc).
Proof.
  induction n as [| n IH]; intros cur acc; cbn [collect_recursive]; [apply lks_nofuel |].
  destruct (key_eqb cur me); [destruct acc as [[missing mx] dep]; apply lks_ret |].
  apply lks_bind; [apply lks_get |]. intros s.
  destruct (key_status s cur) as [[it v hs | it v | it v] |]; try apply lks_fail.
  revert acc. induction hs as [| h hs IHhs]; intros acc; [apply lks_ret |].
  destruct acc as [[missing mx] dep]. cbv zeta.
  destruct (heads_contains qh (fst h)); [apply IHhs |].
  destruct (existsb (fun x => key_eqb (fst x) (fst h) && (snd x =? snd h)) missing); [apply IHhs |].
  apply lks_bind; [apply IH | intros acc'; apply IHhs].
Qed.

Lemma lks_collect n heads me : lks (collect_all_cycle_heads n heads me).
Proof.
  unfold collect_all_cycle_heads. apply lks_bind.
  - match goal with |- lks (?g heads ?a0) => assert (Hg : forall hs acc, lks (g hs acc)) end.
    { induction hs as [| h hs IH]; intros acc; [apply lks_ret |].
      apply lks_bind; [apply lks_collect_rec | intros acc'; apply IH]. }
    apply Hg.
  - intros [[missing mx] dep]. destruct (insert_missing heads missing); [apply lks_ret | apply lks_fail].
Qed.

Lemma lks_map_heads f heads me : lks (map_heads_memos f heads me).
Proof. apply lks_modify. intros s. apply lksim_fields; reflexivity. Qed.

Lemma lks_poison q : lks (poison q).
Proof. intros s. apply lksim_fields; reflexivity. Qed.

Lemma lks_fetch_cold_cycle q : lks (fetch_cold_cycle strat cinit q).
Proof.
  unfold fetch_cold_cycle. destruct (negb (recovers (strat_of strat q))); [apply lks_fail |].
  apply lks_bind; [apply lks_get |]. intros s.
  assert (Hf : forall it, lks (put_memo q (initial_memo q (Some (cinit q)) (ccur s) it) ;;;
                               cret (initial_memo q (Some (cinit q)) (ccur s) it))).
  { intros it. apply lks_bind; [apply lks_put | intros _; apply lks_ret]. }
  destruct (c_memo s q) as [m |]; [| apply Hf].
  destruct (cm_val m).
  - destruct ((cm_verified m =? ccur s) && (stamp_ccount (iter_of m) =? c_ccount s)); [| apply Hf].
    destruct (heads_contains (raw_heads m) q); [| apply Hf].
    apply lks_bind; [apply lks_put | intros _; apply lks_ret].
  - destruct (negb (cm_final m) && (cm_verified m =? ccur s) && (stamp_ccount (iter_of m) =? c_ccount s));
      [apply lks_fail | apply Hf].
Qed.

Lemma lks_fetch_hot q : lks (cfetch_hot q).
Proof.
  unfold cfetch_hot. apply lks_bind; [apply lks_get |]. intros s.
  destruct (c_memo s q) as [m |]; [| apply lks_ret].
  destruct (cm_val m); [| apply lks_ret].
  destruct (cshallow_verify s m); try apply lks_ret;
    (destruct (cm_final m); [| apply lks_ret]; apply lks_bind; [apply lks_update_shallow | intros m'; apply lks_ret]).
Qed.

(* ---------------------------------------------------------------- the outer cycle is a held key *)
Lemma peek_claim_ok q hl stk s : K hl stk s ->
  awp (peek_claim q) (fun pk s' => K hl stk s' /\ (pk = PkCycle false -> In q hl)) (K hl stk) s.
Proof.
  intros HK. pose proof (awp_lks (peek_claim q) hl stk s (lks_peek_claim q) HK) as H.
  unfold awp in *. destruct (peek_claim q s) as [s' [pk | p |]] eqn:E; [| exact H | exact I].
  split; [apply H |]. intros ->. apply (lk_held _ _ (proj1 HK)).
  revert E. unfold peek_claim, cbind, cget. destruct (c_sync s q) as [y |] eqn:Ey; [| discriminate].
  destruct (sy_trans y) eqn:Et.
  - destruct (trans_get (c_trans s) q); discriminate.
  - intros _. exists y. split; assumption.
Qed.

Lemma find_claimed_ok me hl stk : forall hs s, K hl stk s -> (forall h, In h hs -> fst h <> me) ->
  awp (find_claimed_head hs) (fun o s' => K hl stk s' /\ forall oc, o = Some oc -> In oc hl /\ oc <> me)
      (K hl stk) s.
Proof.
  induction hs as [| h hs IH]; intros s HK Hne; cbn [find_claimed_head].
  - apply awp_ret. split; [exact HK | intros oc A; discriminate].
  - apply awp_bind. eapply awp_conseq; [apply (peek_claim_ok (fst h) hl stk s HK) | | intros s' A; exact A].
    intros pk s' [HK' Hpk].
    assert (Hrest : awp (find_claimed_head hs)
              (fun o s'' => K hl stk s'' /\ forall oc, o = Some oc -> In oc hl /\ oc <> me) (K hl stk) s').
    { apply IH; [exact HK' | intros x Hx; apply Hne; right; exact Hx]. }
    destruct pk as [| [|]]; try exact Hrest.
    apply awp_ret. split; [exact HK' |]. intros oc A. injection A as <-.
    split; [apply Hpk; reflexivity | apply Hne; left; reflexivity].
Qed.

Lemma outer_cycle_ok heads me hl stk s : K hl stk s ->
  awp (outer_cycle heads me) (fun o s' => K hl stk s' /\ forall oc, o = Some oc -> In oc hl /\ oc <> me)
      (K hl stk) s.
Proof.
  intros HK. unfold outer_cycle. apply awp_bind, awp_get.
  destruct (find (fun k => negb (key_eqb k me) && heads_contains heads k) (List.rev (c_qstack s))) as [k |] eqn:Ef.
  - apply awp_ret. split; [exact HK |]. intros oc A. injection A as <-.
    apply find_some in Ef. destruct Ef as [Hin Hc]. apply andb_true_iff in Hc. destruct Hc as [Hc _].
    split.
    + apply (lk_stack _ _ (proj1 HK)). apply in_rev. exact Hin.
    + intros ->. rewrite key_eqb_refl in Hc. discriminate.
  - apply find_claimed_ok; [exact HK |]. intros h Hh. apply in_rev in Hh.
    unfold heads_not_eq in Hh. apply filter_In in Hh. destruct Hh as [_ Hc].
    intros A. apply negb_true_iff in Hc. apply key_eqb_neq in Hc. contradiction.
Qed.

(* ---------------------------------------------------------------- the level functions *)
Definition Lf_ok (L : clower) : Prop :=
  forall q hl stk s, K hl stk s -> awp (cl_fetch L q) (fun _ s' => K hl stk s') (K hl stk) s.
Definition Lm_ok (L : clower) : Prop :=
  forall q since hl stk s, K hl stk s -> awp (cl_mca L q since) (fun _ s' => K hl stk s') (K hl stk) s.

Section Level.
Variable L : clower.
Hypothesis HF : Lf_ok L.
Hypothesis HM : Lm_ok L.
Variable nn : nat.

Lemma lk_silent {A} (m : CM A) hl stk s : lks m -> K hl stk s ->
  awp m (fun _ s' => K hl stk s') (K hl stk) s.
Proof.
  intros Hm HK. eapply awp_conseq; [apply (awp_lks m hl stk s Hm HK) | intros a s' [B _]; exact B | intros s' B; exact B].
Qed.

Lemma walk_edges_lk since hl stk : forall es s, K hl stk s ->
  awp (cwalk_edges L es since) (fun _ s' => K hl stk s') (K hl stk) s.
Proof.
  induction es as [| [i | d] es IH]; intros s HK; cbn [cwalk_edges].
  - apply awp_ret. exact HK.
  - apply awp_bind, awp_get. destruct (changed_after _ since); [apply awp_ret; exact HK | apply IH; exact HK].
  - apply awp_bind. eapply awp_conseq; [apply (HM d since hl stk s HK) | | intros s' A; exact A].
    intros c s' HK'. destruct c; [apply awp_ret; exact HK' | apply IH; exact HK'].
Qed.

Lemma deep_verify_lk q m hl stk s : K hl stk s ->
  awp (cdeep_verify strat L q m) (fun _ s' => K hl stk s') (K hl stk) s.
Proof.
  intros HK. unfold cdeep_verify.
  destruct (cm_untracked m); [apply awp_ret; exact HK |].
  destruct (negb (cm_final m)); [apply awp_ret; exact HK |].
  destruct (negb (recovers (strat_of strat q)) && negb match raw_heads m with [] => true | _ => false end);
    [apply awp_ret; exact HK |].
  apply awp_bind. eapply awp_conseq; [apply (walk_edges_lk _ hl stk _ s HK) | | intros s' A; exact A].
  intros c s' HK'. destruct c; [apply awp_ret; exact HK' |].
  apply awp_bind. eapply awp_conseq; [apply (lk_silent _ hl stk s' (lks_mark_verified q m) HK') | | intros s'' A; exact A].
  intros m' s'' HK''. apply awp_ret. exact HK''.
Qed.

Lemma verify_memo_lk q m hl stk s : K hl stk s ->
  awp (cverify_memo strat L q m) (fun _ s' => K hl stk s') (K hl stk) s.
Proof.
  intros HK. unfold cverify_memo. apply awp_bind, awp_get.
  assert (Hsh : awp (r <- validate_may_be_provisional q m ;;
                     if fst r then m' <- cupdate_shallow q (snd r) (cshallow_verify s m) ;; cret (true, m')
                     else cdeep_verify strat L q (snd r)) (fun _ s' => K hl stk s') (K hl stk) s).
  { apply awp_bind. eapply awp_conseq; [apply (lk_silent _ hl stk s (lks_vmbp q m) HK) | | intros s' A; exact A].
    intros r s' HK'. destruct (fst r); [| apply deep_verify_lk; exact HK'].
    apply awp_bind. eapply awp_conseq; [apply (lk_silent _ hl stk s' (lks_update_shallow q (snd r) _) HK') | | intros s'' A; exact A].
    intros m' s'' HK''. apply awp_ret. exact HK''. }
  destruct (cshallow_verify s m) eqn:Esh; [exact Hsh | exact Hsh | apply deep_verify_lk; exact HK].
Qed.

Lemma run_body_lk hl stk : forall b fr s, K hl stk s ->
  awp (crun_body L b fr) (fun _ s' => K hl stk s') (K hl stk) s.
Proof.
  induction b as [v | i k IH | d k IH | c k IH | k IH | c k IH]; intros fr s HK; cbn [crun_body].
  - apply awp_ret. exact HK.
  - apply awp_bind, awp_get. apply IH; exact HK.
  - apply awp_bind. eapply awp_conseq; [apply (HF d hl stk s HK) | | intros s' A; exact A].
    intros [[[v du] ch] hs] s' HK'. destruct (cadd_read fr (EQ d) du ch hs); [apply IH; exact HK' | apply awp_fail; exact HK'].
  - apply awp_bind, awp_get. apply IH; exact HK.
  - apply awp_bind, awp_get. apply IH; exact HK.
  - apply awp_bind, awp_get. destruct (c_pcell s c =? 0); [apply IH; exact HK | apply awp_fail; exact HK].
Qed.

Lemma run_query_lk q seed hl stk s : K hl stk s -> In q hl ->
  awp (run_query prog L q seed) (fun _ s' => K hl (q :: stk) s') (K hl stk) s.
Proof.
  intros HK Hq. unfold run_query. apply awp_bind, awp_get.
  apply awp_bind. unfold push_query. apply awp_modify.
  apply awp_bind. apply awp_modify.
  apply awp_on_panic.
  assert (HK1 : K hl (q :: stk) (cset_runs (cset_qstack s (q :: c_qstack s)) (q :: c_runs (cset_qstack s (q :: c_qstack s))))).
  { apply (K_sim hl (q :: stk) (cset_qstack s (q :: c_qstack s))); [apply lksim_fields; reflexivity |].
    apply push_ok; assumption. }
  eapply awp_conseq; [apply (run_body_lk hl (q :: stk) _ _ _ HK1) | intros a s' A; exact A |].
  intros s' A. unfold pop_query, cmodify. cbn [fst]. apply (pop_ok q hl stk s' A).
Qed.

Lemma pop_lk {T} q hl stk (a : T) s : K hl (q :: stk) s ->
  awp (pop_query ;;; cret a) (fun _ s' => K hl stk s') (K hl stk) s.
Proof. intros HK. apply awp_bind. unfold pop_query. apply awp_modify, awp_ret. apply (pop_ok q hl stk s HK). Qed.

Lemma complete_lk q fr it hl stk s : K hl (q :: stk) s ->
  awp (complete_cycle_query strat nn fr it) (fun _ s' => K hl stk s') (K hl stk) s.
Proof.
  intros HK. unfold complete_cycle_query. apply awp_bind, awp_get. apply (pop_lk q hl stk _ s HK).
Qed.

Definition out_ok (hl : list qkey) (stk : list qkey) (r : round_out) (s' : cdb) : Prop :=
  K hl stk s' /\ match r with RDone _ _ mode => mode_ok (tl hl) mode | RIterate _ _ _ _ => True end.

Lemma round_lk q ls hl0 stk s : K (q :: hl0) stk s ->
  awp (round prog strat cinit nn L q ls) (out_ok (q :: hl0) stk) (K (q :: hl0) stk) s.
Proof.
  intros HK. unfold round. set (hl := q :: hl0) in *.
  apply awp_bind. eapply awp_conseq; [apply (run_query_lk q _ hl stk s HK); left; reflexivity | | intros s' A; exact A].
  intros [v fr] s1 HK1.
  destruct (fr_heads fr) as [| h0 hs0] eqn:Efh.
  - destruct (if stamp_is_initial (ls_iter ls) then Some stamp_default else stamp_increment (ls_iter ls)) as [it' |].
    + apply awp_bind. unfold pop_query. apply awp_modify, awp_ret. split; [apply (pop_ok q hl stk s1 HK1) | exact I].
    + apply awp_on_panic. apply awp_fail. unfold pop_query, cmodify. cbn [fst]. apply (pop_ok q hl stk s1 HK1).
  - apply awp_bind. apply awp_on_panic.
    (* the decision, with the frame still open *)
    eapply awp_conseq with
      (Q := fun d s' => K hl (q :: stk) s' /\
              match d with
              | inl (_, oc, _) => In oc hl0
              | inr (_, _, outer, _, _) => forall oc, outer = Some oc -> In oc hl0
              end)
      (X := K hl (q :: stk)).
    + apply awp_bind. eapply awp_conseq; [apply (lk_silent _ hl (q :: stk) s1 (lks_collect nn (h0 :: hs0) q) HK1) | | intros s' A; exact A].
      intros [[heads hm] dep] s2 HK2.
      apply awp_bind. eapply awp_conseq; [apply (outer_cycle_ok heads q hl (q :: stk) s2 HK2) | | intros s' A; exact A].
      intros outer s3 [HK3 Hout].
      assert (Hout' : forall oc, outer = Some oc -> In oc hl0).
      { intros oc A. destruct (Hout oc A) as [[B | B] C]; [congruence | exact B]. }
      destruct (negb dep).
      * destruct outer as [oc |]; [| apply awp_fail; exact HK3].
        destruct (stamp_increment (ls_iter ls)); [| apply awp_fail; exact HK3].
        apply awp_ret. split; [exact HK3 | apply Hout'; reflexivity].
      * apply awp_bind, awp_get.
        destruct (match ls_last ls with Some m => Some m | None => c_memo s3 q end) as [last |]; [| apply awp_fail; exact HK3].
        destruct (cm_val last); [| apply awp_fail; exact HK3].
        apply awp_ret. split; [exact HK3 | exact Hout'].
    + intros d s2 [HK2 Hd]. destruct d as [[[heads oc] it'] | [[[[heads hm] outer] last] lv]].
      * apply awp_bind. eapply awp_conseq; [apply (complete_lk q fr it' hl stk s2 HK2) | | intros s' A; exact A].
        intros rev0 s3 HK3. apply awp_ret. split; [exact HK3 | exact Hd].
      * destruct (match strat_of strat q with SFallback => (cinit q, true)
                  | _ => (recover strat q lv v, recover strat q lv v =? lv) end) as [v' vc].
        apply awp_bind. eapply awp_conseq; [apply (complete_lk q fr (ls_iter ls) hl stk s2 HK2) | | intros s' A; exact A].
        intros rev0 s3 HK3.
        destruct outer as [oc |].
        -- apply awp_ret. split; [exact HK3 | apply Hd; reflexivity].
        -- apply awp_bind, awp_get.
           destruct (_ && others_converged s3 heads q).
           ++ apply awp_bind. eapply awp_conseq; [apply (lk_silent _ hl stk s3 (lks_map_heads _ heads q) HK3) | | intros s' A; exact A].
              intros ? s4 HK4. apply awp_bind. eapply awp_conseq; [apply (lk_silent _ hl stk s4 (lks_emit _) HK4) | | intros s' A; exact A].
              intros ? s5 HK5. apply awp_ret. split; [exact HK5 | exact I].
           ++ apply awp_ret. split; [exact HK3 | exact I].
    + intros s' A. unfold pop_query, cmodify. cbn [fst]. apply (pop_ok q hl stk s' A).
Qed.

Definition res_ok (hl0 stk : list qkey) (r : val * cmemo * rmode) (s' : cdb) (q : qkey) : Prop :=
  K (q :: hl0) stk s' /\ mode_ok hl0 (snd r).

Lemma iter_loop_lk q hl0 stk : forall k ls s, K (q :: hl0) stk s ->
  awp (iter_loop prog strat cinit k nn L q ls) (fun r s' => res_ok hl0 stk r s' q) (K (q :: hl0) stk) s.
Proof.
  induction k as [| k IH]; intros ls s HK; cbn [iter_loop]; [apply awp_nofuel |].
  apply awp_bind. eapply awp_conseq; [apply (round_lk q ls hl0 stk s HK) | | intros s' B; exact B].
  intros r s1 [HK1 Hm]. destruct r as [v rv mode | hm v rv heads].
  - apply awp_ret. split; [exact HK1 | exact Hm].
  - destruct (stamp_increment (N.max (ls_iter ls) hm)) as [it' |]; [| apply awp_fail; exact HK1].
    apply awp_bind. eapply awp_conseq; [apply (lk_silent _ _ stk s1 (lks_emit _) HK1) | | intros s' B; exact B].
    intros ? s2 HK2. apply awp_bind.
    eapply awp_conseq; [apply (lk_silent _ _ stk s2 (lks_map_heads _ heads q) HK2) | | intros s' B; exact B].
    intros ? s3 HK3. apply awp_bind, awp_get. apply awp_bind.
    eapply awp_conseq; [apply (lk_silent _ _ stk s3 (lks_put q _) HK3) | | intros s' B; exact B].
    intros ? s4 HK4. apply IH. exact HK4.
Qed.

Lemma execute_iterate_lk q old hl0 stk s : K (q :: hl0) stk s ->
  awp (execute_iterate prog strat cinit nn L q old) (fun r s' => res_ok hl0 stk r s' q) (K (q :: hl0) stk) s.
Proof.
  intros HK. unfold execute_iterate. apply awp_bind, awp_get.
  assert (Hloop : forall ls, awp (on_panic (iter_loop prog strat cinit LOOP_FUEL nn L q ls) (poison q))
                    (fun r s' => res_ok hl0 stk r s' q) (K (q :: hl0) stk) s).
  { intros ls. apply awp_on_panic.
    eapply awp_conseq; [apply (iter_loop_lk q hl0 stk LOOP_FUEL ls s HK) | intros a s' B; exact B |].
    intros s' B. apply (K_sim _ _ s'); [apply lks_poison | exact B]. }
  apply awp_bind.
  destruct old as [o |].
  - destruct (cm_verified o =? ccur s).
    + destruct (negb (stamp_ccount (iter_of o) =? c_ccount s)); [apply awp_ret; apply Hloop |].
      destruct (cm_val o); [apply awp_ret; apply Hloop | apply awp_fail; exact HK].
    + apply awp_ret. apply Hloop.
  - apply awp_ret. apply Hloop.
Qed.

Lemma execute_panic_lk q old hl0 stk s : K (q :: hl0) stk s ->
  awp (execute_panic prog L q old) (fun _ s' => K (q :: hl0) stk s') (K (q :: hl0) stk) s.
Proof.
  intros HK. unfold execute_panic. apply awp_bind.
  eapply awp_conseq; [apply (run_query_lk q old _ stk s HK); left; reflexivity | | intros s' B; exact B].
  intros [v fr] s1 HK1. apply awp_bind. unfold pop_query. apply awp_modify, awp_ret.
  apply (pop_ok q _ stk s1 HK1).
Qed.

Lemma cexecute_lk q mode0 old hl0 stk s : K (q :: hl0) stk s -> ~ In q stk -> mode_ok hl0 mode0 ->
  awp (cexecute prog strat cinit nn L q mode0 old) (fun _ s' => K hl0 stk s') (K (q :: hl0) stk) s.
Proof.
  intros HK Hnq Hm0. unfold cexecute.
  apply awp_bind. eapply awp_conseq; [apply (lk_silent _ _ stk s (lks_emit _) HK) | | intros s' B; exact B].
  intros ? s1 HK1. apply awp_bind.
  eapply awp_conseq with (Q := fun r s' => res_ok hl0 stk r s' q) (X := K (q :: hl0) stk).
  - destruct (recovers (strat_of strat q)).
    + apply (execute_iterate_lk q old hl0 stk s1 HK1).
    + apply awp_bind. eapply awp_conseq; [apply (execute_panic_lk q old hl0 stk s1 HK1) | | intros s' B; exact B].
      intros [[v rv] md] s2 HK2. apply awp_ret. split; [exact HK2 | exact Hm0].
  - intros [[v rv] mode] s2 [HK2 Hm]. cbn [snd] in Hm.
    destruct (cbackdate old v rv) as [rv1 | p |]; [| apply awp_fail; exact HK2 | apply awp_nofuel].
    apply awp_bind, awp_get. apply awp_bind.
    eapply awp_conseq; [apply (lk_silent _ _ stk s2 (lks_put q _) HK2) | | intros s' B; exact B].
    intros ? s3 HK3. apply awp_bind.
    eapply awp_conseq; [apply (drop_guard_ok q mode hl0 stk s3 HK3 Hnq Hm) | | intros s' []].
    intros ? s4 HK4. apply awp_ret. exact HK4.
  - intros s' B. exact B.
Qed.

Lemma cfetch_cold_lk q hl stk s : K hl stk s ->
  awp (cfetch_cold prog strat cinit nn L q) (fun _ s' => K hl stk s') (K hl stk) s.
Proof.
  intros HK. unfold cfetch_cold. apply awp_bind.
  eapply awp_conseq; [apply (try_claim_ok q true hl stk s HK) | | intros s' []].
  intros c s1 Hc. destruct c as [mode | inner].
  - destruct Hc as (HK1 & Hnq & Hmode).
    assert (Hns : ~ In q stk).
    { intros Hin. apply Hnq. apply (lk_stack _ _ (proj1 HK)). rewrite (proj2 HK). exact Hin. }
    assert (Hmo : mode_ok hl mode) by (destruct Hmode as [-> | ->]; exact I).
    apply awp_on_panic.
    eapply awp_conseq with (Q := fun _ s' => K hl stk s') (X := fun s' => K (q :: hl) stk s' \/ K hl stk s').
    + apply awp_bind, awp_get. apply awp_bind.
      eapply awp_conseq with (Q := fun _ s' => K (q :: hl) stk s') (X := fun s' => K (q :: hl) stk s' \/ K hl stk s').
      * destruct (c_memo s1 q) as [m |]; [| apply awp_ret; exact HK1].
        destruct (cm_val m); [| apply awp_ret; exact HK1].
        apply awp_bind. eapply awp_conseq; [apply (verify_memo_lk q m _ stk s1 HK1) | | intros s' B; left; exact B].
        intros r s2 HK2. apply awp_ret. exact HK2.
      * intros ok s2 HK2. destruct ok as [m |].
        -- apply awp_bind. eapply awp_conseq; [apply (drop_guard_ok q mode hl stk s2 HK2 Hns Hmo) | | intros s' []].
           intros ? s3 HK3. apply awp_ret. exact HK3.
        -- eapply awp_conseq; [apply (cexecute_lk q mode _ hl stk s2 HK2 Hns Hmo) | intros a s' B; exact B | intros s' B; left; exact B].
      * intros s' B. exact B.
    + intros a s' B. exact B.
    + intros s' B. apply (release_panicking_ok q hl stk s' Hns Hnq B).
  - destruct Hc as [HK1 _]. apply (lk_silent _ hl stk s1 (lks_fetch_cold_cycle q) HK1).
Qed.

Lemma cfetch_lk q hl stk s : K hl stk s ->
  awp (cfetch prog strat cinit nn L q) (fun _ s' => K hl stk s') (K hl stk) s.
Proof.
  intros HK. unfold cfetch. apply awp_bind.
  eapply awp_conseq; [apply (lk_silent _ hl stk s (lks_fetch_hot q) HK) | | intros s' B; exact B].
  intros hot s1 HK1. apply awp_bind.
  eapply awp_conseq with (Q := fun _ s' => K hl stk s') (X := K hl stk).
  - destruct hot as [m |]; [apply awp_ret; exact HK1 | apply (cfetch_cold_lk q hl stk s1 HK1)].
  - intros m s2 HK2. destruct (cm_val m); [apply awp_ret; exact HK2 | apply awp_fail; exact HK2].
  - intros s' B. exact B.
Qed.

Lemma cmca_cold_lk q since hl stk s : K hl stk s ->
  awp (cmca_cold prog strat cinit nn L q since) (fun _ s' => K hl stk s') (K hl stk) s.
Proof.
  intros HK. unfold cmca_cold. apply awp_bind.
  eapply awp_conseq; [apply (try_claim_ok q false hl stk s HK) | | intros s' []].
  intros c s1 Hc. destruct c as [mode | inner].
  - destruct Hc as (HK1 & Hnq & Hmode).
    assert (Hns : ~ In q stk).
    { intros Hin. apply Hnq. apply (lk_stack _ _ (proj1 HK)). rewrite (proj2 HK). exact Hin. }
    assert (Hmo : mode_ok hl mode) by (destruct Hmode as [-> | ->]; exact I).
    assert (Hdrop : forall (b : bool) s2, K (q :: hl) stk s2 ->
              awp (drop_guard q mode ;;; cret b) (fun _ s' => K hl stk s') (fun s' => K (q :: hl) stk s' \/ K hl stk s') s2).
    { intros b s2 HK2. apply awp_bind.
      eapply awp_conseq; [apply (drop_guard_ok q mode hl stk s2 HK2 Hns Hmo) | | intros s' []].
      intros ? s3 HK3. apply awp_ret. exact HK3. }
    apply awp_on_panic.
    eapply awp_conseq with (Q := fun _ s' => K hl stk s') (X := fun s' => K (q :: hl) stk s' \/ K hl stk s').
    + apply awp_bind, awp_get.
      destruct (c_memo s1 q) as [old |]; [| apply Hdrop; exact HK1].
      apply awp_bind. eapply awp_conseq; [apply (verify_memo_lk q old _ stk s1 HK1) | | intros s' B; left; exact B].
      intros r s2 HK2. destruct (fst r); [apply Hdrop; exact HK2 |].
      destruct (negb (cm_final (snd r))); [apply Hdrop; exact HK2 |].
      destruct (cm_val old); [| apply Hdrop; exact HK2].
      apply awp_bind.
      eapply awp_conseq; [apply (cexecute_lk q mode _ hl stk s2 HK2 Hns Hmo) | | intros s' B; left; exact B].
      intros mnew s3 HK3. apply awp_ret. exact HK3.
    + intros a s' B. exact B.
    + intros s' B. apply (release_panicking_ok q hl stk s' Hns Hnq B).
  - destruct Hc as [HK1 _]. destruct (recovers (strat_of strat q)); [apply awp_ret; exact HK1 | apply awp_fail; exact HK1].
Qed.

Lemma cmca_lk q since hl stk s : K hl stk s ->
  awp (cmca prog strat cinit nn L q since) (fun _ s' => K hl stk s') (K hl stk) s.
Proof.
  intros HK. unfold cmca. apply awp_bind, awp_get.
  destruct (c_memo s q) as [m |]; [| apply awp_ret; exact HK].
  assert (Hhot : forall u, awp (if cm_final m then m' <- cupdate_shallow q m u ;; cret (changed_after (cm_changed m') since)
                                else cmca_cold prog strat cinit nn L q since) (fun _ s' => K hl stk s') (K hl stk) s).
  { intros u. destruct (cm_final m); [| apply cmca_cold_lk; exact HK].
    apply awp_bind. eapply awp_conseq; [apply (lk_silent _ hl stk s (lks_update_shallow q m u) HK) | | intros s' B; exact B].
    intros m' s' HK'. apply awp_ret. exact HK'. }
  destruct (cshallow_verify s m); [apply Hhot | apply Hhot | apply cmca_cold_lk; exact HK].
Qed.

End Level.

Theorem clevel_lk nodes : forall n, Lf_ok (clevel prog strat cinit nodes n) /\ Lm_ok (clevel prog strat cinit nodes n).
Proof.
  induction n as [| n [IHF IHM]].
  - split; [intros q hl stk s _ | intros q since hl stk s _]; exact I.
  - split.
    + intros q hl stk s HK. cbn [clevel cl_fetch]. apply (cfetch_lk _ IHF IHM nodes q hl stk s HK).
    + intros q since hl stk s HK. cbn [clevel cl_mca]. apply (cmca_lk _ IHF IHM nodes q since hl stk s HK).
Qed.

End Fetch.

(* Cycle/FbLoop.v — (fallback cycles, C13_fresh) the fixpoint loop and execute under the
   fresh-revision invariant. *)
From Coq Require Import PeanoNat.
From Salsa Require Import Base.
From Salsa.Kern Require Import CoreK.
From Salsa.Core Require Import Spec.
From Salsa.Cycle Require Import StampK Model Spec SpecProofs FallbackProofs Cert FreshBase FbSem FbInv FbOps FbExec FbRound.

Section Loop.
Context {C : bctx}.
Notation prog := (@fprog C).
Notation strat := (@fstrat C).
Notation cinit := (@fcinit C).
Notation ns := (@fns C).
Notation lvl := (@flvl C).
Notation nxt := (@fnxt C).
Notation SV := (spec_fallback prog sn cinit ns).
Notation cyc := (cycn prog sn ns).
Notation sc := (succs prog sn).

(* the potential strictly decreases on a non-converged trip: only the metadata can move *)
Lemma hpot_decrease dl dv (ul uv : bool) :
  dv <= dl -> (ul = true -> uv = true) -> (dv <> dl \/ uv <> ul) ->
  dv + (if uv then 0 else 1) + 1 <= dl + (if ul then 0 else 1).
Proof.
  intros Hd Hu Hne.
  destruct ul, uv; try (specialize (Hu eq_refl); discriminate); destruct Hne as [H | H]; try congruence; lia.
Qed.

(* ---------------------------------------------------------------- not converged: store and go again *)
Definition next_memo (q : qkey) (ls : lstate) (v : val) (rev : cmemo) : cmemo :=
  with_value (with_final (with_heads rev (heads_update [(q, ls_iter ls)] q (ls_iter ls + 1)) (ls_iter ls + 1)) false)
             (Some v) REV_START.

Lemma iterate_step st q r0 s1 ls mq lv v rev s2 :
  st = q :: r0 -> Inv st st s1 -> head_common q ls s1 mq lv v rev ->
  (v <> lv \/ cm_dur rev <> cm_dur mq \/ cm_untracked rev <> cm_untracked mq) ->
  mupd s1 s2 q (next_memo q ls v rev) ->
  Inv st st s2 /\ pres r0 s1 s2 /\
  LIB q s2 {| ls_iter := ls_iter ls + 1; ls_last := Some (next_memo q ls v rev); ls_old := ls_old ls |}.
Proof.
  intros Hst HI1 (Hmq & Hown & Hitq & Hlv & Hlvc & Hv & Hf & He & Hir & Hhr & Hcr & Hdr & Hur & Hsucc) Hnc Hu.
  assert (Hok := iv_memo _ _ _ HI1 q mq Hmq).
  destruct (kind_of_own _ _ _ _ Hok Hown) as (_ & Hbot & Hfix & Hd3 & Hpot & Hring & Hcyc & _).
  assert (Hqn : In q ns) by apply (mo_ns _ _ _ _ Hok).
  assert (Hnc' : cm_dur rev <> cm_dur mq \/ cm_untracked rev <> cm_untracked mq).
  { destruct Hnc as [H | H]; [congruence | exact H]. }
  set (m' := next_memo q ls v rev).
  assert (Hown' : own q m').
  { unfold m', next_memo. split; [reflexivity |]. split; [reflexivity |]. cbn. now rewrite key_eqb_refl. }
  assert (Hiter' : cm_iter m' = ls_iter ls + 1) by reflexivity.
  assert (Hnq : ~ In q r0).
  { assert (Hnd := iv_nd _ _ _ HI1). rewrite Hst in Hnd. now apply NoDup_cons_iff in Hnd as [Hn _]. }
  split; [| split].
  - apply (Inv_upd st st st s1 s2 q m' HI1 Hu); try apply HI1.
    + constructor.
      * exact Hqn.
      * reflexivity.
      * exact Hcr.
      * exists v. reflexivity.
      * right; left. split; [exact Hown' |]. split; [exact Hbot |]. split; [exact Hfix |].
        split; [cbn; lia |]. split.
        { rewrite Hiter'. unfold hpot in *. cbn [m' next_memo with_value with_final with_heads cm_val cm_dur cm_untracked].
          assert (Hdec := hpot_decrease (cm_dur mq) (cm_dur rev) (cm_untracked mq) (cm_untracked rev) Hdr Hur Hnc'). lia. }
        split; [exact Hring |]. split; [exact Hcyc |]. cbn. now rewrite Hv.
    + apply (others_own st st st s1 s2 q mq m' HI1 Hu Hmq Hown).
      * intros x Hx. exact Hx.
      * intros h _ Hh. exact Hh.
      * left. split; [now left |]. destruct (own_heads _ _ Hown) as [_ Hio]. rewrite Hio.
        destruct (own_heads _ _ Hown') as [_ Hio']. rewrite Hio', Hiter', Hitq. lia.
  - split; [intros d; apply (done_upd _ _ _ _ _ Hu); eapply own_not_done; eassumption |].
    split.
    { intros p Hp m Hm. rewrite (mupd_other _ _ _ _ _ Hu); [exact Hm | intros ->; contradiction]. }
    split.
    { intros p Hp Hm. left. rewrite (mupd_other _ _ _ _ _ Hu); [exact Hm | intros ->; contradiction]. }
    intros d h it mh _ Hpa _ _ _. apply (partat_upd _ _ _ _ _ _ _ Hu); [| exact Hpa].
    intros ->. destruct Hpa as (md & Hmd & Hpd). rewrite Hmq in Hmd. injection Hmd as <-.
    exact (own_not_part _ _ _ _ Hown Hpd).
  - exists m'. split; [reflexivity |]. split; [apply (mupd_same _ _ _ _ Hu) |]. split; [exact Hown' | exact Hiter'].
Qed.

(* ---------------------------------------------------------------- the loop *)
Lemma pres_head_same st q r0 s s1 mq :
  st = q :: r0 -> Inv st st s1 -> pres st s s1 -> c_memo s1 q = Some mq -> own q mq ->
  forall p, In p r0 -> c_memo s1 p = c_memo s p.
Proof.
  intros Hst HI1 (_ & P2 & P3 & _) Hmq Hown p Hp.
  assert (Hb : botof lvl st = Some q) by (apply (own_is_botof st q r0 Hst st s1 q mq HI1 Hmq Hown eq_refl)).
  assert (Hpq : p <> q).
  { intros ->. assert (Hnd := iv_nd _ _ _ HI1). rewrite Hst in Hnd. apply NoDup_cons_iff in Hnd as [Hn _]. contradiction. }
  assert (Hps : In p st) by (rewrite Hst; now right).
  destruct (c_memo s p) as [m |] eqn:Hm.
  - now apply P2.
  - destruct (P3 p Hps Hm) as [H1 | [H1 _]]; [exact H1 |]. rewrite Hb in H1. injection H1 as ->. congruence.
Qed.

Definition loop_post (st : list qkey) (q : qkey) (r0 : list qkey) (s s' : cdb) (out : val * cmemo * rmode) : Prop :=
  let '(v, rev, mode) := out in
  Inv st st s' /\ pres r0 s s' /\ cm_changed rev = REV_START /\
  ((mode = RDefault /\ cm_final rev = true /\ raw_heads rev = [] /\ v = SV q /\ iter_of rev <= 14 /\
    (forall m, c_memo s' q = Some m -> ~ own q m) /\ (forall p, In p r0 -> c_memo s' p = c_memo s p) /\
    (forall d, In d (sc q) -> done s' d))
   \/ participant_out st q {| ls_iter := 0; ls_last := None; ls_old := None |} s' v rev mode
   \/ (exists mq, c_memo s' q = Some mq /\ own q mq /\ mode = RDefault /\ cm_final rev = true /\
         cm_extra rev = true /\ cm_heads rev = [] /\ cm_iter rev = cm_iter mq /\ cm_val mq = Some v /\
         v = cinit q /\ (forall p, In p r0 -> c_memo s' p = c_memo s p) /\
         (forall d, In d (sc q) -> done s' d \/ d = q \/ partat s' d q (cm_iter mq)))).

Lemma iter_loop_ok L n nn' st q r0 :
  st = q :: r0 -> fetch_spec L n -> (length ns < n + length st)%nat ->
  forall k s ls, Inv st st s -> LI q s ls -> (14 - N.to_nat (ls_iter ls) <= k)%nat ->
  cwp (iter_loop prog strat cinit k (S nn') L q ls) (loop_post st q r0 s) s.
Proof.
  intros Hst HL Hfuel. induction k as [| k IH]; intros s ls HI HLI Hk.
  - exfalso. assert (H := LI_iter n st q r0 Hst Hfuel s ls HI HLI). lia.
  - assert (Hit13 := LI_iter n st q r0 Hst Hfuel s ls HI HLI).
    assert (Hnq : ~ In q r0).
    { assert (Hnd := iv_nd _ _ _ HI). rewrite Hst in Hnd. now apply NoDup_cons_iff in Hnd as [Hn _]. }
    cbn [iter_loop]. apply cwp_bind.
    eapply cwp_conseq; [apply (round_ok L n nn' st q r0 Hst HL Hfuel s ls HI HLI) |].
    intros s1 out (HI1 & Hp1 & Hout).
    assert (Hp1' : pres r0 s s1) by (rewrite Hst in Hp1; now apply (pres_pop q r0)).
    destruct out as [v rev mode | hm v rev heads].
    + apply cwp_ret. split; [exact HI1 |]. split; [exact Hp1' |].
      destruct Hout as [Hc | [Hpt | (mq & lv & Hcom & Hmode & Hvl & Hdl & Hul)]].
      * destruct Hc as (Hmode & Hf & Hrh & Hchg & HvK & Hi & (Hl & Hold & Hsome & Hnone) & Hsame & Hd).
        split; [exact Hchg |]. left. split; [exact Hmode |]. split; [exact Hf |]. split; [exact Hrh |].
        split; [exact HvK |]. split; [exact Hi |].
        split.
        { intros m Hm. rewrite (Hsame q (q_in_st st q r0 Hst)) in Hm. now destruct (Hsome m Hm). }
        split; [| exact Hd]. intros p Hp. apply Hsame. rewrite Hst. now right.
      * assert (Hchg : cm_changed rev = REV_START).
        { destruct Hpt as (b & it & mb & _ & _ & _ & _ & _ & _ & _ & Hchg & _). exact Hchg. }
        split; [exact Hchg |]. right; left.
        destruct Hpt as (b & it & mb & Hx). exists b, it, mb. exact Hx.
      * destruct Hcom as (Hmq & Hown & Hitq & Hlv & Hlvc & Hv & Hf & He & Hir & Hhr & Hcr & Hdr & Hur & Hsucc).
        split; [exact Hcr |]. right; right. exists mq. split; [exact Hmq |]. split; [exact Hown |].
        split; [exact Hmode |]. split; [exact Hf |]. split; [exact He |]. split; [exact Hhr |].
        split; [congruence |]. split; [congruence |]. split; [exact Hv |].
        split; [eapply pres_head_same; eassumption | exact Hsucc].
    + destruct Hout as (-> & -> & mq & lv & Hcom & Hnc).
      rewrite N.max_0_r. rewrite stamp_increment_small by lia.
      apply cwp_bind, cwp_emit. apply cwp_bind. unfold map_heads_memos.
      cbn [heads_not_eq filter fst]. rewrite key_eqb_refl. cbn [negb fold_left].
      apply cwp_modify. apply cwp_bind, cwp_get. apply cwp_bind. unfold put_memo. apply cwp_modify.
      set (s1' := cset_memo (cset_log s1 _) _).
      assert (Hcur : ccur s1' = REV_START) by apply (ccur_inv _ _ _ HI1).
      rewrite Hcur. fold (next_memo q ls v rev).
      set (s2 := cset_memo s1' _).
      assert (Hu : mupd s1 s2 q (next_memo q ls v rev)).
      { unfold mupd. split; [reflexivity |]. split; [reflexivity |]. split; [reflexivity |].
        split; [reflexivity |]. split; [reflexivity |]. split; [reflexivity |]. intros p. reflexivity. }
      destruct (iterate_step st q r0 s1 ls mq lv v rev s2 Hst HI1 Hcom Hnc Hu) as (HI2 & Hp2 & HLB).
      eapply cwp_conseq.
      * apply (IH s2 _ HI2 (or_intror HLB)). cbn [ls_iter]. lia.
      * intros s3 [[v3 rev3] mode3] (HI3 & Hp3 & Hchg3 & Hcases).
        assert (Hmq := proj1 Hcom). assert (Hown := proj1 (proj2 Hcom)).
        assert (Hsame1 : forall p, In p r0 -> c_memo s1 p = c_memo s p) by (eapply pres_head_same; eassumption).
        assert (Hsame2 : forall p, In p r0 -> c_memo s2 p = c_memo s p).
        { intros p Hp. rewrite <- (Hsame1 p Hp). apply (mupd_other _ _ _ _ _ Hu). intros ->. contradiction. }
        split; [exact HI3 |]. split; [exact (pres_trans _ _ _ _ Hp1' (pres_trans _ _ _ _ Hp2 Hp3)) |].
        split; [exact Hchg3 |].
        destruct Hcases as [(H1 & H2 & H3 & H4 & H5 & H6 & H7 & H8) | [Hpt | (mq3 & H1 & H2 & H3 & H4 & H5 & H6 & H7 & H8 & H9 & H10 & H11)]].
        -- left. split; [exact H1 |]. split; [exact H2 |]. split; [exact H3 |]. split; [exact H4 |].
           split; [exact H5 |]. split; [exact H6 |]. split; [| exact H8].
           intros p Hp. rewrite (H7 p Hp). now apply Hsame2.
        -- right; left. exact Hpt.
        -- right; right. exists mq3. split; [exact H1 |]. split; [exact H2 |]. split; [exact H3 |].
           split; [exact H4 |]. split; [exact H5 |]. split; [exact H6 |]. split; [exact H7 |].
           split; [exact H8 |]. split; [exact H9 |]. split; [| exact H11].
           intros p Hp. rewrite (H10 p Hp). now apply Hsame2.
Qed.

(* ---------------------------------------------------------------- storing the result *)
Lemma stack_tail hl q r0 s : Inv hl (q :: r0) s -> NoDup r0 /\ incl r0 ns /\ chain r0 /\ ~ In q r0.
Proof.
  intros HI. assert (Hnd := iv_nd _ _ _ HI). apply NoDup_cons_iff in Hnd as [Hn Hnd].
  split; [exact Hnd |]. split; [intros x Hx; apply (iv_incl _ _ _ HI); now right |].
  split; [| exact Hn]. assert (Hc := iv_chain _ _ _ HI). destruct r0 as [| a r]; [exact I | now destruct Hc].
Qed.

Lemma pres_put_idle q r0 s1 s2 m' : ~ In q r0 -> mupd s1 s2 q m' -> ~ done s1 q ->
  (forall h it mh, In h r0 -> partat s1 q h it -> c_memo s1 h = Some mh -> own h mh -> cm_iter mh = it -> False) ->
  pres r0 s1 s2.
Proof.
  intros Hnq Hu Hnd Hnl.
  split; [intros d; now apply (done_upd _ _ _ _ _ Hu) |].
  split.
  { intros p Hp m Hm. rewrite (mupd_other _ _ _ _ _ Hu); [exact Hm | intros ->; contradiction]. }
  split.
  { intros p Hp Hm. left. rewrite (mupd_other _ _ _ _ _ Hu); [exact Hm | intros ->; contradiction]. }
  intros d h it mh Hh Hpa Hmh Ho Hit. apply (partat_upd _ _ _ _ _ _ _ Hu); [| exact Hpa].
  intros ->. eapply Hnl; eassumption.
Qed.

Lemma idle_not_live s q h it mh : idle s q -> partat s q h it -> c_memo s h = Some mh -> iter_of mh = it -> False.
Proof.
  unfold idle. intros Hi (md & Hmd & Hp) Hmh He. rewrite Hmd in Hi.
  destruct Hi as (h' & it' & mh' & Hp' & Hmh' & Hne).
  destruct (part_inj _ _ _ _ _ _ Hp Hp') as [<- <-]. rewrite Hmh in Hmh'. injection Hmh' as <-. contradiction.
Qed.

Lemma finish_completed q r0 s1 s2 m :
  Inv (q :: r0) (q :: r0) s1 -> (forall m0, c_memo s1 q = Some m0 -> ~ own q m0) ->
  mupd s1 s2 q m ->
  cm_final m = true -> cm_val m = Some (SV q) -> cm_verified m = REV_START -> cm_changed m = REV_START ->
  iter_of m <= 15 -> (forall d, In d (sc q) -> done s1 d) ->
  Inv (q :: r0) r0 s2 /\ pres r0 s1 s2 /\ done s2 q.
Proof.
  intros HI1 Hnown Hu Hf Hv Hver Hchg Hit Hsucc.
  destruct (stack_tail _ _ _ _ HI1) as (Hnd & Hin & Hch & Hnq).
  assert (Hidle : idle s1 q) by (apply (stack_idle _ _ _ _ HI1 (or_introl eq_refl) Hnown)).
  assert (Hndone := idle_not_done _ _ Hidle).
  assert (Hqn : In q ns) by (apply (iv_incl _ _ _ HI1); now left).
  split; [| split].
  - apply (Inv_upd (q :: r0) (q :: r0) r0 s1 s2 q m HI1 Hu Hnd Hin Hch).
    + constructor; try assumption.
      * exists (SV q). exact Hv.
      * left. split; [exact Hf |]. split; [exact Hv |]. split; [exact Hnq |]. split; [exact Hit |].
        intros d Hd. apply (done_upd _ _ _ _ _ Hu Hndone), Hsucc, Hd.
    + apply (others_idle (q :: r0) (q :: r0) r0 s1 s2 q m HI1 Hu Hidle).
      * intros x Hx. now right.
      * intros h Hh Hb. apply (bottom_pop lvl r0 h q); [congruence | exact Hb].
  - apply (pres_put_idle q r0 s1 s2 m Hnq Hu Hndone).
    intros h it mh _ Hpa Hmh Ho Hi. destruct (own_heads _ _ Ho) as [_ Hio].
    eapply idle_not_live; try eassumption. now rewrite Hio.
  - exists m. split; [apply (mupd_same _ _ _ _ Hu) | now left].
Qed.

Lemma finish_participant q r0 s1 s2 m b it mb v :
  Inv (q :: r0) (q :: r0) s1 -> (forall m0, c_memo s1 q = Some m0 -> ~ own q m0) ->
  mupd s1 s2 q m ->
  part q b it m -> cm_val m = Some v -> cm_verified m = REV_START -> cm_changed m = REV_START ->
  cm_iter m <= it + 1 -> c_memo s1 b = Some mb -> own b mb -> cm_iter mb = it -> npath q b ->
  v = SV q ->
  (forall d, In d (sc q) -> done s1 d \/ d = b \/ partat s1 d b it) ->
  Inv (q :: r0) r0 s2 /\ pres r0 s1 s2 /\ partat s2 q b it /\ c_memo s2 b = Some mb.
Proof.
  intros HI1 Hnown Hu Hp Hv Hver Hchg Hmi Hmb Ho Hitb Hqb HvK Hsucc.
  destruct (stack_tail _ _ _ _ HI1) as (Hnd & Hin & Hch & Hnq).
  assert (Hidle : idle s1 q) by (apply (stack_idle _ _ _ _ HI1 (or_introl eq_refl) Hnown)).
  assert (Hndone := idle_not_done _ _ Hidle).
  assert (Hqn : In q ns) by (apply (iv_incl _ _ _ HI1); now left).
  assert (Hbq : b <> q) by apply Hp.
  assert (Hmb2 : c_memo s2 b = Some mb) by (now rewrite (mupd_other _ _ _ _ _ Hu Hbq)).
  destruct (kind_of_own _ _ _ _ (iv_memo _ _ _ HI1 b mb Hmb) Ho) as (_ & Hbb & _ & _ & Hpot & _).
  destruct (own_heads _ _ Ho) as [_ Hio].
  split; [| split; [| split]].
  - apply (Inv_upd (q :: r0) (q :: r0) r0 s1 s2 q m HI1 Hu Hnd Hin Hch).
    + constructor; try assumption.
      * exists v. exact Hv.
      * right; right. exists b, it, mb. split; [exact Hp |]. split; [exact Hqb |]. split; [exact Hmb2 |].
        split; [now left |]. split; [rewrite Hio; lia |]. split; [lia |]. split; [exact Hmi |].
        split.
        { intros _ _. split; [rewrite Hv, HvK; reflexivity |].
          split; [exact Hnq |]. intros d Hd. destruct (Hsucc d Hd) as [H1 | [H1 | H1]].
          - left. now apply (done_upd _ _ _ _ _ Hu Hndone).
          - right; left. exact H1.
          - right; right. destruct (key_eqb_spec d q) as [-> | Hdq].
            + exists m. split; [apply (mupd_same _ _ _ _ Hu) | exact Hp].
            + now apply (partat_upd _ _ _ _ _ _ _ Hu). }
        { intros _ Hf. destruct Ho as (Hnf & _). congruence. }
    + apply (others_idle (q :: r0) (q :: r0) r0 s1 s2 q m HI1 Hu Hidle).
      * intros x Hx. now right.
      * intros h Hh Hb. apply (bottom_pop lvl r0 h q); [congruence | exact Hb].
  - apply (pres_put_idle q r0 s1 s2 m Hnq Hu Hndone).
    intros h it' mh _ Hpa Hmh Ho' Hi. destruct (own_heads _ _ Ho') as [_ Hio'].
    eapply idle_not_live; try eassumption. now rewrite Hio'.
  - exists m. split; [apply (mupd_same _ _ _ _ Hu) | exact Hp].
  - exact Hmb2.
Qed.

Lemma finish_head q r0 s1 s2 m mq v :
  Inv (q :: r0) (q :: r0) s1 -> c_memo s1 q = Some mq -> own q mq -> cm_val mq = Some v ->
  v = cinit q ->
  mupd s1 s2 q m ->
  cm_final m = true -> cm_val m = Some v -> cm_verified m = REV_START -> cm_changed m = REV_START ->
  iter_of m = cm_iter mq ->
  (forall d, In d (sc q) -> done s1 d \/ d = q \/ partat s1 d q (cm_iter mq)) ->
  Inv (q :: r0) r0 s2 /\ pres r0 s1 s2 /\ done s2 q /\ v = SV q.
Proof.
  intros HI1 Hmq Hown Hlv Hconv Hu Hf Hv Hver Hchg Hit Hsucc.
  destruct (stack_tail _ _ _ _ HI1) as (Hnd & Hin & Hch & Hnq).
  assert (Hok := iv_memo _ _ _ HI1 q mq Hmq).
  destruct (kind_of_own _ _ _ _ Hok Hown) as (_ & Hbot & Hfix & _ & Hpot & _ & (Hcq & _) & _).
  assert (Hqn : In q ns) by apply (mo_ns _ _ _ _ Hok).
  assert (Hndone : ~ done s1 q) by (eapply own_not_done; eassumption).
  assert (HvK : v = SV q) by (rewrite Hconv; symmetry; now apply sv_cyc).
  destruct (own_heads _ _ Hown) as [_ Hio].
  assert (Hdq : done s2 q) by (exists m; split; [apply (mupd_same _ _ _ _ Hu) | now left]).
  split; [| split; [| split]].
  - apply (Inv_upd (q :: r0) (q :: r0) r0 s1 s2 q m HI1 Hu Hnd Hin Hch).
    + constructor; try assumption.
      * exists v. exact Hv.
      * left. split; [exact Hf |]. split; [now rewrite Hv, HvK |]. split; [exact Hnq |].
        split; [rewrite Hit; unfold hpot in Hpot; lia |].
        intros d Hd. destruct (Hsucc d Hd) as [H1 | [H1 | H1]].
        -- now apply (done_upd _ _ _ _ _ Hu Hndone).
        -- subst d. exact Hdq.
        -- destruct H1 as (md & Hmd & Hpd). assert (Hdq' : d <> q).
           { intros ->. rewrite Hmq in Hmd. injection Hmd as <-. exact (own_not_part _ _ _ _ Hown Hpd). }
           exists md. split; [now rewrite (mupd_other _ _ _ _ _ Hu Hdq') |].
           right. exists q, (cm_iter mq), m. split; [exact Hpd |]. split; [apply (mupd_same _ _ _ _ Hu) |].
           now split.
    + apply (others_own (q :: r0) (q :: r0) r0 s1 s2 q mq m HI1 Hu Hmq Hown).
      * intros x Hx. now right.
      * intros h Hh Hb. apply (bottom_pop lvl r0 h q); [congruence | exact Hb].
      * right. split; [exact Hf |]. now rewrite Hit, Hio.
  - apply (pres_put_idle q r0 s1 s2 m Hnq Hu Hndone).
    intros h it mh _ (md & Hmd & Hpd) _ _ _. rewrite Hmq in Hmd. injection Hmd as <-.
    exact (own_not_part _ _ _ _ Hown Hpd).
  - exact Hdq.
  - exact HvK.
Qed.

(* ---------------------------------------------------------------- execute *)
Lemma execute_iterate_ok L n nn' st q r0 s :
  st = q :: r0 -> fetch_spec L n -> (length ns < n + length st)%nat ->
  Inv st st s -> (forall m, c_memo s q = Some m -> ~ own q m) ->
  cwp (execute_iterate prog strat cinit (S nn') L q (c_memo s q)) (loop_post st q r0 s) s.
Proof.
  intros Hst HL Hfuel HI Hnown. unfold execute_iterate. apply cwp_bind, cwp_get. apply cwp_bind.
  assert (Hq : In q st) by (rewrite Hst; now left).
  assert (Hidle := stack_idle _ _ _ _ HI Hq Hnown).
  destruct (c_memo s q) as [o |] eqn:Ho.
  - rewrite (memo_verified _ _ _ _ _ HI Ho).
    assert (Hcc : negb (stamp_ccount (iter_of o) =? c_ccount s) = false).
    { rewrite (iv_cc _ _ _ HI), stamp_ccount_small; [reflexivity |].
      assert (H := memo_iter_small _ _ _ _ _ HI Ho). lia. }
    rewrite Hcc. destruct (memo_val _ _ _ _ _ HI Ho) as (v & Hv). rewrite Hv.
    unfold idle in Hidle. rewrite Ho in Hidle.
    destruct Hidle as (h & it & mh & Hp & Hmh & Hne).
    destruct (part_heads _ _ _ _ Hp) as [Hh _]. rewrite Hh.
    assert (Hhq : key_eqb h q = false) by (apply key_eqb_neq; apply Hp).
    cbn [heads_contains existsb fst]. rewrite Hhq. cbn [orb].
    apply cwp_ret. apply cwp_on_panic.
    apply (iter_loop_ok L n nn' st q r0 Hst HL Hfuel LOOP_FUEL s _ HI).
    + left. split; [reflexivity |]. split; [cbn; now rewrite Ho |]. split.
      * intros m Hm. rewrite Ho in Hm. injection Hm as <-. split; [exact (Hnown o eq_refl) | reflexivity].
      * intros Hn. congruence.
    + unfold LOOP_FUEL. lia.
  - apply cwp_ret. apply cwp_on_panic.
    apply (iter_loop_ok L n nn' st q r0 Hst HL Hfuel LOOP_FUEL s _ HI).
    + left. split; [reflexivity |]. split; [cbn; now rewrite Ho |]. split.
      * intros m Hm. congruence.
      * intros _. cbn. now rewrite (iv_cc _ _ _ HI).
    + unfold LOOP_FUEL. lia.
Qed.

Lemma execute_panic_ok L n st q r0 s :
  st = q :: r0 -> fetch_spec L n -> (length ns < n + length st)%nat ->
  Inv st st s -> (forall m, c_memo s q = Some m -> ~ own q m) ->
  recovers (strat_of strat q) = false ->
  cwp (execute_panic prog L q (c_memo s q)) (loop_post st q r0 s) s.
Proof.
  intros Hst HL Hfuel HI Hnown Hrec. unfold execute_panic. apply cwp_bind.
  assert (Hq : In q st) by (rewrite Hst; now left).
  assert (Hqn : In q ns) by (now apply (iv_incl _ _ _ HI)).
  assert (Hseed : forall m, c_memo s q = Some m -> cm_changed m = REV_START).
  { intros m Hm. apply (mo_chg _ _ _ _ (iv_memo _ _ _ HI q m Hm)). }
  eapply cwp_conseq; [apply (run_query_ok L n st q r0 s _ Hst HL Hfuel HI Hseed) |].
  intros s1 [v fr] (HI1 & Hp1 & Hv & (Hchg & Hk) & Hdur & Hun & Hsame). cbn [fst snd] in *.
  destruct Hk as [(Hh & Hr) | (b & it & mb & Hb & Hh & Hmb & Ho & Hitb & (e0 & He0 & Hw) & Hr)].
  - specialize (Hsame Hh). apply cwp_bind. unfold pop_query. apply cwp_modify. rewrite Hh. apply cwp_ret.
    assert (Hnq : ~ In q r0).
    { assert (Hnd := iv_nd _ _ _ HI). rewrite Hst in Hnd. now apply NoDup_cons_iff in Hnd as [Hn _]. }
    split; [apply Inv_set_qstack, HI1 |].
    split; [rewrite Hst in Hp1; apply (pres_pop q r0 s _ Hnq Hp1) |]. split; [exact Hchg |].
    left. split; [reflexivity |]. split; [reflexivity |]. split; [apply complete_frame_raw |].
    split; [rewrite Hv; eapply completed_value; eassumption |].
    split; [rewrite complete_frame_iter; unfold stamp_default; lia |].
    split; [intros m Hm; apply Hnown; rewrite <- (Hsame q Hq); exact Hm |].
    split; [intros p Hp; apply Hsame; rewrite Hst; now right | exact Hr].
  - exfalso.
    assert (Hlb : lvl b = lvl q) by (eapply botof_top_level; eassumption).
    assert (Hle0 : lvl e0 = lvl q).
    { destruct Hw as [-> | (md & Hmd & Hpd)]; [exact Hlb |].
      rewrite <- Hlb. symmetry. apply npath_lvl. exact (part_npath _ _ _ _ _ _ _ HI1 Hmd Hpd). }
    destruct (Hcalls q e0 Hqn He0) as [_ [Hlt | Hn]]; [lia |].
    destruct (Hnxt q e0 Hn) as (_ & Hs & _). unfold fixy, fby_of in Hs. rewrite Hs in Hrec. discriminate.
Qed.

Definition fin_memo (rv : cmemo) (v : val) (r : rev) : cmemo := with_value (cdiscard_edges rv) (Some v) r.

Lemma fin_memo_fields rv v r :
  cm_final (fin_memo rv v r) = cm_final rv /\ cm_extra (fin_memo rv v r) = cm_extra rv /\
  cm_iter (fin_memo rv v r) = cm_iter rv /\ cm_heads (fin_memo rv v r) = cm_heads rv /\
  cm_changed (fin_memo rv v r) = cm_changed rv /\ cm_val (fin_memo rv v r) = Some v /\
  cm_verified (fin_memo rv v r) = r.
Proof.
  unfold fin_memo, cdiscard_edges.
  destruct ((cm_dur rv =? D_NEVER) && negb (cm_untracked rv) && match raw_heads rv with [] => true | _ => false end);
    repeat split.
Qed.

Lemma cbackdate_noop old v rv :
  (forall o, old = Some o -> cm_final o = false) -> cbackdate old v rv = COk rv.
Proof.
  intros Ho. destruct old as [o |]; [| reflexivity]. unfold cbackdate. rewrite (Ho o eq_refl).
  rewrite Bool.andb_false_r. reflexivity.
Qed.

Definition exec_post (q : qkey) (r0 : list qkey) (s s' : cdb) (m : cmemo) : Prop :=
  Inv r0 r0 s' /\ pres r0 s s' /\ c_memo s' q = Some m /\ cm_changed m = REV_START /\
  exists v, cm_val m = Some v /\
    ((cm_final m = true /\ v = SV q /\ done s' q /\ forall p, In p r0 -> c_memo s' p = c_memo s p) \/
     (exists b it mb, part q b it m /\ botof lvl (q :: r0) = Some b /\ In b r0 /\ c_memo s' b = Some mb /\
                      own b mb /\ cm_iter mb = it /\ v = SV q)).

Lemma cexecute_ok L n nn' q r0 s mode0 :
  fetch_spec L n -> (length ns < n + length (q :: r0))%nat ->
  Inv (q :: r0) (q :: r0) s -> (forall m, c_memo s q = Some m -> ~ own q m) ->
  (mode0 = RDefault \/ mode0 = RSelfOnly) ->
  cwp (cexecute prog strat cinit (S nn') L q mode0 (c_memo s q)) (exec_post q r0 s) s.
Proof.
  intros HL Hfuel HI Hnown Hmode0. unfold cexecute.
  set (st := q :: r0) in *.
  assert (Hst : st = q :: r0) by reflexivity.
  destruct (stack_tail _ _ _ _ HI) as (Hnd & Hin & Hch & Hnq).
  assert (Hidle : idle s q) by (apply (stack_idle _ _ _ _ HI (or_introl eq_refl) Hnown)).
  assert (Hold : forall o, c_memo s q = Some o -> cm_final o = false).
  { intros o Ho. unfold idle in Hidle. rewrite Ho in Hidle. destruct Hidle as (h & it & mh & Hp & _). apply Hp. }
  apply cwp_bind, cwp_emit.
  set (se := cset_log s _).
  assert (HIe : Inv st st se) by (apply Inv_set_log, HI).
  (* the execution proper *)
  assert (Hrun : cwp (if recovers (strat_of strat q)
                      then execute_iterate prog strat cinit (S nn') L q (c_memo s q)
                      else x <- execute_panic prog L q (c_memo s q) ;;
                           let '(v, rv, _) := x in cret (v, rv, mode0))
                     (fun s1 out => let '(v, rv, mode) := out in
                        loop_post st q r0 s s1 (v, rv, mode) \/
                        (loop_post st q r0 s s1 (v, rv, RDefault) /\ mode = mode0 /\ cm_final rv = true)) se).
  { destruct (recovers (strat_of strat q)) eqn:Hrec.
    - eapply cwp_conseq; [apply (execute_iterate_ok L n nn' st q r0 se Hst HL Hfuel HIe Hnown) |].
      intros s1 [[v rv] mode] H. left. exact H.
    - apply cwp_bind.
      eapply cwp_conseq; [apply (execute_panic_ok L n st q r0 se Hst HL Hfuel HIe Hnown Hrec) |].
      intros s1 [[v rv] mode] H. apply cwp_ret. right. 
      destruct H as (H1 & H2 & H3 & Hc).
      destruct Hc as [(Hm & Hf & Hrest) | [Hpt | (mq & Hmq & Hown & Hrest)]].
      + subst mode. split; [| split; [reflexivity | exact Hf]].
        split; [exact H1 |]. split; [exact H2 |]. split; [exact H3 |]. left. split; [reflexivity |]. split; assumption.
      + exfalso. destruct Hpt as (b & it & mb & _ & _ & Hb & _ & _ & _ & _ & _ & Hmb & Ho & _ & _ & Hqb & _).
        inversion Hqb as [a h Hn | a d h Hn _]; subst;
          destruct (Hnxt q _ Hn) as (_ & Hs & _); unfold fixy, fby_of in Hs; rewrite Hs in Hrec; discriminate.
      + exfalso. destruct (kind_of_own _ _ _ _ (iv_memo _ _ _ H1 q mq Hmq) Hown) as (_ & _ & Hs & _);
          unfold fixy, fby_of in Hs; rewrite Hs in Hrec; discriminate. }
  apply cwp_bind. eapply cwp_conseq; [exact Hrun |]. clear Hrun.
  intros s1 [[v rv] mode] Hout.
  rewrite (cbackdate_noop (c_memo s q) v rv Hold).
  apply cwp_bind, cwp_get. fold (fin_memo rv v (ccur s1)).
  assert (Hcases : exists mode', loop_post st q r0 s s1 (v, rv, mode') /\
                     (mode = mode' \/ (mode' = RDefault /\ mode = mode0 /\ cm_final rv = true))).
  { destruct Hout as [H | (H & Hm & Hf)]; [exists mode; split; [exact H | now left] |].
    exists RDefault. split; [exact H |]. right. now repeat split. }
  destruct Hcases as (mode' & (HI1 & Hp1 & Hchg & Hc) & Hmode).
  rewrite (ccur_inv _ _ _ HI1).
  destruct (fin_memo_fields rv v REV_START) as (F1 & F2 & F3 & F4 & F5 & F6 & F7).
  set (m := fin_memo rv v REV_START) in *.
  apply cwp_bind. unfold put_memo. apply cwp_modify.
  set (s2 := cset_memo s1 _).
  assert (Hu : mupd s1 s2 q m) by apply mupd_put.
  assert (Hio : iter_of m = iter_of rv) by (unfold iter_of; now rewrite F2, F3).
  assert (Hrel : forall mode'', (mode'' = RDefault \/ mode'' = RSelfOnly) ->
            forall o, mode'' = RTransfer o -> In o r0) by (intros mm [-> | ->] o Ho; discriminate).
  destruct Hc as [(Hm' & Hf & Hrh & HvK & Hi & Hno & Hsame & Hsucc) | [Hpt | (mq & Hmq & Hown & Hm' & Hf & He & Hh & Hit & Hlv & Hconv & Hsame & Hsucc)]].
  - (* completed *)
    destruct (finish_completed q r0 s1 s2 m HI1 Hno Hu) as (HI2 & Hp2 & Hd2); try assumption; try congruence.
    { rewrite Hio. lia. }
    apply cwp_bind.
    assert (Hmode_ok : forall o, mode = RTransfer o -> In o r0).
    { destruct Hmode as [-> | (_ & -> & _)]; [subst mode'; intros o Ho; discriminate | now apply Hrel]. }
    eapply cwp_conseq; [apply (drop_guard_ok r0 r0 s2 q mode HI2 Hnq Hmode_ok) |].
    intros s3 [] (HI3 & Hm3). apply cwp_ret.
    split; [exact HI3 |]. split; [apply (pres_eq_r r0 s s2 s3 Hm3), (pres_trans _ _ _ _ Hp1 Hp2) |].
    split; [rewrite Hm3; apply (mupd_same _ _ _ _ Hu) |]. split; [congruence |].
    exists v. split; [exact F6 |]. left. split; [congruence |]. split; [exact HvK |].
    split; [now apply (done_eq s2 s3) |].
    intros p Hp. rewrite Hm3. rewrite (mupd_other _ _ _ _ _ Hu); [now apply Hsame | intros ->; contradiction].
  - (* participant *)
    destruct Hpt as (b & it & mb & Hbq & Hmt & Hbst & Hf & He & Hh & Hmi & Hchg' & Hmb & Ho & Hitb & Hv & Hqb & Hno & Hsucc).
    assert (Hpart : part q b it m).
    { split; [congruence |]. split; [congruence |]. split; [congruence | exact Hbq]. }
    destruct (finish_participant q r0 s1 s2 m b it mb v HI1 Hno Hu Hpart F6 F7) as (HI2 & Hp2 & Hpa2 & Hmb2);
      try assumption; try congruence.
    assert (Hbr : In b r0) by (destruct Hbst as [Hx | Hx]; [congruence | exact Hx]).
    assert (Hmode_eq : mode = RTransfer b).
    { destruct Hmode as [-> | (_ & _ & Hfr)]; [exact Hmt | congruence]. }
    apply cwp_bind.
    eapply cwp_conseq; [apply (drop_guard_ok r0 r0 s2 q mode HI2 Hnq) |].
    { intros o Ho'. rewrite Hmode_eq in Ho'. injection Ho' as <-. exact Hbr. }
    intros s3 [] (HI3 & Hm3). apply cwp_ret.
    split; [exact HI3 |]. split; [apply (pres_eq_r r0 s s2 s3 Hm3), (pres_trans _ _ _ _ Hp1 Hp2) |].
    split; [rewrite Hm3; apply (mupd_same _ _ _ _ Hu) |]. split; [congruence |].
    exists v. split; [exact F6 |]. right. exists b, it, mb. split; [exact Hpart |].
    split; [apply (own_is_botof st q r0 Hst st s1 b mb HI1 Hmb Ho); now apply npath_lvl |].
    split; [exact Hbr |]. split; [now rewrite Hm3 |]. split; [exact Ho |]. split; [exact Hitb |].
    exact Hv.
  - (* head, converged *)
    destruct (finish_head q r0 s1 s2 m mq v HI1 Hmq Hown Hlv Hconv Hu) as (HI2 & Hp2 & Hd2 & HvK);
      try assumption; try congruence.
    { rewrite Hio. unfold iter_of. now rewrite He, Hit. }
    apply cwp_bind.
    assert (Hmode_ok : forall o, mode = RTransfer o -> In o r0).
    { destruct Hmode as [-> | (_ & -> & _)]; [subst mode'; intros o Ho; discriminate | now apply Hrel]. }
    eapply cwp_conseq; [apply (drop_guard_ok r0 r0 s2 q mode HI2 Hnq Hmode_ok) |].
    intros s3 [] (HI3 & Hm3). apply cwp_ret.
    split; [exact HI3 |]. split; [apply (pres_eq_r r0 s s2 s3 Hm3), (pres_trans _ _ _ _ Hp1 Hp2) |].
    split; [rewrite Hm3; apply (mupd_same _ _ _ _ Hu) |]. split; [congruence |].
    exists v. split; [exact F6 |]. left. split; [congruence |]. split; [exact HvK |].
    split; [now apply (done_eq s2 s3) |].
    intros p Hp. rewrite Hm3. rewrite (mupd_other _ _ _ _ _ Hu); [now apply Hsame | intros ->; contradiction].
Qed.

End Loop.

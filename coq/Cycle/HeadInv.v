(* Cycle/HeadInv.v — cycle heads are sound, for ALL programs, strategies and histories: every head
   recorded in a valued memo (and every head collected in a frame) is a key that the memo's (the
   frame's) key can reach in the static call graph and that lies on a cycle of it; every recorded
   query edge is a transitive callee.  Definitions and the invariant; on top of the claim
   invariant of Cycle/LockInv.v, with the extra fact that the open claims form a chain of calls. *)
From Coq Require Import PeanoNat Lia.
From Salsa Require Import Base.
From Salsa.Kern Require Import CoreK.
From Salsa.Core Require Import Spec.
From Salsa.Cycle Require Import StampK Model LockInv LockOps.

Section HeadInv.
Variable prog : qkey -> body.

(* the static call graph: p may call d, under some answers *)
Inductive reach : qkey -> qkey -> Prop :=
| r_one p d : calls (prog p) d -> reach p d
| r_step p d e : calls (prog p) d -> reach d e -> reach p e.

Lemma reach_trans a b c : reach a b -> reach b c -> reach a c.
Proof.
  induction 1 as [p d H | p d e H _ IH]; intros Hc.
  - exact (r_step p d c H Hc).
  - exact (r_step p d c H (IH Hc)).
Qed.

Definition reachR (p d : qkey) : Prop := p = d \/ reach p d.
Definition cyc (h : qkey) : Prop := reach h h.

Lemma reach_reachR a b c : reach a b -> reachR b c -> reach a c.
Proof. intros H [<- | H']; [exact H | exact (reach_trans a b c H H')]. Qed.
Lemma reachR_trans a b c : reachR a b -> reachR b c -> reachR a c.
Proof. intros [<- | H] H'; [exact H' | right; exact (reach_reachR a b c H H')]. Qed.

Definition heads_hok (p : qkey) (hs : list head) : Prop :=
  forall h, In h hs -> reachR p (fst h) /\ cyc (fst h).
Definition edges_hok (p : qkey) (es : list edge) : Prop :=
  forall d, In (EQ d) es -> reach p d.

(* a memo of key p *)
Definition memo_hok (p : qkey) (m : cmemo) : Prop :=
  edges_hok p (cm_edges m) /\ (cm_val m <> None -> heads_hok p (raw_heads m)).
(* a completed frame of key p, before the value is filled in *)
Definition rev_hok (p : qkey) (m : cmemo) : Prop :=
  edges_hok p (cm_edges m) /\ heads_hok p (raw_heads m).

Definition MH (s : cdb) : Prop := forall p m, c_memo s p = Some m -> memo_hok p m.

(* the open claims, innermost first: each was requested by the next one *)
Fixpoint chn (hl : list qkey) : Prop :=
  match hl with
  | a :: ((b :: _) as r) => reach b a /\ chn r
  | _ => True
  end.

(* who asks: the innermost open claim reaches the requested key *)
Definition req (hl : list qkey) (d : qkey) : Prop := forall k r, hl = k :: r -> reach k d.

Definition KH (hl stk : list qkey) (s : cdb) : Prop := K hl stk s /\ chn hl /\ MH s.

Lemma chn_tail a hl : chn (a :: hl) -> chn hl.
Proof. destruct hl as [| b r]; [intros _; exact I | intros [_ H]; exact H]. Qed.

Lemma chn_push hl d : chn hl -> req hl d -> chn (d :: hl).
Proof. intros Hc Hr. destruct hl as [| k r]; [exact I |]. split; [apply (Hr k r eq_refl) | exact Hc]. Qed.

(* every open claim reaches the innermost one *)
Lemma chn_reach : forall hl a x, chn (a :: hl) -> In x hl -> reach x a.
Proof.
  induction hl as [| b r IH]; intros a x Hc Hx; [destruct Hx |].
  destruct Hc as [Hba Hc]. destruct Hx as [<- | Hx]; [exact Hba |].
  apply (reach_trans x b a); [apply (IH b x Hc Hx) | exact Hba].
Qed.

(* a key with an open claim that is requested again lies on a cycle *)
Lemma reentry_cyc hl q : chn hl -> req hl q -> In q hl -> cyc q.
Proof.
  intros Hc Hr Hq. destruct hl as [| k r]; [destruct Hq |].
  pose proof (Hr k r eq_refl) as Hkq. destruct Hq as [<- | Hq]; [exact Hkq |].
  apply (reach_trans q k q); [apply (chn_reach r k q Hc Hq) | exact Hkq].
Qed.

(* ---------------------------------------------------------------- quiet computations *)
(* claim state, stack and memo table are as they were, whatever the outcome *)
Definition quiet {A} (m : CM A) : Prop :=
  forall s, lksim s (fst (m s)) /\ c_memo (fst (m s)) = c_memo s.

Lemma quiet_ret {A} (a : A) : quiet (cret a).
Proof. intros s. split; [apply lksim_refl | reflexivity]. Qed.
Lemma quiet_fail {A} p : quiet (@cfail A p).
Proof. intros s. split; [apply lksim_refl | reflexivity]. Qed.
Lemma quiet_nofuel {A} : quiet (@cnofuel A).
Proof. intros s. split; [apply lksim_refl | reflexivity]. Qed.
Lemma quiet_get : quiet cget.
Proof. intros s. split; [apply lksim_refl | reflexivity]. Qed.
Lemma quiet_bind {A B} (m : CM A) (f : A -> CM B) : quiet m -> (forall a, quiet (f a)) -> quiet (cbind m f).
Proof.
  intros Hm Hf s. unfold cbind. specialize (Hm s). destruct (m s) as [s1 [a | p |]]; cbn [fst] in *; try exact Hm.
  destruct Hm as [A1 A2]. destruct (Hf a s1) as [B1 B2]. split; [eapply lksim_trans; eassumption | congruence].
Qed.
Lemma quiet_modify f : (forall s, lksim s (f s) /\ c_memo (f s) = c_memo s) -> quiet (cmodify f).
Proof. intros H s. apply H. Qed.
Lemma quiet_lks {A} (m : CM A) : quiet m -> lks m.
Proof. intros H s. apply H. Qed.

Lemma MH_eq s s' : c_memo s' = c_memo s -> MH s -> MH s'.
Proof. intros He H p m Hm. rewrite He in Hm. exact (H p m Hm). Qed.

Lemma KH_sim hl stk s s' : lksim s s' -> c_memo s' = c_memo s -> KH hl stk s -> KH hl stk s'.
Proof.
  intros Hs Hm (HK & Hc & HM). split; [apply (K_sim hl stk s s' Hs HK) |]. split; [exact Hc | apply (MH_eq s s' Hm HM)].
Qed.

Lemma awp_quiet {A} (m : CM A) hl stk s : quiet m -> KH hl stk s ->
  awp m (fun _ s' => KH hl stk s' /\ c_memo s' = c_memo s) (KH hl stk) s.
Proof.
  intros Hm HK. unfold awp. destruct (Hm s) as [A1 A2]. destruct (m s) as [s1 [a | p |]]; cbn [fst] in *.
  - split; [apply (KH_sim hl stk s s1 A1 A2 HK) | exact A2].
  - apply (KH_sim hl stk s s1 A1 A2 HK).
  - exact I.
Qed.

Lemma quiet_emit e : quiet (cemit e).
Proof. apply quiet_modify. intros s. split; [apply lksim_fields; reflexivity | reflexivity]. Qed.

Lemma quiet_peek_claim q : quiet (peek_claim q).
Proof.
  intros s. split; [apply lks_peek_claim |].
  unfold peek_claim, cbind, cget. destruct (c_sync s q) as [y |]; [| reflexivity].
  destruct (sy_trans y); [destruct (trans_get (c_trans s) q); reflexivity | reflexivity].
Qed.

(* ---------------------------------------------------------------- writing a memo *)
Lemma MH_put s q m : MH s -> memo_hok q m -> MH (cset_memo s (upd (c_memo s) q (Some m))).
Proof.
  intros H Hm p mp. cbn. unfold upd. destruct (key_eqb_spec q p) as [<- | Hne].
  - intros A. injection A as <-. exact Hm.
  - apply H.
Qed.

Lemma KH_put hl stk s q m : KH hl stk s -> memo_hok q m ->
  KH hl stk (cset_memo s (upd (c_memo s) q (Some m))).
Proof.
  intros (HK & Hc & HM) Hm. split; [apply (K_sim hl stk s); [apply lksim_fields; reflexivity | exact HK] |].
  split; [exact Hc | apply MH_put; assumption].
Qed.

Lemma rev_memo_hok p m : rev_hok p m -> memo_hok p m.
Proof. intros [A B]. split; [exact A | intros _; exact B]. Qed.

(* ---------------------------------------------------------------- head lists *)
Lemma heads_insert_in hs q it hs' : heads_insert hs q it = Some hs' ->
  forall x, In x hs' -> In x hs \/ x = (q, it).
Proof.
  unfold heads_insert. destruct (heads_find hs q) as [it' |].
  - destruct (it' =? it); [| discriminate]. intros H. injection H as <-. intros x Hx. now left.
  - intros H. injection H as <-. intros x Hx. apply in_app_or in Hx as [Hx | [<- | []]]; [now left | now right].
Qed.

Lemma heads_extend_in other : forall hs hs', heads_extend hs other = Some hs' ->
  forall x, In x hs' -> In x hs \/ In x other.
Proof.
  induction other as [| h o IH]; intros hs hs' H x Hx; cbn [heads_extend] in H.
  - injection H as <-. now left.
  - destruct (heads_insert hs (fst h) (snd h)) as [hs1 |] eqn:Hi; [| discriminate].
    destruct (IH hs1 hs' H x Hx) as [H1 | H1]; [| right; now right].
    destruct (heads_insert_in _ _ _ _ Hi x H1) as [H2 | H2]; [now left |].
    right; left. destruct h. exact (eq_sym H2).
Qed.

Lemma insert_missing_in missing : forall hs hs', insert_missing hs missing = Some hs' ->
  forall x, In x hs' -> In x hs \/ In x missing.
Proof.
  induction missing as [| h o IH]; intros hs hs' H x Hx; cbn [insert_missing] in H.
  - injection H as <-. now left.
  - destruct (heads_insert hs (fst h) (snd h)) as [hs1 |] eqn:Hi; [| discriminate].
    destruct (IH hs1 hs' H x Hx) as [H1 | H1]; [| right; now right].
    destruct (heads_insert_in _ _ _ _ Hi x H1) as [H2 | H2]; [now left |].
    right; left. destruct h. exact (eq_sym H2).
Qed.

Lemma heads_hok_update p hs k it : heads_hok p hs -> heads_hok p (heads_update hs k it).
Proof.
  intros H h Hh. unfold heads_update in Hh. apply in_map_iff in Hh. destruct Hh as (x & Hx & Hin).
  destruct (key_eqb (fst x) k); subst h; cbn [fst]; apply (H x Hin).
Qed.

Lemma heads_hok_reach p d hs : reachR p d -> heads_hok d hs -> heads_hok p hs.
Proof. intros Hpd H h Hh. destruct (H h Hh) as [A B]. split; [exact (reachR_trans p d _ Hpd A) | exact B]. Qed.

Lemma In_add_edge' e' es e : In e' (add_edge es e) -> In e' es \/ e' = e.
Proof.
  unfold add_edge, Salsa.Core.Model.add_edge. destruct (existsb (edge_eqb e) es); [now left |].
  intros H. apply in_app_or in H. destruct H as [H | [H | []]]; [now left | right; now symmetry].
Qed.

End HeadInv.

(* Cycle/FreshThm.v — the fresh-revision theorem (C12_fresh, stage F1) with every hypothesis
   spelled out.  Class of programs: the call graph of the snapshot is input-determined, layered by
   [lvl]; the only same-level call of a node goes to [nxt] of it, [nxt] is injective and its edges
   are real calls; nodes with a same-level call use Fixpoint (default or joining cycle_fn) with
   cycle_initial = 0.  So every strongly connected component is a simple ring, entered at any
   member; rings at different levels may call each other downwards; everything else is acyclic. *)
From Coq Require Import PeanoNat.
From Salsa Require Import Base.
From Salsa.Kern Require Import CoreK.
From Salsa.Core Require Import Spec.
From Salsa.Cycle Require Import StampK Model Spec SpecProofs Cert FreshSem FreshBase FreshInv FreshTop.

Theorem fresh_ring :
  forall (prog : qkey -> body) (strat : N -> strategy) (cinit : qkey -> val)
         (iv : ikey -> val) (idur : ikey -> dur) (ns : list qkey)
         (lvl : qkey -> nat) (nxt : qkey -> option qkey) (nodes fuel : nat) (qs : list qkey),
  let sn := csnap_of (cinit_db iv idur) in
  monotone_prog prog sn -> fits8 prog sn -> input_determined prog sn ->
  ring_ok_of prog strat sn ns lvl nxt -> (forall q, cinit q = 0) ->
  (1 <= nodes)%nat -> (length ns <= fuel)%nat -> (forall q, In q qs -> In q ns) ->
  exists s',
    crun_ops prog strat cinit nodes fuel (cinit_db iv idur) (map COGet qs)
      = (s', map (fun q => COk (kleene prog sn ns q)) qs) /\
    is_fixpoint_state prog ns s' = true.
Proof.
  intros prog strat cinit iv idur ns lvl nxt nodes fuel qs sn Hm Hf Hd Hr Hi Hn Hfuel Hin.
  set (C := {| fprog := prog; fstrat := strat; fcinit := cinit; fiv := iv; fidur := idur; fns := ns;
               flvl := lvl; fnxt := nxt; fmono := Hm; ffits := Hf; fdet := Hd; fring := Hr; finit := Hi |}).
  destruct nodes as [| nn']; [lia |].
  destruct (@fresh_gets C nn' fuel Hfuel qs (@s0 C) (@Inv_init C) Hin) as (s' & Hrun & HI).
  exists s'. split; [exact Hrun | exact (@fresh_certificate C s' HI)].
Qed.

Print Assumptions fresh_ring.
